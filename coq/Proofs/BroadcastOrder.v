(* One transmitter || one copying receiver, every interleaving of their shared-memory accesses
   (Model/BroadcastThreads.v): the interleaved versions of the sequential theorems C08_order / C08_complete /
   C08_overrun as ONE inductive invariant of the two pc-machines.

   Result (theorem `interleaved`): the receiver's results, in the order they were returned, pass the
   judgement `jst`: every event handed to the handler is message number j of the list of messages handed
   to transmit - same type, same bytes -, the numbers j are strictly increasing (transmission order, no
   duplicate), and a delivery that skips messages (j larger than the number after the previous delivery, or
   than the message the receiver joined at) is preceded by a returned error (UnableToKeepUp, or BufferTooSmall
   for a message that does not fit the scratch buffer) since the previous delivery.

   It holds
   * for the repaired receive_next (w = W64R, fixes/C08-receive-next-revalidate.diff) on EVERY schedule;
   * for the code without that fix (w = W64) on every schedule OUTSIDE the class lap-inside-receive-next
     (KNOWN_FINDINGS.txt): ghost flag h_in = "receive_next has read a header word - length / type at its
     cursor, length at offset 0 after a padding record - at a moment when a validation of the record that
     word belongs to would fail (tail-intent > position + capacity)", i.e. the receiver was lapped inside
     receive_next and computed cursor / next_record from overwritten bytes.

   Invariant (hinv): tinv of BroadcastThreadsProofs.v for the transmitter; for the receiver (rxinv), with
   V = the visible stream (completed transmits + the record in flight once `latest` points at it):
   next_record is the position of a record of V or its tail; between receives the judgement stands at the
   number of real records before next_record (exactly there unless a loss is pending); inside receive_next
   the cursor c is the position of a record of V not before next_record, and the words read so far are
   that record's header words (code as found: because no read was stale; repaired code: provided
   tail-intent <= c + capacity still holds, which is what the second validation establishes); in the copy
   phase the cursor is on a real record e, next_record is its end, and what has been read is e's as long
   as tail-intent <= e_pos + capacity. *)
From Coq Require Import FMapPositive.
Require Import V.Base.MachineInt.
Require Import V.Generated.GenConsts.
Require Import V.Model.Broadcast.
Require Import V.Model.BroadcastThreads.
Require Import V.Spec.Lossy.
Require Import V.Proofs.BroadcastMem.
Require Import V.Proofs.BroadcastInv.
Require Import V.Proofs.BroadcastRefine.
Require Import V.Proofs.LossyProofs.
Require Import V.Proofs.BroadcastThreadsProofs.
From Coq Require Import ZifyBool.
Open Scope Z_scope.

(* ---------------------------------------------------------------- lists *)
Lemma filter_length_le {A} (f g : A -> bool) l :
  (forall x, In x l -> f x = true -> g x = true) -> (length (filter f l) <= length (filter g l))%nat.
Proof.
  induction l as [|x l IH]; intros H; cbn [filter]; [lia|].
  assert (IH' : (length (filter f l) <= length (filter g l))%nat) by (apply IH; intros; apply H; auto; now right).
  destruct (f x) eqn:F.
  - rewrite (H x (or_introl eq_refl) F). cbn [length]. lia.
  - destruct (g x); cbn [length]; lia.
Qed.

Lemma filter_same {A} (f g : A -> bool) l : (forall x, In x l -> f x = g x) -> filter f l = filter g l.
Proof.
  induction l as [|x l IH]; intros H; cbn [filter]; auto.
  rewrite (H x (or_introl eq_refl)), IH; auto. intros; apply H; now right.
Qed.

Lemma firstn_snoc_nth {A} (l : list A) : forall j x, nth_error l j = Some x -> firstn (S j) l = firstn j l ++ [x].
Proof.
  induction l as [|a l IH]; intros [|j] x H; cbn in H; try discriminate.
  - injection H as <-. reflexivity.
  - change (firstn (S (S j)) (a :: l)) with (a :: firstn (S j) l). rewrite (IH j x H). reflexivity.
Qed.

Lemma subseq_firstn_le {A} (l : list A) : forall i j, (i <= j)%nat -> subseq (firstn i l) (firstn j l).
Proof.
  induction l as [|a l IH]; intros i j H.
  - rewrite !firstn_nil. constructor.
  - destruct i; [constructor|]. destruct j; [lia|]. cbn [firstn]. constructor. apply IH. lia.
Qed.

(* ---------------------------------------------------------------- the judgement of a receiver's results
   Results newest first, each annotated with an index into the list `all` of the messages handed to transmit
   (only meaningful for deliveries).  State after the results so far: i = index of the first message that has
   neither been delivered nor been skipped, lost = an error has been returned since the last delivery.
   A delivery must be message number j >= i of `all`, byte for byte; j > i (a gap) only if a loss was reported. *)
Section Judge.
Variable all : list (Z * list Z).
Variable i0 : nat.

Inductive jst : list (rres * nat) -> nat -> bool -> Prop :=
| j_nil : jst [] i0 false
| j_none : forall older i lost j, jst older i lost -> jst ((RNone, j) :: older) i lost
| j_err : forall older i lost e j, jst older i lost -> jst ((RErr e, j) :: older) i true
| j_msg : forall older i lost ty bs j,
    jst older i lost -> nth_error all j = Some (ty, bs) -> (i <= j)%nat -> (lost = false -> j = i) ->
    jst ((RMsg ty bs, j) :: older) (S j) false.

Fixpoint dels (ann : list (rres * nat)) : list (Z * list Z) :=   (* oldest first *)
  match ann with
  | [] => []
  | (RMsg ty bs, _) :: older => dels older ++ [(ty, bs)]
  | _ :: older => dels older
  end.

Lemma jst_subseq ann i lost : jst ann i lost -> subseq (dels ann) (firstn i all).
Proof.
  induction 1; cbn [dels]; auto.
  - constructor.
  - rewrite (firstn_snoc_nth all j (ty, bs)) by auto. apply subseq_app.
    + eapply subseq_trans; [exact IHjst|]. apply subseq_firstn_le. exact H1.
    + apply subseq_refl.
Qed.

Lemma firstn_subseq {A} (l : list A) n : subseq (firstn n l) l.
Proof. revert n. induction l; intros [|n]; cbn; try constructor; auto. Qed.

Lemma jst_order ann i lost : jst ann i lost -> subseq (dels ann) all.
Proof. intros H. eapply subseq_trans; [apply (jst_subseq _ _ _ H)|apply firstn_subseq]. Qed.

Lemma jst_ge ann i lost : jst ann i lost -> (i0 <= i)%nat.
Proof. induction 1; lia. Qed.

Lemma nth_error_skipn {A} (l : list A) : forall a n, nth_error (skipn a l) n = nth_error l (a + n).
Proof. induction l as [|x l IH]; intros [|a] n; cbn; auto. destruct n; reflexivity. Qed.

(* completeness under interleaving: as long as no error has been returned nothing is skipped - the events handed to
   the handler are exactly the messages number i0 .. i-1 *)
Lemma jst_complete ann i lost :
  jst ann i lost -> (forall e j, ~ In (RErr e, j) ann) ->
  lost = false /\ dels ann = firstn (i - i0) (skipn i0 all).
Proof.
  induction 1; intros NE.
  - split; auto. rewrite Nat.sub_diag. reflexivity.
  - cbn [dels]. apply IHjst. intros e j' H'. apply (NE e j'). now right.
  - exfalso. apply (NE e j). now left.
  - destruct IHjst as [Lf D]; [intros e j' H'; apply (NE e j'); now right|].
    split; auto. specialize (H2 Lf). subst j. pose proof (jst_ge _ _ _ H). cbn [dels]. rewrite D.
    replace (S i - i0)%nat with (S (i - i0)) by lia.
    rewrite (firstn_snoc_nth (skipn i0 all) (i - i0) (ty, bs)); auto.
    rewrite nth_error_skipn. replace (i0 + (i - i0))%nat with i by lia. exact H0.
Qed.
End Judge.

(* the events handed to the handler, oldest first, from the receiver's results (newest first) *)
Fixpoint handed (out : list rres) : list (Z * list Z) :=
  match out with
  | [] => []
  | RMsg ty bs :: older => handed older ++ [(ty, bs)]
  | _ :: older => handed older
  end.

Lemma dels_handed ann : dels ann = handed (map fst ann).
Proof.
  induction ann as [|[res j] ann IH]; cbn [dels handed map fst]; auto.
  destruct res; rewrite IH; reflexivity.
Qed.

Lemma subseq_In {A} (l1 l2 : list A) : subseq l1 l2 -> forall x, In x l1 -> In x l2.
Proof.
  induction 1; intros y Hy; cbn in *; try contradiction.
  - destruct Hy as [->|Hy]; auto.
  - right. auto.
Qed.

Lemma handed_In out ty bs : In (RMsg ty bs) out -> In (ty, bs) (handed out).
Proof.
  induction out as [|res out IH]; cbn [In handed]; [tauto|]. intros [->|H].
  - apply in_or_app. right. left. reflexivity.
  - destruct res; auto. apply in_or_app. left. auto.
Qed.
Section Order.
Variables (cap k : Z).
Hypothesis Hcap : cap = 2 ^ k.
Hypothesis Hk : 5 <= k <= 30.

Let CB := cap_bounds cap k Hcap Hk.
Let C8 := cap_mod8 cap k Hcap Hk.

(* ---------------------------------------------------------------- the stream as a list of records *)
Record wfch (c0 : Z) (V : chan) : Prop := {
  wf_chain : chain c0 (c_log V) (c_tail V);
  wf_ents : Forall (ent_wf cap) (c_log V);
  wf_pads : pads_ok (c_log V);
  wf_last : (c_log V = [] /\ c_latest V = c_tail V) \/
            (exists d e, c_log V = d ++ [e] /\ e_pos e = c_latest V /\ is_pad e = false);
  wf_c0 : 0 <= c0 /\ c0 mod 8 = 0
}.

Lemma inv_wfch c0 mm V : inv cap c0 mm V -> wfch c0 V.
Proof. intros I. constructor; [apply (inv_chain _ _ _ _ I)|apply (inv_wf _ _ _ _ I)|apply (inv_pads _ _ _ _ I)|apply (inv_last _ _ _ _ I)|apply (inv_c0 _ _ _ _ I)]. Qed.

(* the record e of the stream V at position p, the records before it and after it *)
Definition at_pos (V : chan) (p : Z) (l1 : list ent) (e : ent) (l2 : list ent) : Prop :=
  c_log V = l1 ++ e :: l2 /\ e_pos e = p.

(* p is the position of a record of V or its tail *)
Definition bnd (V : chan) (p : Z) : Prop := p = c_tail V \/ exists l1 e l2, at_pos V p l1 e l2.

Lemma split_facts c0 V l1 e l2 :
  wfch c0 V -> c_log V = l1 ++ e :: l2 ->
  ent_wf cap e /\ c0 <= e_pos e /\ e_end e <= c_tail V /\
  Forall (fun x => c0 <= e_pos x /\ e_end x <= e_pos e /\ ent_wf cap x) l1 /\
  Forall (fun x => e_end e <= e_pos x /\ e_end x <= c_tail V /\ ent_wf cap x) l2 /\
  chain (e_end e) l2 (c_tail V).
Proof.
  intros W E. pose proof (wf_chain _ _ W) as C. pose proof (wf_ents _ _ W) as F. rewrite E in C, F.
  apply chain_app in C. destruct C as (c & C1 & C2). cbn [chain] in C2. destruct C2 as [Pe C2].
  apply Forall_app in F. destruct F as [F1 F2]. inversion F2 as [|? ? We F3]; subst.
  destruct (chain_bounds cap k Hcap Hk _ _ _ F1 C1) as [Le1 B1].
  destruct (chain_bounds cap k Hcap Hk _ _ _ F3 C2) as [Le2 B2].
  pose proof (e_end_gt cap k Hcap Hk e We).
  split; [exact We|]. split; [lia|]. split; [lia|]. split; [|split; [|exact C2]].
  - rewrite Forall_forall in *. intros x Hx. specialize (B1 x Hx). specialize (F1 x Hx). cbn in B1. split; [lia|split; [lia|exact F1]].
  - rewrite Forall_forall in *. intros x Hx. specialize (B2 x Hx). specialize (F3 x Hx). cbn in B2. split; [lia|split; [lia|exact F3]].
Qed.

Definition cnt (l : list ent) : nat := length (filter (fun e => negb (is_pad e)) l).
(* number of real records of V before position p = index in allmsgs V of the first real record at or after p *)
Definition idx (V : chan) (p : Z) : nat :=
  length (filter (fun e => negb (is_pad e) && (e_pos e <? p)) (c_log V)).

Lemma cnt_app l1 l2 : cnt (l1 ++ l2) = (cnt l1 + cnt l2)%nat.
Proof. unfold cnt. rewrite filter_app, app_length. reflexivity. Qed.

Lemma idx_at c0 V l1 e l2 : wfch c0 V -> c_log V = l1 ++ e :: l2 -> idx V (e_pos e) = cnt l1.
Proof.
  intros W E. destruct (split_facts c0 V l1 e l2 W E) as (We & _ & _ & B1 & B2 & _).
  pose proof (e_end_gt cap k Hcap Hk e We) as Eg.
  unfold idx, cnt. rewrite E, filter_app. rewrite (filter_nil _ (e :: l2)), app_nil_r.
  - f_equal. apply filter_same. intros x Hx. rewrite Forall_forall in B1. destruct (B1 x Hx) as (_ & L & Wx).
    pose proof (e_end_gt cap k Hcap Hk x Wx). replace (e_pos x <? e_pos e) with true by lia. apply andb_true_r.
  - intros x [<-|Hx]; [replace (e_pos e <? e_pos e) with false by lia; apply andb_false_r|].
    rewrite Forall_forall in B2. destruct (B2 x Hx) as (L & _). replace (e_pos x <? e_pos e) with false by lia. apply andb_false_r.
Qed.

Lemma idx_end c0 V l1 e l2 :
  wfch c0 V -> c_log V = l1 ++ e :: l2 -> idx V (e_end e) = (cnt l1 + (if is_pad e then 0 else 1))%nat.
Proof.
  intros W E. destruct (split_facts c0 V l1 e l2 W E) as (We & _ & _ & B1 & B2 & _).
  pose proof (e_end_gt cap k Hcap Hk e We) as Eg.
  unfold idx, cnt. rewrite E, filter_app, app_length. f_equal.
  - f_equal. apply filter_same. intros x Hx. rewrite Forall_forall in B1. destruct (B1 x Hx) as (_ & L & Wx).
    pose proof (e_end_gt cap k Hcap Hk x Wx). replace (e_pos x <? e_end e) with true by lia. apply andb_true_r.
  - cbn [filter]. replace (e_pos e <? e_end e) with true by lia. rewrite andb_true_r.
    rewrite (filter_nil _ l2).
    + destruct (is_pad e); reflexivity.
    + intros x Hx. rewrite Forall_forall in B2. destruct (B2 x Hx) as (L & _). replace (e_pos x <? e_end e) with false by lia. apply andb_false_r.
Qed.

Lemma idx_mono V p q : p <= q -> (idx V p <= idx V q)%nat.
Proof.
  intros H. unfold idx. apply filter_length_le. intros x _ F. apply andb_prop in F. destruct F as [F1 F2].
  rewrite F1. cbn. lia.
Qed.

Lemma idx_grow V V' es p :
  c_log V' = c_log V ++ es -> Forall (fun x => p <= e_pos x) es -> idx V' p = idx V p.
Proof.
  intros E F. unfold idx. rewrite E, filter_app, (filter_nil _ es), app_nil_r; auto.
  intros x Hx. rewrite Forall_forall in F. specialize (F x Hx). replace (e_pos x <? p) with false by lia. apply andb_false_r.
Qed.

Lemma nth_msg V l1 e l2 :
  c_log V = l1 ++ e :: l2 -> is_pad e = false -> nth_error (allmsgs V) (cnt l1) = Some (msg e).
Proof.
  intros E P. unfold allmsgs, cnt. rewrite E, filter_app, map_app. cbn [filter]. rewrite P. cbn [negb map].
  rewrite nth_error_app2 by (rewrite map_length; lia). rewrite map_length, Nat.sub_diag. reflexivity.
Qed.

(* the end of a record is the position of the next one, or the tail *)
Lemma end_bnd c0 V l1 e l2 : wfch c0 V -> c_log V = l1 ++ e :: l2 -> bnd V (e_end e).
Proof.
  intros W E. destruct (split_facts c0 V l1 e l2 W E) as (_ & _ & _ & _ & _ & C).
  destruct l2 as [|e2 l2']; cbn [chain] in C.
  - left. exact C.
  - right. exists (l1 ++ [e]), e2, l2'. split; [rewrite E, <- app_assoc; reflexivity|apply C].
Qed.

Lemma bnd_range c0 V p : wfch c0 V -> bnd V p -> c0 <= p <= c_tail V.
Proof.
  intros W [->|(l1 & e & l2 & E & <-)].
  - destruct (chain_bounds cap k Hcap Hk _ _ _ (wf_ents _ _ W) (wf_chain _ _ W)). lia.
  - destruct (split_facts c0 V l1 e l2 W E) as (We & A & B & _). pose proof (e_end_gt cap k Hcap Hk e We). lia.
Qed.

Lemma bnd_lt c0 V p : wfch c0 V -> bnd V p -> p < c_tail V -> exists l1 e l2, at_pos V p l1 e l2.
Proof. intros W [->|H] Lt; [lia|exact H]. Qed.

(* the latest counter is the position of the last record, a real one; every record starts at or before it *)
Lemma latest_at c0 V : wfch c0 V -> c0 < c_tail V ->
  exists l1 e, at_pos V (c_latest V) l1 e [] /\ is_pad e = false.
Proof.
  intros W Lt. destruct (wf_last _ _ W) as [[E _]|(d & e & E & P & N)].
  - pose proof (wf_chain _ _ W) as C. rewrite E in C. cbn in C. lia.
  - exists d, e. repeat split; auto.
Qed.

Lemma at_le_latest c0 V p l1 e l2 : wfch c0 V -> at_pos V p l1 e l2 -> p <= c_latest V.
Proof.
  intros W [E <-]. destruct (wf_last _ _ W) as [[E0 _]|(d & el & El & P & N)].
  - rewrite E0 in E. destruct l1; discriminate E.
  - rewrite <- P. destruct (split_facts c0 V d el [] W El) as (_ & _ & _ & B1 & _).
    assert (In e (d ++ [el])) by (rewrite <- El, E; apply in_or_app; right; left; reflexivity).
    apply in_app_or in H. destruct H as [H|[<-|[]]]; [|lia].
    rewrite Forall_forall in B1. destruct (B1 e H) as (_ & L & We). pose proof (e_end_gt cap k Hcap Hk e We). lia.
Qed.

(* a padding record is followed by a real record at offset 0 *)
Lemma pad_next c0 V l1 e l2 :
  wfch c0 V -> c_log V = l1 ++ e :: l2 -> is_pad e = true ->
  exists e2 l2', l2 = e2 :: l2' /\ is_pad e2 = false /\ e_pos e2 = e_end e /\ e_pos e2 mod cap = 0 /\
                 align (e_len e) 8 = e_len e.
Proof.
  intros W E Pd. pose proof (wf_pads _ _ W) as PO. rewrite E in PO. apply pads_ok_suffix in PO.
  destruct PO as [PO1 _]. specialize (PO1 Pd). destruct l2 as [|e2 l2']; [contradiction|].
  destruct (split_facts c0 V l1 e (e2 :: l2') W E) as (We & _ & _ & _ & _ & C). cbn [chain] in C. destruct C as [Pe2 _].
  destruct We as (P0 & P8 & Ln & Crs & Ex & Ty & NP & PD). specialize (PD Pd).
  assert (Al : align (e_len e) 8 = e_len e).
  { apply align8_id. pose proof (mod_cap_mod8 cap k Hcap Hk (e_pos e)) as M.
    replace (e_len e) with (cap - e_pos e mod cap) by lia. rewrite Zminus_mod, C8, M, P8. reflexivity. }
  exists e2, l2'. repeat split; auto.
  rewrite Pe2. unfold e_end. rewrite Al. pose proof CB.
  replace (e_pos e + e_len e) with (cap * (e_pos e / cap + 1)).
  - rewrite Z.mul_comm. apply Z.mod_mul. lia.
  - pose proof (Z.div_mod (e_pos e) cap ltac:(lia)). lia.
Qed.

(* growth of the stream *)
Lemma grow_facts c0 V V' es :
  wfch c0 V -> wfch c0 V' -> c_log V' = c_log V ++ es ->
  c_tail V <= c_tail V' /\ Forall (fun x => c_tail V <= e_pos x) es /\ (es = [] -> c_tail V' = c_tail V) /\
  (forall e r, es = e :: r -> e_pos e = c_tail V).
Proof.
  intros W W' E. pose proof (wf_chain _ _ W') as C. rewrite E in C. apply chain_app in C. destruct C as (c & C1 & C2).
  rewrite (chain_fun _ _ _ _ C1 (wf_chain _ _ W)) in C2.
  pose proof (wf_ents _ _ W') as F. rewrite E in F. apply Forall_app in F. destruct F as [_ F].
  destruct (chain_bounds cap k Hcap Hk _ _ _ F C2) as [Le B]. repeat split; auto.
  - eapply Forall_impl; [|exact B]. cbn. intros; lia.
  - intros ->. cbn in C2. auto.
  - intros e r ->. cbn in C2. apply C2.
Qed.

Lemma at_pos_grow V V' es p l1 e l2 : c_log V' = c_log V ++ es -> at_pos V p l1 e l2 -> at_pos V' p l1 e (l2 ++ es).
Proof. intros E [A B]. split; auto. rewrite E, A, <- app_assoc. reflexivity. Qed.

Lemma bnd_grow c0 V V' es p : wfch c0 V -> wfch c0 V' -> c_log V' = c_log V ++ es -> bnd V p -> bnd V' p.
Proof.
  intros W W' E [->|(l1 & e & l2 & A)].
  - destruct (grow_facts c0 V V' es W W' E) as (_ & _ & G1 & G2). destruct es as [|e r].
    + left. symmetry. auto.
    + right. exists (c_log V), e, r. split; [exact E|]. eapply G2. reflexivity.
  - right. exists l1, e, (l2 ++ es). eapply at_pos_grow; eauto.
Qed.

(* the number of real records before the tail of the completed part = the number of completed messages *)
Lemma idx_tail c0 ch V es :
  wfch c0 ch -> wfch c0 V -> c_log V = c_log ch ++ es -> idx V (c_tail ch) = length (allmsgs ch).
Proof.
  intros W WV E. destruct (grow_facts c0 ch V es W WV E) as (_ & G & _).
  rewrite (idx_grow ch V es (c_tail ch) E G). unfold idx, allmsgs. rewrite map_length. f_equal.
  apply filter_same. intros x Hx.
  destruct (chain_bounds cap k Hcap Hk _ _ _ (wf_ents _ _ W) (wf_chain _ _ W)) as [_ B].
  rewrite Forall_forall in B. specialize (B x Hx). cbn in B.
  pose proof (wf_ents _ _ W) as F. rewrite Forall_forall in F. pose proof (e_end_gt cap k Hcap Hk x (F x Hx)).
  replace (e_pos x <? c_tail ch) with true by lia. apply andb_true_r.
Qed.

(* ---------------------------------------------------------------- what the receiver can see of the transmitter
   The visible stream: the completed transmits plus, once the latest counter has been written (pc TTail), the
   record in flight - it is complete in memory and `latest` already points at it. *)
Definition Vof (ch : chan) (t : tstate) : chan := next_ch cap ch t.

Lemma spec_transmit_latest ch ty bs :
  accepted cap ty bs = true ->
  c_latest (fst (spec_transmit cap ch ty bs)) =
    (if cap - c_tail ch mod cap <? align (Z.of_nat (length bs) + 8) 8 then c_tail ch + (cap - c_tail ch mod cap) else c_tail ch).
Proof.
  intros Acc. unfold accepted in Acc. apply andb_prop in Acc. destruct Acc as [A1 A2].
  apply negb_true_iff in A1. apply negb_true_iff in A2. unfold spec_transmit. rewrite A1, A2. cbn [fst c_latest].
  unfold new_ents. destruct (cap - c_tail ch mod cap <? align (Z.of_nat (length bs) + 8) 8); reflexivity.
Qed.

Lemma vis_facts c0 mm t ch :
  tinv cap c0 mm t ch ->
  wfch c0 (Vof ch t) /\ wfch c0 ch /\ (exists es, c_log (Vof ch t) = c_log ch ++ es) /\
  get64 mm (tail_idx cap) = c_tail ch /\
  get64 mm (latest_idx cap) = c_latest (Vof ch t) /\
  c_tail (Vof ch t) < 2 ^ 62 /\
  (forall e, In e (c_log (Vof ch t)) -> get64 mm (intent_idx cap) <= e_pos e + cap -> intact cap mm e) /\
  (exists rest, allmsgs (Vof ch t) ++ rest = allmsgs ch ++ t_todo t).
Proof.
  intros TI. destruct (tinv_facts cap k Hcap Hk c0 mm t ch TI) as (FT & FI & Live).
  destruct TI as (mm0 & I & Ok & Bd & M). pose proof CB.
  pose proof (inv_wfch _ _ _ I) as Wch.
  assert (Plain : Vof ch t = ch -> get64 mm (latest_idx cap) = c_latest ch ->
    wfch c0 (Vof ch t) /\ wfch c0 ch /\ (exists es, c_log (Vof ch t) = c_log ch ++ es) /\
    get64 mm (tail_idx cap) = c_tail ch /\ get64 mm (latest_idx cap) = c_latest (Vof ch t) /\
    c_tail (Vof ch t) < 2 ^ 62 /\
    (forall e, In e (c_log (Vof ch t)) -> get64 mm (intent_idx cap) <= e_pos e + cap -> intact cap mm e) /\
    (exists rest, allmsgs (Vof ch t) ++ rest = allmsgs ch ++ t_todo t)).
  { intros -> L. split; [|split; [|split; [|split; [|split; [|split; [|split]]]]]]; auto.
    - exists []. now rewrite app_nil_r.
    - nia.
    - exists (t_todo t). reflexivity. }
  unfold Vof, next_ch in *.
  destruct (t_todo t) as [|[ty bs] rest] eqn:Td.
  { destruct M as [Pc ->]. apply Plain; [destruct (t_pc t); reflexivity|apply (inv_latest _ _ _ _ I)]. }
  destruct M as [PcOk Emm]. pose proof Ok as Ok'. apply Forall_cons_iff in Ok'. destruct Ok' as [Ok1 Ok2].
  destruct (one_tx_hyps cap k Hcap Hk c0 mm0 ch ty bs rest I Ok1 Bd) as (HT & Hl & Hty & Hty1).
  pose proof (tx_latest_at cap k Hcap Hk mm0 ty bs HT Hl Hty (t_pc t)) as LA. rewrite <- Emm in LA.
  destruct (t_pc t) eqn:Pc; try (apply Plain; [reflexivity|rewrite LA; apply (inv_latest _ _ _ _ I)]).
  (* TTail: latest already points at the record in flight *)
  assert (Acc : accepted cap ty bs = true) by apply Ok1.
  cbn [length] in Bd. rewrite Nat2Z.inj_succ in Bd.
  destruct (transmit_refines cap k Hcap Hk Release c0 mm0 ch ty bs I ltac:(nia) Acc Hty) as (mmf & E & I' & _ & Bd').
  rewrite (transmit_eq cap k Hcap Hk mm0 ty bs HT Hl Hty Release Hty1) in E. injection E as <-.
  set (V := fst (spec_transmit cap ch ty bs)) in *.
  pose proof (inv_wfch _ _ _ I') as WV.
  split; [|split; [|split; [|split; [|split; [|split; [|split]]]]]]; auto.
  - apply (spec_transmit_log cap).
  - rewrite LA. unfold V. rewrite spec_transmit_latest by auto. rewrite (inv_tail _ _ _ _ I). reflexivity.
  - nia.
  - intros e In Lv.
    (* intent = the new tail, so the hypothesis is the liveness condition of the completed transmit *)
    assert (EI : get64 mm (intent_idx cap) = c_tail V).
    { rewrite Emm, (tx_intent_at_ok cap k Hcap Hk mm0 ty bs HT Hl Hty). unfold tx_intent_at.
      rewrite <- (inv_intent _ _ _ _ I'). unfold tx_final.
      rewrite get64_put64_other by (unfold intent_idx, tail_idx, BC_TAIL_INTENT_COUNTER_OFFSET, BC_TAIL_COUNTER_OFFSET; lia).
      rewrite get64_put64_other by (unfold intent_idx, latest_idx, BC_TAIL_INTENT_COUNTER_OFFSET, BC_LATEST_COUNTER_OFFSET; lia).
      symmetry. apply (tx_intent_at_ok cap k Hcap Hk mm0 ty bs HT Hl Hty (TLatest 0 0)). }
    rewrite EI in Lv. pose proof (inv_live _ _ _ _ I' e In Lv) as Int.
    apply (intact_ext cap k Hk (tx_final cap mm0 ty bs) mm e); [|exact Int].
    intros a Ha. rewrite Emm.
    pose proof (inv_wf _ _ _ _ I') as WF. rewrite Forall_forall in WF. destruct (WF e In) as (P0 & P8 & Ln & Crs & Ex & _).
    pose proof (Z.mod_pos_bound (e_pos e) cap ltac:(lia)). pose proof (align8_bounds (e_len e)).
    symmetry. apply (tx_final_frame cap k Hcap Hk mm0 ty bs Hty). lia.
  - exists rest. unfold V. rewrite allmsgs_transmit by auto. rewrite <- app_assoc. reflexivity.
Qed.

Lemma next_ch_log ch t : exists es, c_log (next_ch cap ch t) = c_log ch ++ es.
Proof.
  unfold next_ch. destruct (t_pc t); try (exists []; now rewrite app_nil_r).
  destruct (t_todo t) as [|[ty bs] r]; [exists []; now rewrite app_nil_r|]. apply (spec_transmit_log cap).
Qed.

Lemma tx_step_from_tail mm t t' mm' ev a b :
  tx_step cap mm t = Some (t', mm', ev) -> t_pc t = TTail a b -> t_pc t' = TIdle.
Proof.
  unfold tx_step. intros H Pc. destruct (t_todo t) as [|[ty bs] rest]; [discriminate|]. rewrite Pc in H.
  injection H as <- _ _. reflexivity.
Qed.

Lemma vis_step c0 mm t ch t' mm' ev :
  tinv cap c0 mm t ch -> tx_step cap mm t = Some (t', mm', ev) ->
  tinv cap c0 mm' t' (next_ch cap ch t) /\
  (exists es, c_log (Vof (next_ch cap ch t) t') = c_log (Vof ch t) ++ es) /\
  get64 mm (intent_idx cap) <= get64 mm' (intent_idx cap) /\
  c_tail ch <= c_tail (next_ch cap ch t).
Proof.
  intros TI St. destruct (tinv_step cap k Hcap Hk c0 mm t ch t' mm' ev TI St) as (TI' & Gr & Mono).
  split; [exact TI'|]. split; [|split; [exact Mono|]].
  - unfold Vof. destruct (t_pc t) eqn:Pc;
      try (assert (E : next_ch cap ch t = ch) by (unfold next_ch; rewrite Pc; reflexivity); rewrite E; apply next_ch_log).
    (* TTail: the record in flight becomes a completed one *)
    pose proof (tx_step_from_tail _ _ _ _ _ _ _ St Pc) as Pc'.
    assert (E : next_ch cap (next_ch cap ch t) t' = next_ch cap ch t) by (unfold next_ch at 1; rewrite Pc'; reflexivity).
    rewrite E. exists []. now rewrite app_nil_r.
  - destruct (vis_facts c0 mm t ch TI) as (_ & W & _). destruct (vis_facts c0 mm' t' _ TI') as (_ & W' & _).
    destruct Gr as [es Es]. destruct (grow_facts c0 _ _ es W W' Es) as (G & _). exact G.
Qed.

(* ================================================================ the receiver among the interleavings *)
Variables (m : mode) (hv : bool) (w : vwidth).
Hypothesis Hw : w <> W32.
(* the messages handed to transmit (before and after the receiver was created) and the index of the one the receiver joins at *)
Variables (all : list (Z * list Z)) (i0 : nat).

(* ann annotates the results so far; the judgement stands at a message index <= bound, = bound when no loss is pending *)
Definition jrel (ann : list (rres * nat)) (out : list rres) (bound : nat) : Prop :=
  exists i lost, map fst ann = out /\ jst all i0 ann i lost /\ (i <= bound)%nat /\ (lost = false -> i = bound).

(* inside receive_next, at the record e at position c; lp = the lapped count it will commit *)
Definition mid (V : chan) (T : Z) (x : rx) (c lp : Z) (P : list ent -> ent -> list ent -> Prop) : Prop :=
  next_record x < T /\
  exists l1 e l2, at_pos V c l1 e l2 /\ next_record x <= c /\
     ((lp = lapped x /\ c = next_record x) \/ lp = lapped x + 1) /\ P l1 e l2.

Definition midc (mm : mem) (T : Z) (V : chan) (x : rx) (pc : rpc) : Prop :=
  match pc with
  | RIdle => True
  | RVal1 | RLatest => next_record x < T
  | RLen c lp => mid V T x c lp (fun _ _ _ => True)
  | RType c lp nr => revalidates w = false /\ mid V T x c lp (fun _ e _ => nr = e_end e)
  | RLen0 c lp nr => revalidates w = false /\ mid V T x c lp (fun _ e _ => is_pad e = true /\ nr = e_end e)
  | RTypeR c lp l1w =>
      revalidates w = true /\ mid V T x c lp (fun _ e _ => get64 mm (intent_idx cap) <= c + cap -> l1w = e_len e)
  | RLen0R c lp l1w =>
      revalidates w = true /\
      mid V T x c lp (fun _ e _ => get64 mm (intent_idx cap) <= c + cap -> l1w = e_len e /\ is_pad e = true)
  | RVal3 c lp l1w pad l0 =>
      revalidates w = true /\
      mid V T x c lp (fun _ e l2 => get64 mm (intent_idx cap) <= c + cap ->
        l1w = e_len e /\ pad = is_pad e /\ (pad = true -> exists e2 l2', l2 = e2 :: l2' /\ l0 = e_len e2))
  | RLatest3 lp => revalidates w = true /\ next_record x < T /\ lp <> lapped x
  | _ => True
  end.

(* in the copy phase: the cursor is on the real record e, the record after it is next *)
Definition cpinv (mm : mem) (V : chan) (pc : rpc) (x : rx) (ann : list (rres * nat)) (out : list rres) : Prop :=
  exists l1 e l2, at_pos V (cursor x) l1 e l2 /\ is_pad e = false /\ record_offset x = e_pos e mod cap /\
    next_record x = e_end e /\ (get64 mm (intent_idx cap) <= e_pos e + cap -> reads_ok pc e) /\ jrel ann out (cnt l1).

Definition rxinv (mm : mem) (T : Z) (V : chan) (pc : rpc) (x : rx) (out : list rres) : Prop :=
  exists ann,
    if in_copy pc then cpinv mm V pc x ann out
    else bnd V (next_record x) /\ jrel ann out (idx V (next_record x)) /\ midc mm T V x pc.

(* ---- steps of the transmitter ---- *)
Lemma mid_grow V V' es T T' x c lp (P P' : list ent -> ent -> list ent -> Prop) :
  c_log V' = c_log V ++ es -> T <= T' ->
  (forall l1 e l2, P l1 e l2 -> P' l1 e (l2 ++ es)) ->
  mid V T x c lp P -> mid V' T' x c lp P'.
Proof.
  intros E Le HP (Lt & l1 & e & l2 & A & B & C & D). split; [lia|].
  exists l1, e, (l2 ++ es). split; [eapply at_pos_grow; eauto|]. auto.
Qed.

Lemma jrel_bound ann out b b' : b = b' -> jrel ann out b -> jrel ann out b'.
Proof. intros ->. auto. Qed.

Lemma rxinv_tx c0 mm mm' T T' V V' es pc x out :
  wfch c0 V -> wfch c0 V' -> c_log V' = c_log V ++ es -> T <= T' ->
  get64 mm (intent_idx cap) <= get64 mm' (intent_idx cap) ->
  rxinv mm T V pc x out -> rxinv mm' T' V' pc x out.
Proof.
  intros W W' E LT LI [ann R]. exists ann. destruct (in_copy pc) eqn:IC.
  - destruct R as (l1 & e & l2 & A & Np & Ro & Nx & Rd & J). exists l1, e, (l2 ++ es).
    split; [eapply at_pos_grow; eauto|]. repeat split; auto. intros Lv. apply Rd. lia.
  - destruct R as (B & J & M). destruct (grow_facts c0 V V' es W W' E) as (G1 & G2 & _).
    pose proof (bnd_range c0 V _ W B) as Rg.
    split; [apply (bnd_grow c0 V V' es); auto|]. split.
    + apply (jrel_bound ann out (idx V (next_record x))); [|exact J]. symmetry. apply (idx_grow V V' es); auto.
      eapply Forall_impl; [|exact G2]. cbn. intros; lia.
    + destruct pc; cbn [midc] in *; auto; try lia.
      * eapply mid_grow; [exact E|exact LT| |exact M]; cbn; auto.
      * destruct M as [Rv M]. split; auto. eapply mid_grow; [exact E|exact LT| |exact M]; cbn; auto.
      * destruct M as [Rv M]. split; auto. eapply mid_grow; [exact E|exact LT| |exact M]; cbn; auto.
      * destruct M as [Rv M]. split; auto. eapply mid_grow; [exact E|exact LT| |exact M]. cbn. intros la e lb HP Lv. apply HP. lia.
      * destruct M as [Rv M]. split; auto. eapply mid_grow; [exact E|exact LT| |exact M]. cbn. intros la e lb HP Lv. apply HP. lia.
      * destruct M as [Rv M]. split; auto. eapply mid_grow; [exact E|exact LT| |exact M]. cbn. intros la e lb HP Lv.
        destruct (HP ltac:(lia)) as (A1 & A2 & A3). repeat split; auto. intros Pd. destruct (A3 Pd) as (e2 & lb' & -> & L0).
        exists e2, (lb' ++ es). split; auto.
Qed.

(* ---- the judgement when a receive finishes ---- *)
Lemma jrel_none ann out b : jrel ann out b -> jrel ((RNone, O) :: ann) (RNone :: out) b.
Proof. intros (i & lost & E & J & L1 & L2). exists i, lost. cbn [map fst]. rewrite E. repeat split; auto. now constructor. Qed.

Lemma jrel_err ann out b b' e : jrel ann out b -> (b <= b')%nat -> jrel ((RErr e, O) :: ann) (RErr e :: out) b'.
Proof.
  intros (i & lost & E & J & L1 & L2) Le. exists i, true. cbn [map fst]. rewrite E. repeat split; auto.
  - eapply j_err; eauto. - lia. - discriminate.
Qed.

Lemma jrel_msg ann out b ty bs :
  jrel ann out b -> nth_error all b = Some (ty, bs) -> jrel ((RMsg ty bs, b) :: ann) (RMsg ty bs :: out) (S b).
Proof.
  intros (i & lost & E & J & L1 & L2) N. exists (S b), false. cbn [map fst]. rewrite E. repeat split; auto.
  eapply j_msg; eauto. intros Lf. symmetry. auto.
Qed.

Section RxStep.
Variables (c0 : Z) (mm : mem) (T : Z) (V : chan).
Hypothesis WV : wfch c0 V.
Hypothesis HT : get64 mm (tail_idx cap) = T.
Hypothesis HTV : T <= c_tail V.
Hypothesis HLat : get64 mm (latest_idx cap) = c_latest V.
Hypothesis HB : c_tail V < 2 ^ 62.
Hypothesis Live : forall e, In e (c_log V) -> get64 mm (intent_idx cap) <= e_pos e + cap -> intact cap mm e.
Hypothesis Pre : exists rest, all = allmsgs V ++ rest.

Lemma in_at p l1 e l2 : at_pos V p l1 e l2 -> In e (c_log V).
Proof. intros [E _]. rewrite E. apply in_or_app. right. left. reflexivity. Qed.

Lemma read_hdr c l1 e l2 :
  at_pos V c l1 e l2 -> get64 mm (intent_idx cap) <= c + cap ->
  get32 mm (Z.land (wrap32 c) (cap - 1)) = e_len e /\ get32 mm (Z.land (wrap32 c) (cap - 1) + 4) = e_ty e /\
  intact cap mm e.
Proof.
  intros A Lv. pose proof (in_at _ _ _ _ A) as In. destruct A as [E <-].
  pose proof (Live e In Lv) as Int. pose proof Int as (I1 & I2 & I3).
  rewrite (wrap32_land_cap cap k Hcap Hk). auto.
Qed.

Lemma arith_end c e :
  e_pos e = c -> ent_wf cap e -> e_end e <= c_tail V ->
  (a1 <- align32 m (e_len e) RA ;; add64 m c a1) = Ok (e_end e).
Proof.
  intros <- (P0 & P8 & Ln & _) Le. pose proof CB. pose proof (align8_bounds (e_len e)). unfold e_end in *.
  rewrite align32_ok by (unfold in_i32, two31; lia). cbn [bind].
  rewrite add64_ok by (unfold in_i64, two63; lia). reflexivity.
Qed.

Lemma at_wf p l1 e l2 : at_pos V p l1 e l2 -> ent_wf cap e /\ c0 <= p /\ e_end e <= c_tail V /\ p + 8 <= e_end e /\ e_end e < p + cap.
Proof.
  intros [E <-]. destruct (split_facts c0 V l1 e l2 WV E) as (We & A & B & _).
  pose proof (e_end_gt cap k Hcap Hk e We). pose proof (e_end_lt cap e We). split; [exact We|]. repeat split; lia.
Qed.

Lemma nth_all l1 e l2 p : at_pos V p l1 e l2 -> is_pad e = false -> nth_error all (cnt l1) = Some (e_ty e, e_bs e).
Proof.
  intros [E _] Np. destruct Pre as [rest ->]. pose proof (nth_msg V l1 e l2 E Np) as N.
  rewrite nth_error_app1; auto. apply nth_error_Some. rewrite N. discriminate.
Qed.

(* ---- ways a step of the receiver ends ---- *)
Lemma fin_none pc x out :
  in_copy pc = false -> rxinv mm T V pc x out -> rxinv mm T V RIdle x (RNone :: out).
Proof.
  intros NC [ann R]. rewrite NC in R. destruct R as (B & J & _). exists ((RNone, O) :: ann). cbn [in_copy midc].
  repeat split; auto. now apply jrel_none.
Qed.

Lemma fin_lapped pc x x1 out e :
  in_copy pc = false -> rxinv mm T V pc x out ->
  bnd V (next_record x1) -> next_record x <= next_record x1 ->
  rxinv mm T V RIdle x1 (RErr e :: out).
Proof.
  intros NC [ann R] B1 Le. rewrite NC in R. destruct R as (B & J & _). exists ((RErr e, O) :: ann). cbn [in_copy midc].
  repeat split; auto. eapply jrel_err; eauto. now apply idx_mono.
Qed.

Lemma fin_copy_err pc x out e :
  in_copy pc = true -> rxinv mm T V pc x out -> rxinv mm T V RIdle x (RErr e :: out).
Proof.
  intros IC [ann R]. rewrite IC in R. destruct R as (l1 & en & l2 & A & Np & Ro & Nx & Rd & J).
  exists ((RErr e, O) :: ann). cbn [in_copy midc]. destruct A as [E Pe].
  split; [rewrite Nx; eapply end_bnd; eauto|]. split; auto.
  eapply jrel_err; eauto. rewrite Nx, (idx_end c0 V l1 en l2 WV E). lia.
Qed.

Lemma fin_copy_msg x out l1 e l2 ann :
  at_pos V (cursor x) l1 e l2 -> is_pad e = false -> next_record x = e_end e -> jrel ann out (cnt l1) ->
  rxinv mm T V RIdle x (RMsg (e_ty e) (e_bs e) :: out).
Proof.
  intros A Np Nx J. exists ((RMsg (e_ty e) (e_bs e), cnt l1) :: ann). cbn [in_copy midc]. pose proof A as [E Pe].
  split; [rewrite Nx; eapply end_bnd; eauto|]. split; auto.
  rewrite Nx, (idx_end c0 V l1 e l2 WV E), Np. replace (cnt l1 + 1)%nat with (S (cnt l1)) by lia.
  apply jrel_msg; auto. eapply nth_all; eauto.
Qed.

(* receive_next commits the fields x1 *)
Lemma commit_inv r x1 :
  in_copy (r_pc r) = false -> rxinv mm T V (r_pc r) (r_rx r) (r_out r) ->
  (lapped x1 = lapped (r_rx r) ->
     exists l1 e l2, at_pos V (cursor x1) l1 e l2 /\ is_pad e = false /\ record_offset x1 = e_pos e mod cap /\
                     next_record x1 = e_end e /\ cnt l1 = idx V (next_record (r_rx r))) ->
  (lapped x1 <> lapped (r_rx r) -> bnd V (next_record x1) /\ next_record (r_rx r) <= next_record x1) ->
  rxinv mm T V (r_pc (after_next r x1)) (r_rx (after_next r x1)) (r_out (after_next r x1)).
Proof.
  intros NC R Same Diff. unfold after_next. destruct (lapped (r_rx r) =? lapped x1) eqn:Lp; cbn [negb].
  - cbn [r_pc r_rx r_out]. destruct (Same ltac:(lia)) as (l1 & e & l2 & A & Np & Ro & Nx & Ci).
    destruct R as [ann R]. rewrite NC in R. destruct R as (B & J & _). exists ann. cbn [in_copy].
    exists l1, e, l2. split; [exact A|]. split; [exact Np|]. split; [exact Ro|]. split; [exact Nx|]. split; [intros _; exact Logic.I|].
    rewrite Ci. exact J.
  - cbn [r_finish r_pc r_rx r_out]. destruct (Diff ltac:(lia)) as [B1 Le]. eapply fin_lapped; eauto.
Qed.

(* ... computed from the genuine header words of the record e at c (and of the record after a padding record) *)
Lemma commit_plain r c lp l1 e l2 :
  in_copy (r_pc r) = false -> rxinv mm T V (r_pc r) (r_rx r) (r_out r) ->
  at_pos V c l1 e l2 -> next_record (r_rx r) <= c ->
  ((lp = lapped (r_rx r) /\ c = next_record (r_rx r)) \/ lp = lapped (r_rx r) + 1) ->
  is_pad e = false ->
  let x1 := {| cursor := c; next_record := e_end e; record_offset := Z.land (wrap32 c) (cap - 1); lapped := lp |} in
  rxinv mm T V (r_pc (after_next r x1)) (r_rx (after_next r x1)) (r_out (after_next r x1)).
Proof.
  intros NC R A Le Lpc Np x1. pose proof A as [E Pe]. destruct (at_wf _ _ _ _ A) as (We & _ & _ & G & _).
  apply commit_inv; auto; cbn [x1 lapped cursor next_record record_offset].
  - intros Lp. destruct Lpc as [[_ Ec]|Lp1]; [|lia]. exists l1, e, l2. repeat split; auto.
    + rewrite (wrap32_land_cap cap k Hcap Hk), Pe. reflexivity.
    + rewrite <- Ec, <- Pe. symmetry. eapply idx_at; eauto.
  - intros _. split; [eapply end_bnd; eauto|lia].
Qed.

Lemma commit_pad r c lp l1 e e2 l2' :
  in_copy (r_pc r) = false -> rxinv mm T V (r_pc r) (r_rx r) (r_out r) ->
  at_pos V c l1 e (e2 :: l2') -> next_record (r_rx r) <= c ->
  ((lp = lapped (r_rx r) /\ c = next_record (r_rx r)) \/ lp = lapped (r_rx r) + 1) ->
  is_pad e = true ->
  let x1 := {| cursor := e_end e; next_record := e_end e2; record_offset := 0; lapped := lp |} in
  rxinv mm T V (r_pc (after_next r x1)) (r_rx (after_next r x1)) (r_out (after_next r x1)).
Proof.
  intros NC R A Le Lpc Pd x1. pose proof A as [E Pe]. destruct (at_wf _ _ _ _ A) as (We & _ & _ & G & _).
  destruct (pad_next c0 V l1 e (e2 :: l2') WV E Pd) as (e2' & l2'' & El & Np2 & P2 & Z2 & Al).
  injection El as <- <-.
  assert (E2 : c_log V = (l1 ++ [e]) ++ e2 :: l2') by (rewrite E, <- app_assoc; reflexivity).
  destruct (at_wf (e_pos e2) (l1 ++ [e]) e2 l2' (conj E2 eq_refl)) as (We2 & _ & _ & G2 & _).
  apply commit_inv; auto; cbn [x1 lapped cursor next_record record_offset].
  - intros Lp. destruct Lpc as [[_ Ec]|Lp1]; [|lia]. exists (l1 ++ [e]), e2, l2'. repeat split; auto.
    rewrite cnt_app. unfold cnt at 2. cbn [filter]. rewrite Pd. cbn [negb length]. rewrite Nat.add_0_r.
    rewrite <- Ec, <- Pe. symmetry. eapply idx_at; eauto.
  - intros _. split; [eapply end_bnd; eauto|lia].
Qed.

(* a header word read by the unrepaired receive_next at a moment when a validation of the record it belongs to would fail *)
Definition stale_read (pc : rpc) : bool :=
  match pc with
  | RLen c _ | RType c _ _ => get64 mm (intent_idx cap) >? c + cap
  | RLen0 _ _ nr => get64 mm (intent_idx cap) >? nr + cap
  | _ => false
  end.

Definition RX (r : rstate) : Prop := rxinv mm T V (r_pc r) (r_rx r) (r_out r).

Lemma set_mid r pc' :
  RX r -> in_copy (r_pc r) = false -> in_copy pc' = false -> midc mm T V (r_rx r) pc' -> RX (r_set r pc').
Proof.
  unfold RX. intros [ann R] NC NC' M. rewrite NC in R. destruct R as (B & J & _).
  exists ann. cbn [r_set r_pc r_rx r_out]. rewrite NC'. auto.
Qed.

Lemma copy_step r pc' :
  RX r -> in_copy (r_pc r) = true -> in_copy pc' = true ->
  (forall l1 e l2, at_pos V (cursor (r_rx r)) l1 e l2 -> is_pad e = false -> record_offset (r_rx r) = e_pos e mod cap ->
      get64 mm (intent_idx cap) <= e_pos e + cap -> intact cap mm e -> ent_wf cap e -> reads_ok (r_pc r) e -> reads_ok pc' e) ->
  RX (r_set r pc').
Proof.
  unfold RX. intros [ann R] IC IC' St. rewrite IC in R. destruct R as (l1 & e & l2 & A & Np & Ro & Nx & Rd & J).
  exists ann. cbn [r_set r_pc r_rx r_out]. rewrite IC'. exists l1, e, l2.
  split; [exact A|]. split; [exact Np|]. split; [exact Ro|]. split; [exact Nx|]. split; [|exact J].
  intros Lv. destruct (at_wf _ _ _ _ A) as (We & _). eapply St; eauto. apply Live; auto. eapply in_at; eauto.
Qed.

Lemma die_inv r e : RX r -> RX (r_die r e).
Proof. unfold RX. cbn [r_die r_pc r_rx r_out]. auto. Qed.

Lemma rx_range r : RX r -> in_copy (r_pc r) = false -> 0 <= next_record (r_rx r) < 2 ^ 62.
Proof.
  unfold RX. intros [ann R] NC. rewrite NC in R. destruct R as (B & _).
  pose proof (bnd_range c0 V _ WV B). pose proof (wf_c0 _ _ WV). lia.
Qed.

Lemma latest_commit r :
  RX r -> in_copy (r_pc r) = false -> next_record (r_rx r) < T ->
  exists l1 e, at_pos V (c_latest V) l1 e [] /\ is_pad e = false /\ next_record (r_rx r) <= c_latest V.
Proof.
  unfold RX. intros [ann R] NC Lt. rewrite NC in R. destruct R as (B & _).
  pose proof (bnd_range c0 V _ WV B) as Rg.
  destruct (latest_at c0 V WV ltac:(lia)) as (l1 & e & A & Np). exists l1, e. repeat split; auto; try apply A.
  destruct (bnd_lt c0 V _ WV B ltac:(lia)) as (la & ea & lb & Aa). eapply at_le_latest; eauto.
Qed.

Lemma is_pad_eqb e : (e_ty e =? PADDING) = is_pad e.
Proof. reflexivity. Qed.

Theorem rxinv_rx r :
  (revalidates w = false -> stale_read (r_pc r) = false) ->
  RX r -> RX (rx_next m w hv cap mm r).
Proof.
  intros Hread R. pose proof CB as CBx. unfold rx_next. destruct (r_pc r) eqn:Pc; cbv zeta.
  - (* RIdle *)
    rewrite HT. destruct (T >? next_record (r_rx r)) eqn:Gt.
    + apply set_mid; [exact R|now rewrite Pc|reflexivity|cbn [midc]; lia].
    + unfold RX. cbn [r_finish r_pc r_rx r_out]. eapply fin_none; [|exact R]. now rewrite Pc.
  - (* RVal1 *)
    pose proof (rx_range r R ltac:(now rewrite Pc)) as Rg.
    assert (M : next_record (r_rx r) < T).
    { destruct R as [ann R]. rewrite Pc in R. cbn [in_copy midc] in R. tauto. }
    apply (of_outcome_ind RX); try (apply die_inv; exact R).
    intros v Ev. apply (validate_cmp_true cap k Hcap Hk m w Hw) in Ev; [|lia].
    destruct v.
    + apply set_mid; [exact R|now rewrite Pc|reflexivity|]. cbn [midc]. split; [exact M|].
      destruct R as [ann R]. rewrite Pc in R. cbn [in_copy] in R. destruct R as (B & _).
      destruct (bnd_lt c0 V _ WV B ltac:(lia)) as (l1 & e & l2 & A). exists l1, e, l2. split; [exact A|]. split; [lia|]. split; [left; split; reflexivity|exact Logic.I].
    + apply set_mid; [exact R|now rewrite Pc|reflexivity|]. exact M.
  - (* RLatest *)
    assert (M : next_record (r_rx r) < T).
    { destruct R as [ann R]. rewrite Pc in R. cbn [in_copy midc] in R. tauto. }
    destruct (latest_commit r R ltac:(now rewrite Pc) M) as (l1 & e & A & Np & Le).
    apply set_mid; [exact R|now rewrite Pc|reflexivity|]. cbn [midc]. rewrite HLat. split; [exact M|].
    exists l1, e, []. split; [exact A|]. split; [exact Le|]. split; [right; reflexivity|exact Logic.I].
  - (* RLen *)
    assert (M : mid V T (r_rx r) c lp (fun _ _ _ => True)).
    { destruct R as [ann R]. rewrite Pc in R. cbn [in_copy midc] in R. tauto. }
    destruct M as (Lt & l1 & e & l2 & A & Le & Lpc & _).
    destruct (revalidates w) eqn:Rv.
    + apply set_mid; [exact R|now rewrite Pc|reflexivity|]. cbn [midc]. split; [exact Rv|]. split; [exact Lt|].
      exists l1, e, l2. split; [exact A|]. split; [exact Le|]. split; [exact Lpc|].
      intros Lv. destruct (read_hdr c l1 e l2 A Lv) as (H1 & _). exact H1.
    + specialize (Hread eq_refl). cbn [stale_read] in Hread.
      destruct (read_hdr c l1 e l2 A ltac:(lia)) as (H1 & _). rewrite H1.
      destruct (at_wf _ _ _ _ A) as (We & _ & Et & _). pose proof A as [_ Pe].
      rewrite (arith_end c e Pe We Et). cbn [of_outcome].
      apply set_mid; [exact R|now rewrite Pc|reflexivity|]. cbn [midc]. split; [exact Rv|]. split; [exact Lt|].
      exists l1, e, l2. split; [exact A|]. split; [exact Le|]. split; [exact Lpc|reflexivity].
  - (* RType: the code as found *)
    assert (M : revalidates w = false /\ mid V T (r_rx r) c lp (fun _ e _ => nr = e_end e)).
    { destruct R as [ann R]. rewrite Pc in R. cbn [in_copy midc] in R. tauto. }
    destruct M as (Rv & Lt & l1 & e & l2 & A & Le & Lpc & Enr).
    specialize (Hread Rv). cbn [stale_read] in Hread.
    destruct (read_hdr c l1 e l2 A ltac:(lia)) as (_ & H2 & _). rewrite H2, is_pad_eqb.
    destruct (is_pad e) eqn:Pd.
    + apply set_mid; [exact R|now rewrite Pc|reflexivity|]. cbn [midc]. split; [exact Rv|]. split; [exact Lt|].
      exists l1, e, l2. split; [exact A|]. split; [exact Le|]. split; [exact Lpc|]. split; [exact Pd|exact Enr].
    + rewrite Enr. apply (commit_plain r c lp l1 e l2); auto. now rewrite Pc.
  - (* RLen0: the code as found, after a padding record *)
    assert (M : revalidates w = false /\ mid V T (r_rx r) c lp (fun _ e _ => is_pad e = true /\ nr = e_end e)).
    { destruct R as [ann R]. rewrite Pc in R. cbn [in_copy midc] in R. tauto. }
    destruct M as (Rv & Lt & l1 & e & l2 & A & Le & Lpc & Pd & Enr).
    specialize (Hread Rv). cbn [stale_read] in Hread. pose proof A as [E Pe].
    destruct (pad_next c0 V l1 e l2 WV E Pd) as (e2 & l2' & -> & Np2 & P2 & Z2 & Al).
    assert (A2 : at_pos V (e_pos e2) (l1 ++ [e]) e2 l2') by (split; [rewrite E, <- app_assoc; reflexivity|reflexivity]).
    destruct (at_wf _ _ _ _ A2) as (We2 & _ & Et2 & _).
    pose proof (Live e2 (in_at _ _ _ _ A2) ltac:(lia)) as (J1 & _). rewrite Z2 in J1. rewrite J1.
    rewrite Enr. rewrite (arith_end (e_end e) e2 P2 We2 Et2). cbn [of_outcome].
    apply (commit_pad r c lp l1 e e2 l2'); auto. now rewrite Pc.
  - (* RTypeR: the repaired code *)
    assert (M : revalidates w = true /\ mid V T (r_rx r) c lp (fun _ e _ => get64 mm (intent_idx cap) <= c + cap -> l1 = e_len e)).
    { destruct R as [ann R]. rewrite Pc in R. cbn [in_copy midc] in R. tauto. }
    destruct M as (Rv & Lt & la & e & lb & A & Le & Lpc & Hl).
    destruct (get32 mm (Z.land (wrap32 c) (cap - 1) + 4) =? PADDING) eqn:Pd.
    + apply set_mid; [exact R|now rewrite Pc|reflexivity|]. cbn [midc]. split; [exact Rv|]. split; [exact Lt|].
      exists la, e, lb. split; [exact A|]. split; [exact Le|]. split; [exact Lpc|]. intros Lv. split; [exact (Hl Lv)|].
      destruct (read_hdr c la e lb A Lv) as (_ & H2 & _). rewrite H2, is_pad_eqb in Pd. exact Pd.
    + apply set_mid; [exact R|now rewrite Pc|reflexivity|]. cbn [midc]. split; [exact Rv|]. split; [exact Lt|].
      exists la, e, lb. split; [exact A|]. split; [exact Le|]. split; [exact Lpc|]. intros Lv. split; [exact (Hl Lv)|].
      split; [|discriminate].
      destruct (read_hdr c la e lb A Lv) as (_ & H2 & _). rewrite H2, is_pad_eqb in Pd. congruence.
  - (* RLen0R *)
    assert (M : revalidates w = true /\
                mid V T (r_rx r) c lp (fun _ e _ => get64 mm (intent_idx cap) <= c + cap -> l1 = e_len e /\ is_pad e = true)).
    { destruct R as [ann R]. rewrite Pc in R. cbn [in_copy midc] in R. tauto. }
    destruct M as (Rv & Lt & la & e & lb & A & Le & Lpc & Hl).
    apply set_mid; [exact R|now rewrite Pc|reflexivity|]. cbn [midc]. split; [exact Rv|]. split; [exact Lt|].
    exists la, e, lb. split; [exact A|]. split; [exact Le|]. split; [exact Lpc|]. intros Lv.
    destruct (Hl Lv) as [H1 Pd]. split; [exact H1|]. split; [congruence|]. intros _.
    pose proof A as [E Pe]. destruct (pad_next c0 V la e lb WV E Pd) as (e2 & lb' & -> & Np2 & P2 & Z2 & Al).
    exists e2, lb'. split; auto.
    assert (A2 : at_pos V (e_pos e2) (la ++ [e]) e2 lb') by (split; [rewrite E, <- app_assoc; reflexivity|reflexivity]).
    destruct (at_wf _ _ _ _ A) as (_ & _ & _ & G & _).
    pose proof (Live e2 (in_at _ _ _ _ A2) ltac:(lia)) as (J1 & _). rewrite Z2 in J1. exact J1.
  - (* RVal3: the repaired code validates, then uses what it read *)
    assert (M : revalidates w = true /\
                mid V T (r_rx r) c lp (fun _ e l2 => get64 mm (intent_idx cap) <= c + cap ->
                  l1 = e_len e /\ pad = is_pad e /\ (pad = true -> exists e2 l2', l2 = e2 :: l2' /\ l0 = e_len e2))).
    { destruct R as [ann R]. rewrite Pc in R. cbn [in_copy midc] in R. tauto. }
    destruct M as (Rv & Lt & la & e & lb & A & Le & Lpc & Hl).
    destruct (at_wf _ _ _ _ A) as (We & C0 & Et & G & _). pose proof (wf_c0 _ _ WV) as [C00 _].
    apply (of_outcome_ind RX); try (apply die_inv; exact R).
    intros v Ev. apply (validate_cmp_true cap k Hcap Hk m w Hw) in Ev; [|lia].
    destruct v.
    + destruct (Hl ltac:(lia)) as (H1 & Hp & H0). pose proof A as [E Pe].
      rewrite H1. rewrite (arith_end c e Pe We Et). cbn [of_outcome].
      destruct pad.
      * destruct (H0 eq_refl) as (e2 & lb' & -> & L0).
        destruct (pad_next c0 V la e (e2 :: lb') WV E (eq_sym Hp)) as (e2' & lb'' & El & Np2 & P2 & Z2 & Al).
        injection El as <- <-.
        assert (A2 : at_pos V (e_pos e2) (la ++ [e]) e2 lb') by (split; [rewrite E, <- app_assoc; reflexivity|reflexivity]).
        destruct (at_wf _ _ _ _ A2) as (We2 & _ & Et2 & _).
        rewrite L0. rewrite (arith_end (e_end e) e2 P2 We2 Et2). cbn [of_outcome].
        apply (commit_pad r c lp la e e2 lb'); auto. now rewrite Pc.
      * apply (commit_plain r c lp la e lb); auto. now rewrite Pc.
    + apply set_mid; [exact R|now rewrite Pc|reflexivity|]. cbn [midc]. split; [exact Rv|]. split; [exact Lt|]. lia.
  - (* RLatest3: lapped while reading, restart at the latest record *)
    assert (M : revalidates w = true /\ next_record (r_rx r) < T /\ lp <> lapped (r_rx r)).
    { destruct R as [ann R]. rewrite Pc in R. cbn [in_copy midc] in R. tauto. }
    destruct M as (Rv & Lt & Lp).
    destruct (latest_commit r R ltac:(now rewrite Pc) Lt) as (l1 & e & A & Np & Le).
    rewrite HLat. apply commit_inv; auto; [now rewrite Pc| |]; cbn [lapped next_record]; [intros; lia|].
    intros _. split; [|exact Le]. right. exists l1, e, []. exact A.
  - (* RHLen: receiver.length() *)
    apply (of_outcome_ind RX); try (apply die_inv; exact R).
    intros len El.
    assert (St : RX (r_set r (RHType len))).
    { apply copy_step; [exact R|now rewrite Pc|reflexivity|]. intros l1 e l2 A Np Ro Lv (I1 & I2 & I3) We _. cbn [reads_ok].
      destruct We as (P0 & P8 & Ln & _). rewrite Ro, I1 in El.
      rewrite sub32_ok in El by (unfold in_i32, two31, HL, BC_HEADER_LENGTH; lia). injection El as <-. reflexivity. }
    destruct hv; [exact St|]. destruct (len >? SCRATCH); [|exact St].
    unfold RX. cbn [r_finish r_pc r_rx r_out]. eapply fin_copy_err; [|exact R]. now rewrite Pc.
  - (* RHType: receiver.type_id() *)
    assert (St : forall pc', (pc' = RValH len (get32 mm (record_offset (r_rx r) + 4)) \/
                              pc' = RCopy len (get32 mm (record_offset (r_rx r) + 4))) -> RX (r_set r pc')).
    { intros pc' Hpc. apply copy_step; [exact R|now rewrite Pc|destruct Hpc as [-> | ->]; reflexivity|].
      intros l1 e l2 A Np Ro Lv (I1 & I2 & I3) We Rd. rewrite Pc in Rd. cbn [reads_ok] in Rd.
      destruct Hpc as [-> | ->]; cbn [reads_ok]; rewrite Ro, I2; auto. }
    destruct hv; [apply St; auto|].
    destruct (negb (known_type (get32 mm (record_offset (r_rx r) + 4)))); [apply die_inv; exact R|apply St; auto].
  - (* RValH: repaired copying receiver, validate before the header words are used *)
    apply (of_outcome_ind RX); try (apply die_inv; exact R).
    intros v _.
    assert (Er : forall e, RX (r_finish r (r_rx r) (RErr e))).
    { intros e. unfold RX. cbn [r_finish r_pc r_rx r_out]. eapply fin_copy_err; [|exact R]. now rewrite Pc. }
    destruct (negb v); [apply Er|]. destruct (len >? SCRATCH); [apply Er|].
    destruct (negb (known_type ty)); [apply die_inv; exact R|].
    apply copy_step; [exact R|now rewrite Pc|reflexivity|]. intros l1 e l2 A Np Ro Lv _ _ Rd. rewrite Pc in Rd. exact Rd.
  - (* RCopy: the scratch copy *)
    destruct ((len <? 0) || (record_offset (r_rx r) + HL + len >? buf_len cap)); [apply die_inv; exact R|].
    apply copy_step; [exact R|now rewrite Pc|reflexivity|]. intros l1 e l2 A Np Ro Lv (I1 & I2 & I3) We Rd. rewrite Pc in Rd.
    cbn [reads_ok] in *. destruct Rd as [Rl Rt]. split; auto.
    destruct We as (P0 & P8 & Ln & Crs & Ex & Ty & NP & _). specialize (NP Np).
    rewrite Ro. change HL with 8. rewrite Rl, NP.
    replace (Z.to_nat (8 + Z.of_nat (length (e_bs e)) - 8)) with (length (e_bs e)) by lia. exact I3.
  - (* RVal2: the last validate; the handler runs only if it succeeds *)
    apply (of_outcome_ind RX); try (apply die_inv; exact R).
    intros v Ev. destruct v.
    2:{ unfold RX. cbn [r_finish r_pc r_rx r_out]. eapply fin_copy_err; [|exact R]. now rewrite Pc. }
    destruct R as [ann R]. rewrite Pc in R. cbn [in_copy] in R. destruct R as (l1 & e & l2 & A & Np & Ro & Nx & Rd & J).
    destruct (at_wf _ _ _ _ A) as (We & C0 & Et & G & _). pose proof (wf_c0 _ _ WV) as [C00 _].
    apply (validate_cmp_true cap k Hcap Hk m w Hw) in Ev; [|lia].
    pose proof A as [_ Pe]. destruct (Rd ltac:(lia)) as [-> ->].
    unfold RX. cbn [r_finish r_pc r_rx r_out]. eapply fin_copy_msg; eauto.
Qed.
End RxStep.

(* ================================================================ every interleaving *)
(* ghost-instrumented run: h_ch = the completed transmits; h_in = the class lap-inside-receive-next:
   the receive_next of the code WITHOUT fixes/C08-receive-next-revalidate.diff has read a header word
   (length / type at its cursor, length at offset 0 after a padding record) at a moment when a validation
   of the record that word belongs to would have failed, i.e. after the transmitter had announced
   (tail-intent) that it overwrites it.  Never set for the repaired code. *)
Record hstate := mkH { h_s : cstate; h_ch : chan; h_in : bool }.

Definition hstep (g : hstate) (tid : Z) : option hstate :=
  match step_thread m w hv cap (h_s g) tid with
  | None => None
  | Some s' =>
      if tid =? 0 then Some {| h_s := s'; h_ch := next_ch cap (h_ch g) (c_tx (h_s g)); h_in := h_in g |}
      else Some {| h_s := s'; h_ch := h_ch g;
                   h_in := h_in g || (negb (revalidates w) && stale_read (c_mem (h_s g)) (r_pc (c_rx (h_s g)))) |}
  end.

Fixpoint hrun (g : hstate) (sched : list Z) : hstate :=
  match sched with
  | [] => g
  | t :: rest => match hstep g t with Some g' => hrun g' rest | None => hrun g rest end
  end.

Lemma hrun_erase sched : forall g, h_s (hrun g sched) = run_schedule m w hv cap (h_s g) sched.
Proof.
  induction sched as [|t rest IH]; intros g; cbn [hrun run_schedule]; auto.
  unfold hstep. destruct (step_thread m w hv cap (h_s g) t) as [s'|] eqn:E; [|apply IH].
  destruct (t =? 0); rewrite IH; reflexivity.
Qed.

Definition in_class_free (g : hstate) : Prop := revalidates w = false -> h_in g = false.

Definition hinv (c0 : Z) (g : hstate) : Prop :=
  let s := h_s g in
  tinv cap c0 (c_mem s) (c_tx s) (h_ch g) /\
  allmsgs (h_ch g) ++ t_todo (c_tx s) = all /\
  (in_class_free g ->
   rxinv (c_mem s) (c_tail (h_ch g)) (Vof (h_ch g) (c_tx s)) (r_pc (c_rx s)) (r_rx (c_rx s)) (r_out (c_rx s))).

Lemma hinv_step c0 g tid g' : hinv c0 g -> hstep g tid = Some g' -> hinv c0 g'.
Proof.
  intros (TI & Sent & RI) St. unfold hstep in St.
  destruct (step_thread m w hv cap (h_s g) tid) as [s'|] eqn:E; [|discriminate St].
  unfold step_thread in E. destruct (tid =? 0) eqn:T0.
  - (* a step of the transmitter *)
    destruct (tx_step cap (c_mem (h_s g)) (c_tx (h_s g))) as [[[t' mm'] ev]|] eqn:TS; [|discriminate E].
    injection E as <-. injection St as <-. unfold hinv. cbn [h_s h_ch h_in c_mem c_tx c_rx].
    destruct (vis_step c0 _ _ _ _ _ _ TI TS) as (TI' & [es Es] & Mono & TM).
    split; [exact TI'|]. split.
    + (* the messages *)
      pose proof (tx_step_todo cap _ _ _ _ _ TS) as TD. unfold next_ch.
      destruct TI as (mm0 & _ & Ok & _).
      destruct (t_todo (c_tx (h_s g))) as [|[ty bs] rest] eqn:Td.
      * destruct (t_pc (c_tx (h_s g))); rewrite TD; exact Sent.
      * apply Forall_cons_iff in Ok. destruct Ok as [[Acc Ty] Ok2]. cbn [fst snd] in Acc.
        destruct (t_pc (c_tx (h_s g))); rewrite TD; try exact Sent.
        rewrite allmsgs_transmit by auto. rewrite <- app_assoc. exact Sent.
    + intros CF. specialize (RI CF).
      destruct (vis_facts c0 _ _ _ TI) as (WV & _). destruct (vis_facts c0 _ _ _ TI') as (WV' & _).
      apply (rxinv_tx c0 (c_mem (h_s g)) mm' (c_tail (h_ch g)) _ (Vof (h_ch g) (c_tx (h_s g))) _ es); auto.
  - destruct (tid =? 1) eqn:T1; [|discriminate E].
    destruct (rx_step m w hv cap (c_mem (h_s g)) (c_rx (h_s g))) as [[r' ev]|] eqn:RS; [|discriminate E].
    injection E as <-. injection St as <-. unfold hinv. cbn [h_s h_ch h_in c_mem c_tx c_rx].
    split; [exact TI|]. split; [exact Sent|].
    intros CF. unfold in_class_free in CF. cbn [h_in] in CF.
    assert (CF0 : in_class_free g).
    { intros Rv. specialize (CF Rv). apply orb_false_iff in CF. tauto. }
    specialize (RI CF0).
    unfold rx_step in RS. destruct (r_finished (c_rx (h_s g))); [discriminate RS|]. injection RS as <- _.
    destruct (vis_facts c0 _ _ _ TI) as (WV & Wch & [es Es] & FT & FL & FB & Live & [rest Pre]).
    destruct (grow_facts c0 _ _ es Wch WV Es) as (G & _).
    apply (rxinv_rx c0 (c_mem (h_s g)) (c_tail (h_ch g)) (Vof (h_ch g) (c_tx (h_s g)))); auto.
    + exists rest. rewrite <- Sent. symmetry. exact Pre.
    + intros Rv. specialize (CF Rv). apply orb_false_iff in CF. destruct CF as [_ CF]. rewrite Rv in CF. exact CF.
Qed.

(* the repaired code is never in the class *)
Lemma hrun_in_repaired sched : revalidates w = true -> forall g, h_in (hrun g sched) = h_in g.
Proof.
  intros Rv. induction sched as [|t rest IH]; intros g; cbn [hrun]; auto.
  unfold hstep. destruct (step_thread m w hv cap (h_s g) t) as [s'|]; [|apply IH].
  destruct (t =? 0); rewrite IH; cbn [h_in]; auto. rewrite Rv. cbn [negb andb]. apply orb_false_r.
Qed.

Lemma hrun_inv c0 sched : forall g, hinv c0 g -> hinv c0 (hrun g sched).
Proof.
  induction sched as [|t rest IH]; intros g G; cbn [hrun]; auto.
  destruct (hstep g t) as [g'|] eqn:E; auto. apply IH. eapply hinv_step; eauto.
Qed.

Definition hinit (c0 : Z) (pre msgs : list (Z * list Z)) (nrecv : nat) : hstate :=
  {| h_s := init_cstate cap c0 pre msgs nrecv; h_ch := spec_pre cap (chan_init c0) pre; h_in := false |}.

Lemma join_index c0 V : wfch c0 V -> idx V (c_latest V) = Nat.pred (length (allmsgs V)).
Proof.
  intros W. destruct (wf_last _ _ W) as [[E L]|(d & e & E & P & N)].
  - unfold idx, allmsgs. rewrite E. reflexivity.
  - rewrite <- P, (idx_at c0 V d e [] W E). unfold allmsgs. rewrite map_length. fold (cnt (c_log V)).
    rewrite E, cnt_app. assert (C1 : cnt [e] = 1%nat) by (unfold cnt; cbn [filter]; rewrite N; reflexivity). lia.
Qed.

Lemma hinit_inv c0 pre msgs nrecv :
  conc_ok cap c0 pre msgs -> all = transmitted_pre cap pre ++ msgs -> i0 = Nat.pred (length (transmitted_pre cap pre)) ->
  hinv c0 (hinit c0 pre msgs nrecv).
Proof.
  intros OK Eall Ei. destruct (ginit_inv cap k Hcap Hk c0 pre msgs nrecv OK) as [[TI _] [S _]].
  unfold ginit in TI, S. cbn [g_s g_ch] in TI, S.
  unfold hinv, hinit. cbn [h_s h_ch h_in]. split; [exact TI|]. split; [rewrite Eall; exact S|].
  intros _. destruct (vis_facts c0 _ _ _ TI) as (WV & _ & _ & _ & FL & _).
  unfold init_cstate in *. cbn [c_mem c_tx c_rx r_pc r_rx r_out t_pc t_todo] in *.
  set (V := Vof (spec_pre cap (chan_init c0) pre) {| t_pc := TIdle; t_todo := msgs; t_done := 0 |}) in *.
  assert (EV : V = spec_pre cap (chan_init c0) pre) by reflexivity.
  exists []. cbn [in_copy]. unfold rx_new. cbn [next_record]. rewrite FL.
  split; [|split; [|exact Logic.I]].
  - destruct (wf_last _ _ WV) as [[E L]|(d & e & E & P & N)]; [left; exact L|].
    right. exists d, e, []. split; auto.
  - exists i0, false. split; [reflexivity|]. split; [constructor|].
    rewrite (join_index c0 V WV), EV, (allmsgs_pre cap k pre (chan_init c0)). cbn [allmsgs chan_init c_log filter map app].
    rewrite Ei. split; [lia|auto].
Qed.

Theorem interleaved c0 pre msgs nrecv sched :
  conc_ok cap c0 pre msgs -> all = transmitted_pre cap pre ++ msgs -> i0 = Nat.pred (length (transmitted_pre cap pre)) ->
  let g := hrun (hinit c0 pre msgs nrecv) sched in
  h_s g = run_schedule m w hv cap (init_cstate cap c0 pre msgs nrecv) sched /\
  (in_class_free g ->
   exists ann i lost, map fst ann = r_out (c_rx (h_s g)) /\ jst all i0 ann i lost /\
     (* drained: when the receiver is between two receives and a receive starting now would find nothing, then - unless
        a loss report is pending - every message whose transmit has completed has been delivered or skipped with a report *)
     (r_pc (c_rx (h_s g)) = RIdle -> c_tail (h_ch g) <= next_record (r_rx (c_rx (h_s g))) -> lost = false ->
      (length (allmsgs (h_ch g)) <= i)%nat)).
Proof.
  intros OK Eall Ei g. split; [apply hrun_erase|]. intros CF.
  pose proof (hrun_inv c0 sched _ (hinit_inv c0 pre msgs nrecv OK Eall Ei)) as (TI & _ & RI). fold g in RI, TI.
  destruct (RI CF) as [ann R]. destruct (in_copy (r_pc (c_rx (h_s g)))) eqn:IC.
  - destruct R as (l1 & e & l2 & _ & _ & _ & _ & _ & (i & lost & E & J & _)). exists ann, i, lost.
    split; [exact E|]. split; [exact J|]. intros Pc. rewrite Pc in IC. discriminate IC.
  - destruct R as (B & (i & lost & E & J & Le & Eq) & _). exists ann, i, lost.
    split; [exact E|]. split; [exact J|]. intros _ Tn Lf. rewrite (Eq Lf).
    destruct (vis_facts c0 _ _ _ TI) as (WV & Wch & [es Es] & _).
    rewrite <- (idx_tail c0 _ _ es Wch WV Es). apply idx_mono. exact Tn.
Qed.

End Order.
