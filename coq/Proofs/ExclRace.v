(* C03, exclusive publisher + subscriber: every trace of the system follows the frame discipline, hence the vector-clock
   detector Sched.race_free finds no race in it. *)
Require Import V.Base.MachineInt.
Require Import V.Generated.GenConsts.
Require Import V.Generated.GenOrdering.
Require Import V.Model.LogBase.
Require Import V.Model.Descriptor.
Require Import V.Model.Sched.
Require Import V.Model.AppenderThreads.
Require Import V.Model.ReaderThreads.
Require Import V.Model.ExclThreads.
Require Import V.Model.PollThreads.
Require Import V.Model.ClaimThreads.
Require Import V.Oracle.C03Oracle.
Require Import V.Proofs.OrderingProofs.
Require Import V.Proofs.TailArith.
Require Import V.Proofs.FragArith.
Require Import V.Proofs.RaceFold V.Proofs.RaceDisc V.Proofs.RaceFree.
Require Import V.Proofs.ExclDefs V.Proofs.ExclPub1 V.Proofs.ExclPub2 V.Proofs.ExclPub3 V.Proofs.ExclPub7.
Require Import V.Proofs.ExclRd1 V.Proofs.ExclEv.
Require Import V.Proofs.ExclRd2 V.Proofs.ExclRd3 V.Proofs.ExclRd4 V.Proofs.ExclSys V.Proofs.ExclEvR.
From Coq Require Import ZifyBool.
Open Scope Z_scope.

Section XR.
  Variable c : cfg.
  Hypothesis W : wf_cfg c.
  Variable tp : nat.

  Notation disc := (disc cls term_region).
  Notation role_ok := (role_ok cls term_region).

  (* reachability that also collects the trace *)
  Inductive reachxt : shared -> (nat -> xthread) -> xghost -> list event -> Prop :=
  | reachxt_init limit th items budget :
      th tp = XPub (x_init c items budget) -> (forall t, t <> tp -> init_x (th t)) -> one_rd th ->
      reachxt (init_shared c limit) th (xg0 c) []
  | reachxt_step s th gh tr t s' x' e :
      reachxt s th gh tr -> admx c s th t -> xtstep c t s (th t) = Some (s', x', e) ->
      reachxt s' (upd_thread th t x') (xgstepx c (th t) gh) (tr ++ [e]).

  Lemma reachxt_reachx s th gh tr : reachxt s th gh tr -> reachx c tp s th gh.
  Proof. induction 1; [eapply reachx_init; eauto | eapply reachx_step; eauto]. Qed.

  (* what the discipline's ghost state knows about the subscriber: the frame it is on has been acquired, and so have the frames a
     block_poll scan has passed *)
  Definition RdC (dg : dghost) (gh : xghost) (th : nat -> xthread) : Prop :=
    (forall t l, th t = XV l -> von_frame (v_pc l) = true -> dg_seen dg t (v_idx l) (v_foff l) = true) /\
    (forall t l, th t = XV l -> in_block (v_pc l) = true -> forall o sl, In (o, sl) (xg_fr gh (v_idx l)) -> v_p0 l <= o < v_off l ->
                 dg_seen dg t (v_idx l) o = true) /\
    (forall t l, th t = XV l -> v_pc l = VBTid \/ v_pc l = VBRead -> v_p0 l < v_off l).

  (* ghost state of the discipline vs. ghost state of the invariant *)
  Record Coupl (dg : dghost) (gh : xghost) (pl : xlocal) (th : nat -> xthread) : Prop := {
    cp_com : forall p o sl, lookup o (xg_fr gh p) = Some sl -> dg_slot dg p o = Some (mkDS tp (align (s_len sl) FA) true);
    cp_cur : forall o sl, cur c pl = Some (o, sl) -> dg_slot dg (x_idx pl) o = Some (mkDS tp (cur_ext c pl) false);
    cp_only : forall p o d, dg_slot dg p o = Some d ->
                (exists sl, lookup o (xg_fr gh p) = Some sl) \/ (p = x_idx pl /\ exists sl, cur c pl = Some (o, sl));
    cp_acq : forall p oa, dg_acq dg p oa = true -> bnd c gh p oa;
    cp_seen : RdC dg gh th
  }.

  Lemma cur_front gh pl o sl : XPInv c gh pl -> cur c pl = Some (o, sl) -> o = front pl.
  Proof. intros _ H. unfold cur, front in *. destruct (x_pc pl); try discriminate H; inversion H; reflexivity. Qed.

  Lemma lookup_xg_add gh q x fin p o sl : lookup o (xg_fr (xg_add gh q x fin) p) = Some sl ->
    lookup o (xg_fr gh p) = Some sl \/ (p = q /\ o = x /\ sl = fin /\ lookup o (xg_fr gh p) = None).
  Proof. cbn [xg_add xg_fr]. destruct (p =? q) eqn:E; [|auto]. assert (p = q) as -> by lia. rewrite lookup_app.
    destruct (lookup o (xg_fr gh q)) eqn:El; [auto|]. destruct (x =? o) eqn:Ex; [|discriminate]. intros H. inversion H; subst. right. repeat split; lia. Qed.

  Lemma idx_region_v gh l : pollf c gh l -> term_region (v_idx l) = true.
  Proof. intros (g & _ & -> & _). pose proof (Z.mod_pos_bound g 3 ltac:(lia)). unfold term_region. lia. Qed.

  Theorem reachxt_disc s th gh tr : reachxt s th gh tr ->
    exists dg pl, disc dg (map narrow tr) /\ th tp = XPub pl /\ Coupl dg gh pl th.
  Proof. induction 1 as [limit th items budget Hpub Hinit Hr | s th gh tr t s' x' e Hreach IH Hadm Hstep].
    - exists (dg0), (x_init c items budget). split; [constructor|]. split; [assumption|].
      constructor; cbn; try (intros; discriminate).
      + intros o sl Hc. unfold x_init in Hc. rewrite cur_begin in Hc. discriminate.
      + assert (Hi : forall t l, th t = XV l -> vin_poll (v_pc l) = false).
        { intros t l Ht. assert (Hne : t <> tp) by (intros ->; congruence). specialize (Hinit t Hne). rewrite Ht in Hinit.
          destruct Hinit as (l0 & polls & ->). cbn. destruct polls; reflexivity. }
        split; [|split]; intros t l Ht X; specialize (Hi t l Ht); destruct (v_pc l); try discriminate; destruct X; discriminate.
    - destruct IH as (dg & pl & D & Hpl & [C1 C2 C3 C4 (C5 & C6 & C7)]).
      pose proof (reachx_inv c W tp s th gh (reachxt_reachx _ _ _ _ Hreach)) as [(pl0 & Hpl0 & I & M) L Hsub Hrd Hk Hone].
      assert (pl0 = pl) by congruence. subst pl0.
      rewrite map_app. cbn [map]. unfold xtstep in Hstep. unfold xgstepx, admx in *.
      destruct (Nat.eq_dec t tp) as [-> | Hntp].
      + (* ---- the exclusive publisher ---- *)
        rewrite Hpl in *. destruct (xstep c tp s pl) as [[[s1 pl'] e1]|] eqn:Ex; [|discriminate]. inversion Hstep; subst s' x' e. clear Hstep.
        destruct (xstep_event c W gh s pl tp s1 pl' e1 I Ex) as (Htid & Hf).
        pose proof (idx_region c gh pl I) as Hreg.
        pose proof (front_free c gh pl I L) as Hfree.
        destruct (L (x_idx pl)) as (L1 & _).
        assert (Hseen' : forall dg' gh', dg_seen dg' = dg_seen dg ->
                  (forall p o sl, In (o, sl) (xg_fr gh' p) -> In (o, sl) (xg_fr gh p) \/ (p = x_idx pl /\ o = front pl)) ->
                  RdC dg' gh' (upd_thread th tp (XPub pl'))).
        { intros dg' gh' E Hfr. split; [|split].
          - intros t l Ht Hon. rewrite E. destruct (Nat.eq_dec t tp) as [-> | Hne]; [rewrite upd_same in Ht; discriminate|].
            rewrite upd_other in Ht by assumption. eauto.
          - intros t l Ht Hb o sl Hin Ho. rewrite E. destruct (Nat.eq_dec t tp) as [-> | Hne]; [rewrite upd_same in Ht; discriminate|].
            rewrite upd_other in Ht by assumption. destruct (Hfr _ _ _ Hin) as [Hold | (Ep & Eo)]; [eauto|]. exfalso.
            assert (Hvp : vin_poll (v_pc l) = true) by (destruct (v_pc l); try discriminate Hb; reflexivity).
            destruct (vi_poll c gh l (Hrd t l Ht) Hvp) as (g & _ & _ & _ & Hbo & _).
            rewrite Ep in Hbo. pose proof (isbnd_range c _ _ _ _ L1 Hbo) as R. rewrite (xp_front c gh pl I) in R. lia.
          - intros t l Ht Hb. destruct (Nat.eq_dec t tp) as [-> | Hne]; [rewrite upd_same in Ht; discriminate|].
            rewrite upd_other in Ht by assumption. eauto. }
        unfold xfacts in Hf. destruct (xkind_of (x_pc pl)) eqn:Ek.
        * (* no frame access *)
          destruct Hf as (F1 & F2 & F3 & F4). rewrite F4.
          exists (role_upd dg (narrow e1) DOther), pl'. split; [eapply disc_snoc; [exact D | exact F1]|]. split; [apply upd_same|].
          cbn [role_upd]. constructor; try assumption.
          -- intros o sl Hc. congruence.
          -- intros p o d Hs. destruct (C3 p o d Hs) as [X | (_ & sl & X)]; [left; assumption | congruence].
          -- apply Hseen'; [reflexivity | intros; left; assumption].
        * (* the negative length: a new frame *)
          destruct Hf as (F1 & F2 & F3 & F4 & F5 & F6 & (sl' & F7) & F8 & F9 & F10 & F11 & F12). rewrite F11, F1 in *.
          rewrite F10 in *.
          assert (Hnone : dg_slot dg (x_idx pl) (front pl) = None).
          { destruct (dg_slot dg (x_idx pl) (front pl)) as [d|] eqn:Es; [|reflexivity]. exfalso.
            destruct (C3 _ _ _ Es) as [(sl & X) | (_ & sl & X)]; congruence. }
          exists (role_upd dg e1 (DNeg (cur_ext c pl))), pl'. split; [|split; [apply upd_same|]].
          -- eapply disc_snoc; [exact D|]. cbn [RaceDisc.role_ok]. rewrite F2, F3, F5.
             split; [assumption|]. split; [apply put_ordered_is_release|]. split; [assumption|]. split; [lia|]. split; [assumption|]. split.
             ++ intros o' d Hs. left. destruct (C3 _ _ _ Hs) as [(sl & X) | (_ & sl & X)]; [|congruence].
                rewrite (C1 _ _ _ X) in Hs. inversion Hs; subst d. cbn [ds_ext].
                destruct (laid_bounds c _ _ _ L1) as (_ & B). destruct (B _ _ (lookup_in _ _ _ X)) as (_ & B2 & _).
                rewrite (xp_front c gh pl I) in B2. exact B2.
             ++ intros oa Ha. pose proof (isbnd_range c _ _ _ _ L1 (C4 _ _ Ha)) as R. rewrite (xp_front c gh pl I) in R. lia.
          -- cbn [role_upd]. rewrite F2, F3, Htid. constructor; cbn [dg_slot dg_seen dg_acq]; try assumption.
             ++ intros p o sl X. unfold upd2o. destruct ((p =? x_idx pl) && (o =? front pl)) eqn:E; [|auto].
                assert (p = x_idx pl /\ o = front pl) as [-> ->] by lia. congruence.
             ++ intros o sl X. rewrite F7 in X. inversion X; subst o sl. rewrite F9. unfold upd2o. rewrite !Z.eqb_refl. cbn. rewrite F8. reflexivity.
             ++ intros p o d. unfold upd2o. destruct ((p =? x_idx pl) && (o =? front pl)) eqn:E.
                ** assert (p = x_idx pl /\ o = front pl) as [-> ->] by lia. intros _. right. split; [congruence | eauto].
                ** intros Hs. destruct (C3 p o d Hs) as [X | (_ & sl & X)]; [left; assumption | congruence].
             ++ apply Hseen'; [reflexivity | intros; left; assumption].
        * (* a write inside the frame *)
          destruct Hf as ([B1 B2 B3 B4 B5] & (sl0 & F2) & (sl' & F3) & F4 & F5 & F6). rewrite F6.
          exists (role_upd dg (narrow e1) (DBurst (xslot pl))), pl'. split; [|split; [apply upd_same|]].
          -- eapply disc_snoc; [exact D|]. cbn [RaceDisc.role_ok]. rewrite B1, Htid.
             split; [assumption|]. split; [assumption|]. split; [assumption|].
             exists (mkDS tp (cur_ext c pl) false). cbn. split; [apply (C2 _ _ F2)|]. repeat split; assumption.
          -- cbn [role_upd]. constructor; try assumption.
             ++ intros o sl X. rewrite F3 in X. inversion X; subst o sl. rewrite F5, F4. eapply C2. eassumption.
             ++ intros p o d Hs. destruct (C3 p o d Hs) as [X | (E1 & sl & X)]; [left; assumption|].
                right. rewrite F5. split; [assumption|]. rewrite F2 in X. inversion X; subst. eauto.
             ++ apply Hseen'; [reflexivity | intros; left; assumption].
        * (* the positive length: commit *)
          destruct Hf as (F1 & F2 & F3 & F4 & F5 & (sl0 & F6) & F7 & F8 & fin & F9 & F10). rewrite F9, F1 in *. rewrite F8 in *.
          pose proof (C2 _ _ F6) as Hsl.
          exists (role_upd dg e1 DCommit), pl'. split; [|split; [apply upd_same|]].
          -- eapply disc_snoc; [exact D|]. cbn [RaceDisc.role_ok]. rewrite F2, F3, F5, Htid.
             split; [assumption|]. split; [apply put_ordered_is_release|]. split; [assumption|].
             exists (mkDS tp (cur_ext c pl) false). cbn. auto.
          -- cbn [role_upd]. rewrite F2, F3, Hsl. cbn [ds_ow ds_ext]. constructor; cbn [dg_slot dg_seen dg_acq]; try assumption.
             ++ intros p o sl X. unfold upd2o. destruct (lookup_xg_add _ _ _ _ _ _ _ X) as [Y | (-> & -> & -> & Y)].
                ** destruct ((p =? x_idx pl) && (o =? front pl)) eqn:E; [|auto]. assert (p = x_idx pl /\ o = front pl) as [-> ->] by lia. congruence.
                ** rewrite !Z.eqb_refl. cbn. rewrite F10. reflexivity.
             ++ intros o sl X. congruence.
             ++ intros p o d. unfold upd2o. destruct ((p =? x_idx pl) && (o =? front pl)) eqn:E.
                ** assert (p = x_idx pl /\ o = front pl) as [-> ->] by lia. intros _. left. exists fin. cbn [xg_add xg_fr]. rewrite Z.eqb_refl, lookup_app, Hfree, Z.eqb_refl. reflexivity.
                ** intros Hs. destruct (C3 p o d Hs) as [(sl & X) | (E1 & sl & X)].
                   --- left. exists sl. apply lookup_add. assumption.
                   --- exfalso. rewrite F6 in X. inversion X; subst. lia.
             ++ intros p oa Ha. apply bnd_add. auto.
             ++ apply Hseen'; [reflexivity|]. intros p o sl Hin. cbn [xg_add xg_fr] in Hin. destruct (p =? x_idx pl) eqn:E; [|left; assumption]. assert (p = x_idx pl) by lia. subst p.
                apply in_app_or in Hin. destruct Hin as [Hin | [Heq | []]]; [left; assumption|]. inversion Heq; subst o sl. right. split; reflexivity.
      + (* ---- the other threads ---- *)
        pose proof (Hk t Hntp) as Hkt.
        assert (Hpl' : forall x, upd_thread th t x tp = XPub pl) by (intros x; rewrite upd_other by congruence; assumption).
        destruct (th t) as [x | l | l | l] eqn:Eth; try contradiction.
        * (* environment: the publication limit *)
          destruct x as [[l0 | el |] | rl]; try contradiction; [|cbn in Hstep; discriminate].
          cbn in Hstep. unfold estep in Hstep. destruct (e_ops el) as [|op r] eqn:Eops; [discriminate|].
          destruct (Hkt op ltac:(rewrite Eops; left; reflexivity)) as (v & ->). inversion Hstep; subst s' x' e. clear Hstep.
          exists (role_upd dg (narrow (ev t PutOrdered R_CNT LIMIT_OFF 8 v 0 0)) DOther), pl.
          split; [eapply disc_snoc; [exact D | reflexivity]|]. split; [apply Hpl'|].
          cbn [role_upd]. constructor; try assumption.
          split; [|split]; intros t0 l0 Ht0; (destruct (Nat.eq_dec t0 t) as [-> | Hne]; [rewrite upd_same in Ht0; discriminate | rewrite upd_other in Ht0 by assumption; eauto]).
        * (* the subscriber *)
          destruct (vstep c t s l) as [[[s1 l1] e1]|] eqn:Ev; [|discriminate]. inversion Hstep; subst s' x' e. clear Hstep.
          pose proof (Hrd t l Eth) as V. pose proof V as [V1 V3 V4 V5 V6].
          destruct (vstep_event c s l t s1 l1 e1 Ev V1) as (Htid & Hnar & Hf). rewrite Hnar.
          (* the subscriber-facing part of the coupling after the step *)
          assert (Hseen' : forall dg', (forall t0 p o, dg_seen dg t0 p o = true -> dg_seen dg' t0 p o = true) ->
                    (von_frame (v_pc l1) = true -> dg_seen dg' t (v_idx l1) (v_foff l1) = true) ->
                    (in_block (v_pc l1) = true -> forall o sl, In (o, sl) (xg_fr gh (v_idx l1)) -> v_p0 l1 <= o < v_off l1 -> dg_seen dg' t (v_idx l1) o = true) ->
                    RdC dg' gh (upd_thread th t (XV l1))).
          { intros dg' E1 E2 E3. split; [|split].
            - intros t0 l0 Ht0 Hon. destruct (Nat.eq_dec t0 t) as [-> | Hne].
              + rewrite upd_same in Ht0. inversion Ht0; subst l0. auto.
              + rewrite upd_other in Ht0 by assumption. apply E1. eauto.
            - intros t0 l0 Ht0 Hb o sl Hin Ho. destruct (Nat.eq_dec t0 t) as [-> | Hne].
              + rewrite upd_same in Ht0. inversion Ht0; subst l0. eauto.
              + rewrite upd_other in Ht0 by assumption. apply E1. eauto.
            - intros t0 l0 Ht0 Hb. destruct (Nat.eq_dec t0 t) as [-> | Hne].
              + rewrite upd_same in Ht0. inversion Ht0; subst l0. destruct Hb as [Hb | Hb]; [apply (btid_lt c s l t s1 l1 e1 Ev Hb)|].
                destruct (bread_from c s l t s1 l1 e1 Ev Hb) as (B1 & B2 & B3). rewrite B2, B3. apply (C7 t l Eth). auto.
              + rewrite upd_other in Ht0 by assumption. eauto. }
          (* the common shape of the steps that leave the discipline's ghost state alone *)
          assert (Same : forall r, role_upd dg e1 r = dg -> role_ok dg e1 r ->
                    (von_frame (v_pc l1) = true -> dg_seen dg t (v_idx l1) (v_foff l1) = true) ->
                    (in_block (v_pc l1) = true -> forall o sl, In (o, sl) (xg_fr gh (v_idx l1)) -> v_p0 l1 <= o < v_off l1 -> dg_seen dg t (v_idx l1) o = true) ->
                    exists dg0 pl0, disc dg0 (map narrow tr ++ [e1]) /\ upd_thread th t (XV l1) tp = XPub pl0 /\ Coupl dg0 gh pl0 (upd_thread th t (XV l1))).
          { intros r Er Hro E2 E3. exists (role_upd dg e1 r), pl. split; [eapply disc_snoc; eauto|]. split; [apply Hpl'|].
            rewrite Er. constructor; try assumption. apply Hseen'; auto. }
          (* a plain read inside the frame the subscriber is on *)
          assert (OnF : von_frame (v_pc l) = true -> forall acc, e_acc e1 = acc -> cls acc = CPlainR -> e_reg e1 = v_idx l ->
                    (32 <= v_flen l -> v_flen l <= align (v_flen l) FA -> 0 <= e_len e1 /\ v_foff l <= e_off e1 /\ e_off e1 + e_len e1 <= v_foff l + align (v_flen l) FA) ->
                    (von_frame (v_pc l1) = true -> v_idx l1 = v_idx l /\ v_foff l1 = v_foff l) ->
                    (in_block (v_pc l1) = true -> v_p0 l1 = v_p0 l /\ v_idx l1 = v_idx l /\ (v_off l1 = v_off l \/ v_off l1 = v_off l + align (v_flen l) FA)) ->
                    exists dg0 pl0, disc dg0 (map narrow tr ++ [e1]) /\ upd_thread th t (XV l1) tp = XPub pl0 /\ Coupl dg0 gh pl0 (upd_thread th t (XV l1))).
          { intros Hon0 acc Hacc Hcls Hreg Hrng Hnext Hblk.
            assert (Hvp : vin_poll (v_pc l) = true) by (destruct (v_pc l); try discriminate Hon0; reflexivity).
            pose proof (V3 Hvp) as P. pose proof (idx_region_v gh l P) as Hregn.
            destruct (V4 Hon0) as (sl & K1 & K2 & K3 & K4). destruct (L (v_idx l)) as (Ll & _ & _ & Lw).
            destruct (Lw _ _ (lookup_in _ _ _ K1)) as (Hh & _). rewrite HDR_32 in Hh. rewrite K2 in Hh.
            pose proof (align_pos (v_flen l) ltac:(lia)) as (Al & _). rewrite <- FA_32 in Al.
            destruct (Hrng Hh (proj1 Al)) as (Q1 & Q2 & Q3).
            pose proof (C5 t l Eth Hon0) as Hsn. pose proof (C1 _ _ _ K1) as Hsl. rewrite K2 in Hsl.
            apply (Same DRead eq_refl).
            - cbn [RaceDisc.role_ok]. rewrite Hacc, Hreg, Htid. split; [assumption|]. split; [assumption|]. split; [assumption|]. split.
              + intros b Hb. exists (v_foff l), (mkDS tp (align (v_flen l) FA) true). cbn [ds_ext]. split; [assumption|]. split; [assumption | lia].
              + intros _. exists (v_foff l), (mkDS tp (align (v_flen l) FA) true). cbn [ds_ext]. split; [assumption|]. split; [assumption | lia].
            - intros Hon. destruct (Hnext Hon) as (-> & ->). assumption.
            - intros Hb o sl0 Hin Ho. destruct (Hblk Hb) as (B1 & B2 & B3). rewrite B1, B2 in *.
              assert (Hbl : in_block (v_pc l) = true).
              { destruct (v_pc l) eqn:Hpc0; try discriminate Hon0; try reflexivity; exfalso; unfold vfacts in Hf; rewrite Hpc0 in Hf;
                  [destruct Hf as (_ & _ & _ & _ & _ & X) | destruct Hf as (_ & _ & _ & _ & _ & X) | destruct Hf as (_ & _ & _ & _ & _ & X) | destruct Hf as (_ & _ & _ & _ & _ & X)]; congruence. }
              destruct B3 as [B3 | B3]; rewrite B3 in Ho.
              + apply (C6 t l Eth Hbl o sl0 Hin Ho).
              + destruct (Z_lt_ge_dec o (v_off l)) as [Hlt | Hge]; [apply (C6 t l Eth Hbl o sl0 Hin); lia|].
                (* the frame just stepped over: it is the one the scan is on *)
                assert (Hpcb : v_pc l = VBType) by (destruct (v_pc l); try discriminate Hon0; try discriminate Hbl; reflexivity).
                rewrite Hpcb in K4. cbn in K4.
                destruct (laid_disj c _ _ _ _ _ _ _ Ll (lookup_in _ _ _ K1) Hin) as [(E1 & _) | [Dj | Dj]].
                * rewrite <- E1. assumption.
                * rewrite K2 in Dj. lia.
                * destruct (Lw _ _ Hin) as (Hh0 & _). rewrite HDR_32 in Hh0. pose proof (align_pos (s_len sl0) ltac:(lia)). rewrite FA_32 in *. lia. }
          unfold vfacts in Hf. destruct (v_pc l) eqn:Hpc.
          -- (* VPos *) destruct Hf as (F1 & F2 & F3). apply (Same DOther eq_refl F1); [rewrite F2; discriminate|].
             intros Hb o sl Hin Ho. specialize (F3 Hb). lia.
          -- (* VVal *) destruct Hf as (F1 & F2 & F3). apply (Same DOther eq_refl F1); [rewrite F2; discriminate | rewrite F3; discriminate].
          -- (* VLen: the acquire read of a length word *)
             destruct Hf as (F1 & F2 & F3 & F4 & F5 & F6). pose proof (V3 eq_refl) as P. pose proof (idx_region_v gh l P) as Hreg.
             destruct P as (g & G1 & G2 & G3 & G4 & _). destruct (L (v_idx l)) as (L1 & _).
             set (sees := 0 <? s_len (sh_mem s (v_idx l) (v_off l))).
             exists (role_upd dg e1 (DAcq sees)), pl. split; [|split; [apply Hpl'|]].
             ++ eapply disc_snoc; [exact D|]. cbn [RaceDisc.role_ok]. rewrite F1, F2, F3.
                split; [assumption|]. split; [apply get_volatile_is_acquire|]. split; [assumption|]. split.
                ** intros o' d Hs. destruct (C3 _ _ _ Hs) as [(sl & X) | (E1 & sl & X)].
                   --- rewrite (C1 _ _ _ X) in Hs. inversion Hs; subst d. cbn [ds_ext]. eapply isbnd_outside; eauto. eapply lookup_in; eauto.
                   --- pose proof (cur_front gh pl o' sl I X) as Ho'. pose proof (isbnd_range c _ _ _ _ L1 G4) as R.
                       rewrite E1 in R. rewrite (xp_front c gh pl I) in R. lia.
                ** intros Hs. unfold sees in Hs.
                   destruct (len_at_bnd c W s gh (Some pl) (v_idx l) (v_off l) M ltac:(intros pl0 E; inversion E; subst; assumption) ltac:(lia)) as (sl & X & _).
                   eexists. split; [apply (C1 _ _ _ X) | reflexivity].
             ++ cbn [role_upd]. rewrite F2, F3, Htid. constructor; try assumption.
                ** intros p oa. cbn [dg_acq]. unfold upd2o. destruct ((p =? v_idx l) && (oa =? v_off l)) eqn:E; [|auto].
                   assert (p = v_idx l /\ oa = v_off l) as [-> ->] by lia. intros _. assumption.
                ** apply Hseen'.
                   --- intros t0 p o Hs. cbn [dg_seen]. rewrite Hs. destruct (_ && _); reflexivity.
                   --- intros Hon. cbn [dg_seen]. destruct F5 as [(X1 & X2 & X3 & X4) | (X1 & X2)]; [|congruence].
                       rewrite X3, X4. unfold sees. replace (0 <? s_len (sh_mem s (v_idx l) (v_off l))) with true by lia.
                       rewrite Nat.eqb_refl, !Z.eqb_refl. reflexivity.
                   --- rewrite F6. discriminate.
          -- (* VType *) destruct Hf as (F1 & F2 & F3 & F4 & F5 & F6).
             apply (OnF eq_refl Get F1 plainr_get F2); [intros; rewrite F3, F4; lia | exact F5 | rewrite F6; discriminate].
          -- (* VFlags *) destruct Hf as (F1 & F2 & F3 & F4 & F5 & F6).
             apply (OnF eq_refl Get F1 plainr_get F2); [intros; rewrite F3, F4; lia | exact F5 | rewrite F6; discriminate].
          -- (* VBody *) destruct Hf as (F1 & F2 & F3 & F4 & F5 & F6).
             apply (OnF eq_refl RegionRead F1 plainr_region F2); [intros; rewrite F3, F4; lia | exact F5 | rewrite F6; discriminate].
          -- (* VFlags2 *) destruct Hf as (F1 & F2 & F3 & F4 & F5 & F6).
             apply (OnF eq_refl Get F1 plainr_get F2); [intros; rewrite F3, F4; lia | rewrite F5; discriminate | rewrite F6; discriminate].
          -- (* VCommit *) destruct Hf as (F1 & F2 & F3). apply (Same DOther eq_refl F1); [rewrite F2; discriminate | rewrite F3; discriminate].
          -- (* VSet *) destruct Hf as (F1 & F2 & F3). apply (Same DOther eq_refl F1); [rewrite F2; discriminate | rewrite F3; discriminate].
          -- (* VVal2 *) destruct Hf as (F1 & F2 & F3). apply (Same DOther eq_refl F1); [rewrite F2; discriminate | rewrite F3; discriminate].
          -- (* VSetPos *) destruct Hf as (F1 & F2 & F3). apply (Same DOther eq_refl F1); [rewrite F2; discriminate | rewrite F3; discriminate].
          -- (* VBLen: block_poll's scan acquires a length word *)
             destruct Hf as (F1 & F2 & F3 & F4 & F5). pose proof (V3 eq_refl) as P. pose proof (idx_region_v gh l P) as Hreg.
             destruct P as (g & G1 & G2 & G3 & G4 & _). destruct (L (v_idx l)) as (L1 & _).
             set (sees := 0 <? s_len (sh_mem s (v_idx l) (v_off l))).
             exists (role_upd dg e1 (DAcq sees)), pl. split; [|split; [apply Hpl'|]].
             ++ eapply disc_snoc; [exact D|]. cbn [RaceDisc.role_ok]. rewrite F1, F2, F3.
                split; [assumption|]. split; [apply get_volatile_is_acquire|]. split; [assumption|]. split.
                ** intros o' d Hs. destruct (C3 _ _ _ Hs) as [(sl & X) | (E1 & sl & X)].
                   --- rewrite (C1 _ _ _ X) in Hs. inversion Hs; subst d. cbn [ds_ext]. eapply isbnd_outside; eauto. eapply lookup_in; eauto.
                   --- pose proof (cur_front gh pl o' sl I X) as Ho'. pose proof (isbnd_range c _ _ _ _ L1 G4) as R.
                       rewrite E1 in R. rewrite (xp_front c gh pl I) in R. lia.
                ** intros Hs. unfold sees in Hs.
                   destruct (len_at_bnd c W s gh (Some pl) (v_idx l) (v_off l) M ltac:(intros pl0 E; inversion E; subst; assumption) ltac:(lia)) as (sl & X & _).
                   eexists. split; [apply (C1 _ _ _ X) | reflexivity].
             ++ cbn [role_upd]. rewrite F2, F3, Htid. constructor; try assumption.
                ** intros p oa. cbn [dg_acq]. unfold upd2o. destruct ((p =? v_idx l) && (oa =? v_off l)) eqn:E; [|auto].
                   assert (p = v_idx l /\ oa = v_off l) as [-> ->] by lia. intros _. assumption.
                ** assert (Hm : forall t0 p o, dg_seen dg t0 p o = true ->
                             (if sees && Nat.eqb t0 t && (p =? v_idx l) && (o =? v_off l) then true else dg_seen dg t0 p o) = true)
                     by (intros t0 p o Hs; rewrite Hs; destruct (_ && _); reflexivity).
                   apply Hseen'.
                   --- exact Hm.
                   --- intros Hon. cbn [dg_seen]. destruct F5 as [(X1 & X2 & X3 & (B1 & B2 & B3)) | (X1 & X2 & _)]; [|congruence].
                       rewrite B2, X3. unfold sees. replace (0 <? s_len (sh_mem s (v_idx l) (v_off l))) with true by lia.
                       rewrite Nat.eqb_refl, !Z.eqb_refl. reflexivity.
                   --- intros Hb o sl Hin Ho. cbn [dg_seen]. apply Hm.
                       assert (Bs : bsame l l1) by (destruct F5 as [(_ & _ & _ & X) | (_ & _ & X)]; auto).
                       destruct Bs as (B1 & B2 & B3). rewrite B1, B2, B3 in *. apply (C6 t l Eth ltac:(rewrite Hpc; reflexivity) o sl Hin Ho).
          -- (* VBType *) destruct Hf as (F1 & F2 & F3 & F4 & F5 & F6).
             destruct (V4 eq_refl) as (sl0 & _ & _ & _ & K4). rewrite Hpc in K4. cbn in K4.
             apply (OnF eq_refl Get F1 plainr_get F2); [intros; rewrite F3, F4, K4; lia | rewrite F5; discriminate | exact F6].
          -- (* VBTid: the term id of the first frame of the block *)
             destruct Hf as (F1 & F2 & F3 & F4 & F5 & (B1 & B2 & B3)).
             pose proof (V3 eq_refl) as P. pose proof (idx_region_v gh l P) as Hreg. destruct P as (g & G1 & G2 & G3 & G4 & _ & _ & G7).
             destruct (L (v_idx l)) as (L1 & _ & _ & Lw).
             assert (Eb : is_block (v_flav l) = true) by exact V1. rewrite <- (G7 Eb) in G3.
             pose proof (C7 t l Eth (or_introl Hpc)) as Hlt.
             destruct (isbnd_cover c _ _ _ (v_p0 l) (v_off l) (v_p0 l) L1 G3 G4 ltac:(lia)) as (x & sl & X1 & X2 & X3 & X4).
             assert (x = v_p0 l) by lia. subst x.
             destruct (Lw _ _ X1) as (Hh & _). rewrite HDR_32 in Hh. pose proof (align_pos (s_len sl) ltac:(lia)) as (Al & _). rewrite <- FA_32 in Al.
             apply (Same DRead eq_refl).
             ++ cbn [RaceDisc.role_ok]. rewrite F1, F2, F3, F4, Htid. split; [assumption|]. split; [apply plainr_get|]. split; [lia|]. split.
                ** intros b Hb. exists (v_p0 l), (mkDS tp (align (s_len sl) FA) true). cbn [ds_ext].
                   split; [apply (C6 t l Eth ltac:(rewrite Hpc; reflexivity) _ _ X1); lia|]. split; [apply C1; eapply laid_in_lookup; eauto | lia].
                ** intros; lia.
             ++ rewrite F5. discriminate.
             ++ intros Hb o sl1 Hin Ho. rewrite B1, B2, B3 in *. apply (C6 t l Eth ltac:(rewrite Hpc; reflexivity) o sl1 Hin Ho).
          -- (* VBRead: the block handler reads the whole block *)
             destruct Hf as (F1 & F2 & F3 & F4 & F5 & (B1 & B2 & B3)).
             pose proof (V3 eq_refl) as P. pose proof (idx_region_v gh l P) as Hreg. destruct P as (g & G1 & G2 & G3 & G4 & _ & _ & G7).
             destruct (L (v_idx l)) as (L1 & _ & _ & Lw).
             assert (Eb : is_block (v_flav l) = true) by exact V1. rewrite <- (G7 Eb) in G3.
             pose proof (C7 t l Eth (or_intror Hpc)) as Hlt.
             apply (Same DRead eq_refl).
             ++ cbn [RaceDisc.role_ok]. rewrite F1, F2, F3, F4, Htid. split; [assumption|]. split; [apply plainr_region|]. split; [lia|]. split.
                ** intros b Hb. destruct (isbnd_cover c _ _ _ (v_p0 l) (v_off l) b L1 G3 G4 ltac:(lia)) as (x & sl & X1 & X2 & X3 & X4).
                   exists x, (mkDS tp (align (s_len sl) FA) true). cbn [ds_ext].
                   split; [apply (C6 t l Eth ltac:(rewrite Hpc; reflexivity) _ _ X1); lia|]. split; [apply C1; eapply laid_in_lookup; eauto | lia].
                ** intros; lia.
             ++ rewrite F5. discriminate.
             ++ intros Hb o sl1 Hin Ho. rewrite B1, B2, B3 in *. apply (C6 t l Eth ltac:(rewrite Hpc; reflexivity) o sl1 Hin Ho).
          -- (* VBSet *) destruct Hf as (F1 & F2 & F3). apply (Same DOther eq_refl F1); [rewrite F2; discriminate | rewrite F3; discriminate].
          -- (* VDone *) exfalso. unfold vstep in Ev. rewrite Hpc in Ev. discriminate. Qed.

  (* the executable vector-clock race detector finds no race in any trace of the system *)
  Theorem x_race_free s th gh tr : reachxt s th gh tr -> race_free cls term_region (map narrow tr) = true.
  Proof. intros H. destruct (reachxt_disc s th gh tr H) as (dg & pl & D & _). eapply disc_race_free. exact D. Qed.
End XR.
