(* The C10 oracle on the model's own observations. *)
Require Import V.Base.MachineInt.
Require Import V.Generated.GenConsts.
Require Import V.Model.Conductor.
Require Import V.Proofs.ConductorBase.
Require Import V.Proofs.ConductorInv.
Require Import V.Proofs.ConductorProofs.
Require Import V.Proofs.ConductorClose.
Require Import V.Oracle.C09Oracle.
Require Import V.Proofs.C09OracleProofs.
Require Import V.Oracle.C10Oracle.
From Coq Require Import ZifyBool.
Open Scope Z_scope.

(* ---- what the operations do to the clock, the timers and the driver-related flags ---- *)
Definition env_eq (s s' : st) : Prop :=
  now s' = now s /\ t_work s' = t_work s /\ t_keep s' = t_keep s /\ driver_hb s' = driver_hb s /\ hb_env s' = hb_env s /\
  hb_bound s' = hb_bound s /\ driver_active s' = driver_active s.

Lemma env_eq_refl s : env_eq s s. Proof. unfold env_eq. tauto. Qed.
Lemma env_eq_trans a b c : env_eq a b -> env_eq b c -> env_eq a c.
Proof. unfold env_eq. intuition congruence. Qed.

Lemma env_eq_setm k m s : env_eq s (setm k m s).
Proof. unfold env_eq. rewrite setm_now, setm_t_work, setm_t_keep, setm_driver_hb, setm_hb_env, setm_hb_bound, setm_driver_active. tauto. Qed.

Lemma close_all_env s : env_eq s (fst (fst (close_all s))).
Proof. pose proof (close_all_scalars s) as H. cbn in H. unfold env_eq. tauto. Qed.
Lemma close_all_env' s s1 cbs hang : close_all s = (s1, cbs, hang) -> env_eq s s1.
Proof. intros H. pose proof (close_all_env s) as X. rewrite H in X. exact X. Qed.

Lemma do_add_env k a1 a2 a3 s : env_eq s (fst (do_add k a1 a2 a3 s)).
Proof. unfold do_add. repeat dmatch; cbn [fst]; try apply env_eq_refl; try (unfold env_eq; cbn; tauto).
  eapply env_eq_trans; [|apply env_eq_setm]. unfold env_eq; cbn; tauto. Qed.

Lemma do_find_env c k r s : env_eq s (fst (do_find c k r s)).
Proof. unfold do_find.
  assert (H : forall m, env_eq s (setm k m (set_next_h (next_h s + 1) s))).
  { intros m. eapply env_eq_trans; [|apply env_eq_setm]. unfold env_eq; cbn; tauto. }
  repeat dmatch; cbn [fst]; try apply env_eq_refl; try apply H; apply env_eq_setm. Qed.

Lemma do_release_env k r imgs s : env_eq s (fst (do_release k r imgs s)).
Proof. unfold do_release. dmatch; [|apply env_eq_refl]. destruct (ring_full s); [destruct k|]; cbn [fst];
  (eapply env_eq_trans; [|apply env_eq_setm]); unfold env_eq; cbn; tauto. Qed.

Lemma do_drop_env k r s : env_eq s (fst (do_drop k r s)).
Proof. rewrite do_drop_eq.
  assert (Hd : forall o, env_eq s (fst (dtor_user k r o s))).
  { intros o. unfold dtor_user. destruct k; try apply do_release_env; destruct (o_closed o); try apply env_eq_refl; apply do_release_env. }
  assert (Hx : forall o, env_eq s (set_orphans (remove_orphan k r (orphans (fst (dtor_user k r o s)))) (fst (dtor_user k r o s)))).
  { intros o. eapply env_eq_trans; [apply Hd|]. unfold env_eq; cbn; tauto. }
  destruct k; try apply env_eq_refl; destruct (user_obj _ r s); try apply env_eq_refl; apply Hx. Qed.

Lemma do_close_env s : env_eq s (fst (do_close s)).
Proof. unfold do_close. pose proof (close_all_env s) as H. destruct (close_all s) as [[s1 cbs] hang]. cbn [fst] in H.
  destruct hang; [exact H|]. destruct (close_sent s1); [exact H|]. cbn [fst]. eapply env_eq_trans; [exact H|]. unfold env_eq; cbn; tauto. Qed.

Lemma on_event_env ev s : env_eq s (fst (fst (on_event ev s))).
Proof. destruct ev; cbn [on_event]; repeat dmatch; cbn [fst]; try apply env_eq_refl; try apply env_eq_setm.
  - unfold on_error. repeat dmatch; try apply env_eq_refl; apply env_eq_setm.
  - eapply close_all_env'; eauto.
  - unfold env_eq. cbn. tauto. Qed.

(* ---- the error-handler calls of a duty cycle ---- *)
Lemma has_err_in e cbs : has_err e cbs = true <-> In (CbErr e) cbs.
Proof. unfold has_err. rewrite existsb_exists. split.
  - intros (x & Hin & Hx). destruct x; try discriminate. destruct e, e0; try discriminate; try exact Hin.
    cbn in Hx. assert (x = x0) by lia. subst. exact Hin.
  - intros H. exists (CbErr e). split; auto. destruct e; try reflexivity. cbn. apply Z.eqb_refl. Qed.

Lemma has_err_app e a b : has_err e (a ++ b) = has_err e a || has_err e b.
Proof. unfold has_err. apply existsb_app. Qed.

Definition no_errs (cbs : list cb) : Prop := forall e, ~ In (CbErr e) cbs.

Lemma close_all_no_errs s : no_errs (snd (fst (close_all s))).
Proof. intros e Hin. unfold close_all in Hin. destruct (closed s); [exact Hin|].
  destruct (close_subs (subs s)) as [sl scbs] eqn:Es. destruct (close_ctrs (ctrs s)) as [cl ccbs] eqn:Ec. cbn [fst snd] in Hin.
  apply in_app_or in Hin. destruct Hin as [Hin|Hin].
  - pose proof (close_subs_cbs (subs s)) as Hs. rewrite Es in Hs. cbn in Hs. subst scbs. apply sub_cbs_shape in Hin. destruct Hin as (r & i & H). discriminate.
  - apply in_app_or in Hin. destruct Hin as [Hin|[Hin|[]]]; [|discriminate].
    assert (Hcc : ccbs = snd (close_ctrs (ctrs s))) by (rewrite Ec; reflexivity). subst ccbs. apply ctr_cbs_shape in Hin. destruct Hin as (r & i & H). discriminate. Qed.

Lemma close_all_no_errs' s s1 cbs hang : close_all s = (s1, cbs, hang) -> no_errs cbs.
Proof. intros H. pose proof (close_all_no_errs s) as X. rewrite H in X. exact X. Qed.

Lemma on_event_errs ev s e : In (CbErr e) (snd (fst (on_event ev s))) ->
  e = EClientTimeout \/ exists x, ev = EvChanError x /\ e = EChannelEndpoint x.
Proof. destruct ev; cbn [on_event]; repeat dmatch; cbn [fst snd]; try (intros [H|[]]; discriminate); try (intros []).
  - intros Hin. left. apply in_app_or in Hin. destruct Hin as [Hin|[Hin|[]]].
    + exfalso. eapply close_all_no_errs'; eauto.
    + congruence.
  - intros Hin. right. apply on_chan_error_cbs_shape in Hin. destruct Hin as [Hin|(r & i & Hin)]; [|discriminate].
    inversion Hin; subst. eauto. Qed.

(* ---- exact description of the timer part of a duty cycle ---- *)
Definition keep_due (s : st) : bool := t_keep s + KEEPALIVE_TIMEOUT_MS <? now s.
Definition silent_now (c : config) (s : st) : bool := (0 <=? driver_hb s) && (driver_hb s + c_tdrv c <? now s).

Lemma hc_service_spec c s :
  env_eq s (fst (fst (hc_service c (now s) s))) /\ (forall e, In (CbErr e) (snd (fst (hc_service c (now s) s))) -> e = EServiceTimeout).
Proof. unfold hc_service. destruct (t_work s + c_tis c <? now s).
  - destruct (close_all s) as [[s1 cbs] hang] eqn:E. cbn [fst snd]. split; [eapply close_all_env'; eauto|].
    intros e Hin. apply in_app_or in Hin. destruct Hin as [Hin|[Hin|[]]]; [exfalso; eapply close_all_no_errs'; eauto|congruence].
  - cbn [fst snd]. split; [apply env_eq_refl|]. intros e []. Qed.

Lemma hc_heartbeat_spec s :
  let s1 := fst (fst (hc_heartbeat s)) in
  now s1 = now s /\ t_work s1 = t_work s /\ t_keep s1 = t_keep s /\ driver_hb s1 = driver_hb s /\ hb_env s1 = hb_env s /\
  driver_active s1 = driver_active s /\ hb_bound s1 = (hb_bound s || (hb_env s =? 1)) /\
  (forall e, In (CbErr e) (snd (fst (hc_heartbeat s))) -> e = EHeartbeatLost).
Proof. cbn zeta. unfold hc_heartbeat. destruct (hb_bound s) eqn:Eb; destruct (hb_env s =? 1) eqn:Ee; cbn [orb fst snd].
  - repeat split; auto. intros e [].
  - destruct (close_all s) as [[s1 cbs] hang] eqn:E. pose proof (close_all_env' _ _ _ _ E) as (A1 & A2 & A3 & A4 & A5 & A6 & A7).
    cbn [fst snd]. repeat split; auto; try congruence.
    intros e Hin. apply in_app_or in Hin. destruct Hin as [Hin|[Hin|[]]]; [exfalso; eapply close_all_no_errs'; eauto|congruence].
  - cbn. repeat split; auto. intros e [].
  - repeat split; auto. intros e []. Qed.

Lemma heartbeat_check_spec c s :
  let s' := fst (fst (fst (heartbeat_check c s))) in
  let cbs := snd (fst (fst (heartbeat_check c s))) in
  now s' = now s /\ t_work s' = now s /\ t_keep s' = (if keep_due s then now s else t_keep s) /\
  driver_hb s' = driver_hb s /\ hb_env s' = hb_env s /\
  hb_bound s' = (hb_bound s || (keep_due s && (hb_env s =? 1))) /\
  driver_active s' = (driver_active s && negb (keep_due s && silent_now c s)) /\
  (has_err EWasInactive cbs = keep_due s && silent_now c s).
Proof. cbn zeta. unfold heartbeat_check.
  pose proof (hc_service_spec c s) as H1. destruct (hc_service c (now s) s) as [[s1 cbs1] hang1]. cbn [fst snd] in H1.
  destruct H1 as ((A1 & A2 & A3 & A4 & A5 & A6 & A7) & E1).
  assert (Hh1 : has_err EWasInactive cbs1 = false).
  { destruct (has_err EWasInactive cbs1) eqn:E; auto. apply has_err_in in E. apply E1 in E. discriminate. }
  unfold hc_keepalive. cbn [t_keep set_t_work]. rewrite A3. unfold keep_due.
  destruct (t_keep s + KEEPALIVE_TIMEOUT_MS <? now s) eqn:Ek.
  - unfold hc_driver. cbn [driver_hb set_t_work]. rewrite A4. unfold silent_now.
    destruct ((0 <=? driver_hb s) && (driver_hb s + c_tdrv c <? now s)) eqn:Es.
    + pose proof (hc_heartbeat_spec (set_driver_active false (set_t_work (now s) s1))) as H2. cbn zeta in H2.
      destruct (hc_heartbeat (set_driver_active false (set_t_work (now s) s1))) as [[s2 cbs2] hang2]. cbn [fst snd] in H2.
      destruct H2 as (B1 & B2 & B3 & B4 & B5 & B6 & B7 & E2). cbn in B1, B2, B3, B4, B5, B6, B7.
      unfold hc_resources. destruct (t_res (set_t_keep (now s) s2) + RESOURCE_TIMEOUT_MS <? now s); cbn [fst snd];
        cbn [now t_work t_keep driver_hb hb_env hb_bound driver_active set_t_res set_t_keep];
        rewrite ?B1, ?B2, ?B3, ?B4, ?B5, ?B6, ?B7; cbn [now t_work t_keep driver_hb hb_env hb_bound driver_active set_driver_active set_t_work];
        rewrite ?A1, ?A3, ?A4, ?A5, ?A6, ?A7, !has_err_app, Hh1; cbn [has_err existsb cerr_eqb orb andb negb app];
        rewrite ?Bool.andb_false_r, ?Bool.andb_true_r, ?Bool.orb_false_r; repeat split; reflexivity.
    + pose proof (hc_heartbeat_spec (set_t_work (now s) s1)) as H2. cbn zeta in H2.
      destruct (hc_heartbeat (set_t_work (now s) s1)) as [[s2 cbs2] hang2]. cbn [fst snd] in H2.
      destruct H2 as (B1 & B2 & B3 & B4 & B5 & B6 & B7 & E2). cbn in B1, B2, B3, B4, B5, B6, B7.
      assert (Hh2 : has_err EWasInactive cbs2 = false).
      { destruct (has_err EWasInactive cbs2) eqn:E; auto. apply has_err_in in E. apply E2 in E. discriminate. }
      unfold hc_resources. destruct (t_res (set_t_keep (now s) s2) + RESOURCE_TIMEOUT_MS <? now s); cbn [fst snd];
        cbn [now t_work t_keep driver_hb hb_env hb_bound driver_active set_t_res set_t_keep];
        rewrite ?B1, ?B2, ?B3, ?B4, ?B5, ?B6, ?B7; cbn [now t_work t_keep driver_hb hb_env hb_bound driver_active set_driver_active set_t_work];
        rewrite ?A1, ?A3, ?A4, ?A5, ?A6, ?A7, !has_err_app, Hh1, Hh2; cbn [has_err existsb cerr_eqb orb andb negb app];
        rewrite ?Bool.andb_false_r, ?Bool.andb_true_r, ?Bool.orb_false_r; repeat split; reflexivity.
  - unfold hc_resources. destruct (t_res (set_t_work (now s) s1) + RESOURCE_TIMEOUT_MS <? now s); cbn [fst snd];
      cbn [now t_work t_keep driver_hb hb_env hb_bound driver_active set_t_res set_t_work];
      rewrite ?A1, ?A3, ?A4, ?A5, ?A6, ?A7, ?app_nil_r, ?Hh1; cbn [orb andb negb];
      rewrite ?Bool.andb_false_r, ?Bool.andb_true_r, ?Bool.orb_false_r; repeat split; reflexivity. Qed.

(* ---- ChannelEndpointException is reported by the duty cycle that receives the error, with its id, and nowhere else ---- *)
Lemma heartbeat_check_no_chan c s y : ~ In (CbErr (EChannelEndpoint y)) (snd (fst (fst (heartbeat_check c s)))).
Proof. unfold heartbeat_check.
  pose proof (hc_service_spec c s) as [_ E1]. destruct (hc_service c (now s) s) as [[s1 cbs1] hang1]. cbn [fst snd] in E1.
  unfold hc_keepalive. destruct (t_keep (set_t_work (now s) s1) + KEEPALIVE_TIMEOUT_MS <? now s).
  - unfold hc_driver. destruct ((0 <=? driver_hb (set_t_work (now s) s1)) && (driver_hb (set_t_work (now s) s1) + c_tdrv c <? now s)).
    + pose proof (hc_heartbeat_spec (set_driver_active false (set_t_work (now s) s1))) as H2. cbn zeta in H2.
      destruct (hc_heartbeat (set_driver_active false (set_t_work (now s) s1))) as [[s2 cbs2] hang2]. cbn [fst snd] in H2.
      destruct H2 as (_ & _ & _ & _ & _ & _ & _ & E2). destruct (hc_resources (now s) (set_t_keep (now s) s2)). cbn [fst snd].
      intros Hin. apply in_app_or in Hin. destruct Hin as [Hin|Hin]; [apply E1 in Hin; discriminate|].
      apply in_app_or in Hin. destruct Hin as [[Hin|[]]|Hin]; [discriminate|apply E2 in Hin; discriminate].
    + pose proof (hc_heartbeat_spec (set_t_work (now s) s1)) as H2. cbn zeta in H2.
      destruct (hc_heartbeat (set_t_work (now s) s1)) as [[s2 cbs2] hang2]. cbn [fst snd] in H2.
      destruct H2 as (_ & _ & _ & _ & _ & _ & _ & E2). destruct (hc_resources (now s) (set_t_keep (now s) s2)). cbn [fst snd].
      intros Hin. apply in_app_or in Hin. destruct Hin as [Hin|Hin]; [apply E1 in Hin; discriminate|].
      cbn [app] in Hin. apply E2 in Hin. discriminate.
  - destruct (hc_resources (now s) (set_t_work (now s) s1)). cbn [fst snd]. rewrite app_nil_r. intros Hin. apply E1 in Hin. discriminate. Qed.

Lemma do_release_no_chan k r imgs s y : ~ In (CbErr (EChannelEndpoint y)) (fst (snd (do_release k r imgs s))).
Proof. assert (Hi : ~ In (CbErr (EChannelEndpoint y)) (inactive_cb s)) by (unfold inactive_cb; destruct (driver_active s); [intros []|intros [H|[]]; discriminate]).
  assert (Hm : ~ In (CbErr (EChannelEndpoint y)) (map (fun img => CbUnavailImg r img 1) imgs)).
  { intros H. apply in_map_iff in H. destruct H as (i & H & _). discriminate. }
  unfold do_release. dmatch; [|exact Hi]. destruct (ring_full s); [destruct k|]; cbn [fst snd]; rewrite ?app_nil_r; try exact Hi;
    intros H; apply in_app_or in H; destruct H as [H|H]; auto. Qed.

Lemma step_chan_errs c s o y : In (CbErr (EChannelEndpoint y)) (snd (fst (snd (step c s o)))) -> o = DoWork (BEvent (EvChanError y)).
Proof. destruct o; cbn [step].
  - unfold do_add. repeat dmatch; cbn [fst snd]; intros [].
  - unfold do_find. repeat dmatch; cbn [fst snd]; intros [].
  - rewrite do_drop_eq. destruct k; try (cbn; intros []; fail); (destruct (user_obj _ r s) as [o|]; [|cbn; intros []]); cbn [fst snd];
      unfold dtor_user; try destruct (o_closed o); try (cbn; intros []; fail); intros H; exfalso; eapply do_release_no_chan; eauto.
  - unfold do_peek. dmatch; cbn; intros [].
  - unfold do_close. pose proof (close_all_no_errs s) as H. destruct (close_all s) as [[s1 cbs] hang]. cbn [fst snd] in H.
    destruct hang; [|destruct (close_sent s1)]; cbn [fst snd]; intros Hin; exfalso; eapply H; eauto.
  - cbn. intros [].
  - cbn. intros [].
  - cbn. intros [].
  - cbn. intros [].
  - unfold do_work. destruct b; try (cbn; intros []; fail).
    + cbn. pose proof (heartbeat_check_no_chan c s y) as H. destruct (heartbeat_check c s) as [[[s2 cbs2] hang2] r]. cbn [fst snd] in H.
      destruct hang2; cbn [fst snd]; intros Hin; exfalso; auto.
    + pose proof (on_event_errs e s (EChannelEndpoint y)) as H1. destruct (on_event e s) as [[s1 cbs1] hang1]. cbn [fst snd] in H1.
      destruct hang1; cbn [fst snd].
      * intros Hin. destruct (H1 Hin) as [H|(x & -> & H)]; [discriminate|]. inversion H; subst. reflexivity.
      * pose proof (heartbeat_check_no_chan c s1 y) as H. destruct (heartbeat_check c s1) as [[[s2 cbs2] hang2] r]. cbn [fst snd] in H.
        destruct hang2; cbn [fst snd]; intros Hin; apply in_app_or in Hin; destruct Hin as [Hin|Hin]; try (exfalso; auto; fail);
          destruct (H1 Hin) as [H0|(x & -> & H0)]; try discriminate; inversion H0; subst; reflexivity.
  - unfold do_close_handle. repeat dmatch; cbn [fst snd]; intros []. Qed.

Lemma step_chan_errs_ok c s o : chan_errs_ok o (snd (fst (snd (step c s o)))) = true.
Proof. unfold chan_errs_ok. apply forallb_forall. intros cb0 Hin. destruct cb0; auto. destruct e; auto.
  rewrite (step_chan_errs c s o x Hin). apply Z.eqb_refl. Qed.

(* ---- the core judge on the model ---- *)
Record CW (c0 : Z) (w : wst) (s : st) : Prop := mkCW {
  W_client : client_id s = c0;
  W_now : w_now w = now s;
  W_closed : w_closed w = closed s;
  W_tw : t_work s <= w_tprev w;
  W_tk : t_keep s <= w_tprev w;
  W_tn : w_tprev w <= now s;
  W_hb : w_hb w = driver_hb s;
  W_env : w_hbenv w = hb_env s;
  W_bound : w_bound w = true -> hb_bound s = true;
  W_inactive : w_inactive w = true -> driver_active s = false
}.

Lemma cw_init c0 now0 : CW c0 (winit now0) (init c0 now0).
Proof. constructor; cbn; try reflexivity; try lia; try discriminate. Qed.

Lemma count_close_cb_eq cbs : count_close_cb cbs = n_close cbs.
Proof. reflexivity. Qed.

Lemma fine_is_fine r : fine r -> is_fine r = true.
Proof. destruct r; cbn; tauto. Qed.

Definition tick_ok (o : op) : Prop := match o with Tick d => 0 <= d | _ => True end.

Lemma cw_env c0 w s s' :
  CW c0 w s -> env_eq s s' -> client_id s' = client_id s ->
  CW c0 (mkW (w_now w) (w_tprev w) (w_hb w) (w_hbenv w) (w_bound w) (w_inactive w) (closed s')) s'.
Proof. intros W (A1 & A2 & A3 & A4 & A5 & A6 & A7) Hc. destruct W. constructor; cbn; try congruence; try lia. Qed.

Lemma closed_after_eq s s' : (closed s = true -> closed s' = true) ->
  closed s || (0 <? Z.of_nat (delta s s')) = closed s'.
Proof. intros M. unfold delta. destruct (closed s) eqn:E; cbn; [symmetry; auto|]. destruct (closed s'); reflexivity. Qed.

Lemma nclose_ok s s' : (if closed s then 0 <? Z.of_nat (delta s s') else 1 <? Z.of_nat (delta s s')) = false.
Proof. unfold delta. destruct (closed s); [reflexivity|]. destruct (closed s'); reflexivity. Qed.

Lemma dowork_checks c0 tdrv tis c w s s1 cbs1 :
  c_tdrv c = tdrv -> c_tis c = tis -> CW c0 w s -> env_eq s s1 -> client_id s1 = client_id s ->
  (forall e, In (CbErr e) cbs1 -> e = EClientTimeout \/ exists x, e = EChannelEndpoint x) ->
  let s2 := fst (fst (fst (heartbeat_check c s1))) in
  let cbs := cbs1 ++ snd (fst (fst (heartbeat_check c s1))) in
  let keep := w_tprev w + KEEPALIVE_TIMEOUT_MS <? w_now w in
  ((w_tprev w + tis <? w_now w) = true -> has_err EServiceTimeout cbs && closed s2 = true) /\
  (keep && (0 <=? w_hb w) && (w_hb w + tdrv <? w_now w) = true -> has_err EWasInactive cbs = true) /\
  (keep && w_bound w && negb (w_hbenv w =? 1) = true -> has_err EHeartbeatLost cbs && closed s2 = true) /\
  CW c0 (mkW (w_now w) (w_now w) (w_hb w) (w_hbenv w) (w_bound w || (keep && (w_hbenv w =? 1)))
             (w_inactive w || has_err EWasInactive cbs) (closed s2)) s2.
Proof. intros Hd Hi W (A1 & A2 & A3 & A4 & A5 & A6 & A7) Hcid E1. cbn zeta.
  destruct W.
  (* the arithmetic facts, stated while the context is small *)
  assert (T1 : t_work s1 <= w_tprev w) by (clear - A2 W_tw0; lia).
  assert (T2 : t_keep s1 <= w_tprev w) by (clear - A3 W_tk0; lia).
  assert (T3 : w_now w = now s1) by (clear - A1 W_now0; congruence).
  assert (T4 : w_hb w = driver_hb s1) by (clear - A4 W_hb0; congruence).
  assert (T5 : w_hbenv w = hb_env s1) by (clear - A5 W_env0; congruence).
  assert (T6 : w_tprev w <= now s1) by (clear - A1 W_tn0; lia).
  assert (Hkeep : (w_tprev w + KEEPALIVE_TIMEOUT_MS <? w_now w) = true -> keep_due s1 = true).
  { unfold keep_due. clear - T2 T3. intros H. rewrite T3 in H. lia. }
  assert (Hh1 : has_err EWasInactive cbs1 = false).
  { destruct (has_err EWasInactive cbs1) eqn:E; auto. apply has_err_in in E. apply E1 in E. destruct E as [E|(x & E)]; discriminate. }
  pose proof (heartbeat_check_spec c s1) as Hs. cbn zeta in Hs. destruct Hs as (S1 & S2 & S3 & S4 & S5 & S6 & S7 & S8).
  pose proof (heartbeat_check_ids c s1) as [_ Hc2].
  split; [|split; [|split]].
  - intros Hst.
    assert (Hlt : t_work s1 + c_tis c < now s1) by (clear - Hst T1 T3 Hi; rewrite T3 in Hst; lia).
    destruct (heartbeat_check_service c s1 Hlt) as [B1 B2].
    rewrite has_err_app. apply has_err_in in B1. rewrite B1, B2, Bool.orb_true_r. reflexivity.
  - intros Hsi. rewrite has_err_app, Hh1, S8. cbn [orb]. unfold silent_now.
    apply andb_prop in Hsi. destruct Hsi as [Hsi H3]. apply andb_prop in Hsi. destruct Hsi as [H1 H2].
    rewrite (Hkeep H1). cbn [andb]. rewrite <- T4, <- T3, Hd, H2, H3. reflexivity.
  - intros Hlo. apply andb_prop in Hlo. destruct Hlo as [Hlo H3]. apply andb_prop in Hlo. destruct Hlo as [H1 H2].
    assert (K1 : t_keep s1 + KEEPALIVE_TIMEOUT_MS < now s1) by (specialize (Hkeep H1); unfold keep_due in Hkeep; clear - Hkeep; lia).
    assert (K2 : hb_bound s1 = true) by (rewrite A6; auto).
    assert (K3 : hb_env s1 <> 1) by (apply Bool.negb_true_iff in H3; rewrite T5 in H3; clear - H3; lia).
    destruct (heartbeat_lost_reported c s1 K1 K2 K3) as [B1 B2].
    rewrite has_err_app. apply has_err_in in B1. rewrite B1, B2, Bool.orb_true_r. reflexivity.
  - constructor; cbn [w_now w_tprev w_hb w_hbenv w_bound w_inactive w_closed].
    + congruence.
    + congruence.
    + reflexivity.
    + rewrite S2, T3. clear. lia.
    + rewrite S3, T3. destruct (keep_due s1); [clear; lia|exact T6 || (clear - T2 T6; lia)].
    + rewrite S1, T3. clear. lia.
    + congruence.
    + congruence.
    + intros Hb. rewrite S6. apply Bool.orb_true_iff in Hb. destruct Hb as [Hb|Hb].
      * rewrite A6, (W_bound0 Hb). reflexivity.
      * apply andb_prop in Hb. destruct Hb as [H1 H2]. rewrite (Hkeep H1). rewrite <- T5, H2. apply Bool.orb_true_r.
    + intros Hin. rewrite S7. apply Bool.orb_true_iff in Hin. destruct Hin as [Hin|Hin].
      * rewrite A7, (W_inactive0 Hin). reflexivity.
      * rewrite has_err_app, Hh1, S8 in Hin. cbn [orb] in Hin. rewrite Hin. cbn. apply Bool.andb_false_r. Qed.

Lemma core_step c0 tdrv tis c w s o :
  c_tdrv c = tdrv -> c_tis c = tis -> inv s -> CW c0 w s -> tick_ok o ->
  exists w', c10_core_step c0 tdrv tis w o (snd (step c s o)) = Some w' /\ CW c0 w' (fst (step c s o)).
Proof. intros Hd Hi I W Ht.
  pose proof (step_total c s o) as Hfine. pose proof (step_close_count c s o I) as Hcount.
  pose proof (step_closed_mono c s o I) as Hmono. pose proof (step_cmds c s o) as [Hcid _].
  unfold c10_core_step.
  destruct (step c s o) as [s' [[r cbs] cmds]] eqn:Es. cbn [fst snd] in *.
  pose proof (step_chan_errs_ok c s o) as Hchan. rewrite Es in Hchan. cbn [fst snd] in Hchan.
  rewrite (fine_is_fine r Hfine). cbn [negb]. rewrite Hchan. cbn [negb]. rewrite count_close_cb_eq, Hcount, (W_closed _ _ _ W), (nclose_ok s s'), (closed_after_eq s s' Hmono).
  destruct o; cbn [step] in Es.
  - (* Add *) pose proof (do_add_env k a1 a2 a3 s) as He. rewrite Es in He. cbn [fst] in He.
    assert (Hok : (closed s || w_inactive w) && is_okr r = false).
    { destruct (closed s) eqn:Ec.
      - destruct (closed_api_refused c s Ec) as [Ha _]. destruct (Ha k a1 a2 a3) as [H|H]; rewrite H in Es; inversion Es; reflexivity.
      - cbn [orb]. destruct (w_inactive w) eqn:Ein; [|reflexivity].
        rewrite (inactive_add_refused k a1 a2 a3 s (W_inactive _ _ _ W Ein)) in Es. inversion Es. reflexivity. }
    rewrite Hok. eexists. split; [reflexivity|]. apply (cw_env c0 w s s'); auto.
  - (* Find *) pose proof (do_find_env c k r0 s) as He. rewrite Es in He. cbn [fst] in He.
    assert (Hok : closed s && negb (res_is r Closed) = false).
    { destruct (closed s) eqn:Ec; [|reflexivity]. rewrite find_closed in Es by auto. inversion Es. reflexivity. }
    rewrite Hok. eexists. split; [reflexivity|]. apply (cw_env c0 w s s'); auto.
  - (* DropHandle *) pose proof (do_drop_env k r0 s) as He. rewrite Es in He. cbn [fst] in He.
    eexists. split; [reflexivity|]. apply (cw_env c0 w s s'); auto.
  - (* Peek *) assert (Hs : s' = s) by (pose proof (do_peek_state k r0 s) as X; rewrite Es in X; exact X). subst s'.
    assert (HW : CW c0 (mkW (w_now w) (w_tprev w) (w_hb w) (w_hbenv w) (w_bound w) (w_inactive w) (closed s)) s)
      by (apply (cw_env c0 w s s); auto; apply env_eq_refl).
    destruct (closed s && negb (kind_eqb k KDest)) eqn:Eg; [|eexists; split; [reflexivity|exact HW]].
    apply andb_prop in Eg. destruct Eg as [Ec Ek]. apply Bool.negb_true_iff, kind_eqb_neq in Ek.
    unfold do_peek in Es. destruct (user_obj k r0 s) as [o|] eqn:Eu; inversion Es; subst; [|eexists; split; [reflexivity|exact HW]].
    destruct (closed_handles s k r0 o Ek I Ec Eu) as [Hcl Himg]. rewrite Hcl, Z.eqb_refl. cbn [andb].
    destruct (kind_eqb k KSub) eqn:Eks.
    + apply kind_eqb_eq in Eks. rewrite (Himg Eks). cbn. eexists. split; [reflexivity|exact HW].
    + eexists. split; [reflexivity|exact HW].
  - (* Close *) pose proof (do_close_env s) as He. rewrite Es in He. cbn [fst] in He.
    assert (Hc : closed s' = true).
    { unfold do_close in Es. pose proof (close_all_closed s) as X. pose proof (close_all_no_hang s) as Y.
      destruct (close_all s) as [[s1 cbs1] hang]. cbn in X, Y. subst hang. destruct (close_sent s1); inversion Es; subst; auto. }
    rewrite Hc. eexists. split; [reflexivity|]. rewrite <- Hc. apply (cw_env c0 w s s'); auto.
  - (* Tick *) inversion Es; subst. cbn in Ht. eexists. split; [reflexivity|]. destruct W. constructor; cbn in *; try congruence; try lia.
  - (* SetDriverHb *) inversion Es; subst. eexists. split; [reflexivity|]. destruct W. constructor; cbn in *; try congruence; try lia.
  - (* SetHbCounter *) inversion Es; subst. eexists. split; [reflexivity|]. destruct W. constructor; cbn in *; try congruence; try lia.
  - (* SetRingFull *) inversion Es; subst. eexists. split; [reflexivity|]. destruct W. constructor; cbn in *; try congruence; try lia.
  - (* DoWork *) unfold do_work in Es. destruct b.
    + (* BNone *)
      pose proof (dowork_checks c0 tdrv tis c w s s [] Hd Hi W (env_eq_refl s) eq_refl ltac:(intros e []))
        as (C1 & C2 & C3 & C4). cbn zeta in C1, C2, C3, C4. cbn [app] in C1, C2, C3, C4.
      pose proof (heartbeat_check_no_hang c s) as Hh.
      destruct (heartbeat_check c s) as [[[s2 cbs2] hang2] rr]. cbn [fst snd] in *. subst hang2. cbn in Es. inversion Es; subst s' r cbs cmds. clear Es.
      cbn [is_okr negb].
      assert (Q1 : (w_tprev w + tis <? w_now w) && negb (has_err EServiceTimeout cbs2 && closed s2) = false)
        by (destruct (w_tprev w + tis <? w_now w); [rewrite (C1 eq_refl)|]; reflexivity).
      assert (Q2 : (w_tprev w + KEEPALIVE_TIMEOUT_MS <? w_now w) && (0 <=? w_hb w) && (w_hb w + tdrv <? w_now w) && negb (has_err EWasInactive cbs2) = false)
        by (destruct ((w_tprev w + KEEPALIVE_TIMEOUT_MS <? w_now w) && (0 <=? w_hb w) && (w_hb w + tdrv <? w_now w)); [rewrite (C2 eq_refl)|]; reflexivity).
      assert (Q3 : (w_tprev w + KEEPALIVE_TIMEOUT_MS <? w_now w) && w_bound w && negb (w_hbenv w =? 1) && negb (has_err EHeartbeatLost cbs2 && closed s2) = false)
        by (destruct ((w_tprev w + KEEPALIVE_TIMEOUT_MS <? w_now w) && w_bound w && negb (w_hbenv w =? 1)); [rewrite (C3 eq_refl)|]; reflexivity).
      rewrite Q1, Q2, Q3. cbn [andb]. eexists; split; [reflexivity|exact C4].
    + inversion Es; subst. eexists. split; [reflexivity|]. destruct W. constructor; cbn in *; try congruence; try lia.
    + inversion Es; subst. eexists. split; [reflexivity|]. destruct W. constructor; cbn in *; try congruence; try lia.
    + (* an event *)
      pose proof (on_event_env e s) as He. pose proof (on_event_ids e s) as [_ Hc1]. pose proof (on_event_no_hang e s) as Hh1.
      pose proof (on_event_errs e s) as Herr. pose proof (on_event_closed_mono e s) as Hm1.
      assert (Hown : forall cid, e = EvClientTimeout cid -> cid = c0 -> closed s = false ->
                     In (CbErr EClientTimeout) (snd (fst (on_event e s))) /\ closed (fst (fst (on_event e s))) = true).
      { intros cid -> -> Hc. pose proof (client_timeout_reported s Hc) as X. rewrite (W_client _ _ _ W) in X.
        destruct (on_event (EvClientTimeout c0) s) as [[sx cx] hx]. exact X. }
      destruct (on_event e s) as [[s1 cbs1] hang1]. cbn [fst snd] in *. subst hang1.
      assert (Herr' : forall e0, In (CbErr e0) cbs1 -> e0 = EClientTimeout \/ exists x, e0 = EChannelEndpoint x).
      { intros e0 H. destruct (Herr e0 H) as [->|(x & _ & ->)]; eauto. }
      pose proof (dowork_checks c0 tdrv tis c w s s1 cbs1 Hd Hi W He Hc1 Herr') as (C1 & C2 & C3 & C4). cbn zeta in C1, C2, C3, C4.
      pose proof (heartbeat_check_no_hang c s1) as Hh. pose proof (heartbeat_check_stable c s1) as [_ Hm2].
      destruct (heartbeat_check c s1) as [[[s2 cbs2] hang2] rr]. cbn [fst snd] in *. subst hang2. inversion Es; subst s' r cbs cmds. clear Es.
      cbn [is_okr negb].
      assert (Hto : (match e with EvClientTimeout cid => (cid =? c0) && negb (closed s) | _ => false end) = true ->
                    has_err EClientTimeout (cbs1 ++ cbs2) && closed s2 = true).
      { destruct e; try discriminate. intros H. apply andb_prop in H. destruct H as [H1 H2]. apply Bool.negb_true_iff in H2.
        destruct (Hown cid eq_refl ltac:(lia) H2) as [B1 B2]. rewrite has_err_app. apply has_err_in in B1. rewrite B1, (Hm2 B2). reflexivity. }
      assert (Q1 : (w_tprev w + tis <? w_now w) && negb (has_err EServiceTimeout (cbs1 ++ cbs2) && closed s2) = false)
        by (destruct (w_tprev w + tis <? w_now w); [rewrite (C1 eq_refl)|]; reflexivity).
      assert (Q0 : (match e with EvClientTimeout cid => (cid =? c0) && negb (closed s) | _ => false end) && negb (has_err EClientTimeout (cbs1 ++ cbs2) && closed s2) = false)
        by (destruct (match e with EvClientTimeout cid => (cid =? c0) && negb (closed s) | _ => false end); [rewrite (Hto eq_refl)|]; reflexivity).
      assert (Q2 : (w_tprev w + KEEPALIVE_TIMEOUT_MS <? w_now w) && (0 <=? w_hb w) && (w_hb w + tdrv <? w_now w) && negb (has_err EWasInactive (cbs1 ++ cbs2)) = false)
        by (destruct ((w_tprev w + KEEPALIVE_TIMEOUT_MS <? w_now w) && (0 <=? w_hb w) && (w_hb w + tdrv <? w_now w)); [rewrite (C2 eq_refl)|]; reflexivity).
      assert (Q3 : (w_tprev w + KEEPALIVE_TIMEOUT_MS <? w_now w) && w_bound w && negb (w_hbenv w =? 1) && negb (has_err EHeartbeatLost (cbs1 ++ cbs2) && closed s2) = false)
        by (destruct ((w_tprev w + KEEPALIVE_TIMEOUT_MS <? w_now w) && w_bound w && negb (w_hbenv w =? 1)); [rewrite (C3 eq_refl)|]; reflexivity).
      rewrite Q1, Q0, Q2, Q3. eexists; split; [reflexivity|exact C4].
  - (* CloseHandle: only the handle's own flag *)
    assert (He : env_eq s s' /\ client_id s' = client_id s).
    { unfold do_close_handle in Es. destruct k; try (inversion Es; subst; split; [apply env_eq_refl|reflexivity]);
        (destruct (user_obj _ r0 s); inversion Es; subst; (split; [|reflexivity]); [unfold env_eq; cbn; tauto|apply env_eq_refl]). }
    eexists. split; [reflexivity|]. apply (cw_env c0 w s s'); tauto.
Qed.

Lemma core_run c0 tdrv tis ops : forall w s,
  inv s -> CW c0 w s -> Forall tick_ok ops ->
  c10_core_run c0 tdrv tis w ops (snd (run (mkCfg tdrv tis) s ops)) = true.
Proof. induction ops as [|o ops IH]; intros w s I W Ht; cbn; auto.
  inversion Ht; subst.
  destruct (core_step c0 tdrv tis (mkCfg tdrv tis) w s o eq_refl eq_refl I W H1) as (w' & Hs & W').
  pose proof (step_inv (mkCfg tdrv tis) s o I) as I'.
  destruct (step (mkCfg tdrv tis) s o) as [s1 x]. cbn [fst snd] in *.
  specialize (IH w' s1 I' W' H2). destruct (run (mkCfg tdrv tis) s1 ops) as [s2 xs]. cbn [snd] in *. rewrite Hs. exact IH. Qed.

(* the core judge of the C10 oracle holds on the model's own observations, for every history with a monotone clock *)
Theorem c10_core_model c0 now0 tdrv tis ops :
  Forall tick_ok ops -> c10_core_run c0 tdrv tis (winit now0) ops (run_obs c0 now0 tdrv tis ops) = true.
Proof. intros H. unfold run_obs. apply core_run; auto. apply init_inv. apply cw_init. Qed.
