(* Interleavings: the claims a trace oracle reconstructs from the trace (`claims_rev` of Oracle/C06Oracle.v:
   one claim per successful compare-and-set on the tail, completed by the owner's header store and commit)
   are, in every reachable configuration, exactly the ghost log of Proofs/RingLog.v restricted to the
   producer threads - same order (position order), same owners - and each claim carries the type and length
   of the write call it belongs to, and is marked done iff that call has committed. *)
Require Import V.Base.MachineInt.
Require Import V.Generated.GenConsts.
Require Import V.Model.LogBase.
Require Import V.Model.Ring.
Require Import V.Model.RingThreads.
Require Import V.Spec.Fifo.
Require Import V.Oracle.C06Oracle.
Require Import V.Proofs.RingArith.
Require Import V.Proofs.RingSeq.
Require Import V.Proofs.RingRender.
Require Import V.Proofs.RingSeqRun.
Require Import V.Proofs.RingConc.
Require Import V.Proofs.RingConcThm.
Require Import V.Proofs.RingLog.
Require Import V.Proofs.RingTrace.
From Coq Require Import ZifyBool Lia.
Open Scope Z_scope.

(* ---- the two halves of a header ---- *)
Lemma wrap32_mod_eq a b : a mod two32 = b mod two32 -> wrap32 a = wrap32 b.
Proof. intros H. unfold wrap32.
  rewrite (Z.add_mod a), (Z.add_mod b) by (unfold two32; lia). rewrite H. reflexivity. Qed.

Lemma wrap32_small z : - two31 <= z < two31 -> wrap32 z = z.
Proof. intros H. unfold wrap32, two31, two32 in *. rewrite Z.mod_small by lia. lia. Qed.

Lemma make_header_lo len ty : - two31 <= len < two31 -> lo32 (make_header len ty) = len.
Proof. intros H. unfold lo32, make_header. rewrite <- (wrap32_small len H) at 2.
  apply wrap32_mod_eq. unfold wrap64, wrapu32.
  set (X := ty mod two32 * two32 + len mod two32).
  assert (E : ((X + two63) mod two64 - two63) = X + (- ((X + two63) / two64)) * two64).
  { pose proof (Z.div_mod (X + two63) two64 ltac:(unfold two64; lia)). lia. }
  rewrite E. replace two64 with (two32 * two32) by reflexivity.
  rewrite Z.mul_assoc. rewrite Z_mod_plus_full. unfold X.
  rewrite Z.add_comm. rewrite Z_mod_plus_full. apply Z.mod_mod. unfold two32. lia. Qed.

Lemma make_header_hi len ty : - two31 <= ty < two31 -> hi32 (make_header len ty) = ty.
Proof. intros H. unfold hi32, make_header. rewrite <- (wrap32_small ty H) at 2.
  apply wrap32_mod_eq. unfold wrap64, wrapu32.
  set (U := ty mod two32). set (L := len mod two32).
  assert (HU : 0 <= U < two32) by (apply Z.mod_pos_bound; unfold two32; lia).
  assert (HL : 0 <= L < two32) by (apply Z.mod_pos_bound; unfold two32; lia).
  set (X := U * two32 + L).
  assert (E : ((X + two63) mod two64 - two63) = X + (- ((X + two63) / two64)) * two64).
  { pose proof (Z.div_mod (X + two63) two64 ltac:(unfold two64; lia)). lia. }
  rewrite E. set (c := - ((X + two63) / two64)).
  assert (D : (X + c * two64) / two32 = U + c * two32).
  { unfold X. replace (U * two32 + L + c * two64) with (L + (U + c * two32) * two32) by (unfold two64, two32; lia).
    rewrite Z_div_plus_full by (unfold two32; lia). rewrite Z.div_small by lia. lia. }
  rewrite D. rewrite Z_mod_plus_full. unfold U. apply Z.mod_mod. unfold two32. lia. Qed.

Lemma valid_cmd_range ty : valid_cmd ty = true -> 1 <= ty <= 3850.
Proof. unfold valid_cmd. lia. Qed.

(* ---- claims_rev, one event at a time ---- *)
Definition cl_upd (cp : Z) (e : event) (acc : list claim) : list claim :=
  let '(tid, k, off, len, v, v2, before) := e in
  if akind_eqb k CompareAndSetI64 && (off =? cp + TAIL_OFF) then
    (if before =? v then mkClaim tid v v2 0 0 false :: acc else acc)
  else if akind_eqb k PutOrdered && (off <? cp) && (len =? 8) then
    (if hi32 v =? PAD then acc
     else upd_latest acc tid (fun c => mkClaim (k_tid c) (k_from c) (k_to c) (hi32 v) (- lo32 v) false))
  else if akind_eqb k PutOrdered && (off <? cp) && (len =? 4) then
    upd_latest acc tid (fun c => mkClaim (k_tid c) (k_from c) (k_to c) (k_type c) (k_len c) (v =? k_len c))
  else acc.

Lemma claims_rev_cons cp e tr acc : claims_rev cp (e :: tr) acc = claims_rev cp tr (cl_upd cp e acc).
Proof. destruct e as [[[[[[tid k] off] len] v] v2] before]. reflexivity. Qed.

Lemma claims_rev_app cp tr1 tr2 acc : claims_rev cp (tr1 ++ tr2) acc = claims_rev cp tr2 (claims_rev cp tr1 acc).
Proof. revert acc. induction tr1 as [| e tr1 IH]; intros acc; [reflexivity |].
  cbn [app]. rewrite !claims_rev_cons. apply IH. Qed.

Lemma upd_latest_rev l1 x l2 tid f : k_tid x = tid -> Forall (fun c => k_tid c <> tid) l2 ->
  upd_latest (rev (l1 ++ x :: l2)) tid f = rev (l1 ++ f x :: l2).
Proof. intros Hx F. rewrite !rev_app_distr. cbn [rev]. rewrite <- !app_assoc. cbn [app].
  assert (G : forall l r, Forall (fun c => k_tid c <> tid) l -> upd_latest (rev l ++ x :: r) tid f = rev l ++ f x :: r).
  { induction l as [| a l IH] using rev_ind; intros r Fl.
    - cbn [rev app upd_latest]. replace (k_tid x =? tid) with true by lia. reflexivity.
    - rewrite rev_app_distr. cbn [rev app]. apply Forall_app in Fl. destruct Fl as (Fl & Fa). inversion Fa as [| a' l' Ha _]; subst a' l'.
      cbn [upd_latest]. replace (k_tid a =? tid) with false by lia. f_equal. apply IH. assumption. }
  apply G. assumption. Qed.

(* ---- the relation between a claim and the tag of a record piece in the log ---- *)
Definition crel (prods : list pstate) (c : claim) (tg : ltag) : Prop :=
  k_tid c = fst tg /\ 0 <= snd tg /\
  exists i ps typ body, fst tg = Z.of_nat (S i) /\ nth_error prods i = Some ps /\
    nth_error (p_prog ps) (Z.to_nat (snd tg)) = Some (typ, body) /\ valid_cmd typ = true /\
    (((Z.to_nat (snd tg) < p_k ps)%nat /\ k_type c = typ /\ k_len c = rl_of body /\ k_done c = true) \/
     (Z.to_nat (snd tg) = p_k ps /\ k_done c = false /\
      match p_pc ps with
      | PPadHdr _ _ | PHdr _ => k_type c = 0 /\ k_len c = 0
      | PCopy _ | PCommit _ => k_type c = typ /\ k_len c = rl_of body
      | _ => False
      end)).

Definition is_thread (t : ltag) : bool := negb (fst t =? 0).
Definition tlog (cfg : config) : list ltag := filter is_thread (log cfg).

Definition ClInv (cfg : config) (acc : list claim) : Prop := Forall2 (crel (g_prods cfg)) (rev acc) (tlog cfg).

Lemma Forall2_impl_in {A B} (R1 R2 : A -> B -> Prop) l1 l2 :
  (forall a b, In b l2 -> R1 a b -> R2 a b) -> Forall2 R1 l1 l2 -> Forall2 R2 l1 l2.
Proof. intros H F. induction F; constructor.
  - apply H; [left; reflexivity | assumption].
  - apply IHF. intros a b Hb. apply H. right. assumption. Qed.

Lemma of_owner_tlog o l : o <> 0 -> of_owner o (filter is_thread l) = of_owner o l.
Proof. intros Ho. unfold of_owner. induction l as [| a l IH]; cbn [filter]; [reflexivity |].
  unfold is_thread at 1. destruct (fst a =? 0) eqn:E; cbn [negb filter].
  - replace (fst a =? o) with false by lia. assumption.
  - destruct (fst a =? o); [f_equal |]; assumption. Qed.

Lemma split_last_owner o : forall (l : list ltag) xs y, of_owner o l = xs ++ [y] ->
  exists l1 l2, l = l1 ++ y :: l2 /\ of_owner o l1 = xs /\ of_owner o l2 = [].
Proof. induction l as [| a l IH]; intros xs y H.
  - destruct xs; discriminate.
  - unfold of_owner in H. cbn [filter] in H. fold (of_owner o l) in H. destruct (fst a =? o) eqn:E.
    + destruct (of_owner o l) as [| b r] eqn:Eo.
      * destruct xs as [| x xs]; [| destruct xs; discriminate]. inversion H; subst a.
        exists [], l. repeat split; auto.
      * destruct xs as [| x xs]; [destruct r; discriminate |]. inversion H; subst x.
        destruct (IH xs y ltac:(rewrite <- H2; reflexivity)) as (l1 & l2 & A & B & C).
        exists (a :: l1), l2. rewrite A. split; [reflexivity |]. split; [| assumption].
        unfold of_owner. cbn [filter]. rewrite E. f_equal. exact B.
    + destruct (IH xs y H) as (l1 & l2 & A & B & C).
      exists (a :: l1), l2. rewrite A. split; [reflexivity |]. split; [| assumption].
      unfold of_owner. cbn [filter]. rewrite E. exact B. Qed.

(* the tags a producer has in the log: finished writes, and the one in flight after its compare-and-set *)
Lemma claimed_cases ps k : length (p_res ps) = p_k ps -> In k (claimed ps) ->
  (0 <= k /\ (Z.to_nat k < p_k ps)%nat) \/ (k = Z.of_nat (p_k ps) /\ after_cas (p_pc ps) = true).
Proof. intros Hl Hin. unfold claimed in Hin. apply in_app_or in Hin. destruct Hin as [Hin | Hin].
  - left. pose proof (ok_indices_range (p_res ps) 0) as F. rewrite Forall_forall in F. specialize (F k Hin). lia.
  - right. destruct (after_cas (p_pc ps)); [| inversion Hin]. destruct Hin as [<- | []]. auto. Qed.

Lemma log_tag_cases cfg i ps k : LogInv cfg -> nth_error (g_prods cfg) i = Some ps ->
  In (Z.of_nat (S i), k) (log cfg) ->
  (0 <= k /\ (Z.to_nat k < p_k ps)%nat) \/ (k = Z.of_nat (p_k ps) /\ after_cas (p_pc ps) = true).
Proof. intros HL Hi Hin. apply (claimed_cases ps k (l_len _ HL i ps Hi)).
  assert (H : In (Z.of_nat (S i), k) (of_owner (Z.of_nat (S i)) (log cfg))).
  { unfold of_owner. apply filter_In. split; [assumption | cbn [fst]; lia]. }
  rewrite (l_own _ HL i ps Hi) in H. apply in_map_iff in H. destruct H as (x & Ex & Hx). inversion Ex; subst. assumption. Qed.

Lemma in_tlog cfg t : In t (tlog cfg) -> In t (log cfg) /\ fst t <> 0.
Proof. unfold tlog. intros H. apply filter_In in H. destruct H as (A & B). unfold is_thread in B. split; [assumption | lia]. Qed.

(* a claim whose owner did not move, or whose write has already returned, keeps its relation *)
Lemma crel_frame prods i ps ps' c tg : nth_error prods i = Some ps -> p_prog ps' = p_prog ps -> (p_k ps <= p_k ps')%nat ->
  (fst tg = Z.of_nat (S i) -> (Z.to_nat (snd tg) < p_k ps)%nat) ->
  crel prods c tg -> crel (set_nth prods i ps') c tg.
Proof. intros Hi Hp Hk Hfin (A & B & j & q & typ & body & Eo & Hj & Hn & Hv & Hc).
  split; [assumption |]. split; [assumption |]. destruct (Nat.eq_dec i j) as [<- | Hne].
  - rewrite Hi in Hj. inversion Hj; subst q. specialize (Hfin Eo).
    exists i, ps', typ, body. rewrite (nth_set_nth_eq _ _ _ _ Hi), Hp. repeat split; auto.
    left. destruct Hc as [(C1 & C2) | (C1 & _)]; [split; [lia | exact C2] | lia].
  - exists j, q, typ, body. rewrite nth_set_nth_neq by assumption. repeat split; auto. Qed.

Lemma cl_upd_quiet cp e acc : quiet_kind cp e -> cl_upd cp e acc = acc.
Proof. destruct e as [[[[[[tid k] off] len] v] v2] before]. cbn. intros [-> | (-> & ->)]; cbn [akind_eqb andb]; [reflexivity |].
  pose proof (offs_distinct cp) as (_ & _ & _ & _ & _ & O6). replace (cp + HC_OFF <? cp) with false by lia. reflexivity. Qed.

Lemma cl_upd_cons_quiet cp e acc : cons_quiet e -> cl_upd cp e acc = acc.
Proof. destruct e as [[[[[[tid k] off] len] v] v2] before]. cbn. intros (_ & [-> | [-> | ->]]); reflexivity. Qed.

(* ---- producer steps ---- *)
Lemma pending_same R R' : r_slots R' = r_slots R -> pending R' = pending R.
Proof. unfold pending. intros ->. reflexivity. Qed.

Lemma pstep_claims lo m cfg i ps R' ps' e acc :
  Inv lo cfg -> LogInv cfg -> nth_error (g_prods cfg) i = Some ps ->
  pstep m (g_ring cfg) (Z.of_nat (S i)) ps = (R', ps', Some e) ->
  ClInv cfg acc ->
  ClInv (mkCfg R' (g_cons cfg) (set_nth (g_prods cfg) i ps')) (cl_upd (r_cap (g_ring cfg)) e acc).
Proof.
  intros HI HL Hi Hstep HC.
  destruct (pstep_cases lo m cfg i ps R' ps' e HI Hi Hstep) as (typ & body & Aw & Ep & Ec & Eh & Hcase).
  cbn zeta in Hcase. destruct cfg as [R cs prods]. cbn [g_ring g_cons g_prods] in *.
  pose proof (i_cap _ _ HI) as Icap. cbn [g_ring] in Icap. pose proof (cap_ok_range _ Icap) as Hcr.
  pose proof (l_len _ HL i ps Hi) as Hlen. cbn [g_prods] in Hlen.
  pose proof Aw as (Aw1 & Aw2 & Aw3). pose proof (len_small _ _ Icap Aw3) as Hls.
  pose proof (valid_cmd_range _ Aw2) as Hty.
  unfold ClInv in *. cbn [g_prods] in *.
  (* the log of the new configuration, when the slots keep their tags *)
  assert (LOGEQ : forall R1 ps1, pending R1 = pending R -> tlog (mkCfg R1 cs (set_nth prods i ps1)) = tlog (mkCfg R cs prods)).
  { intros R1 ps1 E. unfold tlog, log. cbn [g_ring g_cons]. rewrite E. reflexivity. }
  (* every tag of this producer that is in the log is a finished write, as long as it is not past its compare-and-set *)
  assert (FIN : after_cas (p_pc ps) = false -> forall tg, In tg (tlog (mkCfg R cs prods)) -> fst tg = Z.of_nat (S i) ->
            (Z.to_nat (snd tg) < p_k ps)%nat).
  { intros Ha [o k] Hin Eo. cbn [fst snd] in *. subst o. destruct (in_tlog _ _ Hin) as (Hin' & _).
    destruct (log_tag_cases _ i ps k HL Hi Hin') as [(_ & A) | (_ & A)]; [assumption | congruence]. }
  (* steps that leave the log and the claims alone *)
  assert (SAME : forall R1 ps1, pending R1 = pending R -> p_prog ps1 = p_prog ps -> (p_k ps <= p_k ps1)%nat ->
            after_cas (p_pc ps) = false ->
            Forall2 (crel (set_nth prods i ps1)) (rev acc) (tlog (mkCfg R1 cs (set_nth prods i ps1)))).
  { intros R1 ps1 E Hp Hk Ha. rewrite (LOGEQ R1 ps1 E).
    eapply Forall2_impl_in; [| exact HC]. intros c tg Hin Hc. eapply crel_frame; try eassumption.
    intros Eo. apply (FIN Ha tg Hin Eo). }
  (* the claim in flight, split out *)
  assert (SPLIT : after_cas (p_pc ps) = true ->
            exists L1 L2 c1 x c2, tlog (mkCfg R cs prods) = L1 ++ (Z.of_nat (S i), Z.of_nat (p_k ps)) :: L2 /\
              rev acc = c1 ++ x :: c2 /\ Forall2 (crel prods) c1 L1 /\ crel prods x (Z.of_nat (S i), Z.of_nat (p_k ps)) /\
              Forall2 (crel prods) c2 L2 /\
              (forall tg, In tg L1 -> fst tg = Z.of_nat (S i) -> (Z.to_nat (snd tg) < p_k ps)%nat) /\
              (forall tg, In tg L2 -> fst tg <> Z.of_nat (S i)) /\ Forall (fun c => k_tid c <> Z.of_nat (S i)) c2).
  { intros Ha.
    assert (Eo : of_owner (Z.of_nat (S i)) (tlog (mkCfg R cs prods)) =
                 map (fun k => (Z.of_nat (S i), k)) (ok_indices (p_res ps) 0) ++ [(Z.of_nat (S i), Z.of_nat (p_k ps))]).
    { unfold tlog. rewrite of_owner_tlog by lia. rewrite (l_own _ HL i ps Hi). unfold claimed. rewrite Ha, map_app. reflexivity. }
    destruct (split_last_owner _ _ _ _ Eo) as (L1 & L2 & E1 & E2 & E3).
    rewrite E1 in HC. apply Forall2_app_inv_r in HC. destruct HC as (c1 & c2' & F1 & F2 & Er).
    inversion F2 as [| x tg c2 L2' Hx F3]; subst.
    exists L1, L2, c1, x, c2. split; [exact E1 |]. split; [exact Er |]. split; [exact F1 |]. split; [exact Hx |]. split; [exact F3 |].
    split; [| split].
    - intros [o k] Hin Eo'. cbn [fst snd] in *. subst o.
      assert (H : In (Z.of_nat (S i), k) (of_owner (Z.of_nat (S i)) L1)) by (unfold of_owner; apply filter_In; split; [assumption | cbn [fst]; lia]).
      rewrite E2 in H. apply in_map_iff in H. destruct H as (y & Ey & Hy). inversion Ey; subst y.
      pose proof (ok_indices_range (p_res ps) 0) as F. rewrite Forall_forall in F. specialize (F k Hy). lia.
    - intros tg Hin Eo'. assert (H : In tg (of_owner (Z.of_nat (S i)) L2)) by (unfold of_owner; apply filter_In; split; [assumption | lia]).
      rewrite E3 in H. inversion H.
    - clear - F3 E3. induction F3 as [| c tg c2 L2 Hc F3 IH]; constructor.
      + destruct Hc as (A & _). unfold of_owner in E3. cbn [filter] in E3. destruct (fst tg =? Z.of_nat (S i)) eqn:E; [discriminate | lia].
      + apply IH. unfold of_owner in *. cbn [filter] in E3. destruct (fst tg =? Z.of_nat (S i)); [discriminate | assumption]. }
  (* rebuilding the relation around the claim in flight *)
  assert (REBUILD : forall R1 ps1 x' L1 L2 c1 c2,
            tlog (mkCfg R1 cs (set_nth prods i ps1)) = L1 ++ (Z.of_nat (S i), Z.of_nat (p_k ps)) :: L2 ->
            Forall2 (crel prods) c1 L1 -> Forall2 (crel prods) c2 L2 ->
            (forall tg, In tg L1 -> fst tg = Z.of_nat (S i) -> (Z.to_nat (snd tg) < p_k ps)%nat) ->
            (forall tg, In tg L2 -> fst tg <> Z.of_nat (S i)) ->
            p_prog ps1 = p_prog ps -> (p_k ps <= p_k ps1)%nat ->
            crel (set_nth prods i ps1) x' (Z.of_nat (S i), Z.of_nat (p_k ps)) ->
            Forall2 (crel (set_nth prods i ps1)) (c1 ++ x' :: c2) (tlog (mkCfg R1 cs (set_nth prods i ps1)))).
  { intros R1 ps1 x' L1 L2 c1 c2 El F1 F2 H1 H2 Hp Hk Hx'. rewrite El. apply Forall2_app.
    - eapply Forall2_impl_in; [| exact F1]. intros c tg Hin Hc. eapply crel_frame; try eassumption. intros Eo. apply (H1 tg Hin Eo).
    - constructor; [exact Hx' |]. eapply Forall2_impl_in; [| exact F2]. intros c tg Hin Hc. eapply crel_frame; try eassumption.
      intros Eo. exfalso. apply (H2 tg Hin Eo). }
  destruct Hcase as [(Q & Et & Es & Ek & Er & A1 & A2) | [(Q & ER & Eps & A1) | [(hd & tl & pd & t2 & Epc & Ee & Hne & ER & Eps) |
      [(hd & tl & pd & Epc & Et & Hpd & Hfit & Ee & ER & Eps) | [(tl & pd & Epc & Hm & Ee & ER & Eps) | [(p & Epc & Hm & Ee & ER & Eps) |
      [(p & Epc & Ee & ER & Eps) | (p & Epc & Hm & Ee & ER & Eps)]]]]]]].
  - rewrite (cl_upd_quiet _ _ _ Q). apply SAME; auto; [apply pending_same; assumption | lia].
  - rewrite (cl_upd_quiet _ _ _ Q). subst R' ps'.
    destruct (i_prods _ _ HI i ps Hi) as (_ & Pw & _).
    destruct (finish_spec (r_cap R) ps (Err InsufficientCapacity) Pw) as (F1 & F2 & _).
    apply SAME; auto. lia.
  - subst e R' ps'. unfold cl_upd, ev. cbn [akind_eqb andb]. rewrite Z.eqb_refl. cbn [andb].
    replace (r_tail R =? tl) with false by lia. apply SAME; auto. rewrite Epc. reflexivity.
  - (* compare-and-set won: a new claim, a new tag *)
    subst e R' ps'. unfold cl_upd, ev. cbn [akind_eqb andb]. rewrite !Z.eqb_refl. cbn [andb rev].
    set (ps1 := set_pc ps (if pd =? 0 then PHdr tl else PPadHdr tl pd)).
    assert (Elog : tlog (mkCfg (set_slots (set_tail R (tl + rq_of body + pd))
                                  (r_slots R ++ claim_slots tl pd (rq_of body) (Z.of_nat (S i)) (Z.of_nat (p_k ps)))) cs (set_nth prods i ps1))
                   = tlog (mkCfg R cs prods) ++ [(Z.of_nat (S i), Z.of_nat (p_k ps))]).
    { unfold tlog, log. cbn [g_ring g_cons]. rewrite pending_cas by lia. rewrite app_assoc, filter_app. f_equal. }
    rewrite Elog. apply Forall2_app.
    + eapply Forall2_impl_in; [| exact HC]. intros c tg Hin Hc. eapply crel_frame; try eassumption; try reflexivity.
      intros Eo. apply (FIN ltac:(rewrite Epc; reflexivity) tg Hin Eo).
    + constructor; [| constructor]. unfold crel. cbn [fst snd k_tid k_type k_len k_done].
      split; [reflexivity |]. split; [lia |]. exists i, ps1, typ, body.
      rewrite (nth_set_nth_eq _ _ _ _ Hi). rewrite Nat2Z.id. unfold ps1. cbn [set_pc p_prog p_k p_pc].
      repeat split; auto. right. repeat split; auto. destruct (pd =? 0); auto.
  - (* padding header: the claim is untouched *)
    subst e R' ps'.
    assert (Ecl : cl_upd (r_cap R) (ev (Z.of_nat (S i)) PutOrdered (mask_idx (r_cap R) tl) 8 (make_header pd PAD) 0 (hdr64 (r_slots R) tl)) acc = acc).
    { unfold cl_upd, ev. cbn [akind_eqb andb]. replace (mask_idx (r_cap R) tl <? r_cap R) with true by lia. cbn [andb Z.eqb Pos.eqb].
      rewrite make_header_hi by (rewrite PAD_eq; unfold two31; lia). rewrite Z.eqb_refl. reflexivity. }
    rewrite Ecl.
    destruct (SPLIT ltac:(rewrite Epc; reflexivity)) as (L1 & L2 & c1 & x & c2 & El & Ea & F1 & Hx & F2 & H1 & H2 & H3).
    rewrite Ea. eapply (REBUILD _ _ x L1 L2 c1 c2); eauto.
    + rewrite LOGEQ; [exact El |]. unfold put_hdr. apply pending_upd. intros s; split; reflexivity.
    + destruct Hx as (A & B & j & q & ty0 & b0 & Eo & Hj & Hn & Hv & Hc). cbn [fst snd] in *.
      assert (j = i) by lia. subst j. rewrite Hi in Hj. inversion Hj; subst q.
      split; [assumption |]. split; [assumption |]. exists i, (set_pc ps (PHdr (tl + pd))), ty0, b0.
      rewrite (nth_set_nth_eq _ _ _ _ Hi). cbn [set_pc p_prog p_k p_pc fst snd]. repeat split; auto.
      destruct Hc as [(C1 & _) | (C1 & C2 & C3)]; [lia |]. right. rewrite Epc in C3. auto.
  - (* record header: type and length of the claim become known *)
    subst e R' ps'.
    destruct (SPLIT ltac:(rewrite Epc; reflexivity)) as (L1 & L2 & c1 & x & c2 & El & Ea & F1 & Hx & F2 & H1 & H2 & H3).
    assert (Hlo : lo32 (make_header (- rl_of body) typ) = - rl_of body) by (apply make_header_lo; unfold rl_of, two31; lia).
    assert (Hhi : hi32 (make_header (- rl_of body) typ) = typ) by (apply make_header_hi; unfold two31; lia).
    assert (Ecl : cl_upd (r_cap R) (ev (Z.of_nat (S i)) PutOrdered (mask_idx (r_cap R) p) 8 (make_header (- rl_of body) typ) 0 (hdr64 (r_slots R) p)) acc
                  = rev (c1 ++ mkClaim (k_tid x) (k_from x) (k_to x) typ (rl_of body) false :: c2)).
    { unfold cl_upd, ev. cbn [akind_eqb andb]. replace (mask_idx (r_cap R) p <? r_cap R) with true by lia. cbn [andb Z.eqb Pos.eqb].
      rewrite Hhi, Hlo. replace (typ =? PAD) with false by (rewrite PAD_eq; lia).
      rewrite <- (rev_involutive acc). rewrite Ea. rewrite upd_latest_rev; [| destruct Hx as (A & _); exact A | exact H3].
      f_equal. f_equal. f_equal. f_equal. lia. }
    rewrite Ecl, rev_involutive.
    destruct Hx as (A & B & j & q & ty0 & b0 & Eo & Hj & Hn & Hv & Hc). cbn [fst snd] in *.
    assert (j = i) by lia. subst j. rewrite Hi in Hj. inversion Hj; subst q.
    rewrite Nat2Z.id in Hn. rewrite Aw1 in Hn. inversion Hn; subst ty0 b0.
    eapply (REBUILD _ _ _ L1 L2 c1 c2); eauto.
    + rewrite LOGEQ; [exact El |]. unfold put_hdr. apply pending_upd. intros s; split; reflexivity.
    + split; [exact A |]. split; [exact B |]. exists i, (set_pc ps (PCopy p)), typ, body.
      rewrite (nth_set_nth_eq _ _ _ _ Hi). cbn [set_pc p_prog p_k p_pc fst snd k_type k_len k_done]. rewrite Nat2Z.id.
      repeat split; auto.
  - (* payload *)
    subst e R' ps'.
    assert (Ecl : cl_upd (r_cap R) (ev (Z.of_nat (S i)) CopyFrom (mask_idx (r_cap R) p + Ring.HL) (Z.of_nat (length body)) (-1) (-1) 0) acc = acc) by reflexivity.
    rewrite Ecl.
    destruct (SPLIT ltac:(rewrite Epc; reflexivity)) as (L1 & L2 & c1 & x & c2 & El & Ea & F1 & Hx & F2 & H1 & H2 & H3).
    rewrite Ea. eapply (REBUILD _ _ x L1 L2 c1 c2); eauto.
    + rewrite LOGEQ; [exact El |]. apply pending_upd. intros s; split; reflexivity.
    + destruct Hx as (A & B & j & q & ty0 & b0 & Eo & Hj & Hn & Hv & Hc). cbn [fst snd] in *.
      assert (j = i) by lia. subst j. rewrite Hi in Hj. inversion Hj; subst q.
      split; [assumption |]. split; [assumption |]. exists i, (set_pc ps (PCommit p)), ty0, b0.
      rewrite (nth_set_nth_eq _ _ _ _ Hi). cbn [set_pc p_prog p_k p_pc fst snd]. repeat split; auto.
      destruct Hc as [(C1 & _) | (C1 & C2 & C3)]; [lia |]. right. rewrite Epc in C3. auto.
  - (* commit *)
    subst e R' ps'.
    destruct (SPLIT ltac:(rewrite Epc; reflexivity)) as (L1 & L2 & c1 & x & c2 & El & Ea & F1 & Hx & F2 & H1 & H2 & H3).
    destruct Hx as (A & B & j & q & ty0 & b0 & Eo & Hj & Hn & Hv & Hc). cbn [fst snd] in *.
    assert (j = i) by lia. subst j. rewrite Hi in Hj. inversion Hj; subst q.
    rewrite Nat2Z.id in Hn. rewrite Aw1 in Hn. inversion Hn; subst ty0 b0.
    destruct Hc as [(C1 & _) | (C1 & C2 & C3)]; [lia |]. rewrite Epc in C3. destruct C3 as (C3 & C4).
    assert (Ecl : cl_upd (r_cap R) (ev (Z.of_nat (S i)) PutOrdered (mask_idx (r_cap R) p) 4 (rl_of body) 0 (pos_word (r_slots R) p)) acc
                  = rev (c1 ++ mkClaim (k_tid x) (k_from x) (k_to x) (k_type x) (k_len x) true :: c2)).
    { unfold cl_upd, ev. cbn [akind_eqb andb]. replace (mask_idx (r_cap R) p <? r_cap R) with true by lia. cbn [andb Z.eqb Pos.eqb].
      rewrite <- (rev_involutive acc). rewrite Ea. rewrite upd_latest_rev; [| exact A | exact H3].
      rewrite C4, Z.eqb_refl. reflexivity. }
    rewrite Ecl, rev_involutive.
    destruct (i_prods _ _ HI i ps Hi) as (_ & Pw & _).
    destruct (finish_spec (r_cap R) ps (Ok 0) Pw) as (G1 & G2 & _).
    eapply (REBUILD _ _ _ L1 L2 c1 c2); eauto; try lia.
    + rewrite LOGEQ; [exact El |]. apply pending_upd. intros s; split; reflexivity.
    + split; [exact A |]. split; [exact B |]. exists i, (finish (r_cap R) ps (Ok 0)), typ, body.
      rewrite (nth_set_nth_eq _ _ _ _ Hi). cbn [fst snd k_type k_len k_done]. rewrite Nat2Z.id, G1.
      repeat split; auto.
Qed.

(* ---- consumer steps ---- *)
Lemma cstep_claims lo m cfg R' cs' e acc :
  Inv lo cfg -> cstep m (g_ring cfg) (g_cons cfg) = (R', cs', Some e) -> c_pc cs' <> CPanic ->
  ClInv cfg acc -> ClInv (mkCfg R' cs' (g_prods cfg)) (cl_upd (r_cap (g_ring cfg)) e acc).
Proof. intros HI Hstep Hnp HC.
  destruct (cstep_log_facts lo m cfg R' cs' e HI Hstep Hnp) as (_ & A & _).
  assert (Ecl : cl_upd (r_cap (g_ring cfg)) e acc = acc).
  { destruct (cstep_cases lo m cfg R' cs' e HI Hstep) as (_ & _ & [(Q & _) | (bytes & msgs & a0 & _ & _ & Ee & _)]).
    - apply cl_upd_cons_quiet. assumption.
    - subst e. unfold cl_upd, ev. cbn [akind_eqb andb].
      pose proof (offs_distinct (r_cap (g_ring cfg))) as (_ & _ & _ & _ & O5 & _).
      replace (r_cap (g_ring cfg) + HEAD_OFF <? r_cap (g_ring cfg)) with false by lia. reflexivity. }
  rewrite Ecl. unfold ClInv, tlog, log in *. cbn [g_ring g_cons g_prods]. rewrite A. exact HC. Qed.

Lemma step_claims lo m cfg tid cfg' e acc :
  Inv lo cfg -> LogInv cfg -> step m cfg tid = Some (cfg', e) -> Inv lo cfg' ->
  ClInv cfg acc -> ClInv cfg' (cl_upd (r_cap (g_ring cfg)) e acc).
Proof. intros HI HL Hs HI' HC. unfold step in Hs. destruct tid as [| i].
  - destruct (cstep m (g_ring cfg) (g_cons cfg)) as [[R cs] [evt |]] eqn:E; [| discriminate].
    inversion Hs; subst. eapply cstep_claims; try eassumption. apply (proj1 (inv_no_panic _ _ HI')).
  - destruct (nth_error (g_prods cfg) i) as [ps |] eqn:Ei; [| discriminate].
    destruct (pstep m (g_ring cfg) (Z.of_nat (S i)) ps) as [[R ps'] [evt |]] eqn:E; [| discriminate].
    inversion Hs; subst. eapply pstep_claims; eassumption. Qed.

(* every run: the claims read off the trace match the log *)
Lemma steps_claims lo m c tr c' acc : Inv lo c -> LogInv c -> steps lo m c tr c' -> ClInv c acc ->
  ClInv c' (claims_rev (r_cap (g_ring c)) tr acc) /\ LogInv c' /\ Inv lo c'.
Proof. intros HI HL Hs. revert acc. induction Hs as [c | c tid c1 e tr c2 Hst Hw Hs IH]; intros acc HC.
  - cbn [claims_rev]. auto.
  - pose proof (step_inv lo m c tid c1 e HI Hst Hw) as HI1.
    pose proof (step_log lo m c tid c1 e HI HL Hst HI1) as HL1.
    pose proof (step_claims lo m c tid c1 e acc HI HL Hst HI1 HC) as HC1.
    destruct (step_pos lo m c tid c1 e HI Hst) as (_ & _ & Ec).
    rewrite claims_rev_cons. rewrite <- Ec in HC1 |- *. apply IH; assumption. Qed.

Lemma clinv_start R limits progs : wf R -> ClInv (start R limits progs) [].
Proof. intros W. unfold ClInv, tlog, log, start. cbn [g_ring g_cons g_prods rev].
  assert (Hd : delivered (cstart limits) = []) by (unfold delivered, cstart; destruct limits; reflexivity).
  rewrite Hd. cbn [map app].
  assert (P0 : filter is_thread (pending R) = []).
  { unfold pending. pose proof (chain_good _ _ _ _ (wf_chain _ W)) as G.
    induction G as [| s sl Gs G IH]; cbn [filter map]; [reflexivity |].
    destruct (is_rec s); cbn [map filter]; [| assumption].
    destruct Gs as (_ & _ & _ & _ & _ & _ & Go & _). unfold is_thread, slot_tag. cbn [fst]. rewrite Go. cbn. assumption. }
  rewrite P0. constructor. Qed.
