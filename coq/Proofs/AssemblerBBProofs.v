(* The fragment assembler over real BufferBuilders (Model/AssemblerBB.v) refines the assembler over ideal byte lists
   (Model/Assembler.v): whenever it returns, it hands the delegate the same messages and its builders hold the same bytes;
   and it does return - no endless loop, no panic, no lost byte - as long as every reassembly buffer stays below
   BB_SAFE bytes (about 1.43e9).  So the reassembly theorems stated for Model/Assembler.v (C20_sessions, C20_reassembly,
   C20_midjoin, and C01's use of `assemble`) hold for the code's buffer management too. *)
Require Import V.Base.MachineInt.
Require Import V.Generated.GenConsts.
Require Import V.Generated.GenBufferBuilder.
Require Import V.Model.LogBase.
Require Import V.Model.BufferBuilder.
Require Import V.Model.Assembler.
Require Import V.Model.AssemblerBB.
Require Import V.Proofs.BufferBuilderProofs.
From Coq Require Import ZifyBool Lia.
Open Scope Z_scope.

Definition builders_ok (bs : bbuilders) : Prop := Forall (fun p => bb_ok (snd p)) bs.

Lemma bget_ideal : forall bs s, bget (ideal_of bs) s = option_map bb_content (bbget bs s).
Proof. induction bs as [|[k v] r IH]; intros s; [reflexivity|]. cbn [ideal_of map fst snd bget bbget].
  destruct (k =? s); [reflexivity|]. apply IH. Qed.

Lemma bset_ideal : forall bs s v, ideal_of (bbset bs s v) = bset (ideal_of bs) s (bb_content v).
Proof. induction bs as [|[k w] r IH]; intros s v; [reflexivity|]. cbn [ideal_of map fst snd bset bbset].
  destruct (k =? s); cbn [map fst snd]; [reflexivity|]. f_equal. apply IH. Qed.

Lemma bbget_ok : forall bs s b, builders_ok bs -> bbget bs s = Some b -> bb_ok b.
Proof. induction bs as [|[k v] r IH]; intros s b Hok H; [discriminate|]. inversion Hok; subst. cbn [bbget] in H.
  destruct (k =? s); [inversion H; subst; assumption|]. eapply IH; eauto. Qed.

Lemma bbset_ok : forall bs s v, builders_ok bs -> bb_ok v -> builders_ok (bbset bs s v).
Proof. induction bs as [|[k w] r IH]; intros s v Hok Hv; cbn [bbset]; [constructor; [assumption|constructor]|].
  inversion Hok; subst. destruct (k =? s); constructor; auto. apply IH; assumption. Qed.

Lemma expect_ok {A} (x : outcome A) v : expect x = Ok v -> x = Ok v.
Proof. destruct x; cbn [expect]; intros H; try discriminate; assumption. Qed.

(* ---- one fragment ---- *)
Theorem on_fragment_bb_refines m ibl bs x bs' out : builders_ok bs ->
  on_fragment_bb m ibl bs x = Ok (bs', out) ->
  builders_ok bs' /\ on_fragment (ideal_of bs) x = (ideal_of bs', out).
Proof. intros Hok H. unfold on_fragment_bb in H. unfold on_fragment.
  destruct (has_flags (fr_flags x) F_UNFRAG); [inversion H; subst; split; [assumption|reflexivity]|].
  destruct (has_flags (fr_flags x) F_BEGIN).
  - destruct (match bbget bs (fr_session x) with Some b => Ok b | None => bb_new m ibl end) as [b0| | | |] eqn:E0; try discriminate.
    cbn [bind] in H.
    assert (Hb0 : bb_ok b0).
    { destruct (bbget bs (fr_session x)) as [b|] eqn:Eg; [inversion E0; subst; eapply bbget_ok; eauto|].
      apply (new_spec m ibl b0 E0). }
    destruct (expect (bb_append m (bb_reset b0) (fr_payload x))) as [b1| | | |] eqn:E1; try discriminate.
    cbn [bind] in H. inversion H; subst. apply expect_ok in E1.
    destruct (reset_spec b0 Hb0) as (R1 & R2 & R3 & R4).
    destruct (append_spec m _ _ _ R1 E1) as (A1 & A2 & A3 & _).
    split; [apply bbset_ok; assumption|]. rewrite bset_ideal, A3, R3. reflexivity.
  - rewrite bget_ideal. destruct (bbget bs (fr_session x)) as [b|] eqn:Eg; cbn [option_map];
      [|inversion H; subst; split; [assumption|reflexivity]].
    pose proof (bbget_ok _ _ _ Hok Eg) as Hb. pose proof Hb as ((Hl1 & Hl2) & _).
    assert (Ec : (HDR + Z.of_nat (length (bb_content b)) =? HDR) = (bb_limit b =? HDR)).
    { rewrite (content_length b Hl1). destruct (bb_limit b =? HDR) eqn:E; lia. }
    rewrite Ec. destruct (bb_limit b =? HDR); [inversion H; subst; split; [assumption|reflexivity]|].
    destruct (expect (bb_append m b (fr_payload x))) as [b1| | | |] eqn:E1; try discriminate. cbn [bind] in H.
    apply expect_ok in E1. destruct (append_spec m _ _ _ Hb E1) as (A1 & A2 & A3 & _).
    destruct (has_flags (fr_flags x) F_END); inversion H; subst.
    + destruct (reset_spec b1 A1) as (R1 & R2 & R3 & R4).
      split; [apply bbset_ok; assumption|]. rewrite bset_ideal, R3, A3. reflexivity.
    + split; [apply bbset_ok; assumption|]. rewrite bset_ideal, A3. reflexivity. Qed.

(* ---- any fragment sequence of any sessions ---- *)
Theorem assemble_bb_refines m ibl : forall xs bs bs' out, builders_ok bs ->
  assemble_bb m ibl bs xs = Ok (bs', out) ->
  builders_ok bs' /\ assemble (ideal_of bs) xs = (ideal_of bs', out).
Proof. induction xs as [|x r IH]; intros bs bs' out Hok H; cbn [assemble_bb assemble] in *.
  - inversion H; subst. split; [assumption|reflexivity].
  - destruct (on_fragment_bb m ibl bs x) as [[bs1 o1]| | | |] eqn:E1; try discriminate. cbn [bind fst snd] in H.
    destruct (assemble_bb m ibl bs1 r) as [[bs2 o2]| | | |] eqn:E2; try discriminate. cbn [bind fst snd] in H. inversion H; subst.
    destruct (on_fragment_bb_refines m ibl bs x bs1 o1 Hok E1) as (Hok1 & Hi1).
    destruct (IH bs1 bs' o2 Hok1 E2) as (Hok2 & Hi2). split; [assumption|]. rewrite Hi1, Hi2. reflexivity. Qed.

(* ---- it does return while the buffers stay small ---- *)
Definition frag_bytes (xs : list frag) : Z := fold_right (fun x a => Z.of_nat (length (fr_payload x)) + a) 0 xs.

(* every builder could still take B more bytes *)
Definition room (B : Z) (bs : bbuilders) : Prop := Forall (fun p => bb_limit (snd p) + B <= BB_SAFE + 1) bs.

Lemma bbget_room : forall bs s b B, room B bs -> bbget bs s = Some b -> bb_limit b + B <= BB_SAFE + 1.
Proof. induction bs as [|[k v] r IH]; intros s b B Hr H; [discriminate|]. inversion Hr; subst. cbn [bbget] in H.
  destruct (k =? s); [inversion H; subst; assumption|]. eapply IH; eauto. Qed.

Lemma bbset_room : forall bs s v B, room B bs -> bb_limit v + B <= BB_SAFE + 1 -> room B (bbset bs s v).
Proof. induction bs as [|[k w] r IH]; intros s v B Hr Hv; cbn [bbset]; [constructor; [assumption|constructor]|].
  inversion Hr; subst. destruct (k =? s); constructor; auto. apply IH; assumption. Qed.

Lemma room_weaken B B' bs : B' <= B -> room B bs -> room B' bs.
Proof. intros H Hr. unfold room in *. eapply Forall_impl; [|exact Hr]. cbn. intros p Hp. lia. Qed.

Lemma frag_bytes_nonneg xs : 0 <= frag_bytes xs.
Proof. induction xs as [|x r IH]; cbn [frag_bytes fold_right]; [lia|]. fold (frag_bytes r). lia. Qed.

Theorem on_fragment_bb_succeeds m ibl bs x B : builders_ok bs -> is_ok (bb_new m ibl) = true ->
  room (Z.of_nat (length (fr_payload x)) + B) bs -> 0 <= B -> HDR + Z.of_nat (length (fr_payload x)) + B <= BB_SAFE + 1 ->
  exists bs' out, on_fragment_bb m ibl bs x = Ok (bs', out) /\ room B bs'.
Proof. intros Hok Hnew Hroom HB Hfresh. set (n := Z.of_nat (length (fr_payload x))) in *. assert (Hn : 0 <= n) by lia.
  unfold on_fragment_bb.
  destruct (has_flags (fr_flags x) F_UNFRAG); [do 2 eexists; split; [reflexivity|eapply room_weaken; [|exact Hroom]; lia]|].
  destruct (has_flags (fr_flags x) F_BEGIN).
  - assert (Hb0 : exists b0, (match bbget bs (fr_session x) with Some b => Ok b | None => bb_new m ibl end) = Ok b0 /\ bb_ok b0).
    { destruct (bbget bs (fr_session x)) as [b|] eqn:Eg; [exists b; split; [reflexivity|eapply bbget_ok; eauto]|].
      destruct (bb_new m ibl) as [b0| | | |] eqn:En; try discriminate. exists b0. split; [reflexivity|apply (new_spec m ibl b0 En)]. }
    destruct Hb0 as (b0 & E0 & Hb0). rewrite E0. cbn [bind].
    destruct (reset_spec b0 Hb0) as (R1 & R2 & R3 & R4).
    destruct (append_succeeds m (bb_reset b0) (fr_payload x) R1 ltac:(fold n; lia)) as (b1 & Ea). rewrite Ea. cbn [expect bind].
    destruct (append_spec m _ _ _ R1 Ea) as (A1 & A2 & _).
    do 2 eexists. split; [reflexivity|]. apply bbset_room; [eapply room_weaken; [|exact Hroom]; lia|]. fold n in A2. lia.
  - destruct (bbget bs (fr_session x)) as [b|] eqn:Eg; [|do 2 eexists; split; [reflexivity|eapply room_weaken; [|exact Hroom]; lia]].
    pose proof (bbget_ok _ _ _ Hok Eg) as Hb. pose proof (bbget_room _ _ _ _ Hroom Eg) as Hrb.
    destruct (bb_limit b =? HDR); [do 2 eexists; split; [reflexivity|eapply room_weaken; [|exact Hroom]; lia]|].
    destruct (append_succeeds m b (fr_payload x) Hb ltac:(fold n; lia)) as (b1 & Ea). rewrite Ea. cbn [expect bind].
    destruct (append_spec m _ _ _ Hb Ea) as (A1 & A2 & _). fold n in A2.
    destruct (has_flags (fr_flags x) F_END); do 2 eexists; (split; [reflexivity|]).
    + apply bbset_room; [eapply room_weaken; [|exact Hroom]; lia|]. cbn [bb_reset bb_limit]. lia.
    + apply bbset_room; [eapply room_weaken; [|exact Hroom]; lia|]. lia. Qed.

Theorem assemble_bb_succeeds m ibl : forall xs bs, builders_ok bs -> is_ok (bb_new m ibl) = true ->
  room (frag_bytes xs) bs -> HDR + frag_bytes xs <= BB_SAFE + 1 ->
  exists bs' out, assemble_bb m ibl bs xs = Ok (bs', out).
Proof. induction xs as [|x r IH]; intros bs Hok Hnew Hroom Hfresh; cbn [assemble_bb]; [do 2 eexists; reflexivity|].
  cbn [frag_bytes fold_right] in Hroom, Hfresh. fold (frag_bytes r) in Hroom, Hfresh. pose proof (frag_bytes_nonneg r) as Hnn.
  destruct (on_fragment_bb_succeeds m ibl bs x (frag_bytes r) Hok Hnew Hroom Hnn ltac:(lia)) as (bs1 & o1 & E1 & Hr1).
  rewrite E1. cbn [bind fst snd].
  destruct (on_fragment_bb_refines m ibl bs x bs1 o1 Hok E1) as (Hok1 & _).
  destruct (IH bs1 Hok1 Hnew Hr1 ltac:(lia)) as (bs2 & o2 & E2). rewrite E2. cbn [bind]. do 2 eexists. reflexivity. Qed.

(* ---- together: from a fresh assembler, any fragment sequence below BB_SAFE bytes in total ---- *)
Theorem assemble_bb_exact m ibl xs : is_ok (bb_new m ibl) = true -> HDR + frag_bytes xs <= BB_SAFE + 1 ->
  exists bs', assemble_bb m ibl [] xs = Ok (bs', snd (assemble [] xs)) /\ ideal_of bs' = fst (assemble [] xs).
Proof. intros Hnew Hb. destruct (assemble_bb_succeeds m ibl xs [] ltac:(constructor) Hnew ltac:(constructor) Hb) as (bs' & out & E).
  destruct (assemble_bb_refines m ibl xs [] bs' out ltac:(constructor) E) as (_ & Hi). cbn [ideal_of map] in Hi.
  exists bs'. rewrite Hi. cbn [fst snd]. split; [exact E|reflexivity]. Qed.

(* the initial buffer lengths that make `new` return: everything except values whose round-up overflows an i64 in a debug build *)
Lemma new_ok_small m ibl : - two63 < ibl <= 4611686018427387904 -> is_ok (bb_new m ibl) = true.
Proof. intros H. unfold bb_new, next_pow2_i64, sub64, add64, chk64. unfold two63 in H.
  assert (E1 : in_i64 (ibl - 1) = true) by (unfold in_i64, two63; lia). rewrite E1. cbn [bind].
  assert (E2 : in_i64 (fill_below (ibl - 1) + 1) = true).
  { unfold in_i64, two63, fill_below. destruct (ibl - 1 <? 0) eqn:A; [reflexivity|]. destruct (ibl - 1 =? 0) eqn:B; [reflexivity|].
    assert (Z.log2 (ibl - 1) < 62) by (apply Z.log2_lt_pow2; lia).
    assert (2 ^ (Z.log2 (ibl - 1) + 1) <= 2 ^ 62) by (apply Z.pow_le_mono_r; lia).
    assert (0 < 2 ^ (Z.log2 (ibl - 1) + 1)) by (apply Z.pow_pos_nonneg; pose proof (Z.log2_nonneg (ibl - 1)); lia).
    change (2 ^ 62) with 4611686018427387904 in *. lia. }
  rewrite E2. reflexivity. Qed.
