(* C19 - K1 for the parser side: the interpreter of Model/UriParserSem.v run on the syntax trees the translator read off
   src/channel_uri.rs (Generated/GenUriParser.v) is the hand-written model of Model/Uri.v, for every input.
   The proofs compute with the *generated* trees: a changed arm, a different buffer, a different error, a different
   separator in `fmt` makes one of them fail (the check then reports the K1 link as broken). They do not depend on the
   order of `match` arms, on `if` versus `match`, or on the names of the locals. *)
From Coq Require Import Permutation.
Require Import V.Base.MachineInt.
Require Import V.Model.UriTypes.
Require Import V.Generated.GenUriTables.
Require Import V.Model.Uri.
Require Import V.Model.UriParserSem.
Require Import V.Generated.GenUriParser.
Open Scope Z_scope.

(* ---- the loop ---------------------------------------------------------------------------------------- *)

(* which configuration of the hand-written loop an interpreter environment stands for: the String locals are, in
   declaration order, builder / media / key; the state is the enum variant of the same name *)
Definition state_of (n : string) : option pstate :=
  if String.eqb n "Media" then Some SMedia
  else if String.eqb n "ParamsKey" then Some SKey
  else if String.eqb n "ParamsValue" then Some SValue
  else None.

Definition abs_env (e : menv) : option (pstate * str * str * str * params) :=
  match m_strs e, state_of (m_state e) with
  | [b; media; key], Some st => Some (st, b, media, key, m_params e)
  | _, _ => None
  end.

Ltac split_chars :=
  repeat match goal with
         | |- context [Z.eqb ?c ?n] =>
             is_var c; let E := fresh "E" in destruct (Z.eqb_spec c n) as [E | E]; [subst c|]
         end.

Ltac crunch :=
  cbn -[Z.eqb Z.add insert is_empty app str_eqb loop finish];
  unfold CH_QMARK, CH_EQ, CH_BAR, CH_COLON in *.

(* one character: the generated loop body against one unfolding of `loop` *)
Lemma gen_body_step c r : forall e idx st b media key ps,
  (forall e' idx' st' b' media' key' ps', abs_env e' = Some (st', b', media', key', ps') ->
     gloop gen_parser e' idx' r = lift (loop st' b' media' key' ps' idx' r)) ->
  abs_env e = Some (st, b, media, key, ps) ->
  gloop gen_parser e idx (c :: r) = lift (loop st b media key ps idx (c :: r)).
Proof.
  intros e idx st b media key ps IH Habs.
  destruct e as [strs mps mst]. unfold abs_env in Habs. cbn [m_strs m_state m_params] in Habs.
  destruct strs as [|b0 [|m0 [|k0 [|? ?]]]]; try discriminate.
  unfold state_of in Habs.
  destruct (String.eqb mst "Media") eqn:E1.
  { apply String.eqb_eq in E1. subst mst. injection Habs as <- <- <- <- <-.
    cbn [gloop loop]. crunch. split_chars; crunch; try reflexivity; try lia;
      try (apply IH; reflexivity). }
  destruct (String.eqb mst "ParamsKey") eqn:E2.
  { apply String.eqb_eq in E2. subst mst. injection Habs as <- <- <- <- <-.
    cbn [gloop loop]. crunch. destruct (is_empty b0) eqn:Eb;
      split_chars; crunch; try reflexivity; try lia; try (apply IH; reflexivity). }
  destruct (String.eqb mst "ParamsValue") eqn:E3; [|discriminate].
  { apply String.eqb_eq in E3. subst mst. injection Habs as <- <- <- <- <-.
    cbn [gloop loop]. crunch. split_chars; crunch; try reflexivity; try lia;
      try (apply IH; reflexivity). }
Qed.

(* end of input: the statements after the loop against `finish` *)
Lemma gen_finish e idx st b media key ps :
  abs_env e = Some (st, b, media, key, ps) ->
  gloop gen_parser e idx [] = lift (loop st b media key ps idx []).
Proof.
  intros Habs.
  destruct e as [strs mps mst]. unfold abs_env in Habs. cbn [m_strs m_state m_params] in Habs.
  destruct strs as [|b0 [|m0 [|k0 [|? ?]]]]; try discriminate.
  unfold state_of in Habs.
  destruct (String.eqb mst "Media") eqn:E1.
  { apply String.eqb_eq in E1. subst mst. injection Habs as <- <- <- <- <-.
    cbn [gloop loop]. crunch. unfold finish.
    destruct (str_eqb b0 IPC_MEDIA), (str_eqb b0 UDP_MEDIA); reflexivity. }
  destruct (String.eqb mst "ParamsKey") eqn:E2.
  { apply String.eqb_eq in E2. subst mst. injection Habs as <- <- <- <- <-. reflexivity. }
  destruct (String.eqb mst "ParamsValue") eqn:E3; [|discriminate].
  { apply String.eqb_eq in E3. subst mst. injection Habs as <- <- <- <- <-. reflexivity. }
Qed.

Lemma gen_loop_eq s : forall e idx st b media key ps,
  abs_env e = Some (st, b, media, key, ps) ->
  gloop gen_parser e idx s = lift (loop st b media key ps idx s).
Proof.
  induction s as [|c r IH]; intros e idx st b media key ps Habs.
  - now apply gen_finish.
  - apply gen_body_step; auto.
Qed.

(* ---- the whole of `parse` ------------------------------------------------------------------------------ *)

(* `.len()` is applied to ASCII constants only, so bytes = characters *)
Lemma gen_position prefix :
  eval_pexp (gp_position gen_parser) prefix
  = Some (str_len AERON_PREFIX + (if is_empty prefix then 0 else str_len SPY_PREFIX)).
Proof. destruct prefix; reflexivity. Qed.

Theorem gen_parse_eq s : gparse gen_parser s = lift (parse s).
Proof.
  unfold gparse, parse.
  change (gp_spy_prefix gen_parser) with SPY_PREFIX.
  change (gp_spy_qualifier gen_parser) with SPY_QUALIFIER.
  change (gp_no_prefix gen_parser) with (@nil Z).
  change (gp_scheme_prefix gen_parser) with AERON_PREFIX.
  destruct (strip_prefix SPY_PREFIX s) as [rest|].
  - destruct (strip_prefix AERON_PREFIX rest) as [body|]; [|reflexivity].
    rewrite gen_position.
    rewrite (gen_loop_eq body (init_env gen_parser) _ SMedia [] [] [] []) by reflexivity.
    destruct (loop SMedia [] [] [] [] _ body) as [[m ps]|e]; reflexivity.
  - destruct (strip_prefix AERON_PREFIX s) as [body|]; [|reflexivity].
    rewrite gen_position.
    rewrite (gen_loop_eq body (init_env gen_parser) _ SMedia [] [] [] []) by reflexivity.
    destruct (loop SMedia [] [] [] [] _ body) as [[m ps]|e]; reflexivity.
Qed.

(* the generated parser is never stuck, and it is the model *)
Corollary gen_parse_ok s u : gparse gen_parser s = GOk u <-> parse s = POk u.
Proof. rewrite gen_parse_eq. destruct (parse s); cbn; split; intros H; congruence. Qed.

Corollary gen_parse_err s e : gparse gen_parser s = GFail e <-> parse s = PErr e.
Proof. rewrite gen_parse_eq. destruct (parse s); cbn; split; intros H; congruence. Qed.

Corollary gen_parse_not_stuck s : gparse gen_parser s <> GStuck.
Proof. rewrite gen_parse_eq. destruct (parse s); discriminate. Qed.

(* the class of an error literal is the class the model's error is reported under (err_class) *)
Lemma eval_gerr_class cur cls variant fields e r :
  eval_gerr cur (GErr cls variant fields) e = Some r ->
  (cls = ILLEGAL_STATE /\ err_class r = IllegalState) \/ (cls = ILLEGAL_ARGUMENT /\ err_class r = IllegalArg).
Proof.
  unfold eval_gerr. destruct (String.eqb cls ILLEGAL_STATE) eqn:E1.
  - apply String.eqb_eq in E1. destruct cur as [[c idx]|]; [|discriminate].
    repeat match goal with |- context [if ?x then _ else _] => destruct x end; intros H; try discriminate;
      injection H as <-; left; auto.
  - destruct (String.eqb cls ILLEGAL_ARGUMENT) eqn:E2; [|discriminate]. apply String.eqb_eq in E2.
    repeat match goal with
           | |- context [if ?x then _ else _] => destruct x
           | |- context [match ?x with _ => _ end] => destruct x
           end; intros H; try discriminate; injection H as <-; right; auto.
Qed.

(* the variants of `enum State` are the three states of the model *)
Lemma gen_states : map state_of (gp_states gen_parser) = [Some SMedia; Some SKey; Some SValue].
Proof. reflexivity. Qed.

(* ---- Display -------------------------------------------------------------------------------------------- *)

Theorem gen_display_eq prefix media ord : gdisplay gen_display prefix media ord = Some (print prefix media ord).
Proof.
  unfold gdisplay, print.
  assert (R : forall l, map (render_entry [FArg 0; FLit [61]; FArg 1; FLit [124]]) l = map seg l).
  { intros l. apply map_ext. intros [k v]. unfold render_entry, seg, CH_EQ, CH_BAR. cbn. rewrite ?app_nil_r. reflexivity. }
  unfold ends_with_colon, CH_COLON, CH_QMARK.
  destruct prefix as [|p0 pr].
  - destruct ord as [|kv r]; cbn -[removelast app render_entry AERON_PREFIX map List.concat]; [reflexivity|].
    rewrite R. rewrite <- ?app_assoc. reflexivity.
  - cbn -[removelast app render_entry AERON_PREFIX rev Z.eqb map List.concat].
    destruct (rev (p0 :: pr)) as [|l ?]; [| destruct (l =? 58)];
      destruct ord as [|kv r]; cbn -[removelast app render_entry AERON_PREFIX rev Z.eqb map List.concat]; rewrite ?R;
      rewrite ?app_nil_r, <- ?app_assoc; reflexivity.
Qed.

(* ---- the round trip, stated on the two translated functions only ------------------------------------------ *)

Lemma gen_roundtrip_from (reparse : forall s u, parse s = POk u -> forall ord, Permutation ord (u_params u) ->
                            parse (display u ord) = POk (mkUri (u_prefix u) (u_media u) ord)) s u :
  gparse gen_parser s = GOk u ->
  forall ord, Permutation ord (u_params u) ->
    exists x, gdisplay gen_display (u_prefix u) (u_media u) ord = Some x
              /\ gparse gen_parser x = GOk (mkUri (u_prefix u) (u_media u) ord).
Proof.
  intros H ord Hp. apply gen_parse_ok in H. exists (display u ord). split.
  - apply gen_display_eq.
  - apply gen_parse_ok. now apply (reparse s).
Qed.

Lemma gen_obs_eq s : gparse_obs gen_parser gen_display s = parse_obs s.
Proof.
  unfold gparse_obs, parse_obs. rewrite gen_parse_eq. destruct (parse s) as [u|e]; cbn [lift]; [|reflexivity].
  rewrite gen_display_eq. unfold canon_display, display. rewrite gen_parse_eq.
  destruct (parse (print (u_prefix u) (u_media u) (sort_params (u_params u)))); reflexivity.
Qed.

(* ---- add_session_id -------------------------------------------------------------------------------------- *)

Lemma gen_sid_eq : gen_sid = {| sid_key := SESSION_ID_PARAM_NAME; sid_ok := true |}.
Proof. reflexivity. Qed.

(* the accessors the harness observes through have the bodies Model/Uri.v models (token comparison by the translator) *)
Lemma gen_accessors : gen_accessors_ok = true.
Proof. reflexivity. Qed.
