(* C06, sequential part: whole runs.  The specification interpreter of Oracle/C06Oracle.v accepts
   every run of the model (any capacity 2^k, any operation list), i.e. the model refines the FIFO;
   plus the corollaries stated in Props/C06.v. *)
Require Import V.Base.MachineInt.
Require Import V.Generated.GenConsts.
Require Import V.Model.LogBase.
Require Import V.Model.Ring.
Require Import V.Spec.Fifo.
Require Import V.Oracle.C06Oracle.
Require Import V.Proofs.RingArith.
Require Import V.Proofs.RingSeq.
Require Import V.Proofs.RingRender.
Require Import V.Proofs.RingSeqRun.
From Coq Require Import ZifyBool Lia.
Open Scope Z_scope.

Lemma run_cons m st o r :
  run m st (o :: r) = (fst (run m (fst (step m st o)) r), snd (step m st o) :: snd (run m (fst (step m st o)) r)).
Proof. cbn [run]. destruct (step m st o) as [st1 x]. cbn [fst snd].
  destruct (run m st1 r) as [st2 xs]. reflexivity. Qed.

Lemma run_ok m c0 : forall ops st s n,
  wf st -> rel c0 n st s -> r_tail st + 2 * r_cap st * Z.of_nat (length ops) <= two62 ->
  Forall op_ok ops -> Z.of_nat (n + length ops) < two64 ->
  wf (fst (run m st ops)) /\ r_cap (fst (run m st ops)) = r_cap st /\
  exists s', check_to (r_cap st) s ops (snd (run m st ops)) = Some s' /\
             rel c0 (n + length ops) (fst (run m st ops)) s'.
Proof.
  induction ops as [| o r IH]; intros st s n W R Hb Hok Hn.
  - cbn [run fst snd check_to length]. split; [assumption |]. split; [reflexivity |].
    exists s. split; [reflexivity |]. rewrite Nat.add_0_r. assumption.
  - rewrite run_cons. cbn [fst snd check_to length] in *.
    inversion Hok as [| o' r' Ho Hr]; subst.
    pose proof (cap_ok_range _ (wf_cap _ W)) as Hcr.
    destruct (step_ok m c0 n st s o W R ltac:(nia) Ho ltac:(lia)) as (s1 & C1 & W1 & R1 & Ec & Et).
    rewrite C1.
    destruct (IH (fst (step m st o)) s1 (S n) W1 R1 ltac:(rewrite Ec; nia) Hr ltac:(lia)) as (W2 & Ec2 & s2 & C2 & R2).
    split; [assumption |]. split; [congruence |].
    exists s2. rewrite Ec in C2. split; [assumption |].
    replace (n + S (length r))%nat with (S n + length r)%nat by lia. assumption.
Qed.

Lemma check_to_all cp : forall ops s obs s', check_to cp s ops obs = Some s' -> check_all cp s ops obs = true.
Proof. induction ops as [| o r IH]; intros s obs s' H; destruct obs as [| x xs]; cbn [check_to check_all] in *; try discriminate.
  - reflexivity.
  - destruct (check_step cp s o x); [eapply IH; eassumption | discriminate]. Qed.

Lemma wf_init cp p0 hc0 c0 : cap_ok cp -> 0 <= hc0 <= p0 -> p0 mod 8 = 0 -> wf (init cp p0 hc0 c0).
Proof. intros Hc. intros. pose proof (cap_ok_range _ Hc).
  constructor; cbn [init r_cap r_head r_tail r_hc r_slots]; auto; try lia; try constructor. Qed.

Lemma rel_init cp p0 hc0 c0 : in_i64 c0 = true -> rel c0 0 (init cp p0 hc0 c0) (mkOst [] p0 p0 []).
Proof. intros Hc. constructor; cbn [init o_q o_h o_t o_ids abs r_slots r_head r_tail r_corr abs_slots flat_map]; auto.
  exists O. split; [lia |]. split; [intros x; cbn; tauto |]. rewrite Z.add_0_r. symmetry. apply wrap64_id. assumption. Qed.

Definition seq_domain (cp p0 hc0 c0 : Z) (ops : list op) : Prop :=
  cap_ok cp /\ 0 <= hc0 <= p0 /\ p0 mod 8 = 0 /\ in_i64 c0 = true /\
  p0 + 2 * cp * Z.of_nat (length ops) <= two62 /\ Forall op_ok ops.

Lemma seq_run_ok m cp p0 hc0 c0 ops : seq_domain cp p0 hc0 c0 ops ->
  wf (fst (run m (init cp p0 hc0 c0) ops)) /\
  exists s', check_to cp (mkOst [] p0 p0 []) ops (snd (run m (init cp p0 hc0 c0) ops)) = Some s' /\
             rel c0 (length ops) (fst (run m (init cp p0 hc0 c0) ops)) s'.
Proof. intros (Hc & Hh & H8 & Hi & Hb & Hok).
  pose proof (cap_ok_range _ Hc).
  assert (L : Z.of_nat (length ops) < two64).
  { unfold two62, two64 in *. nia. }
  destruct (run_ok m c0 ops (init cp p0 hc0 c0) (mkOst [] p0 p0 []) 0
              (wf_init _ _ _ _ Hc Hh H8) (rel_init _ _ _ _ Hi) Hb Hok L) as (W & _ & s' & C & R).
  split; [assumption |]. exists s'. split; assumption. Qed.

(* the oracle accepts every run of the model *)
Lemma oracle_seq_model m cp p0 hc0 c0 ops : seq_domain cp p0 hc0 c0 ops ->
  holds_seq cp p0 hc0 c0 ops (snd (run m (init cp p0 hc0 c0) ops)) = true.
Proof. intros D. destruct (seq_run_ok m cp p0 hc0 c0 ops D) as (_ & s' & C & _).
  unfold holds_seq. eapply check_to_all. eassumption. Qed.

(* refinement: the queue held by the specification after following the model's outputs is the
   abstraction of the model's final state *)
Lemma fifo_refinement m cp p0 hc0 c0 ops : seq_domain cp p0 hc0 c0 ops ->
  exists s', check_to cp (mkOst [] p0 p0 []) ops (snd (run m (init cp p0 hc0 c0) ops)) = Some s' /\
    o_q s' = abs (fst (run m (init cp p0 hc0 c0) ops)) /\
    o_h s' = r_head (fst (run m (init cp p0 hc0 c0) ops)) /\
    o_t s' = r_tail (fst (run m (init cp p0 hc0 c0) ops)).
Proof. intros D. destruct (seq_run_ok m cp p0 hc0 c0 ops D) as (_ & s' & C & [Rq Rh Rt _]).
  exists s'. repeat split; assumption. Qed.

(* head <= tail <= head + capacity after any run (hence after every prefix of it) *)
Lemma order_invariant m cp p0 hc0 c0 ops : seq_domain cp p0 hc0 c0 ops ->
  let st := fst (run m (init cp p0 hc0 c0) ops) in
  r_hc st <= r_head st /\ r_head st <= r_tail st /\ r_tail st <= r_head st + r_cap st.
Proof. intros D. destruct (seq_run_ok m cp p0 hc0 c0 ops D) as (W & _). cbn zeta.
  pose proof (wf_hc _ W). pose proof (chain_le _ _ _ _ (wf_chain _ W)). pose proof (wf_size _ W). lia. Qed.

(* ---- correlation ids handed out in a run the oracle accepts are pairwise distinct ---- *)
Definition ids_of (outs : list out) : list Z :=
  flat_map (fun x => match x with OI (Ok id) => [id] | _ => [] end) outs.

Lemma check_step_ids cp s o x s' : check_step cp s o x = Some s' ->
  match x with
  | OI (Ok id) => o_ids s' = id :: o_ids s /\ ~ In id (o_ids s)
  | _ => o_ids s' = o_ids s
  end.
Proof. unfold check_step. intros H.
  destruct o, x; try discriminate;
  repeat match type of H with
         | (if ?c then _ else _) = Some _ => destruct c eqn:?E; try discriminate
         | match ?r with Ok _ => _ | _ => _ end = Some _ => destruct r; try discriminate
         | (let '(_, _) := ?d in _) = Some _ => destruct d eqn:?D
         end;
  try (inversion H; subst; cbn [o_ids]; reflexivity).
  inversion H; subst; cbn [o_ids]. split; [reflexivity |].
  intro Hin. unfold mem_z in *.
  match goal with E : existsb _ _ = false |- _ =>
    assert (X : existsb (fun y => y =? a) (o_ids s) = true) by (apply existsb_exists; exists a; split; [assumption | lia]);
    congruence end. Qed.

Lemma check_to_ids cp : forall ops obs s s', check_to cp s ops obs = Some s' -> NoDup (o_ids s) ->
  NoDup (ids_of obs) /\ (forall x, In x (ids_of obs) -> ~ In x (o_ids s)) /\ NoDup (o_ids s').
Proof. induction ops as [| o r IH]; intros obs s s' H Hnd; destruct obs as [| x xs]; cbn [check_to] in H; try discriminate.
  - inversion H; subst. cbn. repeat split; [constructor | tauto | assumption].
  - destruct (check_step cp s o x) as [s1 |] eqn:C; [| discriminate].
    pose proof (check_step_ids _ _ _ _ _ C) as Hi.
    unfold ids_of. cbn [flat_map]. fold (ids_of xs).
    destruct x as [r0 h0 t0 | r0 m0 h0 t0 | r0 h0 t0 | r0 | [id | e0 | | |] | r0 | ws0];
      try (assert (Hnd1 : NoDup (o_ids s1)) by (rewrite Hi; assumption);
           destruct (IH xs s1 s' H Hnd1) as (A & B & C2); cbn [app]; rewrite <- Hi;
           split; [exact A | split; [exact B | exact C2]]).
    destruct Hi as (Hi & Hfresh).
    assert (Hnd1 : NoDup (o_ids s1)) by (rewrite Hi; constructor; assumption).
    destruct (IH xs s1 s' H Hnd1) as (A & B & C2).
    cbn [app]. split; [| split; [| assumption]].
    + constructor; [| assumption]. intro Hin. apply (B id Hin). rewrite Hi. left. reflexivity.
    + intros y [-> | Hy]; [assumption |]. intro Hin. apply (B y Hy). rewrite Hi. right. assumption.
Qed.

Lemma ids_distinct m cp p0 hc0 c0 ops : seq_domain cp p0 hc0 c0 ops ->
  NoDup (ids_of (snd (run m (init cp p0 hc0 c0) ops))).
Proof. intros D. destruct (seq_run_ok m cp p0 hc0 c0 ops D) as (_ & s' & C & _).
  destruct (check_to_ids _ _ _ _ _ C ltac:(constructor)) as (A & _). exact A. Qed.

(* ---- consumed space renders to zero ---- *)
Lemma read_zero m st limit : wf st -> r_tail st < two62 ->
  let st' := fst (read m st limit) in
  forall q, r_head st <= q < r_head st' -> word_at (render st') (q mod r_cap st) = 0.
Proof. intros W Hb. cbn zeta.
  destruct (read_spec m st limit W Hb) as (st' & n & l & E & W' & Ecap & Et & _ & _ & _ & _ & _ & _ & Hhd & _ & _).
  rewrite E. cbn [fst]. intros q Hq.
  pose proof (wf_cap _ W) as Hc. pose proof (cap_ok_range _ Hc) as Hcr. pose proof (wf_size _ W) as Hsz.
  unfold render. rewrite Ecap.
  pose proof (wf_tiled _ W') as T. rewrite Ecap in T.
  eapply word_at_outside; [exact Hc | exact T | | ].
  - intros s Hs Hin. pose proof (tiled_range _ _ _ _ T) as R. rewrite Forall_forall in R.
    destruct (R s Hs) as (A & B & G). destruct G as (_ & _ & Gs & _ & Gstr & _).
    pose proof (mod_range (r_cap st) q Hc).
    apply (idx_disjoint (r_cap st) q 1 (s_pos s) (s_span s) 0 (q mod r_cap st - s_pos s mod r_cap st)); lia.
  - pose proof (mod_range (r_cap st) q Hc). apply trailer_clear. rewrite Ecap. lia. Qed.

(* ---- honest capacity ---- *)
Lemma capacity_iff m st typ body : wf st -> r_tail st < two62 -> valid_cmd typ = true ->
  Z.of_nat (length body) <= r_cap st / 8 ->
  (snd (write m st typ body) = Err InsufficientCapacity <->
   (r_tail st - r_head st) + rec_bytes (Z.of_nat (length body))
     + wrap_pad (r_cap st) (r_tail st) (Z.of_nat (length body)) > r_cap st) /\
  (snd (write m st typ body) = Ok 0 <->
   (r_tail st - r_head st) + rec_bytes (Z.of_nat (length body))
     + wrap_pad (r_cap st) (r_tail st) (Z.of_nat (length body)) <= r_cap st).
Proof. intros W Hb Hv Hl.
  assert (T1 : 1 <= typ) by (unfold valid_cmd in Hv; lia).
  destruct (write_spec m st typ body W Hb (or_intror Hv)) as (st' & r & E & _ & _ & _ & _ & _ & Hcase).
  rewrite E. cbn [snd]. unfold no_room in Hcase.
  destruct Hcase as [(? & _) | [(_ & ? & _) | [(_ & _ & NR & -> & _) | (_ & _ & NR & -> & _)]]]; try lia.
  - split; split; intros; try lia; try reflexivity; try discriminate.
  - split; split; intros; try lia; try reflexivity; try discriminate. Qed.

(* ---- what is in memory at a slot's header is the slot's header ---- *)
Lemma header_in_memory st pre s suf : wf st -> r_slots st = pre ++ s :: suf ->
  word_at (render st) (s_pos s mod r_cap st) = s_len s /\
  word_at (render st) (s_pos s mod r_cap st + 4) = s_type s.
Proof. intros W E. pose proof (wf_tiled _ W) as T. rewrite E in T. unfold render. rewrite E. split.
  - apply (word_at_len (r_cap st) (r_head st) (r_tail st) pre suf s (render_trailer st) (wf_cap _ W) T (wf_size _ W) (trailer_clear st)).
  - apply (word_at_type (r_cap st) (r_head st) (r_tail st) pre suf s (render_trailer st) (wf_cap _ W) T (wf_size _ W) (trailer_clear st)). Qed.
