(* C03, exclusive publisher + subscriber: what every step reports (the event) in the terms of the frame discipline. *)
Require Import V.Base.MachineInt.
Require Import V.Generated.GenConsts.
Require Import V.Generated.GenOrdering.
Require Import V.Model.LogBase.
Require Import V.Model.Descriptor.
Require Import V.Model.Sched.
Require Import V.Model.AppenderThreads.
Require Import V.Model.ReaderThreads.
Require Import V.Model.ExclThreads.
Require Import V.Model.PollThreads.
Require Import V.Model.ClaimThreads.
Require Import V.Oracle.C03Oracle.
Require Import V.Proofs.OrderingProofs.
Require Import V.Proofs.TailArith.
Require Import V.Proofs.FragArith.
Require Import V.Proofs.ExclDefs V.Proofs.ExclPub1 V.Proofs.ExclPub2 V.Proofs.ExclPub3 V.Proofs.ExclPub7.
From Coq Require Import ZifyBool.
Open Scope Z_scope.

(* K1: the burst HeaderWriter::write makes through the overlay pointer is not empty and stays off the length word *)
Lemma burst_nonempty : (burst_lo <? burst_hi) = true.
Proof. reflexivity. Qed.

Local Opaque burst_lo burst_hi.

Inductive xkind := XKother | XKneg | XKburst | XKcommit.
Definition xkind_of (pc : xpc) : xkind :=
  match pc with
  | XNegLen | XENegLen => XKneg
  | XHdr | XBody | XFlags | XResv | XCBody | XCSet | XCAbort | XEHdr | XEType => XKburst
  | XPosLen | XCPosLen | XEPosLen => XKcommit
  | _ => XKother
  end.

Section E.
  Variable c : cfg.
  Hypothesis W : wf_cfg c.

  Definition xslot (l : xlocal) : Z := if in_pad (x_pc l) then x_toff l else x_foff l.
  Definition cur_ext (l : xlocal) : Z := if in_pad (x_pc l) then TL c - x_toff l else align (flen c (x_rem l)) FA.

  Lemma idx_region gh l : XPInv c gh l -> term_region (x_idx l) = true.
  Proof. intros I. destruct (xp_gen c gh l I) as (g & _ & _ & -> & _). pose proof (Z.mod_pos_bound g 3 ltac:(lia)). unfold term_region. lia. Qed.

  Lemma narrow_other e : accessor_eqb (e_acc e) RegionWrite = false -> narrow e = e.
  Proof. intros H. unfold narrow. rewrite H. reflexivity. Qed.

  Lemma narrow_hdr t p o : term_region p = true ->
    narrow (ev t RegionWrite p o HDR 0 0 0) = mkEv t RegionWrite p (o + burst_lo) (burst_hi - burst_lo) 0 0 0.
  Proof. intros H. unfold narrow, ev. cbn [e_acc e_reg e_len e_off e_tid e_val e_val2 e_before accessor_eqb]. rewrite H, Z.eqb_refl, burst_nonempty. reflexivity. Qed.

  Record burst_ok (l : xlocal) (e : event) : Prop := {
    bo_reg : e_reg e = x_idx l;
    bo_cls : cls (e_acc e) = CPlainW;
    bo_lo : xslot l + 4 <= e_off e;
    bo_hi : e_off e + e_len e <= xslot l + cur_ext l;
    bo_len : 0 <= e_len e
  }.

  Lemma plainw_put : cls Put = CPlainW. Proof. exact (proj1 (proj2 (proj2 (proj2 plain_accessors)))). Qed.
  Lemma plainw_putbytes : cls PutBytes = CPlainW. Proof. exact (proj1 (proj2 (proj2 (proj2 (proj2 plain_accessors))))). Qed.
  Lemma plainw_copy : cls CopyFrom = CPlainW. Proof. exact (proj1 (proj2 (proj2 (proj2 (proj2 (proj2 plain_accessors)))))). Qed.
  Lemma plainw_region : cls RegionWrite = CPlainW. Proof. exact (proj2 (proj2 (proj2 (proj2 (proj2 (proj2 (proj2 plain_accessors))))))). Qed.
  Lemma plainr_get : cls Get = CPlainR. Proof. exact (proj1 plain_accessors). Qed.
  Lemma plainr_region : cls RegionRead = CPlainR. Proof. exact (proj1 (proj2 (proj2 plain_accessors))). Qed.

  Definition xfacts (gh : xghost) (pl pl' : xlocal) (e : event) : Prop :=
    match xkind_of (x_pc pl) with
    | XKother => term_region (e_reg (narrow e)) = false /\ cur c pl = None /\ cur c pl' = None /\ xgstep c pl gh = gh
    | XKneg => narrow e = e /\ e_reg e = x_idx pl /\ e_off e = xslot pl /\ e_len e = 4 /\ e_acc e = PutOrdered /\
               cur c pl = None /\ (exists sl, cur c pl' = Some (xslot pl, sl)) /\ cur_ext pl' = cur_ext pl /\ x_idx pl' = x_idx pl /\
               xslot pl = front pl /\ xgstep c pl gh = gh /\ 32 <= cur_ext pl
    | XKburst => burst_ok pl (narrow e) /\ (exists sl, cur c pl = Some (xslot pl, sl)) /\ (exists sl, cur c pl' = Some (xslot pl, sl)) /\
                 cur_ext pl' = cur_ext pl /\ x_idx pl' = x_idx pl /\ xgstep c pl gh = gh
    | XKcommit => narrow e = e /\ e_reg e = x_idx pl /\ e_off e = xslot pl /\ e_len e = 4 /\ e_acc e = PutOrdered /\
                  (exists sl, cur c pl = Some (xslot pl, sl)) /\ cur c pl' = None /\ xslot pl = front pl /\
                  exists fin, xgstep c pl gh = xg_add gh (x_idx pl) (xslot pl) fin /\ align (s_len fin) FA = cur_ext pl
    end.

  Lemma cur_newpos_fail l : cur c (x_newpos_fail c l) = None.
  Proof. unfold x_newpos_fail. destruct (_ <=? _); [apply cur_finish | reflexivity]. Qed.

  Lemma xstep_event gh s pl t s' pl' e : XPInv c gh pl -> xstep c t s pl = Some (s', pl', e) ->
    e_tid (narrow e) = t /\ xfacts gh pl pl' e.
  Proof. intros I Hstep. pose proof (idx_region gh pl I) as Hreg. pose proof I as [I1 I2 I3 I4 I5 I6 I7 I8 I9 I10 I11 I12].
    destruct (TL_bounds c W) as (TB & TM). pose proof (mp_pos c W) as (Hmp & _).
    pose proof header_burst_skips_length as (Hb1 & Hb2).
    assert (Hrv : GenConsts.DFH_RESERVED_VALUE_FIELD_OFFSET = 24) by reflexivity.
    assert (Hfo : GenConsts.DFH_FLAGS_FIELD_OFFSET = 5) by reflexivity.
    assert (Hty : GenConsts.DFH_TYPE_FIELD_OFFSET = 6) by reflexivity.
    assert (Hlo : GenConsts.DFH_FRAME_LENGTH_FIELD_OFFSET = 0) by reflexivity.
    pose proof burst_nonempty as Hbn.
    assert (Fit : in_frame (x_pc pl) = true -> 0 <= x_rem pl /\ 32 <= align (flen c (x_rem pl)) FA /\ flen c (x_rem pl) <= align (flen c (x_rem pl)) FA /\
                  fbytes c (x_rem pl) + 32 = flen c (x_rem pl) /\ 0 <= fbytes c (x_rem pl)).
    { intros F. destruct (I5 F) as (R & _). destruct (align_flen c W (x_rem pl) ltac:(lia)) as (A1 & A2 & A3).
      pose proof (align_pos (flen c (x_rem pl)) ltac:(lia)) as (A4 & _). rewrite FA_32 in *. unfold flen, fbytes in *. rewrite HDR_32 in *. lia. }
    unfold xfacts, xstep in *.
    destruct (x_pc pl) eqn:Hpc; cbn [xkind_of]; try discriminate Hstep;
      try (inversion Hstep; subst s' pl' e; clear Hstep).
    - (* XLimit *)
      split; [reflexivity|]. split; [reflexivity|]. split; [unfold cur; rewrite Hpc; reflexivity|]. split; [|unfold xgstep; rewrite Hpc; reflexivity].
      repeat match goal with |- context [if ?b then _ else _] => destruct b end; try apply cur_finish; reflexivity.
    - (* XConn *)
      split; [reflexivity|]. split; [reflexivity|]. split; [unfold cur; rewrite Hpc; reflexivity|]. split; [apply cur_finish | unfold xgstep; rewrite Hpc; reflexivity].
    - (* XTail *)
      split; [reflexivity|]. split; [reflexivity|]. split; [unfold cur; rewrite Hpc; reflexivity|]. split; [|unfold xgstep; rewrite Hpc; reflexivity].
      destruct (TL c <? x_resoff pl); [destruct (x_toff pl <? TL c); [reflexivity | apply cur_newpos_fail] | reflexivity].
    - (* XNegLen *)
      specialize (Fit eq_refl). assert (Hc0 : cur c pl = None) by (unfold cur; rewrite Hpc; reflexivity).
      unfold xslot, cur_ext, front, xgstep. rewrite Hpc. cbn.
      repeat (split; try reflexivity; try assumption); try lia. eexists. reflexivity.
    - (* XHdr *)
      specialize (Fit eq_refl). rewrite narrow_hdr by assumption. split; [reflexivity|].
      split; [constructor; unfold xslot, cur_ext; rewrite ?Hpc; cbn; try reflexivity; try apply plainw_region; lia|].
      unfold xslot, cur_ext, xgstep. rewrite Hpc. cbn.
      split; [eexists; unfold cur; rewrite Hpc; reflexivity|].
      destruct (is_claim (x_item pl)); cbn; (split; [eexists; reflexivity|]); repeat split; reflexivity.
    - (* XBody *)
      specialize (Fit eq_refl). rewrite narrow_other by reflexivity. split; [reflexivity|].
      split; [constructor; unfold xslot, cur_ext; rewrite ?Hpc; cbn; try reflexivity; try apply plainw_copy; rewrite ?HDR_32; change (xbytes c pl) with (fbytes c (x_rem pl)); lia|].
      unfold xslot, cur_ext, xgstep. rewrite Hpc. cbn.
      split; [eexists; unfold cur; rewrite Hpc; reflexivity|].
      destruct (is_fragmented c (x_len pl)); cbn; (split; [eexists; reflexivity|]); repeat split; reflexivity.
    - (* XFlags *)
      specialize (Fit eq_refl). rewrite narrow_other by reflexivity. split; [reflexivity|].
      split; [constructor; unfold xslot, cur_ext; rewrite ?Hpc; cbn; try reflexivity; try apply plainw_put; lia|].
      unfold xslot, cur_ext, xgstep. rewrite Hpc. cbn.
      split; [eexists; unfold cur; rewrite Hpc; reflexivity|]. split; [eexists; reflexivity|]. repeat split; reflexivity.
    - (* XResv *)
      specialize (Fit eq_refl). rewrite narrow_other by reflexivity. split; [reflexivity|].
      split; [constructor; unfold xslot, cur_ext; rewrite ?Hpc; cbn; try reflexivity; try apply plainw_put; lia|].
      unfold xslot, cur_ext, xgstep. rewrite Hpc. cbn.
      split; [eexists; unfold cur; rewrite Hpc; reflexivity|]. split; [eexists; reflexivity|]. repeat split; reflexivity.
    - (* XPosLen *)
      specialize (Fit eq_refl). unfold xslot, cur_ext, xgstep, front. rewrite Hpc. cbn.
      repeat (split; try reflexivity). 
      + eexists. unfold cur. rewrite Hpc. reflexivity.
      + unfold after_xcommit. destruct (_ <=? 0); [apply cur_finish | reflexivity].
      + eexists. split; reflexivity.
    - (* XCBody *)
      specialize (Fit eq_refl). rewrite narrow_other by reflexivity. split; [reflexivity|].
      assert (Ecl : is_claim (x_item pl) = true) by (destruct (is_claim (x_item pl)) eqn:E; [reflexivity | specialize (I7 eq_refl); discriminate I7]).
      destruct (I6 Ecl ltac:(congruence)) as (Hcl1 & Hcl2). specialize (Hcl2 eq_refl).
      split; [constructor; unfold xslot, cur_ext; rewrite ?Hpc; cbn; try reflexivity; try apply plainw_putbytes; rewrite ?HDR_32; unfold flen, fbytes in *; rewrite ?HDR_32 in *; lia|].
      unfold xslot, cur_ext, xgstep. rewrite Hpc. cbn.
      split; [eexists; unfold cur; rewrite Hpc; reflexivity|].
      unfold x_claim_next. destruct (item_sets (x_item pl)); [destruct (item_abort (x_item pl))|]; cbn; (split; [eexists; reflexivity|]); repeat split; reflexivity.
    - (* XCSet *)
      specialize (Fit eq_refl). destruct (x_sets pl) as [|x r] eqn:Es; [discriminate|].
      assert (Hnext : forall l0, (exists sl, cur c (x_claim_next pl l0) = Some (x_foff pl, sl)) /\ in_pad (x_pc (x_claim_next pl l0)) = false /\
                                 x_rem (x_claim_next pl l0) = x_rem pl /\ x_idx (x_claim_next pl l0) = x_idx pl).
      { intros l0. unfold x_claim_next. destruct l0; [destruct (item_abort (x_item pl))|]; cbn; (split; [eexists; reflexivity|]); repeat split; reflexivity. }
      destruct x as [v | v | v]; inversion Hstep; subst s' pl' e; clear Hstep; rewrite narrow_other by reflexivity; (split; [reflexivity|]);
        (split; [constructor; unfold xslot, cur_ext; rewrite ?Hpc; cbn; try reflexivity; try apply plainw_put; lia|]);
        destruct (Hnext r) as ((sl & Hs) & N2 & N3 & N4);
        (split; [eexists; unfold cur, xslot; rewrite Hpc; reflexivity|]);
        (split; [exists sl; unfold xslot; rewrite Hpc; exact Hs|]);
        unfold cur_ext, xgstep; rewrite N2, N3, N4, Hpc; cbn; repeat split; reflexivity.
    - (* XCAbort *)
      specialize (Fit eq_refl). rewrite narrow_other by reflexivity. split; [reflexivity|].
      split; [constructor; unfold xslot, cur_ext; rewrite ?Hpc; cbn; try reflexivity; try apply plainw_put; lia|].
      unfold xslot, cur_ext, xgstep. rewrite Hpc. cbn.
      split; [eexists; unfold cur; rewrite Hpc; reflexivity|]. split; [eexists; reflexivity|]. repeat split; reflexivity.
    - (* XCPosLen *)
      specialize (Fit eq_refl).
      assert (Ecl : is_claim (x_item pl) = true) by (destruct (is_claim (x_item pl)) eqn:E; [reflexivity | specialize (I7 eq_refl); discriminate I7]).
      destruct (I6 Ecl ltac:(congruence)) as (Hcl1 & Hcl2). specialize (Hcl2 eq_refl).
      unfold xslot, cur_ext, xgstep, front. rewrite Hpc. cbn.
      repeat (split; try reflexivity).
      + eexists. unfold cur. rewrite Hpc. reflexivity.
      + apply cur_finish.
      + eexists. split; [reflexivity|]. cbn [s_len set_len]. f_equal. unfold flen, fbytes. lia.
    - (* XENegLen *)
      specialize (I11 eq_refl). unfold xslot, cur_ext, front, xgstep. rewrite Hpc. cbn.
      assert (32 <= TL c - x_toff pl).
      { destruct I2 as (_ & T2). assert (Hm : (TL c - x_toff pl) mod 32 = 0) by (rewrite Zminus_mod, TM, T2; reflexivity).
        pose proof (Z.mod_divide (TL c - x_toff pl) 32 ltac:(lia)) as (D & _). destruct (D Hm) as (k & Hk). lia. }
      assert (Hc0 : cur c pl = None) by (unfold cur; rewrite Hpc; reflexivity).
      repeat (split; try reflexivity; try assumption); try lia. eexists. reflexivity.
    - (* XEHdr *)
      specialize (I11 eq_refl). rewrite narrow_hdr by assumption. split; [reflexivity|].
      assert (32 <= TL c - x_toff pl).
      { destruct I2 as (_ & T2). assert (Hm : (TL c - x_toff pl) mod 32 = 0) by (rewrite Zminus_mod, TM, T2; reflexivity).
        pose proof (Z.mod_divide (TL c - x_toff pl) 32 ltac:(lia)) as (D & _). destruct (D Hm) as (k & Hk). lia. }
      split; [constructor; unfold xslot, cur_ext; rewrite ?Hpc; cbn; try reflexivity; try apply plainw_region; lia|].
      unfold xslot, cur_ext, xgstep. rewrite Hpc. cbn.
      split; [eexists; unfold cur; rewrite Hpc; reflexivity|]. split; [eexists; reflexivity|]. repeat split; reflexivity.
    - (* XEType *)
      specialize (I11 eq_refl). rewrite narrow_other by reflexivity. split; [reflexivity|].
      assert (32 <= TL c - x_toff pl).
      { destruct I2 as (_ & T2). assert (Hm : (TL c - x_toff pl) mod 32 = 0) by (rewrite Zminus_mod, TM, T2; reflexivity).
        pose proof (Z.mod_divide (TL c - x_toff pl) 32 ltac:(lia)) as (D & _). destruct (D Hm) as (k & Hk). lia. }
      split; [constructor; unfold xslot, cur_ext; rewrite ?Hpc; cbn; try reflexivity; try apply plainw_put; lia|].
      unfold xslot, cur_ext, xgstep. rewrite Hpc. cbn.
      split; [eexists; unfold cur; rewrite Hpc; reflexivity|]. split; [eexists; reflexivity|]. repeat split; reflexivity.
    - (* XEPosLen *)
      specialize (I11 eq_refl). unfold xslot, cur_ext, xgstep, front. rewrite Hpc. cbn.
      assert (Hal : align (TL c - x_toff pl) FA = TL c - x_toff pl).
      { destruct I2 as (_ & T2). rewrite FA_32. apply align_mult; [lia|]. rewrite Zminus_mod, TM, T2. reflexivity. }
      repeat (split; try reflexivity).
      + eexists. unfold cur. rewrite Hpc. reflexivity.
      + apply cur_newpos_fail.
      + eexists. split; [reflexivity|]. exact Hal.
    - (* XRotTail *)
      split; [reflexivity|]. split; [reflexivity|]. split; [unfold cur; rewrite Hpc; reflexivity|]. split; [reflexivity | unfold xgstep; rewrite Hpc; reflexivity].
    - (* XRotCount *)
      split; [reflexivity|]. split; [reflexivity|]. split; [unfold cur; rewrite Hpc; reflexivity|]. split; [apply cur_finish | unfold xgstep; rewrite Hpc; reflexivity]. Qed.
End E.
