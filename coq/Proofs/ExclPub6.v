(* C03, exclusive publisher: the padding frame at the end of a term and new_position. *)
Require Import V.Base.MachineInt.
Require Import V.Generated.GenConsts.
Require Import V.Model.LogBase.
Require Import V.Model.Descriptor.
Require Import V.Model.Sched.
Require Import V.Model.AppenderThreads.
Require Import V.Model.ReaderThreads.
Require Import V.Model.ExclThreads.
Require Import V.Model.PollThreads.
Require Import V.Model.ClaimThreads.
Require Import V.Proofs.TailArith.
Require Import V.Proofs.FragArith.
Require Import V.Proofs.ExclDefs V.Proofs.ExclPub1 V.Proofs.ExclPub2 V.Proofs.ExclPub3 V.Proofs.ExclPub4 V.Proofs.ExclPub5.
From Coq Require Import ZifyBool.
Open Scope Z_scope.

Section P.
  Variable c : cfg.
  Hypothesis W : wf_cfg c.

  Lemma front_pad l : in_pad (x_pc l) = true -> front l = x_toff l.
  Proof. unfold front. destruct (x_pc l); intros; try discriminate; reflexivity. Qed.

  Lemma xgeom_tid gh l : xgeom c gh (x_tbp l) (x_idx l) (x_tid l) -> tid_of c (pgen c (x_idx l)) = x_tid l.
  Proof. intros (g & G1 & G2 & G3 & G4 & G5). rewrite G3, pgen_mod by assumption. auto. Qed.

  (* the padding frame at the end of a term *)
  Lemma pad_steps s gh l t s' l' e : XPInv c gh l -> memok c s gh (Some l) -> laidinv c gh -> adm_xpub c l ->
    in_pad (x_pc l) = true -> xstep c t s l = Some (s', l', e) ->
    XPInv c (xgstep c l gh) l' /\ memok c s' (xgstep c l gh) (Some l') /\ laidinv c (xgstep c l gh) /\ sh_subpos s' = sh_subpos s.
  Proof. intros I M L A P Hstep. pose proof I as [I1 I2 I3 I4 I5 I6 I7 I8 I9 I10 I11 I12].
    pose proof (front_free c gh l I L) as Hfree. rewrite (front_pad l P) in Hfree.
    assert (Hhi : xg_hi gh (x_idx l) = x_toff l) by (rewrite I3; apply front_pad; assumption).
    specialize (I11 P). destruct (TL_bounds c W) as (TB & TM).
    assert (Hcl : is_claim (x_item l) = true -> x_len l <= max_payload c).
    { intros X. apply I6; [assumption|]. intros E. rewrite E in P. discriminate. }
    unfold xstep, xgstep in *. destruct (x_pc l) eqn:Hpc; try discriminate; inversion Hstep; subst s' l' e; clear Hstep.
    - (* XENegLen *)
      rewrite (mem_fresh c s gh l _ M Hfree) by (unfold cur; rewrite Hpc; reflexivity).
      change (set_len zslot (- (TL c - x_toff l))) with (pd1 c (x_toff l)).
      split; [|split; [|split; [assumption | reflexivity]]].
      + apply pad_like; xn; cbn; try assumption; try reflexivity; try apply I2; try lia.
      + apply (mem_stage c s gh l (xl_pc l XEHdr) (x_toff l) _ M eq_refl Hfree); [left; unfold cur; rewrite Hpc; reflexivity | reflexivity].
    - (* XEHdr *)
      rewrite (mem_cur c s gh l _ (pd1 c (x_toff l)) M Hfree) by (unfold cur; rewrite Hpc; reflexivity).
      change (set_hdr c (pd1 c (x_toff l)) (x_toff l) (x_tid l)) with (pd2 c (x_tid l) (x_toff l)).
      split; [|split; [|split; [assumption | reflexivity]]].
      + apply pad_like; xn; cbn; try assumption; try reflexivity; try apply I2; try lia.
      + apply (mem_stage c s gh l (xl_pc l XEType) (x_toff l) _ M eq_refl Hfree); [right; eexists; unfold cur; rewrite Hpc; reflexivity | reflexivity].
    - (* XEType *)
      rewrite (mem_cur c s gh l _ (pd2 c (x_tid l) (x_toff l)) M Hfree) by (unfold cur; rewrite Hpc; reflexivity).
      change (set_type (pd2 c (x_tid l) (x_toff l)) T_PAD) with (pd3 c (x_tid l) (x_toff l)).
      split; [|split; [|split; [assumption | reflexivity]]].
      + apply pad_like; xn; cbn; try assumption; try reflexivity; try apply I2; try lia.
      + apply (mem_stage c s gh l (xl_pc l XEPosLen) (x_toff l) _ M eq_refl Hfree); [right; eexists; unfold cur; rewrite Hpc; reflexivity | reflexivity].
    - (* XEPosLen: the padding frame is committed; new_position *)
      rewrite (mem_cur c s gh l _ (pd3 c (x_tid l) (x_toff l)) M Hfree) by (unfold cur; rewrite Hpc; reflexivity).
      change (set_len (pd3 c (x_tid l) (x_toff l)) (TL c - x_toff l)) with (pd4 c (x_tid l) (x_toff l)).
      set (gh' := xg_add gh (x_idx l) (x_toff l) (pd4 c (x_tid l) (x_toff l))).
      assert (Hmod : (TL c - x_toff l) mod 32 = 0).
      { destruct I2 as (_ & T2). rewrite Zminus_mod, TM, T2. reflexivity. }
      assert (Hpl : 32 <= TL c - x_toff l).
      { destruct (Z.eq_dec (TL c - x_toff l) 0); [lia|]. pose proof (Z.mod_divide (TL c - x_toff l) 32 ltac:(lia)) as (D & _).
        destruct (D Hmod) as (k & Hk). lia. }
      assert (Hal : align (TL c - x_toff l) FA = TL c - x_toff l) by (rewrite FA_32; apply align_mult; lia).
      assert (Hhi' : xg_hi gh' (x_idx l) = TL c).
      { unfold gh'. cbn [xg_add xg_hi]. rewrite Z.eqb_refl. change (s_len (pd4 c (x_tid l) (x_toff l))) with (TL c - x_toff l). rewrite Hal. lia. }
      assert (G' : xgeom c gh' (x_tbp l) (x_idx l) (x_tid l)) by (apply xgeom_add; assumption).
      split; [|split; [|split; [|reflexivity]]].
      + unfold x_newpos_fail. destruct (max_pos c <=? x_tbp l + TL c) eqn:E3.
        * apply finish_inv; cbn; try assumption; try lia.
        * unfold adm_xpub in A. rewrite Hpc in A. specialize (A ltac:(lia)).
          destruct G' as (g & G1 & G2 & G3 & G4 & G5).
          assert (Hg : g + 1 <= c_n0 c + 2) by nia.
          assert (Hidx : rem_t (x_idx l + 1) PARTITION_COUNT = (g + 1) mod 3).
          { rewrite G3. unfold rem_t, PARTITION_COUNT, GenConsts.PARTITION_COUNT.
            pose proof (Z.mod_pos_bound g 3 ltac:(lia)). rewrite Z.rem_mod_nonneg by lia. rewrite Zplus_mod_idemp_l. reflexivity. }
          assert (G'' : xgeom c gh' (x_tbp l + TL c) (rem_t (x_idx l + 1) PARTITION_COUNT) (wrap32 (x_tid l + 1))).
          { exists (g + 1). split; [lia|]. split; [lia|]. split; [assumption|]. split; [rewrite G4; apply tid_of_succ|].
            intros g' Hg'. apply G5. lia. }
          assert (H0 : xg_hi gh' (rem_t (x_idx l + 1) PARTITION_COUNT) = 0) by (rewrite Hidx; apply G5; lia).
          apply idle_like; xn; cbn; try assumption; try reflexivity; try lia; try (intros; discriminate); try (intros X _; auto).
      + apply (mem_commit c s gh l _ (x_toff l) (pd3 c (x_tid l) (x_toff l)) _ M Hfree); [unfold cur; rewrite Hpc; reflexivity|].
        unfold x_newpos_fail. destruct (_ <=? _); [apply cur_finish | reflexivity].
      + unfold gh'. rewrite <- Hhi. apply laidinv_add; try assumption.
        * change (s_len (pd4 c (x_tid l) (xg_hi gh (x_idx l)))) with (TL c - xg_hi gh (x_idx l)). lia.
        * change (s_len (pd4 c (x_tid l) (xg_hi gh (x_idx l)))) with (TL c - xg_hi gh (x_idx l)). rewrite Hhi, Hal. lia.
        * rewrite (xgeom_tid gh l I1). rewrite Hhi. unfold xwf_slot. cbn. rewrite HDR_32. repeat split; try lia; try reflexivity; apply I2. Qed.
End P.
