(* C03, subscriber with poll flavours: its invariant, positions, stability under commits. *)
Require Import V.Base.MachineInt.
Require Import V.Generated.GenConsts.
Require Import V.Model.LogBase.
Require Import V.Model.Descriptor.
Require Import V.Model.Sched.
Require Import V.Model.AppenderThreads.
Require Import V.Model.ReaderThreads.
Require Import V.Model.ExclThreads.
Require Import V.Model.PollThreads.
Require Import V.Model.ClaimThreads.
Require Import V.Proofs.TailArith.
Require Import V.Proofs.FragArith.
Require Import V.Proofs.ReaderInv.
Require Import V.Proofs.ExclDefs V.Proofs.ExclPub1 V.Proofs.ExclPub2 V.Proofs.ExclPub3 V.Proofs.ExclRd1.
From Coq Require Import ZifyBool.
Open Scope Z_scope.

Section R.
  Variable c : cfg.
  Hypothesis W : wf_cfg c.

  Definition bnd (gh : xghost) (p o : Z) : Prop := isbnd (xbase c p) (xg_fr gh p) o.

  (* the subscriber position is a frame boundary of the committed frames of its generation *)
  Definition sub_ok (gh : xghost) (pos : Z) : Prop :=
    0 <= pos /\ c_n0 c <= pos / TL c <= c_n0 c + 3 /\
    (pos / TL c <= c_n0 c + 2 -> bnd gh ((pos / TL c) mod 3) (pos mod TL c)).

  Definition vin_poll (pc : vpc) : bool := match pc with VPos | VDone => false | _ => true end.
  Definition von_frame (pc : vpc) : bool := match pc with VType | VFlags | VBody | VFlags2 | VBType => true | _ => false end.
  Definition is_block (f : flavour) : bool := match f with FBlock _ => true | _ => false end.

  (* inside a poll: the partition is the one of the generation the position is in; the offsets the flavour works with are frame
     boundaries; the position the flavour will publish is the generation's start plus such an offset *)
  Definition pollf (gh : xghost) (l : vlocal) : Prop :=
    exists g, c_n0 c <= g <= c_n0 c + 2 /\ v_idx l = g mod 3 /\
              bnd gh (v_idx l) (v_toff0 l) /\ bnd gh (v_idx l) (v_off l) /\
              (is_peek (v_flav l) = false -> v_pos l = g * TL c + v_toff0 l) /\
              (is_peek (v_flav l) = true -> v_ppos l = g * TL c + v_toff0 l /\
                                            exists o_r, v_rpos l = g * TL c + o_r /\ bnd gh (v_idx l) o_r) /\
              (is_block (v_flav l) = true -> v_p0 l = v_toff0 l).
  Definition framef (gh : xghost) (l : vlocal) : Prop :=
    exists sl, lookup (v_foff l) (xg_fr gh (v_idx l)) = Some sl /\ s_len sl = v_flen l /\
               bnd gh (v_idx l) (v_foff l) /\
               v_off l = (if match v_pc l with VBType => true | _ => false end then v_foff l else v_foff l + align (v_flen l) FA).

  (* which program counters belong to which flavour *)
  Definition pc_flav (pc : vpc) (f : flavour) : bool :=
    match pc with
    | VVal | VFlags2 | VVal2 | VSetPos => is_peek f
    | VBLen | VBType | VBTid | VBRead | VBSet => is_block f
    | VCommit => is_ctrl f
    | VSet => negb (is_peek f) && negb (is_block f)
    | VLen | VType | VFlags | VBody => negb (is_block f)
    | _ => true
    end.

  Record VInv (gh : xghost) (l : vlocal) : Prop := {
    vi_pf : pc_flav (v_pc l) (v_flav l) = true;
    vi_poll : vin_poll (v_pc l) = true -> pollf gh l;
    vi_frame : von_frame (v_pc l) = true -> framef gh l;
    vi_flags : v_pc l = VBody -> exists sl, lookup (v_foff l) (xg_fr gh (v_idx l)) = Some sl /\ v_flags l = s_flags sl;
    vi_data : v_pc l = VFlags \/ v_pc l = VBody -> exists sl, lookup (v_foff l) (xg_fr gh (v_idx l)) = Some sl /\ s_type sl <> T_PAD
  }.

  Definition adm_rd (s : shared) (l : vlocal) : Prop := v_pc l = VPos -> sh_subpos s / TL c <= c_n0 c + 2.

  (* ---- positions ---- *)
  Lemma xbase_later g : c_n0 c < g <= c_n0 c + 2 -> xbase c (g mod 3) = 0.
  Proof. intros H. unfold xbase. pose proof (mod3_eq_diff g (c_n0 c)). destruct (g mod 3 =? c_n0 c mod 3) eqn:E; [lia | reflexivity]. Qed.

  Lemma sub_ok_bnd gh g o : laidinv c gh -> c_n0 c <= g <= c_n0 c + 2 -> bnd gh (g mod 3) o -> sub_ok gh (g * TL c + o).
  Proof. intros L Hg Hb. destruct (TL_bounds c W) as (TB & _). pose proof (wf_n0 c W) as Hn0. pose proof (wf_off0 c W) as (Ho0 & _).
    destruct (L (g mod 3)) as (L1 & L2 & _). pose proof (isbnd_range c _ _ _ _ L1 Hb) as Hr.
    assert (Hb0 : 0 <= xbase c (g mod 3)) by (unfold xbase; destruct (_ =? _); lia).
    unfold sub_ok. destruct (Z.eq_dec o (TL c)) as [-> | Hne].
    - replace (g * TL c + TL c) with ((g + 1) * TL c) by ring. rewrite Z_div_mult, Z_mod_mult by lia.
      split; [nia|]. split; [lia|]. intros Hg1. unfold bnd. rewrite xbase_later by lia. apply isbnd_start.
    - assert (D : (g * TL c + o) / TL c = g) by (rewrite Z.div_add_l by lia; rewrite Z.div_small by lia; lia).
      assert (Mo : (g * TL c + o) mod TL c = o) by (rewrite Z.add_comm, Z_mod_plus_full; apply Z.mod_small; lia).
      rewrite D, Mo. split; [nia|]. split; [lia|]. intros _. assumption. Qed.

  (* ---- stability under commits ---- *)
  Lemma bnd_add gh p o q x sl : bnd gh p o -> bnd (xg_add gh q x sl) p o.
  Proof. unfold bnd. cbn [xg_add xg_fr]. destruct (p =? q) eqn:E; [|auto]. assert (p = q) as -> by lia. apply isbnd_app. Qed.

  Lemma lookup_add gh p o q x sl s0 : lookup o (xg_fr gh p) = Some s0 -> lookup o (xg_fr (xg_add gh q x sl) p) = Some s0.
  Proof. cbn [xg_add xg_fr]. destruct (p =? q) eqn:E; [|auto]. assert (p = q) as -> by lia. apply lookup_app_some. Qed.

  Lemma VInv_add gh l q x sl : VInv gh l -> VInv (xg_add gh q x sl) l.
  Proof. intros [V1 V3 V4 V5 V6]. constructor; try assumption.
    - intros H. destruct (V3 H) as (g & G1 & G2 & G3 & G4 & G5 & G6 & G7). exists g. split; [assumption|]. split; [assumption|].
      split; [apply bnd_add; assumption|]. split; [apply bnd_add; assumption|]. split; [assumption|]. split; [|assumption].
      intros X. destruct (G6 X) as (Y1 & o_r & Y2 & Y3). split; [assumption|]. exists o_r. split; [assumption | apply bnd_add; assumption].
    - intros H. destruct (V4 H) as (s0 & F1 & F2 & F3 & F4). exists s0. split; [apply lookup_add; assumption|]. split; [assumption|].
      split; [apply bnd_add; assumption | assumption].
    - intros H. destruct (V5 H) as (s0 & F1 & F2). exists s0. split; [apply lookup_add; assumption | assumption].
    - intros H. destruct (V6 H) as (s0 & F1 & F2). exists s0. split; [apply lookup_add; assumption | assumption]. Qed.

  Lemma sub_ok_add gh pos q x sl : sub_ok gh pos -> sub_ok (xg_add gh q x sl) pos.
  Proof. intros (S1 & S2 & S3). split; [assumption|]. split; [assumption|]. intros H. apply bnd_add. auto. Qed.

  Lemma VInv_xgstep gh l pl : VInv gh l -> VInv (xgstep c pl gh) l.
  Proof. intros V. unfold xgstep. destruct (x_pc pl); try assumption; apply VInv_add; assumption. Qed.
  Lemma sub_ok_xgstep gh pos pl : sub_ok gh pos -> sub_ok (xgstep c pl gh) pos.
  Proof. intros V. unfold xgstep. destruct (x_pc pl); try assumption; apply sub_ok_add; assumption. Qed.
End R.
