(* Proofs about Model/Assembler.v: the session-keyed assembler behaves, for every session, like the
   single-session machine run on that session's fragments alone; the machine reassembles fragmented messages
   and delivers nothing before the first BEGIN. *)
Require Import V.Base.MachineInt.
Require Import V.Generated.GenConsts.
Require Import V.Model.LogBase.
Require Import V.Model.Assembler.
From Coq Require Import ZifyBool.
Open Scope Z_scope.

Lemma bget_bset_same bs s v : bget (bset bs s v) s = Some v.
Proof. induction bs as [|[k w] r IH]; cbn [bset bget].
  - rewrite Z.eqb_refl. reflexivity.
  - destruct (k =? s) eqn:E; cbn [bget]; rewrite E; [reflexivity|exact IH]. Qed.

Lemma bget_bset_other bs s t v : s <> t -> bget (bset bs s v) t = bget bs t.
Proof. intros Hne. induction bs as [|[k w] r IH]; cbn [bset bget].
  - destruct (s =? t) eqn:E; [lia|reflexivity].
  - destruct (k =? s) eqn:E; cbn [bget].
    + destruct (k =? t) eqn:E2; [lia|reflexivity].
    + destruct (k =? t); [reflexivity|exact IH]. Qed.

(* the fragments of session s, as the single-session machine reads them *)
Definition proj (s : Z) (xs : list frag) : list (Z * list Z) :=
  map (fun x => (fr_flags x, fr_payload x)) (filter (fun x => fr_session x =? s) xs).
Definition of_session (s : Z) (out : list msg) : list msg := filter (fun d => fst d =? s) out.

Lemma on_fragment_same bs x :
  let s := fr_session x in
  let '(bs', out) := on_fragment bs x in
  let '(st', o) := step1 (bget bs s) (fr_flags x) (fr_payload x) in
  bget bs' s = st' /\ out = map (pair s) o.
Proof. cbv zeta. unfold on_fragment, step1.
  destruct (has_flags (fr_flags x) F_UNFRAG); [split; reflexivity|].
  destruct (has_flags (fr_flags x) F_BEGIN); [split; [apply bget_bset_same|reflexivity]|].
  destruct (bget bs (fr_session x)) as [acc|] eqn:E; [|split; [assumption|reflexivity]].
  assert (Hl : (HDR + Z.of_nat (length acc) =? HDR) = (length acc =? 0)%nat).
  { destruct (length acc =? 0)%nat eqn:E1; [apply Nat.eqb_eq in E1|apply Nat.eqb_neq in E1]; lia. }
  rewrite Hl. destruct (length acc =? 0)%nat; [split; [assumption|reflexivity]|].
  destruct (has_flags (fr_flags x) F_END); split; try apply bget_bset_same; reflexivity. Qed.

Lemma on_fragment_other bs x t : fr_session x <> t ->
  bget (fst (on_fragment bs x)) t = bget bs t /\ of_session t (snd (on_fragment bs x)) = [].
Proof. intros Hne. unfold on_fragment, of_session.
  assert (Hf : (fr_session x =? t) = false) by lia.
  destruct (has_flags (fr_flags x) F_UNFRAG); [cbn [fst snd filter]; rewrite Hf; auto|].
  destruct (has_flags (fr_flags x) F_BEGIN); [cbn [fst snd filter]; split; [apply bget_bset_other; assumption|reflexivity]|].
  destruct (bget bs (fr_session x)) as [acc|]; [|cbn; auto].
  destruct (HDR + Z.of_nat (length acc) =? HDR); [cbn; auto|].
  destruct (has_flags (fr_flags x) F_END); cbn [fst snd filter]; try rewrite Hf;
    (split; [apply bget_bset_other; assumption|reflexivity]). Qed.

Lemma of_session_app t a b : of_session t (a ++ b) = of_session t a ++ of_session t b.
Proof. apply filter_app. Qed.

Lemma of_session_map_same s o : of_session s (map (pair s) o) = map (pair s) o.
Proof. induction o; cbn [map of_session filter fst]; [reflexivity|]. rewrite Z.eqb_refl. f_equal. exact IHo. Qed.

(* C20_sessions (independence): what the delegate receives for session s is what the single-session machine
   delivers on the fragments of s alone, whatever the other sessions do and however they are interleaved *)
Theorem assemble_session s : forall xs bs,
  of_session s (snd (assemble bs xs)) = map (pair s) (snd (run1 (bget bs s) (proj s xs))) /\
  bget (fst (assemble bs xs)) s = fst (run1 (bget bs s) (proj s xs)).
Proof. induction xs as [|x r IH]; intros bs; [split; reflexivity|]. cbn [assemble].
  destruct (on_fragment bs x) as [bs1 out1] eqn:E1. specialize (IH bs1).
  destruct (assemble bs1 r) as [bs2 out2]. cbn [fst snd] in *.
  unfold proj. cbn [filter]. destruct (fr_session x =? s) eqn:Es.
  - assert (Hs : fr_session x = s) by lia. pose proof (on_fragment_same bs x) as Hsame. cbv zeta in Hsame.
    rewrite E1, Hs in Hsame. cbn [map run1].
    destruct (step1 (bget bs s) (fr_flags x) (fr_payload x)) as [st' o]. destruct Hsame as [Hb Ho].
    fold (proj s r). rewrite <- Hb. destruct (run1 (bget bs1 s) (proj s r)) as [st2 o2]. cbn [fst snd] in *.
    destruct IH as [IH1 IH2]. split; [|assumption].
    rewrite of_session_app, IH1, Ho, of_session_map_same, map_app. reflexivity.
  - assert (Hs : fr_session x <> s) by lia. pose proof (on_fragment_other bs x s Hs) as [Hb Ho].
    rewrite E1 in Hb, Ho. cbn [fst snd] in Hb, Ho. fold (proj s r). rewrite <- Hb.
    destruct IH as [IH1 IH2]. split; [|assumption]. rewrite of_session_app, Ho, IH1. reflexivity. Qed.

Corollary sessions_independent s xs ys bs :
  proj s xs = proj s ys -> of_session s (snd (assemble bs xs)) = of_session s (snd (assemble bs ys)).
Proof. intros H. rewrite (proj1 (assemble_session s xs bs)), (proj1 (assemble_session s ys bs)), H. reflexivity. Qed.

(* ---- the single-session machine ---- *)
Lemma run1_app st a b :
  run1 st (a ++ b) = let '(st1, o1) := run1 st a in let '(st2, o2) := run1 st1 b in (st2, o1 ++ o2).
Proof. revert st. induction a as [|[fl p] r IH]; intros st; cbn [app run1].
  - destruct (run1 st b). reflexivity.
  - destruct (step1 st fl p) as [st1 o1]. rewrite IH. destruct (run1 st1 r) as [st2 o2].
    destruct (run1 st2 b) as [st3 o3]. rewrite app_assoc. reflexivity. Qed.

Lemma flags_const :
  has_flags F_UNFRAG F_UNFRAG = true /\ has_flags F_BEGIN F_UNFRAG = false /\ has_flags F_BEGIN F_BEGIN = true /\
  has_flags 0 F_UNFRAG = false /\ has_flags 0 F_BEGIN = false /\ has_flags 0 F_END = false /\
  has_flags F_END F_UNFRAG = false /\ has_flags F_END F_BEGIN = false /\ has_flags F_END F_END = true.
Proof. repeat split; reflexivity. Qed.

Lemma len0_false (acc : list Z) : acc <> [] -> (length acc =? 0)%nat = false.
Proof. destruct acc; [contradiction|reflexivity]. Qed.

Lemma step1_middle acc c : acc <> [] -> step1 (Some acc) 0 c = (Some (acc ++ c), []).
Proof. intros H. unfold step1. change (has_flags 0 F_UNFRAG) with false. change (has_flags 0 F_BEGIN) with false.
  change (has_flags 0 F_END) with false. rewrite (len0_false _ H). reflexivity. Qed.
Lemma step1_end acc c : acc <> [] -> step1 (Some acc) F_END c = (Some [], [acc ++ c]).
Proof. intros H. unfold step1. change (has_flags F_END F_UNFRAG) with false. change (has_flags F_END F_BEGIN) with false.
  change (has_flags F_END F_END) with true. rewrite (len0_false _ H). reflexivity. Qed.
Lemma step1_begin st c : step1 st F_BEGIN c = (Some c, []).
Proof. reflexivity. Qed.
Lemma step1_unfrag st c : step1 st F_UNFRAG c = (st, [c]).
Proof. reflexivity. Qed.

(* MIDDLE* END after a non-empty BEGIN *)
Lemma run1_middle_end : forall r acc, r <> [] -> acc <> [] ->
  run1 (Some acc) (middle_end r) = (Some [], [acc ++ concat r]).
Proof. induction r as [|c r IH]; intros acc Hr Hacc; [contradiction|].
  destruct r as [|c2 r2].
  - cbn [middle_end run1]. rewrite step1_end by assumption. cbn [concat app]. rewrite app_nil_r. reflexivity.
  - change (middle_end (c :: c2 :: r2)) with ((0, c) :: middle_end (c2 :: r2)). cbn [run1].
    rewrite step1_middle by assumption.
    rewrite IH; [|discriminate|destruct acc; [contradiction|discriminate]].
    cbn [concat app]. rewrite <- !app_assoc. reflexivity. Qed.

(* chunks as a publisher produces them: at least one, and the first one non-empty when there are several *)
Definition chunks_ok (chunks : list (list Z)) : Prop :=
  chunks <> [] /\ ((2 <= length chunks)%nat -> hd [] chunks <> []).

Lemma run1_fragments_of st chunks : chunks_ok chunks ->
  exists st', run1 st (fragments_of chunks) = (st', [concat chunks]).
Proof. intros [Hne Hfirst]. destruct chunks as [|c r]; [contradiction|]. destruct r as [|c2 r2].
  - exists st. cbn [fragments_of run1]. rewrite step1_unfrag. cbn [concat app]. rewrite app_nil_r. reflexivity.
  - exists (Some []). change (fragments_of (c :: c2 :: r2)) with ((F_BEGIN, c) :: middle_end (c2 :: r2)).
    cbn [run1]. rewrite step1_begin.
    rewrite run1_middle_end; [reflexivity|discriminate|]. apply Hfirst. cbn. lia. Qed.

(* every message of a well-formed fragment stream is delivered intact, once, in order - from any state *)
Theorem run1_messages : forall msgs st, Forall chunks_ok msgs ->
  snd (run1 st (concat (map fragments_of msgs))) = map (@concat Z) msgs.
Proof. induction msgs as [|m r IH]; intros st H; [reflexivity|]. inversion H; subst.
  cbn [map concat]. rewrite run1_app. destruct (run1_fragments_of st m H2) as [st' E]. rewrite E.
  specialize (IH st' H3). destruct (run1 st' (concat (map fragments_of r))) as [st2 o2]. cbn [snd] in *. rewrite IH. reflexivity. Qed.

Lemma unfrag_has_begin fl : has_flags fl F_UNFRAG = true -> has_flags fl F_BEGIN = true.
Proof. unfold has_flags. intros H. apply Z.eqb_eq in H. apply Z.eqb_eq.
  change F_BEGIN with (Z.land F_UNFRAG F_BEGIN) at 1. rewrite Z.land_assoc, H. reflexivity. Qed.

(* C20_midjoin: joined in the middle of a message, nothing is delivered for the session until its next
   BEGIN (or unfragmented) frame, and the machine is still in its initial state *)
Theorem run1_midjoin : forall mid, Forall (fun x => has_flags (fst x) F_BEGIN = false) mid -> run1 None mid = (None, []).
Proof. induction 1 as [|[fl p] r Hx Hr IH]; [reflexivity|]. cbn [fst] in Hx. cbn [run1]. unfold step1.
  destruct (has_flags fl F_UNFRAG) eqn:E; [apply unfrag_has_begin in E; congruence|]. rewrite Hx, IH. reflexivity. Qed.

Corollary run1_midjoin_then_messages mid msgs :
  Forall (fun x => has_flags (fst x) F_BEGIN = false) mid -> Forall chunks_ok msgs ->
  snd (run1 None (mid ++ concat (map fragments_of msgs))) = map (@concat Z) msgs.
Proof. intros Hm Hc. rewrite run1_app, (run1_midjoin mid Hm).
  pose proof (run1_messages msgs None Hc). destruct (run1 None (concat (map fragments_of msgs))). assumption. Qed.
