(* C07_stuck, "for ever": a ring in which every claim from the consumer position up to the end of the data area
   was never written and belongs to dead producers (in particular: a producer that died right after the
   compare-and-set of a claim that wrapped, before its padding header) stays that way under every step of every
   other thread - survivors writing, the consumer-side agent reading and calling unblock() - and every read
   of the agent hands out nothing while every unblock() answers false.  Nothing in the data area is ever damaged;
   the consumer just never gets past the dead claim. *)
Require Import V.Base.MachineInt.
Require Import V.Generated.GenConsts.
Require Import V.Model.LogBase.
Require Import V.Model.Ring.
Require Import V.Model.RingThreads.
Require Import V.Model.RingAgent.
Require Import V.Spec.Fifo.
Require Import V.Proofs.RingArith.
Require Import V.Proofs.RingSeq.
Require Import V.Proofs.RingRender.
Require Import V.Proofs.RingSeqRun.
Require Import V.Proofs.RingConc.
Require Import V.Proofs.RingConcThm.
Require Import V.Proofs.RingUnblock.
Require Import V.Proofs.RingSweep.
Require Import V.Proofs.RingQuiet.
Require Import V.Proofs.RingAgentInv.
From Coq Require Import ZifyBool Lia.
Open Scope Z_scope.

Section Forever.
Variable lo : Z.
Variable dead : nat -> Prop.

Definition stuck_ring (R : ring) : Prop :=
  r_head R + (r_cap R - r_head R mod r_cap R) <= r_tail R /\
  forall s, In s (r_slots R) -> idx R (r_head R) (s_pos s) < r_cap R -> owner_dead dead s /\ blank s.

Definition calm (R : ring) (md : amode) : Prop :=
  match md with
  | AReading cs => exists l, cs = mkC CReadHead [l] O [] \/ cs = mkC (CReadHdr (r_head R) 0 0 []) [l] O []
  | AUnblocking (UBack _ _ _) | AUnblocking (UPut _ _) => False
  | _ => True
  end.

Definition quiet_res (r : ares) : Prop := r = AUnb false \/ r = ARead 0 [].

Lemma calm_at R ops k res : calm R (a_mode (a_at ops k res)).
Proof. unfold a_at, calm. cbn [a_mode]. destruct (nth_error ops k) as [[l |] |]; try exact I.
  exists l. left. reflexivity. Qed.

(* the word unblock's forward scan reads in a stuck ring is zero *)
Lemma stuck_word R prods i : Inv lo (qcfg R prods) -> stuck_ring R ->
  r_head R mod r_cap R + 8 <= i <= r_cap R -> word_at (render R) i = 0.
Proof. intros HI (Ht & Hs) Hi. destruct (Z.eq_dec (word_at (render R) i) 0) as [E | N]; [exact E | exfalso].
  destruct (word_nonzero lo R prods HI i Hi N) as (Hicp & s & Hin & Hr & _).
  destruct (Hs s Hin ltac:(lia)) as (_ & B).
  apply N. apply (word_blank_in lo R prods HI s i Hin B ltac:(lia) Hr). Qed.

Lemma stuck_head R prods : Inv lo (qcfg R prods) -> stuck_ring R ->
  r_head R < r_tail R /\ exists s1 rest, r_slots R = s1 :: rest /\ s_pos s1 = r_head R /\ blank s1.
Proof. intros HI (Ht & Hs). pose proof (st_ci lo R prods HI) as (Hci & _).
  assert (Hlt : r_head R < r_tail R) by lia. split; [exact Hlt |].
  destruct (head_slot lo R prods HI Hlt) as (s1 & rest & Es & Ep). exists s1, rest. split; [exact Es |]. split; [exact Ep |].
  apply (Hs s1); [rewrite Es; left; reflexivity | unfold idx; lia]. Qed.

Theorem stuck_step m x tid x' e :
  XInv lo dead x -> stuck_ring (ag_ring x) -> calm (ag_ring x) (a_mode (ag_agent x)) ->
  xstep m x tid = Some (x', e) -> (forall i, tid = S i -> ~ dead i) -> in_xwindow x' ->
  XInv lo dead x' /\ stuck_ring (ag_ring x') /\ calm (ag_ring x') (a_mode (ag_agent x')) /\
  r_head (ag_ring x') = r_head (ag_ring x) /\
  exists extra, a_res (ag_agent x') = a_res (ag_agent x) ++ extra /\ Forall quiet_res extra.
Proof.
  intros HX Hst Hcalm Hs Hlive Hw.
  assert (NOPUT : forall h L, a_mode (ag_agent x) = AUnblocking (UPut h L) -> tid = O -> put_safe dead (ag_ring x) h L).
  { intros h L Em _. rewrite Em in Hcalm. contradiction. }
  destruct (xstep_inv lo dead m x tid x' e HX Hs Hlive Hw NOPUT) as [HX' | (h & L & _ & _ & _ & Em & _)];
    [| rewrite Em in Hcalm; contradiction].
  split; [exact HX' |].
  destruct HX as (HI & HA). unfold xstep in Hs. destruct tid as [| i].
  - (* the agent: the ring does not change *)
    destruct x as [R a prods]. cbn [ag_ring ag_agent ag_prods] in *. unfold astep in Hs. unfold cfg_of, cs_of in HI. cbn [ag_ring ag_agent ag_prods] in HI.
    unfold agent_ok in HA. cbn [ag_agent] in HA.
    pose proof (i_cap _ _ HI) as Hc. cbn [g_ring] in Hc. pose proof (cap_ok_range _ Hc) as Hcr.
    destruct (a_mode a) as [| | cs | u] eqn:Em; try discriminate.
    + (* reading: the head slot is blank, nothing is consumed *)
      destruct (stuck_head R prods ltac:(apply (inv_switch lo R prods cs); [exact HI | | left; reflexivity]; destruct Hcalm as (l & [-> | ->]); reflexivity) Hst)
        as (Hlt & s1 & rest & Es & Ep1 & (B1 & _)).
      pose proof (mod_range (r_cap R) (r_head R) Hc) as Hci.
      destruct Hcalm as (l & [-> | ->]).
      * (* first access: the head position *)
        cbn [cstep c_pc c_limits c_k nth_error] in Hs. unfold loop_check in Hs. rewrite mask_idx_mod in Hs by exact Hc.
        unfold sub32 in Hs. rewrite chk32_ok in Hs by (apply in_i32_small; unfold two31, two30 in *; lia).
        destruct ((0 <? r_cap R - r_head R mod r_cap R) && (0 <? l)).
        -- cbn [cset_pc c_pc] in Hs. inversion Hs; subst x' e. cbn [ag_ring ag_agent a_set a_mode a_res].
           split; [exact Hst |]. split; [exists l; right; reflexivity |]. split; [reflexivity |]. exists []. rewrite app_nil_r. split; [reflexivity | constructor].
        -- unfold loop_exit in Hs. cbn [Z.eqb finish_read c_limits c_k nth_error c_pc c_res] in Hs. inversion Hs; subst x' e.
           cbn [ag_ring ag_agent]. split; [exact Hst |]. split; [apply calm_at |]. split; [reflexivity |].
           unfold a_at. cbn [a_res app map fst snd]. exists [ARead 0 []]. split; [reflexivity |]. constructor; [right; reflexivity | constructor].
      * (* the header at the consumer position: zero *)
        cbn [cstep c_pc c_limits c_k nth_error] in Hs. rewrite Z.add_0_r in Hs.
        assert (PW : pos_word (r_slots R) (r_head R) = 0).
        { rewrite Es. rewrite <- Ep1. rewrite <- B1. apply (pos_word_len [] s1 rest); [constructor |].
          pose proof (i_tiled _ _ HI) as T. cbn [g_ring] in T. rewrite Es in T. inversion T as [| h0 t0 s0 sl0 Hp0 G0 T0]; subst. destruct G0 as (_ & _ & ? & _). lia. }
        rewrite PW in Hs. cbn [Z.leb Z.compare] in Hs. unfold loop_exit in Hs. cbn [Z.eqb finish_read c_limits c_k nth_error c_pc c_res] in Hs.
        inversion Hs; subst x' e. cbn [ag_ring ag_agent]. split; [exact Hst |]. split; [apply calm_at |]. split; [reflexivity |].
        unfold a_at. cbn [a_res app map fst snd]. exists [ARead 0 []]. split; [reflexivity |]. constructor; [right; reflexivity | constructor].
    + (* unblock: every word it looks at is zero *)
      destruct (stuck_head R prods HI Hst) as (Hlt & s1 & rest & Es & Ep1 & (B1 & B2 & B3)).
      pose proof (st_ci lo R prods HI) as (Hci & Hci8).
      assert (Hs1 : In s1 (r_slots R)) by (rewrite Es; left; reflexivity).
      assert (W1 : word_at (render R) (r_head R mod r_cap R) = 0).
      { pose proof (word_start lo R prods HI s1 Hs1 ltac:(unfold idx; lia)) as W. unfold idx in W. rewrite Ep1 in W.
        replace (r_head R mod r_cap R + (r_head R - r_head R)) with (r_head R mod r_cap R) in W by lia. rewrite W. exact B1. }
      destruct u as [| h | h tl | h limit j | h hit j | h L]; try contradiction; cbn [ustep] in Hs; cbn zeta in Hs.
      * inversion Hs as [[Ex' Ee]]. subst x'. cbn [ag_ring ag_agent a_set a_mode a_res]. split; [exact Hst |]. split; [exact I |]. split; [reflexivity |].
        exists []. rewrite app_nil_r. split; [reflexivity | constructor].
      * cbn [unb_ok ag_ring] in HA. subst h. replace (r_tail R =? r_head R) with false in Hs by lia.
        inversion Hs as [[Ex' Ee]]. subst x'. cbn [ag_ring ag_agent a_set a_mode a_res]. split; [exact Hst |]. split; [exact I |]. split; [reflexivity |].
        exists []. rewrite app_nil_r. split; [reflexivity | constructor].
      * cbn [unb_ok ag_ring] in HA. destruct HA as (-> & _). rewrite !mask_idx_mod in Hs by exact Hc. rewrite W1 in Hs. cbn [Z.ltb Z.eqb Z.compare] in Hs.
        inversion Hs as [[Ex' Ee]]. subst x'. cbn [ag_ring ag_agent a_set a_mode a_res]. split; [exact Hst |]. split; [exact I |]. split; [reflexivity |].
        exists []. rewrite app_nil_r. split; [reflexivity | constructor].
      * cbn [unb_ok ag_ring] in HA. destruct HA as (-> & _ & Hj0 & _ & Hlim & Hjl & _).
        assert (Hj : r_head R mod r_cap R + 8 <= j <= r_cap R).
        { split; [exact Hj0 |]. destruct Hjl as [? | ->]; [lia |].
          pose proof (cap_ok_mod8 _ Hc). pose proof (Z.div_mod (r_cap R) 8 ltac:(lia)). pose proof (Z.div_mod (r_head R mod r_cap R) 8 ltac:(lia)). lia. }
        rewrite (stuck_word R prods j HI Hst Hj) in Hs. cbn [Z.eqb] in Hs.
        destruct (j + AL >=? limit); inversion Hs as [[Ex' Ee]]; (subst x'); cbn [ag_ring ag_agent a_set a_mode a_res].
        -- split; [exact Hst |]. split; [apply calm_at |]. split; [reflexivity |]. unfold a_at. cbn [a_res].
           exists [AUnb false]. split; [reflexivity |]. constructor; [left; reflexivity | constructor].
        -- split; [exact Hst |]. split; [exact I |]. split; [reflexivity |]. exists []. rewrite app_nil_r. split; [reflexivity | constructor].
  - (* a live producer: the blank claims of the dead are not touched, new claims lie behind the tail *)
    destruct (nth_error (ag_prods x) i) as [ps |] eqn:Ei; [| discriminate].
    destruct (pstep m (ag_ring x) (Z.of_nat (S i)) ps) as [[R1 ps1] [ev1 |]] eqn:Ep; [| discriminate].
    inversion Hs; subst x' e. cbn [ag_ring ag_agent].
    destruct (pstep_frame lo dead m (cfg_of x) i ps R1 ps1 ev1 HI Ei (Hlive i eq_refl) Ep) as (Ec & Eh & Et & Hb & Hf).
    pose proof (pstep_origin lo m (cfg_of x) i ps R1 ps1 ev1 HI Ei Ep) as Hor.
    cbn [cfg_of g_ring] in Ec, Eh, Et, Hb, Hf, Hor.
    destruct Hst as (Ht & Hss).
    pose proof (i_cap _ _ HI) as Hc. cbn [cfg_of g_ring] in Hc. pose proof (mod_range (r_cap (ag_ring x)) (r_head (ag_ring x)) Hc) as Hci.
    split; [| split; [| split; [exact Eh | exists []; rewrite app_nil_r; split; [reflexivity | constructor]]]].
    + split; [rewrite Ec, Eh; lia |]. intros s' Hs' Hidx. unfold idx in Hidx. rewrite Ec, Eh in Hidx.
      destruct (Hor s' Hs') as [(s & Hsin & Eps & Eos) | Hge]; [| lia].
      destruct (Hss s Hsin ltac:(unfold idx; rewrite Eps; exact Hidx)) as (Ds & _).
      assert (Ds' : owner_dead dead s') by (destruct Ds as (j & Ej & Dj); exists j; split; [congruence | exact Dj]).
      split; [exact Ds' |]. apply (Hss s' (Hb s' Hs' Ds')). unfold idx. exact Hidx.
    + unfold calm in *. rewrite Eh. exact Hcalm.
Qed.
End Forever.
