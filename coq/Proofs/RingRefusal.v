(* C06, interleavings: "a write is refused for lack of space only when ..." as a theorem about one
   granted step of a producer in any reachable configuration.

   A refusal happens at exactly two accesses: the re-read of the head position after the first capacity
   check failed on the cached head (PReadHead1), and the re-read after the wrap check failed on the head the
   thread holds (PReadHead2).  In both cases the refusal is decided on the head value `hd` the caller has just
   read (which *is* the head position at that moment) and the tail value `tl` it read at the start of the loop
   iteration (which is at most the tail position now):
     first check:  (tl - hd) + record > capacity, hence also (tail - head) + record > capacity *now*;
     wrap check:   the record does not fit behind tl, and record > hd mod capacity (the front is too small).
   When nobody moved the tail since the caller read it (tail = tl), both mean
     (tail - head) + record + wrap padding > capacity          (`no_room`, the specification's only reason).
   When the caller was overtaken between its two reads (tail > tl) the wrap check compares a stale tail with a
   fresh head and may refuse although the ring has room - `spurious_refusal` below is a reachable example
   (the write is refused on a completely empty ring); the code shares this with Agrona's ManyToOneRingBuffer. *)
Require Import V.Base.MachineInt.
Require Import V.Generated.GenConsts.
Require Import V.Model.LogBase.
Require Import V.Model.Ring.
Require Import V.Model.RingThreads.
Require Import V.Spec.Fifo.
Require Import V.Proofs.RingArith.
Require Import V.Proofs.RingSeq.
Require Import V.Proofs.RingRender.
Require Import V.Proofs.RingSeqRun.
Require Import V.Proofs.RingConc.
Require Import V.Proofs.RingConcThm.
From Coq Require Import ZifyBool Lia.
Open Scope Z_scope.

Definition refused_now (ps ps' : pstate) : Prop :=
  exists errs, p_res ps' = p_res ps ++ Err InsufficientCapacity :: errs.

Lemma app_self_cons {A} (l : list A) x r : l = l ++ x :: r -> False.
Proof. intros E. apply (f_equal (@length A)) in E. rewrite app_length in E. cbn [length] in E. lia. Qed.

Lemma not_refused_same ps ps' : p_res ps' = p_res ps -> ~ refused_now ps ps'.
Proof. intros E (errs & H). rewrite E in H. exact (app_self_cons _ _ _ H). Qed.

Lemma after_check1_res m cp rq hd tl ps : p_res (after_check1 m cp rq hd tl ps) = p_res ps.
Proof. unfold after_check1. destruct (wrap_needed m cp rq tl) as [[e |] | | | |]; try reflexivity.
  destruct (lacks_front cp rq hd); reflexivity. Qed.

Lemma finish_res cp ps r : Forall wreq_ok (p_prog ps) -> exists errs, p_res (finish cp ps r) = p_res ps ++ r :: errs.
Proof. intros Hok. destruct (finish_spec cp ps r Hok) as (_ & _ & _ & errs & D & _). exists errs. exact D. Qed.

Lemma rq_rec_bytes body : rq_of body = rec_bytes (Z.of_nat (length body)).
Proof. reflexivity. Qed.

Theorem conc_refusal lo m cfg i ps R' ps' e :
  Inv lo cfg -> nth_error (g_prods cfg) i = Some ps ->
  pstep m (g_ring cfg) (Z.of_nat (S i)) ps = (R', ps', Some e) ->
  refused_now ps ps' ->
  let R := g_ring cfg in
  let cp := r_cap R in
  exists typ body tl,
    at_write cp ps typ body /\ R' = R /\
    e = ev (Z.of_nat (S i)) GetVolatile (cp + HEAD_OFF) 8 0 0 (r_head R) /\
    lo <= tl <= r_tail R /\
    let n := Z.of_nat (length body) in
    ((p_pc ps = PReadHead1 tl /\ (tl - r_head R) + rec_bytes n > cp /\ (r_tail R - r_head R) + rec_bytes n > cp) \/
     (p_pc ps = PReadHead2 tl /\ rec_bytes n > cp - tl mod cp /\ rec_bytes n > r_head R mod cp)) /\
    (r_tail R = tl -> no_room cp (r_head R) (r_tail R) n = true).
Proof.
  intros HI Hi Hstep Href. cbn zeta. destruct cfg as [R cs prods]. cbn [g_ring g_cons g_prods] in *.
  pose proof HI as [Icap Ilo Ihc Ih8 It8 Ihh Itl Isz Iwin Isl Ipr Ics]. cbn [g_ring g_cons g_prods] in *.
  destruct (Ipr i ps Hi) as (Pc & Pw & Pex).
  pose proof (cap_ok_range _ Icap) as Hcr.
  pose proof (tiled_le _ _ _ _ Itl) as Hle.
  assert (HT : r_head R <= r_tail R) by lia.
  unfold pstep in Hstep. unfold pc_ok in Pc.
  destruct (p_pc ps) eqn:Epc; try (inversion Hstep; fail); try contradiction;
    destruct Pc as (typ & body & Aw & Pc); cbn zeta in Pc;
    rewrite (cur_at_write m _ _ _ _ Icap Aw) in Hstep;
    pose proof (rq_of_bounds body) as (Rq8 & Rqb & Rqm).
  - (* PReadHC *) inversion Hstep; subst. exfalso. apply (not_refused_same ps _ eq_refl Href).
  - (* PReadTail *)
    exfalso. destruct (lacks m (r_cap R) (rq_of body) (r_tail R) hd) as [[|] | | | |]; inversion Hstep; subst;
      try (apply (not_refused_same ps _ eq_refl Href)).
    apply (not_refused_same ps _ (after_check1_res _ _ _ _ _ _) Href).
  - (* PReadHead1 *)
    destruct Pc as (Pt & Pt8).
    rewrite (lacks_ok m (r_cap R) (rq_of body) tl (r_head R)) in Hstep by (unfold two62, two30 in *; lia).
    destruct (rq_of body >? r_cap R - (tl - r_head R)) eqn:L.
    + inversion Hstep; subst R' ps' e. exists typ, body, tl. rewrite <- rq_rec_bytes.
      split; [assumption |]. split; [reflexivity |]. split; [reflexivity |]. split; [lia |].
      split; [left; split; [reflexivity | lia] |].
      intros Et. unfold no_room. rewrite <- rq_rec_bytes, <- pad_of_wrap_pad, <- rq_rec_bytes.
      pose proof (mod_range (r_cap R) (r_tail R) Icap). unfold pad_of. destruct (rq_of body >? r_cap R - r_tail R mod r_cap R); lia.
    + exfalso. inversion Hstep; subst. apply (not_refused_same ps _ eq_refl Href).
  - (* PWriteHC1 *) exfalso. inversion Hstep; subst. apply (not_refused_same ps _ (after_check1_res _ _ _ _ _ _) Href).
  - (* PReadHead2 *)
    destruct Pc as (Pt & Pt8 & Pw2 & hd0 & Ph0 & Pf0).
    rewrite lacks_front_ok in Hstep by assumption.
    destruct (rq_of body >? r_head R mod r_cap R) eqn:Fr.
    + inversion Hstep; subst R' ps' e. exists typ, body, tl. rewrite <- rq_rec_bytes.
      split; [assumption |]. split; [reflexivity |]. split; [reflexivity |]. split; [lia |].
      split; [right; split; [reflexivity | lia] |].
      intros Et. unfold no_room. rewrite <- rq_rec_bytes, <- pad_of_wrap_pad, <- rq_rec_bytes.
      unfold pad_of. rewrite Et. replace (rq_of body >? r_cap R - tl mod r_cap R) with true by lia.
      pose proof (mod_range (r_cap R) tl Icap) as Htm.
      (* the head the check passed with is in the tail's lap, so is the head now *)
      assert (F0 : tl + rq_of body <= hd0 + r_cap R).
      { destruct (Z_le_dec hd0 tl) as [Y | N]; [specialize (Pf0 Y); lia | lia]. }
      assert (FI : r_head R mod r_cap R = r_head R - (tl - tl mod r_cap R)) by (apply front_index; lia).
      lia.
    + exfalso. inversion Hstep; subst. apply (not_refused_same ps _ eq_refl Href).
  - (* PWriteHC2 *)
    exfalso. destruct (wrap_needed m (r_cap R) (rq_of body) tl) as [[pd |] | | | |]; inversion Hstep; subst;
      apply (not_refused_same ps _ eq_refl Href).
  - (* PCas *)
    exfalso. destruct (new_tail m tl (rq_of body) padding) as [t2 | | | |]; try (inversion Hstep; fail).
    destruct (r_tail R =? tl); inversion Hstep; subst; [destruct (padding =? 0) |]; apply (not_refused_same ps _ eq_refl Href).
  - exfalso. inversion Hstep; subst. apply (not_refused_same ps _ eq_refl Href).
  - exfalso. inversion Hstep; subst. apply (not_refused_same ps _ eq_refl Href).
  - exfalso. inversion Hstep; subst. apply (not_refused_same ps _ eq_refl Href).
  - (* PCommit: the call returns Ok *)
    exfalso. inversion Hstep; subst. destruct Href as (errs & H).
    destruct (finish_res (r_cap R) ps (Ok 0) Pw) as (errs' & H'). rewrite H' in H.
    apply app_inv_head in H. discriminate.
Qed.

(* the converse at the two deciding accesses: what makes the call go on *)
Theorem conc_accept_head1 lo m cfg i ps tl typ body :
  Inv lo cfg -> nth_error (g_prods cfg) i = Some ps -> p_pc ps = PReadHead1 tl ->
  at_write (r_cap (g_ring cfg)) ps typ body ->
  let R := g_ring cfg in
  (tl - r_head R) + rec_bytes (Z.of_nat (length body)) <= r_cap R ->
  exists e, pstep m R (Z.of_nat (S i)) ps = (R, set_pc ps (PWriteHC1 (r_head R) tl), Some e).
Proof.
  intros HI Hi Epc Aw. cbn zeta. intros Hfit. destruct cfg as [R cs prods]. cbn [g_ring g_cons g_prods] in *.
  pose proof HI as [Icap Ilo Ihc Ih8 It8 Ihh Itl Isz Iwin Isl Ipr Ics]. cbn [g_ring g_cons g_prods] in *.
  destruct (Ipr i ps Hi) as (Pc & Pw & Pex). pose proof (cap_ok_range _ Icap) as Hcr.
  pose proof (tiled_le _ _ _ _ Itl) as Hle.
  unfold pc_ok in Pc. rewrite Epc in Pc. destruct Pc as (typ' & body' & Aw' & Pt & Pt8).
  unfold pstep. rewrite Epc. rewrite (cur_at_write m _ _ _ _ Icap Aw).
  rewrite (lacks_ok m (r_cap R) (rq_of body) tl (r_head R)) by (unfold two62, two30 in *; lia).
  rewrite rq_rec_bytes. replace (rec_bytes (Z.of_nat (length body)) >? r_cap R - (tl - r_head R)) with false by lia.
  eexists. reflexivity. Qed.

(* ---- the overtaken caller: a refusal on an empty ring (reachable) ---- *)
Definition sp_c0 : config :=
  start (init 256 232 8 0) [2147483647] [[(1, payload 0 24)]; [(2, payload 1 0); (3, payload 2 0); (4, payload 3 0)]].
Definition sp_sched : list nat := ([1; 1] ++ repeat 2 18 ++ repeat 0 9)%nat.
Definition sp_c : config := match replay_ok 8 Debug sp_c0 sp_sched with Some c => c | None => sp_c0 end.

Lemma sp_inv0 : Inv 8 sp_c0.
Proof. change (Inv (r_hc (init 256 232 8 0)) sp_c0). apply inv_start.
  - constructor; cbn [init r_cap r_head r_tail r_hc r_slots]; try lia; try reflexivity; try constructor.
    exists 8. split; [lia | reflexivity].
  - repeat (constructor; try (right; reflexivity)).
  - cbn. unfold two62. lia. Qed.

Lemma spurious_refusal :
  reach 8 Debug sp_c0 sp_c /\
  (* producer 1 read tail = 232 (24 bytes before the end) and is about to re-read the head; meanwhile producer 2
     wrote three records and the consumer read them all: the ring is empty, head = tail = 256 *)
  map p_pc (g_prods sp_c) = [PReadHead2 232; PDone] /\ r_head (g_ring sp_c) = 256 /\ r_tail (g_ring sp_c) = 256 /\
  r_slots (g_ring sp_c) = [] /\
  (* the next access of producer 1 refuses the 32-byte record *)
  (exists c' e, step Debug sp_c 1 = Some (c', e) /\
     map p_res (g_prods c') = [[Err InsufficientCapacity]; [Ok 0; Ok 0; Ok 0]] /\
     no_room 256 (r_head (g_ring sp_c)) (r_tail (g_ring sp_c)) 24 = false).
Proof. split; [| split; [| split; [| split; [| split]]]]; try (vm_compute; reflexivity).
  - assert (E : replay_ok 8 Debug sp_c0 sp_sched = Some sp_c) by (vm_compute; reflexivity).
    exact (replay_reach _ _ _ _ _ _ E (reach_refl _ _ _)).
  - eexists. eexists. split; [vm_compute; reflexivity |]. split; vm_compute; reflexivity. Qed.
