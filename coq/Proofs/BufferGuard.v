Require Import V.Base.MachineInt V.Generated.GenBounds V.Model.Buffer.
From Coq Require Import ZifyBool.
Open Scope Z_scope.

Ltac unf := unfold bounds_ok, bind, add32, sub32, mul32, add64, sub64, mul64, addu64, subu64, chk32, chk64, chku64 in *.
Ltac split_ifs :=
  repeat match goal with
  | H : context [if ?c then _ else _] |- _ => destruct c eqn:?
  | H : context [match ?m with Debug => _ | Release => _ end] |- _ => destruct m
  | |- context [if ?c then _ else _] => destruct c eqn:?
  | |- context [match ?m with Debug => _ | Release => _ end] => destruct m
  end.
Ltac arith := unfold in_i32, in_i64, in_u64, wrap32, wrap64, wrapu64, wrapu32, two31, two32, two63, two64 in *;
  Zify.zify; Z.div_mod_to_equations; lia.

Lemma bounds_ok_sound m cap idx len :
  in_i32 cap = true -> in_i32 idx = true -> in_i32 len = true ->
  bounds_ok m cap idx len = Ok true -> 0 <= idx /\ 0 <= len /\ idx + len <= cap.
Proof.
  intros Hc Hi Hl H. unf. split_ifs; try discriminate; try (injection H as H); arith.
Qed.

Lemma bounds_ok_complete m cap idx len :
  in_i32 cap = true -> in_i32 idx = true -> in_i32 len = true ->
  0 <= idx -> 0 <= len -> idx + len <= cap -> bounds_ok m cap idx len = Ok true.
Proof.
  intros Hc Hi Hl H1 H2 H3. unf. split_ifs; try reflexivity; try (exfalso; arith); try (f_equal; arith).
Qed.
