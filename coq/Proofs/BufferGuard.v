(* The three facts about the *generated* function `bounds_ok` (Generated/GenBounds.v, regenerated from
   AtomicBuffer::bounds_check on every run) on which everything else in C16 rests.  They are proved by one
   generic tactic (case analysis on the build mode and on every conditional, then linear arithmetic with
   div/mod elimination), so any rewriting of the Rust expression that is still a correct guard is re-proved
   without touching this file, and a guard that is wrong makes `bounds_ok_sound` fail to compile. *)
Require Import V.Base.MachineInt.
Require Import V.Generated.GenBounds.
From Coq Require Import ZifyBool.
Open Scope Z_scope.

Ltac unf := unfold bounds_ok, bind, add32, sub32, mul32, add64, sub64, mul64, addu64, subu64, chk32, chk64, chku64 in *.
Ltac split_ifs :=
  repeat match goal with
  | H : context [if ?c then _ else _] |- _ => destruct c eqn:?
  | H : context [match ?m with Debug => _ | Release => _ end] |- _ => destruct m
  | |- context [if ?c then _ else _] => destruct c eqn:?
  | |- context [match ?m with Debug => _ | Release => _ end] => destruct m
  end.
Ltac arith := unfold in_i32, in_i64, in_u64, wrap32, wrap64, wrapu64, wrapu32, two31, two32, two63, two64 in *;
  Zify.zify; Z.div_mod_to_equations; lia.

(* soundness: whatever is accepted lies inside [0, cap) - for every i32 value, in both build modes
   (cap is the `len` field of a buffer: non-negative for a wrapped region and, by this very lemma, for every view of it) *)
Lemma bounds_ok_sound m cap idx len :
  0 <= cap -> in_i32 cap = true -> in_i32 idx = true -> in_i32 len = true ->
  bounds_ok m cap idx len = Ok true -> 0 <= idx /\ 0 <= len /\ idx + len <= cap.
Proof.
  intros Hc0 Hc Hi Hl H. unf. timeout 60 (split_ifs; try discriminate; try (injection H as H); arith).
Qed.

(* completeness: every range inside [0, cap) is accepted (the check is not vacuous; used to show that a
   composite accessor cannot fail half-way) *)
Lemma bounds_ok_complete m cap idx len :
  0 <= cap -> in_i32 cap = true -> in_i32 idx = true -> in_i32 len = true ->
  0 <= idx -> 0 <= len -> idx + len <= cap -> bounds_ok m cap idx len = Ok true.
Proof.
  intros Hc0 Hc Hi Hl H1 H2 H3. unf.
  timeout 60 (split_ifs; try reflexivity; try (exfalso; arith); try (f_equal; arith)).
Qed.

(* the check either answers or panics (overflow in a debug build); it has no other outcome *)
Lemma bounds_ok_shape m cap idx len :
  (exists b, bounds_ok m cap idx len = Ok b) \/ bounds_ok m cap idx len = Panic.
Proof.
  unf. timeout 60 (split_ifs; solve [ left; eexists; reflexivity | right; reflexivity ]).
Qed.
