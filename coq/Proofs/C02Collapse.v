(* Collapse, sequential side: what Publication.pub_offer (the sequential model of offer_opt used by C01 / C04) computes on a
   log that corresponds to a shared state of the thread model, in the thread model's vocabulary. *)
Require Import V.Base.MachineInt.
Require Import V.Generated.GenConsts.
Require Import V.Model.LogBase.
Require Import V.Model.Descriptor.
Require Import V.Proofs.DescriptorProofs.
Require Import V.Model.Sched.
Require Import V.Model.AppenderThreads.
Require Import V.Model.Appender.
Require Import V.Model.Publication.
Require Import V.Proofs.AppenderProofs.
Require Import V.Proofs.TailArith.
Require Import V.Proofs.FragArith.
Require Import V.Proofs.AppenderInv.
Require Import V.Proofs.AppenderLemmas.
Require Import V.Proofs.C02Words.
Require Import V.Proofs.C02Render.
Require Import V.Proofs.C02Frames.
Require Import V.Proofs.C02GenFrames.
Require Import V.Proofs.C02SeqTerm.
Require Import V.Proofs.C02Solo.
From Coq Require Import ZifyBool.
Open Scope Z_scope.

Ltac recnorm_in H :=
  unfold after_commit, after_eol, after_faa, after_read_tail, pl_pc, pl_limit, pl_count, pl_raw, pl_faa, pl_frag, pl_next, frag_bytes, frag_len, frag_flags, frag_body,
         finish, ok_position, r_pos, r_off, r_tid, r_idx, f_off, f_tid, mlen, cur_msg, AppenderThreads.next_index, next_tid in H;
  cbn [p_pc p_todo p_budget p_res p_limit p_count p_raw p_faa p_foff p_rem p_flags p_next] in H.

Section Collapse.
  Variable c : cfg.
  Hypothesis W : wf_cfg c.
  Hypothesis Wmtu : c_mtu c <= 268435456.
  Variable m : mode.

  (* the thread-side invariant a solo run keeps (a fragment of AppenderInv.TailInv plus "zero above the tails") *)
  Record SI (s : shared) : Prop := {
    si_count : 0 <= sh_count s <= GB;
    si_act : exists off, sh_tail s (sh_count s mod 3) = mk_raw c (sh_count s) off /\ 0 <= off < two32 /\ off mod 32 = 0;
    si_next : term_id_of (sh_tail s ((sh_count s + 1) mod 3)) = tid_of c (sh_count s - 2);
    si_prev : term_id_of (sh_tail s ((sh_count s + 2) mod 3)) = tid_of c (sh_count s - 1);
    si_zero : forall p o, 0 <= p < 3 -> lo32u (sh_tail s p) <= o -> sh_mem s p o = zslot
  }.

  (* correspondence of a sequential log with a shared state: same meta data, same dump of every partition, and nothing
     rendered would be cut by an append at the partition's tail *)
  Record sim (s : shared) (lg : log) : Prop := {
    sm_geom : geom_ok c lg;
    sm_count : l_count lg = sh_count s;
    sm_tail : forall p, 0 <= p < 3 -> tail lg p = sh_tail s p;
    sm_limit : l_limit lg = sh_limit s;
    sm_conn : l_connected lg = (sh_conn s =? 1);
    sm_part : forall p, 0 <= p < 3 ->
      render_term (part lg p) = render_mem c (sh_mem s) p /\ put_ok (part lg p) (Z.min (lo32u (sh_tail s p)) (TL c))
  }.

  Lemma geom_bits lg : geom_ok c lg -> bits_of lg = c_bits c.
  Proof. intros (_ & Ht & _). unfold bits_of. rewrite Ht. unfold TL. apply ntz_pow2. destruct (wf_bits c W). lia. Qed.

  Lemma geom_maxpos lg : geom_ok c lg -> max_possible_position lg = max_pos c.
  Proof. intros (_ & Ht & _). destruct (TL_bounds c W) as (TB & _). unfold max_possible_position, max_pos, shl64. rewrite Ht.
    change (2 ^ 31) with two31. apply wrap64_id. unfold in_i64, two63, two31. lia. Qed.

  Lemma geom_mpl lg : geom_ok c lg -> max_payload_length lg = max_payload c.
  Proof. intros (_ & _ & Hm & _). unfold max_payload_length, max_payload. rewrite Hm. reflexivity. Qed.

  Lemma geom_mml lg : geom_ok c lg -> max_message_length lg = max_msg c.
  Proof. intros (_ & Ht & _). destruct (TL_bounds c W) as (TB & _). unfold max_message_length, max_msg. rewrite Ht.
    rewrite Z.quot_div_nonneg by lia. reflexivity. Qed.

  (* ---- sim / SI are preserved by what an attempt does ---- *)
  Lemma render_mem_ext (mm mm' : mem) q : (forall o, mm' q o = mm q o) -> render_mem c mm' q = render_mem c mm q.
  Proof. intros H. unfold render_mem. apply render_part_ext. intros j _. apply H. Qed.

  (* the get_and_add, and the frames written at the old tail offset (data frames of a message that fits, or the padding frame) *)
  Lemma sim_write s lg s' p off d frs : SI s -> sim s lg -> 0 <= p < 3 ->
    sh_tail s p = mk_raw c (sh_count s) off -> p = sh_count s mod 3 -> 0 <= off < two32 -> off mod 32 = 0 -> 32 <= d -> off + d < two32 ->
    laid c off frs (Z.min (off + d) (TL c)) -> off < TL c ->
    (forall q, sh_tail s' q = if q =? p then mk_raw c (sh_count s) (off + d) else sh_tail s q) ->
    sh_count s' = sh_count s -> sh_limit s' = sh_limit s -> sh_conn s' = sh_conn s ->
    (forall o sl, In (o, sl) frs -> sh_mem s' p o = sl) ->
    (forall q o, q <> p \/ (forall sl, ~ In (o, sl) frs) -> sh_mem s' q o = sh_mem s q o) ->
    sim s' (set_part (LogBase.set_tail lg p (mk_raw c (sh_count s) (off + d))) p
                     (term_put (part lg p) off (map slot_entry frs))).
  Proof. intros S M Hp Hraw Hpc Hoff Hom Hd Hsum L Hlt Ht Hc Hl Hcn Hw Hk.
    destruct (TL_bounds c W) as (TB & TM). destruct M as [G Mc Mt Ml Mcn Mp].
    assert (Hlo : lo32u (sh_tail s p) = off) by (rewrite Hraw; apply lo32u_mk_raw; assumption).
    constructor.
    - destruct G as (G1 & G2 & G3 & G4 & G5). repeat split; assumption.
    - rewrite Hc. exact Mc.
    - intros q Hq. rewrite tail_set_part, Ht. destruct (q =? p) eqn:E.
      + assert (q = p) by lia. subst q. apply tail_set_tail_same. assumption.
      + rewrite tail_set_tail_other by lia. apply Mt. assumption.
    - rewrite Hl. exact Ml.
    - rewrite Hcn. exact Mcn.
    - intros q Hq. rewrite Ht. destruct (q =? p) eqn:E.
      + assert (q = p) by lia. subst q. rewrite part_set_part_same by assumption.
        destruct (Mp p Hp) as (R1 & R2). rewrite Hlo in R2. rewrite Z.min_l in R2 by lia.
        destruct (slot_entries_span c _ _ _ L) as (E1 & E2).
        split.
        * rewrite render_term_put by lia. rewrite R2, R1. rewrite <- (frender_render_from c _ _ _ L).
          symmetry. unfold render_mem. apply (render_after_write c W (sh_mem s p) (sh_mem s' p) off frs _ L); try assumption; try lia.
          -- intros o Ho. apply (si_zero s S p o Hp). lia.
          -- intros o Hn. apply Hk. right. assumption.
        * rewrite lo32u_mk_raw by lia. apply put_ok_after; [lia | assumption | lia].
      + rewrite part_set_part_other by lia. change (part (LogBase.set_tail lg p (mk_raw c (sh_count s) (off + d))) q) with (part lg q).
        destruct (Mp q Hq) as (R1 & R2). split; [|assumption].
        rewrite R1. symmetry. apply render_mem_ext. intros o. apply Hk. left. lia. Qed.

  (* the get_and_add alone, on a tail already at or beyond the term end *)
  Lemma sim_bump s lg s' p off d : sim s lg -> 0 <= p < 3 ->
    sh_tail s p = mk_raw c (sh_count s) off -> 0 <= off < two32 -> 0 <= d -> off + d < two32 -> TL c <= off ->
    (forall q, sh_tail s' q = if q =? p then mk_raw c (sh_count s) (off + d) else sh_tail s q) ->
    sh_count s' = sh_count s -> sh_limit s' = sh_limit s -> sh_conn s' = sh_conn s ->
    (forall q o, sh_mem s' q o = sh_mem s q o) ->
    sim s' (LogBase.set_tail lg p (mk_raw c (sh_count s) (off + d))).
  Proof. intros M Hp Hraw Hoff Hd Hsum Hge Ht Hc Hl Hcn Hk. destruct M as [G Mc Mt Ml Mcn Mp].
    assert (Hlo : lo32u (sh_tail s p) = off) by (rewrite Hraw; apply lo32u_mk_raw; assumption).
    constructor.
    - destruct G as (G1 & G2 & G3 & G4 & G5). repeat split; assumption.
    - rewrite Hc. exact Mc.
    - intros q Hq. rewrite Ht. destruct (q =? p) eqn:E.
      + assert (q = p) by lia. subst q. apply tail_set_tail_same. assumption.
      + rewrite tail_set_tail_other by lia. apply Mt. assumption.
    - rewrite Hl. exact Ml.
    - rewrite Hcn. exact Mcn.
    - intros q Hq. change (part (LogBase.set_tail lg p (mk_raw c (sh_count s) (off + d))) q) with (part lg q).
      destruct (Mp q Hq) as (R1 & R2). split.
      + rewrite R1. symmetry. apply render_mem_ext. intros o. apply Hk.
      + rewrite Ht. destruct (q =? p) eqn:E; [|assumption]. assert (q = p) by lia. subst q.
        rewrite Hlo in R2. rewrite lo32u_mk_raw by lia. rewrite Z.min_r in * by lia. assumption. Qed.

  Lemma meta_get_tail lg i : get_tail (meta_of lg) i = tail lg i.
  Proof. reflexivity. Qed.
  Lemma tail_with_meta lg mt i : tail (with_meta lg mt) i = get_tail mt i.
  Proof. reflexivity. Qed.

  (* rotate_log: the tail of the next partition and the term count *)
  Lemma sim_rot s lg q v n' : sim s lg -> 0 <= q < 3 -> lo32u v = 0 -> (forall o, sh_mem s q o = zslot) ->
    sim (with_count (with_tail s q v) n') (with_meta lg (set_count (Descriptor.set_tail (meta_of lg) q v) n')).
  Proof. intros M Hq Hv Hz. destruct M as [G Mc Mt Ml Mcn Mp]. destruct (TL_bounds c W) as (TB & _). constructor.
    - exact G.
    - reflexivity.
    - intros i Hi. rewrite tail_with_meta. cbn [with_count with_tail sh_tail].
      change (get_tail (set_count (Descriptor.set_tail (meta_of lg) q v) n') i) with (get_tail (Descriptor.set_tail (meta_of lg) q v) i).
      destruct (i =? q) eqn:E.
      + assert (i = q) by lia. subst i. apply get_set_tail_same. assumption.
      + rewrite get_set_tail_other by lia. apply Mt. assumption.
    - exact Ml.
    - exact Mcn.
    - intros i Hi. change (part (with_meta lg (set_count (Descriptor.set_tail (meta_of lg) q v) n')) i) with (part lg i).
      cbn [with_count with_tail sh_tail sh_mem]. destruct (Mp i Hi) as (R1 & R2). split; [exact R1|].
      destruct (i =? q) eqn:E; [|assumption]. assert (i = q) by lia. subst i. rewrite Hv. apply put_ok_empty.
      rewrite R1. unfold render_mem. apply render_part_zero. intros j _. apply Hz. Qed.

  Lemma mod3_succ3 n : (n + 1 + 2) mod 3 = n mod 3.
  Proof. replace (n + 1 + 2) with (n + 3 * 1) by ring. apply mod3_shift. Qed.

  Lemma SI_rot s : SI s -> sh_count s + 1 <= GB -> (forall o, sh_mem s ((sh_count s + 1) mod 3) o = zslot) ->
    SI (with_count (with_tail s ((sh_count s + 1) mod 3) (mk_raw c (sh_count s + 1) 0)) (sh_count s + 1)).
  Proof. intros [Sc Sa Sn Sp Sz] Hgb Hz. set (n := sh_count s) in *.
    pose proof (mod3_succ_ne n) as N1. pose proof (mod3_succ2_ne n) as N2. pose proof (mod3_succ12_ne n) as N3.
    destruct Sa as (off & Ha & Hoff & Hom).
    constructor; cbn [with_count with_tail sh_count sh_tail sh_mem].
    - lia.
    - exists 0. rewrite Z.eqb_refl. split; [reflexivity|]. split; [unfold two32; lia | reflexivity].
    - replace (n + 1 + 1) with (n + 2) by ring. replace ((n + 2) mod 3 =? (n + 1) mod 3) with false by lia.
      rewrite Sp. f_equal. ring.
    - rewrite mod3_succ3. replace (n mod 3 =? (n + 1) mod 3) with false by lia. rewrite Ha, term_id_mk_raw by assumption. f_equal. ring.
    - intros p o Hp Ho. destruct (p =? (n + 1) mod 3) eqn:E.
      + assert (p = (n + 1) mod 3) by lia. subst p. apply Hz.
      + apply Sz; assumption. Qed.

  Lemma SI_faa s s' off d : SI s -> sh_tail s (sh_count s mod 3) = mk_raw c (sh_count s) off -> 0 <= off < two32 -> off mod 32 = 0 ->
    0 <= d -> d mod 32 = 0 -> off + d < two32 ->
    (forall q, sh_tail s' q = if q =? sh_count s mod 3 then mk_raw c (sh_count s) (off + d) else sh_tail s q) ->
    sh_count s' = sh_count s ->
    (forall q o, 0 <= q < 3 -> lo32u (sh_tail s' q) <= o -> sh_mem s' q o = zslot) ->
    SI s'.
  Proof. intros [Sc Sa Sn Sp Sz] Hraw Hoff Hom Hd Hdm Hsum Ht Hc Hz. set (n := sh_count s) in *.
    pose proof (mod3_succ_ne n) as N1. pose proof (mod3_succ2_ne n) as N2.
    constructor; rewrite ?Hc; fold n.
    - assumption.
    - exists (off + d). rewrite Ht, Z.eqb_refl. split; [reflexivity|]. split; [lia|]. rewrite Z.add_mod, Hom, Hdm by lia. reflexivity.
    - rewrite Ht. replace ((n + 1) mod 3 =? n mod 3) with false by lia. assumption.
    - rewrite Ht. replace ((n + 2) mod 3 =? n mod 3) with false by lia. assumption.
    - assumption. Qed.

  Section Try.
    Variables (s : shared) (lg : log) (cl : option (Z * Z * Z)).
    Hypothesis S : SI s.
    Hypothesis M : sim s lg.
    Let cnt := sh_count s.
    Let p := index_by_term_count cnt.
    Let raw := sh_tail s p.
    Let tid := term_id_of raw.
    Let off := lo32u raw.
    Let pos := compute_term_begin_position tid (c_bits c) (c_init c) + off.

    Lemma try_p : p = cnt mod 3 /\ 0 <= p < 3.
    Proof. destruct (si_count s S). unfold p. rewrite idx_count by (unfold GB, two31 in *; lia). split; [reflexivity | apply Z.mod_pos_bound; lia]. Qed.

    Lemma try_raw : raw = mk_raw c cnt off /\ 0 <= off < two32 /\ off mod 32 = 0 /\ tid = tid_of c cnt /\ pos = cnt * TL c + off.
    Proof. destruct try_p as (Hp & _). destruct (si_act s S) as (o & Ho & Hr & Hm). destruct (si_count s S).
      assert (E : raw = mk_raw c cnt o) by (unfold raw; rewrite Hp; exact Ho).
      assert (Eo : off = o) by (unfold off; rewrite E; apply lo32u_mk_raw; assumption).
      assert (Et : tid = tid_of c cnt) by (unfold tid; rewrite E; apply term_id_mk_raw; assumption).
      rewrite Eo. repeat split; try assumption; try lia.
      unfold pos. rewrite Et, Eo. rewrite begin_pos; [reflexivity | apply (wf_init c W) | unfold GB, two31 in *; fold cnt; lia | destruct (wf_bits c W); lia]. Qed.

    Lemma pub_try_eq len act : 0 <= len < two31 ->
      pub_try m (mkPub lg false cl) len act =
      if negb (cnt =? wrap32 (tid - c_init c)) then (mkPub lg false cl, Err AdminAction)
      else if pos <? sh_limit s then
        match act lg p tid with
        | Ok a =>
            let '(l2, r) := pub_new_position m (a_log a) cnt (wrap32 off) tid pos (a_result a) in
            (mkPub l2 false (match a_claim a with Some x => Some x | None => cl end), r)
        | Err TooLong => (mkPub lg false cl, Err TooLong)
        | Err _ => (mkPub lg false cl, Panic)
        | Panic => (mkPub lg false cl, Panic) | Hang => (mkPub lg false cl, Hang) | Crash => (mkPub lg false cl, Crash)
        end
      else if max_pos c <=? pos + len then (mkPub lg false cl, Err MaxPositionExceeded)
      else (mkPub lg false cl, Err (if sh_conn s =? 1 then BackPressured else NotConnected)).
    Proof. intros Hlen. destruct try_p as (Hp & Hp3). destruct try_raw as (Hraw & Hoff & _ & Htid & Hpos).
      destruct (si_count s S) as (Hc0 & Hc1). destruct (TL_bounds c W) as (TB & _).
      pose proof (sm_geom s lg M) as G. destruct G as (Gi & Gt & Gm & Gs & Gst).
      unfold pub_try. cbn [ps_closed ps_log]. rewrite (sm_limit s lg M), (sm_count s lg M). fold cnt. fold p.
      replace (p <? 0) with false by lia. rewrite (sm_tail s lg M p Hp3). fold raw. change (raw mod two32) with off. fold tid.
      rewrite (geom_bits lg (sm_geom s lg M)), Gi. fold pos.
      assert (Hposr : 0 <= pos < 1152921508901814272) by (rewrite Hpos; unfold GB, two32 in *; fold cnt in Hc0, Hc1; nia).
      rewrite add64_ok by (fold pos; unfold in_i64, two63; lia). fold pos.
      destruct (negb (cnt =? wrap32 (tid - c_init c))); [reflexivity|].
      destruct (pos <? sh_limit s); [reflexivity|].
      unfold back_pressure_status. rewrite add64_ok by (unfold in_i64, two63, two31 in *; lia). cbn [bind].
      rewrite (geom_maxpos lg (sm_geom s lg M)). destruct (max_pos c <=? pos + len); [reflexivity|].
      rewrite (sm_conn s lg M). destruct (sh_conn s =? 1); reflexivity. Qed.

    (* the appender call of offer_opt *)
    Definition offer_act (msg : list Z) : log -> Z -> Z -> outcome appended := fun l idx tid0 =>
      if Appender.zlen msg <=? max_payload_length l then ta_append_unfragmented m rv0 l idx msg tid0
      else if max_message_length l <? Appender.zlen msg then Err TooLong
      else ta_append_fragmented m rv0 l idx msg (max_payload_length l) tid0.

    Lemma act_eq msg : let n := FragArith.zlen msg in
      offer_act msg lg p tid =
      if is_fragmented c n && (max_msg c <? n) then Err TooLong
      else
        let d := required c n in
        let lg1 := LogBase.set_tail lg p (wrap64 (raw + d)) in
        if TL c <? off + d then Ok (end_of_log (mkClaimed lg1 off tid) p)
        else Ok (mkAppended (set_part lg1 p (term_put (part lg1 p) off
                                (map slot_entry (frags_from c tid msg (Z.to_nat n) off n F_BEGIN))))
                            (wrap32 (off + d)) None).
    Proof. cbn zeta. destruct try_p as (Hp & Hp3). pose proof (sm_geom s lg M) as G. pose proof (mp_pos c W) as (Hmp & Hmtu).
      rewrite HDR_32 in Hmtu. destruct G as (Gi & Gt & Gm & Gs & Gst).
      assert (Hn : 0 <= FragArith.zlen msg) by (unfold FragArith.zlen; lia).
      unfold offer_act. change (Appender.zlen msg) with (FragArith.zlen msg).
      rewrite (geom_mpl lg (sm_geom s lg M)), (geom_mml lg (sm_geom s lg M)). unfold is_fragmented.
      assert (Htc : forall req, tail_claim lg p req tid = Ok (mkClaimed (LogBase.set_tail lg p (wrap64 (raw + req))) off tid)).
      { intros req. unfold tail_claim. rewrite (sm_tail s lg M p Hp3). fold raw. fold tid. rewrite Z.eqb_refl. reflexivity. }
      destruct (FragArith.zlen msg <=? max_payload c) eqn:E.
      - replace (max_payload c <? FragArith.zlen msg) with false by lia. cbn [andb].
        unfold ta_append_unfragmented. change (Appender.zlen msg) with (FragArith.zlen msg).
        rewrite unfrag_lengths_ok by lia. cbn [bind]. rewrite Htc. cbn [bind c_off c_log c_tid].
        assert (Hreq : required c (FragArith.zlen msg) = align (FragArith.zlen msg + 32) 32).
        { unfold required, is_fragmented. replace (max_payload c <? FragArith.zlen msg) with false by lia. reflexivity. }
        rewrite Hreq. change (l_tlen (LogBase.set_tail lg p (wrap64 (raw + align (FragArith.zlen msg + 32) 32)))) with (l_tlen lg). rewrite Gt.
        destruct (TL c <? off + align (FragArith.zlen msg + 32) 32); [reflexivity|].
        rewrite frags_from_step by lia. replace (FragArith.zlen msg - fbytes c (FragArith.zlen msg) <=? 0) with true by (unfold fbytes; lia).
        cbn [map]. unfold slot_entry. cbn [snd]. rewrite (st6_frame c lg) by (apply (sm_geom s lg M)).
        unfold is_fragmented. replace (max_payload c <? FragArith.zlen msg) with false by lia.
        assert (Hfl : flen c (FragArith.zlen msg) = FragArith.zlen msg + 32) by (unfold flen, fbytes; rewrite HDR_32; lia).
        assert (Hfb : fbody c msg (FragArith.zlen msg) = msg).
        { unfold fbody, fbytes. rewrite Z.sub_diag. cbn [Z.to_nat skipn]. apply firstn_all2. unfold FragArith.zlen in *. lia. }
        rewrite Hfl, Hfb. reflexivity.
      - replace (max_payload c <? FragArith.zlen msg) with true by lia. cbn [andb].
        destruct (max_msg c <? FragArith.zlen msg) eqn:E2; [reflexivity|].
        assert (Hmm : max_msg c <= 16777216) by (unfold max_msg, GenConsts.MAX_MESSAGE_LENGTH; lia).
        unfold ta_append_fragmented. change (Appender.zlen msg) with (FragArith.zlen msg).
        rewrite frag_required_ok by lia. cbn [bind]. rewrite Htc. cbn [bind c_off c_log c_tid].
        assert (Hreq : required c (FragArith.zlen msg) = frag_required_spec (FragArith.zlen msg) (max_payload c)).
        { unfold required, is_fragmented. replace (max_payload c <? FragArith.zlen msg) with true by lia. reflexivity. }
        rewrite Hreq. change (l_tlen (LogBase.set_tail lg p (wrap64 (raw + frag_required_spec (FragArith.zlen msg) (max_payload c))))) with (l_tlen lg). rewrite Gt.
        destruct (TL c <? off + frag_required_spec (FragArith.zlen msg) (max_payload c)); [reflexivity|].
        rewrite (frag_loop_frags c W _ tid msg) with (fuel2 := Z.to_nat (FragArith.zlen msg)); [reflexivity | | | lia | lia |].
        + repeat split; assumption.
        + unfold is_fragmented. lia.
        + unfold frag_fuel. lia. Qed.
  End Try.

  (* the big step of C02Solo in plain vocabulary (no local state) *)
  Definition rotE (s2 : shared) (cnt tid : Z) : shared :=
    let q := index_by_term_count (cnt + 1) in
    let s1 := if term_id_of (sh_tail s2 q) =? wrap32 (wrap32 (tid + 1) - PARTITION_COUNT)
              then with_tail s2 q (raw_tail_of_term (wrap32 (tid + 1))) else s2 in
    if sh_count s1 =? cnt then with_count s1 (cnt + 1) else s1.

  Definition bigE (s : shared) (msg : list Z) (s' : shared) (r : outcome Z) : Prop :=
    let cnt := sh_count s in let p := index_by_term_count cnt in let raw := sh_tail s p in
    let tid := term_id_of raw in let off := lo32u raw in
    let pos := compute_term_begin_position tid (c_bits c) (c_init c) + off in
    let n := FragArith.zlen msg in
    if negb (cnt =? wrap32 (tid - c_init c)) then s' = s /\ r = Err AdminAction
    else if pos <? sh_limit s then
      if is_fragmented c n && (max_msg c <? n) then s' = s /\ r = Err TooLong
      else
        let d := required c n in
        let s1 := with_tail s p (wrap64 (raw + d)) in
        off + d < two32 /\
        if TL c <? off + d then
          exists s2,
            (if off <? TL c
             then same_meta s1 s2 /\ (forall p' o', sh_mem s2 p' o' = mupd (sh_mem s) p off (pd4 c tid off) p' o')
             else s2 = s1) /\
            (if max_pos c <? pos + wrap32 off then s' = s2 /\ r = Err MaxPositionExceeded
             else s' = rotE s2 cnt tid /\ r = Err AdminAction /\
                  ((term_id_of (sh_tail s2 (index_by_term_count (cnt + 1))) =? wrap32 (wrap32 (tid + 1) - PARTITION_COUNT)) = true ->
                   forall o, sh_mem s2 (index_by_term_count (cnt + 1)) o = zslot) /\
                  (sh_count s2 = cnt -> cnt + 1 <= GB))
        else
          let frs := frags_from c tid msg (Z.to_nat n) off n F_BEGIN in
          r = (let np := pos - wrap32 off + (off + d) in if 0 <=? np then Ok np else Err (UnknownCode np)) /\
          same_meta s1 s' /\
          (forall o sl, In (o, sl) frs -> sh_mem s' p o = sl) /\
          (forall p' o', p' <> p \/ (forall sl, ~ In (o', sl) frs) -> sh_mem s' p' o' = sh_mem s p' o')
    else if max_pos c <=? pos + n then s' = s /\ r = Err MaxPositionExceeded
    else s' = s /\ r = Err (if sh_conn s =? 1 then BackPressured else NotConnected).

  Lemma big_bigE s l s' r : big c s l s' r -> bigE s (cur_msg l) s' r.
  Proof. destruct l as [a1 a2 a3 a4 a5 a6 a7 a8 a9 a10 a11 a12]. unfold big, bigE, Lof, Lfof, rot, rot_tail, rotE. cbv zeta.
    intros H. recnorm_in H. unfold cur_msg. cbn [p_todo]. exact H. Qed.

  Lemma pd4_entry lg tid off : geom_ok c lg -> padding_entries lg off tid = if off <? TL c then map slot_entry [(off, pd4 c tid off)] else [].
  Proof. intros (_ & Gt & _ & Gs & Gst). unfold padding_entries. rewrite Gt. destruct (off <? TL c); [|reflexivity].
    cbn [map]. unfold slot_entry, data_frame. cbn [snd]. rewrite Gs, Gst. reflexivity. Qed.

  Theorem collapse_bigE s lg cl msg s' r : SI s -> sim s lg -> FragArith.zlen msg < two31 -> bigE s msg s' r ->
    exists lg', pub_offer m rv0 (mkPub lg false cl) msg = (mkPub lg' false cl, r) /\ sim s' lg' /\ SI s'.
  Proof. intros S M Hlen B.
    assert (Hn0 : 0 <= FragArith.zlen msg) by (unfold FragArith.zlen; lia).
    change (pub_offer m rv0 (mkPub lg false cl) msg) with (pub_try m (mkPub lg false cl) (Appender.zlen msg) (offer_act msg)).
    change (Appender.zlen msg) with (FragArith.zlen msg).
    rewrite (pub_try_eq s lg cl S M) by lia. rewrite (act_eq s lg S M). unfold bigE in B. cbv zeta in *.
    destruct (try_p s S) as (Hp & Hp3). destruct (try_raw s S) as (Hraw & Hoff & Hom & Htid & Hpos).
    destruct (si_count s S) as (Hc0 & Hc1). destruct (TL_bounds c W) as (TB & TM).
    pose proof (required_pos c (FragArith.zlen msg) W Hn0) as (Hd & Hdm).
    set (cnt := sh_count s) in *. set (p := index_by_term_count cnt) in *. set (raw := sh_tail s p) in *.
    set (tid := term_id_of raw) in *. set (off := lo32u raw) in *.
    set (pos := compute_term_begin_position tid (c_bits c) (c_init c) + off) in *.
    set (n := FragArith.zlen msg) in *. set (d := required c n) in *.
    destruct (negb (cnt =? wrap32 (tid - c_init c))).
    { destruct B as (-> & ->). exists lg. auto. }
    destruct (pos <? sh_limit s).
    2:{ destruct (max_pos c <=? pos + n); destruct B as (-> & ->); exists lg; auto. }
    destruct (is_fragmented c n && (max_msg c <? n)).
    { destruct B as (-> & ->). exists lg. auto. }
    destruct B as (Hsum & B).
    assert (Hv : wrap64 (raw + d) = mk_raw c cnt (off + d)) by (rewrite Hraw; apply faa_mk_raw; lia).
    rewrite Hv in *.
    assert (Ht1 : forall s1', sh_tail s1' = sh_tail (with_tail s p (mk_raw c cnt (off + d))) ->
                forall q, sh_tail s1' q = if q =? p then mk_raw c cnt (off + d) else sh_tail s q).
    { intros s1' E q. rewrite E. reflexivity. }
    destruct (TL c <? off + d) eqn:Etrip.
    - (* the claim trips the term end *)
      destruct B as (s2 & Hpad & Hrest).
      set (lg1 := LogBase.set_tail lg p (mk_raw c cnt (off + d))) in *.
      assert (G1 : geom_ok c lg1) by (destruct (sm_geom s lg M) as (G1 & G2 & G3 & G4 & G5); repeat split; assumption).
      (* the state after get_and_add and padding corresponds to the log after end_of_log *)
      assert (K : sim s2 (put_padding lg1 p off tid) /\ SI s2 /\ sh_count s2 = cnt).
      { unfold put_padding. change (l_tlen lg1) with (l_tlen lg). destruct (sm_geom s lg M) as (_ & Gt & _). rewrite Gt.
        rewrite (pd4_entry lg1 tid off G1).
        destruct (off <? TL c) eqn:Ein.
        - destruct Hpad as (Hm2 & Hmem2). destruct Hm2 as (E1 & E2 & E3 & E4 & _).
          destruct (pd4_facts c W tid off Hom ltac:(lia)) as (Gp & _ & Pend).
          assert (Lp : laid c off [(off, pd4 c tid off)] (Z.min (off + d) (TL c))).
          { rewrite Z.min_r by lia. constructor; [cbn; lia|]. rewrite Pend. constructor. }
          split; [|split].
          + change (part lg1 p) with (part lg p).
            apply (sim_write s lg s2 p off d [(off, pd4 c tid off)] S M Hp3 Hraw Hp Hoff Hom Hd Hsum Lp ltac:(lia)).
            * apply Ht1. exact E1.
            * exact E2.
            * exact E3.
            * exact E4.
            * intros o sl [E | []]. inversion E; subst. rewrite Hmem2. apply mupd_same.
            * intros q o Hor. rewrite Hmem2. apply mupd_other. intros X. inversion X; subst.
              destruct Hor as [Hq | Hno]; [congruence | apply (Hno _ (or_introl eq_refl))].
          + apply (SI_faa s s2 off d S); try assumption; try lia.
            * fold cnt. rewrite <- Hp. exact Hraw.
            * fold cnt. rewrite <- Hp. apply Ht1. exact E1.
            * intros q o Hq Ho. rewrite Hmem2. rewrite (Ht1 s2 E1) in Ho. unfold mupd.
              destruct ((q =? p) && (o =? off)) eqn:E.
              -- exfalso. assert (q = p /\ o = off) as (-> & ->) by lia. rewrite Z.eqb_refl in Ho. rewrite lo32u_mk_raw in Ho by lia. lia.
              -- apply (si_zero s S q o Hq). destruct (q =? p) eqn:Eq; [|assumption].
                 assert (q = p) by lia. subst q. rewrite lo32u_mk_raw in Ho by lia. fold raw. fold off. lia.
          + exact E2.
        - subst s2. split; [|split].
          + apply (sim_bump s lg _ p off d M Hp3 Hraw Hoff ltac:(lia) Hsum ltac:(lia)); try reflexivity.
          + apply (SI_faa s _ off d S); try assumption; try lia; try reflexivity.
            * fold cnt. rewrite <- Hp. exact Hraw.
            * fold cnt. rewrite <- Hp. reflexivity.
            * intros q o Hq Ho. cbn [with_tail sh_mem sh_tail] in *. apply (si_zero s S q o Hq). destruct (q =? p) eqn:Eq; [|assumption].
              assert (q = p) by lia. subst q. rewrite lo32u_mk_raw in Ho by lia. fold raw. fold off. lia.
          + reflexivity. }
      destruct K as (M2 & S2 & C2).
      cbn [end_of_log c_log c_off c_tid a_log a_result a_claim].
      unfold pub_new_position. change (0 <? TERM_APPENDER_FAILED) with false. cbv iota.
      assert (Hposr : 0 <= pos < 1152921508901814272) by (rewrite Hpos; unfold GB, two32 in *; nia).
      assert (Hw : - two31 <= wrap32 off < two31) by (pose proof (wrap32_range off) as X; unfold in_i32 in X; lia).
      rewrite add64_ok by (unfold in_i64, two63, two31 in *; lia).
      rewrite (geom_maxpos _ (sm_geom s2 _ M2)).
      destruct (max_pos c <? pos + wrap32 off).
      + destruct Hrest as (-> & ->). eexists. split; [reflexivity|]. split; assumption.
      + destruct Hrest as (-> & -> & Hzq & Hgb). specialize (Hgb C2).
        (* rotate_log on both sides *)
        assert (Hq : index_by_term_count (cnt + 1) = (cnt + 1) mod 3) by (apply idx_count; unfold GB, two31 in *; lia).
        assert (Hq3 : 0 <= (cnt + 1) mod 3 < 3) by (apply Z.mod_pos_bound; lia).
        assert (Hnt : wrap32 (tid + 1) = tid_of c (cnt + 1)) by (rewrite Htid; apply tid_of_succ).
        assert (Hex : wrap32 (wrap32 (tid + 1) - PARTITION_COUNT) = tid_of c (cnt - 2)) by (rewrite Hnt; apply tid_of_expected).
        pose proof (si_next s2 S2) as Hnx. rewrite C2 in Hnx.
        assert (Hcond : (term_id_of (sh_tail s2 ((cnt + 1) mod 3)) =? wrap32 (wrap32 (tid + 1) - PARTITION_COUNT)) = true) by (rewrite Hex, Hnx; apply Z.eqb_refl).
        rewrite Hq in Hzq. specialize (Hzq Hcond).
        unfold rotE. rewrite Hq, Hcond. cbn [with_tail sh_count]. rewrite C2, Z.eqb_refl.
        unfold rotate_log. rewrite add32_ok by (unfold in_i32, two31, GB in *; lia). cbn [bind]. rewrite Hq.
        rewrite meta_get_tail, (sm_tail s2 _ M2 _ Hq3), Hcond.
        rewrite count_set_tail. change (count (meta_of (put_padding lg1 p off tid))) with (l_count (put_padding lg1 p off tid)).
        rewrite (sm_count s2 _ M2), C2, Z.eqb_refl.
        eexists. split; [reflexivity|]. rewrite Hnt, raw_tail_of_term_mk. split.
        * apply sim_rot; [assumption | assumption | apply lo32u_mk_raw; unfold two32; lia | assumption].
        * rewrite <- C2. apply SI_rot; rewrite ?C2; assumption.
    - (* the message fits: its frames *)
      destruct B as (-> & Hm1 & Hfr & Hk). destruct Hm1 as (E1 & E2 & E3 & E4 & _).
      set (frs := frags_from c tid msg (Z.to_nat n) off n F_BEGIN) in *.
      assert (Lf : laid c off frs (Z.min (off + d) (TL c))).
      { rewrite Z.min_l by lia. unfold d. rewrite <- span_required by assumption. apply frags_from_laid; [assumption | assumption | lia]. }
      cbn [a_log a_result a_claim].
      unfold pub_new_position. rewrite wrap32_small by (unfold two31 in *; lia). replace (0 <? off + d) with true by lia.
      assert (Hposr : 0 <= pos < 1152921508901814272) by (rewrite Hpos; unfold GB, two32 in *; nia).
      assert (Hw : - two31 <= wrap32 off < two31) by (pose proof (wrap32_range off) as X; unfold in_i32 in X; lia).
      rewrite sub64_ok by (unfold in_i64, two63, two31 in *; lia). cbn [bind].
      rewrite add64_ok by (unfold in_i64, two63, two31, two32 in *; lia).
      eexists. split; [reflexivity|]. split.
      + change (part (LogBase.set_tail lg p (mk_raw c cnt (off + d))) p) with (part lg p).
        apply (sim_write s lg s' p off d frs S M Hp3 Hraw Hp Hoff Hom Hd Hsum Lf ltac:(lia)); try assumption.
        apply Ht1. exact E1.
      + apply (SI_faa s s' off d S); try assumption; try lia.
        * fold cnt. rewrite <- Hp. exact Hraw.
        * fold cnt. rewrite <- Hp. apply Ht1. exact E1.
        * intros q o Hq Ho. rewrite (Ht1 s' E1) in Ho. rewrite Hk.
          -- apply (si_zero s S q o Hq). destruct (q =? p) eqn:Eq; [|assumption].
             assert (q = p) by lia. subst q. rewrite lo32u_mk_raw in Ho by lia. fold raw. fold off. lia.
          -- destruct (q =? p) eqn:Eq; [right | left; lia]. rewrite lo32u_mk_raw in Ho by lia.
             intros sl Hin. destruct (laid_bounds _ _ _ _ Lf) as (_ & Bf). destruct (Bf _ _ Hin) as (_ & B2 & B3).
             pose proof (align_pos (s_len sl) ltac:(lia)) as [A _]. rewrite FA_32 in *. lia. Qed.

  (* ---- one attempt of the machine running alone = one call of the sequential pub_offer ---- *)
  Theorem collapse_attempt t s lg cl l s' l' : SI s -> sim s lg -> p_pc l = PReadLimit -> mlen l < two31 ->
    att c t s l s' l' ->
    exists lg' r, pub_offer m rv0 (mkPub lg false cl) (cur_msg l) = (mkPub lg' false cl, r) /\ l' = finish r l /\ sim s' lg' /\ SI s'.
  Proof. intros S M Hpc Hlen H. destruct (try_p s S) as (_ & Hp3).
    destruct (solo_big c W t s l s' l' H Hpc) as (r & Hl' & B).
    { intros o Ho. apply (si_zero s S _ o Hp3 Ho). }
    destruct (collapse_bigE s lg cl (cur_msg l) s' r S M Hlen (big_bigE s l s' r B)) as (lg' & E & M' & S').
    exists lg', r. auto. Qed.

  (* ---- the whole thread body: every message of the list, retried while refused, `budget` attempts in all ---- *)
  Fixpoint seq_thread (lg : log) (cl : option (Z * Z * Z)) (todo : list (list Z)) (budget : nat) (res : list (outcome Z)) : log * list (outcome Z) :=
    match todo, budget with
    | [], _ | _, O => (lg, res)
    | msg :: rest, S b =>
        match pub_offer m rv0 (mkPub lg false cl) msg with
        | (ps', r) => seq_thread (ps_log ps') cl (match r with Ok _ => rest | _ => todo end) b (res ++ [r])
        end
    end.

  (* attempts of the machine alone, one after the other, until the thread is done *)
  Inductive runs (t : nat) : shared -> plocal -> shared -> plocal -> Prop :=
  | runs_done s l : p_pc l = PDone -> runs t s l s l
  | runs_att s l s1 l1 s2 l2 : p_pc l = PReadLimit -> att c t s l s1 l1 -> runs t s1 l1 s2 l2 -> runs t s l s2 l2.

  Theorem collapse_runs t cl : forall budget todo res s lg s' l', SI s -> sim s lg ->
    (forall msg, In msg todo -> FragArith.zlen msg < two31) ->
    runs t s (p_start todo budget res) s' l' ->
    exists lg', seq_thread lg cl todo budget res = (lg', p_res l') /\ sim s' lg' /\ SI s' /\ p_pc l' = PDone.
  Proof. induction budget as [|b IH]; intros todo res s lg s' l' S M Hm H.
    - assert (E : p_start todo O res = mkPL PDone todo O res 0 0 0 0 0 0 0 0) by (destruct todo; reflexivity).
      rewrite E in H. inversion H; subst; [|discriminate].
      exists lg. split; [destruct todo; reflexivity|]. auto.
    - destruct todo as [|msg rest].
      + cbn [p_start] in H. inversion H; subst; [|discriminate]. exists lg. auto.
      + cbn [p_start] in H. inversion H as [| ? ? s1 l1 ? ? Hpc Ha Hr]; subst; [discriminate|].
        set (l := mkPL PReadLimit (msg :: rest) b res 0 0 0 0 0 0 0 0) in *.
        destruct (collapse_attempt t s lg cl l s1 l1 S M eq_refl (Hm msg (or_introl eq_refl)) Ha) as (lg1 & r & E & El & M1 & S1).
        change (cur_msg l) with msg in E. cbn [seq_thread]. rewrite E. cbn [ps_log].
        subst l1. unfold finish in Hr. cbn [p_todo p_budget p_res l tl] in Hr.
        apply (IH _ _ s1 lg1 s' l' S1 M1); [|exact Hr].
        intros m0 Hin. apply Hm. destruct r; try exact Hin. right. exact Hin. Qed.
End Collapse.
