(* Link between the two representations of a term partition: the structured `term` of the sequential models
   (LogBase / Appender: entries laid out consecutively, term_put) and the frame slots of the thread model
   (AppenderThreads).  What both render to (the dump) is the common observation:
     - rendering of term_put = rendering of what was there ++ rendering of the new entries (when nothing rendered is cut);
     - frames laid back to back in slot memory render like the same frames as Committed entries;
     - writing frames into zero memory above the tail appends their rendering to the partition's dump;
     - the fragment loop of Appender.v produces exactly the frames FragArith.frags_from describes. *)
Require Import V.Base.MachineInt.
Require Import V.Generated.GenConsts.
Require Import V.Model.LogBase.
Require Import V.Model.Descriptor.
Require Import V.Model.Sched.
Require Import V.Model.AppenderThreads.
Require Import V.Model.Appender.
Require Import V.Oracle.C02Oracle.
Require Import V.Proofs.TailArith.
Require Import V.Proofs.FragArith.
Require Import V.Proofs.AppenderInv.
Require Import V.Proofs.AppenderLemmas.
Require Import V.Proofs.C02Quiescent.
Require Import V.Proofs.C02Words.
Require Import V.Proofs.C02Render.
Require Import V.Proofs.C02Frames.
From Coq Require Import ZifyBool.
Open Scope Z_scope.

(* ---- structured terms ---- *)
Lemma term_end_app a b : term_end (a ++ b) = term_end a + term_end b.
Proof. induction a as [|e r IH]; cbn [app term_end]; [lia | rewrite IH; lia]. Qed.

Lemma render_from_app t : forall o es, render_from o (t ++ es) = render_from o t ++ render_from (o + term_end t) es.
Proof. induction t as [|e r IH]; intros o es; cbn [app term_end render_from].
  - f_equal. lia.
  - destruct e as [f | f | n]; cbn [entry_span]; rewrite IH, ?app_assoc.
    + replace (o + align (f_len f) FA + term_end r) with (o + (align (f_len f) FA + term_end r)) by lia. reflexivity.
    + replace (o + align (f_len f) FA + term_end r) with (o + (align (f_len f) FA + term_end r)) by lia. reflexivity.
    + replace (o + n + term_end r) with (o + (n + term_end r)) by lia. reflexivity. Qed.

Lemma trunc_end t : forall off, 0 <= off -> term_end (term_truncate t off) <= off.
Proof. induction t as [|e r IH]; intros off H; cbn [term_truncate term_end]; [lia|].
  destruct (entry_span e <=? off) eqn:E; cbn [term_end]; [|lia]. specialize (IH (off - entry_span e) ltac:(lia)). lia. Qed.

Lemma render_term_put t off es : 0 <= off ->
  render_term (term_put t off es) = render_term (term_truncate t off) ++ render_from off es.
Proof. intros H. unfold render_term, term_put. pose proof (trunc_end t off H) as Hle.
  rewrite !render_from_app. cbn [Z.add]. destruct (0 <? off - term_end (term_truncate t off)) eqn:E.
  - cbn [render_from term_end app entry_span]. apply f_equal. apply (f_equal (fun o => render_from o es)). lia.
  - cbn [render_from term_end app entry_span]. apply f_equal. apply (f_equal (fun o => render_from o es)). lia. Qed.

(* every entry fits in what is left: truncation keeps the whole list *)
Fixpoint fits (l : term) (off : Z) : Prop :=
  match l with [] => True | e :: r => entry_span e <= off /\ fits r (off - entry_span e) end.

Lemma fits_trunc l : forall off, fits l off -> term_truncate l off = l.
Proof. induction l as [|e r IH]; intros off H; cbn [term_truncate]; [reflexivity|]. destruct H as (H1 & H2).
  replace (entry_span e <=? off) with true by lia. f_equal. apply IH. assumption. Qed.

Lemma fits_mono l : forall off off', off <= off' -> fits l off -> fits l off'.
Proof. induction l as [|e r IH]; intros off off' H F; cbn [fits] in *; [exact I|]. destruct F as (F1 & F2).
  split; [lia|]. apply (IH (off - entry_span e)); [lia | assumption]. Qed.

Lemma trunc_fits t : forall off, fits (term_truncate t off) off.
Proof. induction t as [|e r IH]; intros off; cbn [term_truncate]; [exact I|].
  destruct (entry_span e <=? off) eqn:E; cbn [fits]; [|exact I]. split; [lia | apply IH]. Qed.

Lemma fits_app a b off : fits a off -> fits b (off - term_end a) -> fits (a ++ b) off.
Proof. revert off. induction a as [|e r IH]; intros off Fa Fb; cbn [app term_end fits] in *.
  - replace (off - 0) with off in Fb by lia. assumption.
  - destruct Fa as (F1 & F2). split; [assumption|]. apply IH; [assumption|]. replace (off - entry_span e - term_end r) with (off - (entry_span e + term_end r)) by lia. assumption. Qed.

Lemma term_end_nonneg l : Forall (fun e => 0 <= entry_span e) l -> 0 <= term_end l.
Proof. induction 1; cbn [term_end]; lia. Qed.

Lemma fits_nonneg l off : Forall (fun e => 0 <= entry_span e) l -> term_end l <= off -> fits l off.
Proof. revert off. induction l as [|e r IH]; intros off Hp Hle; cbn [fits term_end] in *; [exact I|].
  inversion Hp as [|? ? P1 P2]; subst.
  assert (0 <= term_end r) by (clear -P2; induction r as [|x r' IH']; cbn [term_end]; [lia | inversion P2; subst; specialize (IH' H2); lia]).
  split; [lia|]. apply IH; [assumption | lia]. Qed.

(* nothing that is rendered is lost when entries are put at `off` *)
Definition put_ok (t : term) (off : Z) : Prop := render_term (term_truncate t off) = render_term t.

Lemma put_ok_after t off es off' : 0 <= off -> Forall (fun e => 0 <= entry_span e) es -> off + term_end es <= off' ->
  put_ok (term_put t off es) off'.
Proof. intros H Hp Hle. unfold put_ok. rewrite fits_trunc; [reflexivity|].
  pose proof (trunc_end t off H) as Hte. pose proof (term_end_nonneg es Hp) as Hes. unfold term_put.
  apply fits_app; [apply (fits_mono _ off); [lia | apply trunc_fits]|].
  apply fits_app.
  - destruct (0 <? off - term_end (term_truncate t off)) eqn:E; cbn [fits entry_span]; [split; [lia | exact I] | exact I].
  - apply fits_nonneg; [assumption|].
    destruct (0 <? off - term_end (term_truncate t off)) eqn:E; cbn [term_end entry_span]; lia. Qed.

Lemma put_ok_mono t off off' : off <= off' -> put_ok t off -> fits t off -> put_ok t off'.
Proof. intros H _ F. unfold put_ok. rewrite fits_trunc; [reflexivity | eapply fits_mono; eauto]. Qed.

Lemma put_ok_empty t off : render_term t = [] -> put_ok t off.
Proof. intros H. unfold put_ok. rewrite H.
  assert (P : forall l o x, render_from o l = [] -> render_from o (term_truncate l x) = []).
  { induction l as [|e r IH]; intros o x Hr; cbn [term_truncate]; [reflexivity|].
    destruct (entry_span e <=? x); [|reflexivity]. destruct e as [f | f | n]; cbn [render_from entry_span] in *.
    - apply app_eq_nil in Hr. destruct Hr as (-> & Hr). cbn [app]. apply IH. assumption.
    - apply app_eq_nil in Hr. destruct Hr as (-> & Hr). cbn [app]. apply IH. assumption.
    - apply IH. assumption. }
  apply P. assumption. Qed.

(* ---- slots as Committed entries ---- *)
Definition slot_entry (p : Z * slot) : LogBase.entry := Committed (frame_of_slot (snd p)).

Lemma frender_render_from c a frs b : laid c a frs b -> frender frs = render_from a (map slot_entry frs).
Proof. induction 1 as [o | o sl r e Hl Hr IH]; [reflexivity|].
  unfold frender in *. cbn [flat_map map fst snd slot_entry render_from]. rewrite IH. reflexivity. Qed.

Lemma slot_entries_span c a frs b : laid c a frs b ->
  a + term_end (map slot_entry frs) = b /\ Forall (fun e => 0 <= entry_span e) (map slot_entry frs).
Proof. induction 1 as [o | o sl r e Hl Hr IH]; [split; [cbn; lia | constructor]|].
  destruct IH as (I1 & I2). cbn [map slot_entry term_end entry_span snd frame_of_slot f_len].
  pose proof (align_pos (s_len sl) ltac:(lia)) as [A _]. rewrite FA_32 in *. split; [lia|]. constructor; [cbn; rewrite FA_32; lia | assumption]. Qed.

(* ---- slot memory: writing frames into zero memory above `off` appends their rendering ---- *)
Lemma render_part_ext m m' : forall n o, (forall j, (j < n)%nat -> m (o + FA * Z.of_nat j) = m' (o + FA * Z.of_nat j)) ->
  render_part m o n = render_part m' o n.
Proof. induction n as [|n IH]; intros o H; [reflexivity|]. cbn [render_part].
  assert (E : m o = m' o) by (specialize (H O ltac:(lia)); change FA with 32 in H; replace (o + 32 * Z.of_nat 0) with o in H by lia; exact H).
  rewrite E. f_equal. apply IH. intros j Hj. specialize (H (S j) ltac:(lia)).
  replace (o + FA + FA * Z.of_nat j) with (o + FA * Z.of_nat (S j)) by (change FA with 32; lia). exact H. Qed.

Lemma render_after_write c (W : wf_cfg c) (m m' : Z -> slot) off frs b :
  laid c off frs b -> 0 <= off -> off mod 32 = 0 -> b <= TL c ->
  (forall o, off <= o -> m o = zslot) ->
  (forall o sl, In (o, sl) frs -> m' o = sl) ->
  (forall o, (forall sl, ~ In (o, sl) frs) -> m' o = m o) ->
  render_part m' 0 (Z.to_nat (TL c / FA)) = render_part m 0 (Z.to_nat (TL c / FA)) ++ frender frs.
Proof. intros L Ho Hom Hb Hz Hw Hk. destruct (TL_bounds c W) as (TB & TM).
  destruct (laid_bounds _ _ _ _ L) as (Hob & B).
  set (n1 := Z.to_nat (off / 32)). set (n2 := Z.to_nat ((TL c - off) / 32)).
  assert (Hn : Z.to_nat (TL c / FA) = (n1 + n2)%nat).
  { unfold n1, n2. rewrite FA_32. assert (TL c / 32 = off / 32 + (TL c - off) / 32) by (Z.div_mod_to_equations; lia).
    assert (0 <= off / 32) by (Z.div_mod_to_equations; lia). assert (0 <= (TL c - off) / 32) by (Z.div_mod_to_equations; lia). lia. }
  rewrite Hn, !render_part_app. rewrite FA_32.
  assert (E1 : 0 + 32 * Z.of_nat n1 = off) by (unfold n1; Z.div_mod_to_equations; lia). rewrite E1.
  rewrite (render_part_zero m n2 off) by (intros j _; apply Hz; rewrite FA_32; lia). rewrite app_nil_r. f_equal.
  - apply render_part_ext. intros j Hj. rewrite FA_32. apply Hk. intros sl Hin. destruct (B _ _ Hin) as (B1 & _).
    assert (32 * Z.of_nat n1 = off) by lia. lia.
  - unfold n2. apply (render_part_region c m' off off frs b (TL c) L); try assumption; try lia.
    intros o Ho1 Ho2 Hnot. rewrite Hk by assumption. apply Hz. lia. Qed.

(* ---- the fragment loop of Appender.v = the frames of FragArith.frags_from ---- *)
Definition rv0 : Z -> Z -> list Z -> Z := fun _ _ _ => 0.

Definition geom_ok (c : cfg) (lg : log) : Prop :=
  l_init lg = c_init c /\ l_tlen lg = TL c /\ l_mtu lg = c_mtu c /\ l_session lg = c_sess c /\ l_stream lg = c_strm c.

Lemma st6_frame c lg tid msg foff rem fl : geom_ok c lg ->
  frame_of_slot (st6 c tid msg foff rem fl) =
  data_frame lg foff (flen c rem) tid (if is_fragmented c (FragArith.zlen msg) then fflags c rem fl else F_UNFRAG) T_DATA 0 (fbody c msg rem).
Proof. intros (_ & _ & _ & Hs & Hst). unfold data_frame. rewrite Hs, Hst.
  unfold st6, st5, st4, st3, st2, st1. destruct (is_fragmented c (FragArith.zlen msg)); reflexivity. Qed.

Lemma frag_loop_frags c (W : wf_cfg c) lg tid msg : geom_ok c lg -> is_fragmented c (FragArith.zlen msg) = true ->
  forall fuel2 fuel1 foff rem fl, 0 <= rem -> (Z.to_nat rem <= fuel2)%nat -> (Z.to_nat (rem / max_payload c) < fuel1)%nat ->
  frag_loop fuel1 lg rv0 tid (max_payload c) (FragArith.zlen msg) msg fl rem foff =
  map slot_entry (frags_from c tid msg fuel2 foff rem fl).
Proof. intros G Hfr. pose proof (mp_pos c W) as [Hmp _].
  assert (ONE : forall foff rem fl,
            Committed (data_frame lg foff (Z.min rem (max_payload c) + HDR) tid (if rem <=? max_payload c then Z.lor fl F_END else fl) T_DATA
                                  (rv0 foff (Z.min rem (max_payload c) + HDR) (slice msg (FragArith.zlen msg - rem) (Z.min rem (max_payload c))))
                                  (slice msg (FragArith.zlen msg - rem) (Z.min rem (max_payload c)))) =
            slot_entry (foff, st6 c tid msg foff rem fl)).
  { intros foff rem fl. unfold slot_entry. cbn [snd]. rewrite (st6_frame c lg) by assumption. rewrite Hfr. reflexivity. }
  induction fuel2 as [|f2 IH]; intros fuel1 foff rem fl Hr Hf2 Hf1; (destruct fuel1 as [|f1]; [lia|]); cbn [frag_loop frags_from].
  - assert (rem = 0) by lia. subst rem. unfold fbytes. replace (0 - Z.min 0 (max_payload c) <=? 0) with true by lia.
    cbn [map]. rewrite ONE. reflexivity.
  - unfold fbytes. destruct (rem - Z.min rem (max_payload c) <=? 0) eqn:E; cbn [map]; rewrite ONE; [reflexivity|]. f_equal.
    assert (Hgt : max_payload c < rem) by lia. rewrite Z.min_r in * by lia.
    rewrite FA_32. unfold flen, fbytes. rewrite Z.min_r by lia. rewrite <- FA_32. apply IH; [lia | lia|].
    assert (rem / max_payload c = (rem - max_payload c) / max_payload c + 1).
    { rewrite <- Z.div_add by lia. f_equal. ring. }
    assert (0 <= (rem - max_payload c) / max_payload c) by (apply Z.div_pos; lia). lia. Qed.
