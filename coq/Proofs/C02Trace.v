(* Reachability with the trace of shared accesses, and what the oracle's scan of the trace (cleaned_after: was the
   partition zeroed by the driver after the last rotation into it) says about the ghost state of the invariant. *)
Require Import V.Base.MachineInt.
Require Import V.Generated.GenConsts.
Require Import V.Model.LogBase.
Require Import V.Model.Descriptor.
Require Import V.Model.Sched.
Require Import V.Model.AppenderThreads.
Require Import V.Oracle.C02Oracle.
Require Import V.Proofs.TailArith.
Require Import V.Proofs.FragArith.
Require Import V.Proofs.AppenderInv.
Require Import V.Proofs.AppenderLemmas.
Require Import V.Proofs.AppenderFaa.
Require Import V.Proofs.AppenderRotate.
Require Import V.Proofs.AppenderInv2.
Require Import V.Proofs.C02Proofs.
Require Import V.Proofs.AppenderMsgs.
From Coq Require Import ZifyBool.
Open Scope Z_scope.

Definition cstep (e : event) (p : Z) (cur : bool) : bool :=
  if accessor_eqb (e_acc e) SetMemory && (e_reg e =? p) then true
  else if accessor_eqb (e_acc e) CompareAndSetI64 && (e_reg e =? R_META) && (e_off e =? TAIL_OFF p) && (e_val e =? e_before e) then false
  else cur.

Lemma cleaned_after_snoc tr e p : forall cur, cleaned_after (tr ++ [e]) p cur = cstep e p (cleaned_after tr p cur).
Proof. induction tr as [|e0 r IH]; intros cur; cbn [app cleaned_after].
  - unfold cstep. destruct (_ && _); [reflexivity|]. destruct (_ && _); reflexivity.
  - destruct (_ && _); [apply IH|]. destruct (_ && _); apply IH. Qed.

Section Trace.
  Variable c : cfg.
  Hypothesis W : wf_cfg c.
  Variable orig : nat -> list (list Z).

  (* reachm (publishers started with the lists `orig`) together with the trace of the events of the steps taken *)
  Inductive reacht : shared -> (nat -> thread) -> ghost -> list event -> Prop :=
  | reacht_init limit th :
      (forall t, match th t with TPub l => exists b, l = p_start (orig t) b [] | _ => True end) ->
      reacht (init_shared c limit) th ghost0 []
  | reacht_step s th gh tr t s' x' e :
      reacht s th gh tr -> sys_adm c s th t -> tstep c t s (th t) = Some (s', x', e) ->
      reacht s' (upd_thread th t x') (sys_gstep c t s (th t) gh) (tr ++ [e]).

  Lemma reacht_reachm s th gh tr : reacht s th gh tr -> reachm c orig s th gh.
  Proof. induction 1; [apply reachm_init; assumption | eapply reachm_step; eauto]. Qed.

  Definition CI (s : shared) (gh : ghost) (tr : list event) : Prop :=
    forall p, 0 <= p < 3 -> c_n0 c <= tg c s p -> cleaned_after tr p false = g_cleaned gh (tg c s p).

  Lemma ci_same s s' gh gh' tr e : CI s gh tr -> (forall p, tg c s' p = tg c s p) -> g_cleaned gh' = g_cleaned gh ->
    (forall p cur, cstep e p cur = cur) -> CI s' gh' (tr ++ [e]).
  Proof. intros H Ht Hg He p Hp Hn. rewrite cleaned_after_snoc, He, Ht, Hg. rewrite Ht in Hn. apply H; assumption. Qed.

  Lemma tail_off_inj p q : TAIL_OFF p = TAIL_OFF q -> p = q.
  Proof. unfold TAIL_OFF. lia. Qed.

  Theorem reacht_cleaned s th gh tr : reacht s th gh tr -> CI s gh tr.
  Proof. induction 1 as [limit th Hi | s th gh tr t s' x' e Hr IH Hadm Hstep].
    - intros p Hp Hn. reflexivity.
    - pose proof (reach_inv c W s th gh (reachm_reach c orig _ _ _ (reacht_reachm _ _ _ _ Hr))) as I.
      pose proof (iv_A c s gh _ I) as A.
      unfold sys_adm in Hadm. unfold sys_gstep. unfold tstep in Hstep.
      destruct (th t) as [l | l |] eqn:Eth; try discriminate.
      + destruct (pstep c t s l) as [[[s1 l1] e1]|] eqn:Ep; try discriminate. inversion Hstep; subst s' x' e. clear Hstep.
        assert (HP : pubs th t = Some l) by (unfold pubs; rewrite Eth; reflexivity).
        unfold pstep in Ep. unfold gstep_pub.
        destruct (p_pc l) eqn:Hpc; try discriminate Ep; inversion Ep; subst s1 l1 e1; clear Ep;
          try (apply (ci_same s _ gh gh tr _ IH); [intros; reflexivity | reflexivity | intros; reflexivity]).
        * (* PFaa *)
          apply (ci_same s _ gh _ tr _ IH); [| reflexivity | intros; reflexivity].
          intros p. apply (faa_tg c W s gh (pubs th) t l I HP Hpc Hadm p).
        * (* RCasTail *)
          destruct (sh_tail s (next_index l) =? p_next l) eqn:Ecas.
          -- assert (Hsucc : sh_tail s (next_index l) = p_next l) by lia.
             destruct (castail_facts c W s gh (pubs th) t l I HP Hpc Hadm Hsucc) as (Hcnt & Hq & Hq3 & Htq & _).
             intros p Hp Hn. rewrite cleaned_after_snoc.
             rewrite (castail_tg c W s gh (pubs th) t l I HP Hpc Hadm Hsucc p Hp) in *.
             unfold cstep, ev. cbn [e_acc e_reg e_off e_val e_before accessor_eqb andb]. rewrite Hsucc, !Z.eqb_refl. cbn [andb].
             destruct (p =? (sh_count s + 1) mod 3) eqn:Epq.
             ++ assert (p = next_index l) by lia. subst p. rewrite Z.eqb_refl.
                destruct (empty_succ c s gh A Htq) as (_ & Hc). symmetry. exact Hc.
             ++ replace (TAIL_OFF (next_index l) =? TAIL_OFF p) with false.
                ** apply IH; assumption.
                ** symmetry. apply Z.eqb_neq. intros E. apply tail_off_inj in E. lia.
          -- apply (ci_same s _ gh gh tr _ IH); [intros; reflexivity | reflexivity |].
             intros p cur. unfold cstep, ev. cbn [e_acc e_reg e_off e_val e_before accessor_eqb andb].
             rewrite Z.eqb_sym in Ecas. rewrite Ecas, !andb_false_r. reflexivity.
        * (* RCasCount *)
          apply (ci_same s _ gh gh tr _ IH); [| reflexivity | intros; reflexivity].
          intros p. destruct (_ =? _); reflexivity.
      + unfold estep in Hstep. destruct (e_ops l) as [|op r] eqn:Eops; try discriminate.
        destruct op as [v | p0]; inversion Hstep; subst s' x' e; clear Hstep.
        * apply (ci_same s _ gh gh tr _ IH); [intros; reflexivity | reflexivity | intros; reflexivity].
        * cbn [gstep_env]. destruct Hadm as (Hp0 & _).
          intros p Hp Hn. rewrite cleaned_after_snoc. unfold cstep, ev. cbn [e_acc e_reg e_off e_val e_before accessor_eqb andb].
          assert (Htg : forall q, tg c (with_mem s (mclean (sh_mem s) p0)) q = tg c s q) by reflexivity.
          rewrite Htg in *. destruct (p0 =? p) eqn:Epp.
          -- assert (p0 = p) by lia. subst p0. replace (c_n0 c <=? tg c s p) with true by lia. cbn [set_cleaned g_cleaned].
             rewrite Z.eqb_refl. reflexivity.
          -- cbn [andb]. rewrite IH by assumption. destruct (c_n0 c <=? tg c s p0) eqn:En; [|reflexivity].
             cbn [set_cleaned g_cleaned]. destruct (tg c s p =? tg c s p0) eqn:Et; [|reflexivity].
             exfalso. assert (p = p0) by (apply (tg_inj c s gh p p0 A Hp Hp0); lia). lia. Qed.
End Trace.
