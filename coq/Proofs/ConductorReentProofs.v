(* Re-entrant calls from user callbacks (Model/ConductorReent.v): the dead-lock, and that it is the only thing that separates
   a history with scripted callbacks from the plain history. *)
Require Import V.Base.MachineInt.
Require Import V.Generated.GenConsts.
Require Import V.Model.Conductor.
Require Import V.Model.ConductorReent.
Require Import V.Proofs.ConductorBase.
Require Import V.Proofs.ConductorInv.
Require Import V.Proofs.ConductorProofs.
Require Import V.Proofs.ConductorClose.
Require Import V.Oracle.C09Oracle.
Require Import V.Oracle.C10Oracle.
Require Import V.Proofs.C09OracleProofs.
Require Import V.Proofs.C10OracleProofs.
Require Import V.Proofs.C10ImagesProofs.
Require Import V.Proofs.C10CountersProofs.
Require Import V.Proofs.C10ChanProofs.
From Coq Require Import ZifyBool.
Open Scope Z_scope.

(* a callback that calls the client: the operation that fires it never comes back *)
Lemma reent_deadlock c x o :
  r_script x <> 0 -> fires (snd (fst (snd (step c (r_s x) o)))) = true -> rstep c x (ROp o) = (x, (Hang, [], [])).
Proof. intros Hs Hf. unfold rstep. destruct (step c (r_s x) o) as [s' [[r cbs] cmds]]. cbn [fst snd] in Hf.
  replace (r_script x =? 0) with false by lia. rewrite Hf. reflexivity. Qed.

(* without such a callback - the callbacks only record, or the operation fires none - the operation is the plain one, and it
   answers Ok or Err *)
Lemma reent_plain c x o :
  r_script x = 0 \/ fires (snd (fst (snd (step c (r_s x) o)))) = false ->
  rstep c x (ROp o) = (mkR (fst (step c (r_s x) o)) (r_script x), snd (step c (r_s x) o)) /\
  fine (fst (fst (snd (rstep c x (ROp o))))).
Proof. intros H. pose proof (step_total c (r_s x) o) as Hfine. unfold rstep.
  destruct (step c (r_s x) o) as [s' [[r cbs] cmds]]. cbn [fst snd] in *.
  assert (Hc : negb (r_script x =? 0) && fires cbs = false).
  { destruct H as [H|H]; [rewrite H; reflexivity|rewrite H; apply Bool.andb_false_r]. }
  rewrite Hc. split; [reflexivity|exact Hfine]. Qed.

(* the dead-lock is the only outcome that is not Ok / Err *)
Lemma reent_total_or_deadlock c x o :
  fine (fst (fst (snd (rstep c x o)))) \/
  (exists o', o = ROp o' /\ r_script x <> 0 /\ fires (snd (fst (snd (step c (r_s x) o')))) = true /\ snd (rstep c x o) = (Hang, [], [])).
Proof. destruct o as [o|n]; [|left; exact Logic.I].
  destruct (Z.eq_dec (r_script x) 0) as [H0|H0]; [left; apply reent_plain; auto|].
  destruct (fires (snd (fst (snd (step c (r_s x) o))))) eqn:Ef; [|left; apply reent_plain; auto].
  right. exists o. rewrite (reent_deadlock c x o H0 Ef). auto. Qed.

(* a conductor whose callbacks never fire under a calling script is the plain conductor *)
Lemma set_now_same s : set_now (now s + 0) s = s.
Proof. destruct s. unfold set_now. cbn. rewrite Z.add_0_r. reflexivity. Qed.

Lemma fine_not_hang (y : out) : fine (fst (fst y)) -> is_hang y = false.
Proof. unfold is_hang. destruct (fst (fst y)); cbn; tauto. Qed.

Lemma rrun_no_hang c ops : forall x,
  forallb (fun y => negb (is_hang y)) (rrun c x ops) = true ->
  rrun c x ops = snd (run c (r_s x) (map plain ops)).
Proof. induction ops as [|o ops IH]; intros x H; cbn [rrun map run]; [reflexivity|].
  cbn [rrun] in H. destruct o as [o|n].
  - cbn [plain]. unfold rstep in *. destruct (step c (r_s x) o) as [s' [[r cbs] cmds]] eqn:Es.
    destruct (negb (r_script x =? 0) && fires cbs).
    + cbn [is_hang fst] in H. cbn in H. discriminate.
    + pose proof (step_total c (r_s x) o) as Hf. rewrite Es in Hf. cbn [fst snd] in Hf.
      pose proof (fine_not_hang (r, cbs, cmds) Hf) as Hh. rewrite Hh in H |- *. cbn [forallb] in H. rewrite Hh in H. cbn [negb andb] in H.
      rewrite (IH (mkR s' (r_script x)) H). cbn [r_s]. destruct (run c s' (map plain ops)). reflexivity.
  - cbn [rstep plain step] in *. assert (Hh : is_hang (Ok [], [], []) = false) by reflexivity. rewrite Hh in H |- *.
    cbn [forallb] in H. rewrite Hh in H. cbn [negb andb] in H.
    rewrite (IH (mkR (r_s x) n) H). cbn [r_s]. rewrite set_now_same. destruct (run c (r_s x) (map plain ops)). reflexivity. Qed.

Lemma tick_ok_plain ops : Forall (fun o => match o with ROp o' => tick_ok o' | RScript _ => True end) ops -> Forall tick_ok (map plain ops).
Proof. induction 1; cbn; constructor; auto. destruct x; cbn; auto. lia. Qed.

(* the judges of C09 and C10 accept the model's observations of every scripted history that does not dead-lock *)
Theorem oracles_reent c0 now0 tdrv tis ops :
  Forall (fun o => match o with ROp o' => tick_ok o' | RScript _ => True end) ops ->
  forallb (fun y => negb (is_hang y)) (rrun_obs c0 now0 tdrv tis ops) = true ->
  holds_c10 c0 now0 tdrv tis (map plain ops) (rrun_obs c0 now0 tdrv tis ops) = true /\
  holds_c09 c0 now0 tdrv tis (map plain ops) (rrun_obs c0 now0 tdrv tis ops) = true.
Proof. intros Ht Hn. unfold rrun_obs in *. rewrite (rrun_no_hang _ _ _ Hn). cbn [rinit r_s].
  change (snd (run (mkCfg tdrv tis) (init c0 now0) (map plain ops))) with (run_obs c0 now0 tdrv tis (map plain ops)). split.
  - unfold holds_c10. rewrite c10_core_model by (apply tick_ok_plain; exact Ht). rewrite c10_imgs_model, c10_ctrs_model, c10_chan_model. reflexivity.
  - apply c09_oracle_model. Qed.

(* ... and the core judge of C10 rejects every history that does *)
Lemma core_rejects_hang c0 tdrv tis : forall ops outs w,
  existsb is_hang outs = true -> c10_core_run c0 tdrv tis w ops outs = false.
Proof. induction ops as [|o ops IH]; intros outs w H; destruct outs as [|y outs]; cbn in *; try discriminate; auto.
  destruct (is_hang y) eqn:Eh.
  - unfold c10_core_step. destruct y as [[r cbs] cmds]. unfold is_hang in Eh. cbn [fst] in Eh. destruct r; try discriminate. reflexivity.
  - cbn [orb] in H. destruct (c10_core_step c0 tdrv tis w o y); auto. Qed.

Theorem c10_rejects_deadlock c0 now0 tdrv tis ops outs :
  existsb is_hang outs = true -> holds_c10 c0 now0 tdrv tis ops outs = false.
Proof. intros H. unfold holds_c10. rewrite (core_rejects_hang c0 tdrv tis ops outs (winit now0) H). reflexivity. Qed.
