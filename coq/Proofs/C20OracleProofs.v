(* C20: the image poll flavours satisfy what Subscription::poll_inner needs of them (so that the bound on the total
   holds for real images), and the oracle's pieces hold for the model. *)
Require Import V.Base.MachineInt.
Require Import V.Generated.GenConsts.
Require Import V.Model.LogBase.
Require Import V.Model.Descriptor.
Require Import V.Model.Reader.
Require Import V.Model.Image.
Require Import V.Model.Subscription.
Require Import V.Model.Assembler.
Require Import V.Oracle.C05Cases.
Require Import V.Oracle.C05Oracle.
Require Import V.Oracle.C20Cases.
Require Import V.Oracle.C20Oracle.
Require Import V.Proofs.ReaderProofs.
Require Import V.Proofs.ImageProofs.
Require Import V.Proofs.C05OracleProofs.
Require Import V.Proofs.SubscriptionProofs.
Require Import V.Proofs.AssemblerProofs.
From Coq Require Import ZifyBool.
Open Scope Z_scope.

(* for every log, image, limit and script - no well-formedness needed - a controlled poll returns between 0 and the limit *)
Lemma controlled_poll_count l im lim sc n ds ws im' :
  image_controlled_poll l im lim sc = Ok (Ok n, ds, ws, im') -> 0 <= n <= Z.max 0 lim.
Proof. unfold image_controlled_poll. destruct (im_closed im); [intros H; inversion H; lia|].
  destruct (sel l (im_pos im)) as [[fs off]| | | |]; cbn [bind]; try discriminate.
  destruct (cloop_spec (l_tlen l) lim (im_pos im - off) fs sc off 0 off) as (k & ab & Hk & Ha & He).
  replace (im_pos im - off + off) with (im_pos im) in He by lia. rewrite He, cfinish_cres. intros H; inversion H; subst.
  pose proof (adm_budget _ _ _ _ _ _ _ Ha) as Hb. rewrite app_length, Nat2Z.inj_add in Hb. lia. Qed.

Lemma pk_poll_ok sl lim : 0 < lim -> 0 <= fst (fst (pk_poll sl lim)) <= lim.
Proof. intros Hl. unfold pk_poll. rewrite poll_as_controlled.
  destruct (image_controlled_poll (slot_log sl) (slot_image sl) lim []) as [[[[[n| | | |] ds] ws] im']| | | |] eqn:E; cbn [fst]; try lia.
  apply controlled_poll_count in E. lia. Qed.

Lemma pk_cpoll_ok salt tab sl lim : 0 < lim -> 0 <= fst (fst (pk_cpoll salt tab sl lim)) <= lim.
Proof. intros Hl. unfold pk_cpoll.
  destruct (image_controlled_poll (slot_log sl) (slot_image sl) lim (script_for salt tab sl)) as [[[[[n| | | |] ds] ws] im']| | | |] eqn:E;
    cbn [fst]; try lia.
  apply controlled_poll_count in E. lia. Qed.

(* C20_bounded for real images: Subscription::poll and controlled_poll over any image list deliver at most
   fragment_limit fragments in total and poll each image at most once *)
Theorem sub_poll_bounded (s : sub slot) limit : 0 <= s_rr s ->
  let '(total, s', ds, polled) := poll_inner pk_poll s limit in
  0 <= total <= Z.max 0 limit /\ NoDup polled /\
  Forall (fun j => 0 <= j < Z.of_nat (length (s_images s))) polled /\
  length (s_images s') = length (s_images s) /\ 0 <= s_rr s' <= Z.of_nat (length (s_images s)).
Proof. apply poll_inner_bounded. intros; apply pk_poll_ok; assumption. Qed.

Theorem sub_cpoll_bounded salt tab (s : sub slot) limit : 0 <= s_rr s ->
  let '(total, s', ds, polled) := poll_inner (pk_cpoll salt tab) s limit in
  0 <= total <= Z.max 0 limit /\ NoDup polled /\
  Forall (fun j => 0 <= j < Z.of_nat (length (s_images s))) polled /\
  length (s_images s') = length (s_images s) /\ 0 <= s_rr s' <= Z.of_nat (length (s_images s)).
Proof. apply poll_inner_bounded. intros; apply pk_cpoll_ok; assumption. Qed.
