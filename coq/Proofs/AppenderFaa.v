(* Preservation of AppInv by the get_and_add on the raw tail (the step that creates a claim). *)
Require Import V.Base.MachineInt.
Require Import V.Generated.GenConsts.
Require Import V.Model.LogBase.
Require Import V.Model.Descriptor.
Require Import V.Proofs.DescriptorProofs.
Require Import V.Model.Sched.
Require Import V.Model.AppenderThreads.
Require Import V.Proofs.TailArith.
Require Import V.Proofs.FragArith.
Require Import V.Proofs.AppenderInv.
Require Import V.Proofs.AppenderLemmas.
Require Import V.Proofs.AppenderFrame.
Require Import V.Proofs.AppenderSteps.
From Coq Require Import ZifyBool.
Open Scope Z_scope.

Lemma slot_eq_dec (a b : slot) : {a = b} + {a <> b}.
Proof. decide equality; try apply Z.eq_dec. apply (list_eq_dec Z.eq_dec). Qed.

Ltac phases := cbn [after_count after_tail inflight writing padding rotating] in *.

Section Faa.
  Variable c : cfg.
  Hypothesis W : wf_cfg c.

  Lemma claims_add_same gh g e : g_claims (add_claim gh g e) g = g_claims gh g ++ [e].
  Proof. cbn. rewrite Z.eqb_refl. reflexivity. Qed.
  Lemma claims_add_other gh g e g' : g' <> g -> g_claims (add_claim gh g e) g' = g_claims gh g'.
  Proof. intros. cbn. destruct (g' =? g) eqn:E; [lia | reflexivity]. Qed.
  Lemma claims_add_mono gh g e g' x : In x (g_claims gh g') -> In x (g_claims (add_claim gh g e) g').
  Proof. intros. cbn. destruct (g' =? g) eqn:E; [|assumption]. apply Z.eqb_eq in E. subst. apply in_or_app. left. assumption. Qed.
  Lemma claims_add_inv gh g e g' x : In x (g_claims (add_claim gh g e) g') -> In x (g_claims gh g') \/ (g' = g /\ x = e).
  Proof. cbn. destruct (g' =? g) eqn:E; [|auto]. apply Z.eqb_eq in E. subst. intros H. apply in_app_or in H.
    destruct H as [H | [H | []]]; auto. Qed.

  Lemma tripped_mono gh g e g' : tripped c gh g' -> tripped c (add_claim gh g e) g'.
  Proof. intros (x & Hx & Hb). exists x. split; [apply claims_add_mono; assumption | assumption]. Qed.

  (* the three tails carry three different generations *)
  Lemma tg_inj s gh p1 p2 : TailInv c s gh -> 0 <= p1 < 3 -> 0 <= p2 < 3 -> tg c s p1 = tg c s p2 -> p1 = p2.
  Proof. intros A H1 H2 E. pose proof (iv_act c s gh A) as Ha. pose proof (iv_prev c s gh A) as Hp. pose proof (iv_next c s gh A) as Hn.
    set (n := sh_count s) in *.
    assert (Q : forall p, 0 <= p < 3 -> p = n mod 3 \/ p = (n + 1) mod 3 \/ p = (n + 2) mod 3).
    { intros p Hp0. pose proof (Z.div_mod n 3 ltac:(lia)). pose proof (Z.mod_pos_bound n 3 ltac:(lia)).
      pose proof (Z.div_mod (n+1) 3 ltac:(lia)). pose proof (Z.mod_pos_bound (n+1) 3 ltac:(lia)).
      pose proof (Z.div_mod (n+2) 3 ltac:(lia)). pose proof (Z.mod_pos_bound (n+2) 3 ltac:(lia)). lia. }
    destruct (Q p1 H1) as [-> | [-> | ->]]; destruct (Q p2 H2) as [-> | [-> | ->]]; try reflexivity; exfalso; lia. Qed.

  (* a generation some tail carries, or one already passed, is between n0-2 and count+1 *)
  Lemma zero_above_tail s gh P p o : AppInv c s gh P -> 0 <= p < 3 -> toff s p <= o -> sh_mem s p o = zslot.
  Proof. intros I Hp Ho. pose proof (iv_A c s gh P I) as A. destruct (iv_mem c s gh P I p Hp) as (M1 & M2).
    destruct (Z_lt_ge_dec (tg c s p) (c_n0 c)) as [Hlt | Hge]; [apply M1; auto|].
    destruct (g_cleaned gh (tg c s p)) eqn:Ecl; [apply M1; auto|].
    destruct (slot_eq_dec (sh_mem s p o) zslot) as [|Hne]; [assumption|]. exfalso.
    destruct (M2 ltac:(lia) eq_refl o Hne) as (e & He & Hin).
    destruct (iv_ent c s gh P I _ _ He) as (_ & Ha & Ham & Hb & _).
    apply in_map_iff in Hin. destruct Hin as ([o1 sl] & E1 & Hin). cbn in E1. subst o1.
    destruct (efrags_range c _ e o sl W Ha Ham Hb Hin) as (_ & R2 & _).
    pose proof (iv_chain c s gh A p Hp ltac:(lia)) as Hc. destruct (chain_le _ _ _ Hc) as (_ & L).
    destruct (L e He) as (_ & _ & L3). lia. Qed.

  Section Step.
    Variables (s : shared) (gh : ghost) (P : nat -> option plocal) (t : nat) (l : plocal).
    Hypothesis I : AppInv c s gh P.
    Hypothesis HP : P t = Some l.
    Hypothesis Hpc : p_pc l = PFaa.
    Hypothesis Hadm : adm_pub c s P l.
    Let g := p_count l.
    Let p := g mod 3.
    Let raw := sh_tail s (r_idx l).
    Let d := required c (mlen l).
    Let a := toff s p.
    Let s' := with_tail s (r_idx l) (wrap64 (raw + d)).
    Let enew := mkE (lo32u raw) (lo32u raw + d) t (length (p_res l)) (cur_msg l).
    Let gh' := add_claim gh (gen_of c raw) enew.
    Let l1 := pl_faa l raw.

    Lemma faa_facts :
      r_idx l = p /\ 0 <= p < 3 /\ c_n0 c <= g <= sh_count s /\ gen_ok g /\
      tg c s p = g /\ raw = mk_raw c g a /\ 0 <= a /\ a + d < two32 /\ a mod 32 = 0 /\
      32 <= d /\ d mod 32 = 0 /\ lo32u raw = a /\ gen_of c raw = g /\
      wrap64 (raw + d) = mk_raw c g (a + d) /\
      (exists o, p_raw l = mk_raw c g o /\ 0 <= o <= a) /\ term_id_of raw = tid_of c g.
    Proof. pose proof (iv_A c s gh P I) as A. pose proof (iv_thr c s gh P I t l HP) as HT.
      assert (Hac : after_count (p_pc l) = true) by (rewrite Hpc; reflexivity).
      destruct (idx_of_count c W s gh t l A HT Hac) as (Hidx & Hp & Hgok).
      destruct HT as (H1 & H2 & _). specialize (H1 Hac). rewrite Hpc in H2. destruct (H2 eq_refl) as (o & Hraw & Ho & Hle).
      unfold adm_pub in Hadm. rewrite Hpc in Hadm. destruct Hadm as (Hst & Hroom).
      fold raw in Hst, Hroom. fold d in Hroom.
      destruct (iv_tail c s gh A p Hp) as (T1 & T2 & T3 & T4).
      assert (Hraw2 : raw = mk_raw c (tg c s p) a) by (subst raw; rewrite Hidx; exact T1).
      assert (Htg : tg c s p = g).
      { apply (tid_of_inj c); try assumption. unfold r_tid in Hst. rewrite Hraw, Hraw2 in Hst.
        rewrite !term_id_mk_raw in Hst by assumption. assumption. }
      rewrite Htg in Hraw2.
      pose proof (required_pos c (mlen l) W ltac:(unfold mlen; lia)) as (Rq1 & Rq2). fold d in Rq1, Rq2.
      assert (Hlo : lo32u raw = a) by (rewrite Hraw2; apply lo32u_mk_raw; assumption).
      rewrite Hlo in Hroom.
      assert (X1 : gen_of c raw = g).
      { unfold gen_of. rewrite Hraw2, term_id_mk_raw by assumption. apply gen_of_tid. assumption. }
      assert (X2 : wrap64 (raw + d) = mk_raw c g (a + d)) by (rewrite Hraw2; apply faa_mk_raw; lia).
      assert (X3 : exists o, p_raw l = mk_raw c g o /\ 0 <= o <= a).
      { exists o. split; [assumption|]. specialize (Hle Htg). unfold a, p, g. lia. }
      assert (X4 : term_id_of raw = tid_of c g) by (rewrite Hraw2; apply term_id_mk_raw; assumption).
      assert (X5 : 0 <= a /\ a + d < two32) by lia.
      destruct X5. split; [assumption|]. split; [exact Hp|]. split; [exact H1|]. split; [exact Hgok|].
      repeat (split; [assumption|]). assumption. Qed.

    Lemma faa_tg p' : tg c s' p' = tg c s p'.
    Proof. destruct faa_facts as (Hidx & Hp & Hg & Hgok & Htg & Hraw & Ha & Hroom & _ & Hd & _ & _ & _ & Hnew & _).
      unfold tg, s'. cbn [with_tail sh_tail]. rewrite Hidx. destruct (p' =? p) eqn:E; [|reflexivity].
      apply Z.eqb_eq in E. subst p'. rewrite Hnew. fold (tg c s p). rewrite Htg. apply gen_of_mk_raw; [assumption | lia]. Qed.

    Lemma faa_toff p' : toff s' p' = if p' =? p then a + d else toff s p'.
    Proof. destruct faa_facts as (Hidx & Hp & Hg & Hgok & Htg & Hraw & Ha & Hroom & _ & Hd & _ & _ & _ & Hnew & _).
      unfold toff, s'. cbn [with_tail sh_tail]. rewrite Hidx. destruct (p' =? p) eqn:E; [|reflexivity].
      rewrite Hnew. apply lo32u_mk_raw. lia. Qed.

    Lemma faa_live g0 : live c s' gh' g0 <-> live c s gh g0.
    Proof. unfold live. rewrite faa_tg. cbn [gh' add_claim g_cleaned]. tauto. Qed.

    Lemma faa_TailInv : TailInv c s' gh'.
    Proof. pose proof (iv_A c s gh P I) as A.
      destruct faa_facts as (Hidx & Hp & Hg & Hgok & Htg & Hraw & Ha & Hroom & Ham & Hd & Hdm & Hlo & Hgen & Hnew & _).
      constructor; change (sh_count s') with (sh_count s).
      - apply (iv_count c s gh A).
      - intros p' Hp'. rewrite faa_tg, faa_toff. destruct (iv_tail c s gh A p' Hp') as (T1 & T2 & T3 & T4).
        destruct (p' =? p) eqn:E.
        + apply Z.eqb_eq in E. subst p'. rewrite Htg. unfold s'. cbn [with_tail sh_tail]. rewrite Hidx, Z.eqb_refl.
          unfold gen_ok in *. repeat split; try assumption; try lia. rewrite Z.add_mod by lia. rewrite Ham, Hdm. reflexivity.
        + unfold s'. cbn [with_tail sh_tail]. rewrite Hidx, E. auto.
      - rewrite faa_tg. apply (iv_act c s gh A).
      - rewrite faa_tg. apply (iv_prev c s gh A).
      - rewrite faa_tg. apply (iv_next c s gh A).
      - rewrite faa_tg. intros H. apply tripped_mono. apply (iv_rot_trip c s gh A H).
      - intros g0 H. apply tripped_mono. apply (iv_trip c s gh A g0 H).
      - intros g0 Hn0. unfold gh'. rewrite Hgen. destruct (iv_chain_all c s gh A g0 Hn0) as (hi & Hc & Hhi).
        destruct (Z.eq_dec g0 g) as [-> | Hne].
        + exists (a + d). rewrite claims_add_same. rewrite <- (Hhi p Hp Htg) in Hc. split.
          * replace (a + d) with (e_b enew) by (cbn; rewrite Hlo; reflexivity).
            apply (chain_app _ _ (toff s p) enew Hc); [cbn; rewrite Hlo; reflexivity | cbn; lia].
          * intros p' Hp' Hq. rewrite faa_tg in Hq. rewrite faa_toff.
            assert (p' = p) by (apply (tg_inj s gh p' p A Hp' Hp); lia). subst p'. rewrite Z.eqb_refl. reflexivity.
        + exists hi. rewrite claims_add_other by assumption. split; [assumption|].
          intros p' Hp' Hq. rewrite faa_tg in Hq. rewrite faa_toff. destruct (p' =? p) eqn:E; [|apply Hhi; assumption].
          apply Z.eqb_eq in E. subst p'. lia.
      - intros g0 Hg0. unfold gh'. rewrite Hgen. cbn [add_claim g_cleaned]. rewrite claims_add_other.
        + apply (iv_empty c s gh A g0). destruct Hg0 as [Hg0 | (Hg1 & Hg2)]; [left; assumption | right].
          split; [assumption|]. intros p' Hp'. specialize (Hg2 p' Hp'). rewrite faa_tg in Hg2. assumption.
        + intros ->. destruct Hg0 as [Hg0 | (Hg1 & Hg2)]; [lia|]. apply (Hg2 p Hp). rewrite faa_tg. assumption.
      - intros p' Hp'. rewrite faa_tg, faa_toff. cbn [gh' add_claim g_cleaned]. intros Hcl.
        pose proof (iv_cleaned c s gh A p' Hp' Hcl). destruct (p' =? p) eqn:E; [|assumption].
        apply Z.eqb_eq in E. subst p'. fold a in H. lia. Qed.

    Lemma faa_ent_old P' g0 e : In e (g_claims gh g0) -> ent_ok c s gh P' g0 e -> ent_ok c s' gh' P' g0 e.
    Proof. intros He (H1 & H2 & H3 & H4 & l0 & HP0 & Hj & Hin & Hdone).
      repeat (split; [assumption|]). exists l0. repeat (split; [assumption|]).
      intros Hlt. destruct (Hdone Hlt) as (D1 & D2). split; [assumption|].
      intros Hl. apply faa_live in Hl. exact (D2 Hl). Qed.

    Lemma faa_frame : AppInvX c s' gh' P t.
    Proof. pose proof (iv_A c s gh P I) as A.
      destruct faa_facts as (Hidx & Hp & Hg & Hgok & Htg & Hraw & Ha & Hroom & Ham & Hd & Hdm & Hlo & Hgen & Hnew & _).
      constructor.
      - apply faa_TailInv.
      - intros g0 e He Hne. unfold gh' in He. apply claims_add_inv in He. destruct He as [He | (_ & ->)].
        + apply faa_ent_old; [assumption | apply (iv_ent c s gh P I); assumption].
        + exfalso. apply Hne. reflexivity.
      - intros t' l' Hne HP'. pose proof (iv_thr c s gh P I t' l' HP') as HT. unfold thr_ok in *.
        destruct HT as (H1 & H2 & H3 & H4 & H5 & H6 & H7 & H8 & H9).
        change (sh_count s') with (sh_count s). change (sh_mem s') with (sh_mem s).
        split; [exact H1|]. split.
        { intros Hat. destruct (H2 Hat) as (o & Ho1 & Ho2 & Ho3). exists o. split; [assumption|]. split; [assumption|].
          rewrite faa_tg, faa_toff. intros Hq. specialize (Ho3 Hq). destruct (_ =? p) eqn:E; [|assumption].
          apply Z.eqb_eq in E. rewrite E in Ho3. fold a in Ho3. lia. }
        split.
        { intros Hi. destruct (H3 Hi) as (X1 & X2 & X3 & X4). split; [assumption|]. split; [assumption|]. split; [assumption|]. apply claims_add_mono. assumption. }
        split.
        { intros Hw. destruct (H4 Hw) as (L & B & Wr). split; [apply faa_live; assumption|]. split; [assumption|]. exact Wr. }
        split.
        { intros Hw. destruct (H5 Hw) as (L & B & Wr). split; [apply faa_live; assumption|]. split; [assumption|]. exact Wr. }
        split.
        { intros Hw. destruct (H6 Hw) as (B & Wr). split; [assumption|]. intros Hl. apply faa_live in Hl. exact (Wr Hl). }
        split; [exact H7|]. split; [|exact H9].
        intros Hq. rewrite faa_tg. exact (H8 Hq).
      - intros p' Hp'. destruct (iv_mem c s gh P I p' Hp') as (M1 & M2). unfold mem_ok.
        change (sh_mem s') with (sh_mem s). rewrite faa_tg. cbn [gh' add_claim g_cleaned].
        split; [exact M1|]. intros X1 X2 o Hnz. destruct (M2 X1 X2 o Hnz) as (e & He & Hin). exists e.
        split; [apply claims_add_mono; assumption | assumption]. Qed.

    Definition faa_next : plocal :=
      if TL c <? a + d then (if a <? TL c then pl_pc l1 ENegLen else pl_pc l1 RReadNext)
      else pl_frag l1 PNegLen a (mlen l) F_BEGIN.

    Lemma after_faa_eq : after_faa c l1 = faa_next.
    Proof. destruct faa_facts as (Hidx & Hp & Hg & Hgok & Htg & Hraw & Ha & Hroom & Ham & Hd & Hdm & Hlo & Hgen & Hnew & (o & Ho1 & Ho2) & Htid).
      unfold after_faa, faa_next.
      assert (E1 : f_tid l1 = term_id_of raw) by (destruct l; reflexivity).
      assert (E2 : r_tid l1 = r_tid l) by (destruct l; reflexivity).
      assert (E3 : f_off l1 = a) by (unfold l1; destruct l; exact Hlo).
      assert (E4 : mlen l1 = mlen l) by (destruct l; reflexivity).
      assert (E5 : p_raw l1 = p_raw l) by (destruct l; reflexivity).
      unfold adm_pub in Hadm. rewrite Hpc in Hadm. destruct Hadm as (Hst & _). fold raw in Hst.
      rewrite E1, E2, Hst, Z.eqb_refl. cbn [negb]. rewrite E3, E4. fold d.
      destruct (TL c <? a + d); [|reflexivity]. destruct (a <? TL c); [reflexivity|].
      apply (after_eol_rot c W l1 g o); [pose proof (wf_n0 c W); pose proof (iv_count c s gh (iv_A c s gh P I)); lia | rewrite E5; assumption | unfold two32 in *; lia]. Qed.

    Lemma faa_next_facts :
      p_res faa_next = p_res l /\ inflight (p_pc faa_next) = true /\ my_entry c t faa_next = enew /\
      p_count faa_next = g /\ p_raw faa_next = p_raw l /\ f_tid faa_next = term_id_of raw /\ f_off faa_next = a /\
      r_off faa_next = r_off l /\ mlen faa_next = mlen l /\ cur_msg faa_next = cur_msg l.
    Proof. destruct faa_facts as (_ & _ & _ & _ & _ & _ & _ & _ & _ & _ & _ & Hlo & _).
      unfold faa_next, enew, l1.
      destruct (TL c <? a + d); [destruct (a <? TL c)|]; destruct l; cbn in *;
        repeat split; try reflexivity; try assumption;
        unfold my_entry, f_off, mlen, cur_msg; cbn; rewrite ?Hlo; reflexivity. Qed.

    Lemma step_PFaa : AppInv c s' gh' (pupd P t (after_faa c l1)).
    Proof. rewrite after_faa_eq. pose proof (iv_A c s gh P I) as A. pose proof (iv_thr c s gh P I t l HP) as HT.
      destruct faa_facts as (Hidx & Hp & Hg & Hgok & Htg & Hraw & Ha & Hroom & Ham & Hd & Hdm & Hlo & Hgen & Hnew & (o & Ho1 & Ho2) & Htid).
      destruct faa_next_facts as (F1 & F2 & F3 & F4 & F5 & F6 & F7 & F8 & F9 & F10).
      assert (Hncl : a < TL c -> g_cleaned gh g = false).
      { intros Hlt. destruct (g_cleaned gh g) eqn:E; [|reflexivity]. pose proof (iv_cleaned c s gh A p Hp) as Hc.
        rewrite Htg in Hc. specialize (Hc E). fold a in Hc. lia. }
      assert (Hzero : forall o', a <= o' -> sh_mem s p o' = zslot).
      { intros o' Ho'. apply (zero_above_tail s gh P p o' I Hp). assumption. }
      apply close; [apply faa_frame | |].
      - intros g0 e He Ht. unfold gh' in He. apply claims_add_inv in He. destruct He as [He | (Eg & Ee)].
        + eapply own_ent_nofinish with (s := s) (gh := gh) (l := l); eauto.
          * apply (iv_ent c s gh P I); assumption.
          * rewrite Hpc. discriminate.
          * intros _ Hl. apply faa_live in Hl. split; [assumption | reflexivity].
        + rewrite Eg, Ee. clear Eg Ee Ht. rewrite Hgen. unfold ent_ok. split; [lia|]. cbn [enew e_a e_b e_t e_j e_msg]. rewrite Hlo.
          split; [assumption|]. split; [assumption|]. split; [reflexivity|].
          exists faa_next. split; [unfold pupd; rewrite Nat.eqb_refl; reflexivity|].
          rewrite F1. split; [lia|]. split; [intros _; auto | intros; lia].
      - unfold thr_ok. rewrite F4, F5, F6, F7, F8, F9, F3. change (sh_count s') with (sh_count s). change (sh_mem s') with (sh_mem s).
        assert (Hro : r_off l = o /\ 0 <= o < two32).
        { unfold r_off. rewrite Ho1. unfold two32 in *. split; [apply lo32u_mk_raw; unfold two32; lia | lia]. }
        destruct Hro as (Hro & Ho3).
        assert (Hlv : a < TL c -> live c s' gh' g).
        { intros Hlt. apply faa_live. split; [exact Htg | apply Hncl; assumption]. }
        assert (K1 : after_count (p_pc faa_next) = true /\ after_tail (p_pc faa_next) = true).
        { unfold faa_next, l1. destruct (TL c <? a + d); [destruct (a <? TL c)|]; split; reflexivity. }
        destruct K1 as (K1 & K2).
        split; [intros _; exact Hg|]. split.
        { intros _. exists o. split; [assumption|]. split; [assumption|]. intros _. rewrite faa_toff.
          replace (g mod 3 =? p) with true by (unfold p; lia). lia. }
        split.
        { intros _. split; [assumption|]. split; [unfold two32 in *; lia|]. split; [lia|].
          unfold gh'. rewrite Hgen. rewrite claims_add_same. apply in_or_app. right. left. reflexivity. }
        unfold faa_next in *. destruct (TL c <? a + d) eqn:E1; [destruct (a <? TL c) eqn:E2|].
        + (* padding *)
          assert (Q : p_pc (pl_pc l1 ENegLen) = ENegLen) by reflexivity. rewrite Q. phases.
          split; [intros; discriminate|]. split.
          { intros _. split; [apply Hlv; lia|]. split; [lia|]. unfold stage. rewrite Q. apply Hzero. lia. }
          split; [intros; discriminate|]. split; [intros; discriminate|]. split; intros; discriminate.
        + (* past the end of the term *)
          assert (Q : p_pc (pl_pc l1 RReadNext) = RReadNext) by reflexivity. rewrite Q. phases.
          split; [intros; discriminate|]. split; [intros; discriminate|]. split.
          { intros _. split; [lia|]. intros _ o' sl' Hin. unfold efrags in Hin. cbn [enew e_a e_b] in Hin.
            rewrite Hlo in Hin. replace (a + d <=? TL c) with false in Hin by lia.
            replace (a <? TL c) with false in Hin by lia. destruct Hin. }
          split; [intros; discriminate|]. split; intros; discriminate.
        + (* data frames *)
          set (l2 := pl_frag l1 PNegLen a (mlen l) F_BEGIN) in *.
          assert (Q : p_pc l2 = PNegLen) by reflexivity. rewrite Q. phases.
          split.
          { intros _. split; [apply Hlv; lia|]. split; [lia|].
            assert (Q2 : p_rem l2 = mlen l /\ p_foff l2 = a /\ p_flags l2 = F_BEGIN) by (repeat split; reflexivity).
            destruct Q2 as (Q2 & Q3 & Q4).
            unfold wr_ok. rewrite F4, F3, Q2, Q3. split; [unfold mlen; lia|]. exists [].
            assert (Hef : efrags c g enew = rest_frags c l2).
            { unfold efrags, rest_frags. cbn [enew e_a e_b e_msg]. rewrite Hlo. replace (a + d <=? TL c) with true by lia.
              rewrite F6, F10, Q2, Q3, Q4, Htid. reflexivity. }
            split; [exact Hef|]. split; [intros ? ? []|].
            split.
            - unfold stage. rewrite Q. apply Hzero. lia.
            - intros o' sl' Hin. apply Hzero.
              assert (Hin2 : In (o', sl') (efrags c g enew)).
              { rewrite Hef. destruct (rest_frags_cons c W l2) as (r & Hr). rewrite Hr in *. right. assumption. }
              assert (Y1 : 0 <= e_a enew) by (cbn [enew e_a]; rewrite Hlo; assumption).
              assert (Y2 : e_a enew mod 32 = 0) by (cbn [enew e_a]; rewrite Hlo; assumption).
              assert (Y3 : e_b enew = e_a enew + required c (zlen (e_msg enew))) by reflexivity.
              destruct (efrags_range c g enew o' sl' W Y1 Y2 Y3 Hin2) as (R1 & _). cbn [enew e_a] in R1. rewrite Hlo in R1. exact R1. }
          split; [intros; discriminate|]. split; [intros; discriminate|]. split; [intros; discriminate|]. split; intros; discriminate. Qed.
  End Step.
End Faa.
