(* C13, sequences: whatever the ring accepts or refuses, the records it hands out are exactly the
   requests the proxy reported Ok for, in order, each decoding to the caller's arguments. *)
Require Import V.Base.MachineInt V.Model.WireBytes V.Model.WireCodes V.Model.WireCommands V.Model.WireProxySeq.
Require Import V.Proofs.WireBytesProofs V.Proofs.WireCommandsProofs V.Oracle.C13Oracle V.Proofs.C13OracleProofs.
From Coq Require Import ZifyBool.
Open Scope Z_scope.

Fixpoint recs_of (es : list entry) : list (Z * bytes) :=
  match es with
  | [] => []
  | EPad _ :: es' => recs_of es'
  | ERec t bs :: es' => (t, bs) :: recs_of es'
  end.

Lemma recs_of_app a b : recs_of (a ++ b) = recs_of a ++ recs_of b.
Proof. induction a as [|[l|t bs] a IH]; cbn [app recs_of]; [reflexivity | exact IH | rewrite IH; reflexivity]. Qed.

Lemma ring_write_recs r t bs r' : ring_write r t bs = Some r' -> recs_of (q r') = recs_of (q r) ++ [(t, bs)].
Proof. unfold ring_write. destruct (Zlength bs >? cap r / 8); [discriminate|].
  destruct (ring_claim r _) as [[hc padding]|]; [|discriminate]. intros E. inversion E; subst. cbn [q].
  rewrite !recs_of_app. destruct (padding =? 0); reflexivity. Qed.

Lemma read_loop_recs block es br msgs limit :
  let '(rs, rest, _) := read_loop block es br msgs limit in recs_of es = rs ++ recs_of rest.
Proof. revert br msgs. induction es as [|e es IH]; intros br msgs; cbn [read_loop].
  - reflexivity.
  - destruct ((br <? block) && (msgs <? limit)); [|reflexivity].
    destruct e as [l|t bs].
    + specialize (IH (br + align l 8) msgs). destruct (read_loop block es _ msgs limit) as [[rs rest] b]. exact IH.
    + specialize (IH (br + aligned_record (Zlength bs)) (msgs + 1)).
      destruct (read_loop block es _ (msgs + 1) limit) as [[rs rest] b]. cbn [recs_of app]. rewrite IH. reflexivity. Qed.

Lemma ring_read_recs r limit : let '(rs, r') := ring_read r limit in recs_of (q r) = rs ++ recs_of (q r').
Proof. unfold ring_read. pose proof (read_loop_recs (cap r - head r mod cap r) (q r) 0 0 limit) as H.
  destruct (read_loop _ (q r) 0 0 limit) as [[rs rest] b]. exact H. Qed.

(* the record the protocol prescribes for an accepted request *)
Definition expected (c0 : Z) (rv : request * Z) : Z * bytes :=
  (protocol_code (request_cmd (fst rv)), encode_cmd_spec c0 (wire_correlation_id (snd rv) (fst rv)) (fst rv)).
Definition good (rv : request * Z) : Prop :=
  wf_request (fst rv) = true /\ spec_length (fst rv) <= CMD_BUF /\ in_i64 (snd rv) = true.

Lemma record_is_expected c0 rv : in_i64 c0 = true -> good rv -> record_is c0 rv (expected c0 rv) = true.
Proof. intros Hc (W & L & Hv). destruct rv as [r v]. unfold record_is, expected. cbn [fst snd] in *.
  rewrite Z.eqb_refl. cbn [andb].
  rewrite decode_spec_encode_spec; try assumption.
  - rewrite !Z.eqb_refl, request_eqb_refl. reflexivity.
  - apply wire_correlation_id_range, Hv. Qed.

Lemma after_drain_prefix c0 pending rs X :
  in_i64 c0 = true -> Forall good pending -> map (expected c0) pending = rs ++ X ->
  exists p', after_drain c0 pending rs = Some p' /\ map (expected c0) p' = X /\ Forall good p'.
Proof. intros Hc. revert pending. induction rs as [|rec rs IH]; intros pending G E; cbn [after_drain].
  - cbn [app] in E. exists pending. split; [reflexivity|]. split; assumption.
  - destruct pending as [|rv p]; [discriminate|]. cbn [map app] in E.
    injection E as E1 E2. subst rec. inversion G as [|? ? G1 G2]; subst.
    rewrite (record_is_expected c0 rv Hc G1). apply IH; assumption. Qed.

Definition inv (c0 : Z) (pending : list (request * Z)) (s : proxy_state) : Prop :=
  map (expected c0) pending = recs_of (q (ps_ring s)) /\ Forall good pending /\ in_i64 (ps_next s) = true.

Definition wf_op (o : op) : bool := match o with OpCall r => wf_request r | OpDrain _ => true end.

Lemma steps_invariant c0 ops : in_i64 c0 = true -> forallb wf_op ops = true ->
  forall pending s, inv c0 pending s ->
  let '(obs, s') := proxy_run c0 s ops in
  exists p', after_steps c0 pending ops obs = Some p' /\ inv c0 p' s'.
Proof. intros Hc. induction ops as [|o ops IH]; intros W pending s I.
  - cbn [proxy_run after_steps]. exists pending. auto.
  - cbn [forallb] in W. apply andb_prop in W. destruct W as [Wo W]. specialize (IH W).
    cbn [proxy_run]. destruct o as [r|limit]; cbn [proxy_step].
    + (* a call *)
      destruct I as (Iq & Ig & In).
      unfold proxy_step_call. rewrite encoded_length_spec.
      destruct (spec_length r >? CMD_BUF) eqn:EL.
      * (* does not fit: refused, nothing changes *)
        specialize (IH pending s (conj Iq (conj Ig In))).
        destruct (proxy_run c0 s ops) as [obs s2]. cbn [after_steps]. exact IH.
      * assert (L : spec_length r <= CMD_BUF) by lia.
        rewrite (encode_fits c0 (ps_next s) r L).
        destruct (ring_write (ps_ring s) _ _) as [rg|] eqn:EW.
        -- (* accepted *)
           set (v := if draws_correlation_id r then ps_next s else 0).
           set (s1 := {| ps_ring := rg; ps_next := if draws_correlation_id r then wrap64 (ps_next s + 1) else ps_next s |}).
           assert (I1 : inv c0 (pending ++ [(r, v)]) s1).
           { unfold inv, s1. cbn [ps_ring ps_next]. split; [|split].
             - rewrite map_app, (ring_write_recs _ _ _ _ EW), Iq. f_equal. cbn [map]. unfold expected. cbn [fst snd].
               assert (Ea : protocol_code (request_cmd r) = to_id (request_cmd r)) by (symmetry; apply request_code).
               assert (Eb : wire_correlation_id v r = wire_correlation_id (ps_next s) r) by (unfold v; destruct r; reflexivity).
               congruence.
             - apply Forall_app. split; [exact Ig|]. constructor; [|constructor]. unfold good. cbn [fst snd].
               split; [exact Wo|]. split; [exact L|]. unfold v. destruct (draws_correlation_id r); [exact In | reflexivity].
             - destruct (draws_correlation_id r); [apply wrap64_range | exact In]. }
           specialize (IH _ _ I1). destruct (proxy_run c0 s1 ops) as [obs s2]. cbn [after_steps].
           replace (spec_length r <=? CMD_BUF) with true by lia. cbn [andb].
           replace (draws_correlation_id r || (v =? 0)) with true
             by (unfold v; destruct (draws_correlation_id r); reflexivity).
           exact IH.
        -- (* the ring refused: an error, the queue is unchanged *)
           set (s1 := {| ps_ring := ps_ring s; ps_next := if draws_correlation_id r then wrap64 (ps_next s + 1) else ps_next s |}).
           assert (I1 : inv c0 pending s1).
           { unfold inv, s1. cbn [ps_ring ps_next]. split; [exact Iq|]. split; [exact Ig|].
             destruct (draws_correlation_id r); [apply wrap64_range | exact In]. }
           specialize (IH _ _ I1). destruct (proxy_run c0 s1 ops) as [obs s2]. cbn [after_steps]. exact IH.
    + (* a drain *)
      destruct I as (Iq & Ig & In).
      pose proof (ring_read_recs (ps_ring s) limit) as R.
      destruct (ring_read (ps_ring s) limit) as [rs rg].
      destruct (after_drain_prefix c0 pending rs (recs_of (q rg)) Hc Ig ltac:(rewrite Iq; exact R)) as (p' & A & M & G).
      set (s1 := {| ps_ring := rg; ps_next := ps_next s |}).
      assert (I1 : inv c0 p' s1) by (unfold inv, s1; cbn [ps_ring ps_next]; auto).
      specialize (IH _ _ I1). destruct (proxy_run c0 s1 ops) as [obs s2]. cbn [after_steps]. rewrite A. exact IH. Qed.

(* C13_oracle_seq *)
Theorem oracle_seq_model c0 capacity ops :
  in_i64 c0 = true -> forallb wf_op ops = true ->
  let '(obs, s) := proxy_run c0 {| ps_ring := fresh_ring capacity; ps_next := wrap64 (c0 + 1) |} ops in
  exists pending, after_steps c0 [] ops obs = Some pending /\
                  map (expected c0) pending = recs_of (q (ps_ring s)) /\
                  (recs_of (q (ps_ring s)) = [] -> holds_seq c0 ops obs = true).
Proof. intros Hc W.
  pose proof (steps_invariant c0 ops Hc W [] {| ps_ring := fresh_ring capacity; ps_next := wrap64 (c0 + 1) |}) as H.
  assert (I0 : inv c0 [] {| ps_ring := fresh_ring capacity; ps_next := wrap64 (c0 + 1) |}).
  { unfold inv. cbn [ps_ring ps_next fresh_ring q map recs_of]. split; [reflexivity|]. split; [constructor | apply wrap64_range]. }
  specialize (H I0). destruct (proxy_run c0 _ ops) as [obs s]. destruct H as (p' & A & (Iq & _)).
  exists p'. split; [exact A|]. split; [exact Iq|].
  intros E. unfold holds_seq. rewrite A. rewrite E in Iq. destruct p'; [reflexivity | discriminate]. Qed.

(* the spec side is not vacuous: an Ok result for a request nobody wrote, or a record for a refused
   request, is rejected by the oracle *)
Lemma holds_seq_lost_record c0 r v : holds_seq c0 [OpCall r; OpDrain 10] [Call (Ok v); Drained []] = false.
Proof. unfold holds_seq. cbn [after_steps].
  destruct ((spec_length r <=? CMD_BUF) && (draws_correlation_id r || (v =? 0))); reflexivity. Qed.
Lemma holds_seq_ghost_record c0 r e rec : holds_seq c0 [OpCall r; OpDrain 10] [Call (Err e); Drained [rec]] = false.
Proof. reflexivity. Qed.
