(* C19 - the parser accepts exactly the strings of the URI grammar, and printing what it read gives the input back up to
   the order of the parameters (and the removal of overwritten duplicates). *)
From Coq Require Import Permutation.
Require Import V.Base.MachineInt.
Require Import V.Model.UriTypes.
Require Import V.Generated.GenUriTables.
Require Import V.Model.UriSpec.
Require Import V.Model.Uri.
Require Import V.Model.UriSplit.
Require Import V.Proofs.UriProofs.
Open Scope Z_scope.

(* ---- whatever the loop accepts has the shape of the grammar -------------------------------------------- *)

Definition btail (r : params) : str := match r with [] => [] | _ => [CH_BAR] ++ body r end.
Definition qtail (kvs : params) : str := match kvs with [] => [] | _ => [CH_QMARK] ++ body kvs end.

Lemma body_cons kv r : body (kv :: r) = fst kv ++ [CH_EQ] ++ snd kv ++ btail r.
Proof. reflexivity. Qed.

Definition loop_shape (st : pstate) (b media key : str) (ps : params) (s m : str) (ps' : params) : Prop :=
  match st with
  | SMedia => exists mr kvs,
      s = mr ++ qtail kvs /\ forallb media_char_ok mr = true /\ forallb entry_ok kvs = true
      /\ m = b ++ mr /\ ps' = fold_left ins kvs ps /\ (kvs = [] -> m = UDP_MEDIA \/ m = IPC_MEDIA)
  | SKey => exists kr v rest,
      s = kr ++ [CH_EQ] ++ v ++ btail rest /\ forallb key_char_ok kr = true /\ b ++ kr <> []
      /\ has_bar v = false /\ forallb entry_ok rest = true
      /\ m = media /\ ps' = fold_left ins ((b ++ kr, v) :: rest) ps
  | SValue => exists vr rest,
      s = vr ++ btail rest /\ has_bar vr = false /\ forallb entry_ok rest = true
      /\ m = media /\ ps' = fold_left ins ((key, b ++ vr) :: rest) ps
  end.

Lemma entry_ok_intro k v : k <> [] -> forallb key_char_ok k = true -> has_bar v = false -> entry_ok (k, v) = true.
Proof.
  intros H1 H2 H3. unfold entry_ok. cbn [fst snd]. rewrite H3. cbn. rewrite andb_true_r.
  apply name_ok_unfold. auto.
Qed.

Lemma loop_inversion s : forall st b media key ps idx m ps',
  loop st b media key ps idx s = POk (m, ps') -> loop_shape st b media key ps s m ps'.
Proof.
  induction s as [|c r IH]; intros st b media key ps idx m ps' H.
  - destruct st; cbn in H.
    + destruct (negb (str_eqb b IPC_MEDIA) && negb (str_eqb b UDP_MEDIA)) eqn:E; [discriminate|].
      injection H as <- <-. exists [], []. repeat split; rewrite ?app_nil_r; auto.
      intros _. apply andb_false_iff in E. destruct E as [E|E]; apply negb_false_iff, str_eqb_eq in E; auto.
    + discriminate.
    + injection H as <- <-. exists [], []. repeat split; rewrite ?app_nil_r; auto.
  - cbn [loop] in H. destruct st.
    + destruct (c =? CH_QMARK) eqn:Eq.
      * apply Z.eqb_eq in Eq. subst c. apply IH in H. destruct H as [kr [v [rest [Hs [Hk [Hne [Hv [Hr [Hm Hps]]]]]]]]].
        cbn [app] in Hne, Hps. exists [], ((kr, v) :: rest). subst r m.
        repeat split; rewrite ?app_nil_r; auto.
        -- cbn [forallb]. rewrite Hr, andb_true_r. now apply entry_ok_intro.
        -- discriminate.
      * destruct ((c =? CH_EQ) || (c =? CH_BAR) || (c =? CH_COLON)) eqn:E3; [discriminate|].
        apply IH in H. destruct H as [mr [kvs [Hs [Hmr [Hk [Hm [Hps Hmed]]]]]]].
        exists (c :: mr), kvs. subst r. rewrite <- app_assoc in Hm. repeat split; auto.
        cbn [forallb]. rewrite Hmr, andb_true_r. unfold media_char_ok. rewrite Eq.
        apply orb_false_iff in E3. destruct E3 as [E3 E4]. apply orb_false_iff in E3. destruct E3 as [E3 E5].
        now rewrite E3, E4, E5.
    + destruct (c =? CH_EQ) eqn:Eq.
      * apply Z.eqb_eq in Eq. subst c. destruct (is_empty b) eqn:Eb; [discriminate|].
        apply IH in H. destruct H as [vr [rest [Hs [Hv [Hr [Hm Hps]]]]]]. cbn [app] in Hps.
        exists [], vr, rest. subst r. repeat split; rewrite ?app_nil_r; auto.
        intros ->. discriminate.
      * destruct (c =? CH_BAR) eqn:Ebar; [discriminate|].
        apply IH in H. destruct H as [kr [v [rest [Hs [Hk [Hne [Hv [Hr [Hm Hps]]]]]]]]].
        exists (c :: kr), v, rest. subst r. rewrite <- app_assoc in Hne, Hps. repeat split; auto.
        cbn [forallb]. rewrite Hk, andb_true_r. unfold key_char_ok. now rewrite Eq, Ebar.
    + destruct (c =? CH_BAR) eqn:Ebar.
      * apply Z.eqb_eq in Ebar. subst c. apply IH in H.
        destruct H as [kr [v [rest [Hs [Hk [Hne [Hv [Hr [Hm Hps]]]]]]]]]. cbn [app] in Hne, Hps.
        exists [], ((kr, v) :: rest). subst r. repeat split; rewrite ?app_nil_r; auto.
        -- cbn [forallb]. rewrite Hr, andb_true_r. now apply entry_ok_intro.
      * apply IH in H. destruct H as [vr [rest [Hs [Hv [Hr [Hm Hps]]]]]].
        exists (c :: vr), rest. subst r. rewrite <- app_assoc in Hps. repeat split; auto.
        unfold has_bar in *. cbn [existsb]. now rewrite Ebar, Hv.
Qed.

(* ---- C19_accepted_in_grammar ------------------------------------------------------------------------------- *)

Lemma prefix_part_spy : prefix_part SPY_QUALIFIER = SPY_PREFIX.
Proof. reflexivity. Qed.

Lemma parse_in_grammar s u :
  parse s = POk u ->
  exists kvs, grammar_ok (u_prefix u) (u_media u) kvs = true
              /\ s = spec_uri (u_prefix u) (u_media u) kvs
              /\ u_params u = last_wins kvs.
Proof.
  intros H. pose proof H as H0. unfold parse in H.
  assert (G : forall prefix m kvs, prefix_ok prefix -> forallb media_char_ok m = true -> forallb entry_ok kvs = true ->
              (kvs = [] -> m = UDP_MEDIA \/ m = IPC_MEDIA) -> grammar_ok prefix m kvs = true).
  { intros prefix m kvs Hp Hm Hk Hmed. unfold grammar_ok. rewrite Hm, Hk.
    destruct spec_consts as [E1 [E2 [E3 _]]]. rewrite E1, E2, E3.
    replace (is_empty prefix || str_eqb prefix SPY_QUALIFIER) with true
      by (destruct Hp as [-> | ->]; reflexivity).
    cbn [andb]. destruct kvs; auto. destruct (Hmed eq_refl) as [-> | ->]; reflexivity. }
  destruct (strip_prefix SPY_PREFIX s) as [rest|] eqn:E1.
  - destruct (strip_prefix AERON_PREFIX rest) as [bd|] eqn:E2; [|discriminate].
    destruct (loop SMedia [] [] [] [] _ bd) as [[m ps]|e] eqn:EL; [|discriminate].
    injection H as <-. cbn [u_prefix u_media u_params].
    apply loop_inversion in EL. destruct EL as [mr [kvs [Hs [Hmr [Hk [Hm [Hps Hmed]]]]]]]. cbn [app] in Hm. subst m.
    exists kvs. split; [apply G; auto; now right|]. split; auto.
    rewrite spec_uri_print by (now right). rewrite print_unfold, prefix_part_spy.
    apply strip_prefix_some in E1. apply strip_prefix_some in E2. subst s rest bd. reflexivity.
  - destruct (strip_prefix AERON_PREFIX s) as [bd|] eqn:E2; [|discriminate].
    destruct (loop SMedia [] [] [] [] _ bd) as [[m ps]|e] eqn:EL; [|discriminate].
    injection H as <-. cbn [u_prefix u_media u_params].
    apply loop_inversion in EL. destruct EL as [mr [kvs [Hs [Hmr [Hk [Hm [Hps Hmed]]]]]]]. cbn [app] in Hm. subst m.
    exists kvs. split; [apply G; auto; now left|]. split; auto.
    rewrite spec_uri_print by (now left). rewrite print_unfold.
    apply strip_prefix_some in E2. subst s bd. reflexivity.
Qed.

(* the parser accepts exactly the grammar *)
Lemma parse_accepts_iff s :
  (exists u, parse s = POk u) <-> exists prefix media kvs, grammar_ok prefix media kvs = true /\ s = spec_uri prefix media kvs.
Proof.
  split.
  - intros [u H]. destruct (parse_in_grammar _ _ H) as [kvs [A [B _]]]. eauto.
  - intros [prefix [media [kvs [A ->]]]]. eexists. now apply parse_grammar.
Qed.

(* ---- C19_print_of_parse: to_string(parse(s)) is s up to the order of the parameters ------------------------- *)

Lemma display_is_spec u ord : prefix_ok (u_prefix u) -> display u ord = spec_uri (u_prefix u) (u_media u) ord.
Proof. intros H. unfold display. now rewrite spec_uri_print. Qed.

Lemma last_wins_NoDup kvs : NoDup (keys kvs) -> last_wins kvs = kvs.
Proof. intros H. rewrite last_wins_eq. now apply fold_ins_NoDup. Qed.

Lemma print_of_parse s u :
  parse s = POk u ->
  exists kvs, s = spec_uri (u_prefix u) (u_media u) kvs
    /\ (forall ord, Permutation ord (u_params u) ->
          display u ord = spec_uri (u_prefix u) (u_media u) ord /\ Permutation ord (last_wins kvs))
    /\ (NoDup (keys kvs) -> display u (u_params u) = s).
Proof.
  intros H. destruct (parse_in_grammar _ _ H) as [kvs [G [Hs Hps]]].
  pose proof (parse_wf _ _ H) as [Hp _].
  exists kvs. split; auto. split.
  - intros ord Hperm. split; [now apply display_is_spec | now rewrite <- Hps].
  - intros Hd. rewrite display_is_spec by auto. rewrite Hps, last_wins_NoDup by auto. now symmetry.
Qed.

(* ---- reading the grammar backwards (Model/UriSplit.v) ------------------------------------------------------- *)

Lemma split_first_none d s : forallb (fun c => negb (c =? d)) s = true -> split_first d s = None.
Proof.
  induction s as [|c r IH]; cbn; auto. intros H. apply andb_true_iff in H. destruct H as [H1 H2].
  apply negb_true_iff in H1. now rewrite H1, IH.
Qed.

Lemma split_first_app d a b :
  forallb (fun c => negb (c =? d)) a = true -> split_first d (a ++ d :: b) = Some (a, b).
Proof.
  induction a as [|c r IH]; cbn.
  - now rewrite Z.eqb_refl.
  - intros H. apply andb_true_iff in H. destruct H as [H1 H2]. apply negb_true_iff in H1. now rewrite H1, IH.
Qed.

Lemma split_all_nobar d a : forallb (fun c => negb (c =? d)) a = true -> split_all d a = [a].
Proof.
  induction a as [|c r IH]; cbn; auto. intros H. apply andb_true_iff in H. destruct H as [H1 H2].
  apply negb_true_iff in H1. now rewrite H1, IH.
Qed.

Lemma split_all_app d a b :
  forallb (fun c => negb (c =? d)) a = true -> split_all d (a ++ d :: b) = a :: split_all d b.
Proof.
  induction a as [|c r IH]; cbn.
  - now rewrite Z.eqb_refl.
  - intros H. apply andb_true_iff in H. destruct H as [H1 H2]. apply negb_true_iff in H1. now rewrite H1, IH.
Qed.

Definition entry_str (kv : str * str) : str := fst kv ++ [CH_EQ] ++ snd kv.

Lemma entry_no_bar kv : entry_ok kv = true -> forallb (fun c => negb (c =? CH_BAR)) (entry_str kv) = true.
Proof.
  destruct kv as [k v]. unfold entry_ok, entry_str. cbn [fst snd]. intros H.
  apply andb_true_iff in H. destruct H as [Hk Hv]. apply name_ok_unfold in Hk. destruct Hk as [_ Hk].
  apply negb_true_iff, has_bar_false in Hv.
  rewrite !forallb_app. cbn [forallb]. rewrite Hv. cbn. rewrite andb_true_r.
  apply forallb_forall. intros c Hin. eapply forallb_forall in Hk; eauto. unfold key_char_ok in Hk.
  apply andb_true_iff in Hk. tauto.
Qed.

Lemma split_entry_ok kv : entry_ok kv = true -> split_entry (entry_str kv) = kv.
Proof.
  destruct kv as [k v]. unfold entry_ok, entry_str, split_entry. cbn [fst snd]. intros H.
  apply andb_true_iff in H. destruct H as [Hk _]. apply name_ok_unfold in Hk. destruct Hk as [_ Hk].
  cbn [app]. rewrite split_first_app; auto.
  apply forallb_forall. intros c Hin. eapply forallb_forall in Hk; eauto. unfold key_char_ok in Hk.
  apply andb_true_iff in Hk. tauto.
Qed.

Lemma body_entries kv r : body (kv :: r) = entry_str kv ++ btail r.
Proof. unfold entry_str. rewrite body_cons. rewrite <- app_assoc. reflexivity. Qed.

Lemma split_all_body kvs : kvs <> [] -> forallb entry_ok kvs = true ->
  map split_entry (split_all CH_BAR (body kvs)) = kvs.
Proof.
  induction kvs as [|kv r IH]; intros Hne H; [contradiction|].
  cbn [forallb] in H. apply andb_true_iff in H. destruct H as [Hkv Hr].
  rewrite body_entries. destruct r as [|kv2 r'].
  - unfold btail. rewrite app_nil_r. rewrite split_all_nobar by (now apply entry_no_bar).
    cbn [map]. now rewrite split_entry_ok.
  - unfold btail. cbn [app]. rewrite split_all_app by (now apply entry_no_bar).
    cbn [map]. rewrite split_entry_ok by auto. f_equal. apply IH; auto. discriminate.
Qed.

Lemma head_no_qmark prefix media :
  prefix_ok prefix -> forallb media_char_ok media = true ->
  forallb (fun c => negb (c =? CH_QMARK)) (uri_head prefix media) = true.
Proof.
  intros Hp Hm. unfold uri_head. rewrite !forallb_app.
  assert (M : forallb (fun c => negb (c =? CH_QMARK)) media = true).
  { apply forallb_forall. intros c Hin. eapply forallb_forall in Hm; eauto. unfold media_char_ok in Hm.
    repeat (apply andb_true_iff in Hm; destruct Hm as [Hm ?]). auto. }
  rewrite M. destruct Hp as [-> | ->]; reflexivity.
Qed.

Lemma spec_uri_head prefix media kvs : spec_uri prefix media kvs = uri_head prefix media ++ qtail kvs.
Proof.
  unfold spec_uri, uri_head, qtail. rewrite <- !app_assoc. do 4 f_equal.
  destruct kvs as [|kv r]; auto. unfold spec_join. rewrite spec_join_tail. reflexivity.
Qed.

Lemma uri_read_spec prefix media kvs :
  grammar_ok prefix media kvs = true -> uri_read (spec_uri prefix media kvs) = (uri_head prefix media, kvs).
Proof.
  intros G. apply grammar_ok_unfold in G. destruct G as [Hp [Hm [Hk _]]].
  rewrite spec_uri_head. unfold uri_read, qtail. destruct kvs as [|kv r].
  - rewrite app_nil_r. rewrite split_first_none; auto. now apply head_no_qmark.
  - cbn [app]. rewrite split_first_app by (now apply head_no_qmark).
    rewrite split_all_body; auto. discriminate.
Qed.

(* what an accepted string is read as is what the grammar, read backwards, says *)
Lemma parse_reads s u :
  parse s = POk u -> uri_read s = (uri_head (u_prefix u) (u_media u), snd (uri_read s))
                     /\ u_params u = last_wins (snd (uri_read s)).
Proof.
  intros H. destruct (parse_in_grammar _ _ H) as [kvs [G [Hs Hps]]].
  rewrite Hs at 1 2 3. rewrite (uri_read_spec _ _ _ G). cbn [snd]. auto.
Qed.
