(* C04 for the shared Publication: every operation of a history, from the invariant. *)
Require Import V.Base.MachineInt.
Require Import V.Generated.GenConsts.
Require Import V.Model.Descriptor.
Require Import V.Model.LogBase.
Require Import V.Model.Appender.
Require Import V.Model.Publication.
Require Import V.Proofs.DescriptorProofs.
Require Import V.Proofs.AppenderProofs.
Require Import V.Proofs.PublicationProofs.
Require Import V.Proofs.BulkProofs.
From Coq Require Import ZifyBool.
Open Scope Z_scope.

(* operations a history may contain: lengths an i32 can carry (with room for the header), limits inside the contract *)
Definition op_ok (l : log) (o : op) : Prop :=
  match o with
  | Offer msg => zlen msg <= 1073741824
  | Claim len => 0 <= len <= 1073741824
  | Bulk bufs => total bufs <= 1073741824
  | SetLimit v => limit_ok l v
  | _ => True
  end.

Definition op_len (o : op) : Z :=
  match o with Offer msg => zlen msg | Claim len => len | Bulk bufs => total bufs | _ => 0 end.
Definition op_too_long (l : log) (o : op) : bool :=
  match o with
  | Claim len => max_payload_length l <? len
  | Offer _ | Bulk _ => max_message_length l <? op_len o
  | _ => false
  end.
Definition op_required (l : log) (o : op) : Z := required_spec (op_len o) (max_payload_length l).

Lemma try_result_req s n off r1 r2 len x : try_result s n off r1 len true x -> try_result s n off r2 len true x.
Proof. intros H. inversion H; subst; try discriminate.
  - apply TR_closed; assumption.
  - apply TR_refused; assumption.
  - apply TR_toolong; assumption. Qed.

Section Step.
Variables (m : mode) (rv : Z -> Z -> list Z -> Z) (s : pubstate) (n off : Z).
Hypothesis Hinv : pub_inv n off s.
Local Notation l := (ps_log s).

Lemma half_term_32 : 0 < 32 <= l_tlen l / 2.
Proof. pose proof (legal_tlen _ (pi_legal _ _ _ Hinv)) as [Htl _].
  assert (512 <= l_tlen l / 2) by (apply Z.div_le_lower_bound; lia). lia. Qed.

Ltac name_act := match goal with |- context [pub_try _ _ _ ?a] => set (act := a) end.

Lemma pub_offer_cases msg : zlen msg <= 1073741824 ->
  try_result s n off (op_required l (Offer msg)) (zlen msg) (op_too_long l (Offer msg)) (pub_offer m rv s msg).
Proof. intros Hlen. pose proof (zlen_nonneg msg) as H0. pose proof (pi_legal _ _ _ Hinv) as Hleg.
  pose proof (legal_mpl l Hleg) as (Hm1 & Hm2 & Hm3 & Hm4). pose proof (inv_off_bound s n off Hinv) as [Hob _].
  pose proof (mod3_range n) as Hm3r. pose proof (inv_tid_i32 s n) as Htid.
  assert (Hl2 : 0 <= zlen msg < two31) by (unfold two31; lia).
  pose proof (pi_tail _ _ _ Hinv) as Htail.
  unfold op_required, op_too_long, op_len, pub_offer. name_act.
  destruct (zlen msg <=? max_payload_length l) eqn:E1.
  - assert (E2 : (max_message_length l <? zlen msg) = false) by lia. rewrite E2.
    assert (Hspec : act_spec l (n mod 3) (wrap32 (l_init l + n)) off (required_spec (zlen msg) (max_payload_length l))
                             (act l (n mod 3) (wrap32 (l_init l + n)))).
    { unfold act. rewrite E1. unfold required_spec. rewrite E1. unfold unfrag_required_spec. rewrite HDR_eq, FA_eq.
      apply ta_unfrag_spec; auto; lia. }
    refine (proj2 (pub_try_cases m s n off Hinv (zlen msg) act _ Hl2 _ (or_intror Hspec)) Hspec).
    apply required_half_term; auto. left. lia.
  - destruct (max_message_length l <? zlen msg) eqn:E2.
    + apply (try_result_req s n off 32).
      assert (HE : act l (n mod 3) (wrap32 (l_init l + n)) = Err TooLong) by (unfold act; rewrite E1, E2; reflexivity).
      exact (proj1 (pub_try_cases m s n off Hinv (zlen msg) act 32 Hl2 half_term_32 (or_introl HE)) HE).
    + assert (Hspec : act_spec l (n mod 3) (wrap32 (l_init l + n)) off (required_spec (zlen msg) (max_payload_length l))
                               (act l (n mod 3) (wrap32 (l_init l + n)))).
      { unfold act. rewrite E1, E2. unfold required_spec. rewrite E1. apply ta_frag_spec; auto; lia. }
      refine (proj2 (pub_try_cases m s n off Hinv (zlen msg) act _ Hl2 _ (or_intror Hspec)) Hspec).
      apply required_half_term; auto. right. lia.
Qed.

Lemma pub_claim_cases len : 0 <= len <= 1073741824 ->
  if max_payload_length l <? len then pub_claim m s len = (s, Err TooLong)
  else try_result s n off (op_required l (Claim len)) len false (pub_claim m s len).
Proof. intros Hlen. pose proof (pi_legal _ _ _ Hinv) as Hleg.
  pose proof (legal_mpl l Hleg) as (Hm1 & Hm2 & Hm3 & Hm4). pose proof (inv_off_bound s n off Hinv) as [Hob _].
  pose proof (mod3_range n) as Hm3r. pose proof (inv_tid_i32 s n) as Htid.
  assert (Hl2 : 0 <= len < two31) by (unfold two31; lia).
  pose proof (pi_tail _ _ _ Hinv) as Htail.
  unfold op_required, op_len, pub_claim.
  destruct (max_payload_length l <? len) eqn:E1; [reflexivity|]. name_act.
  assert (E1' : (len <=? max_payload_length l) = true) by lia.
  assert (Hspec : act_spec l (n mod 3) (wrap32 (l_init l + n)) off (required_spec len (max_payload_length l))
                           (act l (n mod 3) (wrap32 (l_init l + n)))).
  { unfold act. unfold required_spec. rewrite E1'. unfold unfrag_required_spec. rewrite HDR_eq, FA_eq.
    apply ta_claim_spec; auto; lia. }
  refine (proj2 (pub_try_cases m s n off Hinv len act _ Hl2 _ (or_intror Hspec)) Hspec).
  apply required_half_term; auto; lia.
Qed.

Lemma pub_bulk_cases bufs : total bufs <= 1073741824 ->
  try_result s n off (op_required l (Bulk bufs)) (total bufs) (op_too_long l (Bulk bufs)) (pub_bulk m rv s bufs).
Proof. intros Hlen. pose proof (pi_legal _ _ _ Hinv) as Hleg. pose proof (legal_mpl l Hleg) as (Hm1 & _).
  rewrite pub_bulk_eq_offer by (auto; lia). apply (pub_offer_cases (concat bufs)). exact Hlen. Qed.
End Step.

(* ---- the invariant is preserved ---- *)
Lemma op_ok_same a b o : l_tlen a = l_tlen b -> op_ok a o -> op_ok b o.
Proof. intros H. destruct o; cbn; auto. unfold limit_ok. rewrite H. auto. Qed.

Lemma legal_tail_geom l i v j t : legal l -> legal (set_part (set_tail l i v) j t).
Proof. apply legal_same. repeat split. Qed.

Lemma bumped_meta l n off req :
  same_meta (set_tail l (n mod 3) (wrap32 (l_init l + n) * two32 + (off + req))) (bumped l n off req).
Proof. unfold bumped. apply same_meta_put_padding. Qed.

Lemma tail_bumped l n off req j : 0 <= j < 3 ->
  tail (bumped l n off req) j = if j =? n mod 3 then wrap32 (l_init l + n) * two32 + (off + req) else tail l j.
Proof. intros Hj. rewrite <- (same_meta_tail _ _ j (bumped_meta l n off req)).
  pose proof (mod3_range n). destruct (j =? n mod 3) eqn:E.
  - assert (j = n mod 3) by lia. subst j. apply tail_set_tail_same. assumption.
  - apply tail_set_tail_other; lia. Qed.

Lemma bumped_fields l n off req :
  l_count (bumped l n off req) = l_count l /\ l_limit (bumped l n off req) = l_limit l /\
  l_connected (bumped l n off req) = l_connected l /\ same_geom l (bumped l n off req).
Proof. destruct (bumped_meta l n off req) as (_ & _ & _ & Hc & Hl & Hcn & Hg). cbn in Hc, Hl, Hcn.
  repeat split; try congruence; destruct Hg as (G1 & G2 & G3 & G4 & G5); cbn in *; congruence. Qed.

Lemma tail_rotated l n j : 0 <= j < 3 ->
  tail (rotated l n) j = if j =? (n + 1) mod 3 then wrap32 (l_init l + n + 1) * two32 else tail l j.
Proof. intros Hj. pose proof (mod3_range (n + 1)).
  replace (tail (rotated l n) j) with (tail (set_tail l ((n + 1) mod 3) (wrap32 (l_init l + n + 1) * two32)) j) by reflexivity.
  destruct (j =? (n + 1) mod 3) eqn:E.
  - assert (j = (n + 1) mod 3) by lia. subst j. apply tail_set_tail_same. assumption.
  - apply tail_set_tail_other; lia. Qed.
Lemma rotated_fields l n :
  l_count (rotated l n) = n + 1 /\ l_limit (rotated l n) = l_limit l /\ l_connected (rotated l n) = l_connected l /\
  same_geom l (rotated l n).
Proof. repeat split. Qed.

Lemma try_result_inv s n off req len tl s' r :
  pub_inv n off s -> 0 < req <= l_tlen (ps_log s) / 2 -> try_result s n off req len tl (s', r) ->
  same_geom (ps_log s) (ps_log s') /\ l_limit (ps_log s') = l_limit (ps_log s) /\
  l_connected (ps_log s') = l_connected (ps_log s) /\
  match r with
  | Ok _ => pub_inv n (off + req) s'
  | Err AdminAction => pub_inv (n + 1) 0 s'
  | Err MaxPositionExceeded => s' = s \/ (n = two31 - 1 /\ pub_inv n (off + req) s')
  | _ => s' = s
  end.
Proof. intros Hinv Hreq H. pose proof Hinv as [Hleg Hn Hcount Hoff Htail Hnext Hthird Hlim].
  pose proof (legal_tlen _ Hleg) as [Htl _]. pose proof (mod3_range n) as Hm0. pose proof (mod3_range (n+1)) as Hm1.
  pose proof (mod3_range (n+2)) as Hm2. pose proof (mod3_distinct n) as (Hd1 & Hd2 & Hd3).
  assert (Hhalf : l_tlen (ps_log s) / 2 * 2 <= l_tlen (ps_log s)).
  { pose proof (Z.div_mod (l_tlen (ps_log s)) 2 ltac:(lia)). pose proof (Z.mod_pos_bound (l_tlen (ps_log s)) 2 ltac:(lia)). lia. }
  assert (Hcount2 : l_count (ps_log s) - n = 0) by lia. clear Hcount.
  inversion H; subst.
  - repeat split; auto.
  - repeat split; auto. unfold status_of. destruct (_ <=? _); [left; reflexivity|]. destruct (l_connected _); reflexivity.
  - repeat split; auto.
  - (* accepted *)
    match goal with Hlog : ps_log s' = _ |- _ => rename Hlog into Hlog' end.
    rewrite Hlog'. split; [repeat split|]. split; [reflexivity|]. split; [reflexivity|].
    constructor; rewrite ?Hlog'; cbn [l_count l_init l_tlen l_limit set_part set_tail].
    + apply legal_tail_geom. assumption.
    + assumption.
    + lia.
    + lia.
    + rewrite tail_set_part. rewrite tail_set_tail_same by assumption. ring.
    + rewrite tail_set_part. rewrite tail_set_tail_other by auto. exact Hnext.
    + rewrite tail_set_part. rewrite tail_set_tail_other by auto. exact Hthird.
    + exact Hlim.
  - (* end of term, rotation *)
    match goal with Hlog : ps_log s' = _ |- _ => rename Hlog into Hlog' end.
    destruct (bumped_fields (ps_log s) n off req) as (Bc & Bl & Bcn & Bg).
    destruct (rotated_fields (bumped (ps_log s) n off req) n) as (Rc & Rl & Rcn & Rg).
    assert (Hg : same_geom (ps_log s) (ps_log s')).
    { rewrite Hlog'. eapply same_geom_trans; [exact Bg|exact Rg]. }
    split; [exact Hg|]. split; [rewrite Hlog', Rl; exact Bl|]. split; [rewrite Hlog', Rcn; exact Bcn|].
    destruct Hg as (G1 & G2 & G3 & G4 & G5).
    assert (Hi : l_init (bumped (ps_log s) n off req) = l_init (ps_log s)) by (destruct Bg as (B1 & _); congruence).
    constructor; rewrite <- ?G1, <- ?G2.
    + eapply legal_same; [|exact Hleg]. repeat split; assumption.
    + lia.
    + rewrite Hlog'. exact Rc.
    + lia.
    + rewrite Hlog'. rewrite tail_rotated by assumption. rewrite Z.eqb_refl. rewrite Hi. rewrite Z.add_0_r. f_equal. f_equal. ring.
    + rewrite Hlog'. replace ((n + 1 + 1) mod 3) with ((n + 2) mod 3) by (f_equal; ring).
      rewrite tail_rotated by assumption. assert (E0 : ((n + 2) mod 3 =? (n + 1) mod 3) = false) by lia. rewrite E0.
      rewrite tail_bumped by assumption.
      assert (E : ((n + 2) mod 3 =? n mod 3) = false) by lia. rewrite E. rewrite Hthird. f_equal. ring.
    + rewrite Hlog'. replace ((n + 1 + 2) mod 3) with (n mod 3).
      2:{ replace (n + 1 + 2) with (n + 1 * 3) by ring. rewrite Z_mod_plus_full. reflexivity. }
      rewrite tail_rotated by assumption. assert (E0 : (n mod 3 =? (n + 1) mod 3) = false) by lia. rewrite E0.
      rewrite tail_bumped by assumption. rewrite Z.eqb_refl.
      rewrite raw_tid; [|apply wrap32_range|unfold two32; lia]. f_equal. ring.
    + unfold limit_ok in *. rewrite <- G2. rewrite Hlog', Rl, Bl. exact Hlim.
  - (* end of the last term *)
    match goal with Hlog : ps_log s' = _ |- _ => rename Hlog into Hlog' end.
    destruct (bumped_fields (ps_log s) n off req) as (Bc & Bl & Bcn & Bg).
    split; [rewrite Hlog'; exact Bg|]. split; [rewrite Hlog'; exact Bl|]. split; [rewrite Hlog'; exact Bcn|].
    right. split; [lia|].
    assert (Hg : same_geom (ps_log s) (ps_log s')) by (rewrite Hlog'; exact Bg).
    destruct Hg as (G1 & G2 & G3 & G4 & G5).
    unfold limit_ok in Hlim.
    constructor; rewrite <- ?G1, <- ?G2.
    + eapply legal_same; [|exact Hleg]. repeat split; assumption.
    + assumption.
    + rewrite Hlog', Bc. lia.
    + split; [lia|]. right. split; [lia|]. unfold two31 in *. nia.
    + rewrite Hlog'. rewrite tail_bumped by assumption. rewrite Z.eqb_refl. reflexivity.
    + rewrite Hlog'. rewrite tail_bumped by assumption. assert (E : ((n + 1) mod 3 =? n mod 3) = false) by lia. rewrite E. exact Hnext.
    + rewrite Hlog'. rewrite tail_bumped by assumption. assert (E : ((n + 2) mod 3 =? n mod 3) = false) by lia. rewrite E. exact Hthird.
    + unfold limit_ok. rewrite <- G2. rewrite Hlog', Bl. exact Hlim.
Qed.

(* operations that are not offers keep the invariant: they touch partitions, the limit, the flags *)
Lemma inv_same_meta n off s l2 c cl :
  pub_inv n off s -> same_meta (ps_log s) l2 -> pub_inv n off (mkPub l2 c cl).
Proof. intros [Hleg Hn Hcount Hoff Htail Hnext Hthird Hlim] Hm.
  pose proof Hm as (M0 & M1 & M2 & Mc & Ml & Mcn & Mg). pose proof Mg as (G1 & G2 & G3 & G4 & G5).
  constructor; cbn [ps_log]; rewrite <- ?G1, <- ?G2, <- ?(same_meta_tail _ _ _ Hm); auto.
  - eapply legal_same; eassumption.
  - congruence.
  - unfold limit_ok in *. rewrite <- Ml, <- G2. assumption. Qed.

Lemma env_step_inv n off s o : pub_inv n off s -> op_ok (ps_log s) o -> is_append o = false ->
  pub_inv n off (fst (env_step s o)) /\ same_geom (ps_log s) (ps_log (fst (env_step s o))).
Proof. intros Hinv Hok Hna. destruct o; try discriminate; cbn [env_step].
  - (* Commit *) unfold pub_commit, claim_apply. destruct (ps_claim s) as [[[i o0] fl]|]; cbn [fst].
    + destruct (fl - HDR <? zlen body); cbn [fst]; [split; [assumption|apply same_geom_refl]|].
      split; [eapply inv_same_meta; [eassumption|apply same_meta_set_part]|apply same_geom_set_part].
    + split; [assumption|apply same_geom_refl].
  - (* Abort *) unfold claim_apply. destruct (ps_claim s) as [[[i o0] fl]|]; cbn [fst].
    + split; [eapply inv_same_meta; [eassumption|apply same_meta_set_part]|apply same_geom_set_part].
    + split; [assumption|apply same_geom_refl].
  - (* SetLimit *) cbn [fst with_log ps_log]. split; [|apply same_geom_set_limit].
    destruct Hinv as [Hleg Hn Hcount Hoff Htail Hnext Hthird Hlim]. constructor; cbn [ps_log]; auto.
  - (* SetConnected *) cbn [fst with_log ps_log]. split; [|apply same_geom_set_connected].
    destruct Hinv as [Hleg Hn Hcount Hoff Htail Hnext Hthird Hlim]. constructor; cbn [ps_log]; auto.
  - (* Close *) cbn [fst ps_log]. split; [|apply same_geom_refl].
    destruct Hinv as [Hleg Hn Hcount Hoff Htail Hnext Hthird Hlim]. constructor; cbn [ps_log]; auto.
  - (* Clean *) cbn [fst with_log]. split; [eapply inv_same_meta; [eassumption|apply same_meta_set_part]|apply same_geom_set_part].
Qed.

Lemma required_ok s n off o : pub_inv n off s -> op_ok (ps_log s) o -> is_append o = true -> op_too_long (ps_log s) o = false ->
  0 < op_required (ps_log s) o <= l_tlen (ps_log s) / 2.
Proof. intros Hinv Hok Ha Htl. pose proof (pi_legal _ _ _ Hinv) as Hleg.
  pose proof (legal_mpl _ Hleg) as (Hm1 & Hm2 & Hm3 & Hm4).
  unfold op_required. destruct o; try discriminate; cbn [op_len op_too_long op_ok] in *.
  - apply required_half_term; auto; [apply zlen_nonneg|right; lia].
  - apply required_half_term; auto; [lia|left; lia].
  - apply required_half_term; auto; [apply total_nonneg|right; lia]. Qed.

(* one step of a history *)
Theorem pub_step_inv m rv s n off o : pub_inv n off s -> op_ok (ps_log s) o ->
  exists n' off', pub_inv n' off' (fst (pub_step m rv s o)) /\ same_geom (ps_log s) (ps_log (fst (pub_step m rv s o))).
Proof. intros Hinv Hok. destruct (is_append o) eqn:Ea.
  - assert (Hcase : (op_too_long (ps_log s) o = true /\ fst (pub_step m rv s o) = s) \/
        (exists r, 0 < op_required (ps_log s) o <= l_tlen (ps_log s) / 2 /\
           try_result s n off (op_required (ps_log s) o) (op_len o) false (fst (pub_step m rv s o), r))).
    { destruct o; try discriminate; cbn [pub_step op_ok] in *.
      - pose proof (pub_offer_cases m rv s n off Hinv msg Hok) as T.
        destruct (op_too_long (ps_log s) (Offer msg)) eqn:Etl.
        + left. split; [reflexivity|]. inversion T; subst; try discriminate; reflexivity.
        + right. destruct (pub_offer m rv s msg) as [s' r]. exists r. split; [|exact T].
          apply (required_ok s n off (Offer msg)); auto.
      - pose proof (pub_claim_cases m s n off Hinv len Hok) as T. cbn [op_too_long].
        destruct (max_payload_length (ps_log s) <? len) eqn:Etl.
        + left. rewrite T. split; reflexivity.
        + right. destruct (pub_claim m s len) as [s' r]. exists r. split; [|exact T].
          apply (required_ok s n off (Claim len)); auto.
      - pose proof (pub_bulk_cases m rv s n off Hinv bufs Hok) as T.
        destruct (op_too_long (ps_log s) (Bulk bufs)) eqn:Etl.
        + left. split; [reflexivity|]. inversion T; subst; try discriminate; reflexivity.
        + right. destruct (pub_bulk m rv s bufs) as [s' r]. exists r. split; [|exact T].
          apply (required_ok s n off (Bulk bufs)); auto. }
    destruct Hcase as [[_ Hs] | (r & Hreq & T)].
    + rewrite Hs. exists n, off. split; [assumption|apply same_geom_refl].
    + destruct (try_result_inv s n off _ _ _ _ r Hinv Hreq T) as (Hg & _ & _ & Hr).
      destruct r as [p|e| | |]; try (rewrite Hr; exists n, off; split; [assumption|apply same_geom_refl]).
      * eexists _, _. split; [exact Hr|exact Hg].
      * destruct e; try (rewrite Hr; exists n, off; split; [assumption|apply same_geom_refl]).
        -- eexists _, _. split; [exact Hr|exact Hg].
        -- destruct Hr as [Hr | [_ Hr]]; [rewrite Hr; exists n, off; split; [assumption|apply same_geom_refl]|].
           eexists _, _. split; [exact Hr|exact Hg].
  - destruct (env_step_inv n off s o Hinv Hok Ea) as [H1 H2].
    assert (E : pub_step m rv s o = env_step s o) by (destruct o; try discriminate; reflexivity).
    rewrite E. exists n, off. split; assumption.
Qed.

(* a whole history *)
Definition hist_ok (l : log) (ops : list op) : Prop := Forall (op_ok l) ops.

Theorem pub_run_inv m rv ops : forall s n off, pub_inv n off s -> hist_ok (ps_log s) ops ->
  exists n' off', pub_inv n' off' (pub_run m rv s ops) /\ same_geom (ps_log s) (ps_log (pub_run m rv s ops)).
Proof. induction ops as [|o r IH]; intros s n off Hinv Hok.
  - exists n, off. split; [assumption|apply same_geom_refl].
  - inversion Hok as [|? ? Ho Hr]; subst. cbn [pub_run].
    destruct (pub_step_inv m rv s n off o Hinv Ho) as (n1 & off1 & Hinv1 & Hg1).
    destruct (IH _ n1 off1 Hinv1) as (n2 & off2 & Hinv2 & Hg2).
    + eapply Forall_impl; [|exact Hr]. intros a. apply op_ok_same. destruct Hg1 as (_ & H & _). exact H.
    + exists n2, off2. split; [assumption|]. eapply same_geom_trans; eassumption.
Qed.

(* ---- the hand-over state satisfies the invariant ---- *)
Definition geometry_ok (init tlen mtu : Z) : Prop :=
  (exists bits, 10 <= bits <= 30 /\ tlen = 2 ^ bits) /\ 64 <= mtu <= Z.min (tlen / 8) MAX_MESSAGE_LENGTH /\ in_i32 init = true.

Lemma handed_over_tail init tlen mtu ses str n0 off0 i : 0 <= i < 3 ->
  tail (handed_over init tlen mtu ses str n0 off0) i =
  (if i =? n0 mod 3 then wrap32 (init + n0)
   else if i =? (n0 mod 3 + 1) mod 3 then wrap32 (wrap32 (init + n0) + 1 - 3) else wrap32 (wrap32 (init + n0) + 2 - 3)) * two32
  + (if i =? n0 mod 3 then off0 else 0).
Proof. intros Hi. unfold handed_over, tail. cbn [l_t0 l_t1 l_t2].
  assert (Hc : i = 0 \/ i = 1 \/ i = 2) by lia. destruct Hc as [-> | [-> | ->]]; reflexivity. Qed.

Lemma handed_over_fields init tlen mtu ses str n0 off0 :
  let l := handed_over init tlen mtu ses str n0 off0 in
  l_init l = init /\ l_tlen l = tlen /\ l_mtu l = mtu /\ l_count l = n0 /\ l_limit l = 0 /\ l_connected l = false.
Proof. repeat split. Qed.

Lemma handed_over_inv init tlen mtu ses str n0 off0 :
  geometry_ok init tlen mtu -> 0 <= n0 < two31 -> 0 <= off0 <= tlen ->
  pub_inv n0 off0 (pub_init (handed_over init tlen mtu ses str n0 off0)).
Proof. intros ((bits & Hb & Ht) & Hm & Hi) Hn Ho.
  pose proof (mod3_range n0) as H0. pose proof (mod3_range (n0 + 1)) as H1. pose proof (mod3_range (n0 + 2)) as H2.
  pose proof (mod3_distinct n0) as (D1 & D2 & D3).
  assert (E1 : (n0 mod 3 + 1) mod 3 = (n0 + 1) mod 3) by (rewrite Zplus_mod_idemp_l; reflexivity).
  destruct (handed_over_fields init tlen mtu ses str n0 off0) as (F1 & F2 & F3 & F4 & F5 & F6).
  constructor; cbn [ps_log pub_init]; try (rewrite handed_over_tail by assumption); rewrite ?F1, ?F2, ?F3, ?F4, ?F5.
  - exists bits. rewrite F1, F2, F3. repeat split; try lia; auto.
  - assumption.
  - reflexivity.
  - lia.
  - rewrite Z.eqb_refl. reflexivity.
  - assert (Q1 : ((n0 + 1) mod 3 =? n0 mod 3) = false) by lia. rewrite Q1. rewrite E1, Z.eqb_refl.
    rewrite raw_tid; [|apply wrap32_range|unfold two32; lia].
    replace (wrap32 (init + n0) + 1 - 3) with (wrap32 (init + n0) + (1 - 3)) by ring. rewrite wrap32_add_wrap32. f_equal. ring.
  - assert (Q1 : ((n0 + 2) mod 3 =? n0 mod 3) = false) by lia. rewrite Q1. rewrite E1.
    assert (Q2 : ((n0 + 2) mod 3 =? (n0 + 1) mod 3) = false) by lia. rewrite Q2.
    rewrite raw_tid; [|apply wrap32_range|unfold two32; lia].
    replace (wrap32 (init + n0) + 2 - 3) with (wrap32 (init + n0) + (2 - 3)) by ring. rewrite wrap32_add_wrap32. f_equal. ring.
  - unfold limit_ok. rewrite ?F2, ?F5.
    assert (0 <= tlen) by (rewrite Ht; apply Z.pow_nonneg; lia). assert (0 <= tlen / 2) by (apply Z.div_pos; lia). unfold two31. lia.
Qed.

(* ---- position() ---- *)
Lemma pub_position_spec m s n off : pub_inv n off s -> ps_closed s = false ->
  pub_position m s = Ok (spec_pos (ps_log s) n off).
Proof. intros Hinv Hc. pose proof Hinv as [Hleg Hn Hcount Hoff Htail Hnext Hthird Hlim].
  pose proof (inv_off_bound s n off Hinv) as [Hob Htl].
  destruct (legal_bits _ Hleg) as (bits & Hb & Ht & Hbo).
  unfold pub_position. rewrite Hc. rewrite Hcount. rewrite index_by_term_count_nonneg by assumption. rewrite Htail.
  rewrite raw_tid; [|apply wrap32_range|unfold two32; lia].
  unfold term_offset_of. rewrite raw_mod by (unfold two32; lia).
  assert (Hmin : 0 <= Z.min off (l_tlen (ps_log s)) <= l_tlen (ps_log s)).
  { destruct (Z.min_spec off (l_tlen (ps_log s))) as [[? ->]|[? ->]]; lia. }
  rewrite (wrap32_small (Z.min off (l_tlen (ps_log s)))) by lia. rewrite Hbo.
  rewrite compute_position_spec; try lia; try (apply legal_init; assumption); try (rewrite <- Ht; lia).
  unfold spec_position, spec_pos. rewrite Ht. reflexivity. Qed.

Lemma spec_pos_range s n off : pub_inv n off s -> 0 <= spec_pos (ps_log s) n off <= l_tlen (ps_log s) * two31.
Proof. intros Hinv. pose proof Hinv as [Hleg Hn Hcount Hoff Htail Hnext Hthird Hlim].
  pose proof (inv_off_bound s n off Hinv) as [Hob Htl]. unfold spec_pos, two31 in *. nia. Qed.

(* the refusal computed from position() is the refusal computed from the raw tail *)
Lemma status_of_spec s n off len : pub_inv n off s -> 0 <= len ->
  status_of (ps_log s) (n * l_tlen (ps_log s) + off) len = status_of (ps_log s) (spec_pos (ps_log s) n off) len.
Proof. intros Hinv Hlen. pose proof Hinv as [Hleg Hn Hcount Hoff Htail Hnext Hthird Hlim].
  pose proof (inv_off_bound s n off Hinv) as [Hob Htl]. unfold spec_pos, status_of.
  destruct (Z.le_gt_cases off (l_tlen (ps_log s))) as [Hle | Hgt].
  - rewrite Z.min_l by assumption. reflexivity.
  - assert (Hl : n = two31 - 1) by lia. rewrite Z.min_r by lia.
    assert (E1 : (l_tlen (ps_log s) * two31 <=? n * l_tlen (ps_log s) + off + len) = true) by (unfold two31 in *; nia).
    assert (E2 : (l_tlen (ps_log s) * two31 <=? n * l_tlen (ps_log s) + l_tlen (ps_log s) + len) = true) by (unfold two31 in *; nia).
    rewrite E1, E2. reflexivity. Qed.

(* ---- one offer / claim / bulk offer, all cases ---- *)
Lemma pub_step_cases m rv s n off o : pub_inv n off s -> op_ok (ps_log s) o -> is_append o = true ->
  (exists len, o = Claim len /\ max_payload_length (ps_log s) < len /\ pub_step m rv s o = (s, Err TooLong)) \/
  try_result s n off (op_required (ps_log s) o) (op_len o) (op_too_long (ps_log s) o) (pub_step m rv s o).
Proof. intros Hinv Hok Ha. destruct o; try discriminate; cbn [pub_step op_ok] in *.
  - right. apply pub_offer_cases; assumption.
  - pose proof (pub_claim_cases m s n off Hinv len Hok) as T. cbn [op_too_long].
    destruct (max_payload_length (ps_log s) <? len) eqn:E.
    + left. exists len. repeat split; [lia|exact T].
    + right. exact T.
  - right. apply pub_bulk_cases; assumption. Qed.

(* accepted only strictly below the limit, on an open publication, within the length limits;
   the result is the position just after the message, which is what position() then reports, never beyond the end *)
Theorem pub_accept m rv s n off o s' p : pub_inv n off s -> op_ok (ps_log s) o -> is_append o = true ->
  pub_step m rv s o = (s', Ok p) ->
  ps_closed s = false /\ op_too_long (ps_log s) o = false /\
  pub_position m s = Ok (spec_pos (ps_log s) n off) /\ spec_pos (ps_log s) n off < l_limit (ps_log s) /\
  p = spec_pos (ps_log s) n off + op_required (ps_log s) o /\
  pub_position m s' = Ok p /\ p <= l_tlen (ps_log s) * two31 /\ pub_inv n (off + op_required (ps_log s) o) s'.
Proof. intros Hinv Hok Ha Hs. destruct (pub_step_cases m rv s n off o Hinv Hok Ha) as [(len & _ & _ & E) | T].
  - rewrite E in Hs. discriminate.
  - rewrite Hs in T. inversion T; subst.
    match goal with H : op_too_long _ _ = false |- _ => rename H into Htl end. symmetry in Htl.
    assert (Hreq := required_ok s n off o Hinv Hok Ha ltac:(congruence)).
    destruct (try_result_inv s n off _ _ _ s' (Ok (n * l_tlen (ps_log s) + off + op_required (ps_log s) o)) Hinv Hreq T) as (Hg & _ & _ & Hinv').
    pose proof (inv_off_bound s n off Hinv) as [Hob Htl2]. pose proof (pi_n _ _ _ Hinv) as Hn.
    assert (Hsp : spec_pos (ps_log s) n off = n * l_tlen (ps_log s) + off) by (unfold spec_pos; lia).
    split; [congruence|]. split; [congruence|]. split; [apply pub_position_spec; assumption|].
    split; [lia|]. split; [lia|].
    split; [|split; [unfold two31 in *; nia|exact Hinv']].
    rewrite (pub_position_spec m s' n _ Hinv') by assumption. destruct Hg as (_ & G2 & _). unfold spec_pos. rewrite <- G2. f_equal. lia.
Qed.

(* a refusal leaves the whole state as it was *)
Theorem pub_refuse_pure m rv s n off o s' e : pub_inv n off s -> op_ok (ps_log s) o -> is_append o = true ->
  pub_step m rv s o = (s', Err e) ->
  (e = BackPressured \/ e = NotConnected \/ e = Closed \/ e = TooLong) -> s' = s.
Proof. intros Hinv Hok Ha Hs He. destruct (pub_step_cases m rv s n off o Hinv Hok Ha) as [(len & _ & _ & E) | T].
  - rewrite E in Hs. congruence.
  - rewrite Hs in T. inversion T; subst; try reflexivity; destruct He as [He | [He | [He | He]]]; discriminate. Qed.

(* at or beyond the limit: refused, with the prescribed status, nothing changes *)
Theorem pub_refuse_at_limit m rv s n off o : pub_inv n off s -> op_ok (ps_log s) o -> is_append o = true ->
  ps_closed s = false -> l_limit (ps_log s) <= spec_pos (ps_log s) n off ->
  pub_step m rv s o =
    (s, Err (match o with
             | Claim len => if max_payload_length (ps_log s) <? len then TooLong else status_of (ps_log s) (spec_pos (ps_log s) n off) len
             | _ => status_of (ps_log s) (spec_pos (ps_log s) n off) (op_len o) end)).
Proof. intros Hinv Hok Ha Hc Hl.
  assert (Hint : l_limit (ps_log s) <= n * l_tlen (ps_log s) + off).
  { pose proof (inv_off_bound s n off Hinv) as [Hob Htl]. unfold spec_pos in Hl. lia. }
  assert (Hlen : 0 <= op_len o).
  { destruct o; cbn [op_len op_ok] in *; try lia; [apply zlen_nonneg|apply total_nonneg]. }
  destruct (pub_step_cases m rv s n off o Hinv Hok Ha) as [(len & -> & Hgt & E) | T].
  - rewrite E. assert (E2 : (max_payload_length (ps_log s) <? len) = true) by lia. rewrite E2. reflexivity.
  - inversion T; subst; try congruence; try lia.
    rewrite (status_of_spec s n off _ Hinv Hlen).
    destruct o; try discriminate; cbn [op_len]; try reflexivity.
    destruct (max_payload_length (ps_log s) <? len) eqn:E; [|reflexivity].
    pose proof (pub_claim_cases m s n off Hinv len Hok) as T2. rewrite E in T2. cbn [pub_step] in *.
    exfalso. match goal with H : (s, Err (status_of ?a ?b ?c)) = _ |- _ => rewrite T2 in H; unfold status_of in H;
      destruct (_ <=? _) in H; [discriminate|]; destruct (l_connected _) in H; discriminate end.
Qed.

(* a closed publication rejects every offer and claim *)
Theorem pub_closed m rv s n off o : pub_inv n off s -> op_ok (ps_log s) o -> is_append o = true -> ps_closed s = true ->
  pub_step m rv s o = (s, Err Closed) \/ (exists len, o = Claim len /\ max_payload_length (ps_log s) < len /\ pub_step m rv s o = (s, Err TooLong)).
Proof. intros Hinv Hok Ha Hc. destruct (pub_step_cases m rv s n off o Hinv Hok Ha) as [(len & Ho & Hgt & E) | T].
  - right. exists len. auto.
  - left. inversion T; subst; try congruence. Qed.

(* an over-long message is rejected without touching the log *)
Theorem pub_too_long m rv s n off o : pub_inv n off s -> op_ok (ps_log s) o -> is_append o = true ->
  op_too_long (ps_log s) o = true ->
  exists e, pub_step m rv s o = (s, Err e) /\
    (e = TooLong \/ (e = Closed /\ ps_closed s = true) \/
     (ps_closed s = false /\ l_limit (ps_log s) <= n * l_tlen (ps_log s) + off /\ e = status_of (ps_log s) (n * l_tlen (ps_log s) + off) (op_len o))).
Proof. intros Hinv Hok Ha Htl. destruct (pub_step_cases m rv s n off o Hinv Hok Ha) as [(len & Ho & Hgt & E) | T].
  - exists TooLong. split; [exact E|left; reflexivity].
  - rewrite Htl in T. inversion T; subst; try discriminate.
    + exists Closed. split; [reflexivity|]. right. left. auto.
    + eexists. split; [reflexivity|]. right. right. auto.
    + exists TooLong. split; [reflexivity|left; reflexivity]. Qed.

(* the only non-Ok results that change the state are the end-of-term trips *)
Theorem pub_trip m rv s n off o s' e : pub_inv n off s -> op_ok (ps_log s) o -> is_append o = true ->
  pub_step m rv s o = (s', Err e) -> s' <> s ->
  ps_closed s = false /\ ps_closed s' = false /\ ps_claim s' = ps_claim s /\ op_too_long (ps_log s) o = false /\
  n * l_tlen (ps_log s) + off < l_limit (ps_log s) /\ l_tlen (ps_log s) < off + op_required (ps_log s) o /\
  ((e = AdminAction /\ n < two31 - 1 /\ ps_log s' = rotated (bumped (ps_log s) n off (op_required (ps_log s) o)) n /\
    pub_inv (n + 1) 0 s') \/
   (e = MaxPositionExceeded /\ n = two31 - 1 /\ ps_log s' = bumped (ps_log s) n off (op_required (ps_log s) o))).
Proof. intros Hinv Hok Ha Hs Hne. destruct (pub_step_cases m rv s n off o Hinv Hok Ha) as [(len & _ & _ & E) | T].
  - rewrite E in Hs. congruence.
  - rewrite Hs in T. pose proof (pi_n _ _ _ Hinv) as Hn.
    inversion T; subst; try congruence.
    + match goal with H : op_too_long _ _ = false |- _ => rename H into Htl end. symmetry in Htl.
      assert (Hreq := required_ok s n off o Hinv Hok Ha ltac:(congruence)).
      destruct (try_result_inv s n off _ _ _ s' (Err AdminAction) Hinv Hreq T) as (_ & _ & _ & Hinv').
      do 6 (split; [auto|]). left. split; [reflexivity|]. split; [assumption|]. split; assumption.
    + do 6 (split; [auto|]). right. split; [reflexivity|]. split; [lia|assumption]. Qed.

(* every result is one of the seven the API documents: no panic, no other error *)
Theorem pub_total m rv s n off o : pub_inv n off s -> op_ok (ps_log s) o -> is_append o = true ->
  match snd (pub_step m rv s o) with
  | Ok _ | Err BackPressured | Err NotConnected | Err AdminAction | Err MaxPositionExceeded | Err Closed | Err TooLong => True
  | _ => False
  end.
Proof. intros Hinv Hok Ha. destruct (pub_step_cases m rv s n off o Hinv Hok Ha) as [(len & _ & _ & E) | T].
  - rewrite E. exact I.
  - inversion T; cbn [snd]; auto. unfold status_of. destruct (_ <=? _); [exact I|]. destruct (l_connected _); exact I. Qed.

(* what the trip leaves in the log: the tail counter bumped, exactly one padding frame from the old tail offset to the end
   of the term (none if the term was exactly full), nothing else *)
Lemma bumped_spec l n off req : 0 <= n ->
  tail (bumped l n off req) (n mod 3) = wrap32 (l_init l + n) * two32 + (off + req) /\
  tail (bumped l n off req) ((n + 1) mod 3) = tail l ((n + 1) mod 3) /\
  tail (bumped l n off req) ((n + 2) mod 3) = tail l ((n + 2) mod 3) /\
  l_count (bumped l n off req) = l_count l /\
  part (bumped l n off req) ((n + 1) mod 3) = part l ((n + 1) mod 3) /\
  part (bumped l n off req) ((n + 2) mod 3) = part l ((n + 2) mod 3) /\
  part (bumped l n off req) (n mod 3) =
    (if off <? l_tlen l
     then term_put (part l (n mod 3)) off
            [Committed (data_frame l off (l_tlen l - off) (wrap32 (l_init l + n)) F_UNFRAG T_PAD 0 [])]
     else part l (n mod 3)).
Proof. intros Hn. pose proof (mod3_range n) as H0. pose proof (mod3_range (n+1)) as H1. pose proof (mod3_range (n+2)) as H2.
  pose proof (mod3_distinct n) as (D1 & D2 & D3).
  rewrite !tail_bumped by assumption. rewrite Z.eqb_refl.
  assert (E1 : ((n + 1) mod 3 =? n mod 3) = false) by lia. assert (E2 : ((n + 2) mod 3 =? n mod 3) = false) by lia.
  rewrite E1, E2. destruct (bumped_fields l n off req) as (Bc & _). repeat split; auto.
  - unfold bumped, put_padding. cbn [l_tlen set_tail]. destruct (off <? l_tlen l); [|reflexivity].
    rewrite part_set_part_other by auto. reflexivity.
  - unfold bumped, put_padding. cbn [l_tlen set_tail]. destruct (off <? l_tlen l); [|reflexivity].
    rewrite part_set_part_other by auto. reflexivity.
  - unfold bumped, put_padding. cbn [l_tlen set_tail]. destruct (off <? l_tlen l) eqn:E; [|reflexivity].
    rewrite part_set_part_same by assumption. unfold padding_entries. cbn [l_tlen set_tail]. rewrite E. reflexivity.
Qed.
