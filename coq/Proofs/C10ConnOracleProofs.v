(* The connect oracle (holds_conn) is true on the model's own observation, for every script and both build modes. *)
From Coq Require Import ZArith List Bool Lia Arith.
From Coq Require Import ZifyBool.
Require Import V.Base.MachineInt V.Generated.GenConsts V.Model.Connect V.Model.CncLayout V.Proofs.ConnectProofs V.Oracle.C10CncOracle.
Import ListNotations.
Open Scope Z_scope.

Lemma nth_last_in {A} (l : list A) d i : l <> [] -> In (nth_last l d i) l.
Proof.
  intros Hl. unfold nth_last. apply nth_In. destruct l; [congruence |]. cbn [length]. lia.
Qed.

Lemma nth_last_default {A} (d : A) i : nth_last [] d i = d.
Proof. unfold nth_last. cbn. destruct (Nat.min i 0); reflexivity. Qed.

Lemma snap_j c0 sc k j : e_snap (env_of_script c0 sc) k j = snp c0 sc k.
Proof. unfold snp. destruct k; reflexivity. Qed.

Lemma clock_in c0 sc k : In (e_clock (env_of_script c0 sc) k) (c0 :: map snd sc).
Proof.
  destruct k; [left; reflexivity |]. cbn [e_clock env_of_script].
  destruct sc as [|p r].
  - left. cbn [map]. rewrite nth_last_default. reflexivity.
  - right. apply nth_last_in. discriminate.
Qed.

Lemma snap_in c0 sc k : sc <> [] -> (1 <= k)%nat -> In (snp c0 sc k) (map fst sc).
Proof.
  intros Hs Hk. destruct k; [lia |]. unfold snp. cbn [e_snap env_of_script].
  apply nth_last_in. destruct sc; [congruence | discriminate].
Qed.

Lemma wf_parts T c0 sc : script_wf T c0 sc = true ->
  arith_wf T c0 (map snd sc) = true /\ c0 + T < last (map snd sc) c0 /\ forallb (fun p => file_wf (min_size sc) (fst p)) sc = true.
Proof.
  unfold script_wf. intros Hwf.
  apply andb_prop in Hwf as [H1 H3]. apply andb_prop in H1 as [H1 H2]. repeat split; auto. lia.
Qed.

Lemma sc_nonempty T c0 sc : script_wf T c0 sc = true -> sc <> [].
Proof.
  intros Hwf. destruct (wf_parts _ _ _ Hwf) as (Ha & Hl & _). intros E. rewrite E in Hl. cbn in Hl.
  unfold arith_wf in Ha. lia.
Qed.

Lemma script_arith_ok T c0 sc : script_wf T c0 sc = true -> arith_ok (env_of_script c0 sc) T.
Proof.
  intros Hwf. destruct (wf_parts _ _ _ Hwf) as (Ha & _ & _). unfold arith_wf in Ha.
  apply andb_prop in Ha as [Ha H4]. apply andb_prop in Ha as [Ha H3]. apply andb_prop in Ha as [H1 H2].
  unfold arith_ok. change (e_clock (env_of_script c0 sc) 0%nat) with c0. repeat split; try lia.
  - destruct (clock_in c0 sc k) as [<-|Hin]; [lia |]. rewrite forallb_forall in H4. specialize (H4 _ Hin). lia.
  - destruct (clock_in c0 sc k) as [<-|Hin]; [lia |]. rewrite forallb_forall in H4. specialize (H4 _ Hin). lia.
Qed.

Lemma settle_spec dl (l : list Z) d : forall i, (settle dl l <= i < length l)%nat -> nth i l d > dl.
Proof.
  induction l as [|c r IH]; intros i Hi; [cbn in Hi; lia |].
  cbn [settle] in Hi. cbn [length] in Hi.
  destruct ((settle dl r =? 0)%nat && (c >? dl)) eqn:E.
  - destruct i; cbn [nth]; [lia |]. apply IH. lia.
  - destruct i; [lia |]. cbn [nth]. apply IH. lia.
Qed.

Lemma settle_lt dl (l : list Z) d : l <> [] -> last l d > dl -> (settle dl l < length l)%nat.
Proof.
  induction l as [|c r IH]; intros Hn Hl; [congruence |].
  cbn [settle length]. destruct r as [|c2 r2].
  - cbn in *. assert ((c >? dl) = true) as -> by lia. cbn. lia.
  - assert (settle dl (c2 :: r2) < length (c2 :: r2))%nat by (apply IH; [discriminate | exact Hl]).
    destruct ((settle dl (c2 :: r2) =? 0)%nat && (c >? dl)); lia.
Qed.

Lemma script_settled T c0 sc : script_wf T c0 sc = true ->
  settled (env_of_script c0 sc) T (S (settle (c0 + T) (map snd sc))) /\ (S (settle (c0 + T) (map snd sc)) <= length sc)%nat.
Proof.
  intros Hwf. destruct (wf_parts _ _ _ Hwf) as (_ & Hl & _). pose proof (sc_nonempty _ _ _ Hwf) as Hn.
  assert (Hc : map snd sc <> []) by (destruct sc; [congruence | discriminate]).
  pose proof (settle_lt (c0 + T) (map snd sc) c0 Hc ltac:(lia)) as Hlt.
  split; [| rewrite map_length in Hlt; lia].
  intros k Hk. change (e_clock (env_of_script c0 sc) 0%nat) with c0. destruct k; [lia |].
  cbn [e_clock env_of_script]. unfold nth_last.
  apply settle_spec. lia.
Qed.

Lemma script_env_wf T c0 sc : script_wf T c0 sc = true -> env_wf (env_of_script c0 sc) (min_size sc).
Proof.
  intros Hwf. destruct (wf_parts _ _ _ Hwf) as (_ & _ & Hf). pose proof (sc_nonempty _ _ _ Hwf) as Hn.
  rewrite forallb_forall in Hf.
  assert (Hall : forall s, In s (map fst sc) -> file_wf (min_size sc) s = true).
  { intros s Hin. apply in_map_iff in Hin as (p & <- & Hp). apply Hf, Hp. }
  assert (Hlo : Connect.META_FIELDS <= min_size sc).
  { destruct sc as [|p r]; [congruence |]. specialize (Hall (fst p) (or_introl eq_refl)).
    unfold file_wf, CncLayout.META_FIELDS, Connect.META_FIELDS in *. lia. }
  split; [exact Hlo |]. split; [unfold Connect.META_FIELDS, CNC_META_DATA_FIELDS_END in Hlo; lia |].
  intros k j Hk. cbn zeta. rewrite snap_j. specialize (Hall _ (snap_in c0 sc k Hn Hk)).
  unfold file_wf, CncLayout.META, Connect.META in *. repeat split; try (unfold TRAILER; lia).
  intros n En. rewrite En in Hall. lia.
Qed.

Lemma script_fuel_enough T c0 sc : script_wf T c0 sc = true -> (6 * S (settle (c0 + T) (map snd sc)) <= script_fuel sc)%nat.
Proof. intros Hwf. destruct (script_settled _ _ _ Hwf) as [_ H]. unfold script_fuel. lia. Qed.


Lemma kind_eqb_refl k : kind_eqb k k = true.
Proof. destruct k; try reflexivity. destruct e; reflexivity. Qed.

Lemma forallb_alive_in T cl sc s :
  forallb (fun p : snap * Z => snap_alive T cl (fst p)) sc = true -> In s (map fst sc) -> snap_alive T cl s = true.
Proof. intros H Hin. rewrite forallb_forall in H. apply in_map_iff in Hin as (p & <- & Hp). apply H, Hp. Qed.
Lemma forallb_dead_in T cl sc s :
  forallb (fun p : snap * Z => snap_dead T cl (fst p)) sc = true -> In s (map fst sc) -> snap_dead T cl s = true.
Proof. intros H Hin. rewrite forallb_forall in H. apply in_map_iff in Hin as (p & <- & Hp). apply H, Hp. Qed.

Lemma alive_facts T cl s : snap_alive T cl s = true ->
  (exists n, s_file s = FSize n /\ n <> 0) /\ s_ver s <> 0 /\ version_ok (s_ver s) = true /\ s_hb s <> 0
  /\ forall t, In t cl -> stale (s_hb s) t T = false.
Proof.
  unfold snap_alive. intros H.
  apply andb_prop in H as [H H5]. apply andb_prop in H as [H H4]. apply andb_prop in H as [H H3]. apply andb_prop in H as [H1 H2].
  repeat split; try lia; auto.
  - destruct (s_file s); [discriminate |]. exists n. split; [reflexivity | lia].
  - intros t Ht. rewrite forallb_forall in H5. specialize (H5 t Ht). destruct (stale (s_hb s) t T); [discriminate | reflexivity].
Qed.

Lemma dead_facts T cl s : snap_dead T cl s = true ->
  (exists n, s_file s = FSize n /\ n <> 0) /\ s_ver s <> 0 /\ version_ok (s_ver s) = true
  /\ forall t, In t cl -> stale (s_hb s) t T = true.
Proof.
  unfold snap_dead. intros H.
  apply andb_prop in H as [H H4]. apply andb_prop in H as [H H3]. apply andb_prop in H as [H1 H2].
  repeat split; try lia; auto.
  - destruct (s_file s); [discriminate |]. exists n. split; [reflexivity | lia].
  - intros t Ht. rewrite forallb_forall in H4. apply H4, Ht.
Qed.

Theorem holds_conn_model m T c0 sc : holds_conn T c0 sc (connect_script m T c0 sc) = true.
Proof.
  unfold holds_conn. destruct (script_wf T c0 sc) eqn:Hwf; [| reflexivity]. cbn [negb].
  set (e := env_of_script c0 sc).
  pose proof (script_arith_ok T c0 sc Hwf) as Ha. fold e in Ha.
  destruct (script_settled T c0 sc Hwf) as [Hs Hlen]. fold e in Hs.
  pose proof (script_env_wf T c0 sc Hwf) as Hw. fold e in Hw.
  pose proof (script_fuel_enough T c0 sc Hwf) as Hfuel.
  pose proof (sc_nonempty T c0 sc Hwf) as Hne.
  pose proof (connect_terminates m T e _ (script_fuel sc) Ha Hs Hfuel) as [Hnh HK].
  pose proof (connect_total m T e _ (script_fuel sc) Ha Hw) as [Hnp Hnu].
  pose proof (connect_sound m T e (script_fuel sc) Ha) as Hpost.
  unfold connect_script. fold e.
  destruct (connect (script_fuel sc) m T e) as [r K] eqn:Ec. cbn [fst snd] in *.
  rewrite Nat2Z.id.
  assert (Hsnap : forall k j, e_snap e k j = snp c0 sc k) by (intros; apply snap_j).
  assert (Hclk : forall k, e_clock e k = clk c0 sc k) by reflexivity.
  assert (Hc0 : e_clock e 0%nat = c0) by reflexivity.
  assert (Hbound : (K <=? S (S (settle (c0 + T) (map snd sc))))%nat = true) by (apply Nat.leb_le; exact HK).
  assert (Hne' : negb (length sc =? 0)%nat = true) by (destruct sc; [congruence | reflexivity]).
  rewrite Hbound, Hne'. rewrite !andb_true_r.
  (* the two global clauses, by exclusion on the verdict *)
  assert (Halive : forall k, (1 <= k)%nat ->
            forallb (fun p : snap * Z => snap_alive T (c0 :: map snd sc) (fst p)) sc = true ->
            snap_alive T (c0 :: map snd sc) (snp c0 sc k) = true).
  { intros k Hk H. eapply forallb_alive_in; [exact H | apply snap_in; assumption]. }
  assert (Hdead : forall k, (1 <= k)%nat ->
            forallb (fun p : snap * Z => snap_dead T (c0 :: map snd sc) (fst p)) sc = true ->
            snap_dead T (c0 :: map snd sc) (snp c0 sc k) = true).
  { intros k Hk H. eapply forallb_dead_in; [exact H | apply snap_in; assumption]. }
  assert (Hcin : forall k, In (clk c0 sc k) (c0 :: map snd sc)) by (intros k; rewrite <- Hclk; apply clock_in).
  assert (HKtwo : forallb (fun p : snap * Z => snap_alive T (c0 :: map snd sc) (fst p)) sc = true -> K = 2%nat).
  { intros Hal.
    destruct (connect_alive_at_once m T e _ (script_fuel sc) Ha Hw) as (n & v & h1 & t & h2 & E2).
    - intros j. rewrite Hsnap. pose proof (Halive 1%nat (le_n _) Hal) as A.
      apply alive_facts in A as (A1 & A2 & A3 & A4 & _). split; [split; [exact A1 | split; assumption] | exact A4].
    - rewrite Hsnap, Hclk. pose proof (Halive 2%nat ltac:(lia) Hal) as A.
      apply alive_facts in A as (_ & _ & _ & _ & Hall). specialize (Hall _ (Hcin 1%nat)). exact Hall.
    - unfold script_fuel. lia.
    - rewrite Ec in E2. injection E2 as _ E3. exact E3. }
  destruct r as [n v h1 t h2 | er w t | | |]; try congruence; cbn [kind_of post] in *.
  - (* Ok *)
    destruct Hpost as (HK2 & Ht & Hh2 & Hst & (Hsz & Hv & Hv0 & Hvo) & Hh1 & (j & Hj)).
    rewrite Hsnap in Hh2, Hj. rewrite Hclk in Ht. subst t h2.
    assert ((1 <=? Z.of_nat K) = true) as -> by lia.
    assert ((2 <=? Z.of_nat K) = true) as -> by lia.
    unfold stale at 1. rewrite Hst. rewrite <- Hj.
    assert ((h1 =? 0) = false) as -> by lia. cbn [negb andb].
    assert (E1 : existsb (fun k => negb (s_ver (snp c0 sc k) =? 0) && version_ok (s_ver (snp c0 sc k))) (seq 1 (K - 1)) = true).
    { apply existsb_exists. destruct Hv as (k' & j' & Hk' & Hvv). exists k'. split; [apply in_seq; lia |].
      cbn zeta. rewrite Hsnap in Hvv. rewrite Hvv, Hvo. assert ((v =? 0) = false) as -> by lia. reflexivity. }
    assert (E2 : existsb (fun k => match s_file (snp c0 sc k) with FSize n => negb (n =? 0) | _ => false end) (seq 1 (K - 1)) = true).
    { apply existsb_exists. destruct Hsz as (k' & j' & n0 & Hk' & Hf & Hn0 & _). exists k'. split; [apply in_seq; lia |].
      rewrite Hsnap in Hf. rewrite Hf. lia. }
    rewrite E1, E2. cbn [andb].
    (* dead all along is impossible here *)
    destruct (forallb (fun p : snap * Z => snap_dead T (c0 :: map snd sc) (fst p)) sc) eqn:Ed.
    + exfalso. specialize (Hdead K ltac:(lia) eq_refl). apply dead_facts in Hdead as (_ & _ & _ & Hall).
      specialize (Hall _ (Hcin (K - 1)%nat)). unfold stale in Hall. congruence.
    + destruct (forallb (fun p : snap * Z => snap_alive T (c0 :: map snd sc) (fst p)) sc) eqn:Eal; [rewrite (HKtwo eq_refl); reflexivity | reflexivity].
  - (* Err *)
    destruct er; cbn [post] in Hpost.
    + (* EMapFile *)
      destruct Hpost as (HK1 & j & Hf). rewrite Hsnap in Hf.
      assert ((1 <=? Z.of_nat K) = true) as -> by lia. cbn [andb].
      destruct (forallb (fun p : snap * Z => snap_alive T (c0 :: map snd sc) (fst p)) sc) eqn:Eal.
      { exfalso. specialize (Halive K HK1 eq_refl). apply alive_facts in Halive as ((n & Hn & Hn0) & _). destruct Hf; congruence. }
      destruct (forallb (fun p : snap * Z => snap_dead T (c0 :: map snd sc) (fst p)) sc) eqn:Ed.
      { exfalso. specialize (Hdead K HK1 eq_refl). apply dead_facts in Hdead as ((n & Hn & Hn0) & _). destruct Hf; congruence. }
      rewrite !andb_true_r.
      destruct Hf as [Hf|Hf]; rewrite Hf; reflexivity.
    + (* ENotCreated *)
      destruct Hpost as (HK2 & Ht & Hp & j & Hf). rewrite Hsnap in Hf. rewrite Hclk in Ht. subst t. rewrite Hc0 in Hp.
      assert ((1 <=? Z.of_nat K) = true) as -> by lia.
      assert ((2 <=? Z.of_nat K) = true) as -> by lia. rewrite Hf.
      assert ((clk c0 sc (K - 1) >? c0 + T) = true) as -> by lia. cbn [andb Z.eqb].
      destruct (forallb (fun p : snap * Z => snap_alive T (c0 :: map snd sc) (fst p)) sc) eqn:Eal.
      { exfalso. specialize (Halive (K - 1)%nat ltac:(lia) eq_refl). apply alive_facts in Halive as ((n & Hn & Hn0) & _). congruence. }
      destruct (forallb (fun p : snap * Z => snap_dead T (c0 :: map snd sc) (fst p)) sc) eqn:Ed.
      { exfalso. specialize (Hdead (K - 1)%nat ltac:(lia) eq_refl). apply dead_facts in Hdead as ((n & Hn & Hn0) & _). congruence. }
      reflexivity.
    + (* ENotInitialised *)
      destruct Hpost as (HK2 & Ht & Hp & j & Hf). rewrite Hsnap in Hf. rewrite Hclk in Ht. subst t. rewrite Hc0 in Hp.
      assert ((1 <=? Z.of_nat K) = true) as -> by lia.
      assert ((2 <=? Z.of_nat K) = true) as -> by lia. rewrite Hf.
      assert ((clk c0 sc (K - 1) >? c0 + T) = true) as -> by lia. cbn [andb Z.eqb].
      destruct (forallb (fun p : snap * Z => snap_alive T (c0 :: map snd sc) (fst p)) sc) eqn:Eal.
      { exfalso. specialize (Halive (K - 1)%nat ltac:(lia) eq_refl). apply alive_facts in Halive as (_ & Hv & _). congruence. }
      destruct (forallb (fun p : snap * Z => snap_dead T (c0 :: map snd sc) (fst p)) sc) eqn:Ed.
      { exfalso. specialize (Hdead (K - 1)%nat ltac:(lia) eq_refl). apply dead_facts in Hdead as (_ & Hv & _). congruence. }
      reflexivity.
    + (* EVersion *)
      destruct Hpost as (HK1 & Hw0 & Hvo & j & Hf). rewrite Hsnap in Hf.
      assert ((1 <=? Z.of_nat K) = true) as -> by lia. rewrite Hf, Hvo.
      assert ((w =? 0) = false) as -> by lia. cbn [andb negb].
      destruct (forallb (fun p : snap * Z => snap_alive T (c0 :: map snd sc) (fst p)) sc) eqn:Eal.
      { exfalso. specialize (Halive K HK1 eq_refl). apply alive_facts in Halive as (_ & _ & Hv & _). congruence. }
      destruct (forallb (fun p : snap * Z => snap_dead T (c0 :: map snd sc) (fst p)) sc) eqn:Ed.
      { exfalso. specialize (Hdead K HK1 eq_refl). apply dead_facts in Hdead as (_ & _ & Hv & _). congruence. }
      reflexivity.
    + (* ENoHeartbeat *)
      destruct Hpost as (HK2 & Ht & Hp & Hor). rewrite Hclk in Ht. subst t. rewrite Hc0 in Hp.
      assert ((1 <=? Z.of_nat K) = true) as -> by lia.
      assert ((2 <=? Z.of_nat K) = true) as -> by lia.
      assert ((clk c0 sc (K - 1) >? c0 + T) = true) as -> by lia. cbn [andb].
      assert (Hcond : ((s_hb (snp c0 sc (K - 1)) =? 0) || stale (s_hb (snp c0 sc K)) (clk c0 sc (K - 1)) T) = true).
      { destruct Hor as [(_ & j & Hj)|(Hw1 & Hst)].
        - rewrite Hsnap in Hj. rewrite Hj. reflexivity.
        - rewrite Hsnap in Hw1. subst w. unfold stale. rewrite Hst. apply orb_true_r. }
      rewrite Hcond. cbn [andb].
      destruct (forallb (fun p : snap * Z => snap_alive T (c0 :: map snd sc) (fst p)) sc) eqn:Eal.
      { exfalso. pose proof (Halive (K - 1)%nat ltac:(lia) eq_refl) as A1. pose proof (Halive K ltac:(lia) eq_refl) as A2.
        apply alive_facts in A1 as (_ & _ & _ & Hh & _). apply alive_facts in A2 as (_ & _ & _ & _ & Hall).
        specialize (Hall _ (Hcin (K - 1)%nat)). rewrite Hall in Hcond. lia. }
      cbn [kind_eqb]. destruct (forallb (fun p : snap * Z => snap_dead T (c0 :: map snd sc) (fst p)) sc); reflexivity.
Qed.
