(* C03, subscriber with poll flavours: a positive length word at a boundary is a committed frame; loop lemmas. *)
Require Import V.Base.MachineInt.
Require Import V.Generated.GenConsts.
Require Import V.Model.LogBase.
Require Import V.Model.Descriptor.
Require Import V.Model.Sched.
Require Import V.Model.AppenderThreads.
Require Import V.Model.ReaderThreads.
Require Import V.Model.ExclThreads.
Require Import V.Model.PollThreads.
Require Import V.Model.ClaimThreads.
Require Import V.Proofs.TailArith.
Require Import V.Proofs.FragArith.
Require Import V.Proofs.ReaderInv.
Require Import V.Proofs.ExclDefs V.Proofs.ExclPub1 V.Proofs.ExclPub2 V.Proofs.ExclPub3 V.Proofs.ExclRd1.
Require Import V.Proofs.ExclRd2.
From Coq Require Import ZifyBool.
Open Scope Z_scope.

Section R.
  Variable c : cfg.
  Hypothesis W : wf_cfg c.

  (* the frame the publisher is inside is not committed: its length word is not positive *)
  Lemma cur_len gh pl o sl : XPInv c gh pl -> cur c pl = Some (o, sl) -> s_len sl <= 0.
  Proof. intros I Hc. pose proof (mp_pos c W) as (Hmp & _). unfold cur in Hc.
    assert (Fl : in_frame (x_pc pl) = true -> 0 < flen c (x_rem pl)).
    { intros F. destruct (xp_fit c gh pl I F) as (R & _). unfold flen, fbytes. rewrite HDR_32. lia. }
    assert (Pd : in_pad (x_pc pl) = true -> x_toff pl < TL c) by apply (xp_pad c gh pl I).
    destruct (x_pc pl) eqn:Hpc; try discriminate Hc; inversion Hc; subst o sl; clear Hc;
      try (specialize (Fl eq_refl)); try (specialize (Pd eq_refl)).
    - cbn. lia.
    - cbn. lia.
    - cbn. lia.
    - unfold st4. destruct (is_fragmented c _); cbn; lia.
    - unfold st5, st4. destruct (is_fragmented c _); cbn; lia.
    - cbn. lia.
    - destruct (apply_sets_fields (cst3 c pl) (x_done pl)) as (A & _). rewrite A. cbn. lia.
    - destruct (apply_sets_fields (cst3 c pl) (item_sets (x_item pl))) as (A & _). rewrite A. cbn. lia.
    - unfold cpre. destruct (apply_sets_fields (cst3 c pl) (item_sets (x_item pl))) as (A & _).
      destruct (item_abort (x_item pl)); cbn [s_len set_type]; rewrite A; cbn; lia.
    - cbn. lia.
    - cbn. lia.
    - cbn. lia. Qed.

  (* a positive length word at a frame boundary is a committed frame *)
  Lemma len_at_bnd s gh ol p o : memok c s gh ol -> (forall pl, ol = Some pl -> XPInv c gh pl) ->
    0 < s_len (sh_mem s p o) -> exists sl, lookup o (xg_fr gh p) = Some sl /\ sh_mem s p o = sl.
  Proof. intros M HI Hlen. rewrite M in *. unfold expect in *. destruct (lookup o (xg_fr gh p)) as [sl|]; [eauto|].
    exfalso. destruct ol as [pl|]; [|cbn in Hlen; lia]. destruct (cur c pl) as [[o' sl']|] eqn:Hc; [|cbn in Hlen; lia].
    destruct ((p =? x_idx pl) && (o =? o')); [|cbn in Hlen; lia]. pose proof (cur_len gh pl o' sl' (HI pl eq_refl) Hc). lia. Qed.

  (* ---- the subscriber's own steps ---- *)
  Lemma VInv_idle gh l : vin_poll (v_pc l) = false -> VInv c gh l.
  Proof. intros H2. assert (H4 : von_frame (v_pc l) = false) by (destruct (v_pc l); try discriminate; reflexivity).
    constructor; try (rewrite H2; intros; discriminate); try (rewrite H4; intros; discriminate).
    - destruct (v_pc l); try discriminate H2; reflexivity.
    - intros E. rewrite E in H2. discriminate.
    - intros [E | E]; rewrite E in H2; discriminate. Qed.

  Lemma VInv_finish gh r l : VInv c gh (v_finish r l).
  Proof. unfold v_finish, v_begin. apply VInv_idle; cbn. destruct (tl (v_todo l)); reflexivity. Qed.

  (* a state inside a poll, not on a frame *)
  Lemma VInv_in gh l : pollf c gh l -> pc_flav (v_pc l) (v_flav l) = true -> vin_poll (v_pc l) = true -> von_frame (v_pc l) = false -> VInv c gh l.
  Proof. intros P H0 H1 H2. constructor; try assumption; try (rewrite H2; intros; discriminate).
    - intros _. exact P.
    - intros E. rewrite E in H2. discriminate.
    - intros [E | E]; rewrite E in H2; discriminate. Qed.

  Lemma VInv_end gh l : pollf c gh l -> is_peek (v_flav l) = false -> is_block (v_flav l) = false -> VInv c gh (v_end_poll l).
  Proof. intros P E1 E2. unfold v_end_poll. destruct (_ <? _); [|apply VInv_finish].
    apply VInv_in; [exact P | cbn; change (v_flav (vl_pc l VSet)) with (v_flav l); rewrite E1, E2; reflexivity | reflexivity | reflexivity]. Qed.

  Lemma VInv_vloop gh l : pollf c gh l -> is_peek (v_flav l) = false -> is_block (v_flav l) = false -> VInv c gh (v_loop l).
  Proof. intros P E1 E2. unfold v_loop. destruct (_ && _); [|apply VInv_end; assumption].
    apply VInv_in; [exact P | cbn; change (v_flav (vl_pc l VLen)) with (v_flav l); rewrite E2; reflexivity | reflexivity | reflexivity]. Qed.

  Lemma VInv_pend gh l : pollf c gh l -> is_peek (v_flav l) = true -> VInv c gh (v_pend l).
  Proof. intros P E1. unfold v_pend. destruct (_ <? _); [|apply VInv_finish].
    apply VInv_in; [exact P | cbn; exact E1 | reflexivity | reflexivity]. Qed.

  Lemma VInv_ploop gh l : pollf c gh l -> is_peek (v_flav l) = true -> VInv c gh (v_ploop c l).
  Proof. intros P E1. unfold v_ploop. destruct (_ && _); [|apply VInv_pend; assumption].
    apply VInv_in; [exact P | cbn; change (v_flav (vl_pc l VLen)) with (v_flav l); destruct (v_flav l); try discriminate E1; reflexivity | reflexivity | reflexivity]. Qed.

  Lemma VInv_bend gh l : pollf c gh l -> is_block (v_flav l) = true -> VInv c gh (v_bend l).
  Proof. intros P E1. unfold v_bend. destruct (_ <? _); [|apply VInv_finish].
    apply VInv_in; [exact P | cbn; exact E1 | reflexivity | reflexivity]. Qed.

  Lemma VInv_bloop gh l : pollf c gh l -> is_block (v_flav l) = true -> VInv c gh (v_bloop l).
  Proof. intros P E1. unfold v_bloop. destruct (_ <? _); [|apply VInv_bend; assumption].
    apply VInv_in; [exact P | cbn; exact E1 | reflexivity | reflexivity]. Qed.

  Lemma pollf_same gh l l' : pollf c gh l -> v_todo l' = v_todo l -> v_idx l' = v_idx l -> v_pos l' = v_pos l -> v_toff0 l' = v_toff0 l ->
    v_off l' = v_off l -> v_ppos l' = v_ppos l -> v_rpos l' = v_rpos l -> v_p0 l' = v_p0 l -> pollf c gh l'.
  Proof. intros (g & G1 & G2 & G3 & G4 & G5 & G6 & G7) E0 E1 E2 E3 E4 E5 E6 E7. exists g. unfold v_flav in *.
    rewrite E0, E1, E2, E3, E4, E5, E6, E7. auto 10. Qed.
End R.
