Require Import V.Base.MachineInt V.Generated.GenConsts V.Model.Descriptor.
From Coq Require Import ZifyBool.
Open Scope Z_scope.

Lemma wrap32_period z k : wrap32 (z + k * two32) = wrap32 z.
Proof. unfold wrap32. replace (z + k * two32 + two31) with (z + two31 + k * two32) by ring.
  rewrite Z_mod_plus_full. reflexivity. Qed.

Lemma wrap32_sub_wrap32 a b : wrap32 (wrap32 a - b) = wrap32 (a - b).
Proof. destruct (wrap32_eqm a) as [k Hk]. rewrite Hk.
  replace (a + k * two32 - b) with (a - b + k * two32) by ring. apply wrap32_period. Qed.

Lemma wrap32_add_wrap32 a b : wrap32 (wrap32 a + b) = wrap32 (a + b).
Proof. destruct (wrap32_eqm a) as [k Hk]. rewrite Hk.
  replace (a + k * two32 + b) with (a + b + k * two32) by ring. apply wrap32_period. Qed.

(* the elapsed-term count is recovered from a wrapped term id *)
Lemma term_count_recovered init n :
  0 <= n < two31 -> wrap32 (wrap32 (init + n) - init) = n.
Proof. intros Hn. rewrite wrap32_sub_wrap32. replace (init + n - init) with n by ring.
  apply wrap32_id. unfold in_i32, two31 in *. lia. Qed.

Lemma pow2_bounds bits : 0 <= bits <= 31 -> 1 <= 2 ^ bits <= two31.
Proof. intros H. split.
  - pose proof (Z.pow_pos_nonneg 2 bits ltac:(lia) ltac:(lia)). lia.
  - unfold two31. change 2147483648 with (2 ^ 31). apply Z.pow_le_mono_r; lia. Qed.

Lemma shl64_small n bits :
  0 <= n < two31 -> 0 <= bits <= 31 -> shl64 n bits = n * 2 ^ bits.
Proof. intros Hn Hb. unfold shl64. apply wrap64_id.
  pose proof (pow2_bounds bits Hb) as Hp. unfold in_i64, two63, two31 in *. nia. Qed.

Theorem compute_position_spec m init n bits off :
  in_i32 init = true -> 0 <= n < two31 -> 0 <= bits <= 31 -> 0 <= off <= 2 ^ bits ->
  compute_position m (wrap32 (init + n)) off bits init = Ok (spec_position n bits off).
Proof. intros Hi Hn Hb Ho. unfold compute_position, spec_position.
  rewrite term_count_recovered by assumption. rewrite shl64_small by assumption.
  unfold add64, chk64. pose proof (pow2_bounds bits Hb) as Hp.
  assert (Hr : in_i64 (n * 2 ^ bits + off) = true).
  { unfold in_i64, two63, two31 in *. nia. }
  rewrite Hr. reflexivity. Qed.

Theorem compute_term_begin_position_spec init n bits :
  in_i32 init = true -> 0 <= n < two31 -> 0 <= bits <= 31 ->
  compute_term_begin_position (wrap32 (init + n)) bits init = spec_position n bits 0.
Proof. intros Hi Hn Hb. unfold compute_term_begin_position, spec_position.
  rewrite term_count_recovered by assumption. rewrite shl64_small by assumption. ring. Qed.

Lemma spec_position_nonneg n bits off :
  0 <= n -> 0 <= bits -> 0 <= off -> 0 <= spec_position n bits off.
Proof. intros. unfold spec_position. pose proof (Z.pow_pos_nonneg 2 bits ltac:(lia) ltac:(lia)). nia. Qed.

Lemma spec_position_bound n bits off :
  0 <= n < two31 -> 0 <= bits <= 31 -> 0 <= off <= 2 ^ bits -> spec_position n bits off <= two31 * 2 ^ bits.
Proof. intros. unfold spec_position. nia. Qed.

(* strictly monotone in (n, off) lexicographically while off stays inside the term *)
Lemma spec_position_mono n1 o1 n2 o2 bits :
  0 <= bits -> 0 <= o1 < 2 ^ bits -> 0 <= o2 < 2 ^ bits -> 0 <= n1 -> 0 <= n2 ->
  (n1 < n2 \/ (n1 = n2 /\ o1 < o2)) -> spec_position n1 bits o1 < spec_position n2 bits o2.
Proof. intros Hb H1 H2 Hn1 Hn2 [H | [H H']]; unfold spec_position; nia. Qed.

Lemma rem3_nonneg n : 0 <= n -> rem_t n 3 = n mod 3.
Proof. intros. unfold rem_t. apply Z.rem_mod_nonneg; lia. Qed.

Theorem partitions_agree init n bits off :
  in_i32 init = true -> 0 <= n < two31 -> 0 <= bits <= 31 -> 0 <= off < 2 ^ bits ->
  index_by_term init (wrap32 (init + n)) = n mod 3 /\
  index_by_term_count n = n mod 3 /\
  index_by_position (spec_position n bits off) bits = n mod 3.
Proof. intros Hi Hn Hb Ho.
  assert (Hm : 0 <= n mod 3 < 3) by (apply Z.mod_pos_bound; lia).
  assert (Hw : wrap32 (n mod 3) = n mod 3) by (apply wrap32_id; unfold in_i32, two31; lia).
  unfold index_by_term, index_by_term_count, index_by_position, PARTITION_COUNT, GenConsts.PARTITION_COUNT.
  rewrite term_count_recovered by assumption.
  rewrite rem3_nonneg by lia. repeat split; try assumption.
  unfold shr64, spec_position.
  assert (Hd : (n * 2 ^ bits + off) / 2 ^ bits = n).
  { rewrite Z.div_add_l by lia. rewrite Z.div_small by lia. lia. }
  rewrite Hd. rewrite rem3_nonneg by lia. assumption. Qed.

(* FRAME_ALIGNMENT = 32 is regenerated from the source; everything below needs only that. *)
Lemma align32_spec m v : 0 <= v <= two31 - 32 ->
  align32 m v = Ok (align v 32).
Proof. intros Hv. unfold align32, FRAME_ALIGNMENT, GenConsts.FRAME_ALIGNMENT, add32, chk32, align.
  assert (Hr : in_i32 (v + (32 - 1)) = true) by (unfold in_i32, two31 in *; lia).
  rewrite Hr. reflexivity. Qed.

Lemma align_ge v : 0 <= v -> v <= align v 32 < v + 32 /\ (align v 32) mod 32 = 0.
Proof. intros. unfold align. split; [|apply Z_mod_mult].
  pose proof (Z.div_mod (v + (32-1)) 32 ltac:(lia)). pose proof (Z.mod_pos_bound (v + (32-1)) 32 ltac:(lia)). lia. Qed.

(* position stored in a fragment's header = position after consuming the frame *)
Theorem header_position_spec m init n bits off len :
  in_i32 init = true -> 0 <= n < two31 -> 5 <= bits <= 30 ->
  0 <= off -> 0 < len -> off mod 32 = 0 -> off + align len 32 <= 2 ^ bits ->
  header_position m init bits (wrap32 (init + n)) off len
    = Ok (spec_position n bits off + align len 32).
Proof. intros Hi Hn Hb Ho Hl Ha Hfit.
  assert (Hp : 2 ^ bits <= 2 ^ 30) by (apply Z.pow_le_mono_r; lia).
  change (2 ^ 30) with 1073741824 in Hp.
  pose proof (align_ge len ltac:(lia)) as [Hal Halm].
  unfold header_position, add32, chk32.
  assert (Hr : in_i32 (off + len) = true) by (unfold in_i32, two31; lia).
  rewrite Hr. cbn [bind]. rewrite align32_spec by (unfold two31; lia). cbn [bind].
  assert (He : align (off + len) 32 = off + align len 32).
  { unfold align. apply Z.mod_divide in Ha; [|lia]. destruct Ha as [q Hq]. subst off.
    replace (q * 32 + len + (32 - 1)) with (len + (32 - 1) + q * 32) by ring.
    rewrite Z.div_add by lia. ring. }
  rewrite He. rewrite compute_position_spec; try assumption; try lia.
  unfold spec_position. f_equal. ring. Qed.

Theorem consistency_check_spec init n c :
  in_i32 init = true -> 0 <= n < two31 -> in_i32 c = true ->
  term_count_consistent c (wrap32 (init + n)) init = true <-> c = n.
Proof. intros Hi Hn Hc. unfold term_count_consistent. rewrite term_count_recovered by assumption.
  rewrite Z.eqb_eq. tauto. Qed.

(* ---- rotation ---- *)

Lemma term_id_of_raw t : in_i32 t = true -> term_id_of (raw_tail_of_term t) = t.
Proof. intros. unfold term_id_of, raw_tail_of_term, shr64. change (2 ^ 32) with two32.
  rewrite Z.div_mul by (unfold two32; lia). apply wrap32_id. assumption. Qed.

Lemma term_id_of_raw_off t o : in_i32 t = true -> 0 <= o < two32 ->
  term_id_of (raw_tail_of_term t + o) = t.
Proof. intros. unfold term_id_of, raw_tail_of_term, shr64. change (2 ^ 32) with two32.
  rewrite Z.div_add_l by (unfold two32; lia). rewrite Z.div_small by lia.
  rewrite Z.add_0_r. apply wrap32_id. assumption. Qed.

(* A meta-data state is consistent at term count n when the active partition's tail
   carries term id init+n and the next partition carries init+n+1-3 (any offsets). *)
Definition meta_consistent (init n : Z) (s : meta) : Prop :=
  count s = n /\
  term_id_of (get_tail s (n mod 3)) = wrap32 (init + n) /\
  term_id_of (get_tail s ((n + 1) mod 3)) = wrap32 (init + n + 1 - 3).

Lemma get_set_tail_same s i v : 0 <= i < 3 -> get_tail (set_tail s i v) i = v.
Proof. intros. unfold get_tail, set_tail.
  destruct (i =? 0) eqn:E0; cbn; [reflexivity|].
  destruct (i =? 1) eqn:E1; cbn; reflexivity. Qed.

Lemma get_set_tail_other s i j v : 0 <= i < 3 -> 0 <= j < 3 -> i <> j ->
  get_tail (set_tail s i v) j = get_tail s j.
Proof. intros. unfold get_tail, set_tail.
  destruct (i =? 0) eqn:E0; destruct (i =? 1) eqn:E1;
  destruct (j =? 0) eqn:F0; destruct (j =? 1) eqn:F1; cbn; try reflexivity; lia. Qed.

Lemma count_set_tail s i v : count (set_tail s i v) = count s.
Proof. unfold set_tail. destruct (i =? 0); [reflexivity|]. destruct (i =? 1); reflexivity. Qed.

Theorem rotate_log_spec m init n s :
  in_i32 init = true -> 0 <= n < two31 - 1 -> meta_consistent init n s ->
  exists s', rotate_log m s n (wrap32 (init + n)) = Ok s' /\
    count s' = n + 1 /\
    get_tail s' ((n + 1) mod 3) = raw_tail_of_term (wrap32 (init + n + 1)) /\
    (forall j, 0 <= j < 3 -> j <> (n + 1) mod 3 -> get_tail s' j = get_tail s j).
Proof. intros Hi Hn (Hc & Ha & Hx).
  assert (Hm : 0 <= (n + 1) mod 3 < 3) by (apply Z.mod_pos_bound; lia).
  unfold rotate_log, add32, chk32.
  assert (Hr : in_i32 (n + 1) = true) by (unfold in_i32, two31 in *; lia).
  rewrite Hr. cbn [bind].
  assert (Hidx : index_by_term_count (n + 1) = (n + 1) mod 3).
  { unfold index_by_term_count, PARTITION_COUNT, GenConsts.PARTITION_COUNT. rewrite rem3_nonneg by lia.
    apply wrap32_id. unfold in_i32, two31. lia. }
  rewrite Hidx.
  assert (Hnext : wrap32 (wrap32 (init + n) + 1) = wrap32 (init + n + 1)) by apply wrap32_add_wrap32.
  rewrite Hnext.
  assert (Hexp : wrap32 (wrap32 (init + n + 1) - PARTITION_COUNT) = wrap32 (init + n + 1 - 3)).
  { unfold PARTITION_COUNT, GenConsts.PARTITION_COUNT. apply wrap32_sub_wrap32. }
  rewrite Hexp. rewrite Hx. rewrite Z.eqb_refl.
  rewrite count_set_tail. rewrite Hc. rewrite Z.eqb_refl.
  eexists. split; [reflexivity|]. unfold set_count. cbn [count get_tail].
  split; [reflexivity|]. split.
  - change (get_tail (set_count (set_tail s ((n+1) mod 3) (raw_tail_of_term (wrap32 (init+n+1)))) (n+1)) ((n+1) mod 3)
            = raw_tail_of_term (wrap32 (init + n + 1))) || idtac.
    unfold get_tail; cbn. fold (get_tail (set_tail s ((n + 1) mod 3) (raw_tail_of_term (wrap32 (init + n + 1)))) ((n+1) mod 3)).
    apply get_set_tail_same. assumption.
  - intros j Hj Hne. unfold get_tail; cbn.
    fold (get_tail (set_tail s ((n + 1) mod 3) (raw_tail_of_term (wrap32 (init + n + 1)))) j).
    fold (get_tail s j). apply get_set_tail_other; auto. Qed.

(* the state after rotation is consistent at n+1 once the driver has prepared the
   partition after next, i.e. rotation composes *)
Theorem rotate_log_consistent_next m init n s s' :
  in_i32 init = true -> 0 <= n < two31 - 1 -> meta_consistent init n s ->
  rotate_log m s n (wrap32 (init + n)) = Ok s' ->
  count s' = n + 1 /\ term_id_of (get_tail s' ((n + 1) mod 3)) = wrap32 (init + (n + 1)).
Proof. intros Hi Hn Hc Hr. destruct (rotate_log_spec m init n s Hi Hn Hc) as (s2 & Hr2 & Hcount & Htail & _).
  rewrite Hr in Hr2. inversion Hr2; subst s2. split; [assumption|].
  rewrite Htail. rewrite term_id_of_raw by apply wrap32_range. f_equal. ring. Qed.

(* a second caller that lost the race (same arguments, state already rotated) changes nothing *)
Theorem rotate_log_idempotent m init n s s' :
  in_i32 init = true -> 0 <= n < two31 - 1 -> meta_consistent init n s ->
  rotate_log m s n (wrap32 (init + n)) = Ok s' ->
  rotate_log m s' n (wrap32 (init + n)) = Ok s'.
Proof. intros Hi Hn Hc Hr.
  destruct (rotate_log_spec m init n s Hi Hn Hc) as (s2 & Hr2 & Hcount & Htail & _).
  rewrite Hr in Hr2. inversion Hr2; subst s2. clear Hr2.
  unfold rotate_log, add32, chk32.
  assert (Hrr : in_i32 (n + 1) = true) by (unfold in_i32, two31 in *; lia).
  rewrite Hrr. cbn [bind].
  assert (Hidx : index_by_term_count (n + 1) = (n + 1) mod 3).
  { unfold index_by_term_count, PARTITION_COUNT, GenConsts.PARTITION_COUNT. rewrite rem3_nonneg by lia.
    apply wrap32_id. assert (0 <= (n+1) mod 3 < 3) by (apply Z.mod_pos_bound; lia). unfold in_i32, two31. lia. }
  rewrite Hidx, Htail. rewrite wrap32_add_wrap32.
  rewrite term_id_of_raw by apply wrap32_range.
  assert (Hne : (wrap32 (init + n + 1) =? wrap32 (wrap32 (init + n + 1) - PARTITION_COUNT)) = false).
  { apply Z.eqb_neq. unfold PARTITION_COUNT, GenConsts.PARTITION_COUNT.
    pose proof (wrap32_range (init + n + 1)) as Hw.
    remember (wrap32 (init + n + 1)) as t. unfold wrap32, two31, two32 in *. unfold in_i32, two31 in Hw.
    intros Heq.
    pose proof (Z.div_mod (t - 3 + 2147483648) 4294967296 ltac:(lia)).
    pose proof (Z.mod_pos_bound (t - 3 + 2147483648) 4294967296 ltac:(lia)). lia. }
  rewrite Hne. rewrite Hcount.
  assert (Hcn : (n + 1 =? n) = false) by (apply Z.eqb_neq; lia). rewrite Hcn. reflexivity. Qed.
