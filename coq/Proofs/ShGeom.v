(* C03, shared publishers: geometry of the frames of one generation (pairwise disjoint; the committed prefix the subscriber
   has walked never ends strictly inside a frame). *)
Require Import V.Base.MachineInt.
Require Import V.Generated.GenConsts.
Require Import V.Model.LogBase.
Require Import V.Model.Descriptor.
Require Import V.Proofs.DescriptorProofs.
Require Import V.Model.Sched.
Require Import V.Model.AppenderThreads.
Require Import V.Model.ReaderThreads.
Require Import V.Proofs.TailArith.
Require Import V.Proofs.FragArith.
Require Import V.Proofs.AppenderInv.
Require Import V.Proofs.AppenderLemmas.
Require Import V.Proofs.AppenderFrame.
Require Import V.Proofs.AppenderSteps.
Require Import V.Proofs.AppenderSystem.
Require Import V.Proofs.C02Quiescent.
Require Import V.Proofs.ReaderInv.
From Coq Require Import ZifyBool.
Open Scope Z_scope.

Lemma laid_disjoint c b l h o sl o' sl' : laid c b l h -> In (o, sl) l -> In (o', sl') l ->
  (o = o' /\ sl = sl') \/ o + align (s_len sl) FA <= o' \/ o' + align (s_len sl') FA <= o.
Proof. induction 1 as [x | x s0 r e Hl Hr IH]; intros H1 H2; [destruct H1|].
  destruct (laid_bounds c _ _ _ Hr) as (_ & B).
  destruct H1 as [E1 | H1]; destruct H2 as [E2 | H2].
  - inversion E1; inversion E2; subst. left. split; reflexivity.
  - inversion E1; subst. destruct (B _ _ H2) as (B1 & _). right; left. assumption.
  - inversion E2; subst. destruct (B _ _ H1) as (B1 & _). right; right. assumption.
  - apply IH; assumption. Qed.

Lemma tiles_le c m tid a b : tiles c m tid a b -> a <= b.
Proof. induction 1 as [o | o e Hw Ht IH]; [lia|]. destruct Hw as (Hl & _). pose proof (align_pos (s_len (m o)) ltac:(lia)). rewrite FA_32 in *. lia. Qed.

Section G.
  Variable c : cfg.
  Hypothesis W : wf_cfg c.

  (* the frames of one entry are laid back to back *)
  Lemma efrags_laid g e : 0 <= e_a e -> e_a e mod 32 = 0 -> e_b e = e_a e + required c (zlen (e_msg e)) ->
    exists h, laid c (e_a e) (efrags c g e) h.
  Proof. intros Ha Ham Hb. destruct (Z_le_gt_dec (e_b e) (TL c)) as [Hle | Hgt].
    - exists (e_b e). apply efrags_data_laid; assumption.
    - unfold efrags. replace (e_b e <=? TL c) with false by lia. destruct (e_a e <? TL c) eqn:E; [|exists (e_a e); constructor].
      eexists. constructor; [|constructor]. cbn. lia. Qed.

  (* two frames of a live generation are the same frame or do not overlap *)
  Lemma frames_disjoint s gh P g e e' o sl o' sl' : AppInv c s gh P ->
    In e (g_claims gh g) -> In e' (g_claims gh g) -> In (o, sl) (efrags c g e) -> In (o', sl') (efrags c g e') ->
    (o = o' /\ sl = sl') \/ o + align (s_len sl) FA <= o' \/ o' + align (s_len sl') FA <= o.
  Proof. intros I He He' Ho Ho'. pose proof (iv_A c s gh P I) as A.
    destruct (iv_ent c s gh P I g e He) as (Hn0 & Ha & Ham & Hb & _).
    destruct (iv_ent c s gh P I g e' He') as (_ & Ha' & Ham' & Hb' & _).
    pose proof (efrags_range c g e o sl W Ha Ham Hb Ho) as (R1 & R2 & R3 & R4 & R5).
    pose proof (efrags_range c g e' o' sl' W Ha' Ham' Hb' Ho') as (R1' & R2' & R3' & R4' & R5').
    destruct (iv_chain_all c s gh A g Hn0) as (hi & Hc & _).
    destruct (chain_disjoint _ _ _ e e' Hc He He') as [Heq | [D | D]]; [|lia|lia].
    subst e'. destruct (efrags_laid g e Ha Ham Hb) as (h & L). eapply laid_disjoint; eauto. Qed.

  (* the committed prefix [base, oa) of a live generation never ends strictly inside a frame of the generation *)
  Lemma tiles_not_inside s gh P g oa e o sl : AppInv c s gh P -> live c s gh g -> c_n0 c <= g ->
    forall a, tiles c (sh_mem s (g mod 3)) (tid_of c g) a oa -> a <= o ->
    In e (g_claims gh g) -> In (o, sl) (efrags c g e) -> ~ (o < oa < o + align (s_len sl) FA).
  Proof. intros I L Hn0. induction 1 as [x | x en Hw Ht IH]; intros Hao He Ho; [lia|].
    destruct Hw as (Hl & _). pose proof (align_pos (s_len (sh_mem s (g mod 3) x)) ltac:(lia)) as (Al & _). change FA with 32 in *.
    destruct (committed_is_complete c W s gh P g x I L Hn0 Hl) as (e0 & He0 & Hin0).
    destruct L as (L1 & L2).
    destruct (frames_disjoint s gh P g e0 e x _ o sl I He0 He Hin0 Ho) as [(E1 & E2) | [D | D]].
    - subst o sl. pose proof (tiles_le _ _ _ _ _ Ht). change FA with 32 in *. lia.
    - change FA with 32 in D. apply IH; try assumption; lia.
    - pose proof (efrags_range c g e o sl W) as R. destruct (iv_ent c s gh P I g e He) as (_ & Ha & Ham & Hb & _).
      destruct (R Ha Ham Hb Ho) as (_ & _ & _ & R4 & _). pose proof (align_pos (s_len sl) ltac:(lia)). change FA with 32 in *. lia. Qed.

  (* the committed prefix stays below the end of the claims *)
  Lemma tiles_below_hi s gh P g hi : AppInv c s gh P -> live c s gh g -> c_n0 c <= g -> chain (base c g) (g_claims gh g) hi ->
    forall a oa, tiles c (sh_mem s (g mod 3)) (tid_of c g) a oa -> a <= hi -> oa <= hi.
  Proof. intros I L Hn0 Hc. induction 1 as [x | x en Hw Ht IH]; intros Ha; [assumption|]. apply IH.
    destruct Hw as (Hl & _). destruct (committed_is_complete c W s gh P g x I L Hn0 Hl) as (e0 & He0 & Hin0).
    destruct (iv_ent c s gh P I g e0 He0) as (_ & Ha0 & Ham0 & Hb0 & _).
    pose proof (efrags_range c g e0 _ _ W Ha0 Ham0 Hb0 Hin0) as (_ & _ & _ & _ & R5).
    destruct (chain_le _ _ _ Hc) as (_ & CL). destruct (CL e0 He0) as (_ & _ & C3). lia. Qed.

  (* frames are at least a header long *)
  Lemma frags_from_len tid msg : forall fuel foff rem fl o sl, 0 <= rem -> In (o, sl) (frags_from c tid msg fuel foff rem fl) -> 32 <= s_len sl.
  Proof. pose proof (mp_pos c W) as (Hmp & _).
    assert (A : forall foff rem fl, 0 <= rem -> 32 <= s_len (st6 c tid msg foff rem fl)) by (intros; rewrite st6_len; unfold flen, fbytes; rewrite HDR_32; lia).
    induction fuel as [|f IH]; intros foff rem fl o sl Hr Hin; cbn [frags_from] in Hin.
    - destruct (_ <=? 0); destruct Hin as [E | []]; inversion E; subst; apply A; assumption.
    - destruct (rem - fbytes c rem <=? 0) eqn:E.
      + destruct Hin as [E1 | []]. inversion E1; subst. apply A; assumption.
      + destruct Hin as [E1 | Hin]; [inversion E1; subst; apply A; assumption|]. eapply IH; [|eassumption]. unfold fbytes in *. lia. Qed.

  Lemma efrags_len g e o sl : 0 <= e_a e -> e_a e mod 32 = 0 -> In (o, sl) (efrags c g e) -> 32 <= s_len sl.
  Proof. intros Ha Ham Hin. unfold efrags in Hin. destruct (e_b e <=? TL c).
    - eapply frags_from_len; [|eassumption]. unfold zlen. lia.
    - destruct (e_a e <? TL c) eqn:E; [|destruct Hin]. destruct Hin as [E1 | []]. inversion E1; subst. cbn.
      destruct (TL_bounds c W) as (TB & TM). assert (Hm : (TL c - e_a e) mod 32 = 0) by (rewrite Zminus_mod, TM, Ham; reflexivity).
      pose proof (Z.mod_divide (TL c - e_a e) 32 ltac:(lia)) as (D & _). destruct (D Hm) as (k & Hk). lia. Qed.
End G.

Lemma chain_fun b l h1 h2 : chain b l h1 -> chain b l h2 -> h1 = h2.
Proof. revert b. induction l as [|e r IH]; intros b H1 H2; cbn [chain] in *; [congruence|].
  destruct H1 as (_ & _ & H1). destruct H2 as (_ & _ & H2). eauto. Qed.

Lemma chain_snoc_inv b l e h : chain b (l ++ [e]) h -> exists m, chain b l m /\ e_a e = m /\ e_a e < e_b e /\ h = e_b e.
Proof. revert b. induction l as [|x r IH]; intros b H; cbn [chain app] in *.
  - destruct H as (H1 & H2 & H3). exists b. repeat split; auto.
  - destruct H as (H1 & H2 & H3). destruct (IH _ H3) as (m & M1 & M2 & M3 & M4). exists m. repeat split; auto. Qed.

