(* The results part of the C02 oracle (statuses, allowed answers, per-publisher position order) is true on every
   quiescent configuration the model can reach: the predicate used to judge the implementation's results is the one
   the theorems prove. (The log part of the oracle works on the rendered dump; that it is true on every model run is
   not proved - see docs/reports/C02.md.) *)
Require Import V.Base.MachineInt.
Require Import V.Generated.GenConsts.
Require Import V.Model.LogBase.
Require Import V.Model.Descriptor.
Require Import V.Model.Sched.
Require Import V.Model.AppenderThreads.
Require Import V.Oracle.C02Oracle.
Require Import V.Proofs.TailArith.
Require Import V.Proofs.FragArith.
Require Import V.Proofs.AppenderInv.
Require Import V.Proofs.AppenderInv2.
Require Import V.Proofs.C02Proofs.
Require Import V.Proofs.C02Quiescent.
From Coq Require Import ZifyBool.
Open Scope Z_scope.

(* positions of the accepted attempts, in attempt order *)
Fixpoint oks (res : list (outcome Z)) : list Z :=
  match res with [] => [] | Ok p :: r => p :: oks r | _ :: r => oks r end.

Lemma accepted_fst msgs res : map fst (accepted msgs res) = oks res.
Proof. revert msgs. induction res as [|x r IH]; intros msgs; [reflexivity|].
  destruct x; cbn; rewrite ?IH; reflexivity. Qed.

Lemma oks_in res p : In p (oks res) -> exists j, nth_error res j = Some (Ok p).
Proof. induction res as [|x r IH]; cbn; [intros []|].
  destruct x; try (intros H; destruct (IH H) as (j & Hj); exists (S j); exact Hj).
  intros [-> | H]; [exists O; reflexivity | destruct (IH H) as (j & Hj); exists (S j); exact Hj]. Qed.

Lemma increasing_cons a l : (forall b, In b l -> a < b) -> increasing l = true -> increasing (a :: l) = true.
Proof. intros H1 H2. destruct l as [|b r]; [reflexivity|].
  change (increasing (a :: b :: r)) with ((a <? b) && increasing (b :: r)). rewrite H2.
  replace (a <? b) with true by (specialize (H1 b (or_introl eq_refl)); lia). reflexivity. Qed.

Lemma oks_increasing res :
  (forall j j' p p', (j < j')%nat -> nth_error res j = Some (Ok p) -> nth_error res j' = Some (Ok p') -> p < p') ->
  increasing (oks res) = true.
Proof. induction res as [|x r IH]; intros H; [reflexivity|].
  assert (Hr : forall j j' p p', (j < j')%nat -> nth_error r j = Some (Ok p) -> nth_error r j' = Some (Ok p') -> p < p').
  { intros j j' p p' Hlt H1 H2. apply (H (S j) (S j') p p'); [lia | exact H1 | exact H2]. }
  destruct x; cbn [oks]; try (apply IH; exact Hr).
  apply increasing_cons; [|apply IH; exact Hr].
  intros b Hb. destruct (oks_in r b Hb) as (j & Hj). apply (H O (S j) a b); [lia | reflexivity | exact Hj]. Qed.

Lemma res_ok_iff r : res_okP r -> res_ok r = true.
Proof. destruct r as [a | e | | |]; cbn; try tauto. destruct e; cbn; tauto. Qed.

Section OR.
  Variable c : cfg.
  Hypothesis W : wf_cfg c.

  (* quiescent: publishers done, environment threads out of operations *)
  Definition all_done (th : nat -> thread) : Prop :=
    forall t, match th t with TPub l => p_pc l = PDone | TEnv l => e_ops l = [] /\ e_done l = [] | TIdle => True end.

  Theorem oracle_results_model s th gh n stop g (offers : list (list (list Z))) :
    reach c s th gh -> all_done th -> length offers = n ->
    holds_results offers (map (fun t => thread_obs stop g t (th t)) (seq 0 n)) = true.
  Proof. intros Hr Hd Hlen. pose proof (reach_inv c W s th gh Hr) as I. pose proof (reach_inv2 c W s th gh Hr) as J.
    unfold holds_results. apply andb_true_intro. split.
    - apply forallb_forall. intros x Hx. apply in_map_iff in Hx. destruct Hx as (t & <- & _).
      specialize (Hd t). unfold thread_obs. destruct (th t) as [l | l |] eqn:Eth.
      + rewrite Hd. cbn [fst snd status_eqb andb]. apply forallb_forall. intros r Hin.
        apply res_ok_iff. apply (r_resok c s gh (pubs th) J t l r); [unfold pubs; rewrite Eth; reflexivity | assumption].
      + destruct Hd as (-> & ->). reflexivity.
      + reflexivity.
    - apply forallb_forall. intros [msgs [st res]] Hx. cbn [fst snd]. rewrite accepted_fst.
      apply in_combine_r in Hx. apply in_map_iff in Hx. destruct Hx as (t & Hobs & _).
      unfold thread_obs in Hobs. destruct (th t) as [l | l |] eqn:Eth; inversion Hobs; subst; try reflexivity.
      + apply oks_increasing. intros j j' p p' Hlt H1 H2.
        apply (positions_increasing c s gh (pubs th) t l j j' p p' I J); auto. unfold pubs. rewrite Eth. reflexivity.
      + specialize (Hd t). rewrite Eth in Hd. destruct Hd as (_ & ->). reflexivity. Qed.
End OR.
