(* The counter judge of the C10 oracle (every counter handle alive at the close gets exactly one unavailable
   callback, no other registration gets one) on the model. *)
Require Import V.Base.MachineInt.
Require Import V.Generated.GenConsts.
Require Import V.Model.Conductor.
Require Import V.Proofs.ConductorBase.
Require Import V.Proofs.ConductorInv.
Require Import V.Proofs.ConductorProofs.
Require Import V.Proofs.ConductorClose.
Require Import V.Oracle.C09Oracle.
Require Import V.Proofs.C09OracleProofs.
Require Import V.Oracle.C10Oracle.
From Coq Require Import ZifyBool.
Open Scope Z_scope.

(* ---- the callbacks for counters in one operation ---- *)
Definition uc (r : Z) (cbs : list cb) : nat := count_unavail_ctr r cbs.
Definition cu (r : Z) (s : st) : nat := match hobj KCtr r s with Some _ => 1%nat | None => 0%nat end.

Lemma uc_app r a b : uc r (a ++ b) = (uc r a + uc r b)%nat.
Proof. unfold uc, count_unavail_ctr. rewrite filter_app, app_length. reflexivity. Qed.

Lemma uc_n r cbs : uc r cbs = n_unavail_ctr r cbs.
Proof. reflexivity. Qed.

(* a phase: if it closes an open client the counters alive get their callback, otherwise no counter callback *)
Definition cstep (s : st) (cbs : list cb) (s' : st) : Prop :=
  (closed s = true -> closed s' = true) /\ (closed s' = false -> forall k, getm k s' = getm k s) /\
  (forall r, uc r cbs = if closed s then 0%nat else if closed s' then cu r s else 0%nat).

Lemma cstep_trans a c1 b c2 c : cstep a c1 b -> cstep b c2 c -> cstep a (c1 ++ c2) c.
Proof. intros (A1 & A2 & A3) (B1 & B2 & B3). split; [auto|split].
  - intros Hc k. rewrite B2 by auto. apply A2. destruct (closed b) eqn:E; auto. rewrite B1 in Hc; auto.
  - intros r. rewrite uc_app, A3, B3. destruct (closed a) eqn:Ea.
    + rewrite (A1 eq_refl). reflexivity.
    + destruct (closed b) eqn:Eb.
      * rewrite (B1 eq_refl). lia.
      * destruct (closed c) eqn:Ec; [|reflexivity]. unfold cu, hobj. rewrite (A2 eq_refl). reflexivity. Qed.

Lemma cstep_scalar s cbs s' :
  (forall k, getm k s' = getm k s) -> closed s' = closed s -> (forall r, uc r cbs = 0%nat) -> cstep s cbs s'.
Proof. intros H1 H2 H3. split; [congruence|split; auto]. intros r. rewrite H3, H2. destruct (closed s); reflexivity. Qed.

Lemma close_all_cstep s : inv s -> cstep s (snd (fst (close_all s))) (fst (fst (close_all s))).
Proof. intros I. split; [|split].
  - intros _. apply close_all_closed.
  - rewrite close_all_closed. discriminate.
  - intros r. destruct (closed s) eqn:Ec.
    + rewrite close_all_closed_none by auto. reflexivity.
    + rewrite close_all_closed. destruct (close_all_callbacks s I Ec) as (_ & _ & H). rewrite uc_n, H. reflexivity. Qed.

Lemma close_all_cstep' s s1 cbs hang e : inv s -> close_all s = (s1, cbs, hang) -> cstep s (cbs ++ [CbErr e]) s1.
Proof. intros I H. pose proof (close_all_cstep s I) as X. rewrite H in X. cbn [fst snd] in X.
  eapply cstep_trans; [exact X|]. apply cstep_scalar; auto. Qed.

Lemma hc_service_cstep c t s : inv s -> cstep s (snd (fst (hc_service c t s))) (fst (fst (hc_service c t s))).
Proof. intros I. unfold hc_service. dmatch; [|apply cstep_scalar; auto].
  destruct (close_all s) as [[s1 cbs] hang] eqn:E. cbn [fst snd]. eapply close_all_cstep'; eauto. Qed.

Lemma hc_heartbeat_cstep s : inv s -> cstep s (snd (fst (hc_heartbeat s))) (fst (fst (hc_heartbeat s))).
Proof. intros I. unfold hc_heartbeat. destruct (hb_bound s); destruct (hb_env s =? 1); try (apply cstep_scalar; auto; intros k; destruct k; reflexivity).
  destruct (close_all s) as [[s1 cbs] hang] eqn:E. cbn [fst snd]. eapply close_all_cstep'; eauto. Qed.

Lemma hc_keepalive_cstep c t s : inv s -> cstep s (snd (fst (fst (hc_keepalive c t s)))) (fst (fst (fst (hc_keepalive c t s)))).
Proof. intros I. unfold hc_keepalive. dmatch; [|apply cstep_scalar; auto].
  pose proof (hc_driver_inv c t s I) as I1.
  assert (H1 : cstep s (snd (hc_driver c t s)) (fst (hc_driver c t s))).
  { unfold hc_driver. dmatch; apply cstep_scalar; auto; intros k; destruct k; reflexivity. }
  destruct (hc_driver c t s) as [s' cbs']. cbn [fst snd] in *.
  pose proof (hc_heartbeat_cstep s' I1) as H2. destruct (hc_heartbeat s') as [[s'' cbs''] hang'']. cbn [fst snd] in *.
  assert (H3 : cstep s'' [] (set_t_keep t s'')) by (apply cstep_scalar; auto; intros k; destruct k; reflexivity).
  pose proof (cstep_trans _ _ _ _ _ (cstep_trans _ _ _ _ _ H1 H2) H3) as H. rewrite app_nil_r in H. exact H. Qed.

Lemma heartbeat_check_cstep c s : inv s -> cstep s (snd (fst (fst (heartbeat_check c s)))) (fst (fst (fst (heartbeat_check c s)))).
Proof. intros I. unfold heartbeat_check.
  pose proof (hc_service_cstep c (now s) s I) as H1. pose proof (hc_service_inv c (now s) s I) as I1.
  destruct (hc_service c (now s) s) as [[s1 cbs1] hang1]. cbn [fst snd] in *.
  assert (H2 : cstep s1 [] (set_t_work (now s) s1)) by (apply cstep_scalar; auto; intros k; destruct k; reflexivity).
  assert (I2 : inv (set_t_work (now s) s1)) by exact I1.
  pose proof (hc_keepalive_cstep c (now s) _ I2) as H3.
  destruct (hc_keepalive c (now s) (set_t_work (now s) s1)) as [[[s3 cbs3] hang3] r3]. cbn [fst snd] in *.
  assert (H4 : cstep s3 [] (fst (hc_resources (now s) s3))).
  { unfold hc_resources. dmatch; apply cstep_scalar; auto; intros k; destruct k; reflexivity. }
  destruct (hc_resources (now s) s3) as [s4 r4]. cbn [fst snd] in *.
  pose proof (cstep_trans _ _ _ _ _ (cstep_trans _ _ _ _ _ (cstep_trans _ _ _ _ _ H1 H2) H3) H4) as H. rewrite !app_nil_r in H. exact H. Qed.

(* ---- the registrations of the automaton: ids are only ever appended, fresh ---- *)
Definition ids_step (q q' : ost) : Prop :=
  reg_ids (q_regs q') = reg_ids (q_regs q) \/
  exists id, reg_ids (q_regs q') = reg_ids (q_regs q) ++ [id] /\ q_max q < id.

Lemma ready_step_ids ev q : reg_ids (fst (ready_step ev q)) = reg_ids (q_regs q).
Proof. destruct ev; cbn [ready_step]; repeat dmatch; cbn [fst]; rewrite ?reg_ids_rset, ?reg_ids_rerror, ?reg_ids_rchan; reflexivity. Qed.

Ltac dmh H := match type of H with context [match ?x with _ => _ end] => destruct x eqn:? end.

Lemma c09_step_ids c0 tdrv full q o x q' : c09_step c0 tdrv full q o x = Next q' -> ids_step q q'.
Proof. intros H. destruct x as [[r cbs] cmds]. destruct o; cbn [c09_step] in H.
  - (* Add *) repeat dmh H; try discriminate; inversion H; subst; try (left; reflexivity).
    right. cbn [set_qmax set_regs q_regs q_max]. unfold reg_ids. rewrite map_app. cbn. eexists. split; [reflexivity|].
    repeat match goal with Hx : _ && _ = true |- _ => apply andb_prop in Hx; destruct Hx end. lia.
  - (* Find *) left. repeat dmh H; try discriminate; inversion H; subst; cbn [set_regs q_regs]; rewrite ?reg_ids_rset; reflexivity.
  - (* DropHandle *) left. repeat dmh H; try discriminate; inversion H; subst; cbn [set_regs set_qmax q_regs]; rewrite ?reg_ids_rset; reflexivity.
  - (* Peek *) left. repeat dmh H; try discriminate; inversion H; subst; reflexivity.
  - (* Close *) left. repeat dmh H; try discriminate; inversion H; subst; reflexivity.
  - left. inversion H; subst. reflexivity.
  - left. inversion H; subst. reflexivity.
  - left. inversion H; subst. reflexivity.
  - left. inversion H; subst. reflexivity.
  - (* DoWork *) left. repeat dmh H; try discriminate; inversion H; subst; cbn [set_regs set_qclosed q_regs];
      try reflexivity;
      match goal with Hr : ready_step ?ev ?qq = (?l, _) |- _ => pose proof (ready_step_ids ev qq) as X; rewrite Hr in X; exact X end.
  - (* CloseHandle *) left. repeat dmh H; try discriminate; inversion H; subst; reflexivity. Qed.

Lemma nodup_rlookup l : NoDup (reg_ids l) -> forall k r x, In (k, r, x) l -> rlookup k r l = Some x.
Proof. induction l as [|[[k2 r2] y] l IH]; cbn; intros Hn k r x Hin; [tauto|].
  inversion Hn; subst. destruct Hin as [Hin|Hin].
  - inversion Hin; subst. rewrite kind_eqb_refl, Z.eqb_refl. reflexivity.
  - destruct (kind_eqb k2 k && (r2 =? r)) eqn:E.
    + exfalso. apply andb_prop in E. destruct E as [_ E]. apply H1. assert (r2 = r) by lia. subst.
      unfold reg_ids. apply in_map_iff. exists (k, r, x). auto.
    + apply IH; auto. Qed.

Lemma ids_step_nodup q q' :
  Forall (fun r => r <= q_max q) (reg_ids (q_regs q)) -> NoDup (reg_ids (q_regs q)) -> ids_step q q' -> NoDup (reg_ids (q_regs q')).
Proof. intros F N [H|(id & H & Hlt)]; rewrite H; auto. apply NoDup_snoc; auto.
  intros Hin. rewrite Forall_forall in F. specialize (F _ Hin). lia. Qed.

(* which registrations the automaton holds after a duty cycle / a close *)
Lemma c09_step_regs c0 tdrv full q o x q' :
  c09_step c0 tdrv full q o x = Next q' -> q_closed q = false ->
  q_regs q' = match o with DoWork (BEvent ev) => match fst (fst x) with Ok _ => fst (ready_step ev q) | _ => q_regs q end
              | DoWork _ | Close => q_regs q | _ => q_regs q' end.
Proof. intros H Hc. destruct x as [[r cbs] cmds]. destruct o; try reflexivity; cbn [c09_step fst] in *.
  - repeat dmh H; try discriminate; inversion H; subst; reflexivity.
  - rewrite Hc in H. destruct b; repeat dmh H; try discriminate; inversion H; subst; cbn [set_regs set_qclosed q_regs]; try reflexivity. Qed.

(* ---- the state in which the close happens ---- *)
Definition pre (o : op) (s : st) : st :=
  match o with
  | DoWork (BEvent ev) => let s1 := fst (fst (on_event ev s)) in if closed s1 then s else s1
  | _ => s
  end.
Definition is_ctr_event (o : op) : bool := match o with DoWork (BEvent (EvUnavailCounter _ _)) => true | _ => false end.

Lemma on_event_closed_cases ev s : closed s = false ->
  (closed (fst (fst (on_event ev s))) = false) \/
  (exists cid, ev = EvClientTimeout cid /\ closed (fst (fst (on_event ev s))) = true).
Proof. intros Hc. destruct ev; try (left; cbn [on_event]; repeat dmatch; cbn [fst]; rewrite ?setm_closed; auto; fail).
  - left. cbn [on_event fst]. unfold on_error. repeat dmatch; rewrite ?setm_closed; auto.
  - cbn [on_event]. destruct ((cid =? client_id s) && negb (closed s)); [|left; exact Hc].
    right. exists cid. split; auto. pose proof (close_all_closed s) as X. destruct (close_all s) as [[s1 cbs] hang]. exact X. Qed.

Lemma on_event_no_ctr_cb ev s r :
  is_ctr_event (DoWork (BEvent ev)) = false -> closed (fst (fst (on_event ev s))) = closed s -> uc r (snd (fst (on_event ev s))) = 0%nat.
Proof. intros Hn Hc. destruct ev; try discriminate; cbn [on_event] in *; repeat dmatch; cbn [fst snd] in *; try reflexivity.
  - (* a client time-out that closes changes the closed flag *)
    pose proof (close_all_closed s) as X. rewrite Heqp in X. cbn in X.
    apply andb_prop in Heqb. destruct Heqb as [_ Hb]. apply Bool.negb_true_iff in Hb. congruence.
  - (* a channel endpoint error calls the error handler and reports images, no counter *)
    unfold uc, count_unavail_ctr. rewrite filter_none; [reflexivity|]. intros c Hin. apply on_chan_error_cbs_shape in Hin.
    destruct Hin as [->|(r' & i & ->)]; reflexivity. Qed.

Lemma step_closed_same c s o : (match o with Close | DoWork _ => False | _ => True end) -> closed (fst (step c s o)) = closed s.
Proof. intros H. destruct o; try (exfalso; exact H); cbn [step]; try reflexivity.
  - unfold do_add. repeat dmatch; cbn [fst]; rewrite ?setm_closed; auto.
  - apply do_find_frame.
  - apply do_drop_framed.
  - rewrite do_peek_state. reflexivity.
  - unfold do_close_handle. repeat dmatch; reflexivity. Qed.

Lemma closing_count c s o :
  inv s -> closed s = false -> closed (fst (step c s o)) = true -> is_ctr_event o = false ->
  closed (pre o s) = false /\ forall r, uc r (snd (fst (snd (step c s o)))) = cu r (pre o s).
Proof. intros I Hc Hc' Hn. destruct o; try (rewrite step_closed_same in Hc' by exact Logic.I; congruence).
  - (* Close *) cbn [pre step] in *. split; auto. unfold do_close in *.
    pose proof (close_all_cstep s I) as (_ & _ & H). pose proof (close_all_closed s) as X. pose proof (close_all_no_hang s) as Y.
    destruct (close_all s) as [[s1 cbs] hang]. cbn [fst snd] in *. subst hang.
    intros r. specialize (H r). rewrite Hc, X in H. destruct (close_sent s1); cbn [fst snd]; exact H.
  - (* DoWork *) cbn [step] in *. unfold do_work in *. destruct b.
    + cbn [pre]. split; auto. pose proof (heartbeat_check_cstep c s I) as (_ & _ & H). pose proof (heartbeat_check_no_hang c s) as Y.
      destruct (heartbeat_check c s) as [[[s2 cbs2] hang2] rr]. cbn [fst snd] in *. subst hang2. cbn [fst snd] in *.
      intros r. specialize (H r). rewrite Hc, Hc' in H. exact H.
    + cbn in Hc'. congruence.
    + cbn in Hc'. congruence.
    + cbn [pre]. pose proof (on_event_inv e s I) as I1. pose proof (on_event_no_hang e s) as Y1.
      pose proof (on_event_closed_cases e s Hc) as Hcase. pose proof (on_event_no_ctr_cb e s) as Hnc.
      assert (Hcs : closed (fst (fst (on_event e s))) = true -> cstep s (snd (fst (on_event e s))) (fst (fst (on_event e s)))).
      { intros Hx. destruct Hcase as [Hy|(cid & -> & _)]; [congruence|]. cbn [on_event] in *.
        destruct ((cid =? client_id s) && negb (closed s)); [|cbn in Hx; congruence].
        destruct (close_all s) as [[s1 cbs] hang] eqn:E. cbn [fst snd]. eapply close_all_cstep'; eauto. }
      destruct (on_event e s) as [[s1 cbs1] hang1]. cbn [fst snd] in *. subst hang1.
      pose proof (heartbeat_check_cstep c s1 I1) as Hh. pose proof (heartbeat_check_no_hang c s1) as Y.
      destruct (heartbeat_check c s1) as [[[s2 cbs2] hang2] rr]. cbn [fst snd] in *. subst hang2. cbn [fst snd] in *.
      destruct (closed s1) eqn:E1.
      * split; auto. pose proof (cstep_trans _ _ _ _ _ (Hcs eq_refl) Hh) as (_ & _ & H). intros r. specialize (H r). rewrite Hc, Hc' in H. exact H.
      * split; auto. destruct Hh as (_ & _ & H). intros r. rewrite uc_app, (Hnc r Hn) by congruence. specialize (H r). rewrite E1, Hc' in H. exact H. Qed.

Lemma counters_closed_ok c0 qx p cbs :
  RelC c0 qx p -> closed p = false -> NoDup (reg_ids (q_regs qx)) -> (forall r, uc r cbs = cu r p) ->
  counters_closed (q_regs qx) cbs = true.
Proof. intros R Hc Hn Hu. unfold counters_closed. apply forallb_forall. intros [[k r] x] Hin.
  pose proof (nodup_rlookup _ Hn k r x Hin) as Hl. pose proof (C_pt _ _ _ R Hc k r) as P. rewrite Hl in P. cbn [pt] in P.
  cbn [fst snd]. change (count_unavail_ctr r cbs) with (uc r cbs). rewrite Hu. unfold cu, hobj.
  (* a registration of another kind has no entry in the counter map *)
  assert (Hother : k <> KCtr -> lookup r (getm KCtr p) = None).
  { intros Hk. destruct (lookup r (getm KCtr p)) eqn:E; auto. exfalso. apply Hk.
    apply (C_uniq _ _ _ R k KCtr r); [congruence|]. pose proof (C_pt _ _ _ R Hc KCtr r) as P2.
    destruct (rlookup KCtr r (q_regs qx)); [discriminate|]. cbn [pt] in P2. rewrite P2 in E. discriminate. }
  destruct k; try (rewrite Hother by congruence; destruct x; reflexivity).
  destruct x as [t a1 a2|[h|] d1 d2 d3|code| |]; cbn [ctr_alive ctr_unknown rel_entry] in *.
  - destruct P as (e & -> & _ & -> & _). reflexivity.
  - destruct P as (_ & e & o & -> & -> & _). reflexivity.
  - destruct P as (e & -> & o & -> & _). reflexivity.
  - destruct P as (e & -> & _ & _ & ->). reflexivity.
  - rewrite P. reflexivity.
  - reflexivity. Qed.

Lemma closed_flag_after s s' cbs : n_close cbs = delta s s' -> (closed s = true -> closed s' = true) ->
  closed s = false -> existsb is_close_cb cbs = closed s'.
Proof. intros H M Hc. rewrite existsb_close, H. unfold delta. rewrite Hc. destruct (closed s'); reflexivity. Qed.

Lemma ctrs_run c0 tdrv tis ops : forall q s,
  inv s -> Rel c0 q s -> NoDup (reg_ids (q_regs q)) ->
  c10_ctrs_run c0 tdrv (ring_full s) q ops (snd (run (mkCfg tdrv tis) s ops)) = true.
Proof. induction ops as [|o ops IH]; intros q s I R Hn; cbn; auto.
  destruct (sim_step c0 tdrv tis q s o I R) as (q' & Hs & R').
  pose proof (step_inv (mkCfg tdrv tis) s o I) as I'.
  pose proof (step_close_count (mkCfg tdrv tis) s o I) as Hcount. pose proof (step_closed_mono (mkCfg tdrv tis) s o I) as Hmono.
  pose proof (closing_count (mkCfg tdrv tis) s o I) as Hcc.
  pose proof (c09_step_ids _ _ _ _ _ _ _ Hs) as Hids. pose proof (ids_step_nodup q q' (R_ids _ _ _ R) Hn Hids) as Hn'.
  pose proof (c09_step_regs _ _ _ _ _ _ _ Hs) as Hregs.
  assert (Hev : forall ev, o = DoWork (BEvent ev) -> exists l, fst (fst (snd (step (mkCfg tdrv tis) s o))) = Ok l).
  { intros ev ->. cbn [step]. unfold do_work. pose proof (on_event_no_hang ev s) as Y1. destruct (on_event ev s) as [[s1 cbs1] h1]. cbn in Y1. subst.
    pose proof (heartbeat_check_no_hang (mkCfg tdrv tis) s1) as Y. destruct (heartbeat_check (mkCfg tdrv tis) s1) as [[[s2 cbs2] h2] rr]. cbn in Y. subst. cbn. eauto. }
  pose proof (fun ev (H : o = DoWork (BEvent ev)) => sim_event c0 q s ev I (rel_to_c _ _ _ R)) as Hsim.
  pose proof (fun ev => on_event_closed_cases ev s) as Hcases.
  pose proof (step_closed_same (mkCfg tdrv tis) s o) as Hsame.
  pose proof (step_ring_full (mkCfg tdrv tis) s o) as Hrf.
  destruct (step (mkCfg tdrv tis) s o) as [s1 [[r cbs] cmds]] eqn:Es. cbn [fst snd] in *.
  specialize (IH q' s1 I' R' Hn'). destruct (run (mkCfg tdrv tis) s1 ops) as [s2 xs]. cbn [snd] in *.
  rewrite Hs. cbn [fst snd]. fold (is_ctr_event o).
  destruct (negb (q_closed q) && existsb is_close_cb cbs && negb (is_ctr_event o)) eqn:Eg; [|cbn [andb]; rewrite <- Hrf; exact IH].
  apply andb_prop in Eg. destruct Eg as [Eg E3]. apply andb_prop in Eg. destruct Eg as [E1 E2].
  apply Bool.negb_true_iff in E1, E3. assert (Hc : closed s = false) by (rewrite <- (R_closed _ _ _ R); exact E1).
  assert (Hc1 : closed s1 = true) by (rewrite <- (closed_flag_after s s1 cbs Hcount Hmono Hc); exact E2).
  destruct (Hcc Hc Hc1 E3) as [Hp Hu].
  assert (HR : RelC c0 (set_regs (q_regs q') q) (pre o s)).
  { specialize (Hregs E1). destruct o; try (rewrite (Hsame Logic.I) in Hc1; congruence).
    - (* Close *) rewrite Hregs. cbn [pre]. apply relc_set_same_regs. apply rel_to_c. exact R.
    - (* DoWork *) destruct b.
      + rewrite Hregs. cbn [pre]. apply relc_set_same_regs. apply rel_to_c. exact R.
      + rewrite Hregs. cbn [pre]. apply relc_set_same_regs. apply rel_to_c. exact R.
      + rewrite Hregs. cbn [pre]. apply relc_set_same_regs. apply rel_to_c. exact R.
      + destruct (Hev e eq_refl) as (l & Hl). cbn in Hl. subst r. cbn [fst] in Hregs. rewrite Hregs. cbn [pre] in *.
        destruct (Hsim e eq_refl Hc) as [RC _].
        destruct (closed (fst (fst (on_event e s)))) eqn:E1'.
        * destruct (Hcases e Hc) as [Hy|(cid & -> & _)]; [congruence|]. cbn [ready_step fst]. apply relc_set_same_regs. apply rel_to_c. exact R.
        * exact RC. }
  pose proof (counters_closed_ok c0 (set_regs (q_regs q') q) (pre o s) cbs HR Hp Hn' Hu) as Hok. cbn [set_regs q_regs] in Hok.
  rewrite Hok. cbn [negb andb]. rewrite <- Hrf. exact IH. Qed.

(* the counter judge of the C10 oracle holds on the model's own observations, for every history *)
Theorem c10_ctrs_model c0 now0 tdrv tis ops : c10_ctrs_run c0 tdrv false (oinit c0 now0) ops (run_obs c0 now0 tdrv tis ops) = true.
Proof. unfold run_obs. apply (ctrs_run c0 tdrv tis ops (oinit c0 now0) (init c0 now0)); [apply init_inv|apply rel_init|constructor]. Qed.
