(* Interleavings: the ghost log.  consumed ++ pending is a linearisation of the successful writes:
   restricted to one producer it is exactly that producer's claimed writes in program order (nothing
   lost, nothing duplicated, order preserved), and everything delivered is intact. *)
Require Import V.Base.MachineInt.
Require Import V.Generated.GenConsts.
Require Import V.Model.LogBase.
Require Import V.Model.Ring.
Require Import V.Model.RingThreads.
Require Import V.Spec.Fifo.
Require Import V.Proofs.RingArith.
Require Import V.Proofs.RingSeq.
Require Import V.Proofs.RingRender.
Require Import V.Proofs.RingSeqRun.
Require Import V.Proofs.RingConc.
Require Import V.Proofs.RingConcThm.
From Coq Require Import ZifyBool Lia Sorted FinFun.
Open Scope Z_scope.

Definition ltag := (Z * Z)%type.                       (* owner thread, number of the write call *)
Definition tag2 (x : tmsg) : ltag := let '(o, k, _, _) := x in (o, k).
Definition slot_tag (s : slot) : ltag := (s_owner s, s_seq s).

(* everything handed to the read handler so far, in order *)
Definition delivered (cs : cstate) : list tmsg :=
  concat (map snd (c_res cs)) ++ match c_pc cs with CPutHead _ _ _ acc => acc | _ => [] end.
(* the record pieces claimed and not yet consumed, in position order *)
Definition pending (R : ring) : list ltag := map slot_tag (filter is_rec (r_slots R)).
Definition log (cfg : config) : list ltag := map tag2 (delivered (g_cons cfg)) ++ pending (g_ring cfg).

(* the write calls of a producer that obtained space: those that returned Ok, and the one in flight *)
Fixpoint ok_indices (res : list (outcome Z)) (k : nat) : list Z :=
  match res with
  | [] => []
  | r :: rs => (match r with Ok 0 => [Z.of_nat k] | _ => [] end) ++ ok_indices rs (S k)
  end.
Definition after_cas (pc : ppc) : bool :=
  match pc with PPadHdr _ _ | PHdr _ | PCopy _ | PCommit _ => true | _ => false end.
Definition claimed (ps : pstate) : list Z :=
  ok_indices (p_res ps) 0 ++ (if after_cas (p_pc ps) then [Z.of_nat (p_k ps)] else []).

Definition of_owner (o : Z) (l : list ltag) : list ltag := filter (fun t => fst t =? o) l.

Record LogInv (cfg : config) : Prop := mkLogInv {
  l_len : forall i ps, nth_error (g_prods cfg) i = Some ps -> length (p_res ps) = p_k ps;
  l_own : forall i ps, nth_error (g_prods cfg) i = Some ps ->
            of_owner (Z.of_nat (S i)) (log cfg) = map (fun k => (Z.of_nat (S i), k)) (claimed ps);
  l_intact : forall o k ty b, In (o, k, ty, b) (delivered (g_cons cfg)) ->
            o = 0 \/ exists i ps, o = Z.of_nat (S i) /\ nth_error (g_prods cfg) i = Some ps /\
                                  0 <= k /\ nth_error (p_prog ps) (Z.to_nat k) = Some (ty, b)
}.

(* ---- small facts ---- *)
Lemma of_owner_app o a b : of_owner o (a ++ b) = of_owner o a ++ of_owner o b.
Proof. apply filter_app. Qed.

Lemma ok_indices_app a b k : ok_indices (a ++ b) k = ok_indices a k ++ ok_indices b (length a + k).
Proof. revert k. induction a as [| r a IH]; intros k; cbn [app ok_indices length]; [reflexivity |].
  rewrite IH. rewrite <- app_assoc. replace (length a + S k)%nat with (S (length a) + k)%nat by lia. reflexivity. Qed.

Lemma ok_indices_errs errs : Forall (fun r => r <> Ok 0) errs -> forall k, ok_indices errs k = [].
Proof. induction 1 as [| r errs Hr F IH]; intros k; cbn [ok_indices]; [reflexivity |].
  rewrite IH. destruct r as [z | e0 | | |]; try reflexivity. destruct z; try reflexivity. congruence. Qed.

Lemma pending_upd R p f : (forall s, s_owner (f s) = s_owner s /\ s_seq (f s) = s_seq s) ->
  pending (set_slots R (upd_slot (r_slots R) p f)) = pending R.
Proof. intros Hf. unfold pending. cbn [set_slots r_slots]. induction (r_slots R) as [| s sl IH]; cbn [upd_slot]; [reflexivity |].
  destruct (s_pos s =? p).
  - cbn [filter]. destruct (Hf s) as (A & B).
    assert (E1 : is_rec (f s) = is_rec s) by (unfold is_rec; rewrite B; reflexivity).
    assert (E2 : slot_tag (f s) = slot_tag s) by (unfold slot_tag; rewrite A, B; reflexivity).
    rewrite E1. destruct (is_rec s); cbn [map]; rewrite ?E2; reflexivity.
  - cbn [filter]. destruct (is_rec s); cbn [map]; rewrite IH; reflexivity. Qed.

Lemma of_owner_map_same o (l : list Z) : of_owner o (map (fun k => (o, k)) l) = map (fun k => (o, k)) l.
Proof. unfold of_owner. induction l as [| x l IH]; cbn [map filter fst]; [reflexivity |]. rewrite Z.eqb_refl. f_equal. assumption. Qed.
Lemma of_owner_map_other o o' (l : list Z) : o <> o' -> of_owner o (map (fun k => (o', k)) l) = [].
Proof. intros H. unfold of_owner. induction l as [| x l IH]; cbn [map filter fst]; [reflexivity |].
  replace (o' =? o) with false by lia. assumption. Qed.

(* ---- producer steps ---- *)
Lemma loginv_prod cfg R' i ps ps' extra :
  LogInv cfg -> nth_error (g_prods cfg) i = Some ps ->
  pending R' = pending (g_ring cfg) ++ map (fun k => (Z.of_nat (S i), k)) extra ->
  p_prog ps' = p_prog ps -> length (p_res ps') = p_k ps' -> claimed ps' = claimed ps ++ extra ->
  LogInv (mkCfg R' (g_cons cfg) (set_nth (g_prods cfg) i ps')).
Proof. intros [Ll Lo Li] Hi Hp Hprog Hlen Hcl.
  constructor; cbn [g_ring g_cons g_prods].
  - intros j q Hj. destruct (Nat.eq_dec i j) as [<- | Hne].
    + rewrite (nth_set_nth_eq _ _ _ _ Hi) in Hj. inversion Hj; subst q. assumption.
    + rewrite nth_set_nth_neq in Hj by assumption. eapply Ll; eassumption.
  - intros j q Hj. unfold log. cbn [g_ring g_cons]. rewrite Hp. rewrite app_assoc. rewrite of_owner_app.
    fold (log cfg).
    destruct (Nat.eq_dec i j) as [<- | Hne].
    + rewrite (nth_set_nth_eq _ _ _ _ Hi) in Hj. inversion Hj; subst q.
      rewrite (Lo i ps Hi). rewrite Hcl, map_app. f_equal. apply of_owner_map_same.
    + rewrite nth_set_nth_neq in Hj by assumption. rewrite (Lo j q Hj).
      rewrite of_owner_map_other by lia. apply app_nil_r.
  - intros o k ty b Hin. destruct (Li o k ty b Hin) as [-> | (j & q & A & B & C & D)]; [left; reflexivity |].
    right. destruct (Nat.eq_dec i j) as [<- | Hne].
    + rewrite Hi in B. inversion B; subst q. exists i, ps'. rewrite (nth_set_nth_eq _ _ _ _ Hi), Hprog. auto.
    + exists j, q. rewrite nth_set_nth_neq by assumption. auto. Qed.

Lemma claimed_set_pc ps pc : after_cas pc = after_cas (p_pc ps) -> claimed (set_pc ps pc) = claimed ps.
Proof. intros E. unfold claimed. cbn [set_pc p_res p_pc p_k]. rewrite E. reflexivity. Qed.

Lemma after_check1_log m cp rq hd tl ps :
  let ps' := after_check1 m cp rq hd tl ps in
  p_pc ps' = PPanic \/ (p_prog ps' = p_prog ps /\ p_res ps' = p_res ps /\ p_k ps' = p_k ps /\ after_cas (p_pc ps') = false).
Proof. cbn zeta. unfold after_check1. destruct (wrap_needed m cp rq tl) as [[e |] | | | |]; try (left; reflexivity).
  - destruct (lacks_front cp rq hd); right; repeat split; reflexivity.
  - right. repeat split; reflexivity. Qed.

Lemma finish_log cp ps r : Forall wreq_ok (p_prog ps) -> length (p_res ps) = p_k ps ->
  let ps' := finish cp ps r in
  p_prog ps' = p_prog ps /\ length (p_res ps') = p_k ps' /\ after_cas (p_pc ps') = false /\
  ok_indices (p_res ps') 0 = ok_indices (p_res ps) 0 ++ (match r with Ok 0 => [Z.of_nat (p_k ps)] | _ => [] end).
Proof. intros Hok Hl. destruct (finish_spec cp ps r Hok) as (A & B & C & errs & D1 & D2 & D3). cbn zeta.
  split; [assumption |]. split.
  - rewrite D1, app_length. cbn [length]. lia.
  - split; [destruct C as [-> | (-> & _)]; reflexivity |].
    rewrite D1. rewrite ok_indices_app. cbn [ok_indices]. rewrite (ok_indices_errs errs D2). rewrite app_nil_r.
    rewrite Nat.add_0_r, Hl. reflexivity. Qed.

Lemma pending_cas R t2 tl pd rq tid k : 0 <= k ->
  pending (set_slots (set_tail R t2) (r_slots R ++ claim_slots tl pd rq tid k)) = pending R ++ [(tid, k)].
Proof. intros Hk. unfold pending. cbn [set_slots r_slots]. rewrite filter_app, map_app. f_equal.
  unfold claim_slots. destruct (pd =? 0); cbn [app filter]; unfold is_rec; cbn [s_seq].
  - replace (0 <=? k) with true by lia. reflexivity.
  - replace (0 <=? - 1 - k) with false by lia. replace (0 <=? k) with true by lia. reflexivity. Qed.

Lemma pstep_log lo m cfg i ps R' ps' e :
  Inv lo cfg -> LogInv cfg -> nth_error (g_prods cfg) i = Some ps ->
  pstep m (g_ring cfg) (Z.of_nat (S i)) ps = (R', ps', Some e) -> p_pc ps' <> PPanic ->
  LogInv (mkCfg R' (g_cons cfg) (set_nth (g_prods cfg) i ps')).
Proof.
  intros HI HL Hi Hstep Hnp. destruct cfg as [R cs prods]. cbn [g_ring g_cons g_prods] in *.
  destruct (i_prods _ _ HI i ps Hi) as (Pc & Pw & _). cbn [g_ring] in *.
  pose proof (l_len _ HL i ps Hi) as Hlen. cbn [g_prods] in Hlen.
  pose proof (i_cap _ _ HI) as Icap. cbn [g_ring] in Icap.
  (* the two shapes of a step *)
  assert (SAME : forall R1 ps1, pending R1 = pending R -> p_prog ps1 = p_prog ps -> length (p_res ps1) = p_k ps1 ->
            claimed ps1 = claimed ps -> LogInv (mkCfg R1 cs (set_nth prods i ps1))).
  { intros R1 ps1 A B C D. apply (loginv_prod (mkCfg R cs prods) R1 i ps ps1 [] HL Hi); cbn [g_ring map]; rewrite ?app_nil_r; assumption. }
  assert (PC : forall R1 pc, pending R1 = pending R -> after_cas pc = after_cas (p_pc ps) -> LogInv (mkCfg R1 cs (set_nth prods i (set_pc ps pc)))).
  { intros R1 pc A B. apply SAME; auto. apply claimed_set_pc. assumption. }
  assert (AC : forall R1 rq hd tl, pending R1 = pending R -> after_cas (p_pc ps) = false ->
            p_pc (after_check1 m (r_cap R) rq hd tl ps) <> PPanic ->
            LogInv (mkCfg R1 cs (set_nth prods i (after_check1 m (r_cap R) rq hd tl ps)))).
  { intros R1 rq hd tl A B C. destruct (after_check1_log m (r_cap R) rq hd tl ps) as [X | (X1 & X2 & X3 & X4)]; [contradiction |].
    apply SAME; auto; [rewrite X2, X3; assumption |]. unfold claimed. rewrite X2, X3, X4, B. reflexivity. }
  assert (FIN : forall R1 r, pending R1 = pending R ->
            (match r with Ok 0 => after_cas (p_pc ps) = true | _ => after_cas (p_pc ps) = false end) ->
            LogInv (mkCfg R1 cs (set_nth prods i (finish (r_cap R) ps r)))).
  { intros R1 r A B. destruct (finish_log (r_cap R) ps r Pw Hlen) as (F1 & F2 & F3 & F4).
    apply SAME; auto. unfold claimed. rewrite F3, F4, app_nil_r.
    destruct r as [z | | | |]; try (rewrite B, app_nil_r; reflexivity).
    destruct z; try (rewrite B, app_nil_r; reflexivity). rewrite B. reflexivity. }
  unfold pstep in Hstep. unfold pc_ok in Pc.
  destruct (p_pc ps) eqn:Epc; try (inversion Hstep; fail); try contradiction;
    destruct Pc as (typ & body & Aw & Pc); cbn zeta in Pc;
    rewrite (cur_at_write m _ _ _ _ Icap Aw) in Hstep.
  - inversion Hstep; subst. apply PC; reflexivity.
  - destruct (lacks m (r_cap R) (rq_of body) (r_tail R) hd) as [[|] | | | |]; inversion Hstep; subst;
      try (cbn [set_pc p_pc] in Hnp; congruence).
    + apply PC; reflexivity.
    + apply AC; auto.
  - destruct (lacks m (r_cap R) (rq_of body) tl (r_head R)) as [[|] | | | |]; inversion Hstep; subst;
      try (cbn [set_pc p_pc] in Hnp; congruence).
    + apply FIN; auto.
    + apply PC; reflexivity.
  - inversion Hstep; subst. apply AC; auto.
  - destruct (lacks_front (r_cap R) (rq_of body) (r_head R)); inversion Hstep; subst.
    + apply FIN; auto.
    + apply PC; reflexivity.
  - destruct (wrap_needed m (r_cap R) (rq_of body) tl) as [[pd |] | | | |]; inversion Hstep; subst;
      try (cbn [set_pc p_pc] in Hnp; congruence).
    apply PC; reflexivity.
  - destruct (new_tail m tl (rq_of body) padding) as [t2 | | | |]; try (inversion Hstep; fail).
    destruct (r_tail R =? tl).
    + inversion Hstep; subst R' ps' e.
      apply (loginv_prod (mkCfg R cs prods) _ i ps _ [Z.of_nat (p_k ps)] HL Hi); cbn [g_ring map].
      * apply pending_cas. lia.
      * destruct (padding =? 0); reflexivity.
      * destruct (padding =? 0); cbn [set_pc p_res p_k]; assumption.
      * unfold claimed. rewrite Epc. cbn [after_cas]. rewrite app_nil_r.
        destruct (padding =? 0); cbn [set_pc p_res p_pc p_k after_cas]; reflexivity.
    + inversion Hstep; subst. apply PC; reflexivity.
  - inversion Hstep; subst. apply PC; [| reflexivity]. unfold put_hdr. apply pending_upd. intros s; split; reflexivity.
  - inversion Hstep; subst. apply PC; [| reflexivity]. unfold put_hdr. apply pending_upd. intros s; split; reflexivity.
  - inversion Hstep; subst. apply PC; [| reflexivity]. apply pending_upd. intros s; split; reflexivity.
  - inversion Hstep; subst. apply FIN; [| reflexivity]. apply pending_upd. intros s; split; reflexivity.
Qed.

(* ---- consumer steps ---- *)
Lemma delivered_set_pc cs pc : (match pc with CPutHead _ _ _ _ => False | _ => True end) ->
  delivered (cset_pc cs pc) = concat (map snd (c_res cs)).
Proof. intros H. unfold delivered. cbn [cset_pc c_res c_pc]. destruct pc; try contradiction; apply app_nil_r. Qed.

Lemma delivered_finish cs n acc : delivered (finish_read cs n acc) = concat (map snd (c_res cs)) ++ acc.
Proof. unfold delivered, finish_read. cbn [c_res c_pc]. rewrite map_app, concat_app. cbn [map snd concat].
  rewrite app_nil_r. destruct (nth_error (c_limits cs) (S (c_k cs))); apply app_nil_r. Qed.

Lemma loginv_cons cfg R' cs' :
  LogInv cfg -> map tag2 (delivered cs') ++ pending R' = log cfg ->
  (forall x, In x (delivered cs') -> In x (delivered (g_cons cfg)) \/
      (let '(o, k, ty, b) := x in o = 0 \/ exists i ps, o = Z.of_nat (S i) /\ nth_error (g_prods cfg) i = Some ps /\
                                  0 <= k /\ nth_error (p_prog ps) (Z.to_nat k) = Some (ty, b))) ->
  LogInv (mkCfg R' cs' (g_prods cfg)).
Proof. intros [Ll Lo Li] Hlog Hint. constructor; cbn [g_ring g_cons g_prods].
  - assumption.
  - intros i ps Hi. unfold log. cbn [g_ring g_cons]. rewrite Hlog. apply Lo. assumption.
  - intros o k ty b Hin. destruct (Hint _ Hin) as [H | H]; [apply Li; assumption | exact H]. Qed.

(* the loop test: it ends the read only when nothing was consumed *)
Lemma loop_exit_deliv cs hd bytes msgs acc : (bytes = 0 -> acc = []) ->
  delivered (loop_exit cs hd bytes msgs acc) = concat (map snd (c_res cs)).
Proof. intros H. unfold loop_exit. destruct (bytes =? 0) eqn:B.
  - rewrite delivered_finish. rewrite H by lia. apply app_nil_r.
  - apply delivered_set_pc. exact I. Qed.

Lemma loop_check_deliv m cp limit cs hd bytes msgs acc : (bytes = 0 -> acc = []) ->
  c_pc (loop_check m cp limit cs hd bytes msgs acc) = CPanic \/
  delivered (loop_check m cp limit cs hd bytes msgs acc) = concat (map snd (c_res cs)).
Proof. intros H. unfold loop_check. destruct (sub32 m cp (mask_idx cp hd)) as [c | | | |]; try (left; reflexivity).
  right. destruct ((bytes <? c) && (msgs <? limit)); [apply delivered_set_pc; exact I | apply loop_exit_deliv; assumption]. Qed.

Lemma used_nil_of_zero cp h t used rest : tiled cp h t (used ++ rest) -> span_sum used = 0 -> used = [].
Proof. intros T Hs. destruct used as [| s u]; [reflexivity |].
  destruct (tiled_split_sum _ _ _ _ _ T) as (A & _).
  pose proof (tiled_len8 _ _ _ _ A). cbn [length] in *. lia. Qed.

Lemma committed_intact cp prods s : committed cp prods s -> is_rec s = true ->
  s_owner s = 0 \/ exists i ps, s_owner s = Z.of_nat (S i) /\ nth_error prods i = Some ps /\
                       0 <= s_seq s /\ nth_error (p_prog ps) (Z.to_nat (s_seq s)) = Some (s_type s, s_body s).
Proof. intros (_ & [(A & B & E) | [(A & _) | (i & ps & A & B & C & D & _)]]) Hr.
  - unfold is_rec in Hr. lia.
  - left. assumption.
  - right. exists i, ps. auto. Qed.

(* a consumer step leaves the log as a whole unchanged *)
Definition dlog (cfg : config) : list tmsg := delivered (g_cons cfg) ++ msgs_of (r_slots (g_ring cfg)).

Lemma dlog_tags cfg : map tag2 (dlog cfg) = log cfg.
Proof. unfold dlog, log, pending, msgs_of. rewrite map_app, map_map. reflexivity. Qed.

Definition cons_log_facts (cfg : config) (R' : ring) (cs' : cstate) : Prop :=
  delivered cs' ++ msgs_of (r_slots R') = dlog cfg /\
  map tag2 (delivered cs') ++ pending R' = log cfg /\
  (forall x, In x (delivered cs') -> In x (delivered (g_cons cfg)) \/
      (let '(o, k, ty, b) := x in o = 0 \/ exists i ps, o = Z.of_nat (S i) /\ nth_error (g_prods cfg) i = Some ps /\
                                  0 <= k /\ nth_error (p_prog ps) (Z.to_nat k) = Some (ty, b))).

Lemma cstep_log_facts lo m cfg R' cs' e :
  Inv lo cfg -> cstep m (g_ring cfg) (g_cons cfg) = (R', cs', Some e) -> c_pc cs' <> CPanic ->
  cons_log_facts cfg R' cs'.
Proof.
  intros HI Hstep Hnp. destruct cfg as [R cs prods]. cbn [g_ring g_cons g_prods] in *.
  pose proof (i_cons _ _ HI) as Ics. pose proof (i_tiled _ _ HI) as Itl. pose proof (i_cap _ _ HI) as Icap.
  cbn [g_ring g_cons g_prods] in *.
  pose proof (cap_ok_range _ Icap) as Hcr.
  unfold cstep in Hstep. unfold cons_ok in Ics.
  (* steps that neither consume nor publish: the log is untouched *)
  assert (KEEP : forall cs1, delivered cs1 = concat (map snd (c_res cs)) ->
            (match c_pc cs with CPutHead _ _ _ _ => False | _ => True end) ->
            cons_log_facts (mkCfg R cs prods) R cs1).
  { intros cs1 E Hpc. split; [| split].
    - unfold dlog. cbn [g_ring g_cons]. rewrite E. unfold delivered. destruct (c_pc cs); try contradiction; rewrite app_nil_r; reflexivity.
    - unfold log. cbn [g_ring g_cons]. rewrite E. unfold delivered. destruct (c_pc cs); try contradiction; rewrite app_nil_r; reflexivity.
    - intros x Hx. left. cbn [g_cons]. rewrite E in Hx. unfold delivered. apply in_or_app. left. assumption. }
  destruct (c_pc cs) eqn:Epc; try (inversion Hstep; fail); try contradiction.
  - (* CReadHead *)
    destruct Ics as (limit & El). rewrite El in Hstep. inversion Hstep; subst R' cs' e.
    destruct (loop_check_deliv m (r_cap R) limit cs (r_head R) 0 0 [] ltac:(auto)) as [X | X]; [contradiction |].
    apply KEEP; [exact X | exact I].
  - (* CReadHdr *)
    destruct Ics as ((limit & El) & Ehd & used & U & Eacc & Emsgs). rewrite El in Hstep. subst hd.
    pose proof U as ((rest & Es) & Uc & Us).
    assert (Hh' : head' R cs = r_head R) by (unfold head'; rewrite Epc; reflexivity).
    rewrite Hh' in Itl. rewrite Es in Itl.
    assert (Z0 : bytes = 0 -> acc = []).
    { intros B0. rewrite Eacc. rewrite (used_nil_of_zero _ _ _ _ _ Itl ltac:(lia)). reflexivity. }
    destruct (pos_word (r_slots R) (r_head R + bytes) <=? 0) eqn:Le.
    + inversion Hstep; subst R' cs' e. apply KEEP; [apply loop_exit_deliv; assumption | exact I].
    + (* a committed slot is in front: bytes grows by its span *)
      destruct rest as [| s rest].
      { rewrite Es, <- Us in Le. rewrite (front_none _ _ _ _ Itl) in Le. discriminate. }
      destruct (front_some _ _ _ _ _ _ Itl) as (Hp & Hlen & Hty & Hfind).
      rewrite Es in Hstep, Le. rewrite <- Us in Hstep, Le. rewrite Hlen in Hstep, Le. rewrite Hty in Hstep.
      pose proof (tiled_range _ _ _ _ Itl) as Rg. rewrite Forall_forall in Rg.
      destruct (Rg s ltac:(apply in_or_app; right; left; reflexivity)) as (Rs1 & Rs2 & Gs).
      pose proof (i_slots _ _ HI) as Isl. cbn [g_ring g_prods] in Isl. rewrite Es in Isl.
      apply Forall_app in Isl. destruct Isl as (_ & Isl2). inversion Isl2 as [| a l Hs _]; subst a l.
      destruct Hs as [Cm | (j & q & Hj & Hin)]; [| destruct (expect_owner _ _ _ Hin); lia].
      destruct (committed_shape _ _ _ Gs Cm) as (Hl & Hsp & Hk).
      assert (Hlb : s_len s <= s_span s) by (rewrite Hsp; apply align8_bounds).
      pose proof Gs as (_ & _ & Gs8 & _ & Gstr & _). pose proof (mod_range (r_cap R) (s_pos s) Icap).
      pose proof (i_size _ _ HI) as Isz. cbn [g_ring] in Isz.
      pose proof (span_sum_nonneg _ _ _ _ (proj1 (tiled_split_sum _ _ _ _ _ Itl))) as Hb0.
      rewrite ralign_ok in Hstep by (unfold two30 in *; lia). cbn [bind] in Hstep. rewrite <- Hsp in Hstep.
      unfold add32 in Hstep at 1. rewrite chk32_ok in Hstep by (apply in_i32_small; unfold two31, two30 in *; lia).
      destruct (s_type s =? PAD).
      * inversion Hstep; subst R' cs' e.
        destruct (loop_check_deliv m (r_cap R) limit cs (r_head R) (span_sum used + s_span s) msgs acc ltac:(intros; lia)) as [X | X]; [contradiction |].
        apply KEEP; [exact X | exact I].
      * destruct (valid_cmd (s_type s)); [| inversion Hstep; subst; cbn [cset_pc c_pc] in Hnp; congruence].
        destruct (add32 m msgs 1) as [m1 | | | |]; inversion Hstep; subst R' cs' e; try (cbn [cset_pc c_pc] in Hnp; congruence).
        apply KEEP; [apply delivered_set_pc; exact I | exact I].
  - (* CHandler *)
    destruct Ics as ((limit & El) & Ehd & used & s & U & Eacc & Emsgs & Hp & Hlen & Hty & Hrec). rewrite El in Hstep. subst hd.
    pose proof U as ((rest & Es) & Uc & Us).
    assert (Hh' : head' R cs = r_head R) by (unfold head'; rewrite Epc; reflexivity).
    rewrite Hh' in Itl. rewrite Es in Itl.
    destruct (tag_at (r_slots R) p) as [ow sq]. inversion Hstep; subst R' cs' e.
    assert (Hbp : bytes <> 0).
    { destruct (tiled_split_sum _ _ _ _ _ Itl) as (A & _). pose proof (tiled_len8 _ _ _ _ A) as L8.
      rewrite app_length in L8. cbn [length] in L8. lia. }
    match goal with |- cons_log_facts _ _ (loop_check ?a ?b ?c ?d ?e ?f ?g ?h) =>
      destruct (loop_check_deliv a b c d e f g h ltac:(intros; lia)) as [X | X]; [contradiction |] end.
    apply KEEP; [exact X | exact I].
  - (* CZero: what was walked over leaves the ring and joins the delivered messages *)
    destruct Ics as ((limit & El) & Ehd & Hb & used & U & Eacc). rewrite El in Hstep. subst hd.
    pose proof U as ((rest & Es) & Uc & Us).
    assert (Hh' : head' R cs = r_head R) by (unfold head'; rewrite Epc; reflexivity).
    rewrite Hh' in Itl. rewrite Es in Itl.
    inversion Hstep; subst R' cs' e. clear Hstep.
    destruct (tiled_split_sum _ _ _ _ _ Itl) as (T1 & T2). rewrite Us in T1, T2.
    assert (Ef : filter (fun s => negb (consumed (r_head R) bytes s)) (r_slots R) = rest).
    { rewrite Es. apply filter_consumed.
      - pose proof (tiled_range _ _ _ _ T1) as R1. eapply Forall_impl; [| exact R1]. cbn. intros a (A1 & A2 & (_ & _ & A3 & _)). lia.
      - pose proof (tiled_range _ _ _ _ T2) as R2. eapply Forall_impl; [| exact R2]. cbn. intros a (A1 & _). lia. }
    rewrite Ef.
    assert (Etag : map tag2 (msgs_of used) = map slot_tag (filter is_rec used)).
    { unfold msgs_of. rewrite map_map. reflexivity. }
    split; [| split].
    + unfold dlog, delivered. cbn [g_ring g_cons cset_pc c_res c_pc set_slots r_slots]. rewrite Epc, app_nil_r.
      rewrite Es, msgs_of_app, Eacc. rewrite <- app_assoc. reflexivity.
    + unfold log, delivered, pending. cbn [g_ring g_cons cset_pc c_res c_pc set_slots r_slots]. rewrite Epc, app_nil_r.
      rewrite Es, filter_app, !map_app. rewrite <- app_assoc. rewrite Eacc, Etag. reflexivity.
    + intros x Hx. unfold delivered in Hx |- *. cbn [cset_pc c_res c_pc g_cons] in Hx |- *. rewrite Epc, app_nil_r.
      apply in_app_or in Hx. destruct Hx as [Hx | Hx]; [left; assumption | right].
      rewrite Eacc in Hx. unfold msgs_of in Hx. apply in_map_iff in Hx. destruct Hx as (s & <- & Hs).
      apply filter_In in Hs. destruct Hs as (Hs & Hr). rewrite Forall_forall in Uc.
      unfold tag_of. cbn [g_prods]. apply (committed_intact _ _ _ (Uc s Hs) Hr).
  - (* CPutHead *)
    destruct Ics as ((limit & El) & Ehd & Hb). rewrite El in Hstep. subst hd.
    inversion Hstep; subst R' cs' e.
    split; [| split].
    + unfold dlog. cbn [g_ring g_cons set_head r_slots]. rewrite delivered_finish. unfold delivered. rewrite Epc. reflexivity.
    + unfold log. cbn [g_ring g_cons]. rewrite delivered_finish. unfold delivered. rewrite Epc. reflexivity.
    + intros x Hx. left. cbn [g_cons]. rewrite delivered_finish in Hx. unfold delivered. rewrite Epc. exact Hx.
Qed.

Lemma cstep_log lo m cfg R' cs' e :
  Inv lo cfg -> LogInv cfg -> cstep m (g_ring cfg) (g_cons cfg) = (R', cs', Some e) -> c_pc cs' <> CPanic ->
  LogInv (mkCfg R' cs' (g_prods cfg)).
Proof. intros HI HL Hstep Hnp. destruct (cstep_log_facts lo m cfg R' cs' e HI Hstep Hnp) as (_ & A & B).
  apply (loginv_cons cfg R' cs' HL A B). Qed.

(* ---- every reachable configuration ---- *)
Lemma step_log lo m cfg tid cfg' e :
  Inv lo cfg -> LogInv cfg -> step m cfg tid = Some (cfg', e) -> Inv lo cfg' -> LogInv cfg'.
Proof. intros HI HL Hs HI'. unfold step in Hs. destruct tid as [| i].
  - destruct (cstep m (g_ring cfg) (g_cons cfg)) as [[R cs] [ev |]] eqn:E; [| discriminate].
    inversion Hs; subst. eapply cstep_log; try eassumption.
    apply (proj1 (inv_no_panic _ _ HI')).
  - destruct (nth_error (g_prods cfg) i) as [ps |] eqn:Ei; [| discriminate].
    destruct (pstep m (g_ring cfg) (Z.of_nat (S i)) ps) as [[R ps'] [ev |]] eqn:E; [| discriminate].
    inversion Hs; subst. eapply pstep_log; try eassumption.
    apply (proj2 (inv_no_panic _ _ HI') i ps'). cbn [g_prods]. apply (nth_set_nth_eq _ _ _ _ Ei). Qed.

Lemma reach_log lo m c0 c : Inv lo c0 -> LogInv c0 -> reach lo m c0 c -> LogInv c.
Proof. intros H0 L0. induction 1 as [| c tid c' e Hr IH Hs Hw]; [assumption |].
  eapply step_log; [eapply reach_inv; eassumption | exact IH | exact Hs |].
  eapply reach_inv; [exact H0 |]. eapply reach_step; eassumption. Qed.

Lemma loginv_start R limits progs : wf R -> Forall (Forall wreq_ok) progs -> LogInv (start R limits progs).
Proof. intros W Hok. unfold start.
  assert (Hd : delivered (cstart limits) = []) by (unfold delivered, cstart; destruct limits; reflexivity).
  constructor; cbn [g_ring g_cons g_prods].
  - intros i ps Hi. rewrite nth_error_map in Hi. destruct (nth_error progs i) as [prog |] eqn:E; [| discriminate].
    inversion Hi; subst ps. rewrite Forall_forall in Hok. pose proof (Hok prog (nth_error_In _ _ E)) as Hp.
    unfold pstart. pose proof (enter_spec (r_cap R) (S (length prog)) (mkP PDone prog O [])) as H. cbn [p_prog p_k p_res] in H.
    specialize (H Hp ltac:(lia)). cbn zeta in H. destruct H as (_ & _ & _ & errs & D1 & _ & D3). rewrite D1. cbn [app]. lia.
  - intros i ps Hi. rewrite nth_error_map in Hi. destruct (nth_error progs i) as [prog |] eqn:E; [| discriminate].
    inversion Hi; subst ps. rewrite Forall_forall in Hok. pose proof (Hok prog (nth_error_In _ _ E)) as Hp.
    unfold log. cbn [g_ring g_cons]. rewrite Hd. cbn [map app].
    (* the prelude's slots belong to nobody *)
    assert (P0 : of_owner (Z.of_nat (S i)) (pending R) = []).
    { unfold pending, of_owner. pose proof (chain_good _ _ _ _ (wf_chain _ W)) as G.
      induction G as [| s sl Gs G IH]; cbn [filter map]; [reflexivity |].
      destruct (is_rec s); cbn [map filter]; [| assumption].
      destruct Gs as (_ & _ & _ & _ & _ & _ & Go & _). unfold slot_tag at 1. cbn [fst]. rewrite Go.
      replace (0 =? Z.of_nat (S i)) with false by lia. assumption. }
    rewrite P0. unfold claimed, pstart.
    pose proof (enter_spec (r_cap R) (S (length prog)) (mkP PDone prog O [])) as H. cbn [p_prog p_k p_res] in H.
    specialize (H Hp ltac:(lia)). cbn zeta in H. destruct H as (_ & _ & C & errs & D1 & D2 & _).
    rewrite D1. cbn [app]. rewrite (ok_indices_errs errs D2).
    destruct C as [-> | (-> & _)]; reflexivity.
  - intros o k ty b Hin. rewrite Hd in Hin. inversion Hin. Qed.

(* ---- what the log invariant says ---- *)
Lemma ok_indices_range res k : Forall (fun x => Z.of_nat k <= x < Z.of_nat (k + length res)) (ok_indices res k).
Proof. revert k. induction res as [| r res IH]; intros k; cbn [ok_indices length]; [constructor |].
  apply Forall_app. split.
  - destruct r as [z | | | |]; try constructor. destruct z; constructor; [lia | constructor].
  - eapply Forall_impl; [| apply (IH (S k))]. cbn. intros a Ha. lia. Qed.

Lemma ok_indices_sorted res k : StronglySorted Z.lt (ok_indices res k).
Proof. revert k. induction res as [| r res IH]; intros k; cbn [ok_indices]; [constructor |].
  destruct r as [z | | | |]; cbn [app]; try apply IH. destruct z; cbn [app]; try apply IH.
  constructor; [apply IH |]. eapply Forall_impl; [| apply (ok_indices_range res (S k))]. cbn. intros a Ha. lia. Qed.

Lemma claimed_sorted ps : length (p_res ps) = p_k ps -> StronglySorted Z.lt (claimed ps).
Proof. intros Hl. unfold claimed. destruct (after_cas (p_pc ps)); [| rewrite app_nil_r; apply ok_indices_sorted].
  assert (G : forall l x, StronglySorted Z.lt l -> Forall (fun y => y < x) l -> StronglySorted Z.lt (l ++ [x])).
  { induction l as [| a l IH]; intros x S F; cbn [app]; [constructor; constructor |].
    inversion S; subst. inversion F; subst. constructor; [apply IH; assumption |].
    apply Forall_app. split; [assumption | constructor; [assumption | constructor]]. }
  apply G; [apply ok_indices_sorted |].
  eapply Forall_impl; [| apply (ok_indices_range (p_res ps) 0)]. cbn. intros a Ha. lia. Qed.

(* consumed ++ pending, restricted to one producer, is exactly the list of that producer's writes that
   obtained space, in program order: nothing lost, nothing duplicated, order preserved *)
Lemma log_linear cfg i ps : LogInv cfg -> nth_error (g_prods cfg) i = Some ps ->
  of_owner (Z.of_nat (S i)) (log cfg) = map (fun k => (Z.of_nat (S i), k)) (claimed ps) /\
  StronglySorted Z.lt (claimed ps) /\ NoDup (of_owner (Z.of_nat (S i)) (log cfg)).
Proof. intros HL Hi. pose proof (l_own _ HL i ps Hi) as E. pose proof (claimed_sorted ps (l_len _ HL i ps Hi)) as S.
  split; [assumption |]. split; [assumption |]. rewrite E.
  assert (ND : NoDup (claimed ps)).
  { clear E. induction S as [| a l S IH F]; constructor; [| assumption].
    intro Hin. rewrite Forall_forall in F. specialize (F a Hin). lia. }
  apply FinFun.Injective_map_NoDup; [| assumption]. intros x y Hxy. inversion Hxy. reflexivity. Qed.
