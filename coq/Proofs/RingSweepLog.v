(* C07_after for the ghost log: the configuration that describes the memory after a successful unblock (swept
   claims = one padding slot, their owners out of the game) satisfies the log invariant of Proofs/RingLog.v again.
   The in-flight write of every retired producer leaves the log together with its slot; everything else -
   what was delivered, the pending records of all other writes, their order - is unchanged.  Hence C06_conc and
   C06_conc_intact hold for every configuration reachable from there. *)
Require Import V.Base.MachineInt.
Require Import V.Generated.GenConsts.
Require Import V.Model.LogBase.
Require Import V.Model.Ring.
Require Import V.Model.RingThreads.
Require Import V.Spec.Fifo.
Require Import V.Proofs.RingArith.
Require Import V.Proofs.RingSeq.
Require Import V.Proofs.RingRender.
Require Import V.Proofs.RingSeqRun.
Require Import V.Proofs.RingConc.
Require Import V.Proofs.RingConcThm.
Require Import V.Proofs.RingLog.
Require Import V.Proofs.RingUnblock.
Require Import V.Proofs.RingSweep.
From Coq Require Import ZifyBool Lia.
Open Scope Z_scope.

Definition tags_of (sl : list slot) : list ltag := map slot_tag (filter is_rec sl).

Lemma tags_of_app a b : tags_of (a ++ b) = tags_of a ++ tags_of b.
Proof. unfold tags_of. rewrite filter_app, map_app. reflexivity. Qed.

Lemma all_eq_nodup {A} (x : A) (l : list A) : NoDup l -> (forall y, In y l -> y = x) -> l <> [] -> l = [x].
Proof. intros ND Hall Hne. destruct l as [| a l]; [congruence |]. rewrite (Hall a (or_introl eq_refl)) in *.
  destruct l as [| b l]; [reflexivity |]. exfalso. inversion ND as [| ? ? Hni _]; subst. apply Hni.
  rewrite (Hall b (or_intror (or_introl eq_refl))). left. reflexivity. Qed.

Lemma nodup_tail_last {A} (a b c m : list A) (x : A) : NoDup (a ++ b ++ c) -> In x b -> a ++ b ++ c = m ++ [x] -> c = [].
Proof. intros ND Hx E. destruct c as [| y c] using rev_ind; [reflexivity |]. exfalso.
  assert (E' : (a ++ b ++ c) ++ [y] = m ++ [x]) by (rewrite <- E, <- !app_assoc; reflexivity).
  apply app_inj_tail in E'. destruct E' as (_ & ->).
  assert (ND' : NoDup ((a ++ b ++ c) ++ x :: [])) by (rewrite <- !app_assoc; exact ND).
  apply NoDup_remove_2 in ND'. apply ND'. rewrite app_nil_r.
  apply in_or_app. right. apply in_or_app. left. exact Hx. Qed.

Lemma nodup_app_r {A} (a b : list A) : NoDup (a ++ b) -> NoDup b.
Proof. induction a as [| x a IH]; cbn [app]; [auto |]. intros H. inversion H; subst. apply IH. assumption. Qed.

Lemma no_owner_tags o sw : existsb (fun s => s_owner s =? o) sw = false -> of_owner o (tags_of sw) = [].
Proof. unfold of_owner, tags_of. induction sw as [| z sw IH]; intros H; [reflexivity |]. cbn [existsb] in H.
  apply Bool.orb_false_iff in H. destruct H as (O1 & O2). cbn [filter].
  destruct (is_rec z); cbn [map filter]; [| exact (IH O2)]. unfold slot_tag at 1. cbn [fst]. rewrite O1. exact (IH O2). Qed.

Section SweepLog.
Variable lo : Z.

Lemma retire_keeps swept prods j ps' : nth_error (retire swept prods) j = Some ps' ->
  exists ps, nth_error prods j = Some ps /\ p_prog ps' = p_prog ps /\ p_k ps' = p_k ps /\ p_res ps' = p_res ps /\
    ps' = (if owned_by j swept then set_pc ps PDone else ps).
Proof. rewrite nth_retire. destruct (nth_error prods j) as [ps |]; [| discriminate]. cbn [option_map]. intros H. inversion H; subst.
  exists ps. split; [reflexivity |]. destruct (owned_by j swept); auto. Qed.

Theorem loginv_sweep R cs prods swept suffix pad :
  LogInv (mkCfg R cs prods) -> Inv lo (mkCfg R cs prods) ->
  r_slots R = swept ++ suffix -> Forall (fun s => s_len s <= 0) swept -> s_seq pad = -1 ->
  Inv lo (mkCfg (set_slots R (pad :: suffix)) cs (retire swept prods)) ->
  LogInv (mkCfg (set_slots R (pad :: suffix)) cs (retire swept prods)).
Proof.
  intros HL HI Es Hsw Hpad HI'. pose proof HL as [Ll Lo Li]. cbn [g_ring g_cons g_prods] in *.
  assert (Elog : log (mkCfg R cs prods) = map tag2 (delivered cs) ++ tags_of swept ++ tags_of suffix).
  { unfold log, pending. cbn [g_ring g_cons]. rewrite Es. fold (tags_of (swept ++ suffix)). rewrite tags_of_app. reflexivity. }
  assert (Elog' : log (mkCfg (set_slots R (pad :: suffix)) cs (retire swept prods)) = map tag2 (delivered cs) ++ tags_of suffix).
  { unfold log, pending. cbn [g_ring g_cons set_slots r_slots filter]. unfold is_rec at 1. rewrite Hpad. cbn [Z.leb Z.compare]. reflexivity. }
  (* every swept slot is in flight *)
  assert (OWN : forall y, In y swept -> exists j ps, nth_error prods j = Some ps /\ In y (expect (Z.of_nat (S j)) ps) /\ s_owner y = Z.of_nat (S j)).
  { intros y Hy. pose proof (i_slots _ _ HI) as Isl. cbn [g_ring g_prods] in Isl. rewrite Forall_forall in Isl, Hsw.
    destruct (Isl y ltac:(rewrite Es; apply in_or_app; left; exact Hy)) as [C | (j & ps & Hj & Hin)].
    - pose proof (committed_len _ _ _ C). specialize (Hsw y Hy). lia.
    - exists j, ps. split; [exact Hj |]. split; [exact Hin |]. apply (expect_owner _ _ _ Hin). }
  constructor; cbn [g_ring g_cons g_prods].
  - intros j ps' Hj. destruct (retire_keeps _ _ _ _ Hj) as (ps & Hps & _ & Ek & Er & _). rewrite Ek, Er. eapply Ll; exact Hps.
  - intros j ps' Hj. destruct (retire_keeps _ _ _ _ Hj) as (ps & Hps & Ep & Ek & Er & Eps').
    rewrite Elog'. rewrite of_owner_app.
    pose proof (Lo j ps Hps) as Lj. rewrite Elog in Lj. rewrite !of_owner_app in Lj.
    destruct (owned_by j swept) eqn:Ow.
    + (* a retired producer: its write in flight leaves the log *)
      subst ps'. unfold owned_by in Ow. apply existsb_exists in Ow. destruct Ow as (y & Hy & Oy).
      destruct (OWN y Hy) as (j' & q & Hj' & Hin & Oy'). assert (j' = j) by lia. subst j'. rewrite Hps in Hj'. inversion Hj'; subst q.
      assert (Hac : after_cas (p_pc ps) = true).
      { unfold expect in Hin. destruct (nth_error (p_prog ps) (p_k ps)) as [[ty bd] |]; [| inversion Hin]. destruct (p_pc ps); try (inversion Hin; fail); reflexivity. }
      unfold claimed in Lj |- *. rewrite Hac in Lj. cbn [set_pc p_res p_pc p_k after_cas]. rewrite app_nil_r. rewrite map_app in Lj. cbn [map] in Lj.
      set (x := (Z.of_nat (S j), Z.of_nat (p_k ps))) in *.
      (* the record piece of the write in flight is among the swept slots *)
      assert (Hrec : exists r, In r (expect (Z.of_nat (S j)) ps) /\ is_rec r = true /\ slot_tag r = x).
      { unfold expect in *. destruct (nth_error (p_prog ps) (p_k ps)) as [[ty bd] |]; [| inversion Hin].
        destruct (p_pc ps) as [| | | | | | | | | tl pd | p | p | p]; try (inversion Hin; fail).
        - exists (mkSlot (tl + pd) (rq_of bd) 0 0 [] (Z.of_nat (S j)) (Z.of_nat (p_k ps))).
          split; [right; left; reflexivity |]. split; [unfold is_rec; cbn [s_seq]; lia | reflexivity].
        - exists (mkSlot p (rq_of bd) 0 0 [] (Z.of_nat (S j)) (Z.of_nat (p_k ps))).
          split; [left; reflexivity |]. split; [unfold is_rec; cbn [s_seq]; lia | reflexivity].
        - exists (mkSlot p (rq_of bd) (- rl_of bd) ty [] (Z.of_nat (S j)) (Z.of_nat (p_k ps))).
          split; [left; reflexivity |]. split; [unfold is_rec; cbn [s_seq]; lia | reflexivity].
        - exists (mkSlot p (rq_of bd) (- rl_of bd) ty bd (Z.of_nat (S j)) (Z.of_nat (p_k ps))).
          split; [left; reflexivity |]. split; [unfold is_rec; cbn [s_seq]; lia | reflexivity]. }
      destruct Hrec as (r & Hr & Hrr & Hrt).
      assert (Hr_sw : In r swept).
      { destruct (i_prods _ _ HI j ps Hps) as (_ & _ & Pex). cbn [g_ring] in Pex. pose proof (Pex r Hr) as Hrs. rewrite Es in Hrs.
        apply in_app_or in Hrs. destruct Hrs as [H | H]; [exact H |]. exfalso.
        (* in the new configuration the slot would have to be in flight, but its owner is retired *)
        pose proof (i_slots _ _ HI') as Isl'. cbn [g_ring g_prods set_slots r_slots] in Isl'. rewrite Forall_forall in Isl'.
        destruct (Isl' r (or_intror H)) as [C | (j2 & q2 & Hj2 & Hin2)].
        - pose proof (committed_len _ _ _ C). destruct (expect_owner _ _ _ Hr). lia.
        - destruct (expect_owner _ _ _ Hr) as (O1 & _). destruct (expect_owner _ _ _ Hin2) as (O2 & _). assert (j2 = j) by lia. subst j2.
          rewrite nth_retire, Hps in Hj2. cbn [option_map] in Hj2.
          assert (Ow2 : owned_by j swept = true) by (unfold owned_by; apply existsb_exists; exists y; split; [exact Hy | exact Oy]).
          rewrite Ow2 in Hj2. inversion Hj2; subst q2. rewrite expect_set_pc_nil in Hin2 by exact I. inversion Hin2. }
      assert (Hx_in : In x (of_owner (Z.of_nat (S j)) (tags_of swept))).
      { unfold of_owner. apply filter_In. split; [| unfold x; cbn [fst]; lia].
        unfold tags_of. rewrite <- Hrt. apply in_map. apply filter_In. split; assumption. }
      pose proof (log_linear _ j ps HL Hps) as (_ & _ & ND). cbn [g_prods] in ND. rewrite Elog in ND. rewrite !of_owner_app in ND.
      pose proof (nodup_tail_last _ _ _ _ _ ND Hx_in Lj) as Hc. rewrite Hc. rewrite app_nil_r.
      (* every tag of this owner among the swept slots is that record piece *)
      assert (Hall : forall t, In t (of_owner (Z.of_nat (S j)) (tags_of swept)) -> t = x).
      { intros t Ht. unfold of_owner in Ht. apply filter_In in Ht. destruct Ht as (Ht & Eo). unfold tags_of in Ht.
        apply in_map_iff in Ht. destruct Ht as (z & <- & Hz). apply filter_In in Hz. destruct Hz as (Hz & Hzr).
        destruct (OWN z Hz) as (j3 & q3 & Hj3 & Hin3 & Oz). unfold slot_tag in Eo. cbn [fst] in Eo. assert (j3 = j) by lia. subst j3.
        rewrite Hps in Hj3. inversion Hj3; subst q3.
        unfold expect in Hin3. destruct (nth_error (p_prog ps) (p_k ps)) as [[ty bd] |]; [| inversion Hin3].
        unfold is_rec in Hzr.
        destruct (p_pc ps); try (inversion Hin3; fail); cbn [In] in Hin3;
          repeat destruct Hin3 as [Hin3 | Hin3]; try contradiction; subst z; cbn [s_seq] in Hzr; try lia; reflexivity. }
      rewrite Hc, app_nil_r in ND. apply nodup_app_r in ND.
      rewrite Hc, app_nil_r in Lj.
      rewrite (all_eq_nodup x _ ND Hall ltac:(intro E; rewrite E in Hx_in; inversion Hx_in)) in Lj.
      apply app_inj_tail in Lj. destruct Lj as (Lj & _). exact Lj.
    + (* everybody else: no slot of theirs was swept *)
      subst ps'. assert (E0 : of_owner (Z.of_nat (S j)) (tags_of swept) = []) by (apply no_owner_tags; exact Ow).
      rewrite E0 in Lj. cbn [app] in Lj. exact Lj.
  - intros o k ty b Hin. destruct (Li o k ty b Hin) as [-> | (i & ps & A & B & C & D)]; [left; reflexivity |].
    right. exists i, (if owned_by i swept then set_pc ps PDone else ps). rewrite nth_retire, B. cbn [option_map].
    split; [exact A |]. split; [reflexivity |]. split; [exact C |]. destruct (owned_by i swept); exact D.
Qed.

Theorem after_unblock_log cfg : Inv lo cfg -> LogInv cfg -> cons_idle (g_cons cfg) ->
  let R := g_ring cfg in
  snd (unblock R) = true ->
  exists swept suffix pad,
    r_slots R = swept ++ suffix /\ swept <> [] /\ Forall (fun s => s_len s <= 0) swept /\
    s_type pad = PAD /\ s_pos pad = r_head R /\ s_span pad = span_sum swept /\
    let cfg' := mkCfg (set_slots R (pad :: suffix)) (g_cons cfg) (retire swept (g_prods cfg)) in
    Inv lo cfg' /\ LogInv cfg' /\ render (g_ring cfg') = render (fst (unblock R)) /\
    (* nothing but the swept writes in flight left the log *)
    log cfg' = map tag2 (delivered (g_cons cfg)) ++ tags_of suffix /\
    log cfg = map tag2 (delivered (g_cons cfg)) ++ tags_of swept ++ tags_of suffix.
Proof.
  intros HI HL Hid. cbn zeta. intros Hu.
  destruct (unblock_spec lo cfg HI Hid) as (_ & _ & _ & U4).
  destruct (U4 Hu) as (s1 & rest & L & Es & Hneg & ER1 & HL0 & Hfit & Hend & Hb & Hblank & Hnegl & Hstrict). clear U4.
  destruct (after_pad lo cfg s1 rest L HI (idle_head' _ _ Hid) Hid) as (swept & suffix & pad & A & B & C & D1 & D2 & D3 & D4 & HI' & Er).
  { unfold pad_facts. repeat split; assumption. }
  assert (C' : Forall (fun s => s_len s <= 0) swept) by (eapply Forall_impl; [| exact C]; cbn; intros a (Ha & _); exact Ha).
  destruct cfg as [R cs prods]. cbn [g_ring g_cons g_prods] in *.
  exists swept, suffix, pad. split; [exact A |]. split; [exact B |]. split; [exact C' |].
  split; [exact D1 |]. split; [exact D2 |]. split; [exact D3 |]. cbn zeta.
  split; [exact HI' |]. split; [exact (loginv_sweep R cs prods swept suffix pad HL HI A C' D4 HI') |].
  split; [rewrite ER1; exact Er |]. split.
  - unfold log, pending. cbn [g_ring g_cons set_slots r_slots filter]. unfold is_rec at 1. rewrite D4. reflexivity.
  - unfold log, pending. cbn [g_ring g_cons]. rewrite A. fold (tags_of (swept ++ suffix)). rewrite tags_of_app. reflexivity.
Qed.
End SweepLog.
