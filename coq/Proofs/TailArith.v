(* Arithmetic of raw tails (term id in the high word, offset in the low word) as the thread-level
   invariants need it: a raw tail of generation g (= term count at which its term is active) and
   offset o, decoding, fetch-add without carry, rotation values, injectivity of term ids. *)
Require Import V.Base.MachineInt.
Require Import V.Generated.GenConsts.
Require Import V.Model.LogBase.
Require Import V.Model.Descriptor.
Require Import V.Proofs.DescriptorProofs.
Require Import V.Model.Sched.
Require Import V.Model.AppenderThreads.
From Coq Require Import ZifyBool.
Open Scope Z_scope.

Definition GB : Z := 1073741824.        (* 2^30: bound on the term counts the theorems cover *)

Definition tid_of (c : cfg) (g : Z) : Z := wrap32 (c_init c + g).
Definition mk_raw (c : cfg) (g o : Z) : Z := tid_of c g * two32 + o.
Definition gen_of (c : cfg) (raw : Z) : Z := wrap32 (term_id_of raw - c_init c).

Definition gen_ok (g : Z) : Prop := - 4 <= g <= GB + 4.

Lemma tid_of_range c g : in_i32 (tid_of c g) = true.
Proof. apply wrap32_range. Qed.

Lemma term_id_mk_raw c g o : 0 <= o < two32 -> term_id_of (mk_raw c g o) = tid_of c g.
Proof. intros. unfold mk_raw. apply (term_id_of_raw_off (tid_of c g) o); [apply tid_of_range | assumption]. Qed.

Lemma lo32u_mk_raw c g o : 0 <= o < two32 -> lo32u (mk_raw c g o) = o.
Proof. intros. unfold lo32u, mk_raw. rewrite Z.add_comm, Z_mod_plus_full. apply Z.mod_small. assumption. Qed.

Lemma gen_of_tid c g : gen_ok g -> wrap32 (tid_of c g - c_init c) = g.
Proof. intros H. unfold tid_of. rewrite wrap32_sub_wrap32. replace (c_init c + g - c_init c) with g by ring.
  apply wrap32_id. unfold gen_ok, GB in H. unfold in_i32, two31. lia. Qed.

Lemma gen_of_mk_raw c g o : gen_ok g -> 0 <= o < two32 -> gen_of c (mk_raw c g o) = g.
Proof. intros. unfold gen_of. rewrite term_id_mk_raw by assumption. apply gen_of_tid. assumption. Qed.

Lemma tid_of_inj c g g' : gen_ok g -> gen_ok g' -> tid_of c g = tid_of c g' -> g = g'.
Proof. intros H H' E. rewrite <- (gen_of_tid c g H), <- (gen_of_tid c g' H'). rewrite E. reflexivity. Qed.

Lemma mk_raw_inj c g o g' o' : gen_ok g -> gen_ok g' -> 0 <= o < two32 -> 0 <= o' < two32 ->
  mk_raw c g o = mk_raw c g' o' -> g = g' /\ o = o'.
Proof. intros Hg Hg' Ho Ho' E.
  assert (E1 : term_id_of (mk_raw c g o) = term_id_of (mk_raw c g' o')) by (rewrite E; reflexivity).
  rewrite !term_id_mk_raw in E1 by assumption.
  assert (E2 : lo32u (mk_raw c g o) = lo32u (mk_raw c g' o')) by (rewrite E; reflexivity).
  rewrite !lo32u_mk_raw in E2 by assumption. split; [eapply tid_of_inj; eauto | assumption]. Qed.

Lemma mk_raw_i64 c g o : 0 <= o < two32 -> in_i64 (mk_raw c g o) = true.
Proof. intros. pose proof (tid_of_range c g) as R. unfold mk_raw, in_i64, in_i32, two63, two32, two31 in *. lia. Qed.

(* get_and_add without carry into the term id *)
Lemma faa_mk_raw c g o d : 0 <= o -> 0 <= d -> o + d < two32 -> wrap64 (mk_raw c g o + d) = mk_raw c g (o + d).
Proof. intros. replace (mk_raw c g o + d) with (mk_raw c g (o + d)) by (unfold mk_raw; ring).
  apply wrap64_id. apply mk_raw_i64. lia. Qed.

Lemma tid_of_succ c g : wrap32 (tid_of c g + 1) = tid_of c (g + 1).
Proof. unfold tid_of. rewrite wrap32_add_wrap32. f_equal. ring. Qed.

Lemma tid_of_expected c g : wrap32 (tid_of c (g + 1) - PARTITION_COUNT) = tid_of c (g - 2).
Proof. unfold tid_of, PARTITION_COUNT, GenConsts.PARTITION_COUNT. rewrite wrap32_sub_wrap32. f_equal. ring. Qed.

Lemma raw_tail_of_term_mk c g : raw_tail_of_term (tid_of c g) = mk_raw c g 0.
Proof. unfold raw_tail_of_term, mk_raw. ring. Qed.

Lemma idx_count n : 0 <= n < two31 -> index_by_term_count n = n mod 3.
Proof. intros. unfold index_by_term_count, PARTITION_COUNT, GenConsts.PARTITION_COUNT. rewrite rem3_nonneg by lia.
  apply wrap32_id. assert (0 <= n mod 3 < 3) by (apply Z.mod_pos_bound; lia). unfold in_i32, two31 in *. lia. Qed.

Lemma begin_pos c g : in_i32 (c_init c) = true -> 0 <= g < two31 -> 0 <= c_bits c <= 31 ->
  compute_term_begin_position (tid_of c g) (c_bits c) (c_init c) = g * TL c.
Proof. intros. unfold tid_of, TL. rewrite compute_term_begin_position_spec by assumption. unfold spec_position. ring. Qed.

Lemma mod3_cases n : n mod 3 = 0 \/ n mod 3 = 1 \/ n mod 3 = 2.
Proof. pose proof (Z.mod_pos_bound n 3 ltac:(lia)). lia. Qed.

Lemma mod3_succ_ne n : (n + 1) mod 3 <> n mod 3.
Proof. intro. pose proof (Z.div_mod n 3 ltac:(lia)). pose proof (Z.div_mod (n+1) 3 ltac:(lia)).
  pose proof (Z.mod_pos_bound n 3 ltac:(lia)). lia. Qed.
Lemma mod3_succ2_ne n : (n + 2) mod 3 <> n mod 3.
Proof. intro. pose proof (Z.div_mod n 3 ltac:(lia)). pose proof (Z.div_mod (n+2) 3 ltac:(lia)).
  pose proof (Z.mod_pos_bound n 3 ltac:(lia)). lia. Qed.
Lemma mod3_succ12_ne n : (n + 1) mod 3 <> (n + 2) mod 3.
Proof. intro. pose proof (Z.div_mod (n+1) 3 ltac:(lia)). pose proof (Z.div_mod (n+2) 3 ltac:(lia)).
  pose proof (Z.mod_pos_bound (n+1) 3 ltac:(lia)). pose proof (Z.mod_pos_bound (n+2) 3 ltac:(lia)). lia. Qed.
Lemma mod3_eq_diff a b : a mod 3 = b mod 3 -> -3 < a - b < 3 -> a = b.
Proof. intros. pose proof (Z.div_mod a 3 ltac:(lia)). pose proof (Z.div_mod b 3 ltac:(lia)). lia. Qed.
Lemma mod3_shift n k : (n + 3 * k) mod 3 = n mod 3.
Proof. rewrite Z.mul_comm. apply Z_mod_plus_full. Qed.
