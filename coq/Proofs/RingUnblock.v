(* C07: what unblock() does on any configuration reachable with producers stopped at arbitrary
   points (a dead producer is a thread that is never scheduled again, so the invariant of
   Proofs/RingConc.v holds unchanged), the consumer being between two reads. *)
Require Import V.Base.MachineInt.
Require Import V.Generated.GenConsts.
Require Import V.Model.LogBase.
Require Import V.Model.Ring.
Require Import V.Model.RingThreads.
Require Import V.Spec.Fifo.
Require Import V.Proofs.RingArith.
Require Import V.Proofs.RingSeq.
Require Import V.Proofs.RingRender.
Require Import V.Proofs.RingSeqRun.
Require Import V.Proofs.RingConc.
Require Import V.Proofs.RingConcThm.
From Coq Require Import ZifyBool Lia.
Open Scope Z_scope.

(* ---- the forward scan ---- *)
Lemma scan_fwd_some bf ws limit ci : forall fuel i0 i,
  scan_fwd bf fuel ws i0 limit ci = Some i ->
  i0 <= i /\ (i - i0) mod 8 = 0 /\ word_at ws i <> 0 /\
  (forall k, i0 <= k < i -> (k - i0) mod 8 = 0 -> word_at ws k = 0) /\
  (i = i0 \/ i < limit).
Proof. induction fuel as [| f IH]; intros i0 i H; cbn [scan_fwd] in H; [discriminate |].
  destruct (word_at ws i0 =? 0) eqn:Z0.
  - rewrite AL_eq in H. destruct (i0 + 8 >=? limit) eqn:L; [discriminate |].
    destruct (IH _ _ H) as (A & B & C & D & E).
    split; [lia |]. split.
    { replace (i - i0) with ((i - (i0 + 8)) + 1 * 8) by lia. rewrite Z_mod_plus_full. assumption. }
    split; [exact C |]. split; [| right; lia].
    intros k Hk Hm. destruct (Z.eq_dec k i0) as [-> | Hne]; [lia |].
    assert (i0 + 8 <= k).
    { pose proof (Z.div_mod (k - i0) 8 ltac:(lia)). lia. }
    apply D; [lia |]. replace (k - (i0 + 8)) with ((k - i0) + (-1) * 8) by lia. rewrite Z_mod_plus_full. assumption.
  - destruct (scan_back bf ws (i0 - AL) ci); [| discriminate]. inversion H; subst i.
    split; [lia |]. split; [rewrite Z.sub_diag; reflexivity |]. split; [lia |]. split; [intros k Hk; lia | left; reflexivity]. Qed.

(* ---- memory words of a configuration ---- *)
Definition blank (s : slot) : Prop := s_len s = 0 /\ s_type s = 0 /\ s_body s = [].

Lemma slot_state lo cfg s : Inv lo cfg -> In s (r_slots (g_ring cfg)) ->
  0 < s_len s \/ (s_len s < 0 /\ s_span s = align (- s_len s) 8) \/ blank s.
Proof. intros HI Hs. pose proof (i_slots _ _ HI) as F. rewrite Forall_forall in F.
  destruct (F s Hs) as [C | (i & ps & Hi & Hin)].
  - left. eapply committed_len; eassumption.
  - right. unfold expect in Hin. destruct (nth_error (p_prog ps) (p_k ps)) as [[typ body] |]; [| inversion Hin].
    destruct (p_pc ps); cbn [In] in Hin; try contradiction;
      repeat destruct Hin as [Hin | Hin]; try contradiction; subst s; unfold blank, rl_of; cbn [s_len s_type s_body];
      try (right; repeat split; reflexivity); left; (split; [lia |]); cbn [s_span]; unfold rq_of, rl_of; f_equal; lia. Qed.

Section Words.
Variables (lo : Z) (cfg : config).
Hypothesis HI : Inv lo cfg.
Hypothesis Hidle : head' (g_ring cfg) (g_cons cfg) = r_head (g_ring cfg).
Let R := g_ring cfg.

Lemma trailer_clear' i : i < r_cap R -> no_off (render_trailer R) i.
Proof. apply trailer_clear. Qed.

Lemma tiledR : tiled (r_cap R) (r_head R) (r_tail R) (r_slots R).
Proof. pose proof (i_tiled _ _ HI) as T. fold R in T. unfold R in *. rewrite Hidle in T. exact T. Qed.

Lemma word_len pre s suf : r_slots R = pre ++ s :: suf -> word_at (render R) (s_pos s mod r_cap R) = s_len s.
Proof. intros E. pose proof tiledR as T. rewrite E in T. unfold render. rewrite E.
  apply (word_at_len (r_cap R) (r_head R) (r_tail R) pre suf s (render_trailer R) (i_cap _ _ HI) T (i_size _ _ HI) trailer_clear'). Qed.

Lemma word_blank pre s suf i : r_slots R = pre ++ s :: suf -> blank s ->
  s_pos s mod r_cap R <= i < s_pos s mod r_cap R + s_span s -> word_at (render R) i = 0.
Proof. intros E (B1 & B2 & B3) Hi. pose proof tiledR as T. rewrite E in T. unfold render. rewrite E.
  apply (word_at_blank (r_cap R) (r_head R) (r_tail R) pre suf s (render_trailer R) (i_cap _ _ HI) T (i_size _ _ HI) trailer_clear'); assumption. Qed.

Lemma word_outside i : 0 <= i -> i < r_cap R + TAIL_OFF ->
  (forall s, In s (r_slots R) -> ~ (s_pos s mod r_cap R <= i < s_pos s mod r_cap R + s_span s)) ->
  word_at (render R) i = 0.
Proof. intros H0 Hi Hout. unfold render. eapply word_at_outside; [apply (i_cap _ _ HI) | apply tiledR | assumption |].
  apply trailer_no_off. assumption. Qed.
End Words.

Lemma in_split_slot (sl : list slot) s : In s sl -> exists pre suf, sl = pre ++ s :: suf.
Proof. apply in_split. Qed.

(* a position inside the tiling belongs to one of its slots *)
Lemma tiled_cover cp h t sl p : tiled cp h t sl -> h <= p < t -> exists s, In s sl /\ s_pos s <= p < s_pos s + s_span s.
Proof. induction 1 as [| h t s sl Hp G T IH]; intros Hr; [lia |].
  destruct (Z_lt_dec p (h + s_span s)).
  - exists s. split; [left; reflexivity | lia].
  - destruct (IH ltac:(lia)) as (x & A & B). exists x. split; [right; assumption | assumption]. Qed.

Definition cons_idle (cs : cstate) : Prop := c_pc cs = CReadHead \/ c_pc cs = CDone.

Lemma idle_head' R cs : cons_idle cs -> head' R cs = r_head R.
Proof. intros [E | E]; unfold head'; rewrite E; reflexivity. Qed.

Theorem unblock_spec lo cfg : Inv lo cfg -> cons_idle (g_cons cfg) ->
  let R := g_ring cfg in
  (snd (unblock R) = false -> fst (unblock R) = R) /\
  (r_head R = r_tail R -> snd (unblock R) = false) /\
  (forall s rest, r_slots R = s :: rest -> 0 < s_len s -> snd (unblock R) = false) /\
  (snd (unblock R) = true ->
     exists s1 rest L, r_slots R = s1 :: rest /\ s_len s1 <= 0 /\
       fst (unblock R) = set_slots R (set_hdr L PAD s1 :: rest) /\
       0 < L /\ r_head R mod r_cap R + align L 8 <= r_cap R /\
       r_head R + align L 8 <= r_tail R /\
       (r_head R + align L 8 = r_tail R \/ exists s, In s rest /\ s_pos s = r_head R + align L 8) /\
       (* everything else the padding covers was claimed and never written *)
       (forall x, In x rest -> s_pos x < r_head R + align L 8 -> s_len x = 0) /\
       (s_len s1 < 0 -> L = - s_len s1) /\
       (s_len s1 = 0 -> r_head R mod r_cap R + align L 8 < r_cap R)).
Proof.
  intros HI Hid. cbn zeta. set (R := g_ring cfg).
  pose proof (idle_head' R _ Hid) as Hh'. fold R in Hh'.
  pose proof (i_cap _ _ HI) as Hc. fold R in Hc. pose proof (cap_ok_range _ Hc) as Hcr.
  pose proof (tiledR lo cfg HI Hh') as T. fold R in T.
  pose proof (i_size _ _ HI) as Hsz. fold R in Hsz.
  pose proof (mod_range (r_cap R) (r_head R) Hc) as Hci.
  unfold unblock, unblock_lim.
  destruct (r_tail R =? r_head R) eqn:E0.
  { cbn [fst snd]. repeat split; auto; try discriminate. }
  assert (Hlt : r_head R < r_tail R) by (pose proof (tiled_le _ _ _ _ T); lia).
  destruct (r_slots R) as [| s1 rest] eqn:Es.
  { inversion T. lia. }
  inversion T as [| h0 t0 s0 sl0 Hp1 G1 T2]; subst h0 t0 s0 sl0.
  rewrite mask_idx_mod by assumption. rewrite mask_idx_mod by assumption.
  assert (Hw1 : word_at (render R) (r_head R mod r_cap R) = s_len s1).
  { rewrite <- Hp1. apply (word_len lo cfg HI Hh' [] s1 rest). exact Es. }
  rewrite Hw1.
  pose proof G1 as (_ & G18 & G1s & G1s8 & G1str & _). rewrite Hp1 in G1str.
  pose proof (tiled_le _ _ _ _ T2) as Hle2.
  assert (Hnext : r_head R + s_span s1 = r_tail R \/ exists s, In s rest /\ s_pos s = r_head R + s_span s1).
  { destruct rest as [| s2 rest2]; [left; inversion T2; lia |]. right. exists s2. split; [left; reflexivity |].
    inversion T2; subst. lia. }
  assert (Hput : forall L, put_hdr (s1 :: rest) (r_head R) L PAD = set_hdr L PAD s1 :: rest).
  { intros L. unfold put_hdr. cbn [upd_slot]. replace (s_pos s1 =? r_head R) with true by lia. reflexivity. }
  destruct (slot_state lo cfg s1 HI ltac:(fold R; rewrite Es; left; reflexivity)) as [Pos | [(Neg & Nsp) | Bl]].
  - (* committed head record *)
    replace (s_len s1 <? 0) with false by lia. replace (s_len s1 =? 0) with false by lia. cbn [fst snd].
    repeat split; auto; try discriminate; try lia.
  - (* a header with a negative length: the producer died during or after the copy *)
    replace (s_len s1 <? 0) with true by lia. cbn [fst snd].
    assert (Hr : - s_len s1 <= s_span s1) by (rewrite Nsp; apply align8_bounds).
    rewrite wrap32_id by (apply in_i32_small; unfold two31, two30 in *; lia).
    rewrite Hput.
    split; [discriminate |]. split; [lia |]. split; [intros s rest0 Eq Hs; inversion Eq; subst; lia |].
    intros _. exists s1, rest, (- s_len s1). rewrite <- Nsp.
    split; [reflexivity |]. split; [lia |]. split; [reflexivity |]. split; [lia |]. split; [lia |]. split; [lia |].
    split; [exact Hnext |]. split; [| split; [reflexivity | lia]].
    intros x Hx Hxp. pose proof (tiled_range _ _ _ _ T2) as Rg2. rewrite Forall_forall in Rg2.
    destruct (Rg2 x Hx). lia.
  - (* nothing written at the consumer index: scan forward *)
    destruct Bl as (B1 & B2 & B3). rewrite B1. cbn [Z.ltb Z.eqb Z.compare].
    set (limit := if r_tail R mod r_cap R >? r_head R mod r_cap R then r_tail R mod r_cap R else r_cap R).
    destruct (scan_fwd _ _ (render R) (r_head R mod r_cap R + AL) limit (r_head R mod r_cap R)) as [i |] eqn:Sc; cbn [fst snd].
    2: { repeat split; auto; try discriminate; try lia. }
    rewrite Hput.
    split; [discriminate |]. split; [lia |]. split; [intros s rest0 Eq Hs; inversion Eq; subst; lia |].
    intros _.
    rewrite AL_eq in Sc. destruct (scan_fwd_some _ _ _ _ _ _ _ Sc) as (Si0 & Sim & Snz & Sz & Slim).
    set (ci := r_head R mod r_cap R) in *.
    pose proof (mod_range (r_cap R) (r_tail R) Hc) as Hpi.
    assert (Hci8 : ci mod 8 = 0) by (apply idx_mod8; [assumption | apply (i_h8 _ _ HI)]).
    assert (Hi8 : i mod 8 = 0).
    { replace i with ((i - (ci + 8)) + (ci + 8)) by lia. rewrite Z.add_mod by lia. rewrite Sim.
      rewrite (Z.add_mod ci 8) by lia. rewrite Hci8. reflexivity. }
    (* the hit lies in the data area *)
    assert (Hicp : i < r_cap R).
    { destruct (Z_lt_dec i (r_cap R)) as [Y | N]; [assumption |]. exfalso.
      assert (i = r_cap R).
      { destruct Slim as [-> | Sl]; [| unfold limit in Sl; destruct (r_tail R mod r_cap R >? ci); lia].
        pose proof (cap_ok_mod8 _ Hc). pose proof (Z.div_mod (r_cap R) 8 ltac:(lia)). pose proof (Z.div_mod ci 8 ltac:(lia)). lia. }
      subst i. apply Snz. apply (word_outside lo cfg HI Hh'); fold R; [lia | unfold TAIL_OFF, GenConsts.RB_TAIL_POSITION_OFFSET; lia |].
      intros s Hs Hr. pose proof (tiled_range _ _ _ _ T) as Rg. rewrite Forall_forall in Rg.
      destruct (Rg s ltac:(rewrite <- Es; exact Hs)) as (_ & _ & (_ & _ & _ & _ & Gstr & _)). lia. }
    (* and before the producer position *)
    set (q := r_head R + (i - ci)).
    assert (Hq : r_head R + 8 <= q < r_tail R).
    { split; [unfold q; lia |]. unfold q.
      assert (Hc0 : 0 < r_cap R) by lia.
      destruct (Z.eq_dec (r_tail R) (r_head R + r_cap R)) as [Efull | Nfull].
      - lia.
      - destruct (mod_window (r_cap R) (r_head R) (r_tail R) Hc0 ltac:(lia)) as [(Em & Lm) | (Em & Lm)]; fold ci in Em, Lm.
        + (* the tail has not wrapped: the limit is the producer index *)
          assert (limit = r_tail R mod r_cap R) by (unfold limit; replace (r_tail R mod r_cap R >? ci) with true by lia; reflexivity).
          destruct Slim as [Ei | Sl]; [| lia].
          destruct (Z_lt_dec i (r_tail R mod r_cap R)) as [Y | N]; [lia |]. exfalso.
          assert (Ht8 : (r_tail R mod r_cap R) mod 8 = 0) by (apply idx_mod8; [assumption | apply (i_t8 _ _ HI)]).
          assert (i = r_tail R mod r_cap R).
          { pose proof (Z.div_mod (r_tail R mod r_cap R) 8 ltac:(lia)). pose proof (Z.div_mod ci 8 ltac:(lia)). lia. }
          apply Snz. apply (word_outside lo cfg HI Hh'); fold R; [lia | unfold TAIL_OFF, GenConsts.RB_TAIL_POSITION_OFFSET; lia |].
          intros s Hs Hr. pose proof (tiled_range _ _ _ _ T) as Rg. rewrite Forall_forall in Rg.
          destruct (Rg s ltac:(rewrite <- Es; exact Hs)) as (A1 & A2 & (_ & _ & A3 & _ & Gstr & _)).
          (* the index of the tail position is not inside any slot *)
          assert (s_pos s mod r_cap R + (r_tail R mod r_cap R - s_pos s mod r_cap R) <> ci + (r_tail R - r_head R)); [| lia].
          destruct (mod_window (r_cap R) (r_head R) (s_pos s) Hc0 ltac:(lia)) as [(Es1 & Ls1) | (Es1 & Ls1)]; fold ci in Es1, Ls1; lia.
        + lia. }
    (* the slot that contains the hit starts at the hit *)
    destruct (tiled_cover _ _ _ _ q T ltac:(lia)) as (s & Hs & Hsr).
    assert (Hidx : forall p, r_head R <= p -> p - r_head R + ci < r_cap R -> p mod r_cap R = ci + (p - r_head R)).
    { intros p Hp Hpr. replace p with (r_head R + (p - r_head R)) at 1 by lia. rewrite idx_inner; fold ci; lia. }
    pose proof (tiled_range _ _ _ _ T) as Rg. rewrite Forall_forall in Rg.
    destruct (Rg s Hs) as (As1 & As2 & Gs). pose proof Gs as (_ & Gs8 & Gss & _ & Gsstr & _).
    destruct (in_split_slot _ _ Hs) as (pre & suf & Esplit).
    assert (Espl : r_slots R = pre ++ s :: suf) by (rewrite Es; exact Esplit).
    assert (Hsidx : s_pos s mod r_cap R = ci + (s_pos s - r_head R)) by (apply Hidx; unfold q in *; lia).
    assert (Hsnb : ~ blank s).
    { intro Bs. apply Snz. apply (word_blank lo cfg HI Hh' pre s suf i Espl Bs). fold R. unfold q in *. lia. }
    assert (Hslen : s_len s <> 0).
    { destruct (slot_state lo cfg s HI ltac:(fold R; rewrite Es; exact Hs)) as [P | [(N & _) | B]]; [lia | lia | contradiction]. }
    assert (Hsq : s_pos s = q).
    { destruct (Z.eq_dec (s_pos s) q) as [Y | N]; [assumption |]. exfalso.
      destruct (Z.eq_dec (s_pos s) (r_head R)) as [Eh | Nh].
      - assert (s = s1) by (eapply tiled_pos_unique; [exact T | exact Hs | left; reflexivity | lia]).
        subst s. apply Hsnb. repeat split; assumption.
      - assert (Hp8 : (s_pos s - r_head R) mod 8 = 0).
        { pose proof (i_h8 _ _ HI) as Hh8. fold R in Hh8. rewrite Zminus_mod. rewrite Gs8, Hh8. reflexivity. }
        assert (r_head R + 8 <= s_pos s).
        { pose proof (Z.div_mod (s_pos s - r_head R) 8 ltac:(lia)). lia. }
        pose proof (word_len lo cfg HI Hh' pre s suf Espl) as Wl. fold R in Wl. rewrite Hsidx in Wl.
        rewrite (Sz (ci + (s_pos s - r_head R))) in Wl; [lia | unfold q in *; lia |].
        replace (ci + (s_pos s - r_head R) - (ci + 8)) with ((s_pos s - r_head R) + (-1) * 8) by lia.
        rewrite Z_mod_plus_full. assumption. }
    assert (HL8 : (i - ci) mod 8 = 0) by (rewrite Zminus_mod, Hi8, Hci8; reflexivity).
    exists s1, rest, (i - ci). rewrite (align8_id _ HL8).
    split; [reflexivity |]. split; [lia |]. split; [reflexivity |]. split; [lia |]. split; [lia |]. split; [unfold q in *; lia |].
    split.
    { right. exists s. split; [| exact Hsq]. destruct Hs as [<- | Hs]; [unfold q in *; lia | assumption]. }
    split; [| split; [lia | intros _; unfold q in *; lia]].
    (* the slots the padding covers are blank: their length word was probed and found zero *)
    intros x Hx Hxp.
    pose proof (tiled_range _ _ _ _ T2) as Rg2. rewrite Forall_forall in Rg2. destruct (Rg2 x Hx) as (X1 & X2 & Gx).
    pose proof Gx as (_ & Gx8 & _).
    destruct (in_split_slot _ _ (or_intror Hx : In x (s1 :: rest))) as (prex & sufx & Ex).
    assert (Exs : r_slots R = prex ++ x :: sufx) by (rewrite Es; exact Ex).
    assert (Hxidx : s_pos x mod r_cap R = ci + (s_pos x - r_head R)) by (apply Hidx; unfold q in *; lia).
    pose proof (word_len lo cfg HI Hh' prex x sufx Exs) as Wx. fold R in Wx. rewrite Hxidx in Wx.
    assert (Hxp8 : (s_pos x - r_head R) mod 8 = 0).
    { pose proof (i_h8 _ _ HI) as Hh8. fold R in Hh8. rewrite Zminus_mod. rewrite Gx8, Hh8. reflexivity. }
    rewrite (Sz (ci + (s_pos x - r_head R))) in Wx; [lia | unfold q in *; lia |].
    replace (ci + (s_pos x - r_head R) - (ci + 8)) with ((s_pos x - r_head R) + (-1) * 8) by lia.
    rewrite Z_mod_plus_full. assumption.
Qed.

(* ================================================================== the read after unblock *)
(* a slot the reader can meet: not committed (the loop stops there) or a well-formed record *)
Definition rd_ok (s : slot) : Prop :=
  s_len s <= 0 \/
  (0 < s_len s /\ s_span s = align (s_len s) 8 /\
   (s_type s = PAD \/ (valid_cmd (s_type s) = true /\ s_len s = Z.of_nat (length (s_body s)) + 8))).

Lemma inv_rd_ok lo cfg s : Inv lo cfg -> head' (g_ring cfg) (g_cons cfg) = r_head (g_ring cfg) ->
  In s (r_slots (g_ring cfg)) -> rd_ok s.
Proof. intros HI Hh Hs. pose proof (i_slots _ _ HI) as F. rewrite Forall_forall in F.
  pose proof (tiled_range _ _ _ _ (tiledR lo cfg HI Hh)) as Rg. rewrite Forall_forall in Rg.
  destruct (Rg s Hs) as (_ & _ & G).
  destruct (F s Hs) as [C | (i & ps & Hi & Hin)].
  - right. destruct (committed_shape _ _ _ G C) as (A & B & [(K & _) | (K1 & _ & K2)]); auto.
  - left. destruct (expect_owner _ _ _ Hin). assumption. Qed.

Lemma read_loop_mixed m cp hd t contiguous limit : cap_ok cp -> t - hd <= cp ->
  forall suf fuel pre bytes msgs,
    tiled cp (hd + bytes) t suf -> Forall rd_ok suf -> Forall (fun x => s_pos x + s_span x <= hd + bytes) pre ->
    (length suf < fuel)%nat -> 0 <= bytes -> 0 <= msgs -> msgs + Z.of_nat (length suf) <= two30 ->
    exists b n l, read_loop m fuel (pre ++ suf) hd contiguous limit bytes msgs = Ok (b, n, l) /\
                  bytes <= b /\ hd + b <= t /\
                  (* what was walked over is a prefix of the slots in front, all of them committed *)
                  exists used rest, suf = used ++ rest /\ span_sum used = b - bytes /\ Forall (fun s => 0 < s_len s) used.
Proof.
  intros Hcap Hsz. pose proof (cap_ok_range _ Hcap) as Hcr.
  induction suf as [| s r IH]; intros fuel pre bytes msgs T Hrd Hpre Hf Hb Hm Hmb.
  - destruct fuel as [| f]; [inversion Hf |]. cbn [read_loop].
    pose proof (tiled_le _ _ _ _ T) as Hle.
    assert (X : exists used rest, @nil slot = used ++ rest /\ span_sum used = bytes - bytes /\ Forall (fun s => 0 < s_len s) used).
    { exists [], []. repeat split; auto. cbn. lia. }
    destruct ((bytes <? contiguous) && (msgs <? limit)); [| exists bytes, msgs, []; repeat split; auto; lia].
    rewrite app_nil_r. unfold pos_word. rewrite find_slot_none by assumption. cbn [Z.leb Z.compare].
    exists bytes, msgs, []. repeat split; auto; lia.
  - destruct fuel as [| f]; [inversion Hf |]. cbn [read_loop].
    inversion T as [| h0 t0 s0 sl0 Hpos G T2]; subst.
    pose proof (tiled_le _ _ _ _ T2) as Hle.
    pose proof G as (_ & _ & Gs & _ & Gstr & _). pose proof (mod_range cp (s_pos s) Hcap) as Hpm.
    assert (X0 : exists used rest, s :: r = used ++ rest /\ span_sum used = bytes - bytes /\ Forall (fun s => 0 < s_len s) used).
    { exists [], (s :: r). repeat split; auto. cbn. lia. }
    destruct ((bytes <? contiguous) && (msgs <? limit)) eqn:C; [| exists bytes, msgs, []; repeat split; auto; lia].
    assert (Hpre' : Forall (fun x => s_pos x + s_span x <= s_pos s) pre) by (rewrite Hpos; assumption).
    rewrite <- Hpos. rewrite !pos_word_len by (auto; lia). rewrite !pos_word_type by (auto; lia).
    inversion Hrd as [| a l Hs Hr']; subst a l.
    destruct Hs as [Neg | (Pos & Hsp & Hk)].
    + replace (s_len s <=? 0) with true by lia. exists bytes, msgs, []. repeat split; auto; lia.
    + replace (s_len s <=? 0) with false by lia.
      assert (Hlb : s_len s <= s_span s) by (rewrite Hsp; apply align8_bounds).
      rewrite ralign_ok by (unfold two30 in *; lia). cbn [bind]. rewrite <- Hsp.
      unfold add32 at 1. rewrite chk32_ok by (apply in_i32_small; unfold two31, two30 in *; lia). cbn [bind].
      assert (Hpre2 : Forall (fun x => s_pos x + s_span x <= hd + (bytes + s_span s)) (pre ++ [s])).
      { apply Forall_app. split; [eapply Forall_impl; [| exact Hpre]; cbn; intros; lia | constructor; [lia | constructor]]. }
      assert (Happ : pre ++ s :: r = (pre ++ [s]) ++ r) by (rewrite <- app_assoc; reflexivity).
      assert (T3 : tiled cp (hd + (bytes + s_span s)) t r).
      { replace (hd + (bytes + s_span s)) with (hd + bytes + s_span s) by lia. exact T2. }
      cbn [length] in Hf, Hmb.
      assert (WRAP : forall b, bytes + s_span s <= b ->
                (exists used rest, r = used ++ rest /\ span_sum used = b - (bytes + s_span s) /\ Forall (fun s => 0 < s_len s) used) ->
                exists used rest, s :: r = used ++ rest /\ span_sum used = b - bytes /\ Forall (fun s => 0 < s_len s) used).
      { intros b Hbb (u & rs & E1 & E2 & E3). exists (s :: u), rs. rewrite E1.
        split; [reflexivity |]. split; [cbn [span_sum]; lia | constructor; assumption]. }
      destruct Hk as [Kp | (Kv & Kl)].
      * rewrite Kp, Z.eqb_refl. rewrite Happ.
        destruct (IH f (pre ++ [s]) (bytes + s_span s) msgs T3 Hr' Hpre2 ltac:(lia) ltac:(lia) Hm ltac:(lia)) as (b & n & l & E & B1 & B2 & Bu).
        exists b, n, l. split; [exact E |]. split; [lia |]. split; [lia |]. apply (WRAP b); assumption.
      * rewrite (valid_cmd_not_pad _ Kv), Kv.
        unfold add32 at 1. rewrite chk32_ok by (apply in_i32_small; unfold two31, two30 in *; lia). cbn [bind].
        unfold sub32. rewrite chk32_ok by (apply in_i32_small; unfold two31, two30, HL, GenConsts.RB_HEADER_LENGTH in *; lia).
        cbn [bind]. rewrite Happ.
        destruct (IH f (pre ++ [s]) (bytes + s_span s) (msgs + 1) T3 Hr' Hpre2 ltac:(lia) ltac:(lia) ltac:(lia) ltac:(lia)) as (b & n & l & E & B1 & B2 & Bu).
        rewrite E. cbn [bind]. eexists b, n, _. split; [reflexivity |]. split; [lia |]. split; [lia |]. apply (WRAP b); assumption.
Qed.

Lemma tiled_split_at cp h t sl s : tiled cp h t sl -> In s sl ->
  exists pre suf, sl = pre ++ s :: suf /\ tiled cp h (s_pos s) pre /\ tiled cp (s_pos s) t (s :: suf).
Proof. intros T Hs. destruct (in_split _ _ Hs) as (pre & suf & E). exists pre, suf. split; [assumption |].
  rewrite E in T. destruct (tiled_app_inv _ _ _ _ _ T) as (p & T1 & T2).
  inversion T2 as [| h0 t0 s0 sl0 Hp G T3]; subst. split; assumption. Qed.

Lemma tiled_span_sum cp h t sl : tiled cp h t sl -> span_sum sl = t - h.
Proof. induction 1; cbn [span_sum]; lia. Qed.

(* after a successful unblock the next read (limit >= 1) returns normally and moves the head past the padding,
   never past the tail *)
Theorem unblock_progress lo m cfg limit : Inv lo cfg -> cons_idle (g_cons cfg) ->
  let R := g_ring cfg in
  snd (unblock R) = true -> 1 <= limit ->
  exists R2 n l, read m (fst (unblock R)) limit = (R2, Ok (n, l)) /\
    r_head R < r_head R2 /\ r_head R2 <= r_tail R /\ r_tail R2 = r_tail R /\ r_cap R2 = r_cap R.
Proof.
  intros HI Hid. cbn zeta. set (R := g_ring cfg). intros Hu Hlim.
  pose proof (idle_head' R _ Hid) as Hh'. fold R in Hh'.
  destruct (unblock_spec lo cfg HI Hid) as (_ & _ & _ & U4). fold R in U4.
  destruct (U4 Hu) as (s1 & rest & L & Es & Hneg & ER1 & HL & Hfit & Hend & Hb & _ & _ & _). clear U4.
  pose proof (i_cap _ _ HI) as Hc. fold R in Hc. pose proof (cap_ok_range _ Hc) as Hcr.
  pose proof (tiledR lo cfg HI Hh') as T. fold R in T. rewrite Es in T.
  pose proof (i_size _ _ HI) as Hsz. fold R in Hsz.
  pose proof (mod_range (r_cap R) (r_head R) Hc) as Hci.
  inversion T as [| h0 t0 s0 sl0 Hp1 G1 T2]; subst h0 t0 s0 sl0.
  pose proof G1 as (_ & _ & G1s & _ & G1str & _).
  pose proof (align8_bounds L) as HaL.
  rewrite ER1. unfold read. cbn [set_slots r_head r_cap r_slots r_tail].
  rewrite mask_idx_mod by assumption.
  unfold sub32 at 1. rewrite chk32_ok by (apply in_i32_small; unfold two31, two30 in *; lia). cbn [bind].
  (* first iteration: the padding written by unblock *)
  unfold read_fuel. cbn [read_loop].
  replace ((0 <? r_cap R - r_head R mod r_cap R) && (0 <? limit)) with true by lia.
  rewrite Z.add_0_r.
  assert (F1 : find_slot (set_hdr L PAD s1 :: rest) (r_head R) = Some (set_hdr L PAD s1)).
  { cbn [find_slot set_hdr s_pos s_span]. replace ((s_pos s1 <=? r_head R) && (r_head R <? s_pos s1 + s_span s1)) with true by lia. reflexivity. }
  assert (F2 : find_slot (set_hdr L PAD s1 :: rest) (r_head R + 4) = Some (set_hdr L PAD s1)).
  { cbn [find_slot set_hdr s_pos s_span]. replace ((s_pos s1 <=? r_head R + 4) && (r_head R + 4 <? s_pos s1 + s_span s1)) with true by lia. reflexivity. }
  assert (PW1 : pos_word (set_hdr L PAD s1 :: rest) (r_head R) = L).
  { unfold pos_word. rewrite F1. cbn [set_hdr s_pos]. replace (r_head R - s_pos s1) with 0 by lia. reflexivity. }
  assert (PW2 : pos_word (set_hdr L PAD s1 :: rest) (r_head R + 4) = PAD).
  { unfold pos_word. rewrite F2. cbn [set_hdr s_pos]. replace (r_head R + 4 - s_pos s1) with 4 by lia. reflexivity. }
  rewrite !PW1, !PW2. replace (L <=? 0) with false by lia.
  rewrite ralign_ok by (unfold two30 in *; lia). cbn [bind].
  unfold add32 at 1. rewrite chk32_ok by (apply in_i32_small; unfold two31, two30 in *; lia). cbn [bind].
  rewrite Z.eqb_refl. rewrite Z.add_0_l.
  (* the rest of the loop runs over the slots from the boundary on *)
  assert (Hrd : Forall rd_ok rest).
  { apply Forall_forall. intros x Hx. apply (inv_rd_ok lo cfg x HI Hh'). fold R. rewrite Es. right. assumption. }
  assert (SPLIT : exists pre suf, set_hdr L PAD s1 :: rest = pre ++ suf /\
            tiled (r_cap R) (r_head R + align L 8) (r_tail R) suf /\ Forall rd_ok suf /\
            Forall (fun x => s_pos x + s_span x <= r_head R + align L 8) pre /\ (length suf <= length rest)%nat).
  { destruct Hb as [Eend | (s & Hs & Hsq)].
    - exists (set_hdr L PAD s1 :: rest), []. rewrite app_nil_r. split; [reflexivity |]. rewrite Eend.
      split; [constructor |]. split; [constructor |]. split; [| cbn; lia].
      constructor; [cbn [set_hdr s_pos s_span]; pose proof (tiled_le _ _ _ _ T2); lia |].
      pose proof (tiled_range _ _ _ _ T2) as Rg. eapply Forall_impl; [| exact Rg]. cbn. intros a (_ & A & _). lia.
    - destruct (tiled_split_at _ _ _ _ s T2 Hs) as (pre & suf & E & Tp & Ts).
      exists (set_hdr L PAD s1 :: pre), (s :: suf). rewrite E. split; [reflexivity |]. rewrite <- Hsq.
      split; [exact Ts |]. split.
      + rewrite E in Hrd. apply Forall_app in Hrd. tauto.
      + split; [| rewrite app_length; cbn [length]; lia].
        constructor; [cbn [set_hdr s_pos s_span]; pose proof (tiled_le _ _ _ _ Tp); lia |].
        pose proof (tiled_range _ _ _ _ Tp) as Rg. eapply Forall_impl; [| exact Rg]. cbn. intros a (_ & A & _). lia. }
  destruct SPLIT as (pre & suf & Esp & Tsuf & Rsuf & Ppre & Lsuf).
  rewrite Esp.
  assert (Hlen : 8 * (Z.of_nat (length rest) + 1) <= r_cap R).
  { pose proof (tiled_len8 _ _ _ _ T2). pose proof (tiled_span_sum _ _ _ _ T2). lia. }
  assert (Hfuel : (length suf < Z.to_nat (r_cap R / 8))%nat).
  { pose proof (Z.div_le_mono (8 * (Z.of_nat (length rest) + 1)) (r_cap R) 8 ltac:(lia) Hlen) as D.
    rewrite Z.mul_comm in D. rewrite Z_div_mult in D by lia. lia. }
  destruct (read_loop_mixed m (r_cap R) (r_head R) (r_tail R) (r_cap R - r_head R mod r_cap R) limit Hc Hsz
              suf (Z.to_nat (r_cap R / 8)) pre (align L 8) 0 Tsuf Rsuf Ppre Hfuel) as (b & n & l & E & B1 & B2 & _).
  - lia.
  - lia.
  - unfold two30 in *. lia.
  - rewrite E. cbn [bind].
    unfold add64. rewrite chk64_ok.
    2: { apply in_i64_small. pose proof (i_lo _ _ HI) as Hlo. pose proof (i_hc _ _ HI) as Hhc. pose proof (i_win _ _ HI) as Hw.
         fold R in Hhc, Hw. unfold two63, two62, two30 in *. lia. }
    cbn [bind]. replace (b =? 0) with false by lia.
    eexists; eexists; eexists. split; [reflexivity |].
    cbn [set_head set_slots r_head r_tail r_cap]. repeat split; lia.
Qed.
