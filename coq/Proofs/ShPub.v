(* C03, shared publishers: a publisher step follows the frame discipline and keeps the coupling. *)
Require Import V.Base.MachineInt.
Require Import V.Generated.GenConsts.
Require Import V.Generated.GenOrdering.
Require Import V.Model.LogBase.
Require Import V.Model.Descriptor.
Require Import V.Proofs.DescriptorProofs.
Require Import V.Model.Sched.
Require Import V.Model.AppenderThreads.
Require Import V.Model.ReaderThreads.
Require Import V.Oracle.C03Oracle.
Require Import V.Proofs.OrderingProofs.
Require Import V.Proofs.TailArith.
Require Import V.Proofs.FragArith.
Require Import V.Proofs.AppenderInv.
Require Import V.Proofs.AppenderLemmas.
Require Import V.Proofs.AppenderFrame.
Require Import V.Proofs.AppenderSteps.
Require Import V.Proofs.AppenderFaa.
Require Import V.Proofs.AppenderRotate.
Require Import V.Proofs.AppenderSystem.
Require Import V.Proofs.C02Proofs.
Require Import V.Proofs.C02Quiescent.
Require Import V.Proofs.ReaderInv.
Require Import V.Proofs.C03Proofs.
Require Import V.Proofs.ReaderHb.
Require Import V.Proofs.RaceFold V.Proofs.RaceDisc V.Proofs.RaceFree.
Require Import V.Proofs.ExclDefs V.Proofs.ExclPub1 V.Proofs.ExclEv.
Require Import V.Proofs.ShGeom V.Proofs.ShEv V.Proofs.ShCoupl.
From Coq Require Import ZifyBool.
Open Scope Z_scope.

Section SP.
  Variable c : cfg.
  Hypothesis W : wf_cfg c.

  Notation role_ok := (role_ok cls term_region).

  Lemma upd_other (th : nat -> rthread) t x t' : t' <> t -> upd_thread th t x t' = th t'.
  Proof. intros H. unfold upd_thread. destruct (Nat.eqb t' t) eqn:E; [apply Nat.eqb_eq in E; contradiction | reflexivity]. Qed.
  Lemma upd_same (th : nat -> rthread) t x : upd_thread th t x t = x.
  Proof. unfold upd_thread. rewrite Nat.eqb_refl. reflexivity. Qed.

  Lemma region_of_part p : 0 <= p < 3 -> term_region p = true.
  Proof. unfold term_region. lia. Qed.

  (* inside a frame the next access is again inside it, or commits it *)
  Lemma burst_kind_next t s l s' l' e k p o : pstep c t s l = Some (s', l', e) -> pub_access l = (k, p, o) -> k = WNeg \/ k = WBurst ->
    exists k2, pub_access l' = (k2, p, o) /\ (k2 = WBurst \/ k2 = WCommit).
  Proof. intros Hstep Ha Hk. unfold pstep in Hstep. unfold pub_access in Ha.
    destruct (p_pc l) eqn:Hpc; try discriminate Hstep; inversion Hstep; subst s' l' e; clear Hstep;
      inversion Ha; subst k p o; try (destruct Hk; discriminate); try (eexists; split; [reflexivity | auto]).
    destruct (is_fragmented c (mlen l)); eexists; (split; [reflexivity | auto]). Qed.

  Lemma commit_kind_next t s l s' l' e p o k' p' o' : pstep c t s l = Some (s', l', e) -> pub_access l = (WCommit, p, o) ->
    pub_access l' = (k', p', o') -> k' = WNone \/ k' = WNeg.
  Proof. intros Hstep Ha Ha'. destruct k'; auto; exfalso;
      (destruct (burst_succ c t s l s' l' e _ p' o' Hstep Ha' ltac:(auto)) as (k0 & E & [-> | ->]); rewrite Ha in E; discriminate). Qed.

  Lemma pubs3_upd th t l' t0 : pubs3 (upd_thread th t (RApp (TPub l'))) t0 = if Nat.eqb t0 t then Some l' else pubs3 th t0.
  Proof. unfold pubs3, upd_thread. destruct (Nat.eqb t0 t); reflexivity. Qed.

  Theorem pub_step_disc dg s th gh tr t l s' l' e :
    reach3t c s th gh tr -> th t = RApp (TPub l) -> adm3 c s gh th t -> gens_ok c s -> pstep c t s l = Some (s', l', e) ->
    SCoupl c dg s gh th ->
    exists r, role_ok dg (narrow e) r /\
              SCoupl c (role_upd dg (narrow e) r) s' (gstep_pub c t s l gh) (upd_thread th t (RApp (TPub l'))).
  Proof. intros Hreach Eth Hadm Hg Ep [C1 Cz C3 C4 C7 C8].
    pose proof (reach3t_reach3 c s th gh tr Hreach) as Hr.
    destruct (reach3_inv c W s th gh Hr) as [I Isub Ird Ione].
    assert (HP : pubs3 th t = Some l) by (unfold pubs3; rewrite Eth; reflexivity).
    assert (Hr' : reach3 c s' (upd_thread th t (RApp (TPub l'))) (gstep_pub c t s l gh)).
    { replace (gstep_pub c t s l gh) with (gstep3 c t s (th t) gh) by (rewrite Eth; reflexivity).
      eapply reach3_step; eauto. unfold rtstep. rewrite Eth. cbn. rewrite Ep. reflexivity. }
    destruct (reach3_inv c W _ _ _ Hr') as [I' _ _ _].
    assert (HP' : pubs3 (upd_thread th t (RApp (TPub l'))) t = Some l') by (rewrite pubs3_upd, Nat.eqb_refl; reflexivity).
    assert (Hmono : forall g x, In x (g_claims gh g) -> In x (g_claims (gstep_pub c t s l gh) g)) by (intros; apply pstep_claims_mono; assumption).
    set (gh' := gstep_pub c t s l gh) in *. set (th' := upd_thread th t (RApp (TPub l'))) in *.
    assert (Hoth : forall t0, t0 <> t -> th' t0 = th t0) by (intros; unfold th'; apply upd_other; assumption).
    assert (Hseen' : forall dg', dg_seen dg' = dg_seen dg ->
              forall t0 l0, th' t0 = RRd l0 -> on_frame (r_pc l0) = true -> dg_seen dg' t0 (rd_gen c l0 mod 3) (r_foff l0) = true).
    { intros dg' E t0 l0 Ht0 Hon. rewrite E. destruct (Nat.eq_dec t0 t) as [-> | Hne]; [unfold th' in Ht0; rewrite upd_same in Ht0; discriminate|].
      rewrite Hoth in Ht0 by assumption. eauto. }
    (* the step in the terms of the discipline *)
    destruct (pub_access l) as [[k p] o] eqn:Ea.
    assert (Hwf : k <> WNone -> live c s gh (p_count l) /\ p = p_count l mod 3 /\ 0 <= p < 3 /\ c_n0 c <= p_count l /\
                   In (my_entry c t l) (g_claims gh (p_count l)) /\
                   (exists sl, In (o, sl) (efrags c (p_count l) (my_entry c t l)) /\ s_len sl = slot_len c l) /\
                   (writing (p_pc l) = true -> 0 <= p_rem l) /\ (padding (p_pc l) = true -> 32 <= TL c - f_off l) /\ pgen c p = p_count l).
    { intros Hk. destruct (pa_front l k p o Ea Hk) as (-> & -> & Hwp).
      destruct (writer_facts c W s gh (pubs3 th) t l I HP Hwp) as (F1 & F2 & F3 & F4 & F5 & F6 & F7 & F8).
      rewrite F2. split; [assumption|]. split; [reflexivity|]. repeat (split; [assumption|]). apply (live_pgen c s gh); assumption. }
    assert (Hev : e_tid (narrow e) = t /\ pfacts c t s s' l e).
    { apply (pstep_event c W t s l s' l' e Ep).
      - intros Hwp. destruct (writer_facts c W s gh (pubs3 th) t l I HP Hwp) as (_ & F2 & F3 & _). rewrite F2. apply region_of_part. assumption.
      - intros Hw. destruct (writer_facts c W s gh (pubs3 th) t l I HP (or_introl Hw)) as (_ & _ & _ & _ & _ & _ & F7 & _). auto.
      - intros Hw. destruct (writer_facts c W s gh (pubs3 th) t l I HP (or_intror Hw)) as (_ & _ & _ & _ & _ & _ & _ & F8). auto. }
    destruct Hev as (Htid & Hf). unfold pfacts in Hf. rewrite Ea in Hf.
    assert (Hmem_o : forall p' o', (k = WNone \/ (p', o') <> (p, o)) -> sh_mem s' p' o' = sh_mem s p' o').
    { intros p' o' X. apply (pstep_mem_other c t s l s' l' e p o p' o' Ep); rewrite Ea; auto. }
    (* slots other than the one written keep what the coupling says about them *)
    assert (Kslot_other : forall dg' p0 o0 d, dg_slot dg' p0 o0 = dg_slot dg p0 o0 -> (k = WNone \/ (p0, o0) <> (p, o)) ->
              dg_slot dg' p0 o0 = Some d -> 0 <= p0 < 3 /\
              exists e0 sl, In e0 (g_claims gh' (pgen c p0)) /\ In (o0, sl) (efrags c (pgen c p0) e0) /\ ds_ext d = align (s_len sl) FA /\
                            ds_ow d = e_t e0 /\ (ds_com d = true <-> 0 < s_len (sh_mem s' p0 o0))).
    { intros dg' p0 o0 d E X Hs. rewrite E in Hs. destruct (C1 _ _ _ Hs) as (P0 & e0 & sl & X1 & X2 & X3 & X4 & X5).
      split; [assumption|]. exists e0, sl. rewrite (Hmem_o _ _ X). auto. }
    destruct k.
    - (* ---- a write of the owner inside its frame ---- *)
      destruct Hf as (B1 & B2 & B3 & B4 & B5 & B6).
      destruct (Hwf ltac:(discriminate)) as (L & Hp & Hpr & Hn0 & Hin & (sl & Hsl & Hlen) & _ & _ & Hpg).
      destruct (C4 t l WBurst p o Eth Ea ltac:(auto)) as (d & Hs & Hown & Hcom).
      destruct (C1 _ _ _ Hs) as (_ & e0 & sl0 & X1 & X2 & X3 & X4 & X5). rewrite Hpg in X1, X2.
      assert (Esl : sl0 = sl).
      { destruct (frames_disjoint c W s gh (pubs3 th) (p_count l) e0 (my_entry c t l) o sl0 o sl I X1 Hin X2 Hsl) as [(_ & E) | [D | D]]; [assumption | |];
          (destruct (iv_ent c s gh _ I _ _ X1) as (_ & Ha & Ham & Hb & _); pose proof (efrags_len c W _ _ _ _ Ha Ham X2);
           destruct (iv_ent c s gh _ I _ _ Hin) as (_ & Ha' & Ham' & Hb' & _); pose proof (efrags_len c W _ _ _ _ Ha' Ham' Hsl);
           pose proof (align_pos (s_len sl0) ltac:(lia)); pose proof (align_pos (s_len sl) ltac:(lia)); rewrite FA_32 in *; lia). }
      subst sl0. rewrite Hlen in X3.
      destruct (burst_kind_next t s l s' l' e _ p o Ep Ea ltac:(auto)) as (k2 & Ea2 & Hk2).
      exists (DBurst o). split.
      + cbn [RaceDisc.role_ok]. rewrite B1, Htid. split; [apply region_of_part; assumption|]. split; [assumption|]. split; [assumption|].
        exists d. rewrite X3. auto.
      + cbn [role_upd]. constructor.
        * intros p0 o0 d0 Hs0. destruct (Z.eq_dec p0 p) as [-> | Np]; [destruct (Z.eq_dec o0 o) as [-> | No]|].
          -- rewrite Hs in Hs0. inversion Hs0; subst d0. split; [assumption|]. exists (my_entry c t l), sl. rewrite Hpg.
             split; [apply Hmono; assumption|]. split; [assumption|]. split; [rewrite Hlen; assumption|]. split; [rewrite Hown; reflexivity|].
             rewrite Hcom. pose proof (cur_slot_uncommitted c W s' gh' _ t l' k2 p o I' HP' Ea2 ltac:(destruct Hk2; subst; discriminate)).
             split; [intros X; discriminate X | lia].
          -- apply (Kslot_other dg p o0 d0 eq_refl); [right; intros E; inversion E; contradiction | assumption].
          -- apply (Kslot_other dg p0 o0 d0 eq_refl); [right; intros E; inversion E; contradiction | assumption].
        * intros p0 o0 d0 Hs0. destruct (Z.eq_dec p0 p) as [-> | Np]; [destruct (Z.eq_dec o0 o) as [-> | No]|].
          -- rewrite B6. eapply Cz; eauto.
          -- rewrite Hmem_o by (right; intros E; inversion E; contradiction). eapply Cz; eauto.
          -- rewrite Hmem_o by (right; intros E; inversion E; contradiction). eapply Cz; eauto.
        * intros p0 o0 Hp0 Hl0. destruct (Z.eq_dec p0 p) as [-> | Np]; [destruct (Z.eq_dec o0 o) as [-> | No]|].
          -- rewrite Hs. discriminate.
          -- rewrite Hmem_o in Hl0 by (right; intros E; inversion E; contradiction). auto.
          -- rewrite Hmem_o in Hl0 by (right; intros E; inversion E; contradiction). auto.
        * intros t0 l0 k0 p0 o0 Ht0 Ha0 Hk0. destruct (Nat.eq_dec t0 t) as [-> | Hne].
          -- unfold th' in Ht0. rewrite upd_same in Ht0. inversion Ht0; subst l0. rewrite Ea2 in Ha0. inversion Ha0; subst k0 p0 o0. eauto.
          -- rewrite Hoth in Ht0 by assumption. eauto.
        * intros p0 oa Ha. destruct (C7 _ _ Ha) as (P0 & P1 & P2 & P3). split; [assumption|]. split; [assumption|].
          replace gh' with gh by (unfold gh', gstep_pub; destruct (p_pc l) eqn:Hpc; try reflexivity; unfold pub_access in Ea; rewrite Hpc in Ea; discriminate).
          auto.
        * apply Hseen'. reflexivity.
    - (* ---- the negative length: a new frame ---- *)
      destruct Hf as (N1 & N2 & N3 & N4 & N5 & N6). rewrite N1 in *.
      destruct (Hwf ltac:(discriminate)) as (L & Hp & Hpr & Hn0 & Hin & (sl & Hsl & Hlen) & _ & _ & Hpg).
      destruct (iv_ent c s gh _ I _ _ Hin) as (_ & Ha' & Ham' & Hb' & _). pose proof (efrags_len c W _ _ _ _ Ha' Ham' Hsl) as Hl32.
      pose proof (align_pos (s_len sl) ltac:(lia)) as (Al & _). rewrite <- FA_32 in Al.
      assert (Hgh : gh' = gh) by (unfold gh', gstep_pub; destruct (p_pc l) eqn:Hpc; try reflexivity; unfold pub_access in Ea; rewrite Hpc in Ea; discriminate).
      assert (Hnone : dg_slot dg p o = None).
      { destruct (dg_slot dg p o) as [d|] eqn:Es; [|reflexivity]. exfalso. apply (Cz _ _ _ Es).
        destruct (pa_front l _ p o Ea ltac:(discriminate)) as (Ep0 & Eo0 & [Hw | Hpd]); rewrite Ep0, Eo0.
        - assert (Epd : padding (p_pc l) = false) by (destruct (p_pc l); try discriminate Hw; reflexivity).
          unfold wfront. rewrite Epd. rewrite (cur_slot_w c W s gh _ t l I HP Hw). unfold stage. unfold pub_access in Ea.
          destruct (p_pc l); try discriminate Hw; try discriminate Ea; reflexivity.
        - unfold wfront. rewrite Hpd. rewrite (cur_slot_p c W s gh _ t l I HP Hpd). unfold stage. unfold pub_access in Ea.
          destruct (p_pc l); try discriminate Hpd; try discriminate Ea; reflexivity. }
      destruct (burst_kind_next t s l s' l' e _ p o Ep Ea ltac:(auto)) as (k2 & Ea2 & Hk2).
      exists (DNeg (align (slot_len c l) FA)). split.
      + cbn [RaceDisc.role_ok]. rewrite N2, N3, N4. split; [apply region_of_part; assumption|]. split; [apply put_ordered_is_release|].
        split; [assumption|]. split; [rewrite <- Hlen; lia|]. split; [assumption|]. split.
        * intros o' d Hs. destruct (C1 _ _ _ Hs) as (_ & e0 & sl0 & X1 & X2 & X3 & _). rewrite Hpg in X1, X2. rewrite X3, <- Hlen.
          destruct (frames_disjoint c W s gh (pubs3 th) (p_count l) e0 (my_entry c t l) o' sl0 o sl I X1 Hin X2 Hsl) as [(E & _) | [D | D]]; [|auto|auto].
          subst o'. congruence.
        * intros oa Hacq. destruct (C7 _ _ Hacq) as (_ & _ & _ & P3). rewrite Hpg in P3. rewrite <- Hlen. eapply P3; eauto.
      + cbn [role_upd]. rewrite N3, N4, Htid. rewrite Hgh. constructor; cbn [dg_slot dg_seen dg_acq].
        * intros p0 o0 d0. unfold upd2o. destruct ((p0 =? p) && (o0 =? o)) eqn:E.
          -- assert (p0 = p /\ o0 = o) as [-> ->] by lia. intros Hs0. inversion Hs0; subst d0. cbn [ds_ext ds_ow ds_com].
             split; [assumption|]. exists (my_entry c t l), sl. rewrite Hpg. split; [assumption|]. split; [assumption|].
             split; [rewrite Hlen; reflexivity|]. split; [reflexivity|].
             rewrite N6, <- Hlen. split; [intros X; discriminate X | lia].
          -- intros Hs0. rewrite <- Hgh. apply (Kslot_other dg p0 o0 d0 eq_refl); [right; intros X; inversion X; lia | assumption].
        * intros p0 o0 d0. unfold upd2o. destruct ((p0 =? p) && (o0 =? o)) eqn:E.
          -- assert (p0 = p /\ o0 = o) as [-> ->] by lia. intros _. rewrite N6, <- Hlen. lia.
          -- intros Hs0. rewrite Hmem_o by (right; intros X; inversion X; lia). eapply Cz; eauto.
        * intros p0 o0 Hp0 Hl0. unfold upd2o. destruct ((p0 =? p) && (o0 =? o)) eqn:E; [discriminate|].
          rewrite Hmem_o in Hl0 by (right; intros X; inversion X; lia). auto.
        * intros t0 l0 k0 p0 o0 Ht0 Ha0 Hk0. unfold upd2o. destruct (Nat.eq_dec t0 t) as [-> | Hne].
          -- unfold th' in Ht0. rewrite upd_same in Ht0. inversion Ht0; subst l0. rewrite Ea2 in Ha0. inversion Ha0; subst k0 p0 o0.
             rewrite !Z.eqb_refl. cbn. eexists. repeat split; reflexivity.
          -- rewrite Hoth in Ht0 by assumption. destruct ((p0 =? p) && (o0 =? o)) eqn:E; [|eauto].
             exfalso. assert (p0 = p /\ o0 = o) as [-> ->] by lia.
             eapply (distinct_slots c W s gh (pubs3 th) t0 t l0 l k0 WNeg p o I); eauto; try discriminate.
             ++ unfold pubs3. rewrite Ht0. reflexivity.
             ++ destruct Hk0 as [-> | ->]; discriminate.
        * assumption.
        * apply Hseen'. reflexivity.
    - (* ---- the positive length: commit ---- *)
      destruct Hf as (N1 & N2 & N3 & N4 & N5 & N6). rewrite N1 in *.
      destruct (Hwf ltac:(discriminate)) as (L & Hp & Hpr & Hn0 & Hin & (sl & Hsl & Hlen) & _ & _ & Hpg).
      destruct (iv_ent c s gh _ I _ _ Hin) as (_ & Ha' & Ham' & Hb' & _). pose proof (efrags_len c W _ _ _ _ Ha' Ham' Hsl) as Hl32.
      assert (Hgh : gh' = gh) by (unfold gh', gstep_pub; destruct (p_pc l) eqn:Hpc; try reflexivity; unfold pub_access in Ea; rewrite Hpc in Ea; discriminate).
      destruct (C4 t l WCommit p o Eth Ea ltac:(auto)) as (d & Hs & Hown & Hcom).
      exists DCommit. split.
      + cbn [RaceDisc.role_ok]. rewrite N2, N3, N4, Htid. split; [apply region_of_part; assumption|]. split; [apply put_ordered_is_release|].
        split; [assumption|]. eauto.
      + cbn [role_upd]. rewrite N3, N4, Hs. rewrite Hgh. constructor; cbn [dg_slot dg_seen dg_acq].
        * intros p0 o0 d0. unfold upd2o. destruct ((p0 =? p) && (o0 =? o)) eqn:E.
          -- assert (p0 = p /\ o0 = o) as [-> ->] by lia. intros Hs0. inversion Hs0; subst d0. cbn [ds_ext ds_ow ds_com].
             destruct (C1 _ _ _ Hs) as (_ & e0 & sl0 & X1 & X2 & X3 & X4 & _). split; [assumption|]. exists e0, sl0.
             repeat (split; [assumption|]). rewrite N6, <- Hlen. split; [intros _; lia | reflexivity].
          -- intros Hs0. rewrite <- Hgh. apply (Kslot_other dg p0 o0 d0 eq_refl); [right; intros X; inversion X; lia | assumption].
        * intros p0 o0 d0. unfold upd2o. destruct ((p0 =? p) && (o0 =? o)) eqn:E.
          -- assert (p0 = p /\ o0 = o) as [-> ->] by lia. intros _. rewrite N6, <- Hlen. lia.
          -- intros Hs0. rewrite Hmem_o by (right; intros X; inversion X; lia). eapply Cz; eauto.
        * intros p0 o0 Hp0 Hl0. unfold upd2o. destruct ((p0 =? p) && (o0 =? o)) eqn:E; [discriminate|].
          rewrite Hmem_o in Hl0 by (right; intros X; inversion X; lia). auto.
        * intros t0 l0 k0 p0 o0 Ht0 Ha0 Hk0. unfold upd2o. destruct (Nat.eq_dec t0 t) as [-> | Hne].
          -- unfold th' in Ht0. rewrite upd_same in Ht0. inversion Ht0; subst l0.
             destruct (commit_kind_next t s l s' l' e p o k0 p0 o0 Ep Ea Ha0) as [-> | ->]; destruct Hk0; discriminate.
          -- rewrite Hoth in Ht0 by assumption. destruct ((p0 =? p) && (o0 =? o)) eqn:E; [|eauto].
             exfalso. assert (p0 = p /\ o0 = o) as [-> ->] by lia.
             eapply (distinct_slots c W s gh (pubs3 th) t0 t l0 l k0 WCommit p o I); eauto; try discriminate.
             ++ unfold pubs3. rewrite Ht0. reflexivity.
             ++ destruct Hk0 as [-> | ->]; discriminate.
        * assumption.
        * apply Hseen'. reflexivity.
    - (* ---- no frame access: reads, get_and_add, rotation ---- *)
      destruct Hf as (F1 & Hmem).
      exists DOther. split; [exact F1|]. cbn [role_upd]. constructor.
      + intros p0 o0 d0 Hs0. apply (Kslot_other dg p0 o0 d0 eq_refl); auto.
      + intros p0 o0 d0 Hs0. rewrite Hmem. eapply Cz; eauto.
      + intros p0 o0 Hp0 Hl0. rewrite Hmem in Hl0. auto.
      + intros t0 l0 k0 p0 o0 Ht0 Ha0 Hk0. destruct (Nat.eq_dec t0 t) as [-> | Hne].
        * unfold th' in Ht0. rewrite upd_same in Ht0. inversion Ht0; subst l0.
          destruct (burst_succ c t s l s' l' e k0 p0 o0 Ep Ha0 Hk0) as (kk & E & [-> | ->]); rewrite Ea in E; discriminate.
        * rewrite Hoth in Ht0 by assumption. eauto.
      + (* acquire reads stay outside the frames of claims made later *)
        intros p0 oa Hacq. destruct (C7 _ _ Hacq) as (P0 & P1 & P2 & P3). split; [assumption|]. split; [assumption|].
        unfold gh', gstep_pub. destruct (p_pc l) eqn:Hpc; try (split; assumption).
        (* get_and_add: a new claim at the end of the chain *)
        set (raw := sh_tail s (AppenderThreads.r_idx l)). set (g := gen_of c raw).
        set (enew := mkE (lo32u raw) (lo32u raw + required c (mlen l)) t (length (p_res l)) (cur_msg l)).
        destruct (Z.eq_dec (pgen c p0) g) as [Eg | Ng].
        * rewrite Eg in *. rewrite claims_add_same.
          assert (Hn0g : c_n0 c <= g).
          { unfold adm3 in Hadm. rewrite Eth in Hadm. destruct Hadm as (Hadm & _).
            destruct (faa_facts c W s gh (pubs3 th) t l I HP Hpc Hadm) as (_ & _ & Q1 & _ & _ & _ & _ & _ & _ & _ & _ & _ & Q2 & _).
            fold raw in Q2. fold g in Q2. lia. }
          destruct (iv_chain_all c s gh (iv_A c s gh _ I) g Hn0g) as (hi & Hc & _).
          assert (Hnew : e_a enew = hi /\ e_a enew < e_b enew).
          { assert (Hin' : In enew (g_claims gh' g)) by (unfold gh', gstep_pub; rewrite Hpc; fold raw; fold g; fold enew; rewrite claims_add_same; apply in_or_app; right; left; reflexivity).
            destruct (iv_chain_all c s' gh' (iv_A c s' gh' _ I') g Hn0g) as (hi' & Hc' & _).
            unfold gh', gstep_pub in Hc'. rewrite Hpc in Hc'. fold raw in Hc'. fold g in Hc'. fold enew in Hc'. rewrite claims_add_same in Hc'.
            destruct (chain_snoc_inv _ _ _ _ Hc') as (m & M1 & M2 & M3 & _). rewrite (chain_fun _ _ _ _ Hc M1). auto. }
          destruct Hnew as (Hn1 & Hn2). specialize (P2 hi Hc).
          split.
          -- intros hi2 Hc2. destruct (chain_snoc_inv _ _ _ _ Hc2) as (m & M1 & M2 & M3 & M4). lia.
          -- intros e0 o0 sl0 He0 Hin0. apply in_app_or in He0. destruct He0 as [He0 | [<- | []]]; [eapply P3; eauto|].
             assert (Hin' : In enew (g_claims gh' g)) by (unfold gh', gstep_pub; rewrite Hpc; fold raw; fold g; fold enew; rewrite claims_add_same; apply in_or_app; right; left; reflexivity).
             destruct (iv_ent c s' gh' _ I' _ _ Hin') as (_ & Ha & Ham & Hb & _).
             pose proof (efrags_range c g enew o0 sl0 W Ha Ham Hb Hin0) as (R1 & _). lia.
        * rewrite claims_add_other by assumption. split; assumption.
      + apply Hseen'. reflexivity. Qed.
End SP.
