(* C03, exclusive publisher + subscriber: the executable run over a schedule with crash points stays inside the reachable
   states, and the detector finds no race in the trace it produces. *)
Require Import V.Base.MachineInt.
Require Import V.Generated.GenConsts.
Require Import V.Generated.GenOrdering.
Require Import V.Model.LogBase.
Require Import V.Model.Descriptor.
Require Import V.Model.Sched.
Require Import V.Model.AppenderThreads.
Require Import V.Model.ReaderThreads.
Require Import V.Model.ExclThreads.
Require Import V.Model.PollThreads.
Require Import V.Model.ClaimThreads.
Require Import V.Oracle.C03Oracle.
Require Import V.Proofs.FragArith.
Require Import V.Proofs.ExclDefs.
Require Import V.Proofs.ExclRd2 V.Proofs.ExclSys V.Proofs.ExclRace.
Open Scope Z_scope.

Section Run.
  Variable c : cfg.
  Hypothesis W : wf_cfg c.
  Variable tp : nat.

  Definition rsx_ok (r : @rstate shared xthread) (gh : xghost) : Prop := let '(s, th, g, tr) := r in reachxt c tp s th gh (rev tr).

  Fixpoint adm_schedx (stop : nat -> option nat) (sched : list nat) (r : @rstate shared xthread) (gh : xghost) : Prop :=
    match sched with
    | [] => True
    | t :: rest =>
        match grant (xtstep c) stop t r with
        | Some r' => (let '(s, th, g, tr) := r in admx c s th t /\ adm_schedx stop rest r' (xgstepx c (th t) gh))
        | None => adm_schedx stop rest r gh
        end
    end.

  Theorem run_sched_reachxt stop sched : forall r gh, rsx_ok r gh -> adm_schedx stop sched r gh ->
    exists gh', rsx_ok (run_sched (xtstep c) stop sched r) gh'.
  Proof. induction sched as [|t rest IH]; intros r gh Hr Ha; cbn [run_sched adm_schedx] in *.
    - exists gh. assumption.
    - destruct (grant (xtstep c) stop t r) as [r'|] eqn:E; [|eapply IH; eauto].
      destruct r as [[[s th] g] tr]. destruct Ha as (Ha1 & Ha2). eapply IH; [|exact Ha2].
      unfold grant, step_cfg in E. cbn [fst snd] in E. destruct (stopped stop g t); [discriminate|].
      destruct (xtstep c t s (th t)) as [[[s1 x1] e1]|] eqn:E2; [|discriminate]. inversion E; subst r'.
      unfold rsx_ok in *. cbn [rev]. eapply reachxt_step; eauto. Qed.

  Theorem run_sched_race_free stop sched r gh : rsx_ok r gh -> adm_schedx stop sched r gh ->
    let '(s, th, g, tr) := run_sched (xtstep c) stop sched r in race_free cls term_region (map narrow (rev tr)) = true.
  Proof. intros Hr Ha. destruct (run_sched_reachxt stop sched r gh Hr Ha) as (gh' & H).
    destruct (run_sched (xtstep c) stop sched r) as [[[s th] g] tr]. unfold rsx_ok in H. eapply x_race_free; eauto. Qed.
End Run.
