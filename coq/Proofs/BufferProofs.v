(* Proofs about the accessor model (Model/Buffer.v).  Everything here depends on the generated function
   `bounds_ok` only through the three lemmas of Proofs/BufferGuard.v. *)
Require Import V.Base.MachineInt.
Require Import V.Generated.GenBounds.
Require Import V.Model.Buffer.
Require Import V.Proofs.BufferGuard.
From Coq Require Import ZifyBool.
Open Scope Z_scope.

(* ------------------------------------------------------------------ vocabulary *)
Definition range_ok (rcap scap : Z) (r : Z * Z * Z) : Prop :=
  inside (if fst (fst r) =? 0 then rcap else scap) (snd (fst r)) (snd r) = true.
Definition log_inside (rcap scap : Z) (l : list (Z * Z * Z)) : Prop := Forall (range_ok rcap scap) l.

Record wf_env (e : env) : Prop := mkWf {
  wf_cap32 : in_i32 (e_cap e) = true;
  wf_scap32 : in_i32 (e_scap e) = true;
  wf_base : 0 <= e_base e;
  wf_cap : 0 <= e_cap e;
  wf_fit : e_base e + e_cap e <= e_rcap e;
  wf_scap : 0 <= e_scap e
}.

Notation LI e := (log_inside (e_rcap e) (e_scap e)).

(* an i32 argument; sizes and slice lengths are additionally non-negative *)
Definition i32 (x : Z) : Prop := in_i32 x = true.
Definition size32 (x : Z) : Prop := 0 <= x < two31.

Lemma size32_i32 x : size32 x -> i32 x.
Proof. unfold size32, i32, in_i32, two31. lia. Qed.

Lemma inside_spec cap off len : inside cap off len = true <-> 0 <= off /\ 0 <= len /\ off + len <= cap.
Proof. unfold inside. lia. Qed.

Lemma usz_nonneg x : 0 <= x -> usz x = x.
Proof. unfold usz. intros. destruct (x <? 0) eqn:E; lia. Qed.

Lemma wrap32_size n : size32 n -> wrap32 n = n.
Proof. intros. apply wrap32_id. apply size32_i32. assumption. Qed.

Lemma log_inside_app rcap scap l r : log_inside rcap scap l -> range_ok rcap scap r -> log_inside rcap scap (l ++ [r]).
Proof. intros. apply Forall_app. split; auto. Qed.

(* ------------------------------------------------------------------ the check *)
Lemma bounds_check_cases m cap idx len :
  0 <= cap -> i32 cap -> i32 idx -> i32 len ->
  (bounds_check m cap idx len = Ok tt /\ inside cap idx len = true) \/ bounds_check m cap idx len = Panic.
Proof.
  intros. unfold bounds_check, bind.
  destruct (bounds_ok_shape m cap idx len) as [[b Hb] | Hp].
  - rewrite Hb. destruct b; auto. left. split; auto. apply inside_spec. eapply bounds_ok_sound; eauto.
  - rewrite Hp. auto.
Qed.

Lemma bounds_check_total m cap idx len :
  0 <= cap -> i32 cap -> i32 idx -> i32 len -> inside cap idx len = true -> bounds_check m cap idx len = Ok tt.
Proof.
  intros ? ? ? ? Hin. apply inside_spec in Hin. unfold bounds_check, bind.
  rewrite bounds_ok_complete by (auto; lia). reflexivity.
Qed.

(* ------------------------------------------------------------------ the monad *)
Lemma bindM_ok {A B} (c : M A) (f : A -> M B) s a s1 : c s = (Ok a, s1) -> bindM c f s = f a s1.
Proof. unfold bindM. intros ->. reflexivity. Qed.
Lemma bindM_panic {A B} (c : M A) (f : A -> M B) s s1 : c s = (Panic, s1) -> bindM c f s = (Panic, s1).
Proof. unfold bindM. intros ->. reflexivity. Qed.

Lemma bind_lift_ok {A B} (o : outcome A) (f : A -> M B) s a : o = Ok a -> bindM (lift o) f s = f a s.
Proof. intros ->. reflexivity. Qed.
Lemma bind_lift_panic {A B} (o : outcome A) (f : A -> M B) s : o = Panic -> bindM (lift o) f s = (Panic, s).
Proof. intros ->. reflexivity. Qed.

(* ------------------------------------------------------------------ primitives *)
Lemma hook_cases e pos s : hook e pos s = (Ok tt, s) \/ hook e pos s = (Panic, s).
Proof. unfold hook, lift. destruct (e_hk e && is_debug (e_m e) && (pos <? 0)); auto. Qed.

Lemma hook_total e pos s : 0 <= pos -> hook e pos s = (Ok tt, s).
Proof. unfold hook, lift. intros. replace (pos <? 0) with false by lia. rewrite andb_false_r. reflexivity. Qed.

Lemma check_cases e idx len s : wf_env e -> i32 idx -> i32 len ->
  (check e idx len s = (Ok tt, s) /\ inside (e_cap e) idx len = true) \/ check e idx len s = (Panic, s).
Proof.
  intros W ? ?. unfold check, lift.
  destruct (bounds_check_cases (e_m e) (e_cap e) idx len (wf_cap e W) (wf_cap32 e W)) as [[H1 H2] | H1]; auto;
    rewrite H1; auto.
Qed.

Lemma check_total e idx len s : wf_env e -> i32 idx -> i32 len -> inside (e_cap e) idx len = true ->
  check e idx len s = (Ok tt, s).
Proof.
  intros W ? ? Hin. unfold check, lift.
  rewrite (bounds_check_total (e_m e) (e_cap e) idx len (wf_cap e W) (wf_cap32 e W)); auto.
Qed.

Lemma check_src_cases e idx len s : wf_env e -> i32 idx -> i32 len ->
  (check_src e idx len s = (Ok tt, s) /\ inside (e_scap e) idx len = true) \/ check_src e idx len s = (Panic, s).
Proof.
  intros W ? ?. unfold check_src, lift.
  destruct (bounds_check_cases (e_m e) (e_scap e) idx len (wf_scap e W) (wf_scap32 e W)) as [[H1 H2] | H1]; auto;
    rewrite H1; auto.
Qed.

Lemma inside_root e off len : wf_env e -> inside (e_cap e) off len = true -> inside (e_rcap e) (e_base e + off) len = true.
Proof. intros W H. apply inside_spec in H. apply inside_spec. destruct W. lia. Qed.

Lemma rd_ok e off len s : wf_env e -> inside (e_cap e) off len = true ->
  rd e off len s = (Ok (map (s_mem s) (zseq (e_base e + off) len)), add_log (0, e_base e + off, len) s).
Proof. intros W H. unfold rd. rewrite (inside_root e off len W H). reflexivity. Qed.

Lemma rd_src_ok e off len s : inside (e_scap e) off len = true ->
  rd_src e off len s = (Ok (map (e_src e) (zseq off len)), add_log (1, off, len) s).
Proof. intros H. unfold rd_src. rewrite H. reflexivity. Qed.

Lemma wr_ok e off len f s : wf_env e -> inside (e_cap e) off len = true ->
  wr e off len f s = (Ok tt, mkSt (upd (s_mem s) (e_base e + off) len f) (s_log s ++ [(0, e_base e + off, len)])).
Proof. intros W H. unfold wr. rewrite (inside_root e off len W H). reflexivity. Qed.

Lemma LI_add0 e off len s : wf_env e -> inside (e_cap e) off len = true -> LI e (s_log s) ->
  LI e (s_log s ++ [(0, e_base e + off, len)]).
Proof. intros W H L. apply log_inside_app; auto. unfold range_ok. cbn. apply inside_root; auto. Qed.

Lemma LI_add1 e off len s : inside (e_scap e) off len = true -> LI e (s_log s) ->
  LI e (s_log s ++ [(1, off, len)]).
Proof. intros H L. apply log_inside_app; auto. Qed.

Ltac bok H := rewrite (bindM_ok _ _ _ _ _ H).
Ltac bpanic H := rewrite (bindM_panic _ _ _ _ H).

(* ------------------------------------------------------------------ posts of reading / writing accessors *)
(* a read of [off, off+len) of this buffer: memory untouched; either a panic or the bytes of that range *)
Definition rdpost (e : env) (off len : Z) (s : st) (res : outcome (list Z) * st) : Prop :=
  LI e (s_log (snd res)) /\ s_mem (snd res) = s_mem s /\
  (fst res = Panic \/
   (inside (e_cap e) off len = true /\ fst res = Ok (map (s_mem s) (zseq (e_base e + off) len)))).

(* a write of f over [off, off+len): a panic leaves memory as it was; the call is total on ranges inside the buffer *)
Definition wrpost (e : env) (off len : Z) (f : Z -> Z) (s : st) (res : outcome unit * st) : Prop :=
  LI e (s_log (snd res)) /\
  ((fst res = Panic /\ s_mem (snd res) = s_mem s) \/
   (fst res = Ok tt /\ inside (e_cap e) off len = true /\ s_mem (snd res) = upd (s_mem s) (e_base e + off) len f)) /\
  (inside (e_cap e) off len = true -> fst res = Ok tt).

Ltac hook_step e pos s :=
  let H := fresh "Hh" in
  destruct (hook_cases e pos s) as [H | H]; [bok H | bpanic H; cbn [fst snd]].
Ltac i32_solve := solve [ assumption | apply size32_i32; assumption | reflexivity ].
Ltac check_step e idx len s W :=
  let H := fresh "Hc" in let Hin := fresh "Hin" in
  let Hi := fresh "Hi" in let Hl := fresh "Hl" in
  assert (Hi : i32 idx) by i32_solve;
  assert (Hl : i32 len) by i32_solve;
  destruct (check_cases e idx len s W Hi Hl) as [[H Hin] | H]; [bok H | bpanic H; cbn [fst snd]].

Lemma a_get_spec e sz pos s : wf_env e -> size32 sz -> i32 pos -> LI e (s_log s) ->
  rdpost e pos sz s (a_get e sz pos s).
Proof.
  intros W Hsz Hpos L. unfold a_get, rdpost.
  hook_step e pos s; [ | auto].
  check_step e pos sz s W; [ | auto].
  rewrite (rd_ok e pos sz s W Hin). cbn [fst snd add_log s_mem s_log].
  split; [apply LI_add0; auto | split; auto].
Qed.

Lemma a_as_ref_spec e sz pos s : wf_env e -> size32 sz -> i32 pos -> LI e (s_log s) ->
  rdpost e pos sz s (a_as_ref e sz pos s).
Proof. exact (a_get_spec e sz pos s). Qed.

Lemma a_get_bytes_spec e sz pos s : wf_env e -> size32 sz -> i32 pos -> LI e (s_log s) ->
  rdpost e pos sz s (a_get_bytes e sz pos s).
Proof. exact (a_get_spec e sz pos s). Qed.

Lemma a_get_volatile_spec e sz pos s : wf_env e -> size32 sz -> i32 pos -> LI e (s_log s) ->
  rdpost e pos sz s (a_get_volatile e sz pos s).
Proof.
  intros W Hsz Hpos L. unfold a_get_volatile.
  hook_step e pos s; [ | unfold rdpost; auto].
  check_step e pos sz s W; [ | unfold rdpost; auto].
  apply a_get_spec; auto.
Qed.

(* (off, len) with len an i32 that the accessor converts to usize after the check *)
Lemma rd_usz_spec e off len s : wf_env e -> i32 off -> i32 len -> LI e (s_log s) ->
  rdpost e off len s ((_ <~ hook e off ;; _ <~ check e off len ;; rd e off (usz len)) s).
Proof.
  intros W Ho Hl L. unfold rdpost.
  hook_step e off s; [ | auto].
  check_step e off len s W; [ | auto].
  assert (0 <= len) by (apply inside_spec in Hin; lia).
  rewrite usz_nonneg by assumption.
  rewrite (rd_ok e off len s W Hin). cbn [fst snd add_log s_mem s_log].
  split; [apply LI_add0; auto | split; auto].
Qed.

Lemma a_as_sub_slice_spec e idx len s : wf_env e -> i32 idx -> i32 len -> LI e (s_log s) ->
  rdpost e idx len s (a_as_sub_slice e idx len s).
Proof. exact (rd_usz_spec e idx len s). Qed.

Lemma a_get_string_without_length_spec e off len s : wf_env e -> i32 off -> i32 len -> LI e (s_log s) ->
  rdpost e off len s (a_get_string_without_length e off len s).
Proof. exact (rd_usz_spec e off len s). Qed.

Lemma a_get_string_length_spec e off s : wf_env e -> i32 off -> LI e (s_log s) ->
  rdpost e off 4 s (a_get_string_length e off s).
Proof.
  intros W Ho L. unfold a_get_string_length.
  hook_step e off s; [ | unfold rdpost; auto].
  check_step e off 4 s W; [ | unfold rdpost; auto].
  apply a_get_spec; auto. unfold size32, two31; lia.
Qed.

Lemma a_put_spec e sz pos v s : wf_env e -> size32 sz -> i32 pos -> LI e (s_log s) ->
  wrpost e pos sz v s (a_put e sz pos v s).
Proof.
  intros W Hsz Hpos L. unfold a_put, wrpost.
  split; [ | split].
  - hook_step e pos s; [ | auto].
    check_step e pos sz s W; [ | auto].
    rewrite (wr_ok e pos sz v s W Hin). cbn [fst snd s_log]. apply LI_add0; auto.
  - hook_step e pos s; [ | auto].
    check_step e pos sz s W; [ | auto].
    rewrite (wr_ok e pos sz v s W Hin). cbn [fst snd s_mem]. auto.
  - intros Hin. assert (0 <= pos) by (apply inside_spec in Hin; lia).
    bok (hook_total e pos s H). bok (check_total e pos sz s W Hpos (size32_i32 _ Hsz) Hin).
    rewrite (wr_ok e pos sz v s W Hin). reflexivity.
Qed.

Lemma a_put_ordered_spec e sz pos v s : wf_env e -> size32 sz -> i32 pos -> LI e (s_log s) ->
  wrpost e pos sz v s (a_put_ordered e sz pos v s).
Proof.
  intros W Hsz Hpos L. unfold a_put_ordered.
  pose proof (a_put_spec e sz pos v s W Hsz Hpos L) as P.
  unfold wrpost in *. split; [ | split].
  - hook_step e pos s; [ | auto]. check_step e pos sz s W; [ | auto]. apply P.
  - hook_step e pos s; [ | auto]. check_step e pos sz s W; [ | auto]. apply P.
  - intros Hin. assert (0 <= pos) by (apply inside_spec in Hin; lia).
    bok (hook_total e pos s H). bok (check_total e pos sz s W Hpos (size32_i32 _ Hsz) Hin). apply P; auto.
Qed.

Lemma a_put_atomic_i64_spec e off val s : wf_env e -> i32 off -> LI e (s_log s) ->
  wrpost e off 8 (le_byte val) s (a_put_atomic_i64 e off val s).
Proof.
  intros W Ho L. apply (a_put_spec e 8 off (le_byte val) s); auto. unfold size32, two31; lia.
Qed.

Lemma a_set_memory_spec e pos len val s : wf_env e -> i32 pos -> i32 len -> LI e (s_log s) ->
  wrpost e pos len (fun _ => val) s (a_set_memory e pos len val s).
Proof.
  intros W Hpos Hl L. unfold a_set_memory, wrpost.
  split; [ | split].
  - hook_step e pos s; [ | auto].
    check_step e pos len s W; [ | auto].
    assert (0 <= len) by (apply inside_spec in Hin; lia). rewrite usz_nonneg by assumption.
    rewrite (wr_ok e pos len _ s W Hin). cbn [fst snd s_log]. apply LI_add0; auto.
  - hook_step e pos s; [ | auto].
    check_step e pos len s W; [ | auto].
    assert (0 <= len) by (apply inside_spec in Hin; lia). rewrite usz_nonneg by assumption.
    rewrite (wr_ok e pos len _ s W Hin). cbn [fst snd s_mem]. auto.
  - intros Hin. assert (0 <= pos /\ 0 <= len) as [? ?] by (apply inside_spec in Hin; lia).
    bok (hook_total e pos s H). bok (check_total e pos len s W Hpos Hl Hin).
    rewrite usz_nonneg by assumption. rewrite (wr_ok e pos len _ s W Hin). reflexivity.
Qed.

(* ------------------------------------------------------------------ slice arguments *)
(* n = the length of the slice: below 2^31, or anything when the accessor converts it with a checked conversion *)
Definition slice_ok (checked : bool) (n : Z) : Prop := size32 n \/ (checked = true /\ 0 <= n).

Lemma slice_len_small chk n : size32 n -> slice_len chk n = Ok n.
Proof.
  intros H. unfold slice_len. rewrite (wrap32_size n H). unfold size32 in H.
  destruct chk; auto. replace (n <? two31) with true by lia. reflexivity.
Qed.

Lemma slice_len_cases chk n : slice_ok chk n -> (slice_len chk n = Ok n /\ size32 n) \/ slice_len chk n = Panic.
Proof.
  intros [H | [-> H]].
  - left. split; auto. apply slice_len_small; auto.
  - unfold slice_len. destruct (n <? two31) eqn:E; auto. left. split; auto. unfold size32. lia.
Qed.

Lemma inside_size32 e off n : wf_env e -> inside (e_cap e) off n = true -> size32 n.
Proof.
  intros W H. apply inside_spec in H. destruct W. unfold size32, i32, in_i32, two31 in *. lia.
Qed.

Lemma a_put_bytes_spec e off n f s : wf_env e -> i32 off -> slice_ok gen_chk_put_bytes n -> LI e (s_log s) ->
  wrpost e off n f s (a_put_bytes e off n f s).
Proof.
  intros W Ho Hn L. unfold a_put_bytes.
  destruct (slice_len_cases _ n Hn) as [[Hs Hsz] | Hs].
  - assert (Eq : a_put_bytes e off n f s = a_put e n off f s).
    { unfold a_put_bytes, a_put. destruct (hook_cases e off s) as [Hh | Hh].
      - rewrite !(bindM_ok _ _ _ _ _ Hh). rewrite (bind_lift_ok _ _ _ _ Hs). reflexivity.
      - rewrite !(bindM_panic _ _ _ _ Hh). reflexivity. }
    fold (a_put_bytes e off n f). rewrite Eq. apply a_put_spec; auto.
  - unfold wrpost. split; [ | split].
    + hook_step e off s; [ | auto]. rewrite (bind_lift_panic _ _ _ Hs). auto.
    + hook_step e off s; [ | auto]. rewrite (bind_lift_panic _ _ _ Hs). auto.
    + intros Hin. rewrite (slice_len_small _ n (inside_size32 e off n W Hin)) in Hs. discriminate.
Qed.

Lemma a_write_spec e n f s : wf_env e -> slice_ok gen_chk_put_bytes n -> LI e (s_log s) ->
  wrpost e 0 n f s (a_write e n f s).
Proof. intros. apply a_put_bytes_spec; auto. reflexivity. Qed.

(* ------------------------------------------------------------------ view, overlay_struct *)
Lemma view_env_wf e off len : wf_env e -> i32 len -> inside (e_cap e) off len = true -> wf_env (view_env e off len).
Proof.
  intros W Hl Hin. apply inside_spec in Hin. destruct W. constructor; cbn; auto; lia.
Qed.

Lemma a_view_spec e off len s : wf_env e -> i32 off -> i32 len ->
  a_view e off len s = (Panic, s) \/
  (inside (e_cap e) off len = true /\ wf_env (view_env e off len) /\
   a_view e off len s = (Ok (view_env e off len), add_log (0, e_base e + off, len) s)).
Proof.
  intros W Ho Hl. unfold a_view.
  hook_step e off s; [ | auto].
  check_step e off len s W; [ | auto].
  right. split; auto. split; [apply view_env_wf; auto | reflexivity].
Qed.

Lemma a_overlay_struct_spec e sz pos s : wf_env e -> size32 sz -> i32 pos ->
  a_overlay_struct e sz pos s = (Panic, s) \/
  (inside (e_cap e) pos sz = true /\
   a_overlay_struct e sz pos s = (Ok (e_base e + pos), add_log (0, e_base e + pos, sz) s)).
Proof.
  intros W Hsz Hp. unfold a_overlay_struct.
  hook_step e pos s; [ | auto].
  check_step e pos sz s W; [ | auto].
  right. split; auto.
Qed.

(* ------------------------------------------------------------------ frames *)
Definition frame (m m' : memory) (lo hi : Z) : Prop := forall i, ~ (lo <= i < hi) -> m' i = m i.

Lemma frame_refl m lo hi : frame m m lo hi.
Proof. intros i _. reflexivity. Qed.

Lemma frame_upd m a len f lo hi : lo <= a -> a + len <= hi -> frame m (upd m a len f) lo hi.
Proof. intros ? ? i Hi. unfold upd. destruct ((a <=? i) && (i <? a + len)) eqn:E; auto. lia. Qed.

Lemma frame_trans m1 m2 m3 lo hi : frame m1 m2 lo hi -> frame m2 m3 lo hi -> frame m1 m3 lo hi.
Proof. intros A B i Hi. rewrite (B i Hi). apply A; auto. Qed.

(* the weaker, uniform post used for everything that writes: a panic leaves memory as it was, a return means the
   range was inside the buffer and nothing outside the range changed *)
Definition wpost {A} (e : env) (off len : Z) (s : st) (res : outcome A * st) : Prop :=
  LI e (s_log (snd res)) /\
  match fst res with
  | Panic => s_mem (snd res) = s_mem s
  | Ok _ => inside (e_cap e) off len = true /\
            frame (s_mem s) (s_mem (snd res)) (e_base e + off) (e_base e + off + len)
  | _ => False
  end.

Lemma wrpost_wpost e off len f s res : wrpost e off len f s res -> wpost e off len s res.
Proof.
  intros (L & [[Hp Hm] | (Ho & Hin & Hm)] & _); unfold wpost; split; auto.
  - rewrite Hp. auto.
  - rewrite Ho. split; auto. rewrite Hm. apply frame_upd; lia.
Qed.

(* ------------------------------------------------------------------ compare_and_set, get_and_add, add_ordered *)
Lemma a_compare_and_set_spec e sz pos expd upd s : wf_env e -> size32 sz -> i32 pos -> LI e (s_log s) ->
  wpost e pos sz s (a_compare_and_set e sz pos expd upd s).
Proof.
  intros W Hsz Hp L. unfold a_compare_and_set, wpost.
  hook_step e pos s; [ | auto].
  check_step e pos sz s W; [ | auto].
  bok (rd_ok e pos sz s W Hin).
  destruct (signed sz (le_val (map (s_mem s) (zseq (e_base e + pos) sz))) =? expd).
  - rewrite (bindM_ok _ _ _ tt _ (wr_ok e pos sz _ _ W Hin)). cbn [ret fst snd s_log s_mem add_log].
    split; [ | split; auto; apply frame_upd; lia].
    apply log_inside_app; [apply LI_add0; auto | ]. unfold range_ok. cbn. apply inside_root; auto.
  - cbn [ret fst snd s_log s_mem add_log]. split; [apply LI_add0; auto | split; auto; apply frame_refl].
Qed.

Lemma a_get_and_add_i64_spec e off delta s : wf_env e -> i32 off -> LI e (s_log s) ->
  wpost e off 8 s (a_get_and_add_i64 e off delta s) /\
  (forall r, fst (a_get_and_add_i64 e off delta s) = Ok r -> r = map (s_mem s) (zseq (e_base e + off) 8)).
Proof.
  intros W Ho L. unfold a_get_and_add_i64, wpost.
  hook_step e off s; [ | split; [auto | intros; discriminate]].
  check_step e off 8 s W; [ | split; [auto | intros; discriminate]].
  bok (rd_ok e off 8 s W Hin).
  rewrite (bindM_ok _ _ _ tt _ (wr_ok e off 8 _ _ W Hin)). cbn [ret fst snd s_log s_mem add_log].
  split; [ | intros r Hr; injection Hr; auto].
  split; [ | split; auto; apply frame_upd; lia].
  apply log_inside_app; [apply LI_add0; auto | ]. unfold range_ok. cbn. apply inside_root; auto.
Qed.

Lemma add64_cases m a b : (exists c, add64 m a b = Ok c) \/ add64 m a b = Panic.
Proof. unfold add64, chk64. destruct (in_i64 (a + b)); [eauto | destruct m; eauto]. Qed.

Lemma add32_cases m a b : (exists c, add32 m a b = Ok c /\ i32 c /\ (in_i32 (a + b) = true -> c = a + b)
                                     /\ (in_i32 (a + b) = false -> c = wrap32 (a + b)))
                          \/ add32 m a b = Panic.
Proof.
  unfold add32, chk32. destruct (in_i32 (a + b)) eqn:E.
  - left. exists (a + b). repeat split; auto; discriminate.
  - destruct m; auto. left. exists (wrap32 (a + b)). repeat split; auto; try discriminate. apply wrap32_range.
Qed.

Lemma a_add_i64_ordered_spec e off delta s : wf_env e -> i32 off -> LI e (s_log s) ->
  wpost e off 8 s (a_add_i64_ordered e off delta s).
Proof.
  intros W Ho L. unfold a_add_i64_ordered.
  hook_step e off s; [ | unfold wpost; cbn [fst snd]; auto].
  check_step e off 8 s W; [ | unfold wpost; cbn [fst snd]; auto].
  assert (S8 : size32 8) by (unfold size32, two31; lia).
  pose proof (a_get_spec e 8 off s W S8 Ho L) as (L1 & M1 & R1).
  destruct (a_get e 8 off s) as [r s1] eqn:E. cbn [fst snd] in *.
  destruct R1 as [-> | [_ ->]].
  - bpanic E. unfold wpost. cbn [fst snd]. auto.
  - bok E.
    destruct (add64_cases (e_m e) (wrap64 (le_val (map (s_mem s) (zseq (e_base e + off) 8)))) delta) as [[c Hadd] | Hadd].
    + rewrite (bind_lift_ok _ _ _ _ Hadd).
      pose proof (wrpost_wpost _ _ _ _ _ _ (a_put_ordered_spec e 8 off (le_byte c) s1 W S8 Ho L1)) as P.
      unfold wpost in *. rewrite M1 in P. exact P.
    + rewrite (bind_lift_panic _ _ _ Hadd). unfold wpost. cbn [fst snd]. auto.
Qed.

(* ------------------------------------------------------------------ copy_from, as_slice *)
Lemma a_copy_from_spec e off soff len s : wf_env e -> i32 off -> i32 soff -> i32 len -> LI e (s_log s) ->
  LI e (s_log (snd (a_copy_from e off soff len s))) /\
  match fst (a_copy_from e off soff len s) with
  | Panic => s_mem (snd (a_copy_from e off soff len s)) = s_mem s
  | Ok _ => inside (e_cap e) off len = true /\ inside (e_scap e) soff len = true /\
            s_mem (snd (a_copy_from e off soff len s)) =
              upd (s_mem s) (e_base e + off) len (nth_byte (map (e_src e) (zseq soff len)))
  | _ => False
  end.
Proof.
  intros W Ho Hso Hl L. unfold a_copy_from.
  hook_step e off s; [ | auto].
  check_step e off len s W; [ | auto].
  destruct (check_src_cases e soff len s W Hso Hl) as [[Hc2 Hin2] | Hc2]; [bok Hc2 | bpanic Hc2; cbn [fst snd]; auto].
  assert (0 <= len) by (apply inside_spec in Hin; lia). rewrite usz_nonneg by assumption.
  bok (rd_src_ok e soff len s Hin2).
  rewrite (wr_ok e off len _ _ W Hin). cbn [fst snd s_log s_mem add_log].
  split; auto.
  apply log_inside_app; [apply LI_add1; auto | ]. unfold range_ok. cbn. apply inside_root; auto.
Qed.

Lemma a_as_slice_spec e s : wf_env e -> LI e (s_log s) ->
  a_as_slice e s = (Ok (map (s_mem s) (zseq (e_base e + 0) (e_cap e))), add_log (0, e_base e + 0, e_cap e) s) /\
  inside (e_cap e) 0 (e_cap e) = true.
Proof.
  intros W L. unfold a_as_slice. rewrite usz_nonneg by (apply W).
  assert (Hin : inside (e_cap e) 0 (e_cap e) = true) by (apply inside_spec; destruct W; lia).
  rewrite (rd_ok e 0 (e_cap e) s W Hin). auto.
Qed.

(* ------------------------------------------------------------------ strings *)
Definition string_len (mem : memory) (a : Z) : Z := wrap32 (le_val (map mem (zseq a 4))).

Lemma a_get_string_spec e off s : wf_env e -> i32 off -> LI e (s_log s) ->
  LI e (s_log (snd (a_get_string e off s))) /\ s_mem (snd (a_get_string e off s)) = s_mem s /\
  (fst (a_get_string e off s) = Panic \/
   (inside (e_cap e) off 4 = true /\
    inside (e_cap e) (off + 4) (string_len (s_mem s) (e_base e + off)) = true /\
    fst (a_get_string e off s) =
      Ok (map (s_mem s) (zseq (e_base e + (off + 4)) (string_len (s_mem s) (e_base e + off)))))).
Proof.
  intros W Ho L. unfold a_get_string.
  hook_step e off s; [ | auto].
  check_step e off 4 s W; [ | auto].
  assert (S4 : size32 4) by (unfold size32, two31; lia).
  pose proof (a_get_spec e 4 off s W S4 Ho L) as (L1 & M1 & R1).
  destruct (a_get e 4 off s) as [r s1] eqn:E. cbn [fst snd] in *.
  destruct R1 as [-> | [_ ->]].
  - bpanic E. cbn [fst snd]. auto.
  - bok E.
    assert (Hoff4 : in_i32 (off + 4) = true).
    { apply inside_spec in Hin. destruct W. unfold i32, in_i32, two31 in *. lia. }
    assert (Ha : add32 (e_m e) off 4 = Ok (off + 4)) by (unfold add32, chk32; rewrite Hoff4; reflexivity).
    rewrite (bind_lift_ok _ _ _ _ Ha).
    fold (string_len (s_mem s) (e_base e + off)).
    pose proof (a_get_string_without_length_spec e (off + 4) (string_len (s_mem s) (e_base e + off)) s1 W Hoff4
                  (wrap32_range _) L1) as (L2 & M2 & R2).
    split; auto. split; [congruence | ].
    destruct R2 as [R2 | [I2 R2]]; auto.
    right. split; auto. split; auto. rewrite R2, M1. reflexivity.
Qed.

Lemma upd_upd_frame m a n f1 f2 : 0 <= n -> frame m (upd (upd m a 4 f1) (a + 4) n f2) a (a + (n + 4)).
Proof.
  intros Hn. eapply frame_trans; apply frame_upd; lia.
Qed.

Lemma a_put_string_spec e off n f s : wf_env e -> i32 off -> slice_ok gen_chk_put_string n -> LI e (s_log s) ->
  wpost e off (n + 4) s (a_put_string e off n f s).
Proof.
  intros W Ho Hn0 L. unfold a_put_string.
  hook_step e off s; [ | unfold wpost; cbn [fst snd]; auto].
  destruct (slice_len_cases _ n Hn0) as [[Hs Hn] | Hs];
    [ rewrite (bind_lift_ok _ _ _ _ Hs) | rewrite (bind_lift_panic _ _ _ Hs); unfold wpost; cbn [fst snd]; auto ].
  destruct (add32_cases (e_m e) n 4) as [(l4 & Hl4 & Hi4 & Heq & Hwr) | Hl4];
    [ rewrite (bind_lift_ok _ _ _ _ Hl4) | rewrite (bind_lift_panic _ _ _ Hl4); unfold wpost; cbn [fst snd]; auto ].
  check_step e off l4 s W; [ | unfold wpost; cbn [fst snd]; auto].
  (* the check passed: l4 is the true sum and the rest cannot fail *)
  assert (l4 = n + 4) as ->.
  { destruct (in_i32 (n + 4)) eqn:E; auto. rewrite (Hwr eq_refl) in *.
    apply inside_spec in Hin. unfold size32, in_i32, wrap32, two31, two32 in *.
    exfalso. clear - Hin Hn E. Zify.zify. Z.div_mod_to_equations. lia. }
  assert (Hin' := Hin). apply inside_spec in Hin'.
  assert (S4 : size32 4) by (unfold size32, two31; lia).
  assert (I4 : inside (e_cap e) off 4 = true) by (apply inside_spec; unfold size32 in Hn; lia).
  pose proof (a_put_spec e 4 off (le_byte n) s W S4 Ho L) as (L1 & M1 & T1).
  specialize (T1 I4).
  destruct (a_put e 4 off (le_byte n) s) as [r s1] eqn:E. cbn [fst snd] in *. subst r.
  destruct M1 as [[? _] | (_ & _ & M1)]; [discriminate | ].
  bok E.
  assert (Hoff4 : in_i32 (off + 4) = true).
  { destruct W. unfold i32, size32, in_i32, two31 in *. lia. }
  assert (Ha : add32 (e_m e) off 4 = Ok (off + 4)) by (unfold add32, chk32; rewrite Hoff4; reflexivity).
  rewrite (bind_lift_ok _ _ _ _ Ha).
  assert (I5 : inside (e_cap e) (off + 4) n = true) by (apply inside_spec; unfold size32 in Hn; lia).
  pose proof (a_put_bytes_spec e (off + 4) n f s1 W Hoff4 (or_introl Hn) L1) as (L2 & M2 & T2).
  specialize (T2 I5). unfold wpost. split; auto. rewrite T2.
  destruct M2 as [[M2 _] | (_ & _ & M2)]; [rewrite T2 in M2; discriminate | ].
  split; auto. rewrite M2, M1.
  replace (e_base e + (off + 4)) with (e_base e + off + 4) by lia.
  apply upd_upd_frame. unfold size32 in Hn; lia.
Qed.

Lemma a_put_string_without_length_spec e off n f s :
  wf_env e -> i32 off -> slice_ok gen_chk_put_string_wl n -> LI e (s_log s) ->
  LI e (s_log (snd (a_put_string_without_length e off n f s))) /\
  match fst (a_put_string_without_length e off n f s) with
  | Panic => s_mem (snd (a_put_string_without_length e off n f s)) = s_mem s
  | Ok _ => inside (e_cap e) off n = true /\
            frame (s_mem s) (s_mem (snd (a_put_string_without_length e off n f s))) (e_base e) (e_base e + e_cap e)
  | _ => False
  end.
Proof.
  intros W Ho Hn0 L. unfold a_put_string_without_length.
  hook_step e off s; [ | auto].
  destruct (slice_len_cases _ n Hn0) as [[Hs Hn] | Hs];
    [ rewrite (bind_lift_ok _ _ _ _ Hs) | rewrite (bind_lift_panic _ _ _ Hs); cbn [fst snd]; auto ].
  check_step e off n s W; [ | auto].
  destruct (add32_cases (e_m e) off 4) as [(o4 & Ho4 & Hi4 & _) | Ho4];
    [ rewrite (bind_lift_ok _ _ _ _ Ho4) | rewrite (bind_lift_panic _ _ _ Ho4); cbn [fst snd]; auto ].
  pose proof (a_put_bytes_spec e o4 n f s W Hi4 (or_introl Hn) L) as (L1 & M1 & _).
  destruct (a_put_bytes e o4 n f s) as [r s1] eqn:E. cbn [fst snd] in *.
  destruct M1 as [[-> M1] | (-> & I1 & M1)].
  - bpanic E. cbn [fst snd]. auto.
  - bok E. cbn [ret fst snd]. split; auto. split; auto.
    rewrite M1. apply inside_spec in I1. apply frame_upd; lia.
Qed.
