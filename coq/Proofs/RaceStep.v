(* C03, race detector soundness, part 3: a new event of the discipline is happens-before-after every earlier conflicting event. *)
Require Import V.Base.MachineInt.
Require Import V.Model.Sched.
Require Import V.Proofs.RaceFold V.Proofs.RaceDisc.
From Coq Require Import Arith.PeanoNat ZifyBool.
Open Scope Z_scope.

Section Step.
  Variable cls : accessor -> aclass.
  Variable watch : Z -> bool.
  Notation GI := (GI cls watch).
  Notation role_ok := (role_ok cls watch).
  Notation past_ok := (past_ok cls).

  Ltac cls_false :=
    match goal with
    | H : cls ?a = _, X : is_write_class (cls ?a) = true |- _ => rewrite H in X; discriminate X
    | H : cls ?a = _, X : is_plain_class (cls ?a) = true |- _ => rewrite H in X; discriminate X
    end.

  Lemma step_no_race g clocks locs st e r : GI g clocks locs st -> role_ok g e r ->
    forall x, In x st -> bad cls watch x (e, mine_of cls e clocks locs) = false.
  Proof. intros I H [a va] Hin. unfold bad. cbn [fst snd].
    destruct (conflict cls watch a e) eqn:Ec; [|reflexivity]. cbn [andb].
    destruct (conflict_inv cls watch a e Ec) as (Htid & Hwa & Hreg & Ho1 & Ho2 & Hwr & Hpl).
    pose proof (gi_past _ _ _ _ _ _ I (a, va) Hin Hwa) as Pa. unfold RaceDisc.past_ok in Pa. cbn [fst snd] in Pa.
    destruct r as [| ext | so | | sees |]; cbn [RaceDisc.role_ok] in H.
    - (* elsewhere *) exfalso. rewrite Hreg in Hwa. congruence.
    - (* the first write of a frame: the negative length *)
      exfalso. destruct H as (Hw & Hcl & Hl & Hext & Hn & Hd & Hacq).
      destruct Pa as [(Hca & o & d & S1 & S2 & S3 & S4 & S5 & S6 & S6' & S7) | [(Hca & _) | (Hca & C0 & C1 & C2)]].
      + clear Ec Hwr Hpl. rewrite Hreg in S1. destruct (Hd _ _ S1); lia.
      + destruct Hpl as [X | X]; cls_false.
      + clear Ec Hwr Hpl. destruct (Z.eq_dec (e_len a) 0) as [Ez | Ez].
        * destruct (C2 Ez) as (os & ds & _ & Ss & Hr). rewrite Hreg in Ss. destruct (Hd _ _ Ss); lia.
        * destruct (C1 (Z.max (e_off a) (e_off e)) ltac:(lia)) as (os & ds & _ & Ss & Hr). rewrite Hreg in Ss. destruct (Hd _ _ Ss); lia.
    - (* a write of the owner inside its frame *)
      exfalso. destruct H as (Hw & Hcl & Hl & d0 & Hs0 & Hown & Hc0 & H1 & H2).
      destruct Pa as [(Hca & o & d & S1 & S2 & S3 & S4 & S5 & S6 & S6' & S7) | [(Hca & Hla & Ha) | (Hca & C0 & C1 & C2)]].
      + clear Ec Hwr Hpl. rewrite Hreg in S1. assert (o <> so) by (intros ->; congruence).
        destruct (gi_disj _ _ _ _ _ _ I _ _ _ _ _ S1 Hs0 ltac:(assumption)); lia.
      + clear Ec Hwr Hpl. rewrite Hreg in Ha. apply (gi_acq _ _ _ _ _ _ I _ _ _ _ Ha Hs0). lia.
      + clear Ec Hwr Hpl. assert (K : forall b, so <= b < so + ds_ext d0 -> e_off a <= b < e_off a + e_len a -> False).
        { intros b B1 B2. destruct (C1 b B2) as (os & ds & Sn & Ss & Hr). rewrite Hreg in Ss, Sn.
          destruct (gi_seen _ _ _ _ _ _ I _ _ _ Sn) as (d' & C & X1 & X2 & _).
          assert (os <> so) by (intros ->; congruence).
          destruct (gi_disj _ _ _ _ _ _ I _ _ _ _ _ Ss Hs0 ltac:(assumption)); lia. }
        destruct (Z.eq_dec (e_len a) 0) as [Ez | Ez].
        * destruct (C2 Ez) as (os & ds & Sn & Ss & Hr). rewrite Hreg in Ss, Sn.
          destruct (gi_seen _ _ _ _ _ _ I _ _ _ Sn) as (d' & C & X1 & X2 & _).
          assert (os <> so) by (intros ->; congruence).
          destruct (gi_disj _ _ _ _ _ _ I _ _ _ _ _ Ss Hs0 ltac:(assumption)); lia.
        * destruct (Z.eq_dec (e_len e) 0) as [Ee | Ee].
          -- apply (K (e_off e - 1)); lia.
          -- apply (K (Z.max (e_off a) (e_off e))); lia.
    - (* the commit *)
      exfalso. destruct H as (Hw & Hcl & Hl & d0 & Hs0 & Hown & Hc0).
      destruct (gi_watch _ _ _ _ _ _ I _ _ _ Hs0) as (_ & He0).
      destruct Pa as [(Hca & o & d & S1 & S2 & S3 & S4 & S5 & S6 & S6' & S7) | [(Hca & _) | (Hca & C0 & C1 & C2)]].
      + clear Ec Hwr Hpl. rewrite Hreg in S1. assert (o <> e_off e) by (intros ->; congruence).
        destruct (gi_disj _ _ _ _ _ _ I _ _ _ _ _ S1 Hs0 ltac:(assumption)); lia.
      + destruct Hpl as [X | X]; cls_false.
      + clear Ec Hwr Hpl. assert (K : forall os ds, dg_seen g (e_tid a) (e_reg e) os = true -> dg_slot g (e_reg e) os = Some ds ->
                      os + ds_ext ds <= e_off e \/ e_off e + ds_ext d0 <= os).
        { intros os ds Sn Ss. destruct (gi_seen _ _ _ _ _ _ I _ _ _ Sn) as (d' & C & X1 & X2 & _).
          assert (os <> e_off e) by (intros ->; congruence).
          apply (gi_disj _ _ _ _ _ _ I _ _ _ _ _ Ss Hs0). assumption. }
        destruct (Z.eq_dec (e_len a) 0) as [Ez | Ez].
        * destruct (C2 Ez) as (os & ds & Sn & Ss & Hr). rewrite Hreg in Ss, Sn. destruct (K _ _ Sn Ss); lia.
        * destruct (C1 (Z.max (e_off a) (e_off e)) ltac:(lia)) as (os & ds & Sn & Ss & Hr). rewrite Hreg in Ss, Sn.
          destruct (K _ _ Sn Ss); lia.
    - (* an acquire read of a length word *)
      exfalso. destruct H as (Hw & Hcl & Hl & Hin' & _).
      destruct Pa as [([Hca | Hca] & o & d & S1 & S2 & S3 & S4 & S5 & S6 & S6' & S7) | [(Hca & _) | (Hca & _)]].
      + clear Ec Hwr Hpl. rewrite Hreg in S1. specialize (S6 Hca). apply (Hin' _ _ S1). lia.
      + destruct Hpl as [X | X]; cls_false.
      + destruct Hwr as [X | X]; cls_false.
      + destruct Hwr as [X | X]; cls_false.
    - (* a plain read inside acquired frames *)
      destruct H as (Hw & Hcl & C0 & C1 & C2).
      destruct Pa as [(Hca & o & d & S1 & S2 & S3 & S4 & S5 & S6 & S6' & S7) | [(Hca & _) | (Hca & _)]].
      + clear Ec Hwr Hpl. rewrite Hreg in S1.
        (* the frame the earlier write went into is one the reader has acquired *)
        assert (K : dg_seen g (e_tid e) (e_reg e) o = true).
        { assert (Q : forall os ds, dg_seen g (e_tid e) (e_reg e) os = true -> dg_slot g (e_reg e) os = Some ds ->
                        (os + ds_ext ds <= o \/ o + ds_ext d <= os -> False) -> dg_seen g (e_tid e) (e_reg e) o = true).
          { intros os ds Sn Ss Hno. destruct (Z.eq_dec os o) as [-> | Hne]; [assumption|].
            exfalso. apply Hno. apply (gi_disj _ _ _ _ _ _ I _ _ _ _ _ Ss S1 Hne). }
          destruct (Z.eq_dec (e_len e) 0) as [Ee | Ee].
          - destruct (C2 Ee) as (os & ds & Sn & Ss & Hr). apply (Q _ _ Sn Ss). lia.
          - destruct (Z.eq_dec (e_len a) 0) as [Ez | Ez].
            + assert (Hpw : cls (e_acc a) = CPlainW) by (destruct Hca as [X | X]; [assumption | destruct (S6' X); lia]).
              specialize (S6 Hpw).
              destruct (C1 (e_off a - 1) ltac:(lia)) as (os & ds & Sn & Ss & Hr). apply (Q _ _ Sn Ss). lia.
            + destruct (C1 (Z.max (e_off a) (e_off e)) ltac:(lia)) as (os & ds & Sn & Ss & Hr). apply (Q _ _ Sn Ss). lia. }
        destruct (gi_seen _ _ _ _ _ _ I _ _ _ K) as (d' & C & X1 & X2 & X3 & X4).
        rewrite S1 in X1. inversion X1; subst d'. destruct (S7 X2) as (C' & Y1 & Y2).
        rewrite Hreg in Y1. rewrite X3 in Y1. inversion Y1; subst C'.
        unfold hb_before. cbn [fst snd]. apply Bool.negb_false_iff. apply Nat.leb_le. rewrite S2 in X4.
        pose proof (mine_ge cls e clocks locs (e_tid a)). unfold clk in *. lia.
      + exfalso. destruct Hwr as [X | X]; cls_false.
      + exfalso. destruct Hwr as [X | X]; cls_false. Qed.
End Step.
