(* C03: the system (publishers, environment, one polling subscriber), reachability under admissible steps with
   crash points (a stopped thread is simply never scheduled again), and the invariant Inv3. *)
Require Import V.Base.MachineInt.
Require Import V.Generated.GenConsts.
Require Import V.Model.LogBase.
Require Import V.Model.Descriptor.
Require Import V.Proofs.DescriptorProofs.
Require Import V.Model.Sched.
Require Import V.Model.AppenderThreads.
Require Import V.Model.ReaderThreads.
Require Import V.Proofs.TailArith.
Require Import V.Proofs.FragArith.
Require Import V.Proofs.AppenderInv.
Require Import V.Proofs.AppenderLemmas.
Require Import V.Proofs.AppenderFrame.
Require Import V.Proofs.AppenderSteps.
Require Import V.Proofs.AppenderFaa.
Require Import V.Proofs.AppenderRotate.
Require Import V.Proofs.AppenderSystem.
Require Import V.Proofs.C02Proofs.
Require Import V.Proofs.C02Quiescent.
Require Import V.Proofs.ReaderInv.
From Coq Require Import ZifyBool.
Open Scope Z_scope.

Definition pubs3 (th : nat -> rthread) : nat -> option plocal :=
  fun t => match th t with RApp (TPub l) => Some l | _ => None end.
Definition rdrs (th : nat -> rthread) : nat -> option rlocal :=
  fun t => match th t with RRd l => Some l | _ => None end.

Section C03.
  Variable c : cfg.
  Hypothesis W : wf_cfg c.

  Definition adm3 (s : shared) (gh : ghost) (th : nat -> rthread) (t : nat) : Prop :=
    match th t with
    | RApp (TPub l) =>
        adm_pub c s (pubs3 th) l /\
        (p_pc l = RCasTail -> sh_tail s (next_index l) = p_next l -> rd_clear c s (rdrs th) (gen_of c (p_next l)))
    | RApp (TEnv l) =>
        match e_ops l with
        | op :: _ => adm_env c s (pubs3 th) op /\ (match op with Clean p => rd_clear c s (rdrs th) (tg c s p) | _ => True end)
        | [] => True
        end
    | RApp TIdle => True
    | RRd l => adm_rd c s gh l
    end.

  Definition gstep3 (t : nat) (s : shared) (x : rthread) (gh : ghost) : ghost :=
    match x with RApp y => sys_gstep c t s y gh | RRd _ => gh end.

  Definition init_thread3 (x : rthread) : Prop :=
    match x with
    | RApp y => init_thread y
    | RRd l => exists polls limit, l = r_start polls limit [] []
    end.

  Inductive reach3 : shared -> (nat -> rthread) -> ghost -> Prop :=
  | reach3_init limit th :
      (forall t, init_thread3 (th t)) ->
      (forall t t' l l', th t = RRd l -> th t' = RRd l' -> t = t') ->
      reach3 (init_shared c limit) th ghost0
  | reach3_step s th gh t s' x' e :
      reach3 s th gh -> adm3 s gh th t -> rtstep c t s (th t) = Some (s', x', e) ->
      reach3 s' (upd_thread th t x') (gstep3 t s (th t) gh).

  Record Inv3 (s : shared) (gh : ghost) (th : nat -> rthread) : Prop := {
    i3_app : AppInv c s gh (pubs3 th);
    i3_sub : cursor_ok c s gh (sh_subpos s);
    i3_rd : forall t l, th t = RRd l -> rd_ok c s gh l;
    i3_one : forall t t' l l', th t = RRd l -> th t' = RRd l' -> t = t'
  }.

  (* ---- liveness of a generation under a publisher step ---- *)
  Lemma pstep_live s gh P t l s' l' e g : AppInv c s gh P -> P t = Some l -> adm_pub c s P l ->
    pstep c t s l = Some (s', l', e) -> live c s gh g -> c_n0 c <= g <= sh_count s + 1 ->
    (p_pc l = RCasTail -> sh_tail s (next_index l) = p_next l -> g <> gen_of c (p_next l)) ->
    live c s' (gstep_pub c t s l gh) g.
  Proof. intros I HP Hadm Hstep L Hg Hne. pose proof (iv_A c s gh P I) as A.
    assert (Same : forall s1, sh_tail s1 = sh_tail s -> live c s1 gh g).
    { intros s1 E. destruct L as (L1 & L2). split; [unfold tg; rewrite E; exact L1 | assumption]. }
    unfold pstep in Hstep. unfold gstep_pub.
    destruct (p_pc l) eqn:Hpc; try discriminate Hstep; inversion Hstep; subst s' l' e; clear Hstep; try (apply Same; reflexivity).
    - apply (faa_live c W s gh P t l I HP Hpc Hadm). assumption.
    - destruct (sh_tail s (next_index l) =? p_next l) eqn:Ecas; [|apply Same; reflexivity].
      apply Z.eqb_eq in Ecas.
      destruct (castail_facts c W s gh P t l I HP Hpc Hadm Ecas) as (Hgn & Hq & Hqr & Htg & Hnew & Htrip & Hz & Hnl & Hb & Hn0).
      specialize (Hne eq_refl Ecas).
      assert (Hgen : gen_of c (p_next l) = sh_count s - 2).
      { unfold gen_of. rewrite <- Ecas, Hq. fold (tg c s ((sh_count s + 1) mod 3)). exact Htg. }
      destruct (Z.eq_dec g (sh_count s + 1)) as [-> | Hne2].
      + (* the generation being rotated into cannot have been live before *)
        exfalso. destruct L as (L1 & _). lia.
      + apply (castail_live c W s gh P t l I HP Hpc Hadm Ecas g); [lia|]. split; [assumption | lia].
    - destruct (sh_count s =? p_count l); apply Same; reflexivity. Qed.

  Lemma pstep_claims_mono t s l gh g e : In e (g_claims gh g) -> In e (g_claims (gstep_pub c t s l gh) g).
  Proof. intros H. unfold gstep_pub. destruct (p_pc l); try assumption. apply claims_add_mono. assumption. Qed.

  Lemma pstep_subpos t s l s' l' e : pstep c t s l = Some (s', l', e) -> sh_subpos s' = sh_subpos s.
  Proof. unfold pstep. destruct (p_pc l); intros H; try discriminate H; inversion H; subst; try reflexivity;
    destruct (_ =? _); reflexivity. Qed.

  (* a generation a cursor is in is one the log has reached *)
  Lemma gen_upto_range s gh P g o : AppInv c s gh P -> gen_upto c s gh g o -> live c s gh g -> c_n0 c <= g <= sh_count s + 1.
  Proof. intros I (G1 & _) (L1 & _). pose proof (iv_A c s gh P I) as A.
    assert (Hp : 0 <= g mod 3 < 3) by (apply Z.mod_pos_bound; lia).
    pose proof (tg_window c s gh _ A Hp). lia. Qed.

  Lemma pupd_pubs3 th t l : forall t', pupd (pubs3 th) t l t' = pubs3 (upd_thread th t (RApp (TPub l))) t'.
  Proof. intros t'. unfold pupd, pubs3, upd_thread. destruct (Nat.eqb t' t); reflexivity. Qed.
  Lemma pubs3_other th t x : (forall l, x <> RApp (TPub l)) -> (forall l, th t <> RApp (TPub l)) ->
    forall t', pubs3 th t' = pubs3 (upd_thread th t x) t'.
  Proof. intros H1 H2 t'. unfold pubs3, upd_thread. destruct (Nat.eqb t' t) eqn:E; [|reflexivity].
    apply Nat.eqb_eq in E. subst t'. destruct x as [[l| |]|]; destruct (th t) as [[l'| |]|]; try reflexivity;
      try (exfalso; eapply H1; reflexivity); try (exfalso; eapply H2; reflexivity). Qed.

  (* ---- the subscriber's own steps ---- *)
  Lemma pos_split pos : 0 <= pos -> pos = (pos / TL c) * TL c + pos mod TL c /\ 0 <= pos mod TL c < TL c /\ 0 <= pos / TL c.
  Proof. intros Hp. destruct (TL_bounds c W) as (TB & _). pose proof (Z.div_mod pos (TL c) ltac:(lia)).
    pose proof (Z.mod_pos_bound pos (TL c) ltac:(lia)). assert (0 <= pos / TL c) by (apply Z.div_pos; lia). lia. Qed.

  (* advancing the cursor over the committed frame the reader is on *)
  Lemma advance s gh l : rd_ok c s gh l -> on_frame (r_pc l) = true ->
    gen_upto c s gh (rd_gen c l) (r_off l).
  Proof. intros (R1 & R2 & _) Hon. destruct (R1 (on_frame_in_poll _ Hon)) as (_ & _ & _ & _ & _ & Hgu).
    rewrite Hon in Hgu. destruct (R2 Hon) as (L & B2 & B3 & B4 & B5 & Wf & _).
    destruct Hgu as (G1 & G2 & G3 & G4 & G5).
    pose proof (align_pos (r_flen l) ltac:(lia)) as (A1 & A2). rewrite FA_32 in *.
    split; [assumption|]. split; [lia|]. split; [rewrite B4, Z.add_mod, G3, A2 by lia; reflexivity|].
    split; [intros _; assumption|]. intros _.
    apply (tiles_app c _ _ _ (r_foff l)); [apply G5; assumption|].
    econstructor; [exact Wf|]. rewrite B3, FA_32, <- B4. constructor. Qed.

  (* the loop head of term_reader::read and its exits keep the reader's invariant when the cursor is fine *)
  Lemma rd_loop_ok s gh l :
    sh_subpos s = r_pos l -> 0 <= r_pos l -> r_idx c l = rd_gen c l mod 3 -> r_toff0 l = r_pos l mod TL c ->
    base c (rd_gen c l) <= r_toff0 l <= r_off l ->
    gen_upto c s gh (rd_gen c l) (r_off l) -> rd_ok c s gh (r_loop c l).
  Proof. intros H1 H2 H3 H4 H5 H6.
    assert (Kin : forall pc, in_poll pc = true -> on_frame pc = false -> pc <> RSet \/ r_pos l < r_new_pos l -> rd_ok c s gh (rl_pc l pc)).
    { intros pc X1 X2 X3. unfold rd_ok. cbn [rl_pc r_pc r_pos r_off r_toff0 r_foff]. rewrite X2.
      change (rd_gen c (rl_pc l pc)) with (rd_gen c l). change (r_idx c (rl_pc l pc)) with (r_idx c l).
      split; [intros _; repeat (split; [assumption|]); assumption|].
      split; [intros; discriminate|]. split; [intros ->; discriminate|]. intros ->. destruct X3 as [X3 | X3]; [contradiction | exact X3]. }
    assert (Kfin : rd_ok c s gh (r_finish l)).
    { unfold r_finish, r_start, rd_ok. destruct (pred (r_polls l)); cbn; repeat split; intros; discriminate. }
    assert (Kend : rd_ok c s gh (r_end l)).
    { unfold r_end. destruct (r_pos l <? r_new_pos l) eqn:E; [apply Kin; auto; right; lia | exact Kfin]. }
    unfold r_loop. destruct (_ && _); [apply Kin; auto; left; discriminate | exact Kend]. Qed.

  Lemma rstep_inv s gh th t l s' l' e :
    Inv3 s gh th -> th t = RRd l -> adm_rd c s gh l -> rstep c t s l = Some (s', l', e) ->
    Inv3 s' gh (upd_thread th t (RRd l')).
  Proof. intros [I Isub Ird Ione] Ht Hadm Hstep. pose proof (Ird t l Ht) as Hrd.
    assert (Hpubs : forall t', pubs3 th t' = pubs3 (upd_thread th t (RRd l')) t').
    { apply pubs3_other; [intros; discriminate | rewrite Ht; intros; discriminate]. }
    assert (Hone' : forall t1 t2 l1 l2, upd_thread th t (RRd l') t1 = RRd l1 -> upd_thread th t (RRd l') t2 = RRd l2 -> t1 = t2).
    { intros t1 t2 l1 l2 X1 X2. unfold upd_thread in X1, X2.
      destruct (Nat.eqb t1 t) eqn:E1; destruct (Nat.eqb t2 t) eqn:E2.
      - apply Nat.eqb_eq in E1, E2. congruence.
      - apply Nat.eqb_eq in E1. subst t1. symmetry. eapply Ione; eauto.
      - apply Nat.eqb_eq in E2. subst t2. eapply Ione; eauto.
      - eapply Ione; eauto. }
    (* every step but RSet leaves the shared state alone *)
    assert (Same : s' = s -> rd_ok c s gh l' -> Inv3 s' gh (upd_thread th t (RRd l'))).
    { intros -> Hl'. constructor.
      - apply (AppInv_Pext c _ _ (pubs3 th)); assumption.
      - assumption.
      - intros t' l0 X. unfold upd_thread in X. destruct (Nat.eqb t' t) eqn:E; [inversion X; subst; assumption | eapply Ird; eauto].
      - assumption. }
    destruct (TL_bounds c W) as (TB & _).
    unfold rstep in Hstep. destruct (r_pc l) eqn:Hpc; try discriminate Hstep; inversion Hstep; subst s' l' e; clear Hstep.
    - (* RPos *)
      apply Same; [reflexivity|]. destruct Isub as (C1 & C2 & Hgu). pose proof Hgu as (G1 & _).
      apply rd_loop_ok; cbn [r_pos r_off r_toff0]; auto.
      + unfold r_idx. cbn [r_pos]. unfold rd_gen. cbn [r_pos]. apply (idx_pos c W); [assumption|]. unfold GB, two31 in *. lia.
      + apply (land_mask c W). assumption.
      + rewrite (land_mask c W) by assumption. destruct Hgu as (_ & X & _). unfold rd_gen. cbn [r_pos]. lia.
      + rewrite (land_mask c W) by assumption. exact Hgu.
    - (* RLen *)
      apply Same; [reflexivity|]. destruct Hrd as (R1 & _). rewrite Hpc in R1. destruct (R1 eq_refl) as (A1 & A2 & A3 & A4 & A5 & Hgu).
      cbn [on_frame] in Hgu. set (g := rd_gen c l) in *. set (sl := sh_mem s (r_idx c l) (r_off l)).
      destruct (s_len sl <=? 0) eqn:Elen.
      + (* nothing committed here: stop *)
        assert (Kfin : forall l1, rd_ok c s gh (r_finish l1)).
        { intros l1. unfold r_finish, r_start, rd_ok. destruct (pred (r_polls l1)); cbn; repeat split; intros; discriminate. }
        unfold r_end. cbn [r_pos r_off r_toff0]. unfold r_new_pos. cbn [r_pos r_off r_toff0].
        destruct (r_pos l <? r_pos l + (r_off l - r_toff0 l)) eqn:E; [|apply Kfin].
        unfold rd_ok. cbn [rl_pc r_pc r_pos r_off r_toff0 r_foff in_poll on_frame].
        split; [intros _; repeat (split; [assumption|]); assumption|].
        split; [intros; discriminate|]. split; [intros; discriminate|]. intros _. unfold r_new_pos. cbn. lia.
      + (* a committed frame *)
        assert (Hlen : 0 < s_len sl) by lia. unfold sl in Hlen. rewrite A3 in Hlen.
        unfold adm_rd in Hadm. rewrite Hpc in Hadm. fold g in Hadm.
        assert (L : live c s gh g).
        { destruct Hadm as [(X1 & X2) | X]; [split; assumption|]. rewrite X in Hlen. cbn in Hlen. lia. }
        destruct Hgu as (G1 & G2 & G3 & G4 & G5).
        destruct (committed_is_complete c W s gh (pubs3 th) g (r_off l) I L ltac:(lia) Hlen) as (e0 & He0 & Hin0).
        destruct (iv_ent c s gh (pubs3 th) I g e0 He0) as (_ & Ha & Ham & Hb & _).
        destruct (efrags_range c g e0 _ _ W Ha Ham Hb Hin0) as (_ & _ & Q3 & _ & Q5).
        pose proof (efrags_wf c W g e0 _ _ Ha Hin0) as Wf.
        unfold rd_ok. cbn [rl_pc r_pc r_pos r_off r_toff0 r_foff r_flen in_poll on_frame].
        change (rd_gen c (rl_pc _ RType)) with g. change (r_idx c (rl_pc _ RType)) with (r_idx c l).
        pose proof (align_pos (s_len sl) ltac:(unfold sl; rewrite A3; lia)) as (Q6 & _). rewrite FA_32 in *.
        split.
        { intros _. split; [assumption|]. split; [assumption|]. split; [assumption|]. split; [assumption|]. split; [lia|].
          split; [assumption|]. split; [assumption|]. split; [assumption|]. split; assumption. }
        split.
        { intros _. unfold sl. rewrite A3. split; [assumption|]. split; [assumption|]. split; [reflexivity|]. split; [reflexivity|].
          split; [lia|]. split; [assumption|]. exists e0. split; assumption. }
        split; intros; discriminate.
    - (* RType *)
      apply Same; [reflexivity|]. assert (Hon : on_frame (r_pc l) = true) by (rewrite Hpc; reflexivity).
      pose proof (advance s gh l Hrd Hon) as Hadv. pose proof Hrd as (R1 & R2 & _).
      destruct (R1 (on_frame_in_poll _ Hon)) as (A1 & A2 & A3 & A4 & A5 & _). destruct (R2 Hon) as (_ & B2 & _ & B4 & _).
      pose proof (align_pos (r_flen l) ltac:(lia)) as (Q6 & _). rewrite FA_32 in *.
      destruct (_ =? T_PAD).
      + apply rd_loop_ok; auto; lia.
      + unfold rd_ok in *. cbn [rl_pc r_pc r_pos r_off r_toff0 r_foff r_flen r_flags in_poll on_frame].
        change (rd_gen c (rl_pc l RFlags)) with (rd_gen c l). change (r_idx c (rl_pc l RFlags)) with (r_idx c l).
        rewrite Hpc in R1, R2. cbn [in_poll on_frame] in R1, R2.
        split; [exact R1|]. split; [exact R2|]. split; intros; discriminate.
    - (* RFlags *)
      apply Same; [reflexivity|]. pose proof Hrd as (R1 & R2 & _). rewrite Hpc in R1, R2. cbn [in_poll on_frame] in R1, R2.
      unfold rd_ok. cbn [r_pc r_pos r_off r_toff0 r_foff r_flen r_flags in_poll on_frame].
      destruct (R1 eq_refl) as (A1 & A2 & A3 & A4 & A5 & A6).
      split; [intros _; repeat (split; [assumption|]); exact A6|]. split; [exact R2|].
      split; [intros _; rewrite A3; reflexivity | intros; discriminate].
    - (* RBody *)
      apply Same; [reflexivity|]. assert (Hon : on_frame (r_pc l) = true) by (rewrite Hpc; reflexivity).
      pose proof (advance s gh l Hrd Hon) as Hadv. pose proof Hrd as (R1 & R2 & _).
      destruct (R1 (on_frame_in_poll _ Hon)) as (A1 & A2 & A3 & A4 & A5 & _). destruct (R2 Hon) as (_ & B2 & _ & B4 & _).
      pose proof (align_pos (r_flen l) ltac:(lia)) as (Q6 & _). rewrite FA_32 in *.
      apply rd_loop_ok; cbn [r_pos r_off r_toff0]; auto; lia.
    - (* RSet: publish the new position *)
      pose proof Hrd as (R1 & _ & _ & R4). rewrite Hpc in R1. destruct (R1 eq_refl) as (A1 & A2 & A3 & A4 & A5 & Hgu).
      cbn [on_frame] in Hgu. specialize (R4 Hpc). set (g := rd_gen c l) in *.
      destruct (pos_split (r_pos l) A2) as (P1 & P2 & P3). fold (rd_gen c l) in P1. fold g in P1, P3.
      assert (Hnew : r_new_pos l = g * TL c + r_off l) by (unfold r_new_pos; lia).
      destruct Hgu as (G1 & G2 & G3 & G4 & G5).
      constructor.
      + apply (AppInv_Pext c _ _ (pubs3 th)); [assumption|]. apply subpos_inv. assumption.
      + cbn [with_subpos sh_subpos]. rewrite Hnew.
        assert (Fr : forall g0 o0, gen_upto c s gh g0 o0 -> gen_upto c (with_subpos s (g * TL c + r_off l)) gh g0 o0) by (intros; assumption).
        destruct (Z.eq_dec (r_off l) (TL c)) as [E | E].
        * replace (g * TL c + r_off l) with ((g + 1) * TL c) by (rewrite E; ring).
          split; [nia|]. rewrite Z_div_mult, Z_mod_mult by lia. split; [lia|].
          assert (Lg : live c s gh g) by (apply G4; lia).
          pose proof (gen_upto_range s gh (pubs3 th) g (r_off l) I (conj G1 (conj G2 (conj G3 (conj G4 G5)))) Lg) as Hr.
          pose proof (iv_count c s gh (iv_A c s gh _ I)) as Hc.
          unfold gen_upto, base. replace (g + 1 =? c_n0 c) with false by lia.
          split; [lia|]. split; [lia|]. split; [reflexivity|]. split; [intros; lia | intros; constructor].
        * assert (D : (g * TL c + r_off l) / TL c = g) by (rewrite Z.div_add_l by lia; rewrite Z.div_small by lia; lia).
          assert (M : (g * TL c + r_off l) mod TL c = r_off l) by (rewrite Z.add_comm, Z_mod_plus_full; apply Z.mod_small; lia).
          split; [nia|]. rewrite D, M. split; [lia|]. exact (conj G1 (conj G2 (conj G3 (conj G4 G5)))).
      + intros t' l0 X. unfold upd_thread in X. destruct (Nat.eqb t' t) eqn:E.
        * inversion X; subst l0. unfold r_finish, r_start, rd_ok. destruct (pred (r_polls l)); cbn; repeat split; intros; discriminate.
        * apply Nat.eqb_neq in E. exfalso. apply E. eapply Ione; eauto.
      + assumption. Qed.

  Theorem reach3_inv s th gh : reach3 s th gh -> Inv3 s gh th.
  Proof. induction 1 as [limit th Hinit Hone | s th gh t s' x' e Hr IH Hadm Hstep].
    - (* initial configuration *)
      assert (I0 : AppInv c (init_shared c limit) ghost0 (pubs3 th)).
      { apply init_inv; [assumption|]. intros t l HP. unfold pubs3 in HP. specialize (Hinit t).
        destruct (th t) as [[l0| |]|]; try discriminate. inversion HP; subst. exact Hinit. }
      pose proof (wf_n0 c W) as Hn0. pose proof (wf_off0 c W) as (Ho0 & Hom). destruct (TL_bounds c W) as (TB & _).
      constructor; [assumption | | | assumption].
      + cbn [init_shared sh_subpos]. unfold cursor_ok.
        destruct (Z.eq_dec (c_off0 c) (TL c)) as [E | E].
        * replace (c_n0 c * TL c + c_off0 c) with ((c_n0 c + 1) * TL c) by (rewrite E; ring).
          rewrite Z_div_mult by lia. rewrite Z_mod_mult. split; [nia|]. split; [lia|].
          unfold gen_upto, base. replace (c_n0 c + 1 =? c_n0 c) with false by lia. unfold GB in *.
          split; [lia|]. split; [lia|]. split; [reflexivity|]. split; [intros; lia | intros; constructor].
        * assert (D : (c_n0 c * TL c + c_off0 c) / TL c = c_n0 c) by (rewrite Z.div_add_l by lia; rewrite Z.div_small by lia; lia).
          assert (M : (c_n0 c * TL c + c_off0 c) mod TL c = c_off0 c) by (rewrite Z.add_comm, Z_mod_plus_full; apply Z.mod_small; lia).
          rewrite D, M. split; [nia|]. split; [lia|].
          unfold gen_upto, base. rewrite Z.eqb_refl. unfold GB in *.
          split; [lia|]. split; [lia|]. split; [assumption|]. split; [intros; lia | intros; constructor].
      + intros t l Ht. specialize (Hinit t). rewrite Ht in Hinit. destruct Hinit as (polls & lim & ->).
        unfold rd_ok, r_start. destruct polls; cbn; repeat split; intros; discriminate.
    - (* a step *)
      pose proof IH as [I Isub Ird Ione]. pose proof (iv_A c s gh (pubs3 th) I) as A.
      unfold adm3 in Hadm. unfold rtstep in Hstep. unfold gstep3.
      destruct (th t) as [x | rl] eqn:Eth.
      + destruct (tstep c t s x) as [[[s1 x1] e1]|] eqn:Et; try discriminate. inversion Hstep; subst s' x' e. clear Hstep.
        unfold tstep in Et. unfold sys_gstep.
        assert (Hone' : forall y t1 t2 l1 l2, upd_thread th t (RApp y) t1 = RRd l1 -> upd_thread th t (RApp y) t2 = RRd l2 -> t1 = t2).
        { intros y t1 t2 l1 l2 H1 H2. unfold upd_thread in H1, H2.
          destruct (Nat.eqb t1 t) eqn:E1; [discriminate|]. destruct (Nat.eqb t2 t) eqn:E2; [discriminate|]. eapply Ione; eauto. }
        destruct x as [l | l |]; try discriminate.
        * (* publisher *)
          destruct (pstep c t s l) as [[[s2 l2] e2]|] eqn:Ep; try discriminate. inversion Et; subst s1 x1 e1. clear Et.
          destruct Hadm as (Hadm & Hclear).
          assert (HP : pubs3 th t = Some l) by (unfold pubs3; rewrite Eth; reflexivity).
          assert (F1 : forall p x, 0 < s_len (sh_mem s p x) -> sh_mem s2 p x = sh_mem s p x).
          { intros p x Hl. eapply committed_never_change; eauto. }
          assert (Hsub : sh_subpos s2 = sh_subpos s) by (eapply pstep_subpos; eauto).
          assert (F2 : forall g o, gen_upto c s gh g o -> live c s gh g ->
                         (p_pc l = RCasTail -> sh_tail s (next_index l) = p_next l -> g <> gen_of c (p_next l)) ->
                         live c s2 (gstep_pub c t s l gh) g).
          { intros g o Hgu L Hne. eapply pstep_live; eauto.
            pose proof (gen_upto_range s gh (pubs3 th) g o I Hgu L). lia. }
          constructor; [| | |apply Hone'].
          -- apply (AppInv_Pext c _ _ (pupd (pubs3 th) t l2)); [apply pupd_pubs3|]. eapply pub_step_inv; eauto.
          -- rewrite Hsub. eapply cursor_ok_frame; eauto. destruct Isub as (_ & _ & Hgu). intros L. eapply F2; eauto.
             intros X1 X2. destruct (Hclear X1 X2) as (C1 & _). congruence.
          -- intros t' l' Ht'. unfold upd_thread in Ht'. destruct (Nat.eqb t' t) eqn:E; [discriminate|].
             pose proof (Ird t' l' Ht') as Hrd. eapply rd_ok_frame; eauto.
             ++ intros Xin L. destruct Hrd as (R1 & _). destruct (R1 Xin) as (_ & _ & _ & _ & _ & Hgu). eapply F2; eauto.
                intros X1 X2. destruct (Hclear X1 X2) as (_ & C2).
                apply (C2 t' l'); [unfold rdrs; rewrite Ht'; reflexivity | assumption].
             ++ intros g e0. apply pstep_claims_mono.
        * (* environment *)
          unfold estep in Et. destruct (e_ops l) as [|op r] eqn:Eops; try discriminate.
          destruct Hadm as (Hadm & Hclear).
          assert (Hpubs : forall t', pubs3 th t' = pubs3 (upd_thread th t (RApp (TEnv (mkEL r (e_done l))))) t').
          { apply pubs3_other; [intros; discriminate | rewrite Eth; intros; discriminate]. }
          destruct op as [v | p]; inversion Et; subst s1 x1 e1; clear Et.
          -- constructor; [| | |apply Hone'].
             ++ apply (AppInv_Pext c _ _ (pubs3 th)); [assumption|]. apply setlimit_inv. assumption.
             ++ exact Isub.
             ++ intros t' l' Ht'. unfold upd_thread in Ht'. destruct (Nat.eqb t' t) eqn:E; [discriminate|]. exact (Ird t' l' Ht').
          -- destruct Hadm as (Hp & Hfull & Hnl). destruct Hclear as (Cs & Cr).
             constructor; [| | |apply Hone'].
             ++ apply (AppInv_Pext c _ _ (pubs3 th)); [assumption|]. apply (clean_inv c s gh (pubs3 th) I p). exact (conj Hp (conj Hfull Hnl)).
             ++ destruct Isub as (C1 & C2 & Hgu). split; [assumption|]. split; [assumption|].
                apply gen_upto_clean; auto.
             ++ intros t' l' Ht'. unfold upd_thread in Ht'. destruct (Nat.eqb t' t) eqn:E; [discriminate|].
                pose proof (Ird t' l' Ht') as (R1 & R2 & R3 & R4). unfold rd_ok.
                change (sh_subpos (with_mem s (mclean (sh_mem s) p))) with (sh_subpos s).
                assert (Hng : in_poll (r_pc l') = true -> rd_gen c l' <> tg c s p).
                { intros X. apply (Cr t' l'); [unfold rdrs; rewrite Ht'; reflexivity | assumption]. }
                assert (Hmem : on_frame (r_pc l') = true -> rd_gen c l' mod 3 <> p).
                { intros X. destruct (R2 X) as ((L1 & _) & _). intros Y. rewrite Y in L1. apply (Hng (on_frame_in_poll _ X)). lia. }
                split; [|split; [|split; [|exact R4]]].
                ** intros X. destruct (R1 X) as (A1 & A2 & A3 & A4 & A5 & A6).
                   split; [exact A1|]. split; [exact A2|]. split; [exact A3|]. split; [exact A4|]. split; [exact A5|].
                   apply gen_upto_clean; auto.
                ** intros X. destruct (R2 X) as (B1 & B2 & B3 & B4 & B5 & B6 & e0 & He0 & Hin0).
                   assert (Em : sh_mem (with_mem s (mclean (sh_mem s) p)) (rd_gen c l' mod 3) (r_foff l') = sh_mem s (rd_gen c l' mod 3) (r_foff l')).
                   { cbn. unfold mclean. destruct (rd_gen c l' mod 3 =? p) eqn:E2; [specialize (Hmem X); lia | reflexivity]. }
                   cbn zeta. rewrite Em.
                   split.
                   { destruct B1 as (L1 & L2). split; [exact L1|]. unfold gstep_env. destruct (c_n0 c <=? tg c s p); [|assumption].
                     cbn. destruct (rd_gen c l' =? tg c s p) eqn:E3; [specialize (Hng (on_frame_in_poll _ X)); lia | assumption]. }
                   repeat (split; [assumption|]). exists e0. split; [|assumption].
                   unfold gstep_env. destruct (c_n0 c <=? tg c s p); assumption.
                ** intros X. rewrite (R3 X). assert (Y : on_frame (r_pc l') = true) by (rewrite X; reflexivity).
                   cbn. unfold mclean. destruct (rd_gen c l' mod 3 =? p) eqn:E2; [specialize (Hmem Y); lia | reflexivity].
      + (* the subscriber *)
        destruct (rstep c t s rl) as [[[s1 l1] e1]|] eqn:Er; try discriminate. inversion Hstep; subst s' x' e. clear Hstep.
        eapply rstep_inv; eauto. Qed.

  (* ---- consequences stated for the property ---- *)

  (* a frame the subscriber is looking at (it saw a positive length word) is a committed, completely written frame of a
     claim: header fields and payload exactly what the publisher's message dictates *)
  Theorem never_torn s th gh t l : reach3 s th gh -> th t = RRd l -> on_frame (r_pc l) = true ->
    let g := rd_gen c l in let sl := sh_mem s (g mod 3) (r_foff l) in
    s_len sl = r_flen l /\ 0 < r_flen l /\ wf_slot c (tid_of c g) (r_foff l) sl /\
    exists e, In e (g_claims gh g) /\ In (r_foff l, sl) (efrags c g e).
  Proof. intros Hr Ht Hon. destruct (reach3_inv s th gh Hr) as [_ _ Ird _]. destruct (Ird t l Ht) as (_ & R2 & _).
    destruct (R2 Hon) as (_ & B2 & B3 & _ & _ & B6 & B7). auto. Qed.

  (* what the handler is given is that frame: its flags and its payload *)
  Theorem delivered_fragment s th gh t l s' l' e : reach3 s th gh -> th t = RRd l -> r_pc l = RBody ->
    rstep c t s l = Some (s', l', e) ->
    let g := rd_gen c l in let sl := sh_mem s (g mod 3) (r_foff l) in
    r_frags l' = r_frags l ++ [(r_foff l, s_len sl - HDR, s_flags sl, pad_to (Z.to_nat (s_len sl - HDR)) (s_body sl))] /\
    exists e0, In e0 (g_claims gh g) /\ In (r_foff l, sl) (efrags c g e0).
  Proof. intros Hr Ht Hpc Hstep. destruct (reach3_inv s th gh Hr) as [_ _ Ird _]. destruct (Ird t l Ht) as (R1 & R2 & R3 & _).
    rewrite Hpc in R1, R2. destruct (R1 eq_refl) as (_ & _ & A3 & _). destruct (R2 eq_refl) as (_ & _ & B3 & _ & _ & _ & B7).
    specialize (R3 Hpc). unfold rstep in Hstep. rewrite Hpc in Hstep. inversion Hstep; subst. clear Hstep.
    cbn zeta. split; [|exact B7].
    unfold r_loop, r_end, r_finish, r_start. cbn [r_nread r_limit r_off r_pos r_toff0 r_frags r_polls r_res].
    rewrite A3, <- B3, R3.
    destruct (_ && _); [reflexivity|]. unfold r_new_pos. cbn [r_pos r_off r_toff0]. destruct (_ <? _); [reflexivity|].
    destruct (pred (r_polls l)); reflexivity. Qed.

  (* the subscriber position counter never passes a frame that is not committed *)
  Theorem position_behind_commit s th gh : reach3 s th gh -> cursor_ok c s gh (sh_subpos s).
  Proof. intros Hr. apply (i3_sub _ _ _ (reach3_inv s th gh Hr)). Qed.

  (* ---- the executable run follows reach3 ---- *)
  Definition rs3_ok (r : @rstate shared rthread) (gh : ghost) : Prop := let '(s, th, g, tr) := r in reach3 s th gh.

  Fixpoint adm_sched3 (stop : nat -> option nat) (sched : list nat) (r : @rstate shared rthread) (gh : ghost) : Prop :=
    match sched with
    | [] => True
    | t :: rest =>
        match grant (rtstep c) stop t r with
        | Some r' => (let '(s, th, g, tr) := r in adm3 s gh th t /\ adm_sched3 stop rest r' (gstep3 t s (th t) gh))
        | None => adm_sched3 stop rest r gh
        end
    end.

  Theorem run_sched_reach3 stop sched : forall r gh, rs3_ok r gh -> adm_sched3 stop sched r gh ->
    exists gh', rs3_ok (run_sched (rtstep c) stop sched r) gh'.
  Proof. induction sched as [|t rest IH]; intros r gh Hr Ha; cbn [run_sched adm_sched3] in *.
    - exists gh. assumption.
    - destruct (grant (rtstep c) stop t r) as [r'|] eqn:E; [|eapply IH; eauto].
      destruct r as [[[s th] g] tr]. destruct Ha as (Ha1 & Ha2). eapply IH; [|exact Ha2].
      unfold grant, step_cfg in E. cbn [fst snd] in E. destruct (stopped stop g t); [discriminate|].
      destruct (rtstep c t s (th t)) as [[[s1 x1] e1]|] eqn:E2; [|discriminate]. inversion E; subst r'.
      unfold rs3_ok in *. eapply reach3_step; eauto. Qed.
End C03.
