(* Proofs for the liveness-timing model (Model/CondTimers.v) and its oracle (Oracle/C11Oracle.v):
   normal form of one duty cycle, well-formedness of reachable states, the monitor accepts the model,
   and the named C11 theorems.  Statements are collected in Props/C11.v. *)
Require Import V.Base.MachineInt V.Generated.GenConsts V.Model.CondTimers V.Oracle.C11Oracle.
From Coq Require Import ZifyBool.
Open Scope Z_scope.

Lemma in_lim_iff z : in_lim z = true <-> 0 <= z < LIM.
Proof. unfold in_lim, LIM. lia. Qed.

Lemma addu64_ok m a b : 0 <= a < LIM -> 0 <= b < LIM -> addu64 m a b = Ok (a + b).
Proof. unfold LIM, addu64, chku64, in_u64, two64. intros.
  replace ((0 <=? a + b) && (a + b <? 18446744073709551616)) with true by lia. reflexivity. Qed.

Lemma gt_sum_ok m now a b : 0 <= a < LIM -> 0 <= b < LIM -> gt_sum m now a b = Ok (now >? a + b).
Proof. intros. unfold gt_sum. rewrite addu64_ok by assumption. reflexivity. Qed.

(* ---- the duty cycle without the overflow plumbing ---- *)
Definition expired (c : cfg) (now hb : Z) : bool := (hb >=? 0) && (now >? hb + c_td c).

Definition hb_step (c : cfg) (s : st) (now : Z) (ctrs : list ctr) : st * list Z :=
  match hbc s with
  | Some id => if is_active (c_cid c) ctrs id then (set_hb s id (wrap64 now), [])
               else (close_all s, close_log s ++ [L_HEARTBEAT_LOST])
  | None => match find_counter (c_cid c) ctrs with
            | Some id => (set_hb s id (wrap64 now), [])
            | None => (s, [])
            end
  end.

Definition keepalive_p (c : cfg) (s : st) (now hb : Z) (ctrs : list ctr) : st * list Z :=
  let s1 := if expired c now hb then set_active s false else s in
  let l1 := if expired c now hb then [L_DRIVER_INACTIVE] else [] in
  (set_t_keep (fst (hb_step c s1 now ctrs)) now, l1 ++ snd (hb_step c s1 now ctrs)).

Definition late (c : cfg) (s : st) (now : Z) : bool := now >? t_work s + inter_ms c.
Definition due (s : st) (now : Z) : bool := now >? t_keep s + KEEPALIVE_TIMEOUT_MS.

Definition timeouts_p (c : cfg) (s : st) (now hb : Z) (ctrs : list ctr) : st * list Z * Z :=
  let s1 := if late c s now then close_all s else s in
  let l1 := if late c s now then close_log s ++ [L_SERVICE_TIMEOUT] else [] in
  let s2 := set_t_work s1 now in
  let r := if due s now then keepalive_p c s2 now hb ctrs else (s2, []) in
  let chk := now >? t_check s + RESOURCE_TIMEOUT_MS in
  (if chk then set_t_check (fst r) now else fst r, l1 ++ snd r, if due s now || chk then 1 else 0).

Lemma keepalive_eq m c s now hb ctrs :
  0 <= now < LIM -> hb < LIM -> 0 <= c_td c < LIM ->
  keepalive m c s now hb ctrs = Ok (keepalive_p c s now hb ctrs).
Proof.
  intros Hn Hh Ht. unfold keepalive, keepalive_p, expired.
  destruct (hb >=? 0) eqn:E.
  - rewrite addu64_ok by lia. cbn [bind andb].
    destruct (now >? hb + c_td c); unfold hb_step;
      destruct (hbc _); try destruct (is_active _ _ _); try destruct (find_counter _ _); reflexivity.
  - cbn [bind andb]. replace (now >? MAX_MOMENT) with false by (unfold MAX_MOMENT, GenConsts.MAX_MOMENT, LIM in *; lia).
    unfold hb_step; destruct (hbc _); try destruct (is_active _ _ _); try destruct (find_counter _ _); reflexivity.
Qed.

Lemma t_keep_close_all s : t_keep (close_all s) = t_keep s. Proof. unfold close_all. destruct (closed s); reflexivity. Qed.
Lemma t_check_close_all s : t_check (close_all s) = t_check s. Proof. unfold close_all. destruct (closed s); reflexivity. Qed.
Lemma hbc_close_all s : hbc (close_all s) = hbc s. Proof. unfold close_all. destruct (closed s); reflexivity. Qed.

Lemma t_check_hb_step c s now ctrs : t_check (fst (hb_step c s now ctrs)) = t_check s.
Proof. unfold hb_step. destruct (hbc s); try destruct (is_active _ _ _); try destruct (find_counter _ _); try reflexivity. apply t_check_close_all. Qed.

Lemma inter_ms_range c : 0 <= c_inter_ns c < LIM -> 0 <= inter_ms c < LIM.
Proof. unfold inter_ms, LIM. intros. split. apply Z.div_pos; lia.
  apply Z.le_lt_trans with (c_inter_ns c); try lia. apply Z.div_le_upper_bound; lia. Qed.

Lemma timeouts_eq m c s now hb ctrs :
  0 <= now < LIM -> hb < LIM -> 0 <= c_td c < LIM -> 0 <= c_inter_ns c < LIM ->
  0 <= t_work s < LIM -> 0 <= t_keep s < LIM -> 0 <= t_check s < LIM ->
  check_timeouts m c s now hb ctrs = Ok (timeouts_p c s now hb ctrs).
Proof.
  intros Hn Hh Ht Hi Hw Hk Hc. pose proof (inter_ms_range c Hi) as Him.
  unfold check_timeouts, timeouts_p, late, due.
  rewrite gt_sum_ok by assumption. cbn [bind].
  set (lt := now >? t_work s + inter_ms c).
  assert (Hk1 : t_keep (set_t_work (if lt then close_all s else s) now) = t_keep s) by (destruct lt; cbn; [apply t_keep_close_all|reflexivity]).
  destruct lt eqn:El; cbn [bind].
  - change (t_keep (set_t_work (close_all s) now)) with (t_keep (close_all s)). rewrite t_keep_close_all.
    rewrite gt_sum_ok by (cbn; unfold KEEPALIVE_TIMEOUT_MS, LIM in *; lia). cbn [bind].
    destruct (now >? t_keep s + KEEPALIVE_TIMEOUT_MS) eqn:Ed.
    + rewrite keepalive_eq by assumption. cbn [bind].
      destruct (keepalive_p c (set_t_work (close_all s) now) now hb ctrs) as [s3 l3] eqn:Ek.
      assert (t_check s3 = t_check s).
      { unfold keepalive_p in Ek. inversion Ek. cbn. rewrite t_check_hb_step. destruct (expired c now hb); cbn; apply t_check_close_all. }
      rewrite gt_sum_ok by (unfold RESOURCE_TIMEOUT_MS, LIM in *; lia). cbn [bind fst snd]. rewrite H. reflexivity.
    + cbn [bind]. change (t_check (set_t_work (close_all s) now)) with (t_check (close_all s)). rewrite t_check_close_all.
      rewrite gt_sum_ok by (unfold RESOURCE_TIMEOUT_MS, LIM in *; lia). cbn [bind fst snd]. reflexivity.
  - rewrite gt_sum_ok by (cbn; unfold KEEPALIVE_TIMEOUT_MS, LIM in *; lia). cbn [bind].
    replace (t_keep (set_t_work s now)) with (t_keep s) by reflexivity.
    destruct (now >? t_keep s + KEEPALIVE_TIMEOUT_MS) eqn:Ed.
    + rewrite keepalive_eq by assumption. cbn [bind].
      destruct (keepalive_p c (set_t_work s now) now hb ctrs) as [s3 l3] eqn:Ek.
      assert (t_check s3 = t_check s).
      { unfold keepalive_p in Ek. inversion Ek. cbn. rewrite t_check_hb_step. destruct (expired c now hb); reflexivity. }
      rewrite gt_sum_ok by (unfold RESOURCE_TIMEOUT_MS, LIM in *; lia). cbn [bind fst snd]. rewrite H. reflexivity.
    + cbn [bind]. rewrite gt_sum_ok by (cbn; unfold RESOURCE_TIMEOUT_MS, LIM in *; lia). cbn [bind fst snd]. reflexivity.
Qed.

(* ---- normal form of one run of the timers ---- *)
Definition fate_s (c : cfg) (s : st) (ctrs : list ctr) : hb_fate :=
  match hbc s with
  | Some id => if is_active (c_cid c) ctrs id then Refresh id else Lost
  | None => match find_counter (c_cid c) ctrs with Some id => Refresh id | None => Absent end
  end.
Definition is_lost (f : hb_fate) : bool := match f with Lost => true | _ => false end.
Definition keep_dest (rs : list reg) : list reg := filter (fun r => is_dest (r_kind r)) rs.

Definition tp_state (c : cfg) (s : st) (now hb : Z) (ctrs : list ctr) : st :=
  let f := fate_s c s ctrs in
  let d := due s now in
  mkSt now (if d then now else t_keep s)
       (if now >? t_check s + RESOURCE_TIMEOUT_MS then now else t_check s)
       (active s && negb (d && expired c now hb))
       (closed s || late c s now || (d && is_lost f))
       (if d then match f with Refresh id => Some id | _ => hbc s end else hbc s)
       (if d then match f with Refresh id => upd (vals s) (Z.to_nat id) (wrap64 now) | _ => vals s end else vals s)
       (next_id s)
       (if negb (closed s) && (late c s now || (d && is_lost f)) then keep_dest (regs s) else regs s).

Definition tp_log (c : cfg) (s : st) (now hb : Z) (ctrs : list ctr) : list Z :=
  (if late c s now then close_log s ++ [L_SERVICE_TIMEOUT] else []) ++
  (if due s now then (if expired c now hb then [L_DRIVER_INACTIVE] else []) ++
                     (if is_lost (fate_s c s ctrs) then (if closed s || late c s now then [] else [L_CLOSE]) ++ [L_HEARTBEAT_LOST] else [])
   else []).

Definition tp_work (s : st) (now : Z) : Z :=
  if due s now || (now >? t_check s + RESOURCE_TIMEOUT_MS) then 1 else 0.

Lemma timeouts_norm c s now hb ctrs :
  timeouts_p c s now hb ctrs = (tp_state c s now hb ctrs, tp_log c s now hb ctrs, tp_work s now).
Proof.
  unfold timeouts_p, tp_state, tp_log, tp_work, keepalive_p, hb_step, fate_s.
  destruct s as [tw tk tc ac cl hc vs ni rs]. cbn [t_work t_keep t_check active closed hbc vals next_id regs].
  unfold late, due. cbn [t_work t_keep t_check active closed hbc vals next_id regs].
  set (L := now >? tw + inter_ms c). set (D := now >? tk + KEEPALIVE_TIMEOUT_MS).
  set (K := now >? tc + RESOURCE_TIMEOUT_MS). set (E := expired c now hb).
  destruct L, D, K, E, ac, cl; cbn -[Z.add Z.gtb wrap64 upd Z.to_nat];
    destruct hc as [id|]; cbn -[Z.add Z.gtb wrap64 upd Z.to_nat];
    try destruct (is_active (c_cid c) ctrs id); try destruct (find_counter (c_cid c) ctrs);
    cbn -[Z.add Z.gtb wrap64 upd Z.to_nat]; reflexivity.
Qed.

(* ---- well-formed states (all reachable ones are) ---- *)
Definition reg_ok (n : Z) (r : reg) : Prop := 0 <= r_time r < LIM /\ r_id r < n.
Definition wf (s : st) : Prop :=
  0 <= t_work s < LIM /\ 0 <= t_keep s < LIM /\ 0 <= t_check s < LIM /\ Forall (reg_ok (next_id s)) (regs s).

Definition ev_regs (ev : option (Z * Z)) (rs : list reg) : list reg :=
  match ev with
  | Some (id, code) => if code =? CHANNEL_ENDPOINT_ERROR then rs else on_error_response id code rs
  | None => rs
  end.
Definition ev_n (ev : option (Z * Z)) : Z := match ev with Some _ => 1 | None => 0 end.

Lemma on_event_eq s ev : on_event s ev = (set_regs s (ev_regs ev (regs s)), ev_n ev).
Proof. destruct s; destruct ev as [[id code]|]; cbn; try reflexivity. destruct (code =? _); reflexivity. Qed.

Lemma set_err_ok n k id code rs : Forall (reg_ok n) rs -> Forall (reg_ok n) (set_err k id code rs).
Proof. unfold set_err. induction 1; cbn; constructor; auto. destruct (reg_is k id x); auto. Qed.

Lemma ev_regs_ok n ev rs : Forall (reg_ok n) rs -> Forall (reg_ok n) (ev_regs ev rs).
Proof. intros H. destruct ev as [[id code]|]; cbn; auto. destruct (code =? _); auto.
  unfold on_error_response. repeat (destruct (has_reg _ _ _); [apply set_err_ok; assumption|]). assumption. Qed.

Lemma filter_ok n (f : reg -> bool) rs : Forall (reg_ok n) rs -> Forall (reg_ok n) (filter f rs).
Proof. induction 1; cbn; auto. destruct (f x); auto. Qed.

Lemma wrap64_lim z : 0 <= z < LIM -> wrap64 z = z.
Proof. intros. apply wrap64_id. unfold in_i64, two63, LIM in *. lia. Qed.

Definition cyc_st (c : cfg) (s : st) (now hb : Z) (ctrs : list ctr) (ev : option (Z * Z)) : st :=
  tp_state c (set_regs s (ev_regs ev (regs s))) now hb ctrs.
Definition cyc_obs (c : cfg) (s : st) (now hb : Z) (ctrs : list ctr) (ev : option (Z * Z)) : obs :=
  let s1 := set_regs s (ev_regs ev (regs s)) in
  let s2 := tp_state c s1 now hb ctrs in
  OCycle (Ok (ev_n ev + tp_work s1 now)) (tp_log c s1 now hb ctrs) (b2z (active s2)) (b2z (closed s2)) (vals s2).

Lemma do_cycle_norm m c s now hb ctrs ev :
  wf s -> cfg_ok c = true -> 0 <= now < LIM -> hb < LIM ->
  do_cycle m c s now hb ctrs ev = Some (cyc_st c s now hb ctrs ev, cyc_obs c s now hb ctrs ev).
Proof.
  intros (Hw & Hk & Hc & Hr) Hcfg Hn Hh. unfold cfg_ok in Hcfg. rewrite !andb_true_iff, !in_lim_iff in Hcfg.
  destruct Hcfg as ((Htd & Hl) & Hi). unfold do_cycle, cyc_st, cyc_obs. rewrite on_event_eq.
  rewrite timeouts_eq by (cbn; assumption). rewrite timeouts_norm. reflexivity.
Qed.

Lemma tp_state_wf c s now hb ctrs : wf s -> 0 <= now < LIM -> wf (tp_state c s now hb ctrs).
Proof.
  intros (Hw & Hk & Hc & Hr) Hn. unfold wf, tp_state. cbn [t_work t_keep t_check next_id regs].
  repeat split; try lia; try (destruct (due s now); lia); try (destruct (now >? _); lia).
  destruct (negb (closed s) && _); unfold keep_dest; try apply filter_ok; assumption.
Qed.

Lemma set_regs_wf s rs : wf s -> Forall (reg_ok (next_id s)) rs -> wf (set_regs s rs).
Proof. intros (Hw & Hk & Hc & Hr) H. repeat split; cbn; try lia. assumption. Qed.

Lemma reg_ok_mono n r : reg_ok n r -> reg_ok (n + 1) r.
Proof. unfold reg_ok. lia. Qed.

Lemma do_add_wf s k now s' r : wf s -> 0 <= now < LIM -> do_add s k now = (s', r) -> wf s'.
Proof.
  intros Hwf Hn. unfold do_add. destruct (negb (active s)); [intros H; inversion H; subst; assumption|].
  destruct (closed s); intros H; inversion H; subst; clear H; try assumption.
  destruct Hwf as (Hw & Hk & Hc & Hr). repeat split; cbn; try lia.
  constructor. split; cbn; lia. eapply Forall_impl; [|exact Hr]. intros; apply reg_ok_mono; assumption.
Qed.

Lemma find_reg_ok n f rs q : Forall (reg_ok n) rs -> find f rs = Some q -> reg_ok n q.
Proof. intros H Hf. apply find_some in Hf. destruct Hf as [Hin _]. rewrite Forall_forall in H. auto. Qed.

(* find_* in normal form *)
Definition find_p (c : cfg) (s : st) (k : rkind) (id now : Z) : st * outcome Z :=
  if closed s then (s, Err Closed) else
  match find (reg_is k id) (regs s) with
  | None => (s, Err NotFound)
  | Some r =>
      match r_status r with
      | Awaiting => (s, if now >? r_time r + c_td c then Err NoResponse else if is_dest k then Ok 0 else Err NotReady)
      | Errored code => (if is_dest k then s else set_regs s (filter (fun r => negb (reg_is k id r)) (regs s)),
                         Err (Registration code))
      end
  end.

Lemma do_find_norm m c s k id now :
  wf s -> cfg_ok c = true -> do_find m c s k id now = Some (find_p c s k id now).
Proof.
  intros (Hw & Hk & Hc & Hr) Hcfg. unfold cfg_ok in Hcfg. rewrite !andb_true_iff, !in_lim_iff in Hcfg.
  destruct Hcfg as ((Htd & Hl) & Hi). unfold do_find, find_p. destruct (closed s); [reflexivity|].
  destruct (find (reg_is k id) (regs s)) as [q|] eqn:Ef; [|reflexivity].
  pose proof (find_reg_ok _ _ _ _ Hr Ef) as [Hq _].
  destruct (r_status q); [|reflexivity]. rewrite gt_sum_ok by assumption.
  destruct (now >? r_time q + c_td c); reflexivity.
Qed.

Lemma find_p_wf c s k id now : wf s -> wf (fst (find_p c s k id now)).
Proof.
  intros Hwf. unfold find_p. destruct (closed s); [assumption|].
  destruct (find _ _) as [q|]; [|assumption]. destruct (r_status q); [assumption|].
  destruct (is_dest k); [assumption|]. cbn [fst]. apply set_regs_wf; [assumption|].
  apply filter_ok. apply Hwf.
Qed.

Lemma init_wf c t0 : 0 <= t0 < LIM -> wf (init c t0).
Proof. intros. repeat split; cbn; try lia. constructor. Qed.

(* every in-domain operation succeeds from a well-formed state and keeps it well-formed *)
Lemma step_total m c s o :
  wf s -> cfg_ok c = true -> op_ok o = true -> exists s' ob, step m c s o = Some (s', ob) /\ wf s' /\ ob <> OPanic.
Proof.
  intros Hwf Hcfg Ho. destruct o as [now hb ctrs ev | k now | k id now]; cbn in Ho.
  - rewrite andb_true_iff, in_lim_iff in Ho. destruct Ho as [Hn Hh]. assert (hb < LIM) by lia.
    cbn [step]. rewrite do_cycle_norm by assumption. eexists _, _. split; [reflexivity|]. split; [|unfold cyc_obs; discriminate].
    unfold cyc_st. apply tp_state_wf; [|assumption]. apply set_regs_wf; [assumption|]. apply ev_regs_ok. apply Hwf.
  - rewrite in_lim_iff in Ho. cbn [step]. destruct (do_add s k now) as [s' r] eqn:E.
    eexists _, _. split; [reflexivity|]. split; [|discriminate]. eapply do_add_wf; eauto.
  - cbn [step]. rewrite do_find_norm by assumption. destruct (find_p c s k id now) as [s' r] eqn:E.
    eexists _, _. split; [reflexivity|]. split; [|discriminate].
    change s' with (fst (s', r)). rewrite <- E. apply find_p_wf; assumption.
Qed.

(* ---- the monitor accepts the model's observations ---- *)
Definition sim (mo : mon) (s : st) : Prop :=
  m_prev mo = t_work s /\ m_keep mo = t_keep s /\ m_dead mo = negb (active s) /\ m_closed mo = closed s /\
  m_ctr mo = hbc s /\ m_vals mo = vals s /\ (closed s = false -> m_regs mo = regs s).

Lemma list_eqb_refl l : list_eqb l l = true.
Proof. induction l; cbn; auto. rewrite Z.eqb_refl. assumption. Qed.

Lemma has_log c s now hb ctrs :
  let l := tp_log c s now hb ctrs in
  let lost := due s now && is_lost (fate_s c s ctrs) in
  has L_SERVICE_TIMEOUT l = late c s now /\ has L_DRIVER_INACTIVE l = due s now && expired c now hb /\
  has L_HEARTBEAT_LOST l = lost /\ has L_CLOSE l = negb (closed s) && (late c s now || lost).
Proof.
  cbv zeta. unfold tp_log, close_log.
  destruct (closed s), (late c s now), (due s now), (expired c now hb), (is_lost (fate_s c s ctrs)); vm_compute; auto.
Qed.

Lemma if_some {A} (b : bool) (X : A) (P : A -> Prop) :
  b = true -> P X -> exists y, (if b then Some X else None) = Some y /\ P y.
Proof. intros -> H. exists X. auto. Qed.

Lemma sim_cycle m c mo s now hb ctrs ev :
  sim mo s -> wf s -> cfg_ok c = true -> 0 <= now < LIM -> hb < LIM ->
  exists s' ob mo', do_cycle m c s now hb ctrs ev = Some (s', ob) /\
                    mon_step c mo (Cycle now hb ctrs ev) ob = Some mo' /\ sim mo' s'.
Proof.
  intros (Hp & Hk & Hd & Hc & Hct & Hv & Hr) Hwf Hcfg Hn Hh.
  rewrite do_cycle_norm by assumption.
  exists (cyc_st c s now hb ctrs ev), (cyc_obs c s now hb ctrs ev).
  cut (exists mo', mon_step c mo (Cycle now hb ctrs ev) (cyc_obs c s now hb ctrs ev) = Some mo' /\ sim mo' (cyc_st c s now hb ctrs ev)).
  { intros (mo' & A & B). exists mo'. auto. }
  unfold cyc_st, cyc_obs. cbv zeta.
  set (s1 := set_regs s (ev_regs ev (regs s))).
  cbn [mon_step]. unfold mon_cycle.
  pose proof (has_log c s1 now hb ctrs) as HL. cbv zeta in HL. destruct HL as (H1 & H2 & H3 & H0).
  assert (Hlate : (now >? m_prev mo + inter_ms c) = late c s1 now) by (unfold late; rewrite Hp; reflexivity).
  assert (Hdue : (now >? m_keep mo + KEEPALIVE_TIMEOUT_MS) = due s1 now) by (unfold due; rewrite Hk; reflexivity).
  assert (Hfate : hb_fate_of c mo ctrs = fate_s c s1 ctrs) by (unfold hb_fate_of, fate_s; rewrite Hct; reflexivity).
  rewrite Hlate, Hdue, Hfate. fold (expired c now hb).
  unfold tp_state. cbn [active closed vals].
  replace (active s1) with (active s) by reflexivity. replace (closed s1) with (closed s) by reflexivity.
  replace (vals s1) with (vals s) by reflexivity. replace (hbc s1) with (hbc s) by reflexivity.
  replace (t_keep s1) with (t_keep s) by reflexivity.
  rewrite Hd, Hc, Hv. rewrite (wrap64_lim now Hn).
  remember (late c s1 now) as L eqn:HeL. remember (due s1 now) as D eqn:HeD.
  remember (expired c now hb) as E eqn:HeE. remember (fate_s c s1 ctrs) as F eqn:HeF.
  apply if_some.
  - rewrite H1, H2, H3.
    assert (HF : (match (if D then F else Absent) with Lost => true | _ => false end) = D && is_lost F)
      by (destruct D, F; reflexivity).
    rewrite HF. rewrite !eqb_reflx.
    assert (Ha : (b2z (active s && negb (D && E)) =? b2z (negb (negb (active s) || D && E))) = true)
      by (destruct (active s), D, E; reflexivity).
    rewrite Ha, Z.eqb_refl.
    assert (Hvs : list_eqb (if D then match F with Refresh id => upd (vals s) (Z.to_nat id) now | _ => vals s end else vals s)
                    (match (if D then F else Absent) with Refresh id => upd (vals s) (Z.to_nat id) now | _ => vals s end) = true).
    { destruct D; [|apply list_eqb_refl]. destruct F; apply list_eqb_refl. }
    rewrite Hvs. reflexivity.
  - unfold sim. cbn [m_prev m_keep m_dead m_closed m_ctr m_vals m_regs t_work t_keep active closed hbc vals regs].
    repeat split.
    + rewrite Hk. reflexivity.
    + destruct (active s), D, E; reflexivity.
    + destruct D, F; reflexivity.
    + rewrite Hct. destruct D; [destruct F|]; reflexivity.
    + intros Hcl. destruct (closed s) eqn:Ecl; [discriminate|]. cbn [orb] in Hcl.
      destruct L; [discriminate|]. cbn [orb] in Hcl. rewrite Hcl.
      rewrite (Hr eq_refl). reflexivity.
Qed.

Lemma res_eqb_refl r : (match r with Ok _ | Err NoResponse | Err NotReady | Err DriverInactive | Err NotFound | Err Closed | Err (Registration _) => True | _ => False end) ->
  res_eqb r r = true.
Proof. destruct r as [x|e| | |]; cbn; try tauto. intros _; apply Z.eqb_refl.
  destruct e; cbn; try tauto. intros _; apply Z.eqb_refl. Qed.

Lemma fresh_id n rs : Forall (reg_ok n) rs -> existsb (fun q => r_id q =? n) rs = false.
Proof. induction 1; cbn; auto. rewrite IHForall. destruct H. replace (r_id x =? n) with false by lia. reflexivity. Qed.

Lemma sim_add c mo s k now s' r :
  sim mo s -> wf s -> do_add s k now = (s', r) ->
  exists mo', mon_step c mo (Add k now) (OApi r) = Some mo' /\ sim mo' s'.
Proof.
  intros (Hp & Hk & Hd & Hc & Hct & Hv & Hr) Hwf. unfold do_add. cbn [mon_step]. unfold mon_add. rewrite Hd, Hc.
  destruct (active s) eqn:Ea; cbn [negb].
  - destruct (closed s) eqn:Ec; intros H; inversion H; subst; clear H.
    + cbn. eexists; split; [reflexivity|]. repeat split; auto; try (rewrite Ea; auto); try (intros; congruence).
    + rewrite (Hr eq_refl). rewrite fresh_id by apply Hwf. eexists; split; [reflexivity|].
      repeat split; cbn; auto; try (rewrite Ea; auto); try (intros; congruence).
  - intros H; inversion H; subst; clear H. cbn. eexists; split; [reflexivity|]. repeat split; auto; try (rewrite Ea; auto); try (intros; congruence).
Qed.

Lemma mon_add_cfg c c' mo k now r : mon_step c mo (Add k now) (OApi r) = mon_step c' mo (Add k now) (OApi r).
Proof. reflexivity. Qed.

Ltac fin := repeat split; auto; try (intros; congruence).

Lemma sim_find c mo s k id now :
  sim mo s ->
  exists mo', mon_step c mo (Find k id now) (OApi (snd (find_p c s k id now))) = Some mo' /\ sim mo' (fst (find_p c s k id now)).
Proof.
  intros (Hp & Hk & Hd & Hc & Hct & Hv & Hr). cbn [mon_step]. unfold mon_find, find_p. rewrite Hc.
  destruct (closed s) eqn:Ec.
  - cbn. eexists; split; [reflexivity|]. fin.
  - rewrite (Hr eq_refl). destruct (find (reg_is k id) (regs s)) as [q|] eqn:Ef.
    + destruct (r_status q) as [|code] eqn:Es.
      * cbn [fst snd]. destruct (now >? r_time q + c_td c).
        -- cbn. eexists; split; [reflexivity|]. fin.
        -- rewrite res_eqb_refl by (destruct (is_dest k); exact I). eexists; split; [reflexivity|]. fin.
      * cbn [fst snd]. cbn [res_eqb err_eqb]. rewrite Z.eqb_refl. eexists; split; [reflexivity|].
        destruct (is_dest k); repeat split; cbn; auto; try (intros; congruence).
    + cbn. eexists; split; [reflexivity|]. fin.
Qed.

Lemma sim_step m c mo s o :
  sim mo s -> wf s -> cfg_ok c = true -> op_ok o = true ->
  exists s' ob mo', step m c s o = Some (s', ob) /\ mon_step c mo o ob = Some mo' /\ sim mo' s' /\ wf s'.
Proof.
  intros Hsim Hwf Hcfg Ho.
  destruct (step_total m c s o Hwf Hcfg Ho) as (s' & ob & Hst & Hwf' & _).
  exists s', ob. destruct o as [now hb ctrs ev | k now | k id now]; cbn in Ho.
  - rewrite andb_true_iff, in_lim_iff in Ho. destruct Ho as [Hn Hh]. apply Z.ltb_lt in Hh.
    destruct (sim_cycle m c mo s now hb ctrs ev Hsim Hwf Hcfg Hn Hh) as (s2 & ob2 & mo' & A & B & C).
    cbn [step] in Hst. rewrite A in Hst. inversion Hst; subst. exists mo'. split; [exact A|]. split; [exact B|]. split; assumption.
  - cbn [step] in Hst. destruct (do_add s k now) as [s2 r] eqn:E. inversion Hst; subst.
    destruct (sim_add c mo s k now s' r Hsim Hwf E) as (mo' & A & B). exists mo'.
    split; [cbn [step]; rewrite E; reflexivity|]. split; [exact A|]. split; assumption.
  - cbn [step] in Hst. rewrite do_find_norm in Hst by assumption.
    destruct (sim_find c mo s k id now Hsim) as (mo' & A & B).
    destruct (find_p c s k id now) as [s2 r] eqn:E. inversion Hst; subst. exists mo'.
    split; [cbn [step]; rewrite do_find_norm by assumption; rewrite E; reflexivity|]. split; [exact A|]. split; assumption.
Qed.

Lemma sim_run m c : forall ops mo s,
  sim mo s -> wf s -> cfg_ok c = true -> forallb op_ok ops = true ->
  mon_run c mo ops (run m c s ops) = true.
Proof.
  induction ops as [|o ops IH]; intros mo s Hsim Hwf Hcfg Hops; [reflexivity|].
  cbn [forallb] in Hops. rewrite andb_true_iff in Hops. destruct Hops as [Ho Hops].
  destruct (sim_step m c mo s o Hsim Hwf Hcfg Ho) as (s' & ob & mo' & A & B & C & D).
  cbn [run]. rewrite A. cbn [mon_run]. rewrite B. apply IH; assumption.
Qed.

Lemma sim_init c t0 : sim (mon_init c t0) (init c t0).
Proof. repeat split. Qed.

Theorem oracle_run_model m c t0 ops : holds_run c t0 ops (run m c (init c t0) ops) = true.
Proof.
  unfold holds_run. destruct (dom_ok c t0 ops) eqn:E; [|reflexivity].
  unfold dom_ok in E. rewrite !andb_true_iff in E. destruct E as [[Hc Ht] Ho].
  apply sim_run; auto. apply sim_init. apply init_wf. apply in_lim_iff. assumption.
Qed.

(* in-domain histories never panic *)
Lemma run_no_panic m c : forall ops s, wf s -> cfg_ok c = true -> forallb op_ok ops = true ->
  ~ In OPanic (run m c s ops) /\ length (run m c s ops) = length ops.
Proof.
  induction ops as [|o ops IH]; intros s Hwf Hcfg Hops; [cbn; auto|].
  cbn [forallb] in Hops. rewrite andb_true_iff in Hops. destruct Hops as [Ho Hops].
  destruct (step_total m c s o Hwf Hcfg Ho) as (s' & ob & Hst & Hwf' & Hnp).
  cbn [run]. rewrite Hst. destruct (IH s' Hwf' Hcfg Hops) as [A B]. split.
  - intros [H|H]; [congruence|auto].
  - cbn. congruence.
Qed.

(* ================= the named theorems ================= *)

Lemma exec_wf m c : forall ops s s', wf s -> cfg_ok c = true -> forallb op_ok ops = true ->
  exec m c s ops = Some s' -> wf s'.
Proof.
  induction ops as [|o ops IH]; intros s s' Hwf Hcfg Hops He; cbn in He.
  - inversion He; subst; assumption.
  - cbn [forallb] in Hops. rewrite andb_true_iff in Hops. destruct Hops as [Ho Hops].
    destruct (step_total m c s o Hwf Hcfg Ho) as (s1 & ob & Hst & Hwf1 & _). rewrite Hst in He. eauto.
Qed.

Lemma exec_total m c : forall ops s, wf s -> cfg_ok c = true -> forallb op_ok ops = true ->
  exists s', exec m c s ops = Some s'.
Proof.
  induction ops as [|o ops IH]; intros s Hwf Hcfg Hops; cbn; [eauto|].
  cbn [forallb] in Hops. rewrite andb_true_iff in Hops. destruct Hops as [Ho Hops].
  destruct (step_total m c s o Hwf Hcfg Ho) as (s1 & ob & Hst & Hwf1 & _). rewrite Hst. eauto.
Qed.

(* a general induction principle over in-domain histories: an invariant kept by every step holds at the end *)
Lemma exec_inv m c (I : st -> Prop) (okop : op -> Prop) :
  (forall s o s' ob, wf s -> I s -> op_ok o = true -> okop o -> step m c s o = Some (s', ob) -> I s') ->
  forall ops s s', wf s -> cfg_ok c = true -> forallb op_ok ops = true -> Forall okop ops ->
    I s -> exec m c s ops = Some s' -> I s'.
Proof.
  intros Hstep. induction ops as [|o ops IH]; intros s s' Hwf Hcfg Hops Hok HI He; cbn in He.
  - inversion He; subst; assumption.
  - cbn [forallb] in Hops. rewrite andb_true_iff in Hops. destruct Hops as [Ho Hops].
    inversion Hok; subst.
    destruct (step_total m c s o Hwf Hcfg Ho) as (s1 & ob & Hst & Hwf1 & _). rewrite Hst in He.
    eapply IH; eauto.
Qed.

Lemma op_ok_cycle now hb ctrs ev : op_ok (Cycle now hb ctrs ev) = true -> 0 <= now < LIM /\ hb < LIM.
Proof. cbn. rewrite andb_true_iff, in_lim_iff. lia. Qed.

(* what Add / Find leave alone *)
Lemma do_add_fields s k now s' r : do_add s k now = (s', r) ->
  t_work s' = t_work s /\ t_keep s' = t_keep s /\ t_check s' = t_check s /\ active s' = active s /\
  closed s' = closed s /\ hbc s' = hbc s /\ vals s' = vals s.
Proof. intros H. unfold do_add in H. destruct (negb (active s)) eqn:Ea; [|destruct (closed s) eqn:Ec]; inversion H; subst; cbn; repeat split; congruence. Qed.

Lemma step_find_norm m c s k id now : wf s -> cfg_ok c = true ->
  step m c s (Find k id now) = Some (fst (find_p c s k id now), OApi (snd (find_p c s k id now))).
Proof. intros. cbn [step]. rewrite do_find_norm by assumption. destruct (find_p c s k id now); reflexivity. Qed.

Lemma find_p_fields c s k id now s' : s' = fst (find_p c s k id now) ->
  t_work s' = t_work s /\ t_keep s' = t_keep s /\ t_check s' = t_check s /\ active s' = active s /\
  closed s' = closed s /\ hbc s' = hbc s /\ vals s' = vals s.
Proof. intros ->. unfold find_p. destruct (closed s) eqn:E; [cbn; repeat split; congruence|].
  destruct (find _ _) as [q|]; [|cbn; repeat split; congruence]. destruct (r_status q); [cbn; repeat split; congruence|].
  destruct (is_dest k); cbn; repeat split; congruence. Qed.

(* ---- C11_no_false_death ---- *)
Definition hb_young (c : cfg) (o : op) : Prop :=
  match o with Cycle now hb _ _ => hb < 0 \/ now <= hb + c_td c | _ => True end.

Lemma expired_false c now hb : hb < 0 \/ now <= hb + c_td c -> expired c now hb = false.
Proof. unfold expired. lia. Qed.

Lemma no_false_death_step m c s o s' ob :
  wf s -> cfg_ok c = true -> op_ok o = true -> hb_young c o ->
  step m c s o = Some (s', ob) -> active s' = active s.
Proof.
  intros Hwf Hcfg Ho Hy Hst. destruct o as [now hb ctrs ev | k now | k id now].
  - cbn [step] in Hst. destruct (op_ok_cycle _ _ _ _ Ho). rewrite do_cycle_norm in Hst by assumption. inversion Hst; subst.
    unfold cyc_st, tp_state. cbn [active]. rewrite (expired_false c now hb Hy). rewrite andb_false_r. cbn. apply andb_true_r.
  - cbn [step] in Hst. destruct (do_add s k now) as [s1 r] eqn:E. inversion Hst; subst. apply (do_add_fields _ _ _ _ _ E).
  - rewrite step_find_norm in Hst by assumption. inversion Hst; subst. apply (find_p_fields c s k id now _ eq_refl).
Qed.

Theorem no_false_death_run m c t0 ops :
  dom_ok c t0 ops = true -> Forall (hb_young c) ops ->
  exists s, exec m c (init c t0) ops = Some s /\ active s = true.
Proof.
  intros Hd Hy. unfold dom_ok in Hd. rewrite !andb_true_iff in Hd. destruct Hd as [[Hc Ht] Ho].
  apply in_lim_iff in Ht. pose proof (init_wf c t0 Ht) as Hwf.
  destruct (exec_total m c ops _ Hwf Hc Ho) as [s He]. exists s. split; [assumption|].
  apply (exec_inv m c (fun s => active s = true) (hb_young c)) with (ops := ops) (s := init c t0); auto.
  intros s1 o s2 ob Hwf1 HI Hok Hyo Hst. rewrite (no_false_death_step m c s1 o s2 ob); auto.
Qed.

(* ---- C11_death ---- *)
Lemma death_step m c s now hb ctrs ev s' r log act cl vs :
  wf s -> cfg_ok c = true -> op_ok (Cycle now hb ctrs ev) = true ->
  do_cycle m c s now hb ctrs ev = Some (s', OCycle r log act cl vs) ->
  (In L_DRIVER_INACTIVE log <-> (0 <= hb /\ now > hb + c_td c /\ now > t_keep s + KEEPALIVE_TIMEOUT_MS)) /\
  (active s' = active s && negb (has L_DRIVER_INACTIVE log)) /\ act = b2z (active s').
Proof.
  intros Hwf Hcfg Ho Hst. destruct (op_ok_cycle _ _ _ _ Ho). rewrite do_cycle_norm in Hst by assumption.
  unfold cyc_obs in Hst. cbv zeta in Hst. inversion Hst; subst. clear Hst.
  set (s1 := set_regs s (ev_regs ev (regs s))).
  pose proof (has_log c s1 now hb ctrs) as HL. cbv zeta in HL. destruct HL as (_ & H2 & _ & _).
  assert (Hin : In L_DRIVER_INACTIVE (tp_log c s1 now hb ctrs) <-> has L_DRIVER_INACTIVE (tp_log c s1 now hb ctrs) = true).
  { unfold has. rewrite existsb_exists. split.
    - intros Hi. exists L_DRIVER_INACTIVE. split; [assumption|apply Z.eqb_refl].
    - intros (x & Hi & Hx). apply Z.eqb_eq in Hx. subst. assumption. }
  split; [|split].
  - rewrite Hin, H2. unfold due, expired. replace (t_keep s1) with (t_keep s) by reflexivity. lia.
  - rewrite H2. unfold cyc_st, tp_state. cbn [active]. reflexivity.
  - reflexivity.
Qed.

Lemma dead_refuses s k now : active s = false -> do_add s k now = (s, Err DriverInactive).
Proof. intros H. unfold do_add. rewrite H. reflexivity. Qed.

Lemma dead_stays_step m c s o s' ob :
  wf s -> cfg_ok c = true -> op_ok o = true -> step m c s o = Some (s', ob) -> active s = false -> active s' = false.
Proof.
  intros Hwf Hcfg Ho Hst Ha. destruct o as [now hb ctrs ev | k now | k id now].
  - cbn [step] in Hst. destruct (op_ok_cycle _ _ _ _ Ho). rewrite do_cycle_norm in Hst by assumption. inversion Hst; subst.
    unfold cyc_st, tp_state. cbn [active set_regs]. rewrite Ha. reflexivity.
  - cbn [step] in Hst. destruct (do_add s k now) as [s1 r] eqn:E. inversion Hst; subst. destruct (do_add_fields _ _ _ _ _ E) as (_&_&_&A&_). congruence.
  - rewrite step_find_norm in Hst by assumption. inversion Hst; subst.
    destruct (find_p_fields c s k id now _ eq_refl) as (_&_&_&A&_). congruence.
Qed.

Theorem dead_forever m c ops s s' :
  wf s -> cfg_ok c = true -> forallb op_ok ops = true -> active s = false ->
  exec m c s ops = Some s' -> active s' = false /\ forall k now, do_add s' k now = (s', Err DriverInactive).
Proof.
  intros Hwf Hcfg Ho Ha He.
  assert (active s' = false).
  { apply (exec_inv m c (fun s => active s = false) (fun _ => True)) with (ops := ops) (s := s); auto.
    - intros s1 o s2 ob Hwf1 HI Hok _ Hst. eapply dead_stays_step; eauto.
    - apply Forall_forall. auto. }
  split; [assumption|]. intros. apply dead_refuses. assumption.
Qed.

(* ---- detection latency: a silent driver (heartbeat stuck at h) is declared dead no later than the first
        duty cycle after h + T_d + 500 ---- *)
Definition silent (c : cfg) (h : Z) (o : op) : Prop :=
  match o with Cycle now hb _ _ => now > h + c_td c -> hb = h | _ => True end.

Lemma latency_step m c h b s o s' ob :
  0 <= h -> wf s -> cfg_ok c = true -> op_ok o = true -> silent c h o ->
  (active s = true -> t_keep s <= Z.max (h + c_td c) b) ->
  step m c s o = Some (s', ob) ->
  (active s' = true -> t_keep s' <= Z.max (h + c_td c) b) /\
  (match o with Cycle now _ _ _ => active s' = true -> now <= Z.max (h + c_td c) b + KEEPALIVE_TIMEOUT_MS | _ => True end).
Proof.
  intros Hh Hwf Hcfg Ho Hs HI Hst. destruct o as [now hb ctrs ev | k now | k id now].
  - cbn [step] in Hst. destruct (op_ok_cycle _ _ _ _ Ho). rewrite do_cycle_norm in Hst by assumption. inversion Hst; subst.
    unfold cyc_st, tp_state. cbn [active t_keep set_regs]. cbn in Hs.
    unfold due, expired. cbn [t_keep set_regs].
    destruct (active s); cbn [andb]; [|split; discriminate]. specialize (HI eq_refl).
    destruct (now >? t_keep s + KEEPALIVE_TIMEOUT_MS) eqn:Ed; cbn [andb negb].
    + split; intros Ha; assert (now <= h + c_td c) by (destruct (Z_le_gt_dec now (h + c_td c)); [assumption|]; rewrite (Hs g) in Ha; lia);
        unfold KEEPALIVE_TIMEOUT_MS; lia.
    + split; intros _; unfold KEEPALIVE_TIMEOUT_MS in *; lia.
  - cbn [step] in Hst. destruct (do_add s k now) as [s1 r] eqn:E. inversion Hst; subst.
    destruct (do_add_fields _ _ _ _ _ E) as (_&B&_&A&_). rewrite A, B. auto.
  - rewrite step_find_norm in Hst by assumption. inversion Hst; subst.
    destruct (find_p_fields c s k id now _ eq_refl) as (_&B&_&A&_). rewrite A, B. auto.
Qed.

Lemma death_latency_gen m c h now hb ctrs ev s :
  0 <= h -> cfg_ok c = true ->
  forall ops s1 b, wf s1 -> forallb op_ok (ops ++ [Cycle now hb ctrs ev]) = true ->
    Forall (silent c h) (ops ++ [Cycle now hb ctrs ev]) ->
    (active s1 = true -> t_keep s1 <= Z.max (h + c_td c) b) ->
    exec m c s1 (ops ++ [Cycle now hb ctrs ev]) = Some s -> active s = true ->
    now <= Z.max (h + c_td c) b + KEEPALIVE_TIMEOUT_MS.
Proof.
  intros Hh Hcfg. induction ops as [|o ops IH]; intros s1 b Hwf1 Ho Hs HI He Ha.
  - cbn [app exec] in He. destruct (step m c s1 (Cycle now hb ctrs ev)) as [[s2 ob]|] eqn:Est; [|discriminate]. inversion He; subst.
    cbn [app forallb] in Ho. rewrite andb_true_r in Ho. inversion Hs; subst.
    destruct (latency_step m c h b s1 _ s ob Hh Hwf1 Hcfg Ho H1 HI Est) as [_ B]. auto.
  - cbn [app forallb] in Ho. rewrite andb_true_iff in Ho. destruct Ho as [Ho1 Ho]. cbn [app] in Hs. inversion Hs; subst.
    cbn [app exec] in He. destruct (step_total m c s1 o Hwf1 Hcfg Ho1) as (s2 & ob & Hst & Hwf2 & _). rewrite Hst in He.
    destruct (latency_step m c h b s1 _ s2 ob Hh Hwf1 Hcfg Ho1 H1 HI Hst) as [A _].
    eapply IH; eauto.
Qed.

Theorem death_latency m c h ops now hb ctrs ev s0 s :
  0 <= h -> wf s0 -> cfg_ok c = true -> forallb op_ok (ops ++ [Cycle now hb ctrs ev]) = true ->
  Forall (silent c h) (ops ++ [Cycle now hb ctrs ev]) ->
  exec m c s0 (ops ++ [Cycle now hb ctrs ev]) = Some s -> active s = true ->
  now <= Z.max (h + c_td c) (t_keep s0) + KEEPALIVE_TIMEOUT_MS.
Proof. intros. eapply death_latency_gen; eauto. lia. Qed.

(* ---- C11_heartbeat ---- *)
Lemma heartbeat_step m c s now hb ctrs ev s' ob :
  wf s -> cfg_ok c = true -> op_ok (Cycle now hb ctrs ev) = true ->
  do_cycle m c s now hb ctrs ev = Some (s', ob) ->
  t_work s' = now /\ now <= t_keep s' + KEEPALIVE_TIMEOUT_MS /\
  (now > t_keep s + KEEPALIVE_TIMEOUT_MS ->
     t_keep s' = now /\
     match fate_s c s ctrs with
     | Refresh id => hbc s' = Some id /\ vals s' = upd (vals s) (Z.to_nat id) now
     | _ => hbc s' = hbc s /\ vals s' = vals s
     end) /\
  (now <= t_keep s + KEEPALIVE_TIMEOUT_MS -> t_keep s' = t_keep s /\ hbc s' = hbc s /\ vals s' = vals s).
Proof.
  intros Hwf Hcfg Ho Hst. destruct (op_ok_cycle _ _ _ _ Ho) as [Hn Hh]. rewrite do_cycle_norm in Hst by assumption.
  inversion Hst; subst. clear Hst. unfold cyc_st, tp_state. cbn [t_work t_keep hbc vals set_regs].
  replace (fate_s c (set_regs s (ev_regs ev (regs s))) ctrs) with (fate_s c s ctrs) by reflexivity.
  unfold due. cbn [t_keep set_regs]. rewrite (wrap64_lim now Hn).
  destruct (now >? t_keep s + KEEPALIVE_TIMEOUT_MS) eqn:Ed.
  - repeat split; try (unfold KEEPALIVE_TIMEOUT_MS in *; lia). destruct (fate_s c s ctrs); auto.
  - repeat split; try (unfold KEEPALIVE_TIMEOUT_MS in *; lia).
Qed.

Lemma find_from_spec cid : forall t i id, find_from cid i t = Some id ->
  i <= id /\ exists r, nth_error t (Z.to_nat (id - i)) = Some r /\ ctr_matches cid r = true.
Proof.
  induction t as [|r t IH]; intros i id H; cbn in H; [discriminate|].
  destruct (ctr_matches cid r) eqn:E.
  - inversion H; subst. split; [lia|]. exists r. rewrite Z.sub_diag. auto.
  - apply IH in H. destruct H as [Hle (r' & Hn & Hm)]. split; [lia|]. exists r'. split; [|assumption].
    replace (Z.to_nat (id - i)) with (S (Z.to_nat (id - (i + 1)))) by lia. assumption.
Qed.

Lemma find_counter_active cid t id : find_counter cid t = Some id -> 0 <= id /\ is_active cid t id = true.
Proof.
  unfold find_counter. intros H. apply find_from_spec in H. destruct H as [Hle (r & Hn & Hm)].
  split; [assumption|]. unfold is_active. replace (id <? 0) with false by lia. rewrite Z.sub_0_r in Hn. rewrite Hn. assumption.
Qed.

Lemma nth_upd : forall l i v, (i < length l)%nat -> nth i (upd l i v) 0 = v.
Proof. induction l; intros [|i] v H; cbn in *; try lia; auto. apply IHl. lia. Qed.
Lemma length_upd : forall l i v, length (upd l i v) = length l.
Proof. induction l; intros [|i] v; cbn; auto. Qed.

(* the client heartbeat counter sits at id0 and is the first match in every table the client sees *)
Definition stable (c : cfg) (oid : option Z) (o : op) : Prop :=
  match o with Cycle _ _ ctrs _ => find_counter (c_cid c) ctrs = oid | _ => True end.

Definition hb_inv (id0 : Z) (s : st) : Prop :=
  length (vals s) = 4%nat /\ t_work s <= t_keep s + KEEPALIVE_TIMEOUT_MS /\
  (hbc s = None \/ (hbc s = Some id0 /\ nth (Z.to_nat id0) (vals s) 0 = t_keep s)).

Lemma hb_inv_step m c id0 s o s' ob :
  0 <= id0 < 4 -> wf s -> cfg_ok c = true -> op_ok o = true -> stable c (Some id0) o -> hb_inv id0 s ->
  step m c s o = Some (s', ob) -> hb_inv id0 s'.
Proof.
  intros Hid Hwf Hcfg Ho Hs (Hlen & Hage & Hc) Hst. destruct o as [now hb ctrs ev | k now | k id now].
  - cbn [step] in Hst. cbn in Hs.
    destruct (heartbeat_step m c s now hb ctrs ev s' ob Hwf Hcfg Ho Hst) as (Hw & Hfresh & Hdue & Hnot).
    destruct (find_counter_active _ _ _ Hs) as [_ Hact].
    assert (Hf : fate_s c s ctrs = Refresh id0).
    { unfold fate_s. destruct Hc as [Hc|[Hc _]]; rewrite Hc; [rewrite Hs|rewrite Hact]; reflexivity. }
    unfold hb_inv. rewrite Hw. destruct (Z_le_gt_dec now (t_keep s + KEEPALIVE_TIMEOUT_MS)) as [Hle|Hgt].
    + destruct (Hnot Hle) as (A & B & C). rewrite A, B, C. repeat split; auto.
    + destruct (Hdue Hgt) as (A & B). rewrite Hf in B. destruct B as [B C]. rewrite A, B, C.
      repeat split; [rewrite length_upd; assumption|lia|]. right. split; [reflexivity|]. apply nth_upd. lia.
  - cbn [step] in Hst. destruct (do_add s k now) as [s1 r] eqn:E. inversion Hst; subst.
    destruct (do_add_fields _ _ _ _ _ E) as (A&B&_&_&_&C&D). unfold hb_inv. rewrite A, B, C, D. auto.
  - rewrite step_find_norm in Hst by assumption. inversion Hst; subst.
    destruct (find_p_fields c s k id now _ eq_refl) as (A&B&_&_&_&C&D). unfold hb_inv. rewrite A, B, C, D. auto.
Qed.

Theorem heartbeat_age m c t0 id0 ops s :
  dom_ok c t0 ops = true -> 0 <= id0 < 4 -> Forall (stable c (Some id0)) ops ->
  exec m c (init c t0) ops = Some s ->
  t_work s <= t_keep s + KEEPALIVE_TIMEOUT_MS /\
  (hbc s = None \/ (hbc s = Some id0 /\ nth (Z.to_nat id0) (vals s) 0 = t_keep s)).
Proof.
  intros Hd Hid Hs He. unfold dom_ok in Hd. rewrite !andb_true_iff in Hd. destruct Hd as [[Hc Ht] Ho].
  apply in_lim_iff in Ht. pose proof (init_wf c t0 Ht) as Hwf.
  assert (hb_inv id0 s).
  { apply (exec_inv m c (hb_inv id0) (stable c (Some id0))) with (ops := ops) (s := init c t0); auto.
    - intros. eapply hb_inv_step; eauto.
    - unfold hb_inv. cbn. unfold KEEPALIVE_TIMEOUT_MS. repeat split; auto; lia. }
  destruct H as (_ & A & B). auto.
Qed.

(* ---- C11_interservice ---- *)
Lemma in_has x l : In x l <-> has x l = true.
Proof. unfold has. rewrite existsb_exists. split.
  - intros Hi. exists x. split; [assumption|apply Z.eqb_refl].
  - intros (y & Hi & Hy). apply Z.eqb_eq in Hy. subst. assumption. Qed.

Lemma interservice_step m c s now hb ctrs ev s' r log act cl vs :
  wf s -> cfg_ok c = true -> op_ok (Cycle now hb ctrs ev) = true ->
  do_cycle m c s now hb ctrs ev = Some (s', OCycle r log act cl vs) ->
  (In L_SERVICE_TIMEOUT log <-> now > t_work s + inter_ms c) /\
  (now > t_work s + inter_ms c -> closed s' = true /\ (closed s = false -> In L_CLOSE log)) /\
  (closed s' = true -> closed s = true \/ now > t_work s + inter_ms c \/ In L_HEARTBEAT_LOST log) /\
  (In L_HEARTBEAT_LOST log <-> now > t_keep s + KEEPALIVE_TIMEOUT_MS /\ fate_s c s ctrs = Lost) /\
  cl = b2z (closed s') /\ (closed s = true -> closed s' = true) /\ (In L_CLOSE log -> closed s = false /\ closed s' = true).
Proof.
  intros Hwf Hcfg Ho Hst. destruct (op_ok_cycle _ _ _ _ Ho) as [Hn Hh]. rewrite do_cycle_norm in Hst by assumption.
  unfold cyc_obs in Hst. cbv zeta in Hst. inversion Hst; subst. clear Hst.
  set (s1 := set_regs s (ev_regs ev (regs s))).
  pose proof (has_log c s1 now hb ctrs) as HL. cbv zeta in HL. destruct HL as (H1 & _ & H3 & H0).
  rewrite !in_has, H1, H3, H0. unfold cyc_st, tp_state. fold s1. cbn [closed].
  replace (closed s1) with (closed s) by reflexivity.
  replace (fate_s c s1 ctrs) with (fate_s c s ctrs) by reflexivity.
  unfold late, due. replace (t_work s1) with (t_work s) by reflexivity. replace (t_keep s1) with (t_keep s) by reflexivity.
  assert (Hl : is_lost (fate_s c s ctrs) = true <-> fate_s c s ctrs = Lost) by (destruct (fate_s c s ctrs); cbn; split; congruence).
  repeat split; try lia.
  - apply Hl. lia.
  - intros [A B]. apply Hl in B. lia.
Qed.

Fixpoint gaps_ok (c : cfg) (prev : Z) (ops : list op) : Prop :=
  match ops with
  | [] => True
  | Cycle now _ _ _ :: rest => now <= prev + inter_ms c /\ gaps_ok c now rest
  | _ :: rest => gaps_ok c prev rest
  end.

Definition open_inv (oid : option Z) (s : st) : Prop := closed s = false /\ (hbc s = None \/ hbc s = oid).

Theorem never_closed m c oid : forall ops s s',
  wf s -> cfg_ok c = true -> forallb op_ok ops = true -> Forall (stable c oid) ops ->
  gaps_ok c (t_work s) ops -> open_inv oid s -> exec m c s ops = Some s' -> open_inv oid s'.
Proof.
  induction ops as [|o ops IH]; intros s s' Hwf Hcfg Ho Hs Hg HI He.
  - cbn in He. inversion He; subst. assumption.
  - cbn [forallb] in Ho. rewrite andb_true_iff in Ho. destruct Ho as [Ho1 Ho]. pose proof (Forall_inv Hs) as H1. pose proof (Forall_inv_tail Hs) as H2.
    cbn [exec] in He. destruct (step_total m c s o Hwf Hcfg Ho1) as (s1 & ob & Hst & Hwf1 & _). rewrite Hst in He.
    destruct HI as [Hcl Hc]. destruct o as [now hb ctrs ev | k now | k id now].
    + cbn [step] in Hst. cbn in H1. cbn [gaps_ok] in Hg. destruct Hg as [Hgap Hg].
      destruct (op_ok_cycle _ _ _ _ Ho1) as [Hn Hh].
      pose proof Hst as Hst'. rewrite do_cycle_norm in Hst' by assumption. injection Hst' as Hs1 Hob. subst s1 ob.
      destruct (heartbeat_step m c s now hb ctrs ev _ _ Hwf Hcfg Ho1 Hst) as (Hw & _ & Hdue & Hnot).
      assert (Hf : fate_s c s ctrs <> Lost).
      { unfold fate_s. destruct Hc as [Hc|Hc]; rewrite Hc.
        - destruct (find_counter _ _); discriminate.
        - destruct oid as [id|]; [|destruct (find_counter _ _); discriminate].
          destruct (find_counter_active _ _ _ H1) as [_ Ha]. rewrite Ha. discriminate. }
      eapply IH; eauto.
      split.
        -- unfold cyc_st, tp_state. cbn [closed set_regs]. rewrite Hcl. unfold late. cbn [t_work set_regs].
           replace (now >? t_work s + inter_ms c) with false by lia. cbn [orb].
           replace (fate_s c (set_regs s (ev_regs ev (regs s))) ctrs) with (fate_s c s ctrs) by reflexivity.
           destruct (fate_s c s ctrs); try congruence; apply andb_false_r.
        -- destruct (Z_le_gt_dec now (t_keep s + KEEPALIVE_TIMEOUT_MS)) as [Hle|Hgt].
           ++ destruct (Hnot Hle) as (_ & B & _). rewrite B. assumption.
           ++ destruct (Hdue Hgt) as (_ & B). unfold fate_s in B. destruct (hbc s) as [id|] eqn:Eh.
              ** assert (Ho' : oid = Some id) by (destruct Hc as [Hc|Hc]; congruence). rewrite Ho' in H1.
                 destruct (find_counter_active _ _ _ H1) as [_ Ha]. rewrite Ha in B. right. rewrite Ho'. apply B.
              ** rewrite H1 in B. destruct oid; [right; apply B|left; apply B].
    + cbn [step] in Hst. destruct (do_add s k now) as [s2 r] eqn:E. injection Hst as Hs1 Hob. subst s1 ob.
      destruct (do_add_fields _ _ _ _ _ E) as (A&_&_&_&B&C&_). eapply IH; eauto.
      * rewrite A. assumption.
      * unfold open_inv. rewrite B, C. auto.
    + rewrite step_find_norm in Hst by assumption. injection Hst as Hs1 Hob. subst s1 ob.
      destruct (find_p_fields c s k id now _ eq_refl) as (A&_&_&_&B&C&_). eapply IH; eauto.
      * rewrite A. assumption.
      * unfold open_inv. rewrite B, C. auto.
Qed.

(* ---- C11_registration ---- *)
Theorem find_no_response m c s k id now s' r :
  wf s -> cfg_ok c = true -> do_find m c s k id now = Some (s', r) ->
  (r = Err NoResponse <->
   closed s = false /\ exists q, find (reg_is k id) (regs s) = Some q /\ r_status q = Awaiting /\ now > r_time q + c_td c).
Proof.
  intros Hwf Hcfg H. rewrite do_find_norm in H by assumption.
  assert (Hr : r = snd (find_p c s k id now)) by (injection H as H; rewrite H; reflexivity). rewrite Hr. clear H Hr.
  unfold find_p. destruct (closed s) eqn:Ec.
  - cbn. split; [discriminate|]. intros [A _]. discriminate.
  - destruct (find (reg_is k id) (regs s)) as [q|] eqn:Ef.
    + destruct (r_status q) as [|code] eqn:Es; cbn [snd].
      * destruct (now >? r_time q + c_td c) eqn:Et; cbn [snd].
        -- split; [|reflexivity]. intros _. split; [reflexivity|]. exists q. repeat split; auto. lia.
        -- split; [destruct (is_dest k); discriminate|]. intros [_ (q' & A & _ & B)]. inversion A; subst. lia.
      * cbn [snd]. split; [discriminate|]. intros [_ (q' & A & B & _)]. inversion A; subst. congruence.
    + cbn. split; [discriminate|]. intros [_ (q' & A & _)]. discriminate.
Qed.

Lemma kind_eqb_refl k : kind_eqb k k = true. Proof. destruct k; reflexivity. Qed.

Lemma do_add_ok s k t s1 id : do_add s k t = (s1, Ok id) ->
  id = next_id s /\ closed s1 = false /\ regs s1 = mkReg k id t Awaiting :: regs s.
Proof. unfold do_add. destruct (negb (active s)); [discriminate|]. destruct (closed s) eqn:Ec; [discriminate|].
  intros H. inversion H; subst. cbn. auto. Qed.

Theorem registration_roundtrip m c s k t id s1 now s2 r :
  wf s -> cfg_ok c = true -> 0 <= t < LIM ->
  do_add s k t = (s1, Ok id) -> do_find m c s1 k id now = Some (s2, r) ->
  (r = Err NoResponse <-> now > t + c_td c) /\
  (now <= t + c_td c -> r = if is_dest k then Ok 0 else Err NotReady).
Proof.
  intros Hwf Hcfg Ht Ha Hf. pose proof (do_add_wf _ _ _ _ _ Hwf Ht Ha) as Hwf1.
  rewrite do_find_norm in Hf by assumption.
  assert (Hr : r = snd (find_p c s1 k id now)) by (injection Hf as Hf; rewrite Hf; reflexivity). clear Hf.
  destruct (do_add_ok _ _ _ _ _ Ha) as (_ & Hcl & Hregs).
  unfold find_p in Hr. rewrite Hcl, Hregs in Hr. cbn [find] in Hr.
  unfold reg_is at 1 in Hr. cbn [r_kind r_id] in Hr. rewrite kind_eqb_refl, Z.eqb_refl in Hr. cbn [andb r_status r_time snd] in Hr.
  subst r. destruct (now >? t + c_td c) eqn:E.
  - split; [split; [lia|reflexivity]|]. lia.
  - split; [|reflexivity]. split; [destruct (is_dest k); discriminate|lia].
Qed.
