(* C18 statements: the vectored appends equal the contiguous ones, their copies stay inside the claimed range,
   the loops of the unrepaired repository do not, and the oracle's equality part holds on the model's own results. *)
Require Import V.Base.MachineInt.
Require Import V.Generated.GenConsts.
Require Import V.Model.Descriptor.
Require Import V.Model.LogBase.
Require Import V.Model.LogDelta.
Require Import V.Model.Appender.
Require Import V.Model.ExclAppender.
Require Import V.Model.Publication.
Require Import V.Proofs.DescriptorProofs.
Require Import V.Proofs.AppenderProofs.
Require Import V.Proofs.PublicationProofs.
Require Import V.Proofs.BulkProofs.
Require Import V.Proofs.C04Proofs.
Require Import V.Proofs.C04Statements.
Require Import V.Oracle.C04Oracle.
Require Import V.Oracle.C18Oracle.
From Coq Require Import ZifyBool.
Open Scope Z_scope.

(* unfragmented: every copy lies in the payload area of the one frame, which lies in the claimed range *)
Theorem unfrag_bulk_inside bufs off :
  copies_inside (off + 32) (off + 32 + total bufs) (bulk_unfrag_walk bufs (off + 32) (off + 32 + total bufs)) /\
  off <= off + 32 /\ off + 32 + total bufs <= off + align (total bufs + 32) 32.
Proof. split; [apply walk_inside; reflexivity|]. pose proof (total_nonneg bufs).
  pose proof (align_bounds (total bufs + 32) ltac:(lia)) as [Ha _]. lia. Qed.

(* fragmented: the loop builds the frames of the contiguous append and every copy lies in the claimed range *)
Theorem frag_bulk_inside l rv tid mpl b r off :
  0 < mpl -> mpl mod 32 = 0 -> mpl < total (b :: r) ->
  exists cs, bulk_frag_loop (frag_fuel (total (b :: r)) mpl) l rv tid mpl F_BEGIN (total (b :: r)) off (mkCursor b 0 r)
             = Ok (frag_loop (frag_fuel (total (b :: r)) mpl) l rv tid mpl (total (b :: r)) (concat (b :: r)) F_BEGIN (total (b :: r)) off, cs)
             /\ copies_inside off (off + frag_required_spec (total (b :: r)) mpl) cs.
Proof. intros Hm Hm32 Hlen.
  destruct (bulk_frag_loop_eq l rv tid mpl (total (b :: r)) (concat (b :: r)) Hm eq_refl
              (frag_fuel (total (b :: r)) mpl) F_BEGIN (total (b :: r)) off (mkCursor b 0 r)) as (cs & E & Hin).
  - lia.
  - unfold cursor_ok. cbn [cu_off cu_buf]. pose proof (zlen_nonneg b). lia.
  - unfold cursor_data. cbn [cu_buf cu_off cu_rest Z.to_nat skipn]. rewrite Z.sub_diag. reflexivity.
  - exists cs. split; [exact E|]. rewrite <- (frag_span_required mpl Hm Hm32 (frag_fuel (total (b :: r)) mpl)); [exact Hin|lia|].
    unfold frag_fuel. lia. Qed.

(* ---- the loops of the repository before the fix ---- *)
(* unfragmented: the one buffer [1;2;3;4] offered at frame offset 0 is copied to 36..40, outside the payload area 32..36 *)
Example unfrag_bulk_asis_outside :
  bulk_unfrag_walk_asis [[1; 2; 3; 4]] 32 4 = [mkCopy 36 4 [1; 2; 3; 4]] /\
  ~ copies_inside 32 36 (bulk_unfrag_walk_asis [[1; 2; 3; 4]] 32 4) /\
  tile 32 (bulk_unfrag_walk_asis [[1; 2; 3; 4]] 32 4) = None.
Proof. split; [reflexivity|]. split; [|reflexivity]. cbn. intros H. inversion H as [|? ? Hc _]; subst. cbn in Hc. lia. Qed.

(* fragmented: buffers of 10 and 200 bytes with a 64-byte payload: the first fragment leaves the cursor at offset 54 of the
   second buffer; the second fragment restarts at the first buffer with that offset and asks for a copy of -44 bytes *)
Example frag_bulk_asis_negative_copy :
  let b0 := repeat 7 10 in let b1 := repeat 9 200 in
  let '(cs1, cu1) := bulk_fragment_copies_asis [b0; b1] 64 0 0 in
  cu_off cu1 = 54 /\
  exists c, In c (fst (bulk_fragment_copies_asis [b0; b1] 64 96 (cu_off cu1))) /\ cp_n c = -44.
Proof. vm_compute. split; [reflexivity|]. eexists. split; [left; reflexivity|reflexivity]. Qed.

(* ---- the oracle's equality part on the model's own results ---- *)
Lemma list_eqb_refl {A} (eqb : A -> A -> bool) (x : list A) : (forall a, eqb a a = true) -> list_eqb eqb x x = true.
Proof. intros H. induction x as [|a x IH]; [reflexivity|]. cbn. rewrite H, IH. reflexivity. Qed.
Lemma words_eqb_refl w : words_eqb w w = true.
Proof. apply list_eqb_refl. intros [a b]. unfold pair_eqb. cbn. rewrite !Z.eqb_refl. reflexivity. Qed.
Lemma dump_same_refl d : dump_same d d = true.
Proof. unfold dump_same. rewrite Z.eqb_refl. rewrite (list_eqb_refl Z.eqb) by apply Z.eqb_refl.
  rewrite (list_eqb_refl words_eqb) by apply words_eqb_refl. reflexivity. Qed.

Definition documented (r : outcome Z) : Prop :=
  match r with
  | Ok _ | Err BackPressured | Err NotConnected | Err AdminAction | Err MaxPositionExceeded | Err Closed | Err TooLong => True
  | _ => False
  end.
Lemma res_eqb_refl r : documented r -> res_eqb r r = true.
Proof. destruct r as [z|e| | |]; cbn; try tauto. - intros _. apply Z.eqb_refl. - destruct e; cbn; tauto. Qed.

Lemma pub_position_documented m s n off : pub_inv n off s -> documented (pub_position m s).
Proof. intros Hinv. destruct (ps_closed s) eqn:Ec.
  - unfold pub_position. rewrite Ec. exact I.
  - rewrite (pub_position_spec m s n off Hinv Ec). exact I. Qed.

(* offer_bulk and offer of the concatenation from any reachable state: the two observations are equal, and the oracle says so *)
Theorem twin_equal_model m rv s bufs : reachable m rv s -> total bufs <= 1073741824 ->
  pub_step m rv s (Bulk bufs) = pub_step m rv s (Offer (concat bufs)) /\
  twin_equal (pub_obs m s (fst (pub_step m rv s (Bulk bufs))) (snd (pub_step m rv s (Bulk bufs))))
             (pub_obs m s (fst (pub_step m rv s (Offer (concat bufs)))) (snd (pub_step m rv s (Offer (concat bufs))))) = true.
Proof. intros Hr Ht. destruct (reachable_inv m rv s Hr) as (n & off & Hinv).
  pose proof (pi_legal _ _ _ Hinv) as Hleg. pose proof (legal_mpl _ Hleg) as (Hm1 & _).
  assert (E : pub_step m rv s (Bulk bufs) = pub_step m rv s (Offer (concat bufs))).
  { cbn [pub_step]. apply pub_bulk_eq_offer; lia. }
  split; [exact E|]. rewrite E.
  assert (Hok : op_ok (ps_log s) (Offer (concat bufs))) by exact Ht.
  pose proof (pub_total m rv s n off (Offer (concat bufs)) Hinv Hok eq_refl) as Hdoc.
  destruct (pub_step_inv m rv s n off (Offer (concat bufs)) Hinv Hok) as (n' & off' & Hinv' & _).
  unfold twin_equal, pub_obs. cbn [o_res o_dump o_pos fst snd].
  rewrite res_eqb_refl by exact Hdoc. rewrite dump_same_refl.
  rewrite res_eqb_refl by (eapply pub_position_documented; exact Hinv'). reflexivity. Qed.
