Require Import V.Base.MachineInt V.Generated.GenConsts V.Model.Descriptor
               V.Proofs.DescriptorProofs V.Oracle.C17Oracle.
From Coq Require Import ZifyBool.
Open Scope Z_scope.

Lemma oracle_position_model m init n bits off :
  in_i32 init = true -> 0 <= n < two31 -> 0 <= bits <= 31 -> 0 <= off <= 2 ^ bits ->
  holds_position init n bits off
    (compute_position m (wrap32 (init + n)) off bits init)
    (Ok (compute_term_begin_position (wrap32 (init + n)) bits init))
    (Ok (index_by_term init (wrap32 (init + n))))
    (Ok (index_by_term_count n))
    (Ok (index_by_position (n * 2 ^ bits + off) bits)) = true.
Proof. intros Hi Hn Hb Ho. unfold holds_position.
  rewrite compute_position_spec by assumption.
  rewrite compute_term_begin_position_spec by assumption.
  unfold spec_position, ok_eq.
  assert (Hp : 0 < 2 ^ bits) by (apply Z.pow_pos_nonneg; lia).
  assert (Ht : index_by_term init (wrap32 (init + n)) = n mod 3 /\ index_by_term_count n = n mod 3).
  { destruct (partitions_agree init n bits 0 Hi Hn Hb ltac:(lia)) as (A & B & _). auto. }
  destruct Ht as [Ht Hc]. rewrite Ht, Hc. rewrite !Z.eqb_refl.
  replace (n * 2 ^ bits + 0 =? n * 2 ^ bits) with true by (symmetry; apply Z.eqb_eq; ring).
  cbn [andb].
  destruct (off <? 2 ^ bits) eqn:E.
  - destruct (partitions_agree init n bits off Hi Hn Hb ltac:(lia)) as (_ & _ & C).
    unfold spec_position in C. rewrite C. rewrite Z.eqb_refl. cbn [andb]. apply Z.leb_le. nia.
  - cbn [andb]. apply Z.leb_le. nia. Qed.

Lemma oracle_header_model m init n bits off len :
  in_i32 init = true -> 0 <= n < two31 -> 5 <= bits <= 30 ->
  0 <= off -> 0 < len -> off mod 32 = 0 -> off + align len 32 <= 2 ^ bits ->
  holds_header init n bits off len (header_position m init bits (wrap32 (init + n)) off len) = true.
Proof. intros. unfold holds_header. rewrite header_position_spec by assumption.
  unfold spec_position, ok_eq. apply Z.eqb_refl. Qed.

Lemma oracle_rotate_model m init n s :
  in_i32 init = true -> 0 <= n < two31 - 1 -> meta_consistent init n s ->
  holds_rotate init n s (rotate_log m s n (wrap32 (init + n))) = true.
Proof. intros Hi Hn Hc. destruct (rotate_log_spec m init n s Hi Hn Hc) as (s' & Hr & Hcount & Htail & Hoth).
  rewrite Hr. unfold holds_rotate. rewrite Hcount, Htail. unfold raw_tail_of_term. rewrite !Z.eqb_refl.
  assert (H0 : 0 <= n mod 3 < 3) by (apply Z.mod_pos_bound; lia).
  assert (H1 : 0 <= (n+1) mod 3 < 3) by (apply Z.mod_pos_bound; lia).
  assert (H2 : 0 <= (n+2) mod 3 < 3) by (apply Z.mod_pos_bound; lia).
  assert (Hd1 : (n + 2) mod 3 <> (n + 1) mod 3).
  { intro. pose proof (Z.div_mod (n+2) 3 ltac:(lia)). pose proof (Z.div_mod (n+1) 3 ltac:(lia)). lia. }
  assert (Hd2 : n mod 3 <> (n + 1) mod 3).
  { intro. pose proof (Z.div_mod n 3 ltac:(lia)). pose proof (Z.div_mod (n+1) 3 ltac:(lia)). lia. }
  rewrite (Hoth _ H2 Hd1), (Hoth _ H0 Hd2). rewrite !Z.eqb_refl. reflexivity. Qed.

Lemma oracle_ppos_model m init n0 bits off0 :
  in_i32 init = true -> 0 <= n0 < two31 -> 0 <= bits <= 30 -> 0 <= off0 < two32 ->
  holds_ppos init n0 bits off0 (model_ppos m init n0 bits off0) = true.
Proof. intros Hi Hn Hb Ho. unfold holds_ppos, model_ppos.
  assert (Hw : in_i32 (wrap32 (init + n0)) = true) by apply wrap32_range.
  rewrite term_id_of_raw_off by assumption.
  assert (Hp : 1 <= 2 ^ bits <= two31) by (apply pow2_bounds; lia).
  assert (Hp30 : 2 ^ bits <= 2 ^ 30) by (apply Z.pow_le_mono_r; lia).
  assert (Hoff : term_offset_of (raw_tail_of_term (wrap32 (init + n0)) + off0) (2 ^ bits) = Z.min off0 (2 ^ bits)).
  { unfold term_offset_of, raw_tail_of_term.
    rewrite Z.add_comm, Z.mod_add by (unfold two32; lia). rewrite Z.mod_small by lia.
    apply wrap32_id. unfold in_i32, two31, two32 in *. change (2 ^ 30) with 1073741824 in Hp30. lia. }
  rewrite Hoff. rewrite compute_position_spec by (try assumption; lia).
  unfold spec_position, ok_eq. apply Z.eqb_refl. Qed.

Lemma wrap32_plus3_neq z : wrap32 z <> wrap32 (z - 3).
Proof. unfold wrap32, two31, two32. intro H.
  pose proof (Z.div_mod (z + 2147483648) 4294967296 ltac:(lia)).
  pose proof (Z.div_mod (z - 3 + 2147483648) 4294967296 ltac:(lia)).
  pose proof (Z.mod_pos_bound (z + 2147483648) 4294967296 ltac:(lia)).
  pose proof (Z.mod_pos_bound (z - 3 + 2147483648) 4294967296 ltac:(lia)).
  lia. Qed.

Lemma oracle_rotate_late_model m init n s :
  in_i32 init = true -> 0 <= n < two31 - 2 -> meta_consistent init (n + 1) s ->
  holds_rotate_late s (rotate_log m s n (wrap32 (init + n))) = true.
Proof. intros Hi Hn (Hc & Ht & _).
  unfold rotate_log, add32, chk32.
  assert (Hrr : in_i32 (n + 1) = true) by (unfold in_i32, two31 in *; lia).
  rewrite Hrr. cbn [bind].
  assert (Hidx : index_by_term_count (n + 1) = (n + 1) mod 3).
  { unfold index_by_term_count, PARTITION_COUNT, GenConsts.PARTITION_COUNT. rewrite rem3_nonneg by lia.
    apply wrap32_id. pose proof (Z.mod_pos_bound (n + 1) 3 ltac:(lia)). unfold in_i32, two31. lia. }
  rewrite Hidx. rewrite Ht.
  rewrite wrap32_add_wrap32.
  replace (init + n + 1) with (init + (n + 1)) by ring.
  unfold PARTITION_COUNT, GenConsts.PARTITION_COUNT.
  destruct (wrap32 (init + (n + 1)) =? wrap32 (wrap32 (init + (n + 1)) - 3)) eqn:E.
  - apply Z.eqb_eq in E. rewrite wrap32_sub_wrap32 in E. exfalso. exact (wrap32_plus3_neq _ E).
  - rewrite Hc. replace (n + 1 =? n) with false by (symmetry; apply Z.eqb_neq; lia).
    unfold holds_rotate_late, meta_eqb. rewrite !Z.eqb_refl. reflexivity. Qed.

(* ---- a late rotate_log caller any number of rotations behind ---- *)

Lemma wrap32_neq_close a b : 0 < a - b < two32 -> wrap32 a <> wrap32 b.
Proof. unfold wrap32, two31, two32. intros H E.
  pose proof (Z.div_mod (a + 2147483648) 4294967296 ltac:(lia)).
  pose proof (Z.div_mod (b + 2147483648) 4294967296 ltac:(lia)).
  pose proof (Z.mod_pos_bound (a + 2147483648) 4294967296 ltac:(lia)).
  pose proof (Z.mod_pos_bound (b + 2147483648) 4294967296 ltac:(lia)).
  lia. Qed.

Lemma c17_meta_term_ids init N o0 o1 o2 i :
  0 <= o0 < two32 -> 0 <= o1 < two32 -> 0 <= o2 < two32 -> 0 <= i < 3 ->
  exists d, -2 <= d <= 0 /\ term_id_of (get_tail (c17_meta init N o0 o1 o2) i) = wrap32 (init + N + d).
Proof. intros H0 H1 H2 Hi. unfold c17_meta.
  set (t := wrap32 (init + N)). set (a := N mod 3).
  assert (Hw : forall x, in_i32 (wrap32 x) = true) by (intro; apply wrap32_range).
  assert (Ht1 : wrap32 (t + 1 - 3) = wrap32 (init + N + -2)).
  { unfold t. replace (wrap32 (init + N) + 1 - 3) with (wrap32 (init + N) + (-2)) by ring. rewrite wrap32_add_wrap32. reflexivity. }
  assert (Ht2 : wrap32 (t + 2 - 3) = wrap32 (init + N + -1)).
  { unfold t. replace (wrap32 (init + N) + 2 - 3) with (wrap32 (init + N) + (-1)) by ring. rewrite wrap32_add_wrap32. reflexivity. }
  assert (Ht0 : t = wrap32 (init + N + 0)) by (unfold t; f_equal; ring).
  assert (Hi' : i = 0 \/ i = 1 \/ i = 2) by lia.
  destruct Hi' as [-> | [-> | ->]]; unfold get_tail; cbn [tail0 tail1 tail2 Z.eqb];
    repeat match goal with |- context [if ?c then _ else _] => destruct c end;
    rewrite term_id_of_raw_off by (try apply Hw; assumption);
    first [ exists 0; split; [lia | exact Ht0] | exists (-2); split; [lia | exact Ht1] | exists (-1); split; [lia | exact Ht2] ].
Qed.

Lemma oracle_rotate_late_k_model m init n k o0 o1 o2 :
  in_i32 init = true -> 0 <= n -> 1 <= k -> n + k < two31 - 1 ->
  0 <= o0 < two32 -> 0 <= o1 < two32 -> 0 <= o2 < two32 ->
  let s := c17_meta init (n + k) o0 o1 o2 in
  holds_rotate_late s (rotate_log m s n (wrap32 (init + n))) = true.
Proof. intros Hi Hn Hk Hnk H0 H1 H2 s.
  unfold rotate_log, add32, chk32.
  assert (Hrr : in_i32 (n + 1) = true) by (unfold in_i32, two31 in *; lia).
  rewrite Hrr. cbn [bind].
  assert (Hidx : index_by_term_count (n + 1) = (n + 1) mod 3).
  { unfold index_by_term_count, PARTITION_COUNT, GenConsts.PARTITION_COUNT. rewrite rem3_nonneg by lia.
    apply wrap32_id. pose proof (Z.mod_pos_bound (n + 1) 3 ltac:(lia)). unfold in_i32, two31. lia. }
  rewrite Hidx.
  destruct (c17_meta_term_ids init (n + k) o0 o1 o2 ((n + 1) mod 3) H0 H1 H2
              ltac:(apply Z.mod_pos_bound; lia)) as (d & Hd & Htid).
  fold s in Htid. rewrite Htid.
  unfold PARTITION_COUNT, GenConsts.PARTITION_COUNT.
  rewrite wrap32_add_wrap32, wrap32_sub_wrap32.
  destruct (wrap32 (init + (n + k) + d) =? wrap32 (init + n + 1 - 3)) eqn:E.
  - apply Z.eqb_eq in E. exfalso. revert E. apply wrap32_neq_close. unfold two31, two32 in *. lia.
  - assert (Hc : count s = n + k) by reflexivity. rewrite Hc.
    replace (n + k =? n) with false by (symmetry; apply Z.eqb_neq; lia).
    unfold holds_rotate_late, meta_eqb. rewrite !Z.eqb_refl. reflexivity. Qed.
