(* C19 - proofs about the parser / printer model (Model/Uri.v). *)
From Coq Require Import Permutation.
Require Import V.Base.MachineInt.
Require Import V.Model.UriTypes.
Require Import V.Generated.GenUriTables.
Require Import V.Model.UriSpec.
Require Import V.Model.Uri.
From Coq Require Import Ascii DecimalString.
Open Scope Z_scope.

(* ---- strings ------------------------------------------------------------------------------------ *)

Lemma str_eqb_eq a b : str_eqb a b = true <-> a = b.
Proof.
  revert b. induction a as [|x a IH]; intros [|y b]; cbn; split; intros H; try discriminate; auto.
  - apply andb_true_iff in H. destruct H as [H1 H2]. apply Z.eqb_eq in H1. apply IH in H2. now subst.
  - injection H as -> ->. rewrite Z.eqb_refl. cbn. now apply IH.
Qed.

Lemma str_eqb_refl a : str_eqb a a = true.
Proof. now apply str_eqb_eq. Qed.

Lemma str_eqb_neq a b : str_eqb a b = false <-> a <> b.
Proof.
  split; intros H.
  - intros E. apply str_eqb_eq in E. congruence.
  - destruct (str_eqb a b) eqn:E; auto. apply str_eqb_eq in E. contradiction.
Qed.

Lemma strip_prefix_app p s : strip_prefix p (p ++ s) = Some s.
Proof. induction p as [|a p IH]; cbn; auto. now rewrite Z.eqb_refl. Qed.

Lemma strip_prefix_some p s r : strip_prefix p s = Some r -> s = p ++ r.
Proof.
  revert s. induction p as [|a p IH]; intros s H; cbn in *.
  - now injection H as ->.
  - destruct s as [|b s]; try discriminate. destruct (a =? b) eqn:E; try discriminate.
    apply Z.eqb_eq in E. subst. f_equal. now apply IH.
Qed.

(* ---- the parameter map ---------------------------------------------------------------------------- *)

Definition keys (ps : params) : list str := map fst ps.

Lemma keys_distinct_NoDup ps : keys_distinct ps = true <-> NoDup (keys ps).
Proof.
  induction ps as [|[k v] r IH]; cbn.
  - split; auto. intros _. constructor.
  - rewrite andb_true_iff, negb_true_iff, IH. split.
    + intros [H1 H2]. constructor; auto. intros Hin. apply in_map_iff in Hin. destruct Hin as [[k' v'] [E Hin]].
      cbn in E. subst k'. assert (X : existsb (fun kv => str_eqb k (fst kv)) r = true).
      { apply existsb_exists. exists (k, v'). split; auto. cbn. apply str_eqb_refl. }
      congruence.
    + intros H. inversion H as [|? ? Hn Hd]; subst. split; auto.
      destruct (existsb _ r) eqn:E; auto. apply existsb_exists in E. destruct E as [[k' v'] [Hin E]].
      cbn in E. apply str_eqb_eq in E. subst k'. exfalso. apply Hn. apply in_map_iff. exists (k, v'). auto.
Qed.

Lemma insert_new k v ps : ~ In k (keys ps) -> insert k v ps = ps ++ [(k, v)].
Proof.
  induction ps as [|[k' v'] r IH]; cbn; intros H; auto.
  destruct (str_eqb k k') eqn:E.
  - apply str_eqb_eq in E. subst. exfalso. apply H. now left.
  - f_equal. apply IH. intros X. apply H. now right.
Qed.

Lemma insert_keys_old k v ps : In k (keys ps) -> keys (insert k v ps) = keys ps.
Proof.
  induction ps as [|[k' v'] r IH]; cbn; intros H; [contradiction|].
  destruct (str_eqb k k') eqn:E.
  - apply str_eqb_eq in E. now subst.
  - cbn. f_equal. apply IH. destruct H as [H|H]; auto. subst. rewrite str_eqb_refl in E. discriminate.
Qed.

Lemma NoDup_snoc {A} (l : list A) x : NoDup l -> ~ In x l -> NoDup (l ++ [x]).
Proof.
  induction l as [|y l IH]; cbn; intros Hd Hn.
  - constructor; auto.
  - inversion Hd; subst. constructor.
    + intros X. apply in_app_or in X. destruct X as [X|X]; [contradiction|].
      destruct X as [X|[]]. subst. apply Hn. now left.
    + apply IH; auto.
Qed.

Lemma insert_keys_NoDup k v ps : NoDup (keys ps) -> NoDup (keys (insert k v ps)).
Proof.
  intros H. destruct (in_dec (list_eq_dec Z.eq_dec) k (keys ps)) as [Hin|Hn].
  - now rewrite insert_keys_old.
  - rewrite insert_new by auto. unfold keys. rewrite map_app. cbn.
    apply NoDup_snoc; auto.
Qed.

Lemma insert_in k v ps kv : In kv (insert k v ps) -> kv = (k, v) \/ In kv ps.
Proof.
  induction ps as [|[k' v'] r IH]; cbn.
  - intros [H|[]]; auto.
  - destruct (str_eqb k k'); cbn; intros [H|H]; auto. destruct (IH H); auto.
Qed.

Lemma insert_not_nil k v ps : insert k v ps <> [].
Proof. destruct ps as [|[k' v'] r]; cbn; try discriminate. destruct (str_eqb k k'); discriminate. Qed.

Lemma lookup_insert_same k v ps : lookup k (insert k v ps) = Some v.
Proof.
  induction ps as [|[k' v'] r IH]; cbn.
  - now rewrite str_eqb_refl.
  - destruct (str_eqb k k') eqn:E; cbn; [now rewrite str_eqb_refl | now rewrite E].
Qed.

Lemma lookup_insert_other k k2 v ps : k2 <> k -> lookup k2 (insert k v ps) = lookup k2 ps.
Proof.
  intros Hne. induction ps as [|[k' v'] r IH]; cbn.
  - apply str_eqb_neq in Hne. now rewrite Hne.
  - destruct (str_eqb k k') eqn:E; cbn.
    + apply str_eqb_eq in E. subst k'. apply str_eqb_neq in Hne. now rewrite Hne.
    + destruct (str_eqb k2 k'); auto.
Qed.

Lemma lookup_in k v ps : NoDup (keys ps) -> In (k, v) ps -> lookup k ps = Some v.
Proof.
  induction ps as [|[k' v'] r IH]; cbn; intros Hd Hin; [contradiction|].
  inversion Hd as [|? ? Hn Hd']; subst.
  destruct Hin as [H|H].
  - injection H as -> ->. now rewrite str_eqb_refl.
  - destruct (str_eqb k k') eqn:E.
    + apply str_eqb_eq in E. subst. exfalso. apply Hn. apply in_map_iff. exists (k', v). auto.
    + auto.
Qed.

Lemma lookup_some_in k v ps : lookup k ps = Some v -> In (k, v) ps.
Proof.
  induction ps as [|[k' v'] r IH]; cbn; intros H; [discriminate|].
  destruct (str_eqb k k') eqn:E.
  - apply str_eqb_eq in E. injection H as ->. subst. now left.
  - right. auto.
Qed.

Lemma lookup_none k ps : lookup k ps = None <-> ~ In k (keys ps).
Proof.
  induction ps as [|[k' v'] r IH]; cbn.
  - split; auto.
  - destruct (str_eqb k k') eqn:E.
    + apply str_eqb_eq in E. subst. split; [discriminate|]. intros H. exfalso. apply H. now left.
    + rewrite IH. apply str_eqb_neq in E. split; intros H; [intros [X|X]; [congruence|auto] | auto].
Qed.

(* two maps with distinct keys and the same entries answer every lookup alike *)
Lemma lookup_perm a b : NoDup (keys a) -> Permutation a b -> forall k, lookup k a = lookup k b.
Proof.
  intros Hd Hp k.
  assert (Hd' : NoDup (keys b)). { eapply Permutation_NoDup; [apply Permutation_map; eauto | auto]. }
  destruct (lookup k a) eqn:E.
  - apply lookup_some_in in E. symmetry. apply lookup_in; auto. eapply Permutation_in; eauto.
  - destruct (lookup k b) eqn:E2; auto. apply lookup_some_in in E2.
    apply lookup_none in E. exfalso. apply E. apply in_map_iff. exists (k, s). split; auto.
    eapply Permutation_in; [apply Permutation_sym|]; eauto.
Qed.

Definition ins (acc : params) (kv : str * str) : params := insert (fst kv) (snd kv) acc.

Lemma last_wins_eq kvs : last_wins kvs = fold_left ins kvs [].
Proof. reflexivity. Qed.

Lemma fold_ins_distinct ord : forall ps,
  NoDup (keys ps ++ keys ord) -> fold_left ins ord ps = ps ++ ord.
Proof.
  induction ord as [|[k v] r IH]; intros ps H; cbn.
  - now rewrite app_nil_r.
  - unfold ins at 2. cbn. rewrite insert_new.
    + rewrite IH.
      * now rewrite <- app_assoc.
      * unfold keys in *. rewrite map_app. cbn. rewrite <- app_assoc. exact H.
    + cbn in H. apply NoDup_remove_2 in H. intros X. apply H. apply in_or_app. now left.
Qed.

Lemma fold_ins_NoDup ord : NoDup (keys ord) -> fold_left ins ord [] = ord.
Proof. intros H. now rewrite fold_ins_distinct. Qed.

(* ---- the character classes ------------------------------------------------------------------------ *)

Definition key_char_ok (c : Z) : bool := negb (c =? CH_EQ) && negb (c =? CH_BAR).

Lemma name_ok_unfold k : name_ok k = true <-> k <> [] /\ forallb key_char_ok k = true.
Proof.
  unfold name_ok. rewrite andb_true_iff, negb_true_iff. unfold key_char_ok.
  destruct k; cbn; split; intros [H1 H2]; split; auto; try discriminate. contradiction.
Qed.

Lemma has_bar_false v : has_bar v = false <-> forallb (fun c => negb (c =? CH_BAR)) v = true.
Proof.
  unfold has_bar. induction v as [|c v IH]; cbn; [tauto|].
  rewrite orb_false_iff, andb_true_iff, negb_true_iff, IH. tauto.
Qed.

Lemma has_bar_app a b : has_bar (a ++ b) = has_bar a || has_bar b.
Proof. unfold has_bar. apply existsb_app. Qed.

Lemma forallb_snoc {A} (f : A -> bool) l x : forallb f (l ++ [x]) = forallb f l && f x.
Proof. rewrite forallb_app. cbn. now rewrite andb_true_r. Qed.

(* ---- the loop consumes a media name / a key / a value in one go -------------------------------------- *)

Lemma loop_media_app m : forall b media key ps idx rest,
  forallb media_char_ok m = true ->
  loop SMedia b media key ps idx (m ++ rest) = loop SMedia (b ++ m) media key ps (idx + str_len m) rest.
Proof.
  induction m as [|c m IH]; intros b media key ps idx rest H.
  - cbn. rewrite app_nil_r. f_equal. unfold str_len. cbn. lia.
  - cbn in H. apply andb_true_iff in H. destruct H as [Hc Hm]. unfold media_char_ok in Hc.
    repeat (apply andb_true_iff in Hc; destruct Hc as [Hc ?]).
    rewrite negb_true_iff in *.
    cbn [app loop]. rewrite Hc. replace ((c =? CH_EQ) || (c =? CH_BAR) || (c =? CH_COLON)) with false
      by (symmetry; repeat (apply orb_false_iff; split); auto).
    rewrite IH by auto. rewrite <- app_assoc. cbn. f_equal. unfold str_len. cbn [List.length]. lia.
Qed.

Lemma loop_key_app k : forall b media key ps idx rest,
  forallb key_char_ok k = true ->
  loop SKey b media key ps idx (k ++ rest) = loop SKey (b ++ k) media key ps (idx + str_len k) rest.
Proof.
  induction k as [|c k IH]; intros b media key ps idx rest H.
  - cbn. rewrite app_nil_r. f_equal. unfold str_len. cbn. lia.
  - cbn in H. apply andb_true_iff in H. destruct H as [Hc Hk]. unfold key_char_ok in Hc.
    apply andb_true_iff in Hc. destruct Hc as [H1 H2]. rewrite negb_true_iff in *.
    cbn [app loop]. rewrite H1, H2. rewrite IH by auto. rewrite <- app_assoc. cbn. f_equal.
    unfold str_len. cbn [List.length]. lia.
Qed.

Lemma loop_value_app v : forall b media key ps idx rest,
  has_bar v = false ->
  loop SValue b media key ps idx (v ++ rest) = loop SValue (b ++ v) media key ps (idx + str_len v) rest.
Proof.
  induction v as [|c v IH]; intros b media key ps idx rest H.
  - cbn. rewrite app_nil_r. f_equal. unfold str_len. cbn. lia.
  - unfold has_bar in H. cbn in H. apply orb_false_iff in H. destruct H as [H1 H2].
    cbn [app loop]. rewrite H1. rewrite IH by exact H2. rewrite <- app_assoc. cbn. f_equal.
    unfold str_len. cbn [List.length]. lia.
Qed.

(* k1=v1|k2=v2|...|kn=vn *)
Fixpoint body (kvs : params) : str :=
  match kvs with
  | [] => []
  | kv :: r => fst kv ++ [CH_EQ] ++ snd kv ++ match r with [] => [] | _ => [CH_BAR] ++ body r end
  end.

Lemma loop_body kvs : forall media key ps idx,
  kvs <> [] -> forallb entry_ok kvs = true ->
  loop SKey [] media key ps idx (body kvs) = POk (media, fold_left ins kvs ps).
Proof.
  induction kvs as [|[k v] r IH]; intros media key ps idx Hne Hok; [contradiction|].
  cbn in Hok. apply andb_true_iff in Hok. destruct Hok as [Hkv Hr].
  unfold entry_ok in Hkv. cbn in Hkv. apply andb_true_iff in Hkv. destruct Hkv as [Hk Hv].
  apply name_ok_unfold in Hk. destruct Hk as [Hk1 Hk2]. apply negb_true_iff in Hv.
  cbn [body fst snd].
  rewrite loop_key_app by auto. cbn [app].
  assert (E : is_empty k = false) by (destruct k; [contradiction|reflexivity]).
  cbn [loop]. rewrite Z.eqb_refl, E.
  destruct r as [|kv2 r'].
  - rewrite app_nil_r. rewrite <- (app_nil_r v) at 1. rewrite loop_value_app by auto. cbn. reflexivity.
  - rewrite loop_value_app by auto. cbn [app loop]. rewrite Z.eqb_refl.
    rewrite IH; auto. discriminate.
Qed.

(* ---- Display in terms of `body` ------------------------------------------------------------------- *)

Lemma removelast_segs ord : forall x, ord <> [] ->
  removelast (x ++ List.concat (map seg ord)) = x ++ body ord.
Proof.
  induction ord as [|[k v] r IH]; intros x Hne; [contradiction|].
  cbn [map List.concat body fst snd]. unfold seg at 1. cbn [fst snd].
  destruct r as [|kv2 r'].
  - cbn [map List.concat]. rewrite app_nil_r.
    replace (x ++ k ++ [CH_EQ] ++ v ++ [CH_BAR]) with ((x ++ k ++ [CH_EQ] ++ v) ++ [CH_BAR])
      by (repeat rewrite <- app_assoc; reflexivity).
    rewrite removelast_last. now rewrite app_nil_r.
  - replace (x ++ (k ++ [CH_EQ] ++ v ++ [CH_BAR]) ++ List.concat (map seg (kv2 :: r')))
      with ((x ++ k ++ [CH_EQ] ++ v ++ [CH_BAR]) ++ List.concat (map seg (kv2 :: r')))
      by (repeat rewrite <- app_assoc; reflexivity).
    rewrite IH by discriminate. repeat rewrite <- app_assoc. reflexivity.
Qed.

Definition prefix_part (prefix : str) : str :=
  if is_empty prefix then [] else prefix ++ (if ends_with_colon prefix then [] else [CH_COLON]).

Lemma print_unfold prefix media ord :
  print prefix media ord =
  prefix_part prefix ++ AERON_PREFIX ++ media ++ match ord with [] => [] | _ => [CH_QMARK] ++ body ord end.
Proof.
  unfold print, prefix_part. destruct ord as [|kv r].
  - now rewrite app_nil_r.
  - replace (((if is_empty prefix then [] else prefix ++ (if ends_with_colon prefix then [] else [CH_COLON]))
               ++ AERON_PREFIX ++ media) ++ [CH_QMARK] ++ List.concat (map seg (kv :: r)))
      with ((((if is_empty prefix then [] else prefix ++ (if ends_with_colon prefix then [] else [CH_COLON]))
               ++ AERON_PREFIX ++ media) ++ [CH_QMARK]) ++ List.concat (map seg (kv :: r)))
      by (repeat rewrite <- app_assoc; reflexivity).
    rewrite removelast_segs by discriminate. repeat rewrite <- app_assoc. reflexivity.
Qed.

(* ---- facts about the generated constants (re-established by computation on every run) -------------- *)

Lemma spy_prefix_is : SPY_PREFIX = SPY_QUALIFIER ++ [CH_COLON].
Proof. reflexivity. Qed.

Lemma strip_spy_of_aeron x : strip_prefix SPY_PREFIX (AERON_PREFIX ++ x) = None.
Proof. reflexivity. Qed.

Lemma spy_no_trailing_colon : ends_with_colon SPY_QUALIFIER = false.
Proof. reflexivity. Qed.

Lemma spy_not_empty : is_empty SPY_QUALIFIER = false.
Proof. reflexivity. Qed.

Lemma media_consts_ok : forallb media_char_ok UDP_MEDIA = true /\ forallb media_char_ok IPC_MEDIA = true.
Proof. split; reflexivity. Qed.

Lemma spec_consts :
  P_SPY = SPY_QUALIFIER /\ P_UDP = UDP_MEDIA /\ P_IPC = IPC_MEDIA /\ P_AERON ++ [CH_COLON] = AERON_PREFIX
  /\ P_SESSION_ID = SESSION_ID_PARAM_NAME /\ P_TAG = TAG_PREFIX /\ P_AERON = AERON_SCHEME.
Proof. repeat split; reflexivity. Qed.

(* ---- every string of the grammar is parsed to exactly its parts ------------------------------------- *)

Definition prefix_ok (p : str) : Prop := p = [] \/ p = SPY_QUALIFIER.

Definition wrap_loop (prefix : str) (r : presult (str * params)) : presult uri :=
  match r with POk (media, ps) => POk (mkUri prefix media ps) | PErr e => PErr e end.

Lemma parse_unfold_plain s bd :
  strip_prefix SPY_PREFIX s = None -> strip_prefix AERON_PREFIX s = Some bd ->
  parse s = wrap_loop [] (loop SMedia [] [] [] [] (str_len AERON_PREFIX + 0) bd).
Proof. intros H1 H2. unfold parse. rewrite H1, H2. reflexivity. Qed.

Lemma parse_unfold_spy s rest bd :
  strip_prefix SPY_PREFIX s = Some rest -> strip_prefix AERON_PREFIX rest = Some bd ->
  parse s = wrap_loop SPY_QUALIFIER (loop SMedia [] [] [] [] (str_len AERON_PREFIX + str_len SPY_PREFIX) bd).
Proof. intros H1 H2. unfold parse. rewrite H1, H2. reflexivity. Qed.

Lemma loop_print_tail media kvs idx :
  forallb media_char_ok media = true ->
  forallb entry_ok kvs = true ->
  (kvs = [] -> media = UDP_MEDIA \/ media = IPC_MEDIA) ->
  loop SMedia [] [] [] [] idx (media ++ match kvs with [] => [] | _ => [CH_QMARK] ++ body kvs end)
  = POk (media, fold_left ins kvs []).
Proof.
  intros Hm Hk Hmedia. rewrite loop_media_app by auto. cbn [app].
  destruct kvs as [|kv r].
  - cbn [loop finish fold_left]. destruct (Hmedia eq_refl) as [-> | ->]; reflexivity.
  - cbn [app loop]. rewrite Z.eqb_refl. rewrite loop_body; auto. discriminate.
Qed.

Lemma parse_print prefix media kvs :
  prefix_ok prefix ->
  forallb media_char_ok media = true ->
  forallb entry_ok kvs = true ->
  (kvs = [] -> media = UDP_MEDIA \/ media = IPC_MEDIA) ->
  parse (print prefix media kvs) = POk (mkUri prefix media (fold_left ins kvs [])).
Proof.
  intros Hp Hm Hk Hmedia. rewrite print_unfold.
  destruct Hp as [-> | ->].
  - unfold prefix_part. cbn [is_empty app].
    rewrite (parse_unfold_plain _ _ (strip_spy_of_aeron _) (strip_prefix_app _ _)).
    now rewrite loop_print_tail.
  - unfold prefix_part. rewrite spy_not_empty, spy_no_trailing_colon.
    rewrite <- spy_prefix_is.
    rewrite (parse_unfold_spy (SPY_PREFIX ++ AERON_PREFIX ++ _) _ _ (strip_prefix_app _ _) (strip_prefix_app _ _)).
    now rewrite loop_print_tail.
Qed.

(* C19_grammar *)
Lemma spec_join_tail r :
  List.concat (map (fun kv : str * str => [CH_BAR] ++ fst kv ++ [CH_EQ] ++ snd kv) r)
  = match r with [] => [] | _ => [CH_BAR] ++ body r end.
Proof.
  induction r as [|kv2 r IH]; auto.
  cbn [map List.concat]. rewrite IH. cbn [body]. repeat rewrite <- app_assoc. reflexivity.
Qed.

Lemma spec_uri_print prefix media kvs :
  prefix_ok prefix -> spec_uri prefix media kvs = print prefix media kvs.
Proof.
  intros Hp. rewrite print_unfold. unfold spec_uri.
  assert (Hj : spec_join kvs = match kvs with [] => [] | _ => [CH_QMARK] ++ body kvs end).
  { destruct kvs as [|kv r]; auto. unfold spec_join. rewrite spec_join_tail. cbn [body].
    repeat rewrite <- app_assoc. reflexivity. }
  rewrite Hj. destruct (proj1 (proj2 (proj2 (proj2 spec_consts)))).
  destruct Hp as [-> | ->].
  - unfold prefix_part. cbn [is_empty app]. now rewrite <- app_assoc.
  - unfold prefix_part. rewrite spy_not_empty, spy_no_trailing_colon. repeat rewrite <- app_assoc. reflexivity.
Qed.

Lemma grammar_ok_unfold prefix media kvs :
  grammar_ok prefix media kvs = true ->
  prefix_ok prefix /\ forallb media_char_ok media = true /\ forallb entry_ok kvs = true
  /\ (kvs = [] -> media = UDP_MEDIA \/ media = IPC_MEDIA).
Proof.
  unfold grammar_ok. intros H. repeat (apply andb_true_iff in H; destruct H as [H ?]).
  destruct spec_consts as [E1 [E2 [E3 _]]]. rewrite E1 in H. rewrite E2, E3 in *.
  repeat split; auto.
  - apply orb_true_iff in H. destruct H as [H|H].
    + left. destruct prefix; [auto|discriminate].
    + right. now apply str_eqb_eq.
  - intros ->. apply orb_true_iff in H0. destruct H0 as [X|X]; apply str_eqb_eq in X; auto.
Qed.

Lemma parse_grammar prefix media kvs :
  grammar_ok prefix media kvs = true ->
  parse (spec_uri prefix media kvs) = POk (mkUri prefix media (last_wins kvs)).
Proof.
  intros H. apply grammar_ok_unfold in H. destruct H as [Hp [Hm [Hk Hmed]]].
  rewrite spec_uri_print by auto. now apply parse_print.
Qed.

(* ---- whatever the parser accepts is well formed ------------------------------------------------------ *)

Definition pswf (ps : params) : Prop := forallb entry_ok ps = true /\ NoDup (keys ps).

Definition wf_uri (u : uri) : Prop :=
  prefix_ok (u_prefix u) /\ forallb media_char_ok (u_media u) = true /\ pswf (u_params u)
  /\ (u_params u = [] -> u_media u = UDP_MEDIA \/ u_media u = IPC_MEDIA).

Lemma insert_pswf k v ps : pswf ps -> entry_ok (k, v) = true -> pswf (insert k v ps).
Proof.
  intros [H1 H2] He. split.
  - apply forallb_forall. intros kv Hin. apply insert_in in Hin. destruct Hin as [-> | Hin]; auto.
    eapply forallb_forall in H1; eauto.
  - now apply insert_keys_NoDup.
Qed.

Definition loop_inv (st : pstate) (b media key : str) (ps : params) : Prop :=
  pswf ps /\
  match st with
  | SMedia => forallb media_char_ok b = true /\ ps = []
  | SKey => forallb media_char_ok media = true /\ forallb key_char_ok b = true
  | SValue => forallb media_char_ok media = true /\ name_ok key = true /\ has_bar b = false
  end.

Definition loop_res (r : str * params) : Prop :=
  forallb media_char_ok (fst r) = true /\ pswf (snd r)
  /\ (snd r = [] -> fst r = UDP_MEDIA \/ fst r = IPC_MEDIA).

Lemma loop_wf s : forall st b media key ps idx r,
  loop_inv st b media key ps -> loop st b media key ps idx s = POk r -> loop_res r.
Proof.
  induction s as [|c s IH]; intros st b media key ps idx r [Hps Hst] H.
  - cbn in H. destruct st; cbn in H.
    + destruct Hst as [Hb ->].
      destruct (str_eqb b IPC_MEDIA) eqn:E1; destruct (str_eqb b UDP_MEDIA) eqn:E2; cbn in H; try discriminate;
        injection H as <-; (split; [exact Hb|split; [exact Hps|]]); intros _; cbn.
      * right. now apply str_eqb_eq.
      * right. now apply str_eqb_eq.
      * left. now apply str_eqb_eq.
    + discriminate.
    + destruct Hst as [Hm [Hk Hv]]. injection H as <-. split; [exact Hm|]. split.
      * apply insert_pswf; auto. unfold entry_ok. cbn [fst snd]. now rewrite Hk, Hv.
      * cbn. intros X. exfalso. eapply insert_not_nil; eauto.
  - cbn [loop] in H. destruct st.
    + destruct Hst as [Hb ->]. destruct (c =? CH_QMARK) eqn:Eq.
      * eapply IH; [|exact H]. split; [exact Hps|]. split; auto.
      * destruct ((c =? CH_EQ) || (c =? CH_BAR) || (c =? CH_COLON)) eqn:E3; [discriminate|].
        eapply IH; [|exact H]. split; [exact Hps|]. split; auto.
        rewrite forallb_snoc, Hb. unfold media_char_ok. rewrite Eq.
        apply orb_false_iff in E3. destruct E3 as [E3 E4]. apply orb_false_iff in E3. destruct E3 as [E3 E5].
        now rewrite E3, E4, E5.
    + destruct Hst as [Hm Hb]. destruct (c =? CH_EQ) eqn:Eq.
      * destruct (is_empty b) eqn:Eb; [discriminate|].
        eapply IH; [|exact H]. split; [exact Hps|]. repeat split; auto.
        apply name_ok_unfold. split; auto. intros ->. discriminate.
      * destruct (c =? CH_BAR) eqn:Ebar; [discriminate|].
        eapply IH; [|exact H]. split; [exact Hps|]. split; auto.
        rewrite forallb_snoc, Hb. unfold key_char_ok. now rewrite Eq, Ebar.
    + destruct Hst as [Hm [Hk Hv]]. destruct (c =? CH_BAR) eqn:Ebar.
      * eapply IH; [|exact H]. split.
        -- apply insert_pswf; auto. unfold entry_ok. cbn [fst snd]. now rewrite Hk, Hv.
        -- split; auto.
      * eapply IH; [|exact H]. split; [exact Hps|]. repeat split; auto.
        rewrite has_bar_app, Hv. unfold has_bar. cbn. now rewrite Ebar.
Qed.

Lemma parse_wf s u : parse s = POk u -> wf_uri u.
Proof.
  unfold parse. intros H.
  destruct (strip_prefix SPY_PREFIX s) as [r|] eqn:E1.
  - destruct (strip_prefix AERON_PREFIX r) as [bd|]; [|discriminate].
    destruct (loop SMedia [] [] [] [] _ bd) as [[m ps]|e] eqn:EL; [|discriminate].
    injection H as <-. apply loop_wf in EL.
    + destruct EL as [A [B C]]. repeat split; cbn; auto; try apply B. now right.
    + split; [split; [reflexivity|constructor]|]. split; reflexivity.
  - destruct (strip_prefix AERON_PREFIX s) as [bd|]; [|discriminate].
    destruct (loop SMedia [] [] [] [] _ bd) as [[m ps]|e] eqn:EL; [|discriminate].
    injection H as <-. apply loop_wf in EL.
    + destruct EL as [A [B C]]. repeat split; cbn; auto; try apply B. now left.
    + split; [split; [reflexivity|constructor]|]. split; reflexivity.
Qed.

(* ---- C19_reparse: printing an accepted uri in any order and parsing again gives it back ---------------- *)

Lemma perm_pswf a b : Permutation a b -> pswf b -> pswf a.
Proof.
  intros Hp [H1 H2]. split.
  - apply forallb_forall. intros kv Hin. eapply forallb_forall in H1; eauto. eapply Permutation_in; eauto.
  - eapply Permutation_NoDup; [apply Permutation_map; apply Permutation_sym; eauto | auto].
Qed.

Lemma print_parse_wf u ord :
  wf_uri u -> Permutation ord (u_params u) ->
  parse (display u ord) = POk (mkUri (u_prefix u) (u_media u) ord).
Proof.
  intros [Hp [Hm [Hps Hmed]]] Hperm. unfold display.
  pose proof (perm_pswf _ _ Hperm Hps) as [Ho1 Ho2].
  rewrite parse_print; auto.
  - now rewrite fold_ins_NoDup.
  - intros ->. apply Hmed. apply Permutation_nil. exact Hperm.
Qed.

Lemma reparse s u :
  parse s = POk u ->
  forall ord, Permutation ord (u_params u) ->
    parse (display u ord) = POk (mkUri (u_prefix u) (u_media u) ord)
    /\ forall k, lookup k ord = lookup k (u_params u).
Proof.
  intros H ord Hperm. pose proof (parse_wf _ _ H) as Hwf. split.
  - now apply print_parse_wf.
  - apply lookup_perm; auto.
    destruct Hwf as [_ [_ [Hps _]]]. apply (perm_pswf _ _ Hperm Hps).
Qed.

(* ---- decimal numbers contain digits and '-' only ----------------------------------------------------------- *)

Definition dec_char_ok (c : Z) : bool := (c =? 45) || ((48 <=? c) && (c <=? 57)).

Lemma uint_chars d : forallb dec_char_ok (str_of_string (NilEmpty.string_of_uint d)) = true.
Proof. induction d; cbn; auto. Qed.

Lemma dec_chars z : forallb dec_char_ok (dec z) = true.
Proof.
  unfold dec. destruct (Z.to_int z) as [d|d]; cbn.
  - destruct d; cbn; auto; apply uint_chars.
  - destruct d; cbn; auto; apply uint_chars.
Qed.

Lemma dec_char_not_special c : dec_char_ok c = true -> c <> CH_BAR /\ c <> CH_EQ /\ c <> CH_QMARK /\ c <> CH_COLON.
Proof. unfold dec_char_ok, CH_BAR, CH_EQ, CH_QMARK, CH_COLON. lia. Qed.

Lemma no_bar_in_decimal z : has_bar (dec z) = false.
Proof.
  apply has_bar_false. pose proof (dec_chars z) as H.
  apply forallb_forall. intros c Hin. eapply forallb_forall in H; eauto.
  apply dec_char_not_special in H. apply negb_true_iff. apply Z.eqb_neq. tauto.
Qed.

Lemma dec_not_empty z : dec z <> [].
Proof.
  unfold dec. destruct (Z.to_int z) as [d|d]; cbn.
  - destruct d; cbn; discriminate.
  - discriminate.
Qed.

(* ---- C19_session_id ------------------------------------------------------------------------------------------ *)

Lemma session_id_name_ok : name_ok SESSION_ID_PARAM_NAME = true.
Proof. reflexivity. Qed.

Lemma put_wf u k v : wf_uri u -> entry_ok (k, v) = true -> wf_uri (uri_put u k v).
Proof.
  intros [Hp [Hm [Hps Hmed]]] He. repeat split; cbn; auto; try (apply insert_pswf; auto).
  intros X. exfalso. eapply insert_not_nil; eauto.
Qed.

Lemma add_session_id_spec s sid u' :
  add_session_id s sid = POk u' ->
  exists u, parse s = POk u
    /\ u_prefix u' = u_prefix u /\ u_media u' = u_media u
    /\ lookup SESSION_ID_PARAM_NAME (u_params u') = Some (dec sid)
    /\ (forall k, k <> SESSION_ID_PARAM_NAME -> lookup k (u_params u') = lookup k (u_params u))
    /\ forall ord, Permutation ord (u_params u') ->
         parse (display u' ord) = POk (mkUri (u_prefix u) (u_media u) ord)
         /\ forall k, lookup k ord = lookup k (u_params u').
Proof.
  unfold add_session_id. destruct (parse s) as [u|e] eqn:E; [|discriminate].
  intros H. injection H as <-. exists u. split; auto. cbn.
  repeat split; auto.
  - apply lookup_insert_same.
  - intros k Hk. now apply lookup_insert_other.
  - assert (Hwf : wf_uri (uri_put u SESSION_ID_PARAM_NAME (dec sid))).
    { apply put_wf; [eapply parse_wf; eauto|]. unfold entry_ok. cbn [fst snd].
      now rewrite session_id_name_ok, no_bar_in_decimal. }
    exact (print_parse_wf _ _ Hwf H).
  - apply lookup_perm; auto.
    assert (Hwf : wf_uri (uri_put u SESSION_ID_PARAM_NAME (dec sid))).
    { apply put_wf; [eapply parse_wf; eauto|]. unfold entry_ok. cbn [fst snd].
      now rewrite session_id_name_ok, no_bar_in_decimal. }
    destruct Hwf as [_ [_ [Hps _]]]. apply (perm_pswf _ _ H Hps).
Qed.

Lemma add_session_id_err s sid e : add_session_id s sid = PErr e <-> parse s = PErr e.
Proof. unfold add_session_id. destruct (parse s); split; intros H; congruence. Qed.

(* ---- C19_total --------------------------------------------------------------------------------------------------- *)

Lemma parse_total s : (exists u, parse_outcome s = Ok u) \/ (exists e, parse_outcome s = Err e).
Proof. unfold parse_outcome. destruct (parse s); eauto. Qed.
