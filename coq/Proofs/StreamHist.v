(* C01, part 3: `hist_rep`, the relation between the abstract machine of Spec/Stream.v, the frames still ahead of the
   subscriber's cursor, and the assembler; preserved by every kind of step.  Independent of the publisher flavour. *)
Require Import V.Base.MachineInt.
Require Import V.Generated.GenConsts.
Require Import V.Model.LogBase.
Require Import V.Model.Appender.
Require Import V.Model.Reader.
Require Import V.Model.Assembler.
Require Import V.Spec.Stream.
Require Import V.Proofs.DescriptorProofs.
Require Import V.Proofs.ReaderProofs.
Require Import V.Proofs.AssemblerProofs.
Require Import V.Proofs.StreamFrames.
Require Import V.Proofs.StreamLog.
From Coq Require Import ZifyBool.
Open Scope Z_scope.

(* ---- the keyed assembler on fragments of one session ---- *)
Lemma assemble_one_session ses : forall xs bs, Forall (fun x => fr_session x = ses) xs ->
  snd (assemble bs xs) = map (pair ses) (snd (run1 (bget bs ses) (map fl_pl xs))) /\
  bget (fst (assemble bs xs)) ses = fst (run1 (bget bs ses) (map fl_pl xs)).
Proof. induction xs as [|x r IH]; intros bs H; [split; reflexivity|]. inversion H as [|? ? Hx Hr]; subst.
  cbn [assemble map run1]. pose proof (on_fragment_same bs x) as Hsame. cbv zeta in Hsame.
  destruct (on_fragment bs x) as [bs1 out1]. unfold fl_pl at 1 3.
  destruct (step1 (bget bs (fr_session x)) (fr_flags x) (fr_payload x)) as [st' o]. destruct Hsame as [Hb Ho].
  specialize (IH bs1 Hr). destruct (assemble bs1 r) as [bs2 out2]. cbn [fst snd] in *. rewrite <- Hb.
  destruct (run1 (bget bs1 (fr_session x)) (map fl_pl r)) as [st2 o2]. cbn [fst snd] in *. destruct IH as [IH1 IH2].
  split; [|assumption]. rewrite IH1, Ho, map_app. reflexivity. Qed.

Lemma Forall_firstn_ {A} (P : A -> Prop) : forall n l, Forall P l -> Forall P (firstn n l).
Proof. induction n; intros l H; cbn [firstn]; [constructor|]. destruct l; [constructor|]. inversion H; subst. constructor; auto. Qed.
Lemma Forall_skipn_ {A} (P : A -> Prop) : forall n l, Forall P l -> Forall P (skipn n l).
Proof. induction n; intros l H; cbn [skipn]; [assumption|]. destruct l; [constructor|]. inversion H; subst. auto. Qed.

Lemma map_snd_pair {A B} (a : A) (l : list B) : map snd (map (pair a) l) = l.
Proof. induction l; cbn [map snd]; [reflexivity|]. f_equal. assumption. Qed.

(* ---- increasing lists ---- *)
Lemma increasing_snoc ps p : increasing ps -> Forall (fun q => q < p) ps -> increasing (ps ++ [p]).
Proof. induction ps as [|a r IH]; intros Hi Hf; cbn [app increasing]; [auto|].
  cbn [increasing] in Hi. destruct Hi as [Ha Hr]. inversion Hf as [|? ? Hap Hrp]; subst. split.
  - destruct r as [|b r2]; cbn [app]; [assumption|assumption].
  - apply IH; assumption. Qed.

Section Hist.
Variables (g : sgeom) (ses : Z).

Record hist_rep (F : Z -> list frame) (pend : option frame) (n off : Z) (k : Z) (j : nat)
                (asm : builders) (sp : spec) (D : list (Z * list Z)) : Prop := mkHistRep {
  hr_asm : run1 None D = (bget asm ses, sp_del sp);
  hr_frs : D ++ frags (items_of (rest F k j)) = frags (sp_stream sp);
  hr_acc : frags (sp_stream sp) = concat (map fragments_of (map (chunks_of (sg_mpl g)) (map fst (sp_acc sp))));
  hr_end : pos_after (sg_p0 g) (sp_stream sp) + pend_span pend = n * sg_tlen g + off;
  hr_open : match pend, sp_open sp with
            | None, None => True
            | Some f, Some (len, p) => f_len f = len + 32 /\ p = n * sg_tlen g + off
            | _, _ => False
            end;
  hr_mono : Forall (fun mp => snd mp <= pos_after (sg_p0 g) (sp_stream sp)) (sp_acc sp);
  hr_incr : increasing (map snd (sp_acc sp));
  hr_al : Forall (fun mp => snd mp mod 32 = 0) (sp_acc sp);
  hr_ok : sp_ok sp = true
}.

Lemma pos_after_app p0 a b : pos_after p0 (a ++ b) = pos_after p0 a + span_of b.
Proof. unfold pos_after. rewrite span_of_app. ring. Qed.

Lemma span_of_nn_items fs : Forall (frame_ok ses) fs -> 0 <= span_of (items_of fs).
Proof. intros H. rewrite (span_of_items ses) by assumption. apply span_sum_nonneg. eapply frames_ok_pos; eassumption. Qed.

Lemma acc_snoc_facts (acc : list (list Z * Z)) endp m p :
  Forall (fun mp => snd mp <= endp) acc -> increasing (map snd acc) -> Forall (fun mp => snd mp mod 32 = 0) acc ->
  endp < p -> p mod 32 = 0 ->
  Forall (fun mp => snd mp <= p) (acc ++ [(m, p)]) /\ increasing (map snd (acc ++ [(m, p)])) /\
  Forall (fun mp => snd mp mod 32 = 0) (acc ++ [(m, p)]).
Proof. intros Hm Hi Ha Hlt Hal. split; [|split].
  - apply Forall_app. split; [|constructor; [cbn; lia|constructor]].
    eapply Forall_impl; [|exact Hm]. cbn. intros; lia.
  - rewrite map_app. cbn [map snd]. apply increasing_snoc; [assumption|].
    apply Forall_map. eapply Forall_impl; [|exact Hm]. cbn. intros; lia.
  - apply Forall_app. split; [assumption|constructor; [assumption|constructor]]. Qed.

(* a refused operation, an environment operation: the abstract machine does not move *)

(* an accepted offer *)
Lemma hist_offer F n off k j asm sp D msg fs req q :
  hist_rep F None n off k j asm sp D ->
  k <= n <= k + 2 -> (forall x, n < x -> F x = []) -> (j <= length (F k))%nat ->
  Forall (frame_ok ses) fs -> span_sum fs = req -> 0 < req -> req mod 32 = 0 -> (n * sg_tlen g + off) mod 32 = 0 ->
  items_of fs = msg_items (sg_mpl g) msg ->
  hist_rep (upd F n (F n ++ fs)) None n (off + req) k j asm
           (spec_step g sp (EvOffer msg (Ok (n * sg_tlen g + off + req)) q)) D.
Proof. intros [A B C E O M I L K] Hk He Hj Hok Hsp Hreq Hr32 Hp32 Hit. cbn [pend_span] in E. rewrite Z.add_0_r in E.
  assert (Hspan : span_of (msg_items (sg_mpl g) msg) = req) by (rewrite <- Hit, (span_of_items ses) by assumption; assumption).
  destruct (acc_snoc_facts (sp_acc sp) (pos_after (sg_p0 g) (sp_stream sp)) msg (n * sg_tlen g + off + req) M I L ltac:(lia))
    as (M' & I' & L').
  { rewrite <- Z.add_mod_idemp_l, Hp32 by lia. exact Hr32. }
  constructor; cbn [spec_step on_result sp_stream sp_open sp_acc sp_del sp_ok pend_span].
  - exact A.
  - rewrite rest_upd by assumption. rewrite items_of_app, !frags_app, app_assoc, B, Hit. reflexivity.
  - rewrite frags_app, C. unfold msg_items. rewrite frags_flag_chunks. rewrite !map_app, concat_app. cbn [map concat fst].
    rewrite app_nil_r. reflexivity.
  - rewrite pos_after_app, Hspan. lia.
  - exact O.
  - rewrite pos_after_app, Hspan. replace (pos_after (sg_p0 g) (sp_stream sp) + req) with (n * sg_tlen g + off + req) by lia. exact M'.
  - exact I'.
  - exact L'.
  - rewrite K, pos_after_app, Hspan. cbn [andb]. apply Z.eqb_eq. lia. Qed.

(* the end-of-term trip *)
Lemma hist_trip F n off k j asm sp D pads :
  hist_rep F None n off k j asm sp D ->
  k <= n <= k + 2 -> (forall x, n < x -> F x = []) -> (j <= length (F k))%nat ->
  0 < off <= sg_tlen g -> 0 <= n ->
  (if off <? sg_tlen g then exists p, pads = [p] /\ frame_ok ses p /\ is_pad p = true /\ span p = sg_tlen g - off else pads = []) ->
  hist_rep (upd F n (F n ++ pads)) None (n + 1) 0 k j asm
           (mkSpec (sp_stream sp ++ pad_to_term_end g (sp_stream sp)) (sp_open sp) (sp_acc sp) (sp_del sp) (sp_ok sp)) D.
Proof. intros [A B C E O M I L K] Hk He Hj Hoff Hn Hpads. cbn [pend_span] in E. rewrite Z.add_0_r in E.
  assert (Hpad : frags (items_of pads) = [] /\ span_of (pad_to_term_end g (sp_stream sp)) = sg_tlen g - off /\
                 frags (pad_to_term_end g (sp_stream sp)) = []).
  { unfold pad_to_term_end. rewrite E.
    destruct (off <? sg_tlen g) eqn:Eo.
    - destruct Hpads as (p & -> & Hp1 & Hp2 & Hp3).
      assert (Hm : (n * sg_tlen g + off) mod sg_tlen g = off).
      { rewrite Z.add_comm, Z_mod_plus_full. apply Z.mod_small. lia. }
      rewrite Hm. assert (E0 : (off =? 0) = false) by lia. rewrite E0.
      cbn [items_of map]. unfold item_of. rewrite Hp2. cbn [frags span_of item_len]. repeat split; lia.
    - subst pads. assert (Ho : off = sg_tlen g) by lia.
      assert (Hm : (n * sg_tlen g + off) mod sg_tlen g = 0).
      { rewrite Ho. replace (n * sg_tlen g + sg_tlen g) with ((n + 1) * sg_tlen g) by ring. apply Z_mod_mult. }
      rewrite Hm. cbn. repeat split; lia. }
  destruct Hpad as (Hp1 & Hp2 & Hp3).
  constructor; cbn [sp_stream sp_open sp_acc sp_del sp_ok pend_span].
  - exact A.
  - rewrite rest_upd by assumption. rewrite items_of_app, !frags_app, Hp1, Hp3, !app_nil_r. exact B.
  - rewrite frags_app, Hp3, app_nil_r. exact C.
  - rewrite pos_after_app, Hp2. lia.
  - exact O.
  - rewrite pos_after_app, Hp2. eapply Forall_impl; [|exact M]. cbn. intros; lia.
  - exact I.
  - exact L.
  - exact K. Qed.

(* padding laid at the tail without a rotation (the last term of the position space) *)
Lemma hist_pad F n off k j asm sp D fs req :
  hist_rep F None n off k j asm sp D ->
  k <= n <= k + 2 -> (forall x, n < x -> F x = []) -> (j <= length (F k))%nat ->
  frags (items_of fs) = [] -> 0 <= req ->
  hist_rep (upd F n (F n ++ fs)) None n (off + req) k j asm
           (mkSpec (sp_stream sp ++ [Pad req]) (sp_open sp) (sp_acc sp) (sp_del sp) (sp_ok sp)) D.
Proof. intros [A B C E O M I L K] Hk He Hj Hfr Hreq. cbn [pend_span] in E. rewrite Z.add_0_r in E.
  constructor; cbn [sp_stream sp_open sp_acc sp_del sp_ok pend_span].
  - exact A.
  - rewrite rest_upd by assumption. rewrite items_of_app, !frags_app, Hfr. cbn [frags]. rewrite !app_nil_r. exact B.
  - rewrite frags_app. cbn [frags]. rewrite app_nil_r. exact C.
  - rewrite pos_after_app. cbn [span_of item_len]. lia.
  - exact O.
  - rewrite pos_after_app. cbn [span_of item_len]. eapply Forall_impl; [|exact M]. intros a Ha. cbn beta in *. lia.
  - exact I.
  - exact L.
  - exact K. Qed.

(* an accepted claim *)
Lemma hist_claim F n off k j asm sp D f len q :
  hist_rep F None n off k j asm sp D -> f_len f = len + 32 ->
  hist_rep F (Some f) n (off + span f) k j asm
           (spec_step g sp (EvClaim len (Ok (n * sg_tlen g + off + span f)) q)) D.
Proof. intros [A B C E O M I L K] Hf. cbn [pend_span] in E. rewrite Z.add_0_r in E.
  constructor; cbn [spec_step on_result sp_stream sp_open sp_acc sp_del sp_ok pend_span]; auto; try lia.
  rewrite K. cbn [andb]. apply Z.eqb_eq. unfold span. rewrite FA_32, Hf. replace (len + 32) with (32 + len) by ring. lia. Qed.

(* commit of the open claim with `body` *)
Lemma hist_commit F n off k j asm sp D f f' len p body :
  hist_rep F (Some f) n off k j asm sp D -> sp_open sp = Some (len, p) ->
  k <= n <= k + 2 -> (forall x, n < x -> F x = []) -> (j <= length (F k))%nat ->
  frame_ok ses f' -> is_pad f' = false -> f_flags f' = F_UNFRAG -> f_body f' = body -> span f' = span f ->
  blen body <= sg_mpl g -> 32 <= f_len f -> (n * sg_tlen g + off) mod 32 = 0 ->
  hist_rep (upd F n (F n ++ [f'])) None n off k j asm
           (mkSpec (sp_stream sp ++ [Frag F_UNFRAG body]) None (sp_acc sp ++ [(body, p)]) (sp_del sp) (sp_ok sp)) D.
Proof. intros [A B C E O M I L K] Hopen Hk He Hj Hok Hnp Hfl Hbody Hsp Hlen Hfl32 Hp32. cbn [pend_span] in E.
  rewrite Hopen in O. destruct O as [O1 O2].
  assert (Hit : items_of [f'] = [Frag F_UNFRAG body]).
  { cbn [items_of map]. unfold item_of. rewrite Hnp, Hfl, Hbody. reflexivity. }
  assert (Hspan : span_of [Frag F_UNFRAG body] = span f).
  { rewrite <- Hit. rewrite (span_of_items ses) by (constructor; [assumption|constructor]). cbn [span_sum]. lia. }
  pose proof (span_bounds f ltac:(lia)) as (_ & Hs32 & _).
  destruct (acc_snoc_facts (sp_acc sp) (pos_after (sg_p0 g) (sp_stream sp)) body p M I L ltac:(lia)) as (M' & I' & L').
  { rewrite O2. exact Hp32. }
  constructor; cbn [sp_stream sp_open sp_acc sp_del sp_ok pend_span].
  - exact A.
  - rewrite rest_upd by assumption. rewrite items_of_app, !frags_app, app_assoc, B, Hit. reflexivity.
  - rewrite frags_app, C. cbn [frags]. rewrite !map_app, concat_app. cbn [map concat fst].
    rewrite chunks_of_small by assumption. cbn [fragments_of]. rewrite app_nil_r. reflexivity.
  - rewrite pos_after_app, Hspan. lia.
  - exact Logic.I.
  - rewrite pos_after_app, Hspan. replace (pos_after (sg_p0 g) (sp_stream sp) + span f) with p by lia. exact M'.
  - exact I'.
  - exact L'.
  - exact K. Qed.

(* abort of the open claim *)
Lemma hist_abort F n off k j asm sp D f f' len p :
  hist_rep F (Some f) n off k j asm sp D -> sp_open sp = Some (len, p) ->
  k <= n <= k + 2 -> (forall x, n < x -> F x = []) -> (j <= length (F k))%nat ->
  is_pad f' = true -> span f' = span f -> 0 <= len ->
  hist_rep (upd F n (F n ++ [f'])) None n off k j asm
           (mkSpec (sp_stream sp ++ [Pad (align (32 + len) 32)]) None (sp_acc sp) (sp_del sp) (sp_ok sp)) D.
Proof. intros [A B C E O M I L K] Hopen Hk He Hj Hnp Hsp Hlen. cbn [pend_span] in E.
  rewrite Hopen in O. destruct O as [O1 O2].
  assert (Hspan : align (32 + len) 32 = span f).
  { unfold span. rewrite FA_32, O1. f_equal. ring. }
  constructor; cbn [sp_stream sp_open sp_acc sp_del sp_ok pend_span].
  - exact A.
  - rewrite rest_upd by assumption. rewrite items_of_app, !frags_app. cbn [items_of map]. unfold item_of. rewrite Hnp.
    cbn [frags]. rewrite !app_nil_r. exact B.
  - rewrite frags_app. cbn [frags]. rewrite app_nil_r. exact C.
  - rewrite pos_after_app. cbn [span_of item_len]. lia.
  - exact Logic.I.
  - rewrite pos_after_app. cbn [span_of item_len]. rewrite Hspan.
    assert (Hnn : 0 <= span f).
    { unfold span. rewrite FA_32, O1. destruct (align_ge (len + 32) ltac:(lia)). lia. }
    eapply Forall_impl; [|exact M]. intros a Ha. cbn beta in *. lia.
  - exact I.
  - exact L.
  - exact K. Qed.

(* one poll: the cursor moves over `cons`, whose data frames went through the assembler *)
Lemma hist_poll F pend n off k j j' asm asm' sp D ms boff0 :
  hist_rep F pend n off k j asm sp D -> (j <= j' <= length (F k))%nat ->
  Forall (frame_ok ses) (F k) ->
  assemble asm (map frag_of (data_of (place boff0 (firstn (j' - j) (skipn j (F k)))))) = (asm', ms) ->
  exists D', hist_rep F pend n off k j' asm' (mkSpec (sp_stream sp) (sp_open sp) (sp_acc sp) (sp_del sp ++ map snd ms) (sp_ok sp)) D'.
Proof. intros [A B C E O M I L K] Hj Hok Hasm.
  set (cons := firstn (j' - j) (skipn j (F k))) in *.
  set (xs := map frag_of (data_of (place boff0 cons))) in *.
  assert (Hcok : Forall (frame_ok ses) cons).
  { unfold cons. apply Forall_firstn_, Forall_skipn_. exact Hok. }
  destruct (assemble_one_session ses xs asm (data_of_sessions ses boff0 cons Hcok)) as [H1 H2].
  rewrite Hasm in H1, H2. cbn [fst snd] in H1, H2.
  assert (Hxs : map fl_pl xs = frags (items_of cons)) by apply frags_data_of.
  exists (D ++ frags (items_of cons)).
  constructor; cbn [sp_stream sp_open sp_acc sp_del sp_ok]; auto.
  - rewrite run1_app, A. rewrite <- Hxs. destruct (run1 (bget asm ses) (map fl_pl xs)) as [st2 o2] eqn:Er. cbn [fst snd] in *.
    rewrite H1, H2, map_snd_pair. reflexivity.
  - rewrite <- B. rewrite <- app_assoc. f_equal. rewrite <- frags_app, <- items_of_app. f_equal. f_equal.
    unfold rest. rewrite app_assoc. f_equal. unfold cons.
    rewrite <- (firstn_skipn (j' - j) (skipn j (F k))) at 2. f_equal. rewrite skipn_skipn_add. f_equal. lia. Qed.

(* the cursor representation may be renormalised *)
Lemma hist_rest F pend n off k j k' j' asm sp D :
  rest F k' j' = rest F k j -> hist_rep F pend n off k j asm sp D -> hist_rep F pend n off k' j' asm sp D.
Proof. intros Hr [A B C E O M I L K]. constructor; auto. rewrite Hr. exact B. Qed.
End Hist.
