(* Proofs about the functions of Generated/GenDescriptor.v, i.e. about what the Rust source of the
   repository under check says today (tools/props/c17_translate.py regenerates that file on every run).

   1. src_<f>_eq: the generated function equals the hand-written model function of Model/Descriptor.v
      on the whole typed domain (all i32 / i64 arguments; shift amounts 0..63, outside of which a Debug
      build panics - the hand-written model does not describe that);
   2. the C17 statements for the generated functions (used by Props/C17.v, theorems named C17_src_...).

   The proofs go through the normalising tactics of Proofs/SrcNorm.v (reduce `x <- Ok v ;; k`, inline
   `let`, discharge shift / remainder side conditions, case-split the checked operations), never through
   syntactic equality of the generated text, so harmless rewrites of the source keep them valid. *)
Require Import V.Base.MachineInt V.Base.MachineInt2 V.Generated.GenConsts V.Model.Descriptor
               V.Proofs.DescriptorProofs V.Proofs.SrcNorm V.Oracle.C17Oracle V.Proofs.C17OracleProofs
               V.Generated.GenDescriptor.
From Coq Require Import ZifyBool String.
Open Scope Z_scope.

(* the parameter / result types declared in the source: the typed domain of everything below *)
Lemma src_signatures_expected :
  src_signatures =
  [ ("src_align", [I32; I32], I32);
    ("src_index_by_term", [I32; I32], I32);
    ("src_index_by_term_count", [I64], I32);
    ("src_index_by_position", [I64; I32], I32);
    ("src_compute_position", [I32; I32; I32; I32], I64);
    ("src_compute_term_begin_position", [I32; I32; I32], I64);
    ("src_term_id", [I64], I32);
    ("src_term_offset", [I64; I64], I32);
    ("src_next_partition_index", [I32], I32);
    ("src_previous_partition_index", [I32], I32);
    ("src_compute_max_message_length", [I32], I32);
    ("src_header_position", [I32; I32; I32; I32; I32], I64);
    ("src_rotate_log", [I32; I32], I64) ]%string.
Proof. reflexivity. Qed.

Ltac consts :=
  unfold PARTITION_COUNT, FRAME_ALIGNMENT, GenConsts.PARTITION_COUNT, GenConsts.FRAME_ALIGNMENT,
         GenConsts.MAX_MESSAGE_LENGTH in *.

(* normalise both sides, split the checked operations they share, close *)
Ltac src_auto :=
  consts; src_unfold_ops; src_norm; repeat (try src_match_args; src_case; src_norm); src_close.

(* ---- 1. generated = model ---- *)

Lemma src_index_by_term_eq m init active :
  src_index_by_term m init active = Ok (index_by_term init active).
Proof. unfold src_index_by_term, index_by_term. src_auto. Qed.

Lemma src_index_by_term_count_eq m term_count :
  src_index_by_term_count m term_count = Ok (index_by_term_count term_count).
Proof. unfold src_index_by_term_count, index_by_term_count. src_auto. Qed.

Lemma src_index_by_position_eq m position bits : 0 <= bits < 64 ->
  src_index_by_position m position bits = Ok (index_by_position position bits).
Proof. intros Hb. unfold src_index_by_position, index_by_position. src_auto. Qed.

Lemma src_compute_position_eq m active off bits init : 0 <= bits < 64 ->
  src_compute_position m active off bits init = compute_position m active off bits init.
Proof. intros Hb. unfold src_compute_position, compute_position. src_auto. Qed.

Lemma src_compute_term_begin_position_eq m active bits init : 0 <= bits < 64 ->
  src_compute_term_begin_position m active bits init = Ok (compute_term_begin_position active bits init).
Proof. intros Hb. unfold src_compute_term_begin_position, compute_term_begin_position. src_auto. Qed.

Lemma src_term_id_eq m raw_tail : src_term_id m raw_tail = Ok (term_id_of raw_tail).
Proof. unfold src_term_id, term_id_of. src_auto. Qed.

Lemma src_term_offset_eq m raw_tail term_length :
  src_term_offset m raw_tail term_length = Ok (term_offset_of raw_tail term_length).
Proof. unfold src_term_offset, term_offset_of. src_auto. Qed.

Lemma src_next_partition_index_eq m i :
  src_next_partition_index m i = next_partition_index m i.
Proof. unfold src_next_partition_index, next_partition_index. src_auto. Qed.

Lemma src_previous_partition_index_eq m i :
  src_previous_partition_index m i = previous_partition_index m i.
Proof. unfold src_previous_partition_index, previous_partition_index. src_auto. Qed.

(* align(value, 2^k) on i32: add 2^k - 1 (checked), round down to a multiple of 2^k *)
Lemma src_align_pow2 m v k : 0 <= k <= 30 ->
  src_align m v (2 ^ k) = (s <- add32 m v (2 ^ k - 1) ;; Ok (s / 2 ^ k * 2 ^ k)).
Proof. intros Hk. pose proof (pow2_bounds k ltac:(lia)) as Hp.
  assert (Hp2 : 2 ^ k <= 2 ^ 30) by (apply Z.pow_le_mono_r; lia). change (2 ^ 30) with 1073741824 in Hp2.
  unfold src_align. src_unfold_ops. src_norm. try src_match_args.
  apply bind_ext; intros a _. rewrite land_lnot_pow2m1 by lia. reflexivity. Qed.

Lemma src_align_frame m v : src_align m v GenConsts.FRAME_ALIGNMENT = align32 m v.
Proof. exact (src_align_pow2 m v 5 ltac:(lia)). Qed.

Lemma src_header_position_eq m init bits term_id off frame_len : 0 <= bits < 64 ->
  src_header_position m init bits term_id off frame_len = header_position m init bits term_id off frame_len.
Proof. intros Hb. unfold src_header_position, header_position.
  repeat first [ rewrite src_align_frame | rewrite src_compute_position_eq by assumption
               | reflexivity | apply bind_ext; intros ? _ ]. Qed.

(* frame_descriptor::compute_max_message_length has no counterpart in Model/Descriptor.v: its model is this *)
Definition max_message_length (capacity : Z) : Z := Z.min (Z.quot capacity 8) GenConsts.MAX_MESSAGE_LENGTH.

Lemma src_compute_max_message_length_eq m capacity :
  src_compute_max_message_length m capacity = Ok (max_message_length capacity).
Proof. unfold src_compute_max_message_length, max_message_length. src_auto. Qed.

(* term_id as i64 * (1_i64 << 32) never overflows for an i32 term id *)
Lemma mul64_raw_tail m t : in_i32 t = true -> chk64 m (t * shl64 1 32) = Ok (raw_tail_of_term t).
Proof. intros Ht. change (shl64 1 32) with two32. unfold raw_tail_of_term.
  apply chk64_ok. unfold in_i32, in_i64, two31, two32, two63 in *. lia. Qed.

Lemma src_rotate_log_eq m s cur_count cur_term_id :
  src_rotate_log m s cur_count cur_term_id = rotate_log m s cur_count cur_term_id.
Proof. unfold src_rotate_log, rotate_log. consts. src_unfold_ops.
  apply bind_ext; intros next_count _.
  rewrite src_index_by_term_count_eq. src_norm.
  rewrite mul64_raw_tail by apply wrap32_range. src_norm.
  rewrite src_term_id_eq. src_norm.
  rewrite Z.eqb_refl.
  (* the test on the term id of the tail just read, whichever way round it is written *)
  match goal with |- context [negb (?a =? ?b)] =>
    destruct (Z.eqb_spec a b) as [e|e];
    [ try rewrite (proj2 (Z.eqb_eq b a) (eq_sym e)) | try rewrite (proj2 (Z.eqb_neq b a) (not_eq_sym e)) ]
  end; cbn [negb bind]; reflexivity. Qed.

Theorem src_model_agree m :
  (forall init active, src_index_by_term m init active = Ok (index_by_term init active)) /\
  (forall c, src_index_by_term_count m c = Ok (index_by_term_count c)) /\
  (forall p bits, 0 <= bits < 64 -> src_index_by_position m p bits = Ok (index_by_position p bits)) /\
  (forall a off bits init, 0 <= bits < 64 -> src_compute_position m a off bits init = compute_position m a off bits init) /\
  (forall a bits init, 0 <= bits < 64 ->
     src_compute_term_begin_position m a bits init = Ok (compute_term_begin_position a bits init)) /\
  (forall raw, src_term_id m raw = Ok (term_id_of raw)) /\
  (forall raw tl, src_term_offset m raw tl = Ok (term_offset_of raw tl)) /\
  (forall i, src_next_partition_index m i = next_partition_index m i) /\
  (forall i, src_previous_partition_index m i = previous_partition_index m i) /\
  (forall v, src_align m v GenConsts.FRAME_ALIGNMENT = align32 m v) /\
  (forall init bits tid off len, 0 <= bits < 64 ->
     src_header_position m init bits tid off len = header_position m init bits tid off len) /\
  (forall s c t, src_rotate_log m s c t = rotate_log m s c t).
Proof. repeat match goal with |- _ /\ _ => split end; intros.
  - apply src_index_by_term_eq. - apply src_index_by_term_count_eq.
  - apply src_index_by_position_eq; assumption. - apply src_compute_position_eq; assumption.
  - apply src_compute_term_begin_position_eq; assumption. - apply src_term_id_eq.
  - apply src_term_offset_eq. - apply src_next_partition_index_eq. - apply src_previous_partition_index_eq.
  - apply src_align_frame. - apply src_header_position_eq; assumption. - apply src_rotate_log_eq. Qed.

(* outside 0..63 the shift amount makes a Debug build panic: the one place where the source says more than the model *)
Theorem src_shift_panics a off bits init : ~ 0 <= bits < 64 ->
  src_compute_position Debug a off bits init = Panic /\ src_index_by_position Debug a bits = Panic.
Proof. intros Hb. unfold src_compute_position, src_index_by_position. cbv zeta.
  rewrite cshl64_debug_panic, cshr64_debug_panic by assumption. split; reflexivity. Qed.

(* ---- 2. the C17 statements for the generated functions ---- *)

Theorem src_compute_position_spec m init n bits off :
  in_i32 init = true -> 0 <= n < two31 -> 0 <= bits <= 31 -> 0 <= off <= 2 ^ bits ->
  src_compute_position m (wrap32 (init + n)) off bits init = Ok (n * 2 ^ bits + off).
Proof. intros. rewrite src_compute_position_eq by lia. apply compute_position_spec; assumption. Qed.

Theorem src_compute_term_begin_position_spec m init n bits :
  in_i32 init = true -> 0 <= n < two31 -> 0 <= bits <= 31 ->
  src_compute_term_begin_position m (wrap32 (init + n)) bits init = Ok (n * 2 ^ bits + 0).
Proof. intros. rewrite src_compute_term_begin_position_eq by lia. f_equal.
  apply compute_term_begin_position_spec; assumption. Qed.

Theorem src_partitions_agree m init n bits off :
  in_i32 init = true -> 0 <= n < two31 -> 0 <= bits <= 31 -> 0 <= off < 2 ^ bits ->
  src_index_by_term m init (wrap32 (init + n)) = Ok (n mod 3) /\
  src_index_by_term_count m n = Ok (n mod 3) /\
  src_index_by_position m (n * 2 ^ bits + off) bits = Ok (n mod 3).
Proof. intros Hi Hn Hb Ho. destruct (partitions_agree init n bits off Hi Hn Hb Ho) as (A & B & C).
  unfold spec_position in C.
  rewrite src_index_by_term_eq, src_index_by_term_count_eq, src_index_by_position_eq by lia.
  rewrite A, B, C. auto. Qed.

Theorem src_header_position_spec m init n bits off len :
  in_i32 init = true -> 0 <= n < two31 -> 5 <= bits <= 30 ->
  0 <= off -> 0 < len -> off mod 32 = 0 -> off + align len 32 <= 2 ^ bits ->
  src_header_position m init bits (wrap32 (init + n)) off len = Ok (n * 2 ^ bits + off + align len 32).
Proof. intros. rewrite src_header_position_eq by lia. apply header_position_spec; assumption. Qed.

(* a raw tail splits into the term id and the offset it was packed from; the offset is capped by the term length *)
Theorem src_tail_split m t o term_length :
  in_i32 t = true -> 0 <= o < two32 -> 0 <= term_length < two31 ->
  src_term_id m (raw_tail_of_term t + o) = Ok t /\
  src_term_offset m (raw_tail_of_term t + o) term_length = Ok (Z.min o term_length).
Proof. intros Ht Ho Hl. rewrite src_term_id_eq, src_term_offset_eq. split.
  - f_equal. apply term_id_of_raw_off; assumption.
  - f_equal. unfold term_offset_of, raw_tail_of_term.
    rewrite Z.add_comm, Z_mod_plus_full, Z.mod_small by assumption.
    apply wrap32_id. unfold in_i32, two31, two32 in *. lia. Qed.

(* next / previous partition stay inside 0..2 and undo each other *)
Theorem src_partition_step m i : 0 <= i < 3 ->
  src_next_partition_index m i = Ok ((i + 1) mod 3) /\
  src_previous_partition_index m i = Ok ((i + 2) mod 3) /\
  (j <- src_next_partition_index m i ;; src_previous_partition_index m j) = Ok i.
Proof. intros Hi. rewrite !src_next_partition_index_eq.
  assert (N : forall j, 0 <= j < 3 -> next_partition_index m j = Ok ((j + 1) mod 3)).
  { intros j Hj. unfold next_partition_index. consts. src_unfold_ops. rewrite chk32_ok by src_side.
    cbn [bind]. rewrite rem3_nonneg by lia. reflexivity. }
  assert (P : forall j, 0 <= j < 3 -> previous_partition_index m j = Ok ((j + 2) mod 3)).
  { intros j Hj. unfold previous_partition_index. consts. src_unfold_ops. rewrite chk32_ok by src_side.
    cbn [bind]. rewrite rem3_nonneg by lia. reflexivity. }
  rewrite (N i Hi). cbn [bind]. rewrite !src_previous_partition_index_eq.
  pose proof (Z.mod_pos_bound (i + 1) 3 ltac:(lia)).
  rewrite (P i Hi), (P ((i + 1) mod 3)) by lia. repeat split. f_equal.
  assert (C : i = 0 \/ i = 1 \/ i = 2) by lia. destruct C as [-> | [-> | ->]]; reflexivity. Qed.

(* the longest message of a term of 2^bits bytes (legal term lengths) is an eighth of it, capped at 16 MiB *)
Theorem src_max_message_length_spec m bits : 16 <= bits <= 30 ->
  src_compute_max_message_length m (2 ^ bits) = Ok (Z.min (2 ^ (bits - 3)) (2 ^ 24)).
Proof. intros Hb. rewrite src_compute_max_message_length_eq. unfold max_message_length. consts.
  f_equal. change 16777216 with (2 ^ 24). f_equal.
  replace bits with (3 + (bits - 3)) at 1 by ring. rewrite Z.pow_add_r by lia.
  change (2 ^ 3) with 8. rewrite Z.mul_comm. apply Z.quot_mul. lia. Qed.

Theorem src_rotate_log_spec m init n s :
  in_i32 init = true -> 0 <= n < two31 - 1 -> meta_consistent init n s ->
  exists s', src_rotate_log m s n (wrap32 (init + n)) = Ok s' /\
    count s' = n + 1 /\
    get_tail s' ((n + 1) mod 3) = raw_tail_of_term (wrap32 (init + n + 1)) /\
    (forall j, 0 <= j < 3 -> j <> (n + 1) mod 3 -> get_tail s' j = get_tail s j).
Proof. intros. rewrite src_rotate_log_eq. apply rotate_log_spec; assumption. Qed.

Theorem src_rotate_log_idempotent m init n s s' :
  in_i32 init = true -> 0 <= n < two31 - 1 -> meta_consistent init n s ->
  src_rotate_log m s n (wrap32 (init + n)) = Ok s' -> src_rotate_log m s' n (wrap32 (init + n)) = Ok s'.
Proof. rewrite !src_rotate_log_eq. apply rotate_log_idempotent. Qed.

(* the oracle used to judge the implementation is true on what the source computes *)
Theorem src_oracle_position m init n bits off :
  in_i32 init = true -> 0 <= n < two31 -> 0 <= bits <= 31 -> 0 <= off <= 2 ^ bits ->
  holds_position init n bits off
    (src_compute_position m (wrap32 (init + n)) off bits init)
    (src_compute_term_begin_position m (wrap32 (init + n)) bits init)
    (src_index_by_term m init (wrap32 (init + n)))
    (src_index_by_term_count m n)
    (src_index_by_position m (n * 2 ^ bits + off) bits) = true.
Proof. intros. rewrite src_compute_position_eq, src_compute_term_begin_position_eq, src_index_by_term_eq,
    src_index_by_term_count_eq, src_index_by_position_eq by lia.
  apply oracle_position_model; assumption. Qed.

Theorem src_oracle_header m init n bits off len :
  in_i32 init = true -> 0 <= n < two31 -> 5 <= bits <= 30 ->
  0 <= off -> 0 < len -> off mod 32 = 0 -> off + align len 32 <= 2 ^ bits ->
  holds_header init n bits off len (src_header_position m init bits (wrap32 (init + n)) off len) = true.
Proof. intros. rewrite src_header_position_eq by lia. apply oracle_header_model; assumption. Qed.

Theorem src_oracle_rotate m init n s :
  in_i32 init = true -> 0 <= n < two31 - 1 -> meta_consistent init n s ->
  holds_rotate init n s (src_rotate_log m s n (wrap32 (init + n))) = true.
Proof. intros. rewrite src_rotate_log_eq. apply oracle_rotate_model; assumption. Qed.
