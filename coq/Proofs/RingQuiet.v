(* The sequential operations of Model/Ring.v applied to the ring of a configuration in which the consumer
   is between two reads (the epilogue of a scheduled case runs them on the calling thread while every
   producer is finished or stopped): `read` hands out exactly the committed slots in front of the consumer,
   with the type and bytes they hold, and leaves a ring that satisfies the invariant again. *)
Require Import V.Base.MachineInt.
Require Import V.Generated.GenConsts.
Require Import V.Model.LogBase.
Require Import V.Model.Ring.
Require Import V.Model.RingThreads.
Require Import V.Spec.Fifo.
Require Import V.Proofs.RingArith.
Require Import V.Proofs.RingSeq.
Require Import V.Proofs.RingRender.
Require Import V.Proofs.RingSeqRun.
Require Import V.Proofs.RingConc.
Require Import V.Proofs.RingConcThm.
Require Import V.Proofs.RingUnblock.
From Coq Require Import ZifyBool Lia.
Open Scope Z_scope.

Definition idle_cs : cstate := mkC CDone [] O [].
Definition qcfg (R : ring) (prods : list pstate) : config := mkCfg R idle_cs prods.

Lemma qcfg_head' R : head' R idle_cs = r_head R.
Proof. reflexivity. Qed.

Lemma abs_slots_cons_pad s u : s_type s = PAD -> abs_slots (s :: u) = abs_slots u.
Proof. intros H. cbn [abs_slots flat_map]. unfold is_pad. rewrite H, Z.eqb_refl. reflexivity. Qed.
Lemma abs_slots_cons_cmd s u : valid_cmd (s_type s) = true -> abs_slots (s :: u) = (s_type s, s_body s) :: abs_slots u.
Proof. intros H. cbn [abs_slots flat_map]. unfold is_pad. rewrite (valid_cmd_not_pad _ H). reflexivity. Qed.

(* the read loop over slots the reader can meet: what it hands out is the commands of the slots it walked over *)
Lemma read_loop_msgs m cp hd t contiguous limit : cap_ok cp -> t - hd <= cp ->
  forall suf fuel pre bytes msgs,
    tiled cp (hd + bytes) t suf -> Forall rd_ok suf -> Forall (fun x => s_pos x + s_span x <= hd + bytes) pre ->
    (length suf < fuel)%nat -> 0 <= bytes -> 0 <= msgs -> msgs + Z.of_nat (length suf) <= two30 ->
    exists b used rest,
      read_loop m fuel (pre ++ suf) hd contiguous limit bytes msgs =
        Ok (b, msgs + Z.of_nat (length (abs_slots used)), abs_slots used) /\
      suf = used ++ rest /\ span_sum used = b - bytes /\ Forall (fun s => 0 < s_len s) used /\
      (suf <> [] -> bytes < contiguous -> msgs < limit -> (exists s r, suf = s :: r /\ 0 < s_len s) -> bytes < b).
Proof.
  intros Hcap Hsz. pose proof (cap_ok_range _ Hcap) as Hcr.
  induction suf as [| s r IH]; intros fuel pre bytes msgs T Hrd Hpre Hf Hb Hm Hmb.
  - destruct fuel as [| f]; [inversion Hf |]. cbn [read_loop].
    exists bytes, [], []. cbn [abs_slots flat_map length span_sum app]. rewrite Z.add_0_r.
    split; [| repeat split; auto; try lia; congruence].
    destruct ((bytes <? contiguous) && (msgs <? limit)); [| reflexivity].
    rewrite app_nil_r. unfold pos_word. rewrite find_slot_none by assumption. reflexivity.
  - destruct fuel as [| f]; [inversion Hf |]. cbn [read_loop].
    inversion T as [| h0 t0 s0 sl0 Hpos G T2]; subst.
    pose proof (tiled_le _ _ _ _ T2) as Hle.
    pose proof G as (_ & _ & Gs & _ & Gstr & _). pose proof (mod_range cp (s_pos s) Hcap) as Hpm.
    assert (STOP : exists b used rest,
              Ok (bytes, msgs, @nil msg) = Ok (b, msgs + Z.of_nat (length (abs_slots used)), abs_slots used) /\
              s :: r = used ++ rest /\ span_sum used = b - bytes /\ Forall (fun s => 0 < s_len s) used).
    { exists bytes, [], (s :: r). cbn [abs_slots flat_map length span_sum app]. rewrite Z.add_0_r. repeat split; auto; lia. }
    destruct ((bytes <? contiguous) && (msgs <? limit)) eqn:C.
    2: { destruct STOP as (b & u & rs & A & B & C1 & D). exists b, u, rs. repeat split; auto. intros; lia. }
    assert (Hpre' : Forall (fun x => s_pos x + s_span x <= s_pos s) pre) by (rewrite Hpos; assumption).
    rewrite <- Hpos. rewrite !pos_word_len by (auto; lia). rewrite !pos_word_type by (auto; lia).
    inversion Hrd as [| a l Hs Hr']; subst a l.
    destruct Hs as [Neg | (Pos & Hsp & Hk)].
    + replace (s_len s <=? 0) with true by lia.
      destruct STOP as (b & u & rs & A & B & C1 & D). exists b, u, rs. repeat split; auto.
      intros _ _ _ (s' & r' & E' & P'). inversion E'; subst. lia.
    + replace (s_len s <=? 0) with false by lia.
      assert (Hlb : s_len s <= s_span s) by (rewrite Hsp; apply align8_bounds).
      rewrite ralign_ok by (unfold two30 in *; lia). cbn [bind]. rewrite <- Hsp.
      unfold add32 at 1. rewrite chk32_ok by (apply in_i32_small; unfold two31, two30 in *; lia). cbn [bind].
      assert (Hpre2 : Forall (fun x => s_pos x + s_span x <= hd + (bytes + s_span s)) (pre ++ [s])).
      { apply Forall_app. split; [eapply Forall_impl; [| exact Hpre]; cbn; intros; lia | constructor; [lia | constructor]]. }
      assert (Happ : pre ++ s :: r = (pre ++ [s]) ++ r) by (rewrite <- app_assoc; reflexivity).
      assert (T3 : tiled cp (hd + (bytes + s_span s)) t r).
      { replace (hd + (bytes + s_span s)) with (hd + bytes + s_span s) by lia. exact T2. }
      cbn [length] in Hf, Hmb.
      destruct Hk as [Kp | (Kv & Kl)].
      * rewrite Kp, Z.eqb_refl. rewrite Happ.
        destruct (IH f (pre ++ [s]) (bytes + s_span s) msgs T3 Hr' Hpre2 ltac:(lia) ltac:(lia) Hm ltac:(lia)) as (b & u & rs & E & E1 & E2 & E3 & _).
        exists b, (s :: u), rs. rewrite (abs_slots_cons_pad s u Kp). cbn [app].
        split; [exact E |]. split; [rewrite E1; reflexivity |]. split; [cbn [span_sum]; lia |]. split; [constructor; assumption |].
        intros. pose proof (span_sum_nonneg cp (hd + (bytes + s_span s)) (hd + (bytes + s_span s) + span_sum u) u) as N.
        assert (0 <= span_sum u).
        { rewrite E1 in T3. destruct (tiled_split_sum _ _ _ _ _ T3) as (A & _). eapply span_sum_nonneg. exact A. }
        lia.
      * rewrite (valid_cmd_not_pad _ Kv), Kv.
        unfold add32 at 1. rewrite chk32_ok by (apply in_i32_small; unfold two31, two30 in *; lia). cbn [bind].
        unfold sub32. rewrite chk32_ok by (apply in_i32_small; unfold two31, two30, HL, GenConsts.RB_HEADER_LENGTH in *; lia).
        cbn [bind]. rewrite Happ.
        destruct (IH f (pre ++ [s]) (bytes + s_span s) (msgs + 1) T3 Hr' Hpre2 ltac:(lia) ltac:(lia) ltac:(lia) ltac:(lia)) as (b & u & rs & E & E1 & E2 & E3 & _).
        rewrite E. cbn [bind].
        rewrite <- Happ. rewrite (pos_bytes_committed pre s r Hpre' Kl Hsp).
        exists b, (s :: u), rs. rewrite (abs_slots_cons_cmd s u Kv). cbn [app length].
        split; [replace (msgs + Z.of_nat (S (length (abs_slots u)))) with (msgs + 1 + Z.of_nat (length (abs_slots u))) by lia; reflexivity |].
        split; [rewrite E1; reflexivity |]. split; [cbn [span_sum]; lia |].
        split; [constructor; assumption |].
        intros. assert (0 <= span_sum u).
        { rewrite E1 in T3. destruct (tiled_split_sum _ _ _ _ _ T3) as (A & _). eapply span_sum_nonneg. exact A. }
        lia.
Qed.

(* committed slots: the commands they abstract to are their messages *)
Lemma abs_committed cp prods used : Forall (geo cp) used -> Forall (committed cp prods) used ->
  abs_slots used = map untag (msgs_of used).
Proof. intros G C. unfold msgs_of. induction used as [| s u IH]; [reflexivity |].
  inversion G; subst. inversion C; subst. cbn [abs_slots flat_map filter].
  destruct (committed_shape _ _ _ H1 H3) as (_ & _ & [(Kp & Kr) | (Kv & Kr & _)]).
  - unfold is_pad. rewrite Kp, Z.eqb_refl, Kr. cbn [app]. apply IH; assumption.
  - unfold is_pad. rewrite (valid_cmd_not_pad _ Kv), Kr. cbn [app map]. f_equal. apply IH; assumption. Qed.

Lemma qinv_rd_ok lo R prods s : Inv lo (qcfg R prods) -> In s (r_slots R) -> rd_ok s.
Proof. intros HI Hs. apply (inv_rd_ok lo (qcfg R prods) s HI); [reflexivity | exact Hs]. Qed.

(* in a quiescent configuration the slots in front that have a positive length are committed *)
Lemma positive_committed lo R prods s : Inv lo (qcfg R prods) -> In s (r_slots R) -> 0 < s_len s -> committed (r_cap R) prods s.
Proof. intros HI Hs Hl. pose proof (i_slots _ _ HI) as F. cbn [qcfg g_ring g_prods] in F. rewrite Forall_forall in F.
  destruct (F s Hs) as [C | (i & ps & Hi & Hin)]; [assumption |]. destruct (expect_owner _ _ _ Hin). lia. Qed.

Definition after_read (R : ring) (used rest : list slot) : ring :=
  if span_sum used =? 0 then R else set_head (set_slots R rest) (r_head R + span_sum used).

Theorem read_quiet lo m R prods limit : Inv lo (qcfg R prods) ->
  exists used rest,
    r_slots R = used ++ rest /\ Forall (committed (r_cap R) prods) used /\
    read m R limit = (after_read R used rest, Ok (Z.of_nat (length (msgs_of used)), map untag (msgs_of used))) /\
    Inv lo (qcfg (after_read R used rest) prods) /\
    r_slots (after_read R used rest) = rest /\ r_head (after_read R used rest) = r_head R + span_sum used /\
    r_tail (after_read R used rest) = r_tail R /\ r_cap (after_read R used rest) = r_cap R /\
    0 <= span_sum used /\
    (1 <= limit -> (exists s r, r_slots R = s :: r /\ 0 < s_len s) -> 0 < span_sum used).
Proof.
  intros HI. pose proof HI as [Icap Ilo Ihc Ih8 It8 Ihh Itl Isz Iwin Isl Ipr Ics]. cbn [qcfg g_ring g_cons g_prods] in *.
  rewrite qcfg_head' in *. pose proof (cap_ok_range _ Icap) as Hcr.
  pose proof (mod_range (r_cap R) (r_head R) Icap) as Hci.
  pose proof (tiled_le _ _ _ _ Itl) as Hle.
  assert (Hrd : Forall rd_ok (r_slots R)) by (apply Forall_forall; intros s Hs; eapply qinv_rd_ok; eassumption).
  assert (Hlen : 8 * Z.of_nat (length (r_slots R)) <= r_cap R).
  { pose proof (tiled_len8 _ _ _ _ Itl). pose proof (tiled_span_sum _ _ _ _ Itl). lia. }
  assert (Hfuel : (length (r_slots R) < read_fuel (r_cap R))%nat).
  { unfold read_fuel. pose proof (Z.div_le_mono (8 * Z.of_nat (length (r_slots R))) (r_cap R) 8 ltac:(lia) Hlen) as D.
    rewrite Z.mul_comm in D. rewrite Z_div_mult in D by lia. lia. }
  destruct (read_loop_msgs m (r_cap R) (r_head R) (r_tail R) (r_cap R - r_head R mod r_cap R) limit Icap Isz
              (r_slots R) (read_fuel (r_cap R)) [] 0 0 ltac:(rewrite Z.add_0_r; exact Itl) Hrd ltac:(constructor) Hfuel
              ltac:(lia) ltac:(lia) ltac:(unfold two30 in *; lia)) as (b & used & rest & E & Es & Eb & Upos & Hprog).
  cbn [app] in E. rewrite Z.add_0_l in E. rewrite Z.sub_0_r in Eb.
  assert (Tu : tiled (r_cap R) (r_head R) (r_head R + b) used /\ tiled (r_cap R) (r_head R + b) (r_tail R) rest).
  { rewrite Es in Itl. rewrite <- Eb. apply tiled_split_sum. exact Itl. }
  destruct Tu as (Tu & Tr). pose proof (span_sum_nonneg _ _ _ _ Tu) as Hb0. rewrite Eb in Hb0.
  pose proof (tiled_le _ _ _ _ Tr) as Hbt.
  assert (Ucm : Forall (committed (r_cap R) prods) used).
  { rewrite Forall_forall in Upos |- *. intros s Hs. eapply positive_committed; [exact HI | rewrite Es; apply in_or_app; left; exact Hs | apply Upos; exact Hs]. }
  assert (Ugeo : Forall (geo (r_cap R)) used).
  { pose proof (tiled_range _ _ _ _ Tu) as Rg. eapply Forall_impl; [| exact Rg]. cbn. intros a (_ & _ & G). exact G. }
  rewrite (abs_committed _ _ _ Ugeo Ucm) in E. rewrite map_length in E.
  exists used, rest. split; [exact Es |]. split; [exact Ucm |].
  assert (ER : read m R limit = (after_read R used rest, Ok (Z.of_nat (length (msgs_of used)), map untag (msgs_of used)))).
  { unfold read. rewrite mask_idx_mod by assumption.
    unfold sub32 at 1. rewrite chk32_ok by (apply in_i32_small; unfold two31, two30 in *; lia). cbn [bind].
    rewrite E. cbn [bind].
    unfold add64. rewrite chk64_ok by (apply in_i64_small; unfold two63, two62, two30 in *; lia). cbn [bind].
    unfold after_read. rewrite Eb. destruct (b =? 0) eqn:B0; [reflexivity |].
    f_equal. f_equal. f_equal. rewrite Es. apply filter_consumed.
    - pose proof (tiled_range _ _ _ _ Tu) as R1. eapply Forall_impl; [| exact R1]. cbn. intros a (A1 & A2 & (_ & _ & A3 & _)). lia.
    - pose proof (tiled_range _ _ _ _ Tr) as R2. eapply Forall_impl; [| exact R2]. cbn. intros a (A1 & _). lia. }
  split; [exact ER |].
  unfold after_read. rewrite Eb.
  destruct (b =? 0) eqn:B0.
  - assert (b = 0) by lia. subst b.
    assert (used = []).
    { destruct used as [| s u]; [reflexivity |]. pose proof (tiled_len8 _ _ _ _ Tu). cbn [length] in *. lia. }
    subst used. cbn [app] in Es. cbn [span_sum].
    split; [exact HI |]. split; [exact Es |]. split; [lia |]. split; [reflexivity |]. split; [reflexivity |]. split; [lia |].
    intros Hl Hex. exfalso. specialize (Hprog ltac:(destruct Hex as (s & r & Ex & _); rewrite Ex; discriminate) ltac:(lia) ltac:(lia) Hex). lia.
  - split; [| cbn [set_head set_slots r_slots r_head r_tail r_cap]; repeat split; auto; lia].
    constructor; cbn [qcfg g_ring g_cons g_prods set_head set_slots r_cap r_head r_tail r_hc r_slots]; rewrite ?qcfg_head';
      cbn [set_head set_slots r_head]; auto; try lia.
    + rewrite Z.add_mod by lia. rewrite Ih8.
      assert (b mod 8 = 0).
      { pose proof (tiled_start_mod8 _ _ _ _ Tr It8) as H8. rewrite Z.add_mod in H8 by lia. rewrite Ih8 in H8.
        rewrite Z.add_0_l, Z.mod_mod in H8 by lia. exact H8. }
      rewrite H. reflexivity.
    + rewrite Es in Isl. apply Forall_app in Isl. tauto.
    + intros j q Hj. destruct (Ipr j q Hj) as (A & B & C). split; [| split; [assumption |]].
      * eapply pc_ok_mono; [| | | exact A]; cbn [set_head set_slots r_cap r_head r_tail]; lia.
      * intros x Hx. cbn [set_head set_slots r_slots]. specialize (C x Hx). rewrite Es in C. apply in_app_or in C.
        destruct C as [C | C]; [| assumption]. rewrite Forall_forall in Upos. pose proof (Upos x C). destruct (expect_owner _ _ _ Hx). lia.
Qed.
