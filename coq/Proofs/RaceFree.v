(* C03, race detector soundness, part 4: GI is preserved; Sched.race_free is true on every trace that follows the discipline. *)
Require Import V.Base.MachineInt.
Require Import V.Model.Sched.
Require Import V.Proofs.RaceFold V.Proofs.RaceDisc V.Proofs.RaceStep.
From Coq Require Import Arith.PeanoNat ZifyBool.
Open Scope Z_scope.

Section Pres.
  Variable cls : accessor -> aclass.
  Variable watch : Z -> bool.
  Notation GI := (GI cls watch).
  Notation role_ok := (role_ok cls watch).

  Lemma gi_step g clocks locs st e r :
    GI g clocks locs st -> role_ok g e r ->
    let mine := mine_of cls e clocks locs in
    GI (role_upd g e r) (set_nth_vc clocks (e_tid e) mine) (locs_of cls e locs mine) (st ++ [(e, mine)]).
  Proof. intros I H mine.
    pose proof (role_upd_ext cls watch g e r H) as Ex.
    pose proof (locs_keep cls watch g clocks locs st e r mine I H) as Keep.
    assert (Mono : forall t u, (vc_get (clk clocks t) u <= vc_get (clk (set_nth_vc clocks (e_tid e) mine) t) u)%nat).
    { intros t u. destruct (Nat.eq_dec t (e_tid e)) as [-> | Hne].
      - rewrite clk_set_same. apply mine_ge.
      - rewrite clk_set_other by assumption. lia. }
    (* every committed frame of the new ghost state has its release clock in the new location map *)
    assert (Loc' : forall p o d', dg_slot (role_upd g e r) p o = Some d' -> ds_com d' = true ->
                     exists C, loc_get (locs_of cls e locs mine) p o = Some C).
    { intros p o d' Hs Hc.
      assert (Old : forall d, dg_slot g p o = Some d -> ds_com d = true -> exists C, loc_get (locs_of cls e locs mine) p o = Some C).
      { intros d S1 S2. rewrite (Keep _ _ _ S1 S2). eapply gi_loc; eauto. }
      destruct r as [| ext | so | | sees |]; cbn [role_upd] in Hs; try (eapply Old; eauto; fail).
      - cbn in Hs. unfold upd2o in Hs. destruct ((p =? e_reg e) && (o =? e_off e)); [inversion Hs; subst d'; discriminate Hc | eapply Old; eauto].
      - cbn in Hs. unfold upd2o in Hs. destruct ((p =? e_reg e) && (o =? e_off e)) eqn:E; [|eapply Old; eauto].
        assert (p = e_reg e /\ o = e_off e) as [-> ->] by lia.
        destruct H as (_ & Hcl & _). unfold locs_of. rewrite Hcl. cbn [is_release_class is_write_class]. rewrite loc_get_set_same. eauto. }
    constructor.
    - (* own components *)
      intros x Hin. apply in_app_or in Hin. destruct Hin as [Hin | [<- | []]].
      + pose proof (gi_own _ _ _ _ _ _ I x Hin). pose proof (Mono (e_tid (fst x)) (e_tid (fst x))). lia.
      + cbn [fst snd]. rewrite clk_set_same. lia.
    - (* classification of the past *)
      intros x Hin Hw. apply in_app_or in Hin. destruct Hin as [Hin | [<- | []]].
      + apply (past_ok_ext cls g (role_upd g e r) locs (locs_of cls e locs mine) x Ex Keep); [|exact Loc' | eapply gi_past; eauto].
        intros p o d d' S1 S2 S3 S4 C HC Hreg Hown.
        (* a frame becomes committed only by the commit of its owner, whose clock is the one stored *)
        destruct r as [| ext | so | | sees |]; cbn [role_upd dg_slot] in S3; try (rewrite S1 in S3; inversion S3; subst d'; congruence).
        * cbn in S3. unfold upd2o in S3. destruct ((p =? e_reg e) && (o =? e_off e)); [inversion S3; subst d'; discriminate S4 | rewrite S1 in S3; inversion S3; subst d'; congruence].
        * cbn in S3. unfold upd2o in S3. destruct ((p =? e_reg e) && (o =? e_off e)) eqn:E; [|rewrite S1 in S3; inversion S3; subst d'; congruence].
          assert (p = e_reg e /\ o = e_off e) as [-> ->] by lia.
          destruct H as (_ & Hcl & _ & d0 & Hs0 & Hown0 & _). rewrite S1 in Hs0. inversion Hs0; subst d0.
          unfold locs_of in HC. rewrite Hcl in HC. cbn [is_release_class is_write_class] in HC. rewrite loc_get_set_same in HC. inversion HC; subst C.
          pose proof (gi_own _ _ _ _ _ _ I x Hin) as Ho. assert (Et : e_tid (fst x) = e_tid e) by congruence.
          rewrite Et in *. pose proof (mine_own cls e clocks locs) as Hm. fold mine in Hm. lia.
      + (* the new event *)
        cbn [fst] in Hw. unfold past_ok. cbn [fst snd].
        destruct r as [| ext | so | | sees |]; cbn [role_ok] in H.
        * congruence.
        * destruct H as (_ & Hcl & Hl & Hext & _). left. split; [right; assumption|].
          exists (e_off e), (mkDS (e_tid e) ext false). cbn [role_upd dg_slot]. unfold upd2o. rewrite !Z.eqb_refl. cbn [andb ds_ow ds_ext ds_com].
          repeat split; try lia; try congruence; try (intros; discriminate).
        * destruct H as (_ & Hcl & Hl & d0 & Hs0 & Hown & Hc0 & H1 & H2). left. split; [left; assumption|].
          exists so, d0. cbn [role_upd]. repeat split; try assumption; try lia; try congruence.
        * destruct H as (_ & Hcl & Hl & d0 & Hs0 & Hown & Hc0). left. split; [right; assumption|].
          destruct (gi_watch _ _ _ _ _ _ I _ _ _ Hs0) as (_ & He0).
          exists (e_off e), (mkDS (ds_ow d0) (ds_ext d0) true). cbn [role_upd dg_slot]. unfold upd2o. rewrite !Z.eqb_refl, Hs0. cbn [andb ds_ow ds_ext ds_com].
          repeat split; try lia; try congruence. intros _. exists mine. unfold locs_of. rewrite Hcl. cbn [is_release_class is_write_class]. rewrite loc_get_set_same. split; [reflexivity | lia].
        * destruct H as (_ & Hcl & Hl & _). right; left. repeat split; try assumption.
          cbn [role_upd dg_acq]. unfold upd2o. rewrite !Z.eqb_refl. reflexivity.
        * destruct H as (_ & Hcl & Hc). right; right. split; [assumption|]. exact Hc.
    - (* watched, extents *)
      intros p o d Hs.
      destruct r as [| ext | so | | sees |]; cbn [role_upd] in Hs; try (eapply gi_watch; eauto; fail).
      + cbn in Hs. unfold upd2o in Hs. destruct ((p =? e_reg e) && (o =? e_off e)) eqn:E; [|eapply gi_watch; eauto].
        assert (p = e_reg e /\ o = e_off e) as [-> ->] by lia. inversion Hs; subst d. destruct H as (Hw & _ & _ & Hext & _). auto.
      + cbn in Hs. unfold upd2o in Hs. destruct ((p =? e_reg e) && (o =? e_off e)) eqn:E; [|eapply gi_watch; eauto].
        assert (p = e_reg e /\ o = e_off e) as [-> ->] by lia. destruct H as (Hw & _ & _ & d0 & Hs0 & _). rewrite Hs0 in Hs. inversion Hs; subst d. cbn.
        destruct (gi_watch _ _ _ _ _ _ I _ _ _ Hs0). auto.
    - (* frames are disjoint *)
      intros p o1 d1 o2 d2 S1 S2 Hne.
      destruct r as [| ext | so | | sees |]; cbn [role_upd] in S1, S2; try (eapply gi_disj; eauto; fail).
      + destruct H as (_ & _ & _ & _ & Hn & Hd & _). cbn in S1, S2. unfold upd2o in S1, S2.
        destruct ((p =? e_reg e) && (o1 =? e_off e)) eqn:E1; destruct ((p =? e_reg e) && (o2 =? e_off e)) eqn:E2.
        * lia.
        * assert (p = e_reg e /\ o1 = e_off e) as [-> ->] by lia. inversion S1; subst d1. cbn. destruct (Hd _ _ S2); lia.
        * assert (p = e_reg e /\ o2 = e_off e) as [-> ->] by lia. inversion S2; subst d2. cbn. destruct (Hd _ _ S1); lia.
        * eapply gi_disj; eauto.
      + destruct H as (_ & _ & _ & d0 & Hs0 & _). cbn in S1, S2. unfold upd2o in S1, S2.
        assert (X : forall o d, (if (p =? e_reg e) && (o =? e_off e) then match dg_slot g (e_reg e) (e_off e) with Some d => Some (mkDS (ds_ow d) (ds_ext d) true) | None => None end else dg_slot g p o) = Some d ->
                      exists d', dg_slot g p o = Some d' /\ ds_ext d' = ds_ext d).
        { intros o d Hx. destruct ((p =? e_reg e) && (o =? e_off e)) eqn:E; [|eauto].
          assert (p = e_reg e /\ o = e_off e) as [-> ->] by lia. rewrite Hs0 in Hx. inversion Hx; subst d. eauto. }
        destruct (X _ _ S1) as (d1' & Y1 & Z1). destruct (X _ _ S2) as (d2' & Y2 & Z2). rewrite <- Z1, <- Z2. eapply gi_disj; eauto.
    - (* acquire reads are never inside a frame *)
      intros p oa o d Ha Hs.
      destruct r as [| ext | so | | sees |]; cbn [role_upd] in Ha, Hs; try (eapply gi_acq; eauto; fail).
      + destruct H as (_ & _ & _ & _ & Hn & _ & Hacq). cbn in Ha, Hs. unfold upd2o in Hs.
        destruct ((p =? e_reg e) && (o =? e_off e)) eqn:E; [|eapply gi_acq; eauto].
        assert (p = e_reg e /\ o = e_off e) as [-> ->] by lia. inversion Hs; subst d. cbn. apply Hacq. assumption.
      + destruct H as (_ & _ & _ & d0 & Hs0 & _). cbn in Ha, Hs. unfold upd2o in Hs.
        destruct ((p =? e_reg e) && (o =? e_off e)) eqn:E; [|eapply gi_acq; eauto].
        assert (p = e_reg e /\ o = e_off e) as [-> ->] by lia. rewrite Hs0 in Hs. inversion Hs; subst d. cbn. eapply gi_acq; eauto.
      + destruct H as (_ & _ & _ & Hin' & _). cbn in Ha, Hs. unfold upd2o in Ha.
        destruct ((p =? e_reg e) && (oa =? e_off e)) eqn:E; [|eapply gi_acq; eauto].
        assert (p = e_reg e /\ oa = e_off e) as [-> ->] by lia. apply (Hin' _ _ Hs).
    - exact (fun p o d Hs Hc => Loc' p o d Hs Hc).
    - (* what a thread has acquired *)
      intros t p o Hs.
      assert (Old : dg_seen g t p o = true -> exists d C, dg_slot (role_upd g e r) p o = Some d /\ ds_com d = true /\
                      loc_get (locs_of cls e locs mine) p o = Some C /\
                      (vc_get C (ds_ow d) <= vc_get (clk (set_nth_vc clocks (e_tid e) mine) t) (ds_ow d))%nat).
      { intros Hs0. destruct (gi_seen _ _ _ _ _ _ I _ _ _ Hs0) as (d & C & X1 & X2 & X3 & X4).
        destruct Ex as (E1 & _). destruct (E1 _ _ _ X1) as (d' & Y1 & Y2 & Y3 & Y4).
        exists d', C. rewrite Y2. split; [assumption|]. split; [auto|]. split; [rewrite (Keep _ _ _ X1 X2); assumption|].
        pose proof (Mono t (ds_ow d)). lia. }
      destruct r as [| ext | so | | sees |]; cbn [role_upd dg_seen] in Hs; try (apply Old; assumption).
      destruct (sees && Nat.eqb t (e_tid e) && (p =? e_reg e) && (o =? e_off e)) eqn:E; [|apply Old; assumption].
      assert (sees = true /\ t = e_tid e /\ p = e_reg e /\ o = e_off e) as (-> & -> & -> & ->).
      { apply andb_prop in E. destruct E as [E E4]. apply andb_prop in E. destruct E as [E E3].
        apply andb_prop in E. destruct E as [E1 E2]. apply Nat.eqb_eq in E2. repeat split; try assumption; lia. }
      destruct H as (_ & Hcl & _ & _ & Hsee). destruct (Hsee eq_refl) as (d & S1 & S2).
      destruct (gi_loc _ _ _ _ _ _ I _ _ _ S1 S2) as (C & HC).
      exists d, C. cbn [role_upd dg_slot]. split; [assumption|]. split; [assumption|].
      split; [unfold locs_of; rewrite Hcl; cbn [is_release_class is_write_class]; assumption|].
      rewrite clk_set_same. apply mine_acq; [rewrite Hcl; reflexivity | assumption]. Qed.

  Lemma GI0 : GI (dg0) [] [] [].
  Proof. constructor; cbn; intros; try contradiction; try discriminate. Qed.

  (* the detector finds no race in a trace that follows the discipline *)
  Theorem disc_race_free g tr : disc cls watch g tr -> race_free cls watch tr = true.
  Proof. intros D.
    assert (X : GI g (fst (dfold cls tr ([], []))) (snd (dfold cls tr ([], []))) (stamp cls tr [] []) /\
                races_in cls watch (stamp cls tr [] []) = []).
    { induction D as [| g tr e r D IH Hr].
      - split; [exact GI0 | reflexivity].
      - destruct IH as (I & Hn). rewrite dfold_app, stamp_app. cbn [dfold stamp].
        set (cl := fst (dfold cls tr ([], []))) in *. set (lo := snd (dfold cls tr ([], []))) in *.
        replace (dfold cls tr ([], [])) with (cl, lo) by (unfold cl, lo; destruct (dfold cls tr ([], [])); reflexivity).
        split.
        + apply (gi_step g cl lo _ e r I Hr).
        + apply races_in_snoc. split; [assumption|]. intros a Ha. apply (step_no_race cls watch g cl lo _ e r I Hr a Ha). }
    destruct X as (_ & Hn). unfold race_free, races. rewrite Hn. reflexivity. Qed.
End Pres.
