(* The flow part of the C04 oracle on the observations of the ExclusivePublication model. *)
Require Import V.Base.MachineInt.
Require Import V.Generated.GenConsts.
Require Import V.Model.Descriptor.
Require Import V.Model.LogBase.
Require Import V.Model.LogDelta.
Require Import V.Model.Appender.
Require Import V.Model.ExclAppender.
Require Import V.Model.Publication.
Require Import V.Model.ExclPublication.
Require Import V.Proofs.DescriptorProofs.
Require Import V.Proofs.AppenderProofs.
Require Import V.Proofs.PublicationProofs.
Require Import V.Proofs.BulkProofs.
Require Import V.Proofs.C04Proofs.
Require Import V.Proofs.ExclPublicationProofs.
Require Import V.Oracle.C04Oracle.
Require Import V.Proofs.C04OracleProofs.
Require Import V.Proofs.C04Statements.
From Coq Require Import ZifyBool.
Open Scope Z_scope.

(* the active tail counter carries the publication's term id; its offset is the publication's own offset except after a message
   did not fit into the very last term *)
Definition xtail_ok (n : Z) (x : xpub) : Prop :=
  exists t, tail (xlog x) (n mod 3) = x_tid x * two32 + t /\ 0 <= t < two32 /\ (t = x_off x \/ n = two31 - 1).

Lemma excl_raw_tail_nonneg tid v : 0 <= v -> excl_raw_tail tid v = tid * two32 + v.
Proof. intros H. unfold excl_raw_tail. assert (E : (0 <=? v) = true) by lia. rewrite E. reflexivity. Qed.

Lemma xtail_step x n req len tl x' r :
  xpub_inv n x -> xtail_ok n x -> 0 < req <= l_tlen (xlog x) / 2 -> xtry_result x n req len tl (x', r) ->
  match r with
  | Ok _ => xtail_ok n x'
  | Err AdminAction => xtail_ok (n + 1) x'
  | Err MaxPositionExceeded => xtail_ok n x'
  | _ => x' = x
  end.
Proof. intros Hinv Ht Hreq H. pose proof Hinv as [Hleg Hn Hidx Htid Hbeg Hoff Hc].
  pose proof (legal_tlen _ Hleg) as [Htl _]. pose proof (mod3_range n) as M0. pose proof (mod3_range (n + 1)) as M1.
  pose proof (mod3_distinct n) as (D1 & D2 & D3).
  assert (Hhalf : l_tlen (xlog x) / 2 * 2 <= l_tlen (xlog x)).
  { pose proof (Z.div_mod (l_tlen (xlog x)) 2 ltac:(lia)). pose proof (Z.mod_pos_bound (l_tlen (xlog x)) 2 ltac:(lia)). lia. }
  assert (Hc2 : l_count (xlog x) - n = 0) by lia. clear Hc.
  inversion H; subst; try reflexivity.
  - unfold status_of. destruct (_ <=? _); [exact Ht|]. destruct (l_connected _); reflexivity.
  - (* accepted *) unfold xtail_ok. rewrite xlog_mk. cbn [x_tid x_off]. rewrite tail_set_part. unfold put_raw_tail.
    rewrite Hidx. rewrite tail_set_tail_same by assumption. rewrite excl_raw_tail_nonneg by lia.
    exists (x_off x + req). split; [reflexivity|]. split; [unfold two32; lia|left; reflexivity].
  - (* rotation *) unfold xtail_ok. rewrite xlog_mk. cbn [x_tid x_off]. rewrite tail_rotated by assumption. rewrite Z.eqb_refl.
    exists 0. split.
    + destruct (same_meta_xbumped_geom (xlog x) (x_idx x) (x_tid x) (x_off x) req) as (G1 & _). rewrite <- G1.
      rewrite Htid. rewrite wrap32_add_wrap32. rewrite Z.add_0_r. reflexivity.
    + split; [unfold two32; lia|left; reflexivity].
  - (* last term *) unfold xtail_ok. rewrite xlog_mk. cbn [x_tid x_off]. unfold xbumped.
    rewrite <- (same_meta_tail _ _ _ (same_meta_put_padding _ _ _ _)). unfold put_raw_tail.
    rewrite Hidx. rewrite tail_set_tail_same by assumption. rewrite excl_raw_tail_nonneg by lia.
    exists (x_off x + req). split; [reflexivity|]. split; [unfold two32; lia|right; lia].
Qed.

(* ---- refusals on abstract observations ---- *)
Lemma flow_refusal_abs g e k len p c er :
  o_res c = Err er -> same_meta_obs p c = true ->
  (e_closed e = true /\ o_pos p = Err Closed /\ o_pos c = Err Closed /\ (er = Closed \/ (er = TooLong /\ too_long g k len = true /\ k = KClaim))) \/
  (e_closed e = false /\ exists b, o_pos p = Ok b /\ o_pos c = Ok b /\ 0 <= b <= g_maxpos g /\
     ((er = TooLong /\ too_long g k len = true /\ (k = KClaim \/ b < e_limit e)) \/
      (e_limit e <= b /\ er = refusal g e k len b /\ er <> TooLong))) ->
  flow_append g e k len p c = true.
Proof. intros Hr Hm Hcase. unfold flow_append. rewrite Hr.
  destruct Hcase as [(Hc & Hp & Hpc & Her) | (Hc & b & Hp & Hpc & Hb & Her)].
  - rewrite Hp, Hpc, Hc, Hm. destruct Her as [-> | (-> & Htl & ->)]; cbn [andb]; [reflexivity|]. rewrite Htl. reflexivity.
  - rewrite Hp, Hpc, Hc, Hm. destruct Her as [(-> & Htl & Hk) | (Hlim & Her & Hne)].
    + rewrite Htl. cbn [andb negb]. destruct Hk as [-> | Hk]; [lia|]. destruct k; lia.
    + assert (El : (e_limit e <=? b) = true) by lia.
      destruct er; try (exfalso; apply Hne; reflexivity);
        try (exfalso; revert Her; unfold refusal; destruct k; repeat (match goal with |- context [if ?c then _ else _] => destruct c end); discriminate).
      * cbn [negb andb]. rewrite El. rewrite <- Her. cbn [err_eqb andb]. lia.
      * cbn [negb andb]. rewrite El. rewrite <- Her. cbn [err_eqb andb]. lia.
      * cbn [negb andb]. rewrite El. rewrite <- Her. cbn [err_eqb andb]. lia.
Qed.

Section XFlow.
Variables (m : mode) (rv : Z -> Z -> list Z -> Z) (x : xpub) (n : Z).
Hypothesis Hinv : xpub_inv n x.
Hypothesis Htail : xtail_ok n x.
Variables (x0 : xpub) (r0 : outcome Z) (n0 off0 : Z).
Local Notation l := (xlog x).
Local Notation g := (geom_of (xlog x) n0 off0).
Local Notation P := (xpub_obs m x0 x r0).

Lemma xp_count : d_count (o_dump P) = n.
Proof. unfold xpub_obs, o_dump. cbn [fst snd]. rewrite d_count_delta. apply (xi_count _ _ Hinv). Qed.
Lemma xp_tail i : 0 <= i < 3 -> d_tail (o_dump P) i = tail l i.
Proof. intros H. unfold xpub_obs, o_dump. cbn [fst snd]. apply d_tail_delta. assumption. Qed.
Lemma xp_pos : ps_closed (x_pub x) = false -> o_pos P = Ok (xspec_pos x).
Proof. intros Hc. unfold xpub_obs, o_pos. cbn [snd]. apply (xpub_position_spec m x n); assumption. Qed.
Lemma xp_pos_off : pos_off g (o_dump P) (xspec_pos x) = x_off x.
Proof. unfold pos_off. rewrite xp_count. unfold geom_of, xspec_pos. cbn [g_tlen]. rewrite (xi_begin _ _ Hinv). ring. Qed.
End XFlow.

Lemma xpub_step_cases2 m rv x n o : xpub_inv n x -> op_ok (xlog x) o -> is_xappend o = true ->
  (exists len, o = Claim len /\ max_payload_length (xlog x) < len /\ xpub_step m rv x o = (x, Err TooLong)) \/
  (xtry_result x n (op_required (xlog x) o) (op_len o) (op_too_long (xlog x) o) (xpub_step m rv x o) /\
   (kind_of o = KClaim -> op_too_long (xlog x) o = false)).
Proof. intros Hinv Hok Ha. destruct o; try discriminate; cbn [xpub_step op_ok] in *.
  - right. split; [apply xpub_offer_cases; assumption|discriminate].
  - pose proof (xpub_claim_cases m x n Hinv len Hok) as T. cbn [op_too_long].
    destruct (max_payload_length (xlog x) <? len) eqn:E.
    + left. exists len. repeat split; [lia|exact T].
    + right. split; [exact T|reflexivity]. Qed.

Theorem oracle_flow_exclusive m rv x n o x0 r0 n0 off0 :
  xpub_inv n x -> xtail_ok n x -> op_ok (xlog x) o -> is_xappend o = true ->
  flow_append (geom_of (xlog x) n0 off0) (env_of (x_pub x)) (kind_of o) (op_len o)
              (xpub_obs m x0 x r0) (xpub_obs m x (fst (xpub_step m rv x o)) (snd (xpub_step m rv x o))) = true.
Proof. intros Hinv (t & Ht & Htr & Hteq) Hok Ha.
  pose proof Hinv as [Hleg Hn Hidx Htid Hbeg Hoff Hcnt].
  pose proof (xinv_bounds x n Hinv) as (Htl & Hb0 & Hb1).
  pose proof (mod3_range n) as M0. pose proof (mod3_range (n+1)) as M1. pose proof (mod3_range (n+2)) as M2.
  pose proof (mod3_distinct n) as (D1 & D2 & D3). destruct (mod3_succ n) as [S1 S2].
  assert (Happ : is_append o = true) by (destruct o; try discriminate; reflexivity).
  assert (Htlg := too_long_geom (xlog x) n0 off0 o Hleg Happ).
  assert (Hlen : 0 <= op_len o).
  { destruct o; cbn [op_len op_ok] in *; try lia; [apply zlen_nonneg|apply total_nonneg]. }
  assert (Hsame : forall r', same_meta_obs (xpub_obs m x0 x r0) (xpub_obs m x x r') = true).
  { intros r'. unfold same_meta_obs, xpub_obs, o_dump, o_pos. cbn [fst snd]. rewrite !d_count_delta, !tails_delta.
    rewrite Z.eqb_refl, list3_eqb_refl. cbn [andb]. destruct (ps_closed (x_pub x)) eqn:Ec.
    - unfold xpub_position. rewrite Ec. reflexivity.
    - rewrite (xpub_position_spec m x n Hinv Ec). apply out_eqb_ok. }
  assert (Hposc : ps_closed (x_pub x) = true -> o_pos (xpub_obs m x0 x r0) = Err Closed).
  { intros Hc. unfold xpub_obs, o_pos. cbn [snd]. unfold xpub_position. rewrite Hc. reflexivity. }
  pose proof (xspec_pos_range x n Hinv) as Hsr.
  assert (Hmaxg : g_maxpos (geom_of (xlog x) n0 off0) = l_tlen (xlog x) * two31) by reflexivity.
  assert (Hkind : forall len, o = Claim len -> kind_of o = KClaim) by (intros len ->; reflexivity).
  destruct (xpub_step_cases2 m rv x n o Hinv Hok Ha) as [(len & -> & Hgt & E) | [T Hclaim]].
  { rewrite E. cbn [fst snd]. apply (flow_refusal_abs _ _ _ _ _ _ TooLong); [reflexivity|apply Hsame|].
    assert (Htl2 : too_long (geom_of (xlog x) n0 off0) KClaim len = true) by (cbn; unfold g_mpl, geom_of, max_payload_length in *; cbn [g_mtu]; lia).
    destruct (ps_closed (x_pub x)) eqn:Ec.
    - left. cbn [env_of e_closed]. split; [assumption|]. split; [apply Hposc; assumption|]. split; [apply Hposc; assumption|]. right. auto.
    - right. cbn [env_of e_closed]. split; [assumption|]. exists (xspec_pos x). rewrite Hmaxg.
      split; [apply (xp_pos m x n Hinv); assumption|]. split; [apply (xp_pos m x n Hinv x); assumption|]. split; [lia|]. left. auto. }
  remember (xpub_step m rv x o) as sr eqn:Esr.
  inversion T; subst sr; match goal with H : _ = xpub_step m rv x o |- _ => try rewrite <- H in T; try rewrite <- H end; cbn [fst snd].
  - (* closed *) apply (flow_refusal_abs _ _ _ _ _ _ Closed); [reflexivity|apply Hsame|]. left. cbn [env_of e_closed].
    split; [assumption|]. split; [apply Hposc; assumption|]. split; [apply Hposc; assumption|left; reflexivity].
  - (* refused *)
    match goal with H : ps_closed (x_pub x) = false |- _ => rename H into Hc end.
    apply (flow_refusal_abs _ _ _ _ _ _ (status_of (xlog x) (xspec_pos x) (op_len o))); [reflexivity|apply Hsame|].
    right. cbn [env_of e_closed e_limit]. split; [assumption|]. exists (xspec_pos x). rewrite Hmaxg.
    split; [apply (xp_pos m x n Hinv); assumption|]. split; [apply (xp_pos m x n Hinv x); assumption|]. split; [lia|]. right.
    split; [assumption|]. split.
    + unfold refusal, status_of. rewrite Hmaxg. cbn [env_of e_connected]. destruct (kind_of o) eqn:Ek; try reflexivity.
      first [rewrite Htlg | rewrite <- Ek; rewrite Htlg]. rewrite Hclaim by (first [reflexivity | exact Ek]). unfold xlog. reflexivity.
    + unfold status_of. destruct (_ <=? _); [discriminate|]. destruct (l_connected _); discriminate.
  - (* too long *)
    match goal with H : ps_closed (x_pub x) = false |- _ => rename H into Hc end.
    apply (flow_refusal_abs _ _ _ _ _ _ TooLong); [reflexivity|apply Hsame|].
    right. cbn [env_of e_closed e_limit]. split; [assumption|]. exists (xspec_pos x). rewrite Hmaxg.
    split; [apply (xp_pos m x n Hinv); assumption|]. split; [apply (xp_pos m x n Hinv x); assumption|]. split; [lia|]. left.
    split; [reflexivity|]. split; [rewrite Htlg; congruence|]. right. assumption.
  - (* accepted *)
    match goal with H : op_too_long _ _ = false |- _ => rename H into Htl2 end.
    match goal with H : ps_closed (x_pub x) = false |- _ => rename H into Hc end.
    assert (Hreq : 0 < op_required (xlog x) o <= l_tlen (xlog x) / 2).
    { pose proof (legal_mpl _ Hleg) as (Hm1 & Hm2 & Hm3 & Hm4).
      unfold op_required. destruct o; try discriminate; cbn [op_len op_too_long op_ok] in *.
      - apply required_half_term; auto; try apply zlen_nonneg; try (right; lia).
      - apply required_half_term; auto; try lia; try (left; lia). }
    destruct (xtry_result_inv x n _ _ _ _ _ Hinv Hreq T) as (Hg & _ & _ & Hinv').
    apply (flow_accept_abs _ _ _ _ _ _ (xspec_pos x) (xspec_pos x + op_required (xlog x) o)).
    + reflexivity.
    + apply (xp_pos m x n Hinv); assumption.
    + unfold xpub_obs, o_pos. cbn [snd]. rewrite (xpub_position_spec m _ n Hinv') by reflexivity.
      unfold xspec_pos. cbn [x_begin x_off]. f_equal. ring.
    + assumption.
    + rewrite Htlg. exact Htl2.
    + cbn [env_of e_limit]. assumption.
    + rewrite required_geom. reflexivity.
    + rewrite Hmaxg. unfold xspec_pos in *. lia.
    + rewrite (xp_pos_off m x n Hinv). rewrite required_geom. fold (op_required (xlog x) o). unfold geom_of. cbn [g_tlen]. assumption.
    + unfold tails_advanced. rewrite (xp_pos_off m x n Hinv). unfold active. rewrite (xp_count m x n Hinv). rewrite S1, S2.
      rewrite !(xp_tail m x) by assumption. unfold tail_off, active. rewrite (xp_count m x n Hinv). rewrite (xp_tail m x) by assumption.
      unfold xpub_obs at 1 2 3. unfold o_dump. cbn [fst snd]. rewrite !d_tail_delta by assumption. rewrite xlog_mk.
      rewrite required_geom. fold (op_required (xlog x) o).
      rewrite !tail_set_part. unfold put_raw_tail. rewrite Hidx. rewrite tail_set_tail_same by assumption.
      rewrite !tail_set_tail_other by auto. rewrite excl_raw_tail_nonneg by lia. rewrite Ht.
      rewrite raw_mod by assumption. lia.
    + rewrite (xp_count m x n Hinv). unfold xpub_obs, o_dump. cbn [fst snd]. rewrite d_count_delta. apply (xi_count _ _ Hinv').
  - (* rotation *)
    match goal with H : op_too_long _ _ = false |- _ => rename H into Htl2 end.
    match goal with H : ps_closed (x_pub x) = false |- _ => rename H into Hc end.
    assert (Hteq' : t = x_off x) by (destruct Hteq; [assumption|lia]).
    assert (Hreq : 0 < op_required (xlog x) o <= l_tlen (xlog x) / 2).
    { pose proof (legal_mpl _ Hleg) as (Hm1 & Hm2 & Hm3 & Hm4).
      unfold op_required. destruct o; try discriminate; cbn [op_len op_too_long op_ok] in *.
      - apply required_half_term; auto; try apply zlen_nonneg; try (right; lia).
      - apply required_half_term; auto; try lia; try (left; lia). }
    destruct (xtry_result_inv x n _ _ _ _ _ Hinv Hreq T) as (Hg & _ & _ & Hinv').
    assert (Hto : tail_off (o_dump (xpub_obs m x0 x r0)) = x_off x).
    { unfold tail_off, active. rewrite (xp_count m x n Hinv). rewrite (xp_tail m x) by assumption. rewrite Ht. rewrite raw_mod by assumption. assumption. }
    assert (Htt : tail_tid (o_dump (xpub_obs m x0 x r0)) = x_tid x).
    { unfold tail_tid, active. rewrite (xp_count m x n Hinv). rewrite (xp_tail m x) by assumption. rewrite Ht.
      pose proof (raw_tid (x_tid x) t ltac:(rewrite Htid; apply wrap32_range) Htr) as Hq. unfold term_id_of, shr64 in Hq. change (2 ^ 32) with two32 in Hq. exact Hq. }
    apply (flow_trip_abs _ _ _ _ _ _ (xspec_pos x)).
    + reflexivity.
    + apply (xp_pos m x n Hinv); assumption.
    + unfold xpub_obs at 1, o_pos. cbn [snd]. rewrite (xpub_position_spec m _ (n + 1) Hinv') by reflexivity.
      rewrite (xp_count m x n Hinv). unfold xspec_pos, geom_of. cbn [x_begin x_off g_tlen]. rewrite Hbeg. f_equal. ring.
    + assumption.
    + rewrite Htlg. exact Htl2.
    + cbn [env_of e_limit]. assumption.
    + rewrite (xp_pos_off m x n Hinv). rewrite Hto. reflexivity.
    + rewrite Hto, required_geom. unfold geom_of. cbn [g_tlen]. assumption.
    + rewrite (xp_count m x n Hinv). unfold xpub_obs, o_dump. cbn [fst snd]. rewrite d_count_delta. apply (xi_count _ _ Hinv').
    + rewrite (xp_count m x n Hinv). assumption.
    + unfold active. rewrite (xp_count m x n Hinv). rewrite (xp_tail m x) by assumption.
      unfold xpub_obs at 1. unfold o_dump. cbn [fst snd]. rewrite d_tail_delta by assumption. rewrite xlog_mk.
      rewrite required_geom. fold (op_required (xlog x) o). rewrite tail_rotated by assumption.
      assert (E0 : (n mod 3 =? (n + 1) mod 3) = false) by lia. rewrite E0. unfold xbumped.
      rewrite <- (same_meta_tail _ _ _ (same_meta_put_padding _ _ _ _)). unfold put_raw_tail. rewrite Hidx.
      rewrite tail_set_tail_same by assumption. rewrite excl_raw_tail_nonneg by lia. rewrite Ht. lia.
    + unfold active. rewrite (xp_count m x n Hinv). rewrite S1, Htt.
      unfold xpub_obs at 1. unfold o_dump. cbn [fst snd]. rewrite d_tail_delta by assumption. rewrite xlog_mk.
      rewrite tail_rotated by assumption. rewrite Z.eqb_refl.
      destruct (same_meta_xbumped_geom (xlog x) (x_idx x) (x_tid x) (x_off x) (op_required (xlog x) o)) as (G1 & _). rewrite <- G1.
      rewrite Htid. rewrite wrap32_add_wrap32. reflexivity.
    + unfold active. rewrite (xp_count m x n Hinv). rewrite S2. rewrite (xp_tail m x) by assumption.
      unfold xpub_obs at 1. unfold o_dump. cbn [fst snd]. rewrite d_tail_delta by assumption. rewrite xlog_mk.
      rewrite tail_rotated by assumption. assert (E0 : ((n + 2) mod 3 =? (n + 1) mod 3) = false) by lia. rewrite E0.
      unfold xbumped. rewrite <- (same_meta_tail _ _ _ (same_meta_put_padding _ _ _ _)). unfold put_raw_tail. rewrite Hidx.
      rewrite tail_set_tail_other by auto. reflexivity.
    + rewrite (xp_count m x n Hinv), Hmaxg. unfold geom_of. cbn [g_tlen]. unfold xspec_pos in *. rewrite Hbeg in *. unfold two31 in *. nia.
  - (* last term *)
    match goal with H : op_too_long _ _ = false |- _ => rename H into Htl2 end.
    match goal with H : ps_closed (x_pub x) = false |- _ => rename H into Hc end.
    assert (Hreq : 0 < op_required (xlog x) o <= l_tlen (xlog x) / 2).
    { pose proof (legal_mpl _ Hleg) as (Hm1 & Hm2 & Hm3 & Hm4).
      unfold op_required. destruct o; try discriminate; cbn [op_len op_too_long op_ok] in *.
      - apply required_half_term; auto; try apply zlen_nonneg; try (right; lia).
      - apply required_half_term; auto; try lia; try (left; lia). }
    assert (Hlast : n = two31 - 1) by lia.
    destruct (xtry_result_inv x n _ _ _ _ _ Hinv Hreq T) as (Hg & _ & _ & Hdisj).
    assert (Hboth : xpub_inv n (mkX (mkPub (xbumped (xlog x) (x_idx x) (x_tid x) (x_off x) (op_required (xlog x) o)) false (ps_claim (x_pub x)))
                                   (x_off x) (x_tid x) (x_idx x) (x_begin x)) /\
                    xspec_pos (mkX (mkPub (xbumped (xlog x) (x_idx x) (x_tid x) (x_off x) (op_required (xlog x) o)) false (ps_claim (x_pub x)))
                                   (x_off x) (x_tid x) (x_idx x) (x_begin x)) = xspec_pos x).
    { destruct Hdisj as [Hsm | (_ & A & B)]; [rewrite Hsm; split; [exact Hinv|reflexivity]|split; assumption]. }
    destruct Hboth as [Hinv' Hsp].
    apply (flow_last_abs _ _ _ _ _ _ (xspec_pos x) (xspec_pos x)).
    + reflexivity.
    + apply (xp_pos m x n Hinv); assumption.
    + unfold xpub_obs at 1, o_pos. cbn [snd]. rewrite (xpub_position_spec m _ n Hinv') by reflexivity. rewrite Hsp. reflexivity.
    + right. reflexivity.
    + assumption.
    + rewrite Htlg. exact Htl2.
    + cbn [env_of e_limit]. assumption.
    + rewrite (xp_count m x n Hinv). lia.
    + rewrite (xp_pos_off m x n Hinv). rewrite required_geom. fold (op_required (xlog x) o). unfold geom_of. cbn [g_tlen]. assumption.
    + rewrite (xp_count m x n Hinv). unfold xpub_obs, o_dump. cbn [fst snd]. rewrite d_count_delta. apply (xi_count _ _ Hinv').
    + right. rewrite (xp_pos_off m x n Hinv). unfold tail_off, active. rewrite (xp_count m x n Hinv). rewrite !(xp_tail m x) by assumption.
      unfold xpub_obs at 1. unfold o_dump. cbn [fst snd]. rewrite d_tail_delta by assumption. rewrite xlog_mk.
      rewrite required_geom. fold (op_required (xlog x) o). unfold xbumped.
      rewrite <- (same_meta_tail _ _ _ (same_meta_put_padding _ _ _ _)). unfold put_raw_tail. rewrite Hidx.
      rewrite tail_set_tail_same by assumption. rewrite excl_raw_tail_nonneg by lia. rewrite Ht. rewrite raw_mod by assumption. lia.
    + unfold active. rewrite (xp_count m x n Hinv). rewrite S1. rewrite (xp_tail m x) by assumption.
      unfold xpub_obs at 1. unfold o_dump. cbn [fst snd]. rewrite d_tail_delta by assumption. rewrite xlog_mk. unfold xbumped.
      rewrite <- (same_meta_tail _ _ _ (same_meta_put_padding _ _ _ _)). unfold put_raw_tail. rewrite Hidx.
      rewrite tail_set_tail_other by auto. reflexivity.
    + unfold active. rewrite (xp_count m x n Hinv). rewrite S2. rewrite (xp_tail m x) by assumption.
      unfold xpub_obs at 1. unfold o_dump. cbn [fst snd]. rewrite d_tail_delta by assumption. rewrite xlog_mk. unfold xbumped.
      rewrite <- (same_meta_tail _ _ _ (same_meta_put_padding _ _ _ _)). unfold put_raw_tail. rewrite Hidx.
      rewrite tail_set_tail_other by auto. reflexivity.
    + rewrite Hmaxg. lia.
Qed.

(* ---- xtail_ok is an invariant of every history as well ---- *)
Lemma env_step_tail s o i : tail (ps_log (fst (env_step s o))) i = tail (ps_log s) i.
Proof. destruct o; cbn [env_step fst]; try reflexivity.
  - unfold pub_commit, claim_apply. destruct (ps_claim s) as [[[j o0] fl]|]; [|reflexivity].
    destruct (fl - HDR <? zlen body); reflexivity.
  - unfold claim_apply. destruct (ps_claim s) as [[[j o0] fl]|]; reflexivity. Qed.

Lemma xstep_inv2 m rv x n o : xpub_inv n x -> xtail_ok n x -> op_ok (xlog x) o ->
  exists n', xpub_inv n' (fst (xpub_step m rv x o)) /\ xtail_ok n' (fst (xpub_step m rv x o)) /\
             same_geom (xlog x) (xlog (fst (xpub_step m rv x o))).
Proof. intros Hinv Ht Hok. destruct (is_xappend o) eqn:Ea.
  - pose proof (xi_legal _ _ Hinv) as Hleg. pose proof (legal_mpl _ Hleg) as (Hm1 & Hm2 & Hm3 & Hm4).
    destruct (xpub_step_cases m rv x n Hinv o Hok Ea) as [(len & -> & Hgt & E) | T].
    { rewrite E. exists n. split; [assumption|]. split; [assumption|apply same_geom_refl]. }
    destruct (op_too_long (xlog x) o) eqn:Etl.
    { assert (Hs : fst (xpub_step m rv x o) = x) by (inversion T; subst; try discriminate; reflexivity).
      rewrite Hs. exists n. split; [assumption|]. split; [assumption|apply same_geom_refl]. }
    assert (Hreq : 0 < op_required (xlog x) o <= l_tlen (xlog x) / 2).
    { unfold op_required. destruct o; try discriminate; cbn [op_len op_too_long op_ok] in *.
      - apply required_half_term; auto; try apply zlen_nonneg; try (right; lia).
      - apply required_half_term; auto; try lia; try (left; lia). }
    destruct (xpub_step m rv x o) as [x' r]. cbn [fst].
    destruct (xtry_result_inv x n _ _ _ _ r Hinv Hreq T) as (Hg & _ & _ & Hr).
    pose proof (xtail_step x n _ _ _ x' r Hinv Ht Hreq T) as Htl2.
    destruct r as [p|e| | |]; try (rewrite Hr; exists n; split; [assumption|]; split; [assumption|apply same_geom_refl]).
    + exists n. auto.
    + destruct e; try (rewrite Hr; exists n; split; [assumption|]; split; [assumption|apply same_geom_refl]).
      * exists (n + 1). auto.
      * destruct Hr as [Hr | (_ & Hr & _)]; [rewrite Hr; exists n; split; [assumption|]; split; [assumption|apply same_geom_refl]|].
        exists n. auto.
  - assert (E : xpub_step m rv x o = (let '(p, r) := env_step (x_pub x) o in (x_with_pub x p, r)) \/ xpub_step m rv x o = (x, Ok 0)).
    { destruct o; try discriminate; auto. }
    destruct E as [E | E]; [|rewrite E; exists n; split; [assumption|]; split; [assumption|apply same_geom_refl]].
    destruct (xpub_step_inv m rv x n o Hinv Hok) as (n' & Hinv' & Hg').
    rewrite E in *. pose proof (env_step_tail (x_pub x) o) as Htails. pose proof (env_step_log (x_pub x) o) as [Hc _].
    destruct (env_step (x_pub x) o) as [p r]. cbn [fst] in *.
    assert (Hn' : n' = n).
    { pose proof (xi_count _ _ Hinv') as C1. pose proof (xi_count _ _ Hinv) as C2. unfold x_with_pub, xlog in *. cbn [x_pub] in *. lia. }
    subst n'. exists n. split; [assumption|]. split; [|assumption].
    destruct Ht as (t & Ht1 & Ht2 & Ht3). exists t. unfold x_with_pub, xlog in *. cbn [x_pub x_tid x_off]. rewrite Htails. auto.
Qed.

Theorem xreachable_inv2 m rv x : xreachable m rv x -> exists n, xpub_inv n x /\ xtail_ok n x.
Proof. intros (h & ops & x0 & (Hg & Hn & Ho) & Hok & Hnew & ->).
  destruct (xpub_new_handed_over (h_init h) (h_tlen h) (h_mtu h) (h_session h) (h_stream h) (h_n0 h) (h_off0 h) Hg Hn Ho)
    as (x1 & Hnew1 & Hinv1 & Hlog1 & Hpos1).
  unfold handover_log in Hnew. rewrite Hnew1 in Hnew. inversion Hnew; subst x1.
  assert (Ht0 : xtail_ok (h_n0 h) x0).
  { pose proof (handed_over_inv (h_init h) (h_tlen h) (h_mtu h) (h_session h) (h_stream h) (h_n0 h) (h_off0 h) Hg Hn Ho) as Hp.
    pose proof (pi_tail _ _ _ Hp) as Htl. cbn [ps_log pub_init] in Htl.
    exists (h_off0 h). rewrite Hlog1. rewrite Htl. rewrite (xi_tid _ _ Hinv1). rewrite Hlog1.
    pose proof (legal_tlen _ (xi_legal _ _ Hinv1)) as [Htlen _]. rewrite Hlog1 in Htlen.
    destruct (handed_over_fields (h_init h) (h_tlen h) (h_mtu h) (h_session h) (h_stream h) (h_n0 h) (h_off0 h)) as (F1 & F2 & _).
    cbv zeta in F1, F2. rewrite F2 in Htlen.
    split; [reflexivity|]. split; [unfold two32; lia|]. left.
    unfold xspec_pos in Hpos1. rewrite (xi_begin _ _ Hinv1) in Hpos1. rewrite Hlog1, F2 in Hpos1. lia. }
  assert (Hrun : forall ops x n, xpub_inv n x -> xtail_ok n x -> hist_ok (xlog x) ops ->
                 exists n', xpub_inv n' (xpub_run m rv x ops) /\ xtail_ok n' (xpub_run m rv x ops)).
  { clear. induction ops as [|o r IH]; intros x n Hinv Ht Hok.
    - exists n. auto.
    - inversion Hok as [|? ? Ho Hr]; subst. cbn [xpub_run].
      destruct (xstep_inv2 m rv x n o Hinv Ht Ho) as (n1 & Hinv1 & Ht1 & Hg1).
      apply (IH _ n1 Hinv1 Ht1). eapply Forall_impl; [|exact Hr]. intros a. apply op_ok_same. destruct Hg1 as (_ & H & _). exact H. }
  apply (Hrun ops x0 (h_n0 h) Hinv1 Ht0). rewrite Hlog1. exact Hok.
Qed.

Theorem oracle_flow_exclusive_reachable m rv x o x0 r0 n0 off0 :
  xreachable m rv x -> op_ok (xlog x) o -> is_xappend o = true ->
  flow_append (geom_of (xlog x) n0 off0) (env_of (x_pub x)) (kind_of o) (op_len o)
              (xpub_obs m x0 x r0) (xpub_obs m x (fst (xpub_step m rv x o)) (snd (xpub_step m rv x o))) = true.
Proof. intros Hr Hok Ha. destruct (xreachable_inv2 m rv x Hr) as (n & Hinv & Ht).
  apply (oracle_flow_exclusive m rv x n o x0 r0 n0 off0 Hinv Ht Hok Ha). Qed.
