(* C03 for the exclusive publisher: ghost state, expected memory, invariants (definitions and basic lemmas). *)
Require Import V.Base.MachineInt.
Require Import V.Generated.GenConsts.
Require Import V.Model.LogBase.
Require Import V.Model.Descriptor.
Require Import V.Model.Sched.
Require Import V.Model.AppenderThreads.
Require Import V.Model.ReaderThreads.
Require Import V.Model.ExclThreads.
Require Import V.Model.PollThreads.
Require Import V.Model.ClaimThreads.
Require Import V.Proofs.TailArith.
Require Import V.Proofs.FragArith.
From Coq Require Import ZifyBool.
Open Scope Z_scope.

(* committed frames of every partition, in the order they were committed, and where they end *)
Record xghost := mkXG { xg_fr : Z -> list (Z * slot); xg_hi : Z -> Z }.

Fixpoint lookup (o : Z) (fr : list (Z * slot)) : option slot :=
  match fr with [] => None | (o', sl) :: r => if o' =? o then Some sl else lookup o r end.

Definition apply_set (sl : slot) (x : xset) : slot :=
  match x with SFlags v => set_flags sl v | SType v => set_type sl v | SResv v => set_resv sl v end.
Definition apply_sets (sl : slot) (sets : list xset) : slot := fold_left apply_set sets sl.

Section X.
  Variable c : cfg.

  (* no partition is used twice in the runs the theorems cover: partition p holds generation n0 + ((p - n0) mod 3) *)
  Definition xbase (p : Z) : Z := if p =? c_n0 c mod 3 then c_off0 c else 0.
  Definition xg0 : xghost := mkXG (fun _ => []) xbase.
  Definition pgen (p : Z) : Z := c_n0 c + (p - c_n0 c) mod 3.

  Definition msg_of (l : xlocal) : list Z := item_body (x_item l).
  Definition x_done (l : xlocal) : list xset :=
    firstn (length (item_sets (x_item l)) - length (x_sets l)) (item_sets (x_item l)).
  Definition cst3 (l : xlocal) : slot := set_body (st2 c (x_tid l) (x_foff l) (x_rem l)) (msg_of l).
  Definition cpre (l : xlocal) : slot :=
    let sl := apply_sets (cst3 l) (item_sets (x_item l)) in
    if item_abort (x_item l) then set_type sl T_PAD else sl.

  (* the frame the publisher is inside (its negative length has been written) and what it holds *)
  Definition cur (l : xlocal) : option (Z * slot) :=
    let tid := x_tid l in let msg := msg_of l in
    match x_pc l with
    | XHdr => Some (x_foff l, st1 c (x_rem l))
    | XBody => Some (x_foff l, st2 c tid (x_foff l) (x_rem l))
    | XFlags => Some (x_foff l, st3 c tid msg (x_foff l) (x_rem l))
    | XResv => Some (x_foff l, st4 c tid msg (x_foff l) (x_rem l) (x_flags l))
    | XPosLen => Some (x_foff l, st5 c tid msg (x_foff l) (x_rem l) (x_flags l))
    | XCBody => Some (x_foff l, st2 c tid (x_foff l) (x_rem l))
    | XCSet => Some (x_foff l, apply_sets (cst3 l) (x_done l))
    | XCAbort => Some (x_foff l, apply_sets (cst3 l) (item_sets (x_item l)))
    | XCPosLen => Some (x_foff l, cpre l)
    | XEHdr => Some (x_toff l, pd1 c (x_toff l))
    | XEType => Some (x_toff l, pd2 c tid (x_toff l))
    | XEPosLen => Some (x_toff l, pd3 c tid (x_toff l))
    | _ => None
    end.

  Definition expect (gh : xghost) (ol : option xlocal) (p o : Z) : slot :=
    match lookup o (xg_fr gh p) with
    | Some sl => sl
    | None => match ol with
              | Some l => match cur l with
                          | Some (o', sl') => if (p =? x_idx l) && (o =? o') then sl' else zslot
                          | None => zslot
                          end
              | None => zslot
              end
    end.

  (* where the committed frames of the publisher's partition end *)
  Definition front (l : xlocal) : Z :=
    match x_pc l with
    | XNegLen | XHdr | XBody | XFlags | XResv | XPosLen | XCBody | XCSet | XCAbort | XCPosLen => x_foff l
    | _ => x_toff l
    end.

  Definition in_frame (pc : xpc) : bool :=
    match pc with XNegLen | XHdr | XBody | XFlags | XResv | XPosLen | XCBody | XCSet | XCAbort | XCPosLen => true | _ => false end.
  Definition in_claim (pc : xpc) : bool := match pc with XCBody | XCSet | XCAbort | XCPosLen => true | _ => false end.
  Definition in_offer (pc : xpc) : bool := match pc with XBody | XFlags | XResv | XPosLen => true | _ => false end.
  Definition in_pad (pc : xpc) : bool := match pc with XENegLen | XEHdr | XEType | XEPosLen => true | _ => false end.

  (* ghost instrumentation: a commit appends the frame as the publisher's local state dictates it *)
  Definition xg_add (gh : xghost) (p o : Z) (sl : slot) : xghost :=
    mkXG (fun p' => if p' =? p then xg_fr gh p ++ [(o, sl)] else xg_fr gh p')
         (fun p' => if p' =? p then o + align (s_len sl) FA else xg_hi gh p').
  Definition xgstep (l : xlocal) (gh : xghost) : xghost :=
    match x_pc l with
    | XPosLen => xg_add gh (x_idx l) (x_foff l) (st6 c (x_tid l) (msg_of l) (x_foff l) (x_rem l) (x_flags l))
    | XCPosLen => xg_add gh (x_idx l) (x_foff l) (set_len (cpre l) (x_len l + HDR))
    | XEPosLen => xg_add gh (x_idx l) (x_toff l) (pd4 c (x_tid l) (x_toff l))
    | _ => gh
    end.

  Definition xwf_slot (tid o : Z) (sl : slot) : Prop :=
    HDR <= s_len sl /\ s_toff sl = o /\ s_tid sl = tid /\ s_sess sl = c_sess c /\ s_strm sl = c_strm c /\
    s_ver sl = GenConsts.CURRENT_VERSION /\ o mod 32 = 0.

  (* the publisher's own state *)
  Record XPInv (gh : xghost) (l : xlocal) : Prop := {
    xp_gen : exists g, c_n0 c <= g <= c_n0 c + 2 /\ x_tbp l = g * TL c /\ x_idx l = g mod 3 /\ x_tid l = tid_of c g /\
                       (forall g', g < g' <= c_n0 c + 2 -> xg_fr gh (g' mod 3) = [] /\ xg_hi gh (g' mod 3) = 0);
    xp_toff : 0 <= x_toff l <= TL c /\ x_toff l mod 32 = 0;
    xp_front : xg_hi gh (x_idx l) = front l;
    xp_tail : x_pc l = XTail -> x_resoff l = x_toff l + required c (x_len l) /\
                                (is_claim (x_item l) = false -> is_fragmented c (x_len l) = true -> x_len l <= max_msg c);
    xp_fit : in_frame (x_pc l) = true ->
             0 <= x_rem l <= x_len l /\ x_foff l + span c (Z.to_nat (x_rem l)) (x_rem l) = x_resoff l /\ x_resoff l <= TL c /\
             0 <= x_foff l /\ x_foff l mod 32 = 0;
    xp_claim : is_claim (x_item l) = true -> x_pc l <> XDone -> x_len l <= max_payload c /\ (in_frame (x_pc l) = true -> x_rem l = x_len l);
    xp_offer : is_claim (x_item l) = false -> in_claim (x_pc l) = false;
    xp_cl : is_claim (x_item l) = true -> in_offer (x_pc l) = false;
    xp_frag : x_pc l = XFlags -> is_fragmented c (x_len l) = true;
    xp_sets : (x_pc l = XCSet -> item_sets (x_item l) = x_done l ++ x_sets l /\ x_sets l <> []) /\
              (x_pc l = XCAbort -> item_abort (x_item l) = true);
    xp_pad : in_pad (x_pc l) = true -> x_toff l < TL c;
    xp_ctoff : in_claim (x_pc l) = true -> x_toff l = x_resoff l
  }.

  (* the publisher may not rotate into a partition that still holds an older generation (the driver has not cleaned it):
     the runs covered stay within generations n0 .. n0+2 *)
  Definition adm_xpub (l : xlocal) : Prop :=
    match x_pc l with
    | XTail | XEPosLen => x_tbp l + TL c < max_pos c -> x_tbp l + TL c <= (c_n0 c + 2) * TL c
    | _ => True
    end.
End X.
