(* Preservation of AppInv by the shared-state changes of rotate_log (CAS on the next tail, CAS on the active
   term count) and of the environment (limit, zeroing a partition). These change no thread's local state. *)
Require Import V.Base.MachineInt.
Require Import V.Generated.GenConsts.
Require Import V.Model.LogBase.
Require Import V.Model.Descriptor.
Require Import V.Proofs.DescriptorProofs.
Require Import V.Model.Sched.
Require Import V.Model.AppenderThreads.
Require Import V.Proofs.TailArith.
Require Import V.Proofs.FragArith.
Require Import V.Proofs.AppenderInv.
Require Import V.Proofs.AppenderLemmas.
Require Import V.Proofs.AppenderFrame.
Require Import V.Proofs.AppenderSteps.
Require Import V.Proofs.AppenderFaa.
From Coq Require Import ZifyBool.
Open Scope Z_scope.

Section Rotate.
  Variable c : cfg.
  Hypothesis W : wf_cfg c.

  Lemma part_cases n p : 0 <= p < 3 -> p = n mod 3 \/ p = (n + 1) mod 3 \/ p = (n + 2) mod 3.
  Proof. intros Hp0. pose proof (Z.div_mod n 3 ltac:(lia)). pose proof (Z.mod_pos_bound n 3 ltac:(lia)).
    pose proof (Z.div_mod (n+1) 3 ltac:(lia)). pose proof (Z.mod_pos_bound (n+1) 3 ltac:(lia)).
    pose proof (Z.div_mod (n+2) 3 ltac:(lia)). pose proof (Z.mod_pos_bound (n+2) 3 ltac:(lia)). lia. Qed.

  (* every generation a tail carries lies in [count-2, count+1] *)
  Lemma tg_window s gh p : TailInv c s gh -> 0 <= p < 3 -> sh_count s - 2 <= tg c s p <= sh_count s + 1.
  Proof. intros A Hp. pose proof (iv_act c s gh A). pose proof (iv_prev c s gh A). pose proof (iv_next c s gh A).
    destruct (part_cases (sh_count s) p Hp) as [-> | [-> | ->]]; lia. Qed.

  Lemma no_tail_succ s gh : TailInv c s gh -> tg c s ((sh_count s + 1) mod 3) = sh_count s - 2 ->
    forall p, 0 <= p < 3 -> tg c s p <> sh_count s + 1.
  Proof. intros A Hq p Hp X. pose proof (iv_act c s gh A). pose proof (iv_prev c s gh A).
    destruct (part_cases (sh_count s) p Hp) as [-> | [-> | ->]]; lia. Qed.

  Lemma empty_succ s gh : TailInv c s gh -> tg c s ((sh_count s + 1) mod 3) = sh_count s - 2 ->
    g_claims gh (sh_count s + 1) = [] /\ g_cleaned gh (sh_count s + 1) = false.
  Proof. intros A Hq. apply (iv_empty c s gh A). right. split; [lia|]. apply (no_tail_succ s gh A Hq). Qed.

  (* ------------------------------------------------------------------------------------------ *)
  Section CasTail.
    Variables (s : shared) (gh : ghost) (P : nat -> option plocal) (t : nat) (l : plocal).
    Hypothesis I : AppInv c s gh P.
    Hypothesis HP : P t = Some l.
    Hypothesis Hpc : p_pc l = RCasTail.
    Hypothesis Hadm : adm_pub c s P l.
    Hypothesis Hsucc : sh_tail s (next_index l) = p_next l.
    Let n := sh_count s.
    Let q := (n + 1) mod 3.
    Let s' := with_tail s (next_index l) (raw_tail_of_term (next_tid l)).

    Lemma castail_facts :
      p_count l = n /\ next_index l = q /\ 0 <= q < 3 /\ tg c s q = n - 2 /\
      raw_tail_of_term (next_tid l) = mk_raw c (n + 1) 0 /\ tripped c gh n /\
      (forall o, sh_mem s q o = zslot) /\ no_low_inflight P (n - 2) /\ n + 1 <= GB + 1 /\ c_n0 c <= n.
    Proof. pose proof (iv_A c s gh P I) as A. pose proof (iv_thr c s gh P I t l HP) as HT.
      assert (Hac : after_count (p_pc l) = true) by (rewrite Hpc; reflexivity).
      assert (Hat : after_tail (p_pc l) = true) by (rewrite Hpc; reflexivity).
      destruct (next_idx c W s gh t l A HT Hac) as (Hq & Hqr).
      destruct (rot_next_tid c s gh t l HT Hat) as (_ & Hnt).
      pose proof HT as (H1 & _ & H3 & _ & _ & H6 & H7 & _). specialize (H1 Hac). specialize (H7 Hpc).
      rewrite Hpc in H3, H6. destruct (H3 eq_refl) as (_ & _ & _ & Hin). destruct (H6 eq_refl) as (Hb & _).
      destruct (iv_tail c s gh A _ Hqr) as (T1 & T2 & _ & T4).
      pose proof (iv_count c s gh A) as Hc. pose proof (wf_n0 c W) as Hn0. fold n in H1, Hc.
      assert (Htg : tg c s ((p_count l + 1) mod 3) = p_count l - 2).
      { apply (tid_of_inj c); [assumption | unfold gen_ok, GB in *; lia |].
        rewrite <- H7, <- Hsucc, Hq, T1, term_id_mk_raw by assumption. reflexivity. }
      pose proof (tg_window s gh _ A Hqr) as Hwin. fold n in Hwin.
      assert (Hg : p_count l = n).
      { pose proof (iv_act c s gh A) as Ha. pose proof (iv_prev c s gh A) as Hp. pose proof (iv_next c s gh A) as Hn. fold n in Ha, Hp, Hn.
        destruct (part_cases n _ Hqr) as [E | [E | E]]; rewrite E in Htg.
        - lia.
        - destruct (Z.eq_dec (p_count l) n); [assumption|]. exfalso.
          assert ((p_count l + 1) mod 3 = (n + 1) mod 3) by assumption.
          apply mod3_eq_diff in H; lia.
        - lia. }
      unfold adm_pub in Hadm. rewrite Hpc in Hadm. destruct (Hadm Hsucc) as (Hz & Hnl).
      rewrite Hg in *. fold q in Hq, Hqr, Htg.
      assert (Hgen : gen_of c (p_next l) = n - 2).
      { unfold gen_of. rewrite H7. apply gen_of_tid. unfold gen_ok, GB in *. lia. }
      rewrite Hgen in Hnl. rewrite Hq in Hz.
      split; [reflexivity|]. split; [assumption|]. split; [assumption|]. split; [assumption|].
      split; [rewrite Hnt; apply raw_tail_of_term_mk|].
      split; [exists (my_entry c t l); split; assumption|].
      split; [assumption|]. split; [assumption|]. split; lia. Qed.

    Lemma castail_tg p : 0 <= p < 3 -> tg c s' p = if p =? q then n + 1 else tg c s p.
    Proof. intros Hp. destruct castail_facts as (Hg & Hq & Hqr & Htg & Hnew & _ & _ & _ & Hb & Hn0).
      unfold tg, s'. cbn [with_tail sh_tail]. rewrite Hq. destruct (p =? q); [|reflexivity].
      rewrite Hnew. apply gen_of_mk_raw; [unfold gen_ok, GB in *; pose proof (wf_n0 c W); lia | unfold two32; lia]. Qed.
    Lemma castail_toff p : toff s' p = if p =? q then 0 else toff s p.
    Proof. destruct castail_facts as (Hg & Hq & Hqr & Htg & Hnew & _).
      unfold toff, s'. cbn [with_tail sh_tail]. rewrite Hq. destruct (p =? q); [|reflexivity].
      rewrite Hnew. apply lo32u_mk_raw. unfold two32. lia. Qed.

    Lemma castail_live g0 : c_n0 c <= g0 <= n -> (live c s' gh g0 <-> (live c s gh g0 /\ g0 <> n - 2)).
    Proof. intros Hg0. destruct castail_facts as (Hg & Hq & Hqr & Htg & _).
      assert (Hp : 0 <= g0 mod 3 < 3) by (apply Z.mod_pos_bound; lia).
      unfold live. rewrite castail_tg by assumption. destruct (g0 mod 3 =? q) eqn:E.
      - apply Z.eqb_eq in E. rewrite E, Htg. split; [intros (X & _); lia | intros ((X & _) & Y); lia].
      - split; [intros (X & Y); repeat split; try assumption | intros ((X & Y) & _); auto].
        intros ->. apply Z.eqb_neq in E. apply E. unfold q. rewrite <- (mod3_shift (n - 2) 1). f_equal. ring. Qed.

    Lemma castail_TailInv : TailInv c s' gh.
    Proof. pose proof (iv_A c s gh P I) as A.
      destruct castail_facts as (Hg & Hq & Hqr & Htg & Hnew & Htrip & Hz & Hnl & Hb & Hn0).
      assert (Ha : 0 <= n mod 3 < 3) by (apply Z.mod_pos_bound; lia).
      assert (Hp2 : 0 <= (n + 2) mod 3 < 3) by (apply Z.mod_pos_bound; lia).
      pose proof (mod3_succ_ne n) as N1. pose proof (mod3_succ12_ne n) as N2. fold q in N1, N2.
      constructor; change (sh_count s') with n.
      - apply (iv_count c s gh A).
      - intros p Hp. rewrite castail_tg, castail_toff by assumption. destruct (p =? q) eqn:E.
        + apply Z.eqb_eq in E. subst p. unfold s'. cbn [with_tail sh_tail]. rewrite Hq, Z.eqb_refl.
          split; [assumption|]. split; [unfold two32; lia|]. split; [reflexivity|]. unfold gen_ok, GB in *. pose proof (wf_n0 c W). lia.
        + unfold s'. cbn [with_tail sh_tail]. rewrite Hq, E. apply (iv_tail c s gh A p Hp).
      - rewrite castail_tg by assumption. replace (n mod 3 =? q) with false by lia. apply (iv_act c s gh A).
      - rewrite castail_tg by assumption. replace ((n + 2) mod 3 =? q) with false by lia. apply (iv_prev c s gh A).
      - right. rewrite castail_tg by assumption. fold q. rewrite Z.eqb_refl. reflexivity.
      - intros _. assumption.
      - apply (iv_trip c s gh A).
      - intros g0 Hg0. destruct (iv_chain_all c s gh A g0 Hg0) as (hi & Hc & Hhi).
        destruct (Z.eq_dec g0 (n + 1)) as [-> | Hne].
        + destruct (empty_succ s gh A Htg) as (E1 & _). fold n in E1. exists 0. rewrite E1. split.
          * cbn [chain]. unfold base. replace (n + 1 =? c_n0 c) with false by lia. reflexivity.
          * intros p Hp Hq'. rewrite castail_tg in Hq' by assumption. rewrite castail_toff. destruct (p =? q) eqn:E; [reflexivity|].
            exfalso. apply (no_tail_succ s gh A Htg p Hp). fold n. assumption.
        + exists hi. split; [assumption|]. intros p Hp Hq'. rewrite castail_tg in Hq' by assumption. rewrite castail_toff.
          destruct (p =? q) eqn:E; [lia | apply Hhi; assumption].
      - intros g0 Hg0. apply (iv_empty c s gh A g0). destruct Hg0 as [Hg0 | (Hg1 & Hg2)]; [left; assumption | right].
        fold n. split; [assumption|]. intros p Hp. pose proof (tg_window s gh p A Hp) as Hw. fold n in Hw.
        specialize (Hg2 p Hp). rewrite castail_tg in Hg2 by assumption. destruct (p =? q) eqn:E; [|assumption].
        apply Z.eqb_eq in E. subst p. lia.
      - intros p Hp. rewrite castail_tg, castail_toff by assumption. destruct (p =? q) eqn:E.
        + destruct (empty_succ s gh A Htg) as (_ & E2). fold n in E2. rewrite E2. discriminate.
        + apply (iv_cleaned c s gh A p Hp). Qed.

    Lemma castail_thr t' l' : P t' = Some l' -> thr_ok c s' gh t' l'.
    Proof. intros HP'. pose proof (iv_A c s gh P I) as A. pose proof (iv_thr c s gh P I t' l' HP') as HT.
      destruct castail_facts as (Hg & Hq & Hqr & Htg & Hnew & Htrip & Hz & Hnl & Hb & Hn0).
      unfold thr_ok in *. destruct HT as (H1 & H2 & H3 & H4 & H5 & H6 & H7 & H8 & H9).
      change (sh_count s') with n. change (sh_mem s') with (sh_mem s). fold n in H1, H8.
      assert (Hrange : after_count (p_pc l') = true -> c_n0 c <= p_count l' <= n /\ 0 <= p_count l' mod 3 < 3).
      { intros X. specialize (H1 X). split; [assumption | apply Z.mod_pos_bound; lia]. }
      split; [exact H1|]. split.
      { intros Hat. destruct (H2 Hat) as (o & Ho1 & Ho2 & Ho3). exists o. split; [assumption|]. split; [assumption|].
        assert (X : after_count (p_pc l') = true) by (destruct (p_pc l'); try discriminate; reflexivity).
        destruct (Hrange X) as (R1 & R2). rewrite castail_tg, castail_toff by assumption.
        destruct (_ =? q); [intros; lia | assumption]. }
      split; [exact H3|]. split.
      { intros Hw. destruct (H4 Hw) as (L & B & Wr).
        assert (X : after_count (p_pc l') = true) by (destruct (p_pc l'); try discriminate; reflexivity).
        destruct (Hrange X) as (R1 & R2). split; [|split; assumption].
        apply castail_live; [assumption|]. split; [assumption|]. intros E. destruct (Hnl t' l' HP' E) as (N1 & _). congruence. }
      split.
      { intros Hw. destruct (H5 Hw) as (L & B & Wr).
        assert (X : after_count (p_pc l') = true) by (destruct (p_pc l'); try discriminate; reflexivity).
        destruct (Hrange X) as (R1 & R2). split; [|split; assumption].
        apply castail_live; [assumption|]. split; [assumption|]. intros E. destruct (Hnl t' l' HP' E) as (_ & N2). congruence. }
      split.
      { intros Hw. destruct (H6 Hw) as (B & Wr). split; [assumption|].
        assert (X : after_count (p_pc l') = true) by (destruct (p_pc l'); try discriminate; reflexivity).
        destruct (Hrange X) as (R1 & R2). intros Hl. apply castail_live in Hl; [|assumption]. destruct Hl as (Hl & _). exact (Wr Hl). }
      split; [exact H7|]. split; [|exact H9].
      intros Hq8. assert (X : after_count (p_pc l') = true) by (rewrite Hq8; reflexivity).
      destruct (Hrange X) as (R1 & R2). destruct (H8 Hq8) as [Y | Y]; [left; assumption|].
      assert (R3 : 0 <= (p_count l' + 1) mod 3 < 3) by (apply Z.mod_pos_bound; lia).
      rewrite castail_tg by assumption. destruct (_ =? q) eqn:E; [|right; assumption].
      apply Z.eqb_eq in E. rewrite E, Htg in Y. left. lia. Qed.

    Lemma castail_inv : AppInv c s' gh P.
    Proof. pose proof (iv_A c s gh P I) as A.
      destruct castail_facts as (Hg & Hq & Hqr & Htg & Hnew & Htrip & Hz & Hnl & Hb & Hn0).
      constructor.
      - apply castail_TailInv.
      - intros g0 e He. destruct (iv_ent c s gh P I g0 e He) as (H1 & H2 & H3 & H4 & l0 & HP0 & Hj & Hin & Hdone).
        repeat (split; [assumption|]). exists l0. repeat (split; [assumption|]).
        intros Hlt. destruct (Hdone Hlt) as (D1 & D2). split; [assumption|].
        intros Hl. change (sh_mem s') with (sh_mem s).
        assert (Hle : g0 <= n).
        { destruct (Z_le_gt_dec g0 n); [assumption|]. exfalso.
          destruct Hl as (Hl & _). assert (Hp : 0 <= g0 mod 3 < 3) by (apply Z.mod_pos_bound; lia).
          rewrite castail_tg in Hl by assumption. destruct (_ =? q) eqn:E.
          - destruct (empty_succ s gh A Htg) as (E1 & _). fold n in E1.
            rewrite <- Hl in He. rewrite E1 in He. destruct He.
          - pose proof (tg_window s gh _ A Hp) as Hw. fold n in Hw.
            assert (g0 = n + 1) by lia. subst g0.
            destruct (empty_succ s gh A Htg) as (E1 & _). fold n in E1. rewrite E1 in He. destruct He. }
        apply castail_live in Hl; [|lia]. destruct Hl as (Hl & _). exact (D2 Hl).
      - intros t' l' HP'. apply castail_thr. assumption.
      - intros p Hp. destruct (iv_mem c s gh P I p Hp) as (M1 & M2). unfold mem_ok. change (sh_mem s') with (sh_mem s).
        rewrite castail_tg by assumption. destruct (p =? q) eqn:E.
        + apply Z.eqb_eq in E. subst p. split; [intros _; exact Hz|]. intros _ _ o Hnz. rewrite Hz in Hnz. contradiction.
        + split; assumption. Qed.
  End CasTail.

  (* ------------------------------------------------------------------------------------------ *)
  Section CasCount.
    Variables (s : shared) (gh : ghost) (P : nat -> option plocal) (t : nat) (l : plocal).
    Hypothesis I : AppInv c s gh P.
    Hypothesis HP : P t = Some l.
    Hypothesis Hpc : p_pc l = RCasCount.
    Hypothesis Hadm : adm_pub c s P l.
    Hypothesis Hsucc : sh_count s = p_count l.
    Let n := sh_count s.
    Let s' := with_count s (p_count l + 1).

    Lemma cascount_inv : AppInv c s' gh P.
    Proof. pose proof (iv_A c s gh P I) as A. pose proof (iv_thr c s gh P I t l HP) as HT.
      pose proof HT as (_ & _ & _ & _ & _ & _ & _ & H8 & _). specialize (H8 Hpc).
      destruct H8 as [H8 | H8]; [lia|]. rewrite <- Hsucc in H8. fold n in H8.
      unfold adm_pub in Hadm. rewrite Hpc in Hadm. specialize (Hadm Hsucc). rewrite <- Hsucc in Hadm. fold n in Hadm.
      pose proof (iv_count c s gh A) as Hc. fold n in Hc.
      assert (Hs' : sh_count s' = n + 1) by (unfold s'; cbn; lia).
      assert (Htg : forall p, tg c s' p = tg c s p) by reflexivity.
      assert (Hto : forall p, toff s' p = toff s p) by reflexivity.
      constructor.
      - constructor; rewrite ?Hs'.
        + lia.
        + intros p Hp. rewrite Htg, Hto. apply (iv_tail c s gh A p Hp).
        + rewrite Htg. assumption.
        + rewrite Htg. replace ((n + 1 + 2) mod 3) with (n mod 3) by (rewrite <- (mod3_shift n 1); f_equal; ring).
          pose proof (iv_act c s gh A). fold n in H. lia.
        + left. rewrite Htg. replace (n + 1 + 1) with (n + 2) by ring. pose proof (iv_prev c s gh A). fold n in H. lia.
        + rewrite Htg. replace (n + 1 + 1) with (n + 2) by ring. pose proof (iv_prev c s gh A). fold n in H. intros X. lia.
        + intros g0 Hg0. destruct (Z.eq_dec g0 n) as [-> | Hne]; [apply (iv_rot_trip c s gh A); assumption | apply (iv_trip c s gh A); fold n; lia].
        + intros g0 Hg0. apply (iv_chain_all c s gh A g0 Hg0).
        + intros g0 Hg0. apply (iv_empty c s gh A g0). destruct Hg0 as [Hg0 | (Hg1 & Hg2)]; [left; assumption | right].
          fold n. split; [lia | assumption].
        + intros p Hp. rewrite Htg, Hto. apply (iv_cleaned c s gh A p Hp).
      - intros g0 e He. exact (iv_ent c s gh P I g0 e He).
      - intros t' l' HP'. pose proof (iv_thr c s gh P I t' l' HP') as HT'. unfold thr_ok in *.
        destruct HT' as (H1 & H2 & H3 & H4 & H5 & H6 & H7 & H8' & H9). rewrite Hs'. fold n in H1, H8'.
        split; [intros X; specialize (H1 X); lia|]. split; [exact H2|]. split; [exact H3|]. split; [exact H4|].
        split; [exact H5|]. split; [exact H6|]. split; [exact H7|]. split; [|exact H9].
        intros X. destruct (H8' X); [left; lia | right; assumption].
      - intros p Hp. exact (iv_mem c s gh P I p Hp). Qed.
  End CasCount.

  (* ------------------------------------------------------------------------------------------ *)
  Section Env.
    Variables (s : shared) (gh : ghost) (P : nat -> option plocal).
    Hypothesis I : AppInv c s gh P.

    Lemma setlimit_inv v : AppInv c (with_limit s v) gh P.
    Proof. apply (AppInv_ext c s); [repeat split | assumption]. Qed.

    Lemma subpos_inv v : AppInv c (with_subpos s v) gh P.
    Proof. apply (AppInv_ext c s); [repeat split | assumption]. Qed.

    Variable p : Z.
    Hypothesis Hadm : adm_env c s P (Clean p).
    Let s' := with_mem s (mclean (sh_mem s) p).
    Let gh' := gstep_env c s (Clean p) gh.

    Lemma clean_inv : AppInv c s' gh' P.
    Proof. pose proof (iv_A c s gh P I) as A. destruct Hadm as (Hp & Hfull & Hnl).
      assert (Htg : forall p', tg c s' p' = tg c s p') by reflexivity.
      assert (Hto : forall p', toff s' p' = toff s p') by reflexivity.
      assert (Hcl : forall g0, g_cleaned gh' g0 = if (c_n0 c <=? tg c s p) && (g0 =? tg c s p) then true else g_cleaned gh g0).
      { intros g0. unfold gh', gstep_env. destruct (c_n0 c <=? tg c s p); cbn; [destruct (g0 =? tg c s p)|]; reflexivity. }
      assert (Hclaims : g_claims gh' = g_claims gh).
      { unfold gh', gstep_env. destruct (c_n0 c <=? tg c s p); reflexivity. }
      assert (Hlive : forall g0, c_n0 c <= g0 -> live c s' gh' g0 -> live c s gh g0 /\ g0 mod 3 <> p).
      { intros g0 Hn0 (L1 & L2). rewrite Htg in L1. rewrite Hcl in L2.
        destruct ((c_n0 c <=? tg c s p) && (g0 =? tg c s p)) eqn:E; [discriminate|].
        split; [split; assumption|]. intros X. rewrite X in L1. lia. }
      assert (Hmem_other : forall p' o, p' <> p -> sh_mem s' p' o = sh_mem s p' o).
      { intros p' o Hne. unfold s', mclean. cbn. destruct (p' =? p) eqn:E; [lia | reflexivity]. }
      constructor.
      - constructor; change (sh_count s') with (sh_count s); try rewrite Hclaims.
        + apply (iv_count c s gh A).
        + intros p' Hp'. rewrite Htg, Hto. apply (iv_tail c s gh A p' Hp').
        + apply (iv_act c s gh A).
        + apply (iv_prev c s gh A).
        + apply (iv_next c s gh A).
        + intros X. destruct (iv_rot_trip c s gh A X) as (e & He & Hb). exists e. rewrite Hclaims. auto.
        + intros g0 Hg0. destruct (iv_trip c s gh A g0 Hg0) as (e & He & Hb). exists e. rewrite Hclaims. auto.
        + intros g0 Hg0. apply (iv_chain_all c s gh A g0 Hg0).
        + intros g0 Hg0. destruct (iv_empty c s gh A g0) as (E1 & E2).
          { destruct Hg0 as [Hg0 | (Hg1 & Hg2)]; [left; assumption | right; split; assumption]. }
          split; [assumption|]. rewrite Hcl. destruct (c_n0 c <=? tg c s p) eqn:E3; cbn [andb]; [|assumption].
          destruct (g0 =? tg c s p) eqn:E4; [|assumption]. exfalso.
          destruct Hg0 as [Hg0 | (Hg1 & Hg2)]; [lia|]. apply (Hg2 p Hp). rewrite Htg. lia.
        + intros p' Hp'. rewrite Htg, Hto, Hcl. destruct (c_n0 c <=? tg c s p) eqn:E3; cbn [andb]; [|apply (iv_cleaned c s gh A p' Hp')].
          destruct (tg c s p' =? tg c s p) eqn:E4; [|apply (iv_cleaned c s gh A p' Hp')].
          intros _. assert (p' = p) by (apply (tg_inj c s gh p' p A Hp' Hp); lia). subst p'. lia.
      - intros g0 e He. rewrite Hclaims in He. destruct (iv_ent c s gh P I g0 e He) as (H1 & H2 & H3 & H4 & l0 & HP0 & Hj & Hin & Hdone).
        repeat (split; [assumption|]). exists l0. repeat (split; [assumption|]).
        intros Hlt. destruct (Hdone Hlt) as (D1 & D2). split; [assumption|].
        intros Hl o sl Hi. destruct (Hlive g0 H1 Hl) as (L & Hne). rewrite Hmem_other by assumption. exact (D2 L o sl Hi).
      - intros t' l' HP'. pose proof (iv_thr c s gh P I t' l' HP') as HT. unfold thr_ok in *.
        destruct HT as (H1 & H2 & H3 & H4 & H5 & H6 & H7 & H8 & H9). change (sh_count s') with (sh_count s).
        rewrite Hclaims.
        assert (Hkeep : after_count (p_pc l') = true -> live c s gh (p_count l') -> no_low_inflight P (tg c s p) ->
                        (writing (p_pc l') = true \/ padding (p_pc l') = true) ->
                        live c s' gh' (p_count l') /\ p_count l' mod 3 <> p).
        { intros X (L1 & L2) N Y.
          assert (Hne : tg c s p <> p_count l').
          { intros E. destruct (N t' l' HP' (eq_sym E)) as (N1 & N2). destruct Y; congruence. }
          assert (Hpp : p_count l' mod 3 <> p) by (intros E; rewrite E in L1; lia).
          split; [|assumption]. split; [rewrite Htg; assumption|]. rewrite Hcl.
          destruct (c_n0 c <=? tg c s p); cbn [andb]; [|assumption].
          destruct (p_count l' =? tg c s p) eqn:E; [lia | assumption]. }
        split; [exact H1|]. split; [exact H2|]. split; [exact H3|]. split.
        { intros Hw. destruct (H4 Hw) as (L & B & (R0 & done & Hsplit & Hd & Hc & Hr)).
          assert (X : after_count (p_pc l') = true) by (destruct (p_pc l'); try discriminate; reflexivity).
          destruct (Hkeep X L Hnl (or_introl Hw)) as (L' & Hne).
          split; [assumption|]. split; [assumption|]. split; [assumption|]. exists done. split; [assumption|].
          split; [|split].
          - intros o sl Hi. rewrite Hmem_other by assumption. apply Hd. assumption.
          - rewrite Hmem_other by assumption. assumption.
          - intros o sl Hi. rewrite Hmem_other by assumption. apply (Hr o sl). assumption. }
        split.
        { intros Hw. destruct (H5 Hw) as (L & B & Hc).
          assert (X : after_count (p_pc l') = true) by (destruct (p_pc l'); try discriminate; reflexivity).
          destruct (Hkeep X L Hnl (or_intror Hw)) as (L' & Hne).
          split; [assumption|]. split; [assumption|]. rewrite Hmem_other by assumption. assumption. }
        split.
        { intros Hw. destruct (H6 Hw) as (B & Hc). split; [assumption|].
          assert (X : after_count (p_pc l') = true) by (destruct (p_pc l'); try discriminate; reflexivity).
          intros Hl o sl Hi. destruct (Hlive (p_count l') ltac:(specialize (H1 X); lia) Hl) as (L & Hne).
          rewrite Hmem_other by assumption. exact (Hc L o sl Hi). }
        split; [exact H7|]. split; [exact H8 | exact H9].
      - intros p' Hp'. destruct (iv_mem c s gh P I p' Hp') as (M1 & M2). unfold mem_ok. rewrite Htg, Hcl, Hclaims.
        destruct (Z.eq_dec p' p) as [-> | Hne].
        + split.
          * intros _ o. unfold s', mclean. cbn. rewrite Z.eqb_refl. reflexivity.
          * intros X1 X2. replace (c_n0 c <=? tg c s p) with true in X2 by lia. rewrite Z.eqb_refl in X2. discriminate.
        + assert (Hg : (tg c s p' =? tg c s p) = false).
          { apply Z.eqb_neq. intros E. apply Hne. apply (tg_inj c s gh p' p A Hp' Hp). assumption. }
          rewrite Hg, Bool.andb_false_r.
          split.
          * intros X o. rewrite Hmem_other by assumption. apply M1. assumption.
          * intros X1 X2 o Hnz. rewrite Hmem_other in Hnz by assumption. apply M2; assumption. Qed.
  End Env.
End Rotate.
