(* The model of Model/Broadcast.v refines the lossy channel of Spec/Lossy.v on every sequential history. *)
From Coq Require Import FMapPositive.
Require Import V.Base.MachineInt.
Require Import V.Generated.GenConsts.
Require Import V.Model.Broadcast.
Require Import V.Spec.Lossy.
Require Import V.Proofs.BroadcastMem.
Require Import V.Proofs.BroadcastInv.
From Coq Require Import ZifyBool.
Open Scope Z_scope.

Section Refine.
Variables (cap k : Z).
Hypothesis Hcap : cap = 2 ^ k.
Hypothesis Hk : 5 <= k <= 30.

Let CB := cap_bounds cap k Hcap Hk.

(* counters below lim w never make do_validate's arithmetic leave its type *)
Definition lim (w : vwidth) : Z := match w with W64 | W64R => 2 ^ 62 | W32 => two31 - cap end.

Lemma do_validate_ok m w mm c it :
  get64 mm (intent_idx cap) = it -> 0 <= c -> 0 <= it -> c < lim w -> it < lim w ->
  do_validate m w cap mm c = Ok (c + cap >? it).
Proof.
  intros E Hc Hi Lc Li. pose proof CB. unfold do_validate. rewrite E. destruct w; unfold lim in *.
  - rewrite (wrap32_id c), (wrap32_id it) by (unfold in_i32, two31 in *; lia).
    rewrite add32_ok by (unfold in_i32, two31 in *; lia). reflexivity.
  - rewrite add64_ok by (unfold in_i64, two63; lia). reflexivity.
  - rewrite add64_ok by (unfold in_i64, two63; lia). reflexivity.
Qed.

(* sequentially the second validation of the repaired receive_next always succeeds *)
Lemma revalidate_ok m w mm c it :
  get64 mm (intent_idx cap) = it -> 0 <= c -> 0 <= it -> c < lim w -> it < lim w -> it < c + cap ->
  (if revalidates w then do_validate m w cap mm c else Ok true) = Ok true.
Proof.
  intros E Hc Hi Lc Li Lt. destruct (revalidates w); auto.
  rewrite (do_validate_ok m w mm c it) by auto. replace (c + cap >? it) with true by lia. reflexivity.
Qed.

Definition rx_rel (c0 : Z) (ch : chan) (r : rx) (sr : srx) : Prop :=
  next_record r = s_next sr /\ lapped r = s_lapped sr /\
  exists done rest, c_log ch = done ++ rest /\ chain c0 done (s_next sr) /\ chain (s_next sr) rest (c_tail ch).

Lemma find_skip (f : ent -> bool) done : forall l, Forall (fun e => f e = false) done -> find f (done ++ l) = find f l.
Proof.
  induction done as [|e r IH]; intros l F; cbn [app find]; auto.
  inversion F; subst. rewrite H1. auto.
Qed.

(* what CopyBroadcastReceiver::receive does once receive_next has positioned the receiver on a live record *)
Lemma receive_after m w hv mm r r1 e T :
  receive_next m w cap mm r = Ok (r1, true) -> lapped r1 = lapped r ->
  get64 mm (intent_idx cap) = T -> T < lim w -> 0 <= T ->
  ent_wf cap e -> is_pad e = false -> intact cap mm e ->
  cursor r1 = e_pos e -> record_offset r1 = e_pos e mod cap -> T < e_pos e + cap -> e_pos e < T ->
  receive m w hv cap mm r =
    if e_len e - 8 >? SCRATCH then Ok (r1, RErr InsufficientCapacity)
    else if negb (known_type (e_ty e)) then Panic
    else Ok (r1, RMsg (e_ty e) (e_bs e)).
Proof.
  intros RN Lp EI LT T0 (P0 & P8 & Ln & Cr & Ex & Ty & NP & _) Np (I1 & I2 & I3) Cu Ro Live Lt.
  pose proof CB. specialize (NP Np).
  pose proof (Z.mod_pos_bound (e_pos e) cap ltac:(lia)) as Ho.
  pose proof (align8_bounds (e_len e)) as AB.
  unfold receive. rewrite RN. cbn [bind]. cbv beta iota. cbn [negb].
  rewrite Lp, Z.eqb_refl. cbn [negb]. rewrite Ro, I1.
  rewrite sub32_ok by (unfold in_i32, two31, HL, BC_HEADER_LENGTH; lia). cbn [bind].
  change HL with 8.
  assert (HV : (if hv then do_validate m w cap mm (cursor r1) else Ok true) = Ok true).
  { destruct hv; auto. rewrite Cu, (do_validate_ok m w mm (e_pos e) T) by (auto; lia).
    replace (e_pos e + cap >? T) with true by lia. reflexivity. }
  rewrite HV. cbn [bind negb].
  destruct (e_len e - 8 >? SCRATCH) eqn:Big; auto.
  rewrite I2. destruct (negb (known_type (e_ty e))) eqn:Kn; auto.
  replace ((e_len e - 8 <? 0) || (e_pos e mod cap + 8 + (e_len e - 8) >? buf_len cap)) with false
    by (unfold buf_len, BC_TRAILER_LENGTH; lia).
  rewrite Cu, (do_validate_ok m w mm (e_pos e) T) by (auto; lia). cbn [bind].
  replace (e_pos e + cap >? T) with true by lia.
  replace (Z.to_nat (e_len e - 8)) with (length (e_bs e)) by lia. rewrite I3. reflexivity.
Qed.

Lemma receive_refines m w hv c0 mm ch r sr :
  inv cap c0 mm ch -> rx_rel c0 ch r sr -> c_tail ch < lim w ->
  match spec_receive cap ch sr with
  | Some (sr', res) => exists r', receive m w hv cap mm r = Ok (r', res) /\ rx_rel c0 ch r' sr'
  | None => receive m w hv cap mm r = Panic
  end.
Proof.
  intros I (Nr & Lp & done & rest & Elog & Cd & Cr) Lim. pose proof CB.
  pose proof (inv_c0 _ _ _ _ I) as [C0 _].
  pose proof (inv_wf _ _ _ _ I) as WF. rewrite Elog in WF. apply Forall_app in WF. destruct WF as [Wd Wr].
  destruct (chain_bounds cap k Hcap Hk _ _ _ Wd Cd) as [Le1 Fd].
  destruct (chain_bounds cap k Hcap Hk _ _ _ Wr Cr) as [Le2 Fr].
  set (T := c_tail ch) in *. set (n := s_next sr) in *.
  unfold spec_receive, backlog. fold T. fold n.
  destruct (T - n <=? 0) eqn:B0.
  { (* nothing new *)
    exists r. split; [|repeat split; auto; exists done, rest; auto].
    unfold receive, receive_next. rewrite (inv_tail _ _ _ _ I), Nr. fold T. fold n.
    replace (T >? n) with false by lia. reflexivity. }
  assert (RNhead : forall (K : outcome (rx * bool) -> Prop),
     K (v <- do_validate m w cap mm n ;;
        (let c := if v then n else get64 mm (latest_idx cap) in
         let lp := if v then lapped r else lapped r + 1 in
         let ro := Z.land (wrap32 c) (cap - 1) in
         v2 <- (if revalidates w then do_validate m w cap mm c else Ok true) ;;
         if v2 then
           a1 <- align32 m (get32 mm ro) RA ;;
           nr <- add64 m c a1 ;;
           if get32 mm (ro + 4) =? PADDING then
             a2 <- align32 m (get32 mm 0) RA ;;
             nr2 <- add64 m nr a2 ;;
             Ok ({| cursor := nr; next_record := nr2; record_offset := 0; lapped := lp |}, true)
           else
             Ok ({| cursor := c; next_record := nr; record_offset := ro; lapped := lp |}, true)
         else
           let l := get64 mm (latest_idx cap) in
           Ok ({| cursor := l; next_record := l; record_offset := Z.land (wrap32 l) (cap - 1); lapped := lp + 1 |}, true))) ->
     K (receive_next m w cap mm r)).
  { intros K HK. unfold receive_next. rewrite (inv_tail _ _ _ _ I), Nr. fold T. fold n.
    replace (T >? n) with true by lia. exact HK. }
  rewrite (do_validate_ok m w mm n T) in RNhead by (try apply (inv_intent _ _ _ _ I); lia).
  cbn [bind] in RNhead.
  destruct (cap <=? T - n) eqn:Lap.
  - (* lapped: restart at the latest record, report *)
    replace (n + cap >? T) with false in RNhead by lia. cbv beta iota zeta in RNhead.
    rewrite (inv_latest _ _ _ _ I) in RNhead.
    destruct (inv_last _ _ _ _ I) as [[E _]|[d [e [E [Pe Ne]]]]].
    { exfalso. rewrite Elog in E. apply app_eq_nil in E. destruct E as [_ E]. subst rest. cbn in Cr. lia. }
    pose proof (inv_wf _ _ _ _ I) as WF. rewrite E in WF. apply Forall_app in WF. destruct WF as [_ We].
    inversion We as [|? ? We1 _]; subst.
    pose proof (inv_chain _ _ _ _ I) as Ch. rewrite E in Ch. apply chain_app in Ch.
    destruct Ch as [c1 [Ch1 [Pc Ee]]]. cbn in Ee. fold T in Ee.
    pose proof (e_end_gt cap k Hcap Hk e We1) as Eg.
    assert (In e (c_log ch)) by (rewrite E; apply in_or_app; right; left; auto).
    assert (Int : intact cap mm e) by (apply (inv_live _ _ _ _ I); auto; fold T; lia).
    destruct Int as (I1 & I2 & I3). destruct We1 as (P0 & P8 & Ln & Crs & Ex & Ty & NP & _).
    rewrite <- Pe in RNhead. rewrite wrap32_land_cap with (k := k) in RNhead by auto.
    assert (Elt : e_end e < e_pos e + cap) by (pose proof (align8_bounds (e_len e)); unfold e_end; lia).
    rewrite (revalidate_ok m w mm (e_pos e) T) in RNhead
      by (try apply (inv_intent _ _ _ _ I); unfold e_end in *; lia).
    cbn [bind] in RNhead.
    rewrite I1, I2 in RNhead.
    rewrite align32_ok in RNhead by (unfold in_i32, two31; lia). cbn [bind] in RNhead.
    pose proof (align8_bounds (e_len e)) as AB.
    rewrite add64_ok in RNhead by (unfold in_i64, two63; unfold lim in Lim; destruct w; unfold two31 in *; unfold e_end in *; lia).
    cbn [bind] in RNhead.
    replace (e_ty e =? PADDING) with false in RNhead by (unfold is_pad in Ne; unfold PADDING, CMD_Padding; lia).
    eexists. split.
    + unfold receive. apply RNhead. cbn [bind]. cbv beta iota. cbn [negb lapped].
      replace (lapped r =? lapped r + 1) with false by lia. cbn [negb]. reflexivity.
    + unfold rx_rel. cbn [next_record lapped s_next s_lapped]. unfold e_end in Ee.
      repeat split; try lia. exists (c_log ch), []. rewrite app_nil_r. repeat split; auto.
      apply (inv_chain _ _ _ _ I).
  - (* not lapped: the record at next_record is live *)
    replace (n + cap >? T) with true in RNhead by lia. cbv beta iota zeta in RNhead.
    destruct rest as [|e rest']; [cbn in Cr; lia|]. destruct Cr as [Pe Cr'].
    inversion Wr as [|? ? We Wr']; subst.
    assert (Ine : In e (c_log ch)) by (rewrite Elog; apply in_or_app; right; left; auto).
    assert (Int : intact cap mm e) by (apply (inv_live _ _ _ _ I); auto; fold T; lia).
    pose proof Int as (I1 & I2 & I3). pose proof We as (P0 & P8 & Ln & Crs & Ex & Ty & NP & PD).
    pose proof (e_end_gt cap k Hcap Hk e We) as Eg.
    pose proof (align8_bounds (e_len e)) as AB.
    assert (Tb : T < 2 ^ 62) by (unfold lim in Lim; destruct w; unfold two31 in *; lia).
    rewrite wrap32_land_cap with (k := k) in RNhead by auto. rewrite <- Pe in RNhead.
    rewrite (revalidate_ok m w mm (e_pos e) T) in RNhead
      by (try apply (inv_intent _ _ _ _ I); unfold e_end in *; lia).
    cbn [bind] in RNhead.
    rewrite I1, I2 in RNhead.
    rewrite align32_ok in RNhead by (unfold in_i32, two31; lia). cbn [bind] in RNhead.
    rewrite add64_ok in RNhead by (unfold in_i64, two63; lia). cbn [bind] in RNhead.
    assert (Skip : Forall (fun x => (n <=? e_pos x) && negb (is_pad x) = false) done).
    { rewrite Forall_forall in *. intros x Hx. pose proof (e_end_gt cap k Hcap Hk x (Wd x Hx)).
      specialize (Fd x Hx). cbn in Fd. apply andb_false_intro1. lia. }
    unfold next_msg. rewrite Elog, find_skip by exact Skip. cbn [find]. fold n.
    destruct (is_pad e) eqn:Pd.
    + (* a padding record: the message is the record at offset 0 *)
      replace (e_ty e =? PADDING) with true in RNhead by (unfold is_pad in Pd; unfold PADDING, CMD_Padding; lia).
      pose proof (inv_pads _ _ _ _ I) as PO. rewrite Elog in PO. apply pads_ok_suffix in PO.
      destruct PO as [PO1 PO2]. specialize (PO1 Pd). destruct rest' as [|e2 rest'']; [contradiction|].
      destruct Cr' as [Pe2 Cr'']. inversion Wr' as [|? ? We2 Wr'']; subst.
      destruct (chain_bounds cap k Hcap Hk _ _ _ Wr'' Cr'') as [Le3 _].
      pose proof (e_end_gt cap k Hcap Hk e2 We2) as Eg2.
      assert (Al : align (e_len e) 8 = e_len e).
      { apply align8_id. specialize (PD eq_refl). pose proof (mod_cap_mod8 cap k Hcap Hk (e_pos e)) as M.
        pose proof (cap_mod8 cap k Hcap Hk) as C8.
        replace (e_len e) with (cap - e_pos e mod cap) by lia. rewrite Zminus_mod, C8, M, P8. reflexivity. }
      assert (Z2 : e_pos e2 mod cap = 0).
      { rewrite Pe2. unfold e_end. rewrite Al. specialize (PD eq_refl).
        replace (e_pos e + e_len e) with (cap * (e_pos e / cap + 1)).
        - rewrite Z.mul_comm. apply Z.mod_mul. lia.
        - pose proof (Z.div_mod (e_pos e) cap ltac:(lia)). lia. }
      assert (Ine2 : In e2 (c_log ch)) by (rewrite Elog; apply in_or_app; right; right; left; auto).
      assert (Int2 : intact cap mm e2) by (apply (inv_live _ _ _ _ I); auto; fold T; unfold e_end in *; lia).
      pose proof Int2 as (J1 & J2 & J3). rewrite Z2 in J1.
      pose proof We2 as (Q0 & Q8 & Ln2 & Crs2 & Ex2 & Ty2 & NP2 & _).
      pose proof (align8_bounds (e_len e2)) as AB2.
      rewrite J1 in RNhead.
      rewrite align32_ok in RNhead by (unfold in_i32, two31; lia). cbn [bind] in RNhead.
      rewrite add64_ok in RNhead by (unfold in_i64, two63; unfold e_end in *; lia). cbn [bind] in RNhead.
      set (r1 := {| cursor := e_pos e + align (e_len e) 8;
                    next_record := e_pos e + align (e_len e) 8 + align (e_len e2) 8;
                    record_offset := 0; lapped := lapped r |}) in *.
      assert (RN : receive_next m w cap mm r = Ok (r1, true)) by (apply RNhead; reflexivity).
      replace ((n <=? e_pos e) && negb true) with false by (cbn [negb]; symmetry; apply andb_false_r).
      cbn [find].
      replace ((n <=? e_pos e2) && negb (is_pad e2)) with true by (rewrite PO1; cbn [negb]; unfold e_end in *; lia).
      pose proof (receive_after m w hv mm r r1 e2 T RN eq_refl (inv_intent _ _ _ _ I) Lim ltac:(lia) We2 PO1 Int2) as RA.
      rewrite RA by (subst r1; cbn [cursor record_offset]; unfold e_end in *; lia). clear RA.
      assert (Rel : rx_rel c0 ch r1 {| s_next := e_end e2; s_lapped := s_lapped sr |}).
      { unfold rx_rel. subst r1. cbn [next_record lapped s_next s_lapped]. unfold e_end in *.
        repeat split; try lia. exists (done ++ [e; e2]), rest''. repeat split.
        - rewrite Elog, <- app_assoc. reflexivity.
        - apply chain_app. exists n. split; auto. cbn [chain]. unfold e_end. repeat split; lia.
        - exact Cr''. }
      destruct (e_len e2 - 8 >? SCRATCH); [eexists; split; [reflexivity|exact Rel]|].
      destruct (negb (known_type (e_ty e2))); [reflexivity|]. eexists; split; [reflexivity|exact Rel].
    + (* an ordinary record *)
      replace (e_ty e =? PADDING) with false in RNhead by (unfold is_pad in Pd; unfold PADDING, CMD_Padding; lia).
      set (r1 := {| cursor := e_pos e; next_record := e_pos e + align (e_len e) 8;
                    record_offset := e_pos e mod cap; lapped := lapped r |}) in *.
      assert (RN : receive_next m w cap mm r = Ok (r1, true)) by (apply RNhead; reflexivity).
      replace ((n <=? e_pos e) && negb false) with true by (cbn [negb]; lia).
      pose proof (receive_after m w hv mm r r1 e T RN eq_refl (inv_intent _ _ _ _ I) Lim ltac:(lia) We Pd Int) as RA.
      rewrite RA by (subst r1; cbn [cursor record_offset]; unfold e_end in *; lia). clear RA.
      assert (Rel : rx_rel c0 ch r1 {| s_next := e_end e; s_lapped := s_lapped sr |}).
      { unfold rx_rel. subst r1. cbn [next_record lapped s_next s_lapped]. unfold e_end in *.
        repeat split; try lia. exists (done ++ [e]), rest'. repeat split.
        - rewrite Elog, <- app_assoc. reflexivity.
        - apply chain_app. exists n. split; auto. cbn [chain]. unfold e_end. repeat split; lia.
        - exact Cr'. }
      destruct (e_len e - 8 >? SCRATCH); [eexists; split; [reflexivity|exact Rel]|].
      destruct (negb (known_type (e_ty e))); [reflexivity|]. eexists; split; [reflexivity|exact Rel].
Qed.

Lemma chain_fun l : forall a b b', chain a l b -> chain a l b' -> b = b'.
Proof. induction l; intros a0 b b' H1 H2; cbn in *. - congruence. - destruct H1, H2. eauto. Qed.

Lemma spec_transmit_log ch ty bs : exists es, c_log (fst (spec_transmit cap ch ty bs)) = c_log ch ++ es.
Proof.
  unfold spec_transmit. destruct (ty <? 1); [exists []; now rewrite app_nil_r|].
  destruct (Z.of_nat (length bs) >? cap / 8); [exists []; now rewrite app_nil_r|].
  eexists. reflexivity.
Qed.

Lemma transmit_rejects m mm ch ty bs :
  accepted cap ty bs = false ->
  exists e, transmit m cap mm ty bs = Err e /\ spec_transmit cap ch ty bs = (ch, TxErr e).
Proof.
  unfold accepted, transmit, spec_transmit, max_msg. intros A.
  destruct (ty <? 1); [eexists; split; reflexivity|].
  destruct (Z.of_nat (length bs) >? cap / 8); [eexists; split; reflexivity|]. discriminate A.
Qed.

Lemma rx_rel_extend c0 mm' ch ch' r sr :
  rx_rel c0 ch r sr -> inv cap c0 mm' ch' -> (exists es, c_log ch' = c_log ch ++ es) -> rx_rel c0 ch' r sr.
Proof.
  intros (Nr & Lp & done & rest & E & Cd & Cr) I' [es Es]. repeat split; auto.
  exists done, (rest ++ es). rewrite Es, E, <- app_assoc. repeat split; auto.
  pose proof (inv_chain _ _ _ _ I') as C. rewrite Es, E, <- app_assoc in C.
  apply chain_app in C. destruct C as [c [C1 C2]]. rewrite (chain_fun _ _ _ _ Cd C1). exact C2.
Qed.

Definition erase (o : obs) : obs := match o with Words _ => Words [] | x => x end.
Definition op_ok (o : op) : Prop := match o with Transmit ty _ => in_i32 ty = true | _ => True end.

Lemma lim_le w : lim w <= 2 ^ 62.
Proof. pose proof CB. destruct w; unfold lim, two31; lia. Qed.

Lemma run_refines m w hv c0 h : forall mm r ch sr,
  inv cap c0 mm ch -> rx_rel c0 ch r sr -> Forall op_ok h ->
  c_tail ch + 2 * cap * Z.of_nat (length h) < lim w ->
  map erase (run m w hv cap (mkSys mm r) h) = spec_run cap (mkSst ch sr) h.
Proof.
  pose proof CB. pose proof (lim_le w).
  induction h as [|o h IH]; intros mm r ch sr I R Ok Bd; [reflexivity|].
  apply Forall_cons_iff in Ok. destruct Ok as [Oo Oh]. cbn [length] in Bd. rewrite Nat2Z.inj_succ in Bd.
  cbn [run spec_run]. destruct o as [ty bs| |].
  - (* transmit *)
    unfold step, spec_step. cbn [smem Broadcast.srx s_ch s_rx].
    destruct (accepted cap ty bs) eqn:Acc.
    + destruct (transmit_refines cap k Hcap Hk m c0 mm ch ty bs I ltac:(nia) Acc Oo) as (mm' & E & I' & S & Bd').
      rewrite E. destruct (spec_transmit cap ch ty bs) as [ch' ob] eqn:Sp. cbn [fst snd] in *. subst ob.
      cbn [map erase]. f_equal. apply IH; auto.
      * eapply rx_rel_extend; eauto. pose proof (spec_transmit_log ch ty bs) as L. rewrite Sp in L. exact L.
      * nia.
    + destruct (transmit_rejects m mm ch ty bs Acc) as (e & E & Sp). rewrite E, Sp.
      cbn [map erase]. f_equal. apply IH; auto. nia.
  - (* receive *)
    unfold step, spec_step. cbn [smem Broadcast.srx s_ch s_rx].
    pose proof (receive_refines m w hv c0 mm ch r sr I R ltac:(nia)) as RR.
    destruct (spec_receive cap ch sr) as [[sr' res]|].
    + destruct RR as (r' & E & R'). rewrite E. cbn [map erase]. destruct R' as (Nr' & Lp' & X).
      rewrite Lp'. f_equal. apply IH; auto. * repeat split; auto. * nia.
    + rewrite RR. reflexivity.
  - (* dump *)
    unfold step, spec_step. cbn [map erase]. f_equal. apply IH; auto. nia.
Qed.

Lemma inv_init c0 : 0 <= c0 < 2 ^ 62 -> c0 mod 8 = 0 -> inv cap c0 (init_mem cap c0) (chan_init c0).
Proof.
  intros H0 H8. pose proof CB. unfold init_mem, chan_init.
  assert (in_i64 c0 = true) by (unfold in_i64, two63; lia).
  constructor; cbn [c_tail c_latest c_log]; auto.
  - unfold tail_idx, latest_idx, BC_TAIL_COUNTER_OFFSET, BC_LATEST_COUNTER_OFFSET.
    rewrite get64_put64_other, get64_put64 by (auto; lia). reflexivity.
  - unfold intent_idx, tail_idx, latest_idx, BC_TAIL_INTENT_COUNTER_OFFSET, BC_TAIL_COUNTER_OFFSET, BC_LATEST_COUNTER_OFFSET.
    rewrite get64_put64_other, get64_put64_other, get64_put64 by (auto; lia). reflexivity.
  - rewrite get64_put64 by auto. reflexivity.
  - reflexivity.
  - intros e [].
  - exact Logic.I.
  - lia.
Qed.

Lemma pre_refines m c0 pre : forall mm ch,
  inv cap c0 mm ch -> Forall (fun p => in_i32 (fst p) = true) pre ->
  c_tail ch + 2 * cap * Z.of_nat (length pre) < 2 ^ 62 ->
  inv cap c0 (pre_run m cap mm pre) (spec_pre cap ch pre) /\
  c_tail (spec_pre cap ch pre) <= c_tail ch + 2 * cap * Z.of_nat (length pre).
Proof.
  pose proof CB.
  induction pre as [|[ty bs] pre IH]; intros mm ch I Ok Bd.
  - cbn. split; auto. lia.
  - apply Forall_cons_iff in Ok. destruct Ok as [O1 O2]. cbn [fst] in O1. cbn [length] in Bd. rewrite Nat2Z.inj_succ in Bd.
    cbn [pre_run spec_pre length]. rewrite Nat2Z.inj_succ.
    destruct (accepted cap ty bs) eqn:Acc.
    + destruct (transmit_refines cap k Hcap Hk m c0 mm ch ty bs I ltac:(nia) Acc O1) as (mm' & E & I' & S & Bd').
      rewrite E. destruct (IH mm' _ I' O2 ltac:(nia)) as [I2 B2]. split; auto. nia.
    + destruct (transmit_rejects m mm ch ty bs Acc) as (e & E & Sp). rewrite E, Sp. cbn [fst].
      destruct (IH mm ch I O2 ltac:(nia)) as [I2 B2]. split; auto. nia.
Qed.

Lemma rx_new_rel c0 mm ch :
  inv cap c0 mm ch -> rx_rel c0 ch (rx_new cap mm) {| s_next := c_latest ch; s_lapped := 0 |}.
Proof.
  intros I. unfold rx_rel, rx_new. rewrite (inv_latest _ _ _ _ I). cbn [next_record lapped s_next s_lapped].
  repeat split; auto.
  destruct (inv_last _ _ _ _ I) as [[E L]|[d [e [E [Pe Ne]]]]].
  - exists [], []. rewrite E. pose proof (inv_chain _ _ _ _ I) as C. rewrite E in C. cbn in C.
    cbn [chain app]. repeat split; auto; lia.
  - exists d, [e]. pose proof (inv_chain _ _ _ _ I) as C. rewrite E in C. apply chain_app in C.
    destruct C as [c [C1 C2]]. pose proof C2 as C3. cbn in C3. destruct C3 as [P _].
    rewrite <- Pe, P. repeat split; auto. cbn in C2. apply C2.
Qed.

Theorem history_refines m w hv c0 pre h :
  0 <= c0 -> c0 mod 8 = 0 ->
  Forall (fun p => in_i32 (fst p) = true) pre -> Forall op_ok h ->
  c0 + 2 * cap * (Z.of_nat (length pre) + Z.of_nat (length h)) < lim w ->
  map erase (run_history m w hv cap c0 pre h) = spec_history cap c0 pre h.
Proof.
  intros H0 H8 Op Oh Bd. pose proof CB. pose proof (lim_le w).
  unfold run_history, spec_history, init_sys, spec_init.
  assert (I0 : inv cap c0 (init_mem cap c0) (chan_init c0)) by (apply inv_init; auto; nia).
  destruct (pre_refines m c0 pre _ _ I0 Op) as [I1 B1]; [cbn [chan_init c_tail]; nia|].
  cbn [chan_init c_tail] in B1.
  apply (run_refines m w hv c0); auto.
  - apply rx_new_rel; auto.
  - nia.
Qed.

End Refine.
