(* Proofs about Model/SubThreads.v: the application thread polling a Subscription while the conductor thread adds /
   removes images, at the granularity of single shared-memory actions.
     mutex_invariant, load_never_spins : under the Mutex<Subscription> at most one thread is inside a request, it is
        the holder, begin_change = end_change outside `store`, and the seqlock comparison of load / load_mut never
        fails: the sequence numbers are dead code on this path.
     linearizable_reach, linearizable : for every schedule, the completed requests in lock-acquisition order with
        their results, and the final (buf, round_robin_index), are the SEQUENTIAL execution of poll_inner / add_image /
        remove_image of Model/Subscription.v.  Induction over the steps with an invariant (inv / inflight) relating
        the configuration to the sequential state after the completed requests and the progress of the request in
        flight; the image-by-image loop of a locked poll is tied to poll_range by loop_solo_range.
     no_panic, poll_round_nodup, poll_sees_before_or_after, poll_sees_old_or_new : corollaries.
     drain_completes : the drain finishes every thread when given enough fuel, so the hypothesis `all_done` of
        linearizable can always be met.
     seqlock_alone_not_enough : without the mutex (use_mutex = false) a poll interleaved with a remove panics on an
        index computed for the old list, or polls a mixture of the old and the new list, although every seqlock
        comparison it made succeeded: `load_mut` hands out a reference to the live buf. *)
Require Import V.Base.MachineInt.
Require Import V.Model.Subscription.
Require Import V.Model.SubThreads.
Require Import V.Proofs.SubscriptionProofs.
From Coq Require Import ZifyBool Arith.PeanoNat.
Open Scope Z_scope.

Section Threads.
Context {I X : Type}.
Variable pk : I -> Z -> Z * I * list X.

Lemma upd_at_app (pre : list I) x rest y : upd_at (pre ++ x :: rest) (length pre) y = pre ++ y :: rest.
Proof. induction pre; cbn [app length upd_at]; [reflexivity | rewrite IHpre; reflexivity]. Qed.

Lemma nth_error_mid (pre : list I) x rest : nth_error (pre ++ x :: rest) (length pre) = Some x.
Proof. induction pre; cbn [app length nth_error]; auto. Qed.

Fixpoint loop_solo (n : nat) (buf : list I) (i : nat) (lim read : Z) (xs : list X) (polled : list Z)
  : option (list I * Z * list X * list Z) :=
  match n with
  | O => Some (buf, read, xs, polled)
  | S n' => match poll_image pk buf i lim read xs polled with
            | None => None
            | Some (b, r, x, p) => loop_solo n' b (S i) lim r x p
            end
  end.

Lemma loop_solo_range : forall imgs pre post lim read xs polled,
  loop_solo (length imgs) (pre ++ imgs ++ post) (length pre) lim read xs polled =
  let '(read', imgs', ys, p) := poll_range pk imgs (Z.of_nat (length pre)) lim read in
  Some (pre ++ imgs' ++ post, read', xs ++ ys, polled ++ p).
Proof.
  induction imgs as [|im r IH]; intros pre post lim read xs polled; cbn [length loop_solo poll_range app].
  - rewrite !app_nil_r. reflexivity.
  - unfold poll_image. destruct (read <? lim) eqn:E.
    + rewrite nth_error_mid. destruct (pk im (lim - read)) as [[k im'] ys].
      rewrite upd_at_app.
      specialize (IH (pre ++ [im']) post lim (read + k) (xs ++ ys) (polled ++ [Z.of_nat (length pre)])).
      rewrite app_length in IH. cbn [length] in IH. rewrite Nat.add_1_r in IH.
      rewrite <- app_assoc in IH. cbn [app] in IH. rewrite IH.
      replace (Z.of_nat (S (length pre))) with (Z.of_nat (length pre) + 1) by lia.
      destruct (poll_range pk r (Z.of_nat (length pre) + 1) lim (read + k)) as [[[read' r'] zs] p].
      rewrite <- !app_assoc. reflexivity.
    + specialize (IH (pre ++ [im]) post lim read xs polled).
      rewrite app_length in IH. cbn [length] in IH. rewrite Nat.add_1_r in IH.
      rewrite <- app_assoc in IH. cbn [app] in IH. rewrite IH.
      replace (Z.of_nat (S (length pre))) with (Z.of_nat (length pre) + 1) by lia.
      destruct (poll_range pk r (Z.of_nat (length pre) + 1) lim read) as [[[read' r'] zs] p].
      rewrite <- !app_assoc. reflexivity.
Qed.

Definition loops_from (second : bool) (start i hi : nat) (buf : list I) (lim read : Z) (xs : list X)
  (polled : list Z) : option (list I * Z * list X * list Z) :=
  match loop_solo (hi - i) buf i lim read xs polled with
  | None => None
  | Some (b1, r1, x1, p1) => if second then Some (b1, r1, x1, p1) else loop_solo start b1 O lim r1 x1 p1
  end.

Lemma loops_from_start (s : sub I) lim : 0 <= s_rr s ->
  let '(start, rr') := rr_next (Z.of_nat (length (s_images s))) (s_rr s) in
  let '(total, s', xs, polled) := poll_inner pk s lim in
  s_rr s' = rr' /\
  loops_from false (Z.to_nat start) (Z.to_nat start) (length (s_images s)) (s_images s) lim 0 [] []
  = Some (s_images s', total, xs, polled).
Proof.
  intros Hrr. unfold poll_inner.
  pose proof (rr_next_range (Z.of_nat (length (s_images s))) (s_rr s) ltac:(lia) Hrr) as Hn.
  destruct (rr_next (Z.of_nat (length (s_images s))) (s_rr s)) as [start rr'].
  destruct Hn as (Hs0 & Hs1 & Hr' & Hs2).
  set (l := s_images s) in *. set (n := Z.to_nat start).
  assert (Hn : (n <= length l)%nat) by lia.
  assert (Hf : length (firstn n l) = n) by (rewrite firstn_length; lia).
  assert (Hk : length (skipn n l) = (length l - n)%nat) by (rewrite skipn_length; lia).
  pose proof (loop_solo_range (skipn n l) (firstn n l) [] lim 0 [] []) as H1.
  rewrite app_nil_r, firstn_skipn, Hf, Hk in H1.
  replace (Z.of_nat n) with start in H1 by lia.
  destruct (poll_range pk (skipn n l) start lim 0) as [[[read1 back'] xs1] p1].
  pose proof (loop_solo_range (firstn n l) [] back' lim read1 xs1 p1) as H2.
  rewrite Hf in H2. cbn [app length] in H2. change (Z.of_nat 0) with 0 in H2.
  destruct (poll_range pk (firstn n l) 0 lim read1) as [[[read2 front'] xs2] p2].
  cbn [s_rr s_images]. split; [reflexivity|].
  unfold loops_from. rewrite H1. cbn [app]. rewrite app_nil_r. exact H2.
Qed.

(* ---- log bookkeeping ---- *)
Definition mk_done (e : nat * req I * result I X) : entry I X := (h_tid e, h_req e, Some (h_res e)).

Lemma history_done d : history (map mk_done d) = d.
Proof. induction d as [|[[t r] res] d IH]; cbn [map mk_done history h_tid h_req h_res fst snd]; [reflexivity|].
  rewrite IH. reflexivity. Qed.

Lemma history_pending d h r : history (map mk_done d ++ [(h, r, @None (result I X))]) = d.
Proof. induction d as [|[[t q] res] d IH]; cbn [map app mk_done history h_tid h_req h_res fst snd]; [reflexivity|].
  rewrite IH. reflexivity. Qed.

Lemma fill_done d t r res :
  fill t res (map mk_done d ++ [(t, r, None)]) = map mk_done (d ++ [(t, r, res)]).
Proof. induction d as [|[[t' q] res'] d IH]; cbn [map app mk_done fill h_tid h_req h_res fst snd].
  - rewrite Nat.eqb_refl. reflexivity.
  - rewrite IH. reflexivity. Qed.

Lemma seq_run_snoc rs : forall s0 s out r s' res,
  seq_run pk rs s0 = (s, out) -> seq_exec pk r s = (s', res) -> seq_run pk (rs ++ [r]) s0 = (s', out ++ [res]).
Proof. induction rs as [|q rs IH]; intros s0 s out r s' res H1 H2; cbn [seq_run app] in *.
  - inversion H1; subst. rewrite H2. reflexivity.
  - destruct (seq_exec pk q s0) as [s1 res1]. destruct (seq_run pk rs s1) as [s2 out2] eqn:E.
    inversion H1; subst. rewrite (IH _ _ _ _ _ _ E H2). reflexivity. Qed.

Lemma seq_exec_rr r s : 0 <= s_rr s -> 0 <= s_rr (fst (seq_exec pk r s)).
Proof. intros H. destruct r as [lim|im|p]; cbn [seq_exec fst add_image remove_image s_rr]; try assumption.
  unfold poll_inner. unfold rr_next. destruct (s_rr s >=? Z.of_nat (length (s_images s))).
  - destruct (poll_range pk (skipn (Z.to_nat 0) (s_images s)) 0 lim 0) as [[[a b] c] d].
    destruct (poll_range pk (firstn (Z.to_nat 0) (s_images s)) 0 lim a) as [[[a' b'] c'] d']. cbn. lia.
  - destruct (poll_range pk (skipn (Z.to_nat (s_rr s)) (s_images s)) (s_rr s) lim 0) as [[[a b] c] d].
    destruct (poll_range pk (firstn (Z.to_nat (s_rr s)) (s_images s)) 0 lim a) as [[[a' b'] c'] d']. cbn. lia.
Qed.

Lemma first_match_none p : forall (l : list I) k, first_match p l k = None -> remove_first p l = l.
Proof. induction l as [|x l IH]; intros k H; cbn [first_match remove_first] in *; [reflexivity|].
  destruct (p x); [discriminate|]. rewrite (IH _ H). reflexivity. Qed.

(* ---- the invariant ---- *)
Definition pre_ok (s : sub I) (sh : shared I) : Prop :=
  m_buf sh = s_images s /\ m_rr sh = s_rr s /\ m_begin sh = m_end sh.

Definition inflight (r : req I) (s : sub I) (sh : shared I) (pc : pcs I X) : Prop :=
  match pc with
  | Idle => False
  | LdEnd r' => r' = r /\ pre_ok s sh
  | LdBegin r' e => r' = r /\ pre_ok s sh /\ e = m_end sh
  | PRr lim => r = RPoll lim /\ pre_ok s sh
  | PLoop lim second start i hi read xs polled =>
      r = RPoll lim /\ m_begin sh = m_end sh /\
      exists total s' xs' polled', poll_inner pk s lim = (total, s', xs', polled') /\ m_rr sh = s_rr s' /\
        loops_from second start i hi (m_buf sh) lim read xs polled = Some (s_images s', total, xs', polled')
  | ACloneAdd im => r = RAdd im /\ pre_ok s sh
  | ACloneRem p => r = RRemove p /\ pre_ok s sh
  | AStore1 new res => pre_ok s sh /\ seq_exec pk r s = (mkSub new (s_rr s), res)
  | AStore2 new sq res =>
      m_buf sh = s_images s /\ m_rr sh = s_rr s /\ m_begin sh = sq /\ seq_exec pk r s = (mkSub new (s_rr s), res)
  | AStore3 sq res => m_begin sh = sq /\ seq_exec pk r s = (mkSub (m_buf sh) (m_rr sh), res)
  | PUnlock res => m_begin sh = m_end sh /\ seq_exec pk r s = (mkSub (m_buf sh) (m_rr sh), res)
  end.

Lemma istep_inflight r s sh pc sh' pc' ores : 0 <= s_rr s ->
  inflight r s sh pc -> istep pk true sh pc = (sh', pc', ores) ->
  match ores with
  | None => inflight r s sh' pc' /\ m_holder sh' = m_holder sh
  | Some res => pc' = Idle /\ m_holder sh' = None /\ m_begin sh' = m_end sh' /\
                seq_exec pk r s = (mkSub (m_buf sh') (m_rr sh'), res)
  end.
Proof.
  intros Hrr Hin Hst. destruct pc; cbn [istep inflight] in *.
  - contradiction.
  - inversion Hst; subst. cbn [inflight]. intuition.
  - destruct Hin as (-> & Hp & ->). destruct Hp as (Hb & Hr & He). rewrite He, Z.eqb_refl in Hst.
    inversion Hst; subst. split; [|reflexivity]. destruct r; cbn [after_load inflight]; unfold pre_ok; intuition.
  - destruct Hin as (-> & Hb & Hr & He).
    pose proof (loops_from_start s lim Hrr) as HL. rewrite <- Hb, <- Hr in HL.
    destruct (rr_next (Z.of_nat (length (m_buf sh))) (m_rr sh)) as [start rr'].
    inversion Hst; subst. cbn [inflight set_rr m_begin m_end m_rr m_buf m_holder]. split; [|reflexivity].
    split; [reflexivity|]. split; [assumption|].
    destruct (poll_inner pk s lim) as [[[total s'] xs'] polled']. destruct HL as [HL1 HL2].
    exists total, s', xs', polled'. rewrite Hb in HL2. rewrite Hb. auto.
  - destruct Hin as (-> & He & total & s' & xs' & polled' & Hp & Hr & HL).
    unfold loops_from in HL.
    destruct (Nat.ltb i hi) eqn:Elt.
    + apply Nat.ltb_lt in Elt. replace (hi - i)%nat with (S (hi - S i)) in HL by lia. cbn [loop_solo] in HL.
      destruct (poll_image pk (m_buf sh) i lim read xs polled) as [[[[b1 r1] x1] p1]|]; [|discriminate].
      inversion Hst; subst. cbn [inflight set_buf m_begin m_end m_rr m_buf m_holder]. split; [|reflexivity].
      split; [reflexivity|]. split; [assumption|]. exists total, s', xs', polled'. unfold loops_from. auto.
    + apply Nat.ltb_ge in Elt. replace (hi - i)%nat with O in HL by lia. cbn [loop_solo] in HL.
      destruct second.
      * injection HL as Hb1 H2 H3 H4; subst. inversion Hst; subst. cbn [inflight]. split; [|reflexivity]. split; [assumption|].
        cbn [seq_exec]. rewrite Hp. cbn [fst snd poll_res]. rewrite Hb1, Hr. destruct s'; reflexivity.
      * inversion Hst; subst. cbn [inflight]. split; [|reflexivity]. split; [reflexivity|]. split; [assumption|].
        exists total, s', xs', polled'. unfold loops_from. rewrite Nat.sub_0_r. destruct (loop_solo start (m_buf sh') 0 lim read xs polled) as [[[[b1 r1] x1] p1]|]; auto.
  - destruct Hin as (-> & Hb & Hr & He). inversion Hst; subst. cbn [inflight]. split; [|reflexivity].
    split; [unfold pre_ok; auto|]. cbn [seq_exec]; unfold add_image. rewrite Hb. reflexivity.
  - destruct Hin as (-> & Hb & Hr & He). destruct (first_match p (m_buf sh) 0) as [k|] eqn:Ef.
    + inversion Hst; subst. cbn [inflight]. split; [|reflexivity].
      split; [unfold pre_ok; auto|]. cbn [seq_exec]; unfold remove_image. rewrite <- Hb, Ef. reflexivity.
    + inversion Hst; subst. cbn [inflight]. split; [|reflexivity]. split; [assumption|].
      cbn [seq_exec]; unfold remove_image. rewrite <- Hb, <- Hr, Ef. rewrite (first_match_none _ _ _ Ef). reflexivity.
  - destruct Hin as ((Hb & Hr & He) & Hs). inversion Hst; subst. cbn [inflight set_begin m_begin m_end m_rr m_buf m_holder].
    auto.
  - destruct Hin as (Hb & Hr & He & Hs). inversion Hst; subst. cbn [inflight set_buf m_begin m_end m_rr m_buf m_holder].
    split; [|reflexivity]. split; [reflexivity|]. rewrite Hr. assumption.
  - destruct Hin as (He & Hs). inversion Hst; subst. cbn [inflight set_end m_begin m_end m_rr m_buf m_holder]. auto.
  - destruct Hin as (He & Hs). inversion Hst; subst. cbn [set_holder m_begin m_end m_rr m_buf m_holder]. auto.
Qed.

Definition seq0 (c0 : config I X) : sub I := mkSub (m_buf (c_sh c0)) (m_rr (c_sh c0)).

Record inv (c0 c : config I X) (d : list (nat * req I * result I X)) (s : sub I) : Prop := mkInv {
  inv_seq : seq_run pk (map h_req d) (seq0 c0) = (s, map h_res d);
  inv_rr : 0 <= s_rr s;
  inv_state : match m_holder (c_sh c) with
     | None => c_log c = map mk_done d /\ (forall t, th_pc (c_thr c t) = Idle) /\ pre_ok s (c_sh c)
     | Some h => exists r, c_log c = map mk_done d ++ [(h, r, None)] /\
                  (forall t, t <> h -> th_pc (c_thr c t) = Idle) /\ inflight r s (c_sh c) (th_pc (c_thr c h))
     end }.

Lemma inflight_not_idle r s sh pc : inflight r s sh pc -> is_idle pc = false.
Proof. destruct pc; cbn [inflight is_idle]; [contradiction|reflexivity..]. Qed.

Lemma tstep_inv c0 c d s t c' : inv c0 c d s -> tstep pk true t c = Some c' -> exists d' s', inv c0 c' d' s'.
Proof.
  intros [Hseq Hrr Hst] Hstep. unfold tstep in Hstep. cbv zeta in Hstep.
  destruct (m_holder (c_sh c)) as [h|] eqn:Eh.
  - destruct Hst as (r & Hlog & Hidle & Hin).
    destruct (Nat.eq_dec t h) as [->|Hne].
    + rewrite (inflight_not_idle _ _ _ _ Hin) in Hstep.
      destruct (istep pk true (c_sh c) (th_pc (c_thr c h))) as [[sh' pc'] ores] eqn:Ei.
      pose proof (istep_inflight _ _ _ _ _ _ _ Hrr Hin Ei) as Hi.
      injection Hstep as <-. destruct ores as [res|].
      * destruct Hi as (-> & Hh & Hbe & Hex).
        exists (d ++ [(h, r, res)]), (mkSub (m_buf sh') (m_rr sh')).
        constructor; cbn [c_sh c_thr c_log].
        -- rewrite !map_app. cbn [map h_req h_res fst snd]. eapply seq_run_snoc; eassumption.
        -- pose proof (seq_exec_rr r s Hrr) as H. rewrite Hex in H. exact H.
        -- rewrite Hh. split; [rewrite Hlog; apply fill_done|]. split.
           ++ intros t. unfold upd. destruct (Nat.eqb t h) eqn:E; [reflexivity|].
              apply Hidle. apply Nat.eqb_neq. assumption.
           ++ unfold pre_ok. cbn [s_images s_rr]. auto.
      * destruct Hi as (Hin' & Hh). exists d, s. constructor; cbn [c_sh c_thr c_log]; try assumption.
        rewrite Hh, Eh. exists r. split; [assumption|]. split.
        -- intros t Ht. unfold upd. apply Nat.eqb_neq in Ht. rewrite Ht. apply Hidle. apply Nat.eqb_neq. assumption.
        -- unfold upd. rewrite Nat.eqb_refl. exact Hin'.
    + rewrite (Hidle t Hne) in Hstep. cbn [is_idle] in Hstep. 
      destruct (th_todo (c_thr c t)); discriminate.
  - destruct Hst as (Hlog & Hidle & Hpre). rewrite (Hidle t) in Hstep. cbn [is_idle] in Hstep.
    destruct (th_todo (c_thr c t)) as [|r rest]; [discriminate|].
    injection Hstep as <-. exists d, s. constructor; cbn [c_sh c_thr c_log set_holder m_holder]; try assumption.
    exists r. split; [rewrite Hlog; reflexivity|]. split.
    + intros t' Ht. unfold upd. apply Nat.eqb_neq in Ht. rewrite Ht. apply Hidle.
    + unfold upd. rewrite Nat.eqb_refl. cbn [th_pc inflight]. split; [reflexivity|exact Hpre].
Qed.

Lemma reach_inv c0 c : initial c0 -> reach pk true c0 c -> exists d s, inv c0 c d s.
Proof.
  intros (Hh & Hbe & Hrr & Hidle & Hlog) Hr. induction Hr as [|c t c' Hr IH Hs].
  - exists [], (seq0 c0). constructor; cbn [map seq_run]; [reflexivity|exact Hrr|].
    rewrite Hh. split; [exact Hlog|]. split; [exact Hidle|]. unfold pre_ok, seq0. cbn [s_images s_rr]. auto.
  - destruct IH as (d & s & Hi). eapply tstep_inv; eassumption.
Qed.

(* ---- schedules and the drain only make steps ---- *)
Lemma reach_trans um c0 c c2 : reach pk um c0 c -> reach pk um c c2 -> reach pk um c0 c2.
Proof. intros H1 H2. induction H2; [assumption|]. econstructor; eassumption. Qed.

Lemma reach_run_sched um sched : forall c, reach pk um c (run_sched pk um sched c).
Proof. induction sched as [|t rest IH]; intros c; cbn [run_sched]; [constructor|].
  destruct (tstep pk um t c) as [c'|] eqn:E; [|apply IH].
  eapply reach_trans; [|apply IH]. econstructor; [constructor|exact E]. Qed.

Lemma reach_run_thread um t fuel : forall c, reach pk um c (run_thread pk um fuel t c).
Proof. induction fuel as [|f IH]; intros c; cbn [run_thread]; [constructor|].
  destruct (tstep pk um t c) as [c'|] eqn:E; [|constructor].
  eapply reach_trans; [|apply IH]. econstructor; [constructor|exact E]. Qed.

Lemma reach_drain_pass um fuel ts : forall c, reach pk um c (drain_pass pk um fuel ts c).
Proof. induction ts as [|t rest IH]; intros c; cbn [drain_pass]; [constructor|].
  eapply reach_trans; [apply reach_run_thread|apply IH]. Qed.

Lemma reach_run um n fuel sched c : reach pk um c (run pk um n fuel sched c).
Proof. unfold run, drain. eapply reach_trans; [apply reach_run_sched|].
  eapply reach_trans; apply reach_drain_pass. Qed.

(* ---- program order: the log holds, per thread, what the thread has started, in its own order ---- *)
Definition log_reqs (t : nat) (l : list (entry I X)) : list (req I) :=
  map (fun e => snd (fst e)) (filter (fun e => Nat.eqb (fst (fst e)) t) l).

Lemma log_reqs_fill t t' res l : log_reqs t (fill t' res l) = log_reqs t l.
Proof. unfold log_reqs. induction l as [|[[u r] [x|]] l IH]; cbn [fill]; [reflexivity| |].
  - cbn [filter fst snd]. destruct (Nat.eqb u t); cbn [map]; rewrite IH; reflexivity.
  - destruct (Nat.eqb u t') eqn:E; [cbn [filter fst snd]; destruct (Nat.eqb u t); reflexivity|].
    cbn [filter fst snd]. destruct (Nat.eqb u t); cbn [map]; rewrite IH; reflexivity. Qed.

Lemma log_reqs_snoc t l u r o : log_reqs t (l ++ [(u, r, o)]) = log_reqs t l ++ (if Nat.eqb u t then [r] else []).
Proof. unfold log_reqs. rewrite filter_app, map_app. cbn [filter fst snd]. destruct (Nat.eqb u t); reflexivity. Qed.

Lemma log_reqs_done t d : log_reqs t (map mk_done d) = reqs_of t d.
Proof. unfold log_reqs, reqs_of. induction d as [|[[u r] res] d IH]; [reflexivity|].
  cbn [map mk_done filter h_tid h_req h_res fst snd]. destruct (Nat.eqb u t); cbn [map h_req fst snd]; rewrite IH; reflexivity. Qed.

Lemma prog_order um c0 c : c_log c0 = [] -> reach pk um c0 c ->
  forall t, log_reqs t (c_log c) ++ th_todo (c_thr c t) = th_todo (c_thr c0 t).
Proof.
  intros Hlog Hr. induction Hr as [|c u c' Hr IH Hs]; intros t.
  - rewrite Hlog. reflexivity.
  - specialize (IH t). unfold tstep in Hs. cbv zeta in Hs.
    destruct (is_idle (th_pc (c_thr c u))).
    + destruct (th_todo (c_thr c u)) as [|r rest] eqn:Et; [discriminate|].
      destruct (if um then m_holder (c_sh c) else None); [discriminate|].
      injection Hs as <-. cbn [c_log c_thr]. rewrite log_reqs_snoc. unfold upd.
      destruct (Nat.eqb t u) eqn:E.
      * apply Nat.eqb_eq in E. subst u. rewrite Nat.eqb_refl. cbn [th_todo]. rewrite <- app_assoc. cbn [app].
        rewrite <- Et. exact IH.
      * rewrite Nat.eqb_sym, E. rewrite app_nil_r. exact IH.
    + destruct (istep pk um (c_sh c) (th_pc (c_thr c u))) as [[sh' pc'] ores].
      injection Hs as <-. cbn [c_log c_thr]. 
      assert (Hl : log_reqs t (match ores with Some res => fill u res (c_log c) | None => c_log c end) = log_reqs t (c_log c)).
      { destruct ores; [apply log_reqs_fill|reflexivity]. }
      rewrite Hl. unfold upd. destruct (Nat.eqb t u) eqn:E; [|exact IH].
      apply Nat.eqb_eq in E. subst u. cbn [th_todo]. exact IH.
Qed.

(* ================= 1. the mutex ================= *)
Lemma inflight_begin_end r s sh pc : inflight r s sh pc -> in_store pc = false -> m_begin sh = m_end sh.
Proof. destruct pc; cbn [inflight in_store]; unfold pre_ok; intros H1 H2; try discriminate; try contradiction;
  intuition. Qed.

Theorem mutex_invariant c0 c : initial c0 -> reach pk true c0 c ->
  (forall t, in_cs (th_pc (c_thr c t)) = true <-> m_holder (c_sh c) = Some t) /\
  (forall t1 t2, in_cs (th_pc (c_thr c t1)) = true -> in_cs (th_pc (c_thr c t2)) = true -> t1 = t2) /\
  ((forall t, in_store (th_pc (c_thr c t)) = false) -> m_begin (c_sh c) = m_end (c_sh c)).
Proof.
  intros Hi Hr. destruct (reach_inv c0 c Hi Hr) as (d & s & [Hseq Hrr Hst]).
  assert (A : forall t, in_cs (th_pc (c_thr c t)) = true <-> m_holder (c_sh c) = Some t).
  { intros t. unfold in_cs. destruct (m_holder (c_sh c)) as [h|].
    - destruct Hst as (r & _ & Hidle & Hin). split.
      + intros H. destruct (Nat.eq_dec t h) as [->|Hne]; [reflexivity|]. rewrite (Hidle t Hne) in H. discriminate.
      + intros H. injection H as ->. rewrite (inflight_not_idle _ _ _ _ Hin). reflexivity.
    - destruct Hst as (_ & Hidle & _). rewrite Hidle. cbn [is_idle negb]. split; discriminate. }
  split; [exact A|]. split.
  - intros t1 t2 H1 H2. apply A in H1. apply A in H2. rewrite H1 in H2. injection H2. auto.
  - intros Hns. destruct (m_holder (c_sh c)) as [h|].
    + destruct Hst as (r & _ & _ & Hin). eapply inflight_begin_end; [exact Hin|apply Hns].
    + destruct Hst as (_ & _ & (_ & _ & H)). exact H.
Qed.

(* under the mutex the comparison of `load` / `load_mut` succeeds at the first try: a thread that has read
   end_change = e finds begin_change = e, and its next step leaves the loop *)
Theorem load_never_spins c0 c t r e : initial c0 -> reach pk true c0 c ->
  th_pc (c_thr c t) = LdBegin r e ->
  m_begin (c_sh c) = e /\
  exists c', tstep pk true t c = Some c' /\ th_pc (c_thr c' t) = after_load r.
Proof.
  intros Hi Hr Hpc. destruct (reach_inv c0 c Hi Hr) as (d & s & [Hseq Hrr Hst]).
  assert (E : m_begin (c_sh c) = e).
  { destruct (m_holder (c_sh c)) as [h|].
    - destruct Hst as (q & _ & Hidle & Hin). destruct (Nat.eq_dec t h) as [->|Hne].
      + rewrite Hpc in Hin. cbn [inflight] in Hin. destruct Hin as (_ & (_ & _ & Hbe) & ->). exact Hbe.
      + rewrite (Hidle t Hne) in Hpc. discriminate.
    - destruct Hst as (_ & Hidle & _). rewrite Hidle in Hpc. discriminate. }
  split; [exact E|]. unfold tstep. cbv zeta. rewrite Hpc. cbn [is_idle istep]. rewrite E, Z.eqb_refl.
  eexists. split; [reflexivity|]. cbn [c_thr]. unfold upd. rewrite Nat.eqb_refl. reflexivity.
Qed.

(* ================= 2. every request is atomic ================= *)
(* any reachable configuration: the completed requests, in lock-acquisition order, with their results, are a
   sequential execution from the initial subscription; when the mutex is free, (buf, round_robin_index) is the
   sequential state after them *)
Theorem linearizable_reach c0 c : initial c0 -> reach pk true c0 c ->
  exists s, seq_run pk (map h_req (history (c_log c))) (seq0 c0) = (s, map h_res (history (c_log c))) /\
            0 <= s_rr s /\
            (m_holder (c_sh c) = None -> s = mkSub (m_buf (c_sh c)) (m_rr (c_sh c))).
Proof.
  intros Hi Hr. destruct (reach_inv c0 c Hi Hr) as (d & s & [Hseq Hrr Hst]). exists s.
  destruct (m_holder (c_sh c)) as [h|].
  - destruct Hst as (r & Hlog & _). rewrite Hlog, history_pending. split; [exact Hseq|]. split; [exact Hrr|discriminate].
  - destruct Hst as (Hlog & _ & (Hb & Hr' & _)). rewrite Hlog, history_done. split; [exact Hseq|]. split; [exact Hrr|].
    intros _. destruct s as [li ri]; cbn [s_images s_rr] in *; subst; reflexivity.
Qed.

Lemma all_done_spec n (c : config I X) : all_done n c = true ->
  m_holder (c_sh c) = None /\ forall t, (t < n)%nat -> th_todo (c_thr c t) = [].
Proof. unfold all_done. intros H. apply andb_true_iff in H as [H1 H2]. split.
  - destruct (m_holder (c_sh c)); [discriminate|reflexivity].
  - intros t Ht. rewrite forallb_forall in H2. specialize (H2 t). rewrite in_seq in H2. specialize (H2 ltac:(lia)).
    unfold th_done in H2. apply andb_true_iff in H2 as [_ H2]. destruct (th_todo (c_thr c t)); [reflexivity|discriminate]. Qed.

Theorem linearizable c0 n fuel sched : initial c0 -> (forall t, (n <= t)%nat -> th_todo (c_thr c0 t) = []) ->
  let c := run pk true n fuel sched c0 in
  all_done n c = true ->
  seq_run pk (map h_req (history (c_log c))) (mkSub (m_buf (c_sh c0)) (m_rr (c_sh c0)))
    = (mkSub (m_buf (c_sh c)) (m_rr (c_sh c)), map h_res (history (c_log c))) /\
  (forall t, reqs_of t (history (c_log c)) = th_todo (c_thr c0 t)).
Proof.
  intros Hi Hn c Hd. pose proof (reach_run true n fuel sched c0 : reach pk true c0 c) as Hr.
  destruct (all_done_spec n c Hd) as [Hh Ht].
  destruct (reach_inv c0 c Hi Hr) as (d & s & [Hseq Hrr Hst]). rewrite Hh in Hst.
  destruct Hst as (Hlog & _ & (Hb & Hr' & _)).
  destruct Hi as (_ & _ & _ & _ & Hlog0). pose proof (prog_order true c0 c Hlog0 Hr) as Hp.
  rewrite Hlog in *. rewrite history_done. split.
  - rewrite Hb, Hr'. destruct s as [li ri]. exact Hseq.
  - intros t. specialize (Hp t). rewrite log_reqs_done in Hp.
    destruct (Nat.lt_ge_cases t n) as [Hlt|Hge].
    + rewrite (Ht t Hlt), app_nil_r in Hp. exact Hp.
    + rewrite (Hn t Hge) in Hp. apply app_eq_nil in Hp as [Hp _]. rewrite Hp. symmetry. apply Hn. exact Hge.
Qed.

(* a sequential execution never panics, so neither does any request under the mutex *)
Lemma seq_exec_no_panic r s : snd (seq_exec pk r s) <> RsPanic.
Proof. destruct r; cbn [seq_exec snd]; try discriminate.
  destruct (poll_inner pk s limit) as [[[a b] c] d]. cbn [poll_res]. discriminate. Qed.

Lemma seq_run_split : forall (pre : list (nat * req I * result I X)) e post s0 s,
  seq_run pk (map h_req (pre ++ e :: post)) s0 = (s, map h_res (pre ++ e :: post)) -> 0 <= s_rr s0 ->
  exists s1, seq_run pk (map h_req pre) s0 = (s1, map h_res pre) /\ 0 <= s_rr s1 /\
             h_res e = snd (seq_exec pk (h_req e) s1).
Proof.
  induction pre as [|a pre IH]; intros e post s0 s H Hrr; cbn [app map seq_run] in *.
  - exists s0. split; [reflexivity|]. split; [exact Hrr|].
    destruct (seq_exec pk (h_req e) s0) as [s1 res]. destruct (seq_run pk (map h_req post) s1) as [s2 out].
    injection H as _ H _. rewrite H. reflexivity.
  - pose proof (seq_exec_rr (h_req a) s0 Hrr) as Hrr1.
    destruct (seq_exec pk (h_req a) s0) as [s1 res]. cbn [fst] in Hrr1.
    destruct (seq_run pk (map h_req (pre ++ e :: post)) s1) as [s2 out] eqn:E.
    injection H as -> Ha Hout. rewrite Hout in E.
    destruct (IH e post s1 s E Hrr1) as (s3 & H3 & Hrr3 & He). exists s3. rewrite H3, Ha. auto.
Qed.

Theorem no_panic c0 c : initial c0 -> reach pk true c0 c ->
  forall e, In e (history (c_log c)) -> h_res e <> RsPanic.
Proof.
  intros Hi Hr e He. destruct (linearizable_reach c0 c Hi Hr) as (s & Hs & _ & _).
  destruct (in_split _ _ He) as (pre & post & Hsp). rewrite Hsp in Hs.
  destruct Hi as (_ & _ & Hrr & _).
  destruct (seq_run_split pre e post (seq0 c0) s Hs Hrr) as (s1 & _ & _ & Hres).
  rewrite Hres. apply seq_exec_no_panic.
Qed.

(* ================= 3. what a poll sees while the list changes ================= *)
(* every completed poll, in every reachable configuration, is poll_inner on the sequential state after the requests
   that locked before it; so each image is polled at most once per round and only indices of that list are used *)
Theorem poll_round_nodup c0 c t lim total xs polled :
  (forall im l, 0 < l -> 0 <= fst (fst (pk im l)) <= l) ->
  initial c0 -> reach pk true c0 c ->
  In (t, RPoll lim, RsPoll total xs polled) (history (c_log c)) ->
  exists pre post s,
    history (c_log c) = pre ++ (t, RPoll lim, RsPoll total xs polled) :: post /\
    seq_run pk (map h_req pre) (seq0 c0) = (s, map h_res pre) /\
    RsPoll total xs polled = poll_res (poll_inner pk s lim) /\
    NoDup polled /\ Forall (fun j => 0 <= j < Z.of_nat (length (s_images s))) polled /\
    0 <= total <= Z.max 0 lim.
Proof.
  intros Hpk Hi Hr He. destruct (linearizable_reach c0 c Hi Hr) as (s & Hs & _ & _).
  destruct (in_split _ _ He) as (pre & post & Hsp). rewrite Hsp in Hs.
  destruct Hi as (_ & _ & Hrr & _).
  destruct (seq_run_split pre _ post (seq0 c0) s Hs Hrr) as (s1 & Hs1 & Hrr1 & Hres).
  exists pre, post, s1. split; [exact Hsp|]. split; [exact Hs1|].
  cbn [h_res h_req fst snd seq_exec] in Hres. split; [exact Hres|].
  pose proof (poll_inner_bounded pk Hpk s1 lim Hrr1) as Hb.
  destruct (poll_inner pk s1 lim) as [[[total' s'] xs'] polled']. cbn [poll_res] in Hres.
  injection Hres as -> -> ->. intuition.
Qed.

(* two threads with one request each: the history is one of the two orders *)
Lemma reqs_of_cons t u r res (h : list (nat * req I * result I X)) :
  reqs_of t ((u, r, res) :: h) = if Nat.eqb u t then r :: reqs_of t h else reqs_of t h.
Proof. unfold reqs_of. cbn [filter h_tid fst]. destruct (Nat.eqb u t); reflexivity. Qed.

Lemma reqs_of_all_nil (h : list (nat * req I * result I X)) : (forall t, reqs_of t h = []) -> h = [].
Proof. destruct h as [|[[u r] res] h]; [reflexivity|]. intros H. specialize (H u).
  rewrite reqs_of_cons, Nat.eqb_refl in H. discriminate. Qed.

Lemma one_thread_shape (h : list (nat * req I * result I X)) u b :
  reqs_of u h = [b] -> (forall t, t <> u -> reqs_of t h = []) -> exists rb, h = [(u, b, rb)].
Proof.
  intros H1 H2. destruct h as [|[[u2 r2] res2] h]; [discriminate|].
  destruct (Nat.eq_dec u2 u) as [->|Hne].
  - rewrite reqs_of_cons, Nat.eqb_refl in H1. injection H1 as -> H1. exists res2. f_equal.
    apply reqs_of_all_nil. intros t. destruct (Nat.eq_dec t u) as [->|Ht]; [exact H1|].
    specialize (H2 t Ht). rewrite reqs_of_cons in H2. destruct (Nat.eqb u t) eqn:E; [|exact H2].
    apply Nat.eqb_eq in E. congruence.
  - specialize (H2 u2 Hne). rewrite reqs_of_cons, Nat.eqb_refl in H2. discriminate.
Qed.

Lemma two_thread_shape (h : list (nat * req I * result I X)) a b :
  reqs_of 0 h = [a] -> reqs_of 1 h = [b] -> (forall t, (2 <= t)%nat -> reqs_of t h = []) ->
  exists ra rb, h = [(0%nat, a, ra); (1%nat, b, rb)] \/ h = [(1%nat, b, rb); (0%nat, a, ra)].
Proof.
  intros H0 H1 H2.
  destruct h as [|[[u1 r1] res1] h]; [discriminate|].
  destruct u1 as [|[|u1]].
  - rewrite reqs_of_cons in H0, H1. cbn [Nat.eqb] in H0, H1. injection H0 as -> H0.
    destruct (one_thread_shape h 1%nat b H1) as (rb & ->).
    + intros t Ht. destruct t as [|[|t]]; [exact H0|congruence|].
      specialize (H2 (S (S t)) ltac:(lia)). rewrite reqs_of_cons in H2. exact H2.
    + exists res1, rb. left. reflexivity.
  - rewrite reqs_of_cons in H0, H1. cbn [Nat.eqb] in H0, H1. injection H1 as -> H1.
    destruct (one_thread_shape h 0%nat a H0) as (ra & ->).
    + intros t Ht. destruct t as [|[|t]]; [congruence|exact H1|].
      specialize (H2 (S (S t)) ltac:(lia)). rewrite reqs_of_cons in H2. exact H2.
    + exists ra, res1. right. reflexivity.
  - specialize (H2 (S (S u1)) ltac:(lia)). rewrite reqs_of_cons, Nat.eqb_refl in H2. discriminate.
Qed.

(* thread 0 polls once, thread 1 issues one request q (add_image, remove_image): in every schedule the poll returns
   what poll_inner returns on the subscription before q or on the subscription after q *)
Theorem poll_sees_before_or_after l rr lim q fuel sched : 0 <= rr ->
  let c0 : config I X := init_cfg l rr [[RPoll lim]; [q]] in
  let c := run pk true 2 fuel sched c0 in
  all_done 2 c = true ->
  let s0 := mkSub l rr in
  exists rp rq,
    (history (c_log c) = [(0%nat, RPoll lim, rp); (1%nat, q, rq)] /\ rp = poll_res (poll_inner pk s0 lim)) \/
    (history (c_log c) = [(1%nat, q, rq); (0%nat, RPoll lim, rp)] /\
     rp = poll_res (poll_inner pk (fst (seq_exec pk q s0)) lim)).
Proof.
  intros Hrr c0 c Hd s0.
  assert (Hi : initial c0). { unfold initial, c0, init_cfg. cbn. repeat split; auto. }
  assert (Hn : forall t, (2 <= t)%nat -> th_todo (c_thr c0 t) = []).
  { intros t Ht. cbn. destruct t as [|[|t]]; try lia. destruct t; reflexivity. }
  destruct (linearizable c0 2 fuel sched Hi Hn Hd) as [Hs Hq]. fold c in Hs, Hq.
  destruct (two_thread_shape (history (c_log c)) (RPoll lim) q (Hq 0%nat) (Hq 1%nat)) as (rp & rq & [H|H]).
  { intros t Ht. rewrite Hq. apply Hn. exact Ht. }
  - exists rp, rq. left. split; [exact H|]. rewrite H in Hs. cbn [map seq_run h_req h_res fst snd c0 init_cfg c_sh m_buf m_rr] in Hs.
    fold s0 in Hs. destruct (seq_exec pk (RPoll lim) s0) as [s1 res] eqn:E. destruct (seq_exec pk q s1) as [s2 res2].
    injection Hs as _ Hs _. cbn [seq_exec] in E. injection E as _ E. congruence.
  - exists rp, rq. right. split; [exact H|]. rewrite H in Hs. cbn [map seq_run h_req h_res fst snd c0 init_cfg c_sh m_buf m_rr] in Hs.
    fold s0 in Hs. destruct (seq_exec pk q s0) as [s1 res1]. cbn [fst].
    destruct (seq_exec pk (RPoll lim) s1) as [s2 res2] eqn:E.
    injection Hs as _ _ Hs. cbn [seq_exec] in E. injection E as _ E. congruence.
Qed.

Theorem poll_sees_old_or_new l rr lim fuel sched (q : req I) (l' : list I) : 0 <= rr ->
  (exists im, q = RAdd im /\ l' = l ++ [im]) \/ (exists p, q = RRemove p /\ l' = remove_first p l) ->
  let c := run pk true 2 fuel sched (init_cfg l rr [[RPoll lim]; [q]]) in
  all_done 2 c = true ->
  exists rp, In (0%nat, RPoll lim, rp) (history (c_log c)) /\
    (rp = poll_res (poll_inner pk (mkSub l rr) lim) \/ rp = poll_res (poll_inner pk (mkSub l' rr) lim)).
Proof.
  intros Hrr Hq c Hd.
  destruct (poll_sees_before_or_after l rr lim q fuel sched Hrr Hd) as (rp & rq & [[H E]|[H E]]); fold c in H.
  - exists rp. rewrite H. split; [left; reflexivity|]. left. exact E.
  - exists rp. rewrite H. split; [right; left; reflexivity|]. right. rewrite E.
    destruct Hq as [(im & -> & ->)|(p & -> & ->)]; reflexivity.
Qed.

(* ================= the drain finishes every thread ================= *)
Definition rank_after (sh : shared I) (r : req I) : nat :=
  match r with RPoll _ => 4 + 2 * length (m_buf sh) | _ => 5 end.
(* an upper bound of the steps the holder still needs for the request in flight *)
Definition rank (sh : shared I) (pc : pcs I X) : nat :=
  match pc with
  | Idle => 0
  | PUnlock _ => 1
  | AStore3 _ _ => 2
  | AStore2 _ _ _ => 3
  | AStore1 _ _ => 4
  | ACloneAdd _ | ACloneRem _ => 5
  | PLoop _ second start i hi _ _ _ => 2 + (hi - i) + (if second then 0 else 1 + start)
  | PRr _ => 4 + 2 * length (m_buf sh)
  | LdBegin r _ => 1 + rank_after sh r
  | LdEnd r => 2 + rank_after sh r
  end.

Lemma istep_rank r s sh pc sh' pc' ores :
  inflight r s sh pc -> istep pk true sh pc = (sh', pc', ores) -> (rank sh' pc' < rank sh pc)%nat.
Proof.
  intros Hin Hst. destruct pc; cbn [istep inflight] in *.
  - contradiction.
  - injection Hst as <- <- _. cbn [rank]. lia.
  - destruct Hin as (_ & (_ & _ & He) & ->). rewrite He, Z.eqb_refl in Hst. injection Hst as <- <- _.
    destruct r0; cbn [after_load rank rank_after]; lia.
  - unfold rr_next in Hst. destruct (m_rr sh >=? Z.of_nat (length (m_buf sh))) eqn:E;
      injection Hst as <- <- _; cbn [rank set_rr m_buf]; lia.
  - destruct (Nat.ltb i hi) eqn:Elt.
    + apply Nat.ltb_lt in Elt. destruct (poll_image pk (m_buf sh) i lim read xs polled) as [[[[b1 r1] x1] p1]|];
        injection Hst as <- <- _; cbn [rank]; destruct second; lia.
    + apply Nat.ltb_ge in Elt. destruct second; injection Hst as <- <- _; cbn [rank]; lia.
  - injection Hst as <- <- _. cbn [rank]. lia.
  - destruct (first_match p (m_buf sh) 0); injection Hst as <- <- _; cbn [rank]; lia.
  - injection Hst as <- <- _. cbn [rank]. lia.
  - injection Hst as <- <- _. cbn [rank]. lia.
  - injection Hst as <- <- _. cbn [rank]. lia.
  - injection Hst as <- <- _. cbn [rank]. lia.
Qed.

Lemma run_thread_stuck t c : tstep pk true t c = None -> forall m, run_thread pk true m t c = c.
Proof. intros H m. destruct m; cbn [run_thread]; [reflexivity|]. rewrite H. reflexivity. Qed.

Lemma tstep_other um u c c' t : tstep pk um u c = Some c' -> t <> u -> c_thr c' t = c_thr c t.
Proof. unfold tstep. cbv zeta. intros H Ht. apply Nat.eqb_neq in Ht.
  destruct (is_idle (th_pc (c_thr c u))).
  - destruct (th_todo (c_thr c u)); [discriminate|].
    destruct (if um then m_holder (c_sh c) else None); [discriminate|]. injection H as <-. cbn [c_thr]. unfold upd.
    rewrite Ht. reflexivity.
  - destruct (istep pk um (c_sh c) (th_pc (c_thr c u))) as [[sh' pc'] ores]. injection H as <-. cbn [c_thr].
    unfold upd. rewrite Ht. reflexivity. Qed.

Lemma done_stuck um t c : th_done (c_thr c t) = true -> tstep pk um t c = None.
Proof. unfold th_done, tstep. cbv zeta. intros H. apply andb_true_iff in H as [H1 H2]. rewrite H1.
  destruct (th_todo (c_thr c t)); [reflexivity|discriminate]. Qed.

Lemma done_stable um c c' t : reach pk um c c' -> th_done (c_thr c t) = true -> th_done (c_thr c' t) = true.
Proof. intros Hr Hd. induction Hr as [|c1 u c2 Hr IH Hs]; [exact Hd|].
  destruct (Nat.eq_dec t u) as [->|Hne].
  - rewrite (done_stuck um u c1 IH) in Hs. discriminate.
  - rewrite (tstep_other um u c1 c2 t Hs Hne). exact IH. Qed.

Section Drain.
Variable c0 : config I X.
Hypothesis Hinit : initial c0.

Lemma finish_request : forall k c t, reach pk true c0 c -> m_holder (c_sh c) = Some t ->
  (rank (c_sh c) (th_pc (c_thr c t)) <= k)%nat ->
  exists j c', (forall m, run_thread pk true (j + m) t c = run_thread pk true m t c') /\ reach pk true c c' /\
               m_holder (c_sh c') = None /\ th_todo (c_thr c' t) = th_todo (c_thr c t).
Proof.
  induction k as [|k IH]; intros c t Hr Hh Hk;
    destruct (reach_inv c0 c Hinit Hr) as (d & s & [Hseq Hrr Hst]); rewrite Hh in Hst;
    destruct Hst as (r & Hlog & Hidle & Hin).
  - destruct (th_pc (c_thr c t)); cbn [inflight rank rank_after] in *; try contradiction; try lia.
  - destruct (istep pk true (c_sh c) (th_pc (c_thr c t))) as [[sh' pc'] ores] eqn:Ei.
    pose proof (istep_inflight _ _ _ _ _ _ _ Hrr Hin Ei) as Hi.
    pose proof (istep_rank _ _ _ _ _ _ _ Hin Ei) as Hrk.
    assert (Hs : tstep pk true t c = Some (mkCfg sh' (upd (c_thr c) t (mkTh (th_todo (c_thr c t)) pc'))
                   (match ores with Some res => fill t res (c_log c) | None => c_log c end))).
    { unfold tstep. cbv zeta. rewrite (inflight_not_idle _ _ _ _ Hin), Ei. reflexivity. }
    set (c1 := mkCfg sh' _ _) in Hs.
    assert (Hr1 : reach pk true c c1) by (econstructor; [constructor|exact Hs]).
    destruct ores as [res|].
    + destruct Hi as (_ & Hh' & _). exists 1%nat, c1. split; [|split; [exact Hr1|split]].
      * intros m. cbn [Nat.add run_thread]. rewrite Hs. reflexivity.
      * exact Hh'.
      * unfold c1. cbn [c_thr]. unfold upd. rewrite Nat.eqb_refl. reflexivity.
    + destruct Hi as (_ & Hh').
      destruct (IH c1 t) as (j & c' & Hj & Hr' & Hn & Ht).
      * eapply reach_trans; eassumption.
      * unfold c1. cbn [c_sh]. rewrite Hh'. exact Hh.
      * unfold c1. cbn [c_sh c_thr]. unfold upd. rewrite Nat.eqb_refl. cbn [th_pc]. lia.
      * exists (S j), c'. split; [|split; [eapply reach_trans; eassumption|split; [exact Hn|]]].
        -- intros m. cbn [Nat.add run_thread]. rewrite Hs. apply Hj.
        -- rewrite Ht. unfold c1. cbn [c_thr]. unfold upd. rewrite Nat.eqb_refl. reflexivity.
Qed.

Lemma finish_thread : forall todo c t, reach pk true c0 c -> m_holder (c_sh c) = None ->
  th_todo (c_thr c t) = todo ->
  exists j c', (forall m, run_thread pk true (j + m) t c = c') /\ reach pk true c c' /\
               m_holder (c_sh c') = None /\ th_done (c_thr c' t) = true.
Proof.
  induction todo as [|r rest IH]; intros c t Hr Hh Ht;
    destruct (reach_inv c0 c Hinit Hr) as (d & s & [Hseq Hrr Hst]); rewrite Hh in Hst;
    destruct Hst as (Hlog & Hidle & Hpre).
  - assert (Hd : th_done (c_thr c t) = true) by (unfold th_done; rewrite Hidle, Ht; reflexivity).
    exists O, c. split; [|split; [constructor|split; assumption]].
    intros m. apply run_thread_stuck. apply done_stuck. exact Hd.
  - assert (Hs : tstep pk true t c = Some (mkCfg (set_holder (c_sh c) (Some t))
                   (upd (c_thr c) t (mkTh rest (LdEnd r))) (c_log c ++ [(t, r, None)]))).
    { unfold tstep. cbv zeta. rewrite Hidle, Ht, Hh. reflexivity. }
    set (c1 := mkCfg _ _ _) in Hs.
    assert (Hr1 : reach pk true c c1) by (econstructor; [constructor|exact Hs]).
    destruct (finish_request (rank (c_sh c1) (th_pc (c_thr c1 t))) c1 t) as (j1 & c2 & Hj1 & Hr2 & Hh2 & Ht2).
    { eapply reach_trans; eassumption. } { reflexivity. } { lia. }
    destruct (IH c2 t) as (j2 & c3 & Hj2 & Hr3 & Hh3 & Hd3).
    { eapply reach_trans; [eassumption|]. eapply reach_trans; eassumption. } { exact Hh2. }
    { rewrite Ht2. unfold c1. cbn [c_thr]. unfold upd. rewrite Nat.eqb_refl. reflexivity. }
    exists (S (j1 + j2)), c3. split; [|split; [|split; assumption]].
    + intros m. cbn [Nat.add run_thread]. rewrite Hs. rewrite <- Nat.add_assoc. rewrite Hj1. apply Hj2.
    + eapply reach_trans; [eassumption|]. eapply reach_trans; eassumption.
Qed.

Lemma solo_thread c t : reach pk true c0 c ->
  exists j c', (forall m, run_thread pk true (j + m) t c = c') /\ reach pk true c c' /\
    (m_holder (c_sh c) = None \/ m_holder (c_sh c) = Some t ->
       m_holder (c_sh c') = None /\ th_done (c_thr c' t) = true) /\
    (forall h, m_holder (c_sh c) = Some h -> h <> t -> c' = c).
Proof.
  intros Hr. destruct (m_holder (c_sh c)) as [h|] eqn:Hh.
  - destruct (Nat.eq_dec h t) as [->|Hne].
    + destruct (finish_request (rank (c_sh c) (th_pc (c_thr c t))) c t Hr Hh (Nat.le_refl _))
        as (j1 & c2 & Hj1 & Hr2 & Hh2 & Ht2).
      destruct (finish_thread (th_todo (c_thr c2 t)) c2 t) as (j2 & c3 & Hj2 & Hr3 & Hh3 & Hd3).
      { eapply reach_trans; eassumption. } { exact Hh2. } { reflexivity. }
      exists (j1 + j2)%nat, c3. split; [|split; [eapply reach_trans; eassumption|split]].
      * intros m. rewrite <- Nat.add_assoc. rewrite Hj1. apply Hj2.
      * intros _. split; assumption.
      * intros h H. injection H as <-. intros H. contradiction.
    + destruct (reach_inv c0 c Hinit Hr) as (d & s & [Hseq Hrr Hst]). rewrite Hh in Hst.
      destruct Hst as (r & Hlog & Hidle & Hin).
      exists O, c. split; [|split; [constructor|split]].
      * intros m. apply run_thread_stuck. unfold tstep. cbv zeta. rewrite (Hidle t (not_eq_sym Hne)). cbn [is_idle].
        rewrite Hh. destruct (th_todo (c_thr c t)); reflexivity.
      * intros [H|H]; [discriminate|]. injection H as ->. contradiction.
      * reflexivity.
  - destruct (finish_thread (th_todo (c_thr c t)) c t Hr Hh eq_refl) as (j & c' & Hj & Hr' & Hh' & Hd').
    exists j, c'. split; [exact Hj|]. split; [exact Hr'|]. split; [intros _; split; assumption|]. discriminate.
Qed.

Lemma solo_pass : forall ts c, reach pk true c0 c ->
  exists j c', (forall fuel, (j <= fuel)%nat -> drain_pass pk true fuel ts c = c') /\ reach pk true c c' /\
    (m_holder (c_sh c) = None \/ (exists h, m_holder (c_sh c) = Some h /\ In h ts) -> m_holder (c_sh c') = None) /\
    (m_holder (c_sh c) = None -> forall t, In t ts -> th_done (c_thr c' t) = true).
Proof.
  induction ts as [|t rest IH]; intros c Hr.
  - exists O, c. split; [reflexivity|]. split; [constructor|]. split.
    + intros [H|(h & _ & [])]. exact H.
    + intros _ t [].
  - destruct (solo_thread c t Hr) as (j1 & c1 & Hj1 & Hr1 & Hown & Hoth).
    destruct (IH c1 (reach_trans _ _ _ _ Hr Hr1)) as (j2 & c2 & Hj2 & Hr2 & Hfree & Hdone).
    exists (Nat.max j1 j2), c2. split; [|split; [eapply reach_trans; eassumption|split]].
    + intros fuel Hf. cbn [drain_pass]. replace fuel with (j1 + (fuel - j1))%nat at 2 by lia. rewrite Hj1.
      apply Hj2. lia.
    + intros [H|(h & H & Hin)].
      * apply Hfree. left. apply Hown. left. exact H.
      * destruct (Nat.eq_dec h t) as [->|Hne].
        -- apply Hfree. left. apply Hown. right. exact H.
        -- destruct Hin as [Hin|Hin]; [congruence|]. rewrite (Hoth h H Hne) in Hfree. apply Hfree. right.
           exists h. split; assumption.
    + intros H u [<-|Hin].
      * eapply done_stable; [exact Hr2|]. apply Hown. left. exact H.
      * apply Hdone; [|exact Hin]. apply Hown. left. exact H.
Qed.

Theorem drain_completes n sched : (forall t, (n <= t)%nat -> th_todo (c_thr c0 t) = []) ->
  exists f0, forall fuel, (f0 <= fuel)%nat -> all_done n (run pk true n fuel sched c0) = true.
Proof.
  intros Hn. set (c := run_sched pk true sched c0).
  assert (Hr : reach pk true c0 c) by apply reach_run_sched.
  destruct (solo_pass (seq 0 n) c Hr) as (j1 & c1 & Hj1 & Hr1 & Hfree1 & _).
  assert (Hh1 : m_holder (c_sh c1) = None).
  { apply Hfree1. destruct (m_holder (c_sh c)) as [h|] eqn:Hh; [right|left; reflexivity].
    exists h. split; [reflexivity|]. apply in_seq.
    destruct (Nat.lt_ge_cases h n) as [Hlt|Hge]; [lia|]. exfalso.
    destruct (reach_inv c0 c Hinit Hr) as (d & s & [Hseq Hrr Hst]). rewrite Hh in Hst.
    destruct Hst as (r & Hlog & _). destruct Hinit as (_ & _ & _ & _ & Hl0).
    pose proof (prog_order true c0 c Hl0 Hr h) as Hp. rewrite (Hn h Hge), Hlog, log_reqs_snoc, Nat.eqb_refl in Hp.
    apply app_eq_nil in Hp as [Hp _]. apply app_eq_nil in Hp as [_ Hp]. discriminate. }
  destruct (solo_pass (seq 0 n) c1 (reach_trans _ _ _ _ Hr Hr1)) as (j2 & c2 & Hj2 & Hr2 & Hfree2 & Hdone2).
  exists (Nat.max j1 j2). intros fuel Hf. unfold run, drain. fold c. rewrite (Hj1 fuel ltac:(lia)), (Hj2 fuel ltac:(lia)).
  unfold all_done. rewrite (Hfree2 (or_introl Hh1)). cbn [andb]. apply forallb_forall. intros t Ht.
  apply Hdone2; assumption.
Qed.
End Drain.
End Threads.

(* ================= 4. the sequence numbers alone ================= *)
(* images are numbers: id * 100 + fragments consumed; a poll of an image consumes one fragment and hands the image
   state to the handler *)
Definition wpk (im lim : Z) : Z * Z * list Z := (1, im + 1, [im]).
Definition is_id1 (x : Z) : bool := x / 100 =? 1.
(* thread 0 (application): one poll; thread 1 (conductor): remove_image of image 1, the first of the list *)
Definition wcfg (lim : Z) : config Z Z := init_cfg [100; 200; 300] 0 [[RPoll lim]; [RRemove is_id1]].
Definition results (t : nat) (c : config Z Z) : list (result Z Z) :=
  map h_res (filter (fun e => Nat.eqb (h_tid e) t) (history (c_log c))).
Definition order (c : config Z Z) : list nat := map h_tid (history (c_log c)).
Definition final (c : config Z Z) : list Z * Z * Z * Z :=
  (m_buf (c_sh c), m_begin (c_sh c), m_end (c_sh c), m_rr (c_sh c)).
(* the poller loads the list (both seqlock reads agree: nothing is being stored), fixes its index ranges for three
   images [and polls image 0]; then the whole remove runs; then the poller goes on *)
Definition s_panic : list nat := [0;0;0;0; 1;1;1;1;1;1;1;1]%nat.
Definition s_mix : list nat := [0;0;0;0;0; 1;1;1;1;1;1;1;1]%nat.

Lemma wpk_ok : forall im l, 0 < l -> 0 <= fst (fst (wpk im l)) <= l.
Proof. intros im l H. cbn [wpk fst]. lia. Qed.

Lemma wcfg_initial lim : initial (wcfg lim).
Proof. unfold initial, wcfg, init_cfg. cbn [c_sh c_thr c_log m_holder m_begin m_end m_rr th_pc].
  repeat split; try reflexivity; lia. Qed.

Lemma wcfg_two lim : forall t, (2 <= t)%nat -> th_todo (c_thr (wcfg lim) t) = [].
Proof. intros t Ht. destruct t as [|[|[|t]]]; try lia; reflexivity. Qed.

(* without the mutex: (a) the poll panics on index 2, computed for the old three-element list, the live buf having
   two elements by then; (b) with fragment_limit 2 the poll hands the handler image 1 (old list, removed meanwhile)
   and image 3 (index 1 of the NEW list) and skips image 2, which is in both lists: neither poll_inner of the old
   list nor of the new one.  In both runs every seqlock comparison of the poller succeeded. *)
Theorem seqlock_alone_not_enough :
  (let c := run wpk false 2 30 s_panic (wcfg 10) in
   all_done 2 c = true /\ results 0 c = [RsPanic] /\
   results 1 c = [RsRemove (Some ([100; 200; 300], 0))] /\ final c = ([201; 301], 0, 0, 1)) /\
  (let c := run wpk false 2 30 s_mix (wcfg 2) in
   all_done 2 c = true /\ results 0 c = [RsPoll 2 [100; 300] [0; 1]] /\
   results 1 c = [RsRemove (Some ([101; 200; 300], 0))] /\ final c = ([200; 301], 0, 0, 1) /\
   poll_res (poll_inner wpk (mkSub [100; 200; 300] 0) 2) = RsPoll 2 [100; 200] [0; 1] /\
   poll_res (poll_inner wpk (mkSub [200; 300] 0) 2) = RsPoll 2 [200; 300] [0; 1]).
Proof. vm_compute. repeat split; reflexivity. Qed.

(* the same two schedules with the mutex: the conductor thread waits in front of the lock, the poll is the one of
   the old list and the remove comes after it *)
Example mutex_same_schedules :
  (let c := run wpk true 2 30 s_panic (wcfg 10) in
   all_done 2 c = true /\ order c = [0; 1]%nat /\ results 0 c = [RsPoll 3 [100; 200; 300] [0; 1; 2]] /\
   results 1 c = [RsRemove (Some ([101; 201; 301], 0))] /\ final c = ([201; 301], 0, 0, 1)) /\
  (let c := run wpk true 2 30 s_mix (wcfg 2) in
   all_done 2 c = true /\ order c = [0; 1]%nat /\ results 0 c = [RsPoll 2 [100; 200] [0; 1]] /\
   results 1 c = [RsRemove (Some ([101; 201; 300], 0))] /\ final c = ([201; 300], 0, 0, 1)).
Proof. vm_compute. repeat split; reflexivity. Qed.

(* ================= 5. instances ================= *)
(* mutex_invariant: a configuration with thread 0 inside its poll and thread 1 parked in front of the lock; and one
   inside a store, where begin_change <> end_change (the premise of the third part is needed) *)
Example mutex_invariant_example :
  let c := run_sched wpk true [0; 0; 0; 0; 1; 1]%nat (wcfg 10) in
  m_holder (c_sh c) = Some 0%nat /\ in_cs (th_pc (c_thr c 0%nat)) = true /\ in_cs (th_pc (c_thr c 1%nat)) = false /\
  m_begin (c_sh c) = m_end (c_sh c).
Proof. vm_compute. repeat split; reflexivity. Qed.
Example mutex_invariant_store_example :
  let c := run_sched wpk true [1; 1; 1; 1; 1; 0]%nat (wcfg 10) in
  m_holder (c_sh c) = Some 1%nat /\ in_store (th_pc (c_thr c 1%nat)) = true /\
  (m_begin (c_sh c), m_end (c_sh c)) = (0, -1) /\ th_pc (c_thr c 0%nat) = Idle.
Proof. vm_compute. repeat split; reflexivity. Qed.
Example mutex_invariant_instance :
  let c := run_sched wpk true [0; 0; 0; 0; 1; 1]%nat (wcfg 10) in
  forall t, in_cs (th_pc (c_thr c t)) = true <-> m_holder (c_sh c) = Some t.
Proof. intros c. apply (mutex_invariant wpk (wcfg 10) c (wcfg_initial 10)). apply reach_run_sched. Qed.

(* load_never_spins: thread 0 between its two seqlock reads *)
Example load_never_spins_example :
  let c := run_sched wpk true [0; 0]%nat (wcfg 10) in
  th_pc (c_thr c 0%nat) = LdBegin (RPoll 10) (-1) /\ m_begin (c_sh c) = -1.
Proof. vm_compute. split; reflexivity. Qed.

Example load_never_spins_instance :
  let c := run_sched wpk true [0; 0]%nat (wcfg 10) in
  m_begin (c_sh c) = -1 /\
  exists c', tstep wpk true 0%nat c = Some c' /\ th_pc (c_thr c' 0%nat) = after_load (RPoll 10).
Proof. intros c. apply (load_never_spins wpk (wcfg 10) c 0%nat (RPoll 10) (-1) (wcfg_initial 10)).
  - apply reach_run_sched.
  - vm_compute. reflexivity. Qed.

(* linearizable: the conductor gets the lock first, the threads alternate from then on; the history is remove,
   poll and everything equals the sequential execution in that order *)
Definition s_alt : list nat := [1; 0; 1; 0; 1; 0; 1; 0; 1; 0; 1; 0; 1; 0; 1; 0; 1; 0]%nat.
Example linearizable_example :
  let c := run wpk true 2 30 s_alt (wcfg 10) in
  all_done 2 c = true /\ order c = [1; 0]%nat /\
  (let '(s, out) := seq_run wpk [RRemove is_id1; RPoll 10] (mkSub [100; 200; 300] 0) in
   (s_images s, s_rr s, out) = (m_buf (c_sh c), m_rr (c_sh c), results 1 c ++ results 0 c)) /\
  results 0 c = [RsPoll 2 [200; 300] [0; 1]].
Proof. vm_compute. repeat split; reflexivity. Qed.
Example linearizable_instance :
  let c := run wpk true 2 30 s_alt (wcfg 10) in
  seq_run wpk (map h_req (history (c_log c))) (mkSub [100; 200; 300] 0)
  = (mkSub (m_buf (c_sh c)) (m_rr (c_sh c)), map h_res (history (c_log c))).
Proof. intros c. apply (linearizable wpk (wcfg 10) 2 30 s_alt (wcfg_initial 10) (wcfg_two 10)).
  vm_compute. reflexivity. Qed.
Example drain_completes_instance :
  exists f0, forall fuel, (f0 <= fuel)%nat -> all_done 2 (run wpk true 2 fuel s_alt (wcfg 10)) = true.
Proof. apply (drain_completes wpk (wcfg 10) (wcfg_initial 10) 2 s_alt (wcfg_two 10)). Qed.
Example no_panic_example :
  let c := run wpk true 2 30 s_panic (wcfg 10) in length (history (c_log c)) = 2%nat.
Proof. vm_compute. reflexivity. Qed.
Example no_panic_instance :
  forall e, In e (history (c_log (run wpk true 2 30 s_panic (wcfg 10)))) -> h_res e <> RsPanic.
Proof. apply (no_panic wpk (wcfg 10) _ (wcfg_initial 10)). apply reach_run. Qed.

(* poll_sees_old_or_new: both alternatives occur.  Empty schedule: the drain runs thread 0 first (old list);
   schedule [1]: the conductor locks first (new list), for remove and for add *)
Example poll_sees_old_example :
  results 0 (run wpk true 2 30 [] (wcfg 10)) = [poll_res (poll_inner wpk (mkSub [100; 200; 300] 0) 10)].
Proof. vm_compute. reflexivity. Qed.
Example poll_sees_new_example :
  results 0 (run wpk true 2 30 [1]%nat (wcfg 10)) = [poll_res (poll_inner wpk (mkSub [200; 300] 0) 10)].
Proof. vm_compute. reflexivity. Qed.
Example poll_sees_new_add_example :
  let c := run wpk true 2 30 [1; 0; 0; 1; 1]%nat (init_cfg [100; 200] 1 [[RPoll 10]; [RAdd 300]]) in
  all_done 2 c = true /\ order c = [1; 0]%nat /\
  results 0 c = [poll_res (poll_inner wpk (mkSub [100; 200; 300] 1) 10)] /\
  results 0 c = [RsPoll 3 [200; 300; 100] [1; 2; 0]] /\ final c = ([101; 201; 301], 0, 0, 2).
Proof. vm_compute. repeat split; reflexivity. Qed.
Example poll_sees_old_or_new_instance :
  let c := run wpk true 2 30 s_alt (wcfg 10) in
  exists rp, In (0%nat, RPoll 10, rp) (history (c_log c)) /\
    (rp = poll_res (poll_inner wpk (mkSub [100; 200; 300] 0) 10) \/
     rp = poll_res (poll_inner wpk (mkSub [200; 300] 0) 10)).
Proof. intros c.
  apply (poll_sees_old_or_new wpk [100; 200; 300] 0 10 30 s_alt (RRemove is_id1) [200; 300]); [lia| |].
  - right. exists is_id1. split; reflexivity.
  - vm_compute. reflexivity. Qed.

(* poll_round_nodup: a completed poll in a reachable configuration *)
Example poll_round_nodup_instance :
  let c := run wpk true 2 30 s_alt (wcfg 10) in
  NoDup [0; 1] /\ In (0%nat, RPoll 10, RsPoll 2 [200; 300] [0; 1] : result Z Z) (history (c_log c)).
Proof. intros c.
  assert (H : In (0%nat, RPoll 10, RsPoll 2 [200; 300] [0; 1] : result Z Z) (history (c_log c))).
  { vm_compute. right. left. reflexivity. }
  split; [|exact H].
  destruct (poll_round_nodup wpk (wcfg 10) c 0%nat 10 2 [200; 300] [0; 1] wpk_ok (wcfg_initial 10)
              (reach_run wpk true 2 30 s_alt (wcfg 10)) H) as (_ & _ & _ & _ & _ & _ & Hn & _).
  exact Hn. Qed.

Print Assumptions mutex_invariant.
Print Assumptions load_never_spins.
Print Assumptions linearizable_reach.
Print Assumptions linearizable.
Print Assumptions drain_completes.
Print Assumptions no_panic.
Print Assumptions poll_round_nodup.
Print Assumptions poll_sees_before_or_after.
Print Assumptions poll_sees_old_or_new.
Print Assumptions seqlock_alone_not_enough.
