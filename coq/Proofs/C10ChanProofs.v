(* The channel-endpoint judge of the C10 oracle (the error handler is told of a channel endpoint error exactly when a live
   resource sits on that channel status indicator) on the model's own observations, for every history. *)
Require Import V.Base.MachineInt.
Require Import V.Generated.GenConsts.
Require Import V.Model.Conductor.
Require Import V.Proofs.ConductorBase.
Require Import V.Proofs.ConductorInv.
Require Import V.Proofs.ConductorProofs.
Require Import V.Proofs.ConductorClose.
Require Import V.Oracle.C09Oracle.
Require Import V.Proofs.C09OracleProofs.
Require Import V.Oracle.C10Oracle.
Require Import V.Proofs.C10OracleProofs.
Require Import V.Proofs.C10CountersProofs.
From Coq Require Import ZifyBool.
Open Scope Z_scope.

Lemma rlookup_in k r l x : rlookup k r l = Some x -> In (k, r, x) l.
Proof. induction l as [|[[k2 r2] y] l IH]; cbn; [discriminate|].
  destruct (kind_eqb k2 k && (r2 =? r)) eqn:E.
  - intros H. inversion H; subst. apply andb_prop in E. destruct E as [E1 E2]. apply kind_eqb_eq in E1. subst. left. f_equal. f_equal. lia.
  - intros H. right. auto. Qed.

(* the error-handler call for one live resource on the channel *)
Lemma chan_cbs_hit k x m r e o : In (r, e) m -> chan_hit k x e = Some o -> In (CbErr (EChannelEndpoint x)) (chan_cbs k x m).
Proof. intros Hin Hh. unfold chan_cbs. apply in_flat_map. exists (r, e). split; [exact Hin|]. cbn [fst snd]. rewrite Hh. left. reflexivity. Qed.

Lemma chan_cbs_err k x m y : In (CbErr (EChannelEndpoint y)) (chan_cbs k x m) -> exists r e o, In (r, e) m /\ chan_hit k x e = Some o.
Proof. unfold chan_cbs. intros H. apply in_flat_map in H. destruct H as ([r e] & Hin & Hx). cbn [fst snd] in Hx.
  destruct (chan_hit k x e) as [o|] eqn:Eh; [|destruct Hx]. eauto. Qed.

Lemma lookup_in (m : amap) r e : lookup r m = Some e -> In (r, e) m.
Proof. induction m as [|[k2 e2] m IH]; cbn; [discriminate|]. destruct (k2 =? r) eqn:E; auto.
  intros H. inversion H; subst. left. f_equal. lia. Qed.

Lemma on_chan_error_errs x s y :
  In (CbErr (EChannelEndpoint y)) (snd (fst (on_chan_error x s))) <->
  exists k r e o, (k = KSub \/ k = KPub \/ k = KXPub) /\ In (r, e) (getm k s) /\ chan_hit k x e = Some o /\ y = x.
Proof. unfold on_chan_error. cbn [fst snd]. split.
  - intros H. assert (y = x).
    { apply in_app_or in H. destruct H as [H|H]; [|apply in_app_or in H; destruct H as [H|H]];
        apply chan_cbs_shape in H; destruct H as [H|(r & i & H)]; try discriminate; inversion H; reflexivity. }
    subst y. apply in_app_or in H. destruct H as [H|H]; [|apply in_app_or in H; destruct H as [H|H]];
      apply chan_cbs_err in H; destruct H as (r & e & o & Hin & Hh).
    + exists KSub, r, e, o. auto.
    + exists KPub, r, e, o. auto.
    + exists KXPub, r, e, o. auto 6.
  - intros (k & r & e & o & Hk & Hin & Hh & ->). destruct Hk as [ -> | [ -> | -> ] ]; cbn [getm] in Hin.
    + apply in_or_app. left. eapply chan_cbs_hit; eauto.
    + apply in_or_app. right. apply in_or_app. left. eapply chan_cbs_hit; eauto.
    + apply in_or_app. right. apply in_or_app. right. eapply chan_cbs_hit; eauto. Qed.

(* what the duty cycle that receives the error reports *)
Lemma do_work_chan c y s :
  (exists l, fst (fst (snd (do_work c (BEvent (EvChanError y)) s))) = Ok l) /\
  has_err (EChannelEndpoint y) (snd (fst (snd (do_work c (BEvent (EvChanError y)) s)))) =
  has_err (EChannelEndpoint y) (snd (fst (on_chan_error y s))).
Proof. unfold do_work. cbn [on_event]. pose proof (on_chan_error_no_hang y s) as Y1.
  destruct (on_chan_error y s) as [[s1 cbs1] h1]. cbn [fst snd] in *. subst h1.
  pose proof (heartbeat_check_no_hang c s1) as Y. pose proof (heartbeat_check_no_chan c s1 y) as N.
  destruct (heartbeat_check c s1) as [[[s2 cbs2] h2] rr]. cbn [fst snd] in *. subst h2. cbn [fst snd]. split; [eauto|].
  rewrite has_err_app. destruct (has_err (EChannelEndpoint y) cbs2) eqn:E; [|apply Bool.orb_false_r].
  apply has_err_in in E. tauto. Qed.

(* the automaton's registrations against the model's maps at the moment the error arrives *)
Lemma chan_judge_ok c0 q s y :
  inv s -> Rel c0 q s -> NoDup (reg_ids (q_regs q)) ->
  (if q_closed q then negb (has_err (EChannelEndpoint y) (snd (fst (on_chan_error y s))))
   else if existsb (chan_hits y) (q_regs q) then has_err (EChannelEndpoint y) (snd (fst (on_chan_error y s)))
   else if existsb chan_unknown (q_regs q) then true
   else negb (has_err (EChannelEndpoint y) (snd (fst (on_chan_error y s))))) = true.
Proof. intros I R Hn. rewrite (R_closed _ _ _ R). destruct (closed s) eqn:Hc.
  { (* closed: nothing is registered *)
    apply Bool.negb_true_iff. destruct (has_err (EChannelEndpoint y) (snd (fst (on_chan_error y s)))) eqn:E; auto.
    apply has_err_in, on_chan_error_errs in E. destruct E as (k & r & e & o & Hk & Hin & _).
    destruct I as (_ & _ & I3 & _). rewrite (I3 Hc k) in Hin by (destruct Hk as [ -> | [ -> | -> ] ]; congruence). destruct Hin. }
  pose proof (R_pt _ _ _ R Hc) as P.
  destruct (existsb (chan_hits y) (q_regs q)) eqn:Eh.
  { (* a live resource the automaton knows of: its error-handler call is there *)
    apply existsb_exists in Eh. destruct Eh as ([[k r] l] & Hin & Hh). apply has_err_in, on_chan_error_errs.
    pose proof (nodup_rlookup _ Hn k r l Hin) as Hl. specialize (P k r). rewrite Hl in P. cbn [pt] in P.
    unfold chan_hits in Hh. cbn [fst snd] in Hh.
    destruct l as [t a1 a2|h d1 d2 d3|cd| |]; cbn [chan_tr] in Hh; try discriminate.
    destruct k; try discriminate.
    - (* publication: looked up and held *) destruct h as [h|]; [|discriminate]. destruct (d2 =? wrap32 y) eqn:E; [|discriminate].
      cbn [rel_entry] in P. destruct P as (_ & e & o & He & Ho & _ & _ & _ & H2 & _).
      exists KPub, r, e, o. repeat split; auto. { apply lookup_in. exact He. }
      unfold chan_hit. rewrite Ho. cbn [chan_id]. rewrite H2, E. reflexivity.
    - destruct h as [h|]; [|discriminate]. destruct (d2 =? wrap32 y) eqn:E; [|discriminate].
      cbn [rel_entry] in P. destruct P as (_ & e & o & He & Ho & _ & _ & _ & H2 & _).
      exists KXPub, r, e, o. repeat split; auto. { apply lookup_in. exact He. }
      unfold chan_hit. rewrite Ho. cbn [chan_id]. rewrite H2, E. reflexivity.
    - (* subscription: cached or held *) destruct (d1 =? wrap32 y) eqn:E; [|destruct h; discriminate].
      destruct h as [h|]; cbn [rel_entry] in P.
      + destruct P as (_ & e & o & He & Ho & _ & _ & H1 & _).
        exists KSub, r, e, o. repeat split; auto. { apply lookup_in. exact He. }
        unfold chan_hit. rewrite Ho. cbn [chan_id]. rewrite H1, E. reflexivity.
      + destruct P as (e & He & o & Ho & _ & H1 & _).
        exists KSub, r, e, o. repeat split; auto. { apply lookup_in. exact He. }
        unfold chan_hit. rewrite Ho. cbn [chan_id]. rewrite H1, E. reflexivity. }
  destruct (existsb chan_unknown (q_regs q)) eqn:Eu; [reflexivity|].
  (* no live resource on the channel, every registration in a known state: no call *)
  apply Bool.negb_true_iff. destruct (has_err (EChannelEndpoint y) (snd (fst (on_chan_error y s)))) eqn:E; auto. exfalso.
  apply has_err_in, on_chan_error_errs in E. destruct E as (k & r & e & o & Hk & Hin & Hh & _).
  pose proof (in_map_entry _ _ _ Hin (proj1 (inv_map_ok s k I))) as Hl.
  apply chan_hit_some in Hh. destruct Hh as [Ho Hid].
  specialize (P k r). rewrite Hl in P.
  destruct (rlookup k r (q_regs q)) as [l|] eqn:Er; cbn [pt] in P; [|discriminate].
  apply rlookup_in in Er.
  assert (Hnh : chan_hits y (k, r, l) = false).
  { destruct (chan_hits y (k, r, l)) eqn:X; auto. rewrite <- Eh. symmetry. apply existsb_exists. eauto. }
  assert (Hnu : chan_unknown (k, r, l) = false).
  { destruct (chan_unknown (k, r, l)) eqn:X; auto. rewrite <- Eu. symmetry. apply existsb_exists. eauto. }
  unfold chan_hits in Hnh. cbn [fst snd] in Hnh.
  destruct l as [t a1 a2|h d1 d2 d3|cd| |]; cbn [rel_entry chan_tr] in *.
  - destruct P as (e0 & H0 & _ & Hno & _). inversion H0; subst. congruence.
  - destruct h as [h|].
    + destruct P as (_ & e0 & o0 & H0 & Ho0 & _ & _ & H1 & H2 & _). inversion H0; subst e0. rewrite Ho in Ho0. inversion Ho0; subst o0.
      destruct Hk as [ -> | [ -> | -> ] ]; cbn [chan_id] in Hid; rewrite ?H1, ?H2 in Hid; rewrite Hid, Z.eqb_refl in Hnh; discriminate.
    + destruct P as (e0 & H0 & P). inversion H0; subst e0. destruct Hk as [ -> | [ -> | -> ] ].
      * destruct P as (o0 & Ho0 & _ & H1 & _). rewrite Ho in Ho0. inversion Ho0; subst o0. cbn [chan_id] in Hid. rewrite H1 in Hid.
        rewrite Hid, Z.eqb_refl in Hnh. discriminate.
      * destruct P as (_ & Hno & _). congruence.
      * destruct P as (_ & Hno & _). congruence.
  - destruct P as (e0 & H0 & _ & _ & Hno). inversion H0; subst. congruence.
  - discriminate.
  - destruct Hk as [ -> | [ -> | -> ] ]; discriminate. Qed.

Lemma chan_run c0 tdrv tis ops : forall q s,
  inv s -> Rel c0 q s -> NoDup (reg_ids (q_regs q)) ->
  c10_chan_run c0 tdrv (ring_full s) q ops (snd (run (mkCfg tdrv tis) s ops)) = true.
Proof. induction ops as [|o ops IH]; intros q s I R Hn; cbn; auto.
  destruct (sim_step c0 tdrv tis q s o I R) as (q' & Hs & R').
  pose proof (step_inv (mkCfg tdrv tis) s o I) as I'.
  pose proof (c09_step_ids _ _ _ _ _ _ _ Hs) as Hids. pose proof (ids_step_nodup q q' (R_ids _ _ _ R) Hn Hids) as Hn'.
  pose proof (step_ring_full (mkCfg tdrv tis) s o) as Hrf.
  assert (Hok : match o, fst (fst (snd (step (mkCfg tdrv tis) s o))) with
                | DoWork (BEvent (EvChanError y)), Ok _ =>
                    if q_closed q then negb (has_err (EChannelEndpoint y) (snd (fst (snd (step (mkCfg tdrv tis) s o)))))
                    else if existsb (chan_hits y) (q_regs q) then has_err (EChannelEndpoint y) (snd (fst (snd (step (mkCfg tdrv tis) s o))))
                    else if existsb chan_unknown (q_regs q) then true
                    else negb (has_err (EChannelEndpoint y) (snd (fst (snd (step (mkCfg tdrv tis) s o)))))
                | _, _ => true
                end = true).
  { destruct o; try reflexivity. destruct b; try reflexivity. destruct e; try reflexivity. cbn [step].
    destruct (do_work_chan (mkCfg tdrv tis) x s) as [(l & Hl) Hh]. rewrite Hl, Hh. apply (chan_judge_ok c0); auto. }
  destruct (step (mkCfg tdrv tis) s o) as [s1 [[r cbs] cmds]] eqn:Es. cbn [fst snd] in *.
  specialize (IH q' s1 I' R' Hn'). destruct (run (mkCfg tdrv tis) s1 ops) as [s2 xs]. cbn [snd] in *.
  rewrite Hs. cbn [fst snd]. rewrite Hok. rewrite <- Hrf. exact IH. Qed.

(* the channel-endpoint judge of the C10 oracle holds on the model's own observations, for every history *)
Theorem c10_chan_model c0 now0 tdrv tis ops : c10_chan_run c0 tdrv false (oinit c0 now0) ops (run_obs c0 now0 tdrv tis ops) = true.
Proof. unfold run_obs. apply (chan_run c0 tdrv tis ops (oinit c0 now0) (init c0 now0)); [apply init_inv|apply rel_init|constructor]. Qed.
