(* C01, part 4: the refinement.  `sys_rep` relates a state of the composed system (Model/StreamSys.v) to a state of the
   abstract machine (Spec/Stream.v): log_represents (log_rep + cursor_rep), hist_rep, the flow-control window and the
   bookkeeping of the open claim.  `sys_step_rep`: every step of the system whose environment keeps the contract
   (`env_ok`) is matched by `spec_step` on the event the outside world sees.

   The publisher flavour enters only through `flavour_ok`: what an offer / a claim does to the log (`append_effect`:
   refused and nothing changes, or entries laid exactly at the tail, or the end-of-term trip), and that the other
   operations are Publication.env_step on the shared pubstate.  Proofs/StreamShared.v and StreamExcl.v discharge it
   from the C04 case analyses. *)
Require Import V.Base.MachineInt.
Require Import V.Generated.GenConsts.
Require Import V.Model.Descriptor.
Require Import V.Model.LogBase.
Require Import V.Model.Appender.
Require Import V.Model.Publication.
Require Import V.Model.Reader.
Require Import V.Model.Image.
Require Import V.Model.Assembler.
Require Import V.Model.StreamSys.
Require Import V.Spec.Stream.
Require Import V.Proofs.DescriptorProofs.
Require Import V.Proofs.AppenderProofs.
Require Import V.Proofs.BulkProofs.
Require Import V.Proofs.PublicationProofs.
Require Import V.Proofs.C04Proofs.
Require Import V.Proofs.ReaderProofs.
Require Import V.Proofs.C05OracleProofs.
Require Import V.Proofs.C05Repeat.
Require Import V.Proofs.AssemblerProofs.
Require Import V.Proofs.StreamFrames.
Require Import V.Proofs.StreamLog.
Require Import V.Proofs.StreamHist.
From Coq Require Import ZifyBool.
Open Scope Z_scope.

Definition plog {F : flavour} (p : fl_state F) : log := ps_log (fl_pub F p).

(* ---- what an offer / a claim does, seen from the log ---- *)
Inductive append_effect (F : flavour) (pinv : Z -> Z -> fl_state F -> Prop) (p : fl_state F) (n off : Z)
    (laid : Z -> list entry -> option (Z * Z * Z) -> Prop) : fl_state F * outcome Z -> Prop :=
| AE_refuse e : refusal e = true -> append_effect F pinv p n off laid (p, Err e)
| AE_accept p' req es cl : laid req es cl -> 0 < req ->
    ps_closed (fl_pub F p) = false -> n * l_tlen (plog p) + off < l_limit (plog p) -> off + req <= l_tlen (plog p) ->
    same_geom (plog p) (plog p') -> l_limit (plog p') = l_limit (plog p) ->
    part (plog p') (n mod 3) = term_put (part (plog p) (n mod 3)) off es ->
    (forall j, 0 <= j < 3 -> j <> n mod 3 -> part (plog p') j = part (plog p) j) ->
    ps_claim (fl_pub F p') = (match cl with Some c => Some c | None => ps_claim (fl_pub F p) end) ->
    ps_closed (fl_pub F p') = false ->
    pinv n (off + req) p' ->
    append_effect F pinv p n off laid (p', Ok (n * l_tlen (plog p) + off + req))
| AE_trip p' req : 0 < req <= l_tlen (plog p) / 2 -> n < two31 - 1 ->
    ps_closed (fl_pub F p) = false -> n * l_tlen (plog p) + off < l_limit (plog p) -> l_tlen (plog p) < off + req ->
    same_geom (plog p) (plog p') -> l_limit (plog p') = l_limit (plog p) ->
    part (plog p') (n mod 3) =
      (if off <? l_tlen (plog p)
       then term_put (part (plog p) (n mod 3)) off (padding_entries (plog p) off (wrap32 (l_init (plog p) + n)))
       else part (plog p) (n mod 3)) ->
    (forall j, 0 <= j < 3 -> j <> n mod 3 -> part (plog p') j = part (plog p) j) ->
    ps_claim (fl_pub F p') = ps_claim (fl_pub F p) ->
    ps_closed (fl_pub F p') = false ->
    pinv (n + 1) 0 p' ->
    append_effect F pinv p n off laid (p', Err AdminAction)
(* the very last term: the message does not fit, the term is closed with padding (none if it was full), no rotation;
   the publication is at the end of the position space from now on *)
| AE_last p' req : 0 < req <= l_tlen (plog p) / 2 -> two31 - 1 <= n ->
    ps_closed (fl_pub F p) = false -> n * l_tlen (plog p) + off < l_limit (plog p) -> l_tlen (plog p) < off + req ->
    same_geom (plog p) (plog p') -> l_limit (plog p') = l_limit (plog p) ->
    part (plog p') (n mod 3) =
      (if off <? l_tlen (plog p)
       then term_put (part (plog p) (n mod 3)) off (padding_entries (plog p) off (wrap32 (l_init (plog p) + n)))
       else part (plog p) (n mod 3)) ->
    (forall j, 0 <= j < 3 -> j <> n mod 3 -> part (plog p') j = part (plog p) j) ->
    ps_claim (fl_pub F p') = ps_claim (fl_pub F p) ->
    ps_closed (fl_pub F p') = false ->
    pinv n (l_tlen (plog p)) p' ->
    append_effect F pinv p n off laid (p', Err MaxPositionExceeded).

Definition offer_laid (l : log) (msg : list Z) (req : Z) (es : list entry) (cl : option (Z * Z * Z)) : Prop :=
  cl = None /\ exists fs, es = map Committed fs /\ offer_frames_spec l (max_payload_length l) msg req fs.

Definition claim_laid (l : log) (n off len : Z) (req : Z) (es : list entry) (cl : option (Z * Z * Z)) : Prop :=
  exists f, es = [Claimed f] /\ cl = Some (n mod 3, off, len + 32) /\ req = span f /\
            f_len f = len + 32 /\ f_type f = T_DATA /\ f_flags f = F_UNFRAG /\ f_session f = l_session l /\
            0 <= len <= max_payload_length l.

Record flavour_ok (F : flavour) (pinv : Z -> Z -> fl_state F -> Prop) : Prop := mkFlavourOk {
  fk_basic : forall n off p, pinv n off p -> legal (plog p) /\ 0 <= n < two31 /\ l_count (plog p) = n /\ 0 <= off;
  fk_position : forall m n off p, pinv n off p -> off <= l_tlen (plog p) ->
      fl_position F m p = if ps_closed (fl_pub F p) then Err Closed else Ok (n * l_tlen (plog p) + off);
  fk_env : forall m rv n off p o, pinv n off p -> is_append o = false -> C04Proofs.op_ok (plog p) o ->
      fl_pub F (fst (fl_step F m rv p o)) = fst (env_step (fl_pub F p) o) /\
      snd (fl_step F m rv p o) = snd (env_step (fl_pub F p) o) /\
      pinv n off (fst (fl_step F m rv p o));
  fk_clean : forall n off p i, pinv n off p ->
      fl_pub F (fl_with_pub F p (with_log (fl_pub F p) (set_part (plog p) i []))) = with_log (fl_pub F p) (set_part (plog p) i []) /\
      pinv n off (fl_with_pub F p (with_log (fl_pub F p) (set_part (plog p) i [])));
  fk_offer : forall m rv n off p msg, pinv n off p -> off <= l_tlen (plog p) ->
      zlen msg <= 1073741824 -> l_mtu (plog p) mod 32 = 0 ->
      append_effect F pinv p n off (offer_laid (plog p) msg) (fl_step F m rv p (Offer msg));
  fk_claim : forall m rv n off p len, pinv n off p -> off <= l_tlen (plog p) ->
      0 <= len <= 1073741824 ->
      append_effect F pinv p n off (claim_laid (plog p) n off len) (fl_step F m rv p (Claim len))
}.

Lemma payload_from_length k : forall c i, length (payload_from k i c) = c.
Proof. induction c; intros i; cbn [payload_from length]; [reflexivity|]. rewrite IHc. reflexivity. Qed.
Lemma zlen_payload k len : 0 <= len -> zlen (payload k len) = len.
Proof. intros H. unfold zlen, payload. rewrite payload_from_length. lia. Qed.

Section Refine.
Variables (tlen mtu ses n0 off0 : Z).
Hypothesis Hn0 : 0 <= n0.
Hypothesis Hoff0 : 0 <= off0.
Hypothesis Hoff0al : off0 mod 32 = 0.
Hypothesis Hmtu32 : mtu mod 32 = 0.

Definition g : sgeom := sgeom_of tlen mtu n0 off0.

Definition geom_ok (l : log) : Prop := legal l /\ l_tlen l = tlen /\ l_mtu l = mtu /\ l_session l = ses.

Lemma geom_ok_same l l' : same_geom l l' -> geom_ok l -> geom_ok l'.
Proof. intros Hg (A & B & C & D). pose proof Hg as (G1 & G2 & G3 & G4 & G5).
  split; [eapply legal_same; eassumption|]. repeat split; congruence. Qed.

Definition claim_ok (p : pubstate) (open : bool) (pend : option frame) (n off : Z) : Prop :=
  match pend with
  | None => open = false
  | Some f => open = true /\ ps_claim p = Some (n mod 3, off - span f, f_len f) /\
              f_type f = T_DATA /\ f_flags f = F_UNFRAG /\ f_session f = ses /\ 32 <= f_len f <= mtu
  end.

Inductive sys_rep (F : flavour) (pinv : Z -> Z -> fl_state F -> Prop) (s : sys F) (sp : spec) : Prop :=
| SysRep n off Fr pend k j D :
    pinv n off (sy_pub s) ->
    geom_ok (sys_log s) ->
    log_rep n0 off0 (sys_log s) n off Fr pend k ->
    cursor_rep n0 off0 (sys_log s) Fr (sy_img s) k j ->
    hist_rep g ses Fr pend n off k j (sy_asm s) sp D ->
    l_limit (sys_log s) <= im_pos (sy_img s) + tlen ->
    n * tlen < im_pos (sy_img s) + 2 * tlen ->
    claim_ok (fl_pub F (sy_pub s)) (sy_open s) pend n off ->
    sys_rep F pinv s sp.

(* ---- arithmetic shared by the cases ---- *)
Lemma tlen_facts l : geom_ok l -> 1024 <= tlen /\ tlen mod 32 = 0 /\ 32 <= mtu - 32 /\ mtu <= tlen / 8 /\
  max_payload_length l = mtu - 32 /\ sg_tlen g = tlen /\ sg_mpl g = mtu - 32.
Proof. intros (Hl & Ht & Hm & _). pose proof (legal_tlen l Hl) as [H1 H8]. pose proof (legal_mpl l Hl) as (M1 & M2 & M3 & M4).
  unfold max_payload_length in *. rewrite HDR_eq, Hm in *. rewrite Ht in *.
  assert (H32 : tlen mod 32 = 0).
  { destruct Hl as (bits & Hb & Hbt & _). rewrite Ht in Hbt. rewrite Hbt.
    replace bits with (5 + (bits - 5)) by lia. rewrite Z.pow_add_r by lia. change (2 ^ 5) with 32. rewrite Z.mul_comm. apply Z_mod_mult. }
  destruct Hl as (bits & Hb & Hbt & Hm1 & Hm2 & _). rewrite Hm in *. rewrite Ht in Hm2.
  repeat split; try lia; reflexivity. Qed.

Lemma mul_mod32 n : tlen mod 32 = 0 -> (n * tlen) mod 32 = 0.
Proof. intros H. rewrite Z.mul_mod, H by lia. rewrite Z.mul_0_r. reflexivity. Qed.

Lemma pos_bounds l n off Fr pend k j im :
  log_rep n0 off0 l n off Fr pend k -> cursor_rep n0 off0 l Fr im k j -> l_tlen l = tlen -> 0 < tlen ->
  k * tlen <= im_pos im <= (k + 1) * tlen.
Proof. intros Hlr Hcr Ht Hpos. pose proof (lr_klo _ _ _ _ _ _ _ _ Hlr) as [Hk1 Hk2].
  pose proof (boff_le _ _ _ _ _ _ _ _ k j Hlr Hk1) as Hle. rewrite (cr_pos _ _ _ _ _ _ _ Hcr), Ht in *.
  pose proof (frames_pos_F _ _ _ _ _ _ _ _ k Hlr) as Hp.
  assert (0 <= boff n0 off0 Fr k j).
  { unfold boff. pose proof (start_nn n0 off0 Hoff0 k). pose proof (span_sum_nonneg _ (frames_pos_firstn j (Fr k) Hp)). lia. }
  lia. Qed.

(* the padding frame of handle_end_of_log_condition *)
Lemma padding_facts l off tid : geom_ok l -> 0 <= off -> off mod 32 = 0 ->
  if off <? l_tlen l
  then exists p, padding_entries l off tid = map Committed [p] /\ frame_ok ses p /\ is_pad p = true /\ span p = l_tlen l - off
  else True.
Proof. intros Hg Ho Hal. pose proof (tlen_facts l Hg) as (T1 & T32 & _). destruct Hg as (Hl & Ht & Hm & Hs).
  destruct (off <? l_tlen l) eqn:E; [|exact Logic.I]. unfold padding_entries. rewrite E.
  eexists. split; [reflexivity|].
  assert (Hd : (l_tlen l - off) mod 32 = 0).
  { rewrite Ht. rewrite Zminus_mod, T32, Hal. reflexivity. }
  assert (Hge : 32 <= l_tlen l - off).
  { pose proof (Z.div_mod (l_tlen l - off) 32 ltac:(lia)). assert (0 < (l_tlen l - off) / 32); [|lia].
    apply Z.div_str_pos. split; [lia|]. destruct (Z_lt_le_dec (l_tlen l - off) 32); [|lia]. exfalso.
    rewrite Z.mod_small in Hd by lia. lia. }
  split; [constructor; cbn; auto; discriminate|]. split; [reflexivity|].
  unfold span. cbn [f_len data_frame]. rewrite FA_32. apply align_exact. exact Hd. Qed.

Section Step.
Variables (F : flavour) (pinv : Z -> Z -> fl_state F -> Prop).
Hypothesis FK : flavour_ok F pinv.
Variables (m : mode) (rv : Z -> Z -> list Z -> Z).

(* rebuilding the relation when only the publisher part of the state changed *)
Lemma sys_log_mk p im asm o : sys_log (mkSys (F := F) p im asm o) = ps_log (fl_pub F p).
Proof. reflexivity. Qed.

Lemma same_view_of l l' : l_tlen l' = l_tlen l -> l_session l' = l_session l -> (forall i, 0 <= i < 3 -> part l' i = part l i) ->
  same_view l l'.
Proof. intros. repeat split; assumption. Qed.

(* ---- operations that are Publication.env_step on the shared state and do not touch the partitions ---- *)
Lemma step_meta s sp o :
  sys_rep F pinv s sp -> C04Proofs.op_ok (sys_log s) (pub_op (fl_pub F (sy_pub s)) o) ->
  match o with SSetLimit v => v <= im_pos (sy_img s) + tlen | SSetConnected _ | SClose => True | _ => False end ->
  sys_rep F pinv (fst (sys_step F m rv s o)) (spec_step g sp (step_event F m rv s o)).
Proof. intros [n off Fr pend k j D Hp Hg Hlr Hcr Hh Hlim Hwin Hcl] Hok Ho.
  assert (Hna : is_append (pub_op (fl_pub F (sy_pub s)) o) = false) by (destruct o; try contradiction; reflexivity).
  destruct (fk_env F pinv FK m rv n off (sy_pub s) _ Hp Hna Hok) as (E1 & E2 & E3).
  assert (Hst : sys_step F m rv s o = (mkSys (fst (fl_step F m rv (sy_pub s) (pub_op (fl_pub F (sy_pub s)) o))) (sy_img s) (sy_asm s) (sy_open s),
                                        (snd (fl_step F m rv (sy_pub s) (pub_op (fl_pub F (sy_pub s)) o)), [], []))).
  { destruct o; try contradiction; cbn [sys_step]; destruct (fl_step F m rv (sy_pub s) _); reflexivity. }
  assert (Hev : spec_step g sp (step_event F m rv s o) = sp).
  { unfold step_event. destruct (snd (sys_step F m rv s o)) as [[r0 ds0] ms0]. destruct o; try contradiction; reflexivity. }
  rewrite Hev. rewrite Hst. cbn [fst snd].
  set (p' := fst (fl_step F m rv (sy_pub s) (pub_op (fl_pub F (sy_pub s)) o))) in *.
  assert (Hlog : exists l', ps_log (fl_pub F p') = l' /\ same_view (sys_log s) l' /\ same_geom (sys_log s) l' /\
                   l' = (match o with SSetLimit v => set_limit (sys_log s) v | SSetConnected b => set_connected (sys_log s) b | _ => sys_log s end) /\
                   ps_claim (fl_pub F p') = ps_claim (fl_pub F (sy_pub s))).
  { rewrite E1. destruct o; try contradiction; cbn [pub_op env_step fst with_log ps_log ps_claim]; eexists; (split; [reflexivity|]);
      repeat split; reflexivity. }
  destruct Hlog as (l' & Hl' & Hv & Hsg & Hl'eq & Hclm).
  apply (SysRep F pinv _ sp n off Fr pend k j D); cbn [sy_pub sy_img sy_asm sy_open]; rewrite ?sys_log_mk, ?Hl'.
  - exact E3.
  - eapply geom_ok_same; eassumption.
  - eapply log_rep_view; eassumption.
  - eapply cursor_rep_view; [|eassumption]. apply Hv.
  - exact Hh.
  - rewrite Hl'eq. destruct o; try contradiction; cbn [l_limit set_limit set_connected]; assumption.
  - exact Hwin.
  - unfold claim_ok in *. destruct pend; [rewrite Hclm|]; exact Hcl. Qed.

(* ---- the driver zeroes a partition ---- *)
Lemma step_clean s sp i :
  sys_rep F pinv s sp -> env_ok F m s (SClean i) = true ->
  sys_rep F pinv (fst (sys_step F m rv s (SClean i)))
          (spec_step g sp (step_event F m rv s (SClean i))).
Proof. intros [n off Fr pend k j D Hp Hg Hlr Hcr Hh Hlim Hwin Hcl] Henv.
  destruct (cursor_norm _ _ _ _ _ _ _ _ _ _ Hlr Hcr) as (k' & j' & Hk' & Hlr' & Hcr' & Hrest & Hnorm).
  pose proof (tlen_facts _ Hg) as (T1 & T32 & _). pose proof Hg as (Hleg & Ht & Hm & Hs).
  destruct (fk_basic F pinv FK n off _ Hp) as (_ & Hn & Hcount & Hoff).
  unfold step_event. cbn [sys_step fst snd event_of spec_step].
  destruct (fk_clean F pinv FK n off (sy_pub s) i Hp) as (E1 & E2).
  unfold env_ok in Henv. fold (sys_log s) in *. unfold plog in *. fold (sys_log s) in *.
  rewrite Hcount, Ht in Henv.
  set (l := sys_log s) in *.
  assert (Hi : 0 <= i < 3) by lia.
  assert (Hlive : forall x, k' <= x <= n -> i <> x mod 3).
  { intros x Hx. pose proof (lr_klo _ _ _ _ _ _ _ _ Hlr') as [_ Hk2].
    destruct Hnorm as [Hlt | (-> & _)].
    - assert (Hdiv : im_pos (sy_img s) / tlen = k').
      { rewrite (cr_pos _ _ _ _ _ _ _ Hcr'), Ht. symmetry. apply Z.div_unique with (boff n0 off0 Fr k' j'); [|ring].
        left. split; [|lia]. unfold boff. pose proof (start_nn n0 off0 Hoff0 k').
        pose proof (span_sum_nonneg _ (frames_pos_firstn j' (Fr k') (frames_pos_F _ _ _ _ _ _ _ _ k' Hlr'))). lia. }
      rewrite Hdiv in Henv.
      assert (Hc : x = n \/ x = n - 1 \/ x = n - 2) by lia. destruct Hc as [-> | [-> | ->]]; lia.
    - assert (x = n) by lia. subst x. lia. }
  apply (SysRep F pinv _ sp n off Fr pend k' j' D); cbn [sy_pub sy_img sy_asm sy_open]; rewrite ?sys_log_mk, ?E1; cbn [with_log ps_log ps_claim].
  - exact E2.
  - eapply geom_ok_same; [apply same_geom_set_part|exact Hg].
  - eapply log_rep_clean with (i := i); try eassumption; try reflexivity.
    + apply part_set_part_same. assumption.
    + intros x Hx Hne. apply part_set_part_other; auto.
  - eapply cursor_rep_view; [|exact Hcr']. reflexivity.
  - eapply hist_rest; eassumption.
  - exact Hlim.
  - exact Hwin.
  - exact Hcl. Qed.

(* ---- Image::poll through the assembler ---- *)
Lemma step_poll s sp limit :
  sys_rep F pinv s sp ->
  sys_rep F pinv (fst (sys_step F m rv s (SPoll limit)))
          (spec_step g sp (step_event F m rv s (SPoll limit))).
Proof. intros [n off Fr pend k j D Hp Hg Hlr Hcr Hh Hlim Hwin Hcl].
  destruct (cursor_norm _ _ _ _ _ _ _ _ _ _ Hlr Hcr) as (k' & j' & Hk' & Hlr' & Hcr' & Hrest & Hnorm).
  pose proof (tlen_facts _ Hg) as (T1 & T32 & _). pose proof Hg as (Hleg & Ht & Hm & Hs).
  destruct (fk_basic F pinv FK n off _ Hp) as (_ & Hn & Hcount & Hoff).
  unfold plog in Hcount. fold (sys_log s) in Hcount.
  destruct (poll_spec n0 off0 Hn0 Hoff0 _ _ _ _ _ _ _ _ limit Hlr' Hcr' Hnorm) as (j2 & ws & im' & Hpoll & Hj2 & Hcr2 & Hses & _).
  cbv zeta in Hpoll. unfold step_event. cbn [sys_step]. rewrite Hpoll.
  destruct (assemble (sy_asm s) (map frag_of_dlv (data_of (place (boff n0 off0 Fr k' j') (firstn (j2 - j') (skipn j' (Fr k'))))))) as [bs' ms] eqn:Easm.
  cbn [fst snd event_of spec_step].
  pose proof (hist_rest g ses Fr pend n off k j k' j' (sy_asm s) sp D Hrest Hh) as Hh'.
  destruct (hist_poll g ses Fr pend n off k' j' j2 (sy_asm s) bs' sp D ms (boff n0 off0 Fr k' j') Hh' Hj2) as (D' & Hh2).
  { rewrite <- Hs. apply (lr_ok _ _ _ _ _ _ _ _ Hlr'). }
  { exact Easm. }
  assert (Hmono : im_pos (sy_img s) <= im_pos im').
  { rewrite (cr_pos _ _ _ _ _ _ _ Hcr'), (cr_pos _ _ _ _ _ _ _ Hcr2). unfold boff.
    pose proof (span_sum_firstn_mono j' j2 (Fr k') (frames_pos_F _ _ _ _ _ _ _ _ k' Hlr') ltac:(lia)). lia. }
  apply (SysRep F pinv _ _ n off Fr pend k' j2 D'); cbn [sy_pub sy_img sy_asm sy_open]; rewrite ?sys_log_mk; fold (sys_log s); auto; lia. Qed.

(* when a poll with a positive fragment limit leaves the position where it was, nothing is left to read *)
Lemma poll_drained s sp limit :
  sys_rep F pinv s sp -> 0 < limit ->
  im_pos (sy_img (fst (sys_step F m rv s (SPoll limit)))) = im_pos (sy_img s) ->
  sy_open s = false ->
  sp_del sp = map fst (sp_acc sp) /\
  fl_position F m (sy_pub s) = (if ps_closed (fl_pub F (sy_pub s)) then Err Closed else Ok (im_pos (sy_img s))) /\
  im_pos (sy_img s) = pos_after (sg_p0 g) (sp_stream sp).
Proof. intros [n off Fr pend k j D Hp Hg Hlr Hcr Hh Hlim Hwin Hcl] Hlimit Hsame Hopen.
  destruct (cursor_norm _ _ _ _ _ _ _ _ _ _ Hlr Hcr) as (k' & j' & Hk' & Hlr' & Hcr' & Hrest & Hnorm).
  pose proof (tlen_facts _ Hg) as (T1 & T32 & Tmp & _ & _ & Tg & Tm). pose proof Hg as (Hleg & Ht & Hm & Hs).
  destruct (fk_basic F pinv FK n off _ Hp) as (_ & Hn & Hcount & Hoff).
  unfold plog in Hcount. fold (sys_log s) in Hcount.
  destruct (poll_spec n0 off0 Hn0 Hoff0 _ _ _ _ _ _ _ _ limit Hlr' Hcr' Hnorm) as (j2 & ws & im' & Hpoll & Hj2 & Hcr2 & Hses & Hdr).
  cbv zeta in Hpoll. cbn [sys_step] in Hsame. rewrite Hpoll in Hsame.
  destruct (assemble (sy_asm s) _) as [bs' ms] in Hsame. cbn [fst sy_img] in Hsame.
  destruct (Hdr Hlimit Hsame) as [-> Hsk].
  assert (Hpend : pend = None).
  { unfold claim_ok in Hcl. destruct pend; [|reflexivity]. destruct Hcl as [Ho _]. congruence. }
  subst pend.
  pose proof (hist_rest g ses Fr None n off k j n j' (sy_asm s) sp D Hrest Hh) as [A B C E O M I L K].
  assert (Hr : rest Fr n j' = []).
  { unfold rest. rewrite Hsk, (lr_empty _ _ _ _ _ _ _ _ Hlr' (n + 1)), (lr_empty _ _ _ _ _ _ _ _ Hlr' (n + 2)) by lia. reflexivity. }
  rewrite Hr in B. cbn [items_of map frags] in B. rewrite app_nil_r in B.
  cbn [pend_span] in E. rewrite Z.add_0_r in E.
  assert (Hposn : im_pos (sy_img s) = n * tlen + off).
  { rewrite (cr_pos _ _ _ _ _ _ _ Hcr'), Ht. f_equal. unfold boff.
    pose proof (lr_tail _ _ _ _ _ _ _ _ Hlr') as Htail. cbn [pend_span] in Htail. rewrite <- Htail, Z.add_0_r. f_equal.
    rewrite <- (firstn_skipn j' (Fr n)) at 2. rewrite Hsk, app_nil_r. reflexivity. }
  split; [|split].
  - rewrite B, C in A.
    pose proof (run1_messages (map (chunks_of (sg_mpl g)) (map fst (sp_acc sp))) None) as R. rewrite A in R. cbn [snd] in R.
    rewrite R.
    + rewrite map_map. rewrite <- (map_id (map fst (sp_acc sp))) at 2. apply map_ext. intros a. apply concat_chunks. rewrite Tm. lia.
    + apply Forall_map, Forall_forall. intros a _. split; [apply chunks_nonempty|].
      intros H2. unfold chunks_of in *. destruct (length a) eqn:El; cbn [chunks] in *; [cbn in H2; lia|].
      destruct (blen a <=? sg_mpl g) eqn:Eb; [cbn in H2; lia|]. cbn [hd]. rewrite Tm in Eb. intros Hnil.
      apply (f_equal (@length Z)) in Hnil. rewrite firstn_length in Hnil. cbn [length] in Hnil. unfold blen in Eb. lia.
  - rewrite (fk_position F pinv FK m n off _ Hp).
    + unfold plog. fold (sys_log s). rewrite Ht, <- Hposn. reflexivity.
    + unfold plog. fold (sys_log s). apply (lr_off _ _ _ _ _ _ _ _ Hlr').
  - rewrite Hposn. rewrite Tg in E. lia. Qed.

(* delivered is a prefix of accepted, always *)
Lemma rep_prefix s sp : sys_rep F pinv s sp -> is_prefix (sp_del sp) (map fst (sp_acc sp)).
Proof. intros [n off Fr pend k j D Hp Hg Hlr Hcr Hh Hlim Hwin Hcl]. destruct Hh as [A B C E O M I L K].
  pose proof (tlen_facts _ Hg) as (T1 & T32 & Tmp & _ & _ & Tg & Tm).
  pose proof (run1_messages (map (chunks_of (sg_mpl g)) (map fst (sp_acc sp))) None) as R.
  rewrite <- C, <- B, run1_app, A in R.
  destruct (run1 (bget (sy_asm s) ses) (frags (items_of (rest Fr k j)))) as [st2 o2]. cbn [snd] in R.
  exists o2. rewrite R.
  - rewrite map_map. rewrite <- (map_id (map fst (sp_acc sp))) at 1. apply map_ext. intros a. symmetry. apply concat_chunks. rewrite Tm. lia.
  - apply Forall_map, Forall_forall. intros a _. split; [apply chunks_nonempty|].
    intros H2. unfold chunks_of in *. destruct (length a) eqn:El; cbn [chunks] in *; [cbn in H2; lia|].
    destruct (blen a <=? sg_mpl g) eqn:Eb; [cbn in H2; lia|]. cbn [hd]. rewrite Tm in Eb. intros Hnil.
    apply (f_equal (@length Z)) in Hnil. rewrite firstn_length in Hnil. cbn [length] in Hnil. unfold blen in Eb. lia. Qed.

(* ---- commit / abort of the open claim ---- *)
Lemma step_resolve s sp o :
  sys_rep F pinv s sp -> sy_open s = true -> match o with SCommit _ | SAbort => True | _ => False end ->
  sys_rep F pinv (fst (sys_step F m rv s o)) (spec_step g sp (step_event F m rv s o)).
Proof. intros [n off Fr pend k j D Hp Hg Hlr Hcr Hh Hlim Hwin Hcl] Hopen Ho.
  pose proof (tlen_facts _ Hg) as (T1 & T32 & Tmp & _ & Tmpl & Tg & Tm). pose proof Hg as (Hleg & Ht & Hm & Hs).
  destruct (fk_basic F pinv FK n off _ Hp) as (_ & Hn & Hcount & Hoff).
  unfold claim_ok in Hcl. destruct pend as [f|]; [|congruence]. destruct Hcl as (_ & Hclaim & Hty & Hfl & Hfs & Hflen).
  assert (Hna : is_append (pub_op (fl_pub F (sy_pub s)) o) = false) by (destruct o; try contradiction; reflexivity).
  assert (Hok : C04Proofs.op_ok (plog (sy_pub s)) (pub_op (fl_pub F (sy_pub s)) o)) by (destruct o; try contradiction; exact Logic.I).
  destruct (fk_env F pinv FK m rv n off (sy_pub s) _ Hp Hna Hok) as (E1 & E2 & E3).
  assert (Hst : sys_step F m rv s o = (mkSys (fst (fl_step F m rv (sy_pub s) (pub_op (fl_pub F (sy_pub s)) o))) (sy_img s) (sy_asm s) false,
                                        (snd (fl_step F m rv (sy_pub s) (pub_op (fl_pub F (sy_pub s)) o)), [], []))).
  { destruct o; try contradiction; cbn [sys_step]; destruct (fl_step F m rv (sy_pub s) _); reflexivity. }
  unfold step_event. rewrite Hst. cbn [fst snd].
  set (p' := fst (fl_step F m rv (sy_pub s) (pub_op (fl_pub F (sy_pub s)) o))) in *.
  set (l := sys_log s) in *.
  pose proof (lr_klo _ _ _ _ _ _ _ _ Hlr) as [Hk1 Hk2].
  pose proof (lr_empty _ _ _ _ _ _ _ _ Hlr) as Hemp.
  pose proof (cr_j _ _ _ _ _ _ _ Hcr) as Hj.
  pose proof Hh as Hh0. destruct Hh0 as [_ _ _ _ O _ _ _ _]. destruct (sp_open sp) as [[len p]|] eqn:Eopen; [|contradiction].
  destruct O as [O1 O2].
  assert (Hclen : claimed_len (fl_pub F (sy_pub s)) = len).
  { unfold claimed_len. rewrite Hclaim, HDR_eq. lia. }
  assert (Hn3 : 0 <= n mod 3 < 3) by (apply Z.mod_pos_bound; lia).
  assert (Hp32 : (n * sg_tlen g + off) mod 32 = 0).
  { rewrite Tg. pose proof (lr_tail _ _ _ _ _ _ _ _ Hlr) as Htl. cbn [pend_span] in Htl. rewrite <- Htl.
    rewrite !Z.add_assoc. rewrite Z.add_mod, (span_mod32 f) by lia. rewrite Z.add_0_r, Z.mod_mod by lia.
    rewrite Z.add_mod, (span_sum_mod32 (Fr n)) by (try lia; eapply frames_pos_F; eassumption).
    rewrite Z.add_0_r, Z.mod_mod by lia. rewrite Z.add_mod, (mul_mod32 n T32), (start_al n0 off0 Hoff0al) by lia. reflexivity. }
  destruct o as [| |kk| | | | | |]; try contradiction.
  - (* commit *)
    set (body := payload kk (claimed_len (fl_pub F (sy_pub s)))) in *.
    assert (Hbl : zlen body = len) by (unfold body; rewrite Hclen; apply zlen_payload; lia).
    assert (Hpub : fl_pub F p' = mkPub (set_part l (n mod 3) (term_update (part l (n mod 3)) (off - span f) (commit_entry body)))
                                        (ps_closed (fl_pub F (sy_pub s))) (ps_claim (fl_pub F (sy_pub s)))).
    { rewrite E1. cbn [pub_op env_step]. fold body. unfold pub_commit. rewrite Hclaim.
      assert (Eb : (f_len f - HDR <? zlen body) = false) by (rewrite HDR_eq; lia). rewrite Eb.
      unfold claim_apply. rewrite Hclaim. reflexivity. }
    set (f' := mkFrame (f_len f) (f_version f) (f_flags f) (f_type f) (f_term_off f) (f_session f) (f_stream f) (f_term_id f) (f_reserved f) body).
    assert (Hnp : is_pad f' = false) by (unfold is_pad, f'; cbn [f_type]; rewrite Hty; reflexivity).
    assert (Hfok : frame_ok ses f').
    { constructor; unfold f'; cbn [f_len f_session f_body]; try lia; auto. intros _. unfold blen, zlen in *. lia. }
    cbn [event_of spec_step]. fold body. rewrite Eopen.
    apply (SysRep F pinv _ _ n off (upd Fr n (Fr n ++ [f'])) None k j D); cbn [sy_pub sy_img sy_asm sy_open]; rewrite ?sys_log_mk, ?Hpub; cbn [ps_log ps_claim].
    + exact E3.
    + eapply geom_ok_same; [apply same_geom_set_part|exact Hg].
    + eapply (log_rep_resolve n0 off0 Hoff0 l _ n off Fr k f (commit_entry body) f'); try eassumption; try reflexivity.
      * apply part_set_part_same. assumption.
      * intros x Hx Hne. apply part_set_part_other; auto.
      * fold l in Hs. rewrite Hs. exact Hfok.
    + apply cursor_rep_upd; [lia|]. eapply cursor_rep_view; [|exact Hcr]. reflexivity.
    + assert (He2 : forall x, n < x -> Fr x = []) by (intros x Hx; apply Hemp; lia).
      assert (Hbm : blen body <= sg_mpl g) by (rewrite Tm; unfold blen, zlen in *; lia).
      exact (hist_commit g ses Fr n off k j (sy_asm s) sp D f f' len p body Hh Eopen ltac:(lia) He2 Hj Hfok Hnp Hfl eq_refl eq_refl Hbm ltac:(lia) Hp32).
    + exact Hlim.
    + exact Hwin.
    + reflexivity.
  - (* abort *)
    assert (Hpub : fl_pub F p' = mkPub (set_part l (n mod 3) (term_update (part l (n mod 3)) (off - span f) abort_entry))
                                        (ps_closed (fl_pub F (sy_pub s))) (ps_claim (fl_pub F (sy_pub s)))).
    { rewrite E1. cbn [pub_op env_step]. unfold claim_apply. rewrite Hclaim. reflexivity. }
    set (f' := mkFrame (f_len f) (f_version f) (f_flags f) T_PAD (f_term_off f) (f_session f) (f_stream f) (f_term_id f) (f_reserved f) (f_body f)).
    assert (Hnp : is_pad f' = true) by reflexivity.
    assert (Hfok : frame_ok ses f').
    { constructor; unfold f'; cbn [f_len f_session f_body]; try lia; auto. intros H. unfold is_pad in H. cbn [f_type] in H. discriminate. }
    cbn [event_of spec_step]. rewrite Eopen.
    apply (SysRep F pinv _ _ n off (upd Fr n (Fr n ++ [f'])) None k j D); cbn [sy_pub sy_img sy_asm sy_open]; rewrite ?sys_log_mk, ?Hpub; cbn [ps_log ps_claim].
    + exact E3.
    + eapply geom_ok_same; [apply same_geom_set_part|exact Hg].
    + eapply (log_rep_resolve n0 off0 Hoff0 l _ n off Fr k f abort_entry f'); try eassumption; try reflexivity.
      * apply part_set_part_same. assumption.
      * intros x Hx Hne. apply part_set_part_other; auto.
      * fold l in Hs. rewrite Hs. exact Hfok.
    + apply cursor_rep_upd; [lia|]. eapply cursor_rep_view; [|exact Hcr]. reflexivity.
    + assert (He2 : forall x, n < x -> Fr x = []) by (intros x Hx; apply Hemp; lia).
      exact (hist_abort g ses Fr n off k j (sy_asm s) sp D f f' len p Hh Eopen ltac:(lia) He2 Hj Hnp eq_refl ltac:(lia)).
    + exact Hlim.
    + exact Hwin.
    + reflexivity. Qed.

(* ---- offers and claims ---- *)
Lemma rep_open_iff s sp : sys_rep F pinv s sp -> (sy_open s = false <-> sp_open sp = None).
Proof. intros [n off Fr pend k j D Hp Hg Hlr Hcr Hh Hlim Hwin Hcl]. destruct Hh as [_ _ _ _ O _ _ _ _].
  unfold claim_ok in Hcl. destruct pend as [f|], (sp_open sp) as [[len p]|]; try contradiction.
  - destruct Hcl as [Ho _]. split; intros H; congruence.
  - split; auto. Qed.


Lemma rep_pubpos s sp : sys_rep F pinv s sp -> sp_open sp = None ->
  fl_position F m (sy_pub s) = if ps_closed (fl_pub F (sy_pub s)) then Err Closed else Ok (pos_after (sg_p0 g) (sp_stream sp)).
Proof. intros [n off Fr pend k j D Hp Hg Hlr Hcr Hh Hlim Hwin Hcl] Hopen.
  pose proof (tlen_facts _ Hg) as (T1 & T32 & Tmp & _ & Tmpl & Tg & Tm). pose proof Hg as (Hleg & Ht & Hm & Hs).
  destruct Hh as [_ _ _ E O _ _ _ _]. rewrite Hopen in O. destruct pend as [f|]; [contradiction|].
  cbn [pend_span] in E. rewrite Z.add_0_r, Tg in E.
  rewrite (fk_position F pinv FK m n off _ Hp) by (unfold plog; fold (sys_log s); apply (lr_off _ _ _ _ _ _ _ _ Hlr)).
  unfold plog. fold (sys_log s). rewrite Ht, E. reflexivity. Qed.


Lemma next_index_eq l n : l_count l = n -> 0 <= n < two31 -> next_index l = (n + 1) mod 3.
Proof. intros Hc Hn. unfold next_index. rewrite Hc, index_by_term_count_nonneg by assumption. apply Zplus_mod_idemp_l. Qed.

Lemma next_clean s n off len : pinv n off (sy_pub s) -> off <= l_tlen (sys_log s) ->
  append_ok F m s len = true -> ps_closed (fl_pub F (sy_pub s)) = false ->
  n * l_tlen (sys_log s) + off < l_limit (sys_log s) -> part (sys_log s) ((n + 1) mod 3) = [].
Proof. intros Hp Hoff Hok Hcl Hlt. destruct (fk_basic F pinv FK n off _ Hp) as (_ & Hn & Hcount & _).
  unfold append_ok, below_limit in Hok. rewrite (fk_position F pinv FK m n off _ Hp Hoff), Hcl in Hok.
  unfold plog in *. fold (sys_log s) in *.
  rewrite (next_index_eq _ n Hcount Hn) in Hok. unfold part_clean in Hok.
  destruct (part (sys_log s) ((n + 1) mod 3)); [reflexivity|]. lia. Qed.

(* the end-of-term trip, for either kind of append *)
Lemma rep_trip (p : fl_state F) im asm op sp (p' : fl_state F) n off Fr k j D req :
  pinv (n + 1) 0 p' -> geom_ok (plog p) ->
  log_rep n0 off0 (plog p) n off Fr None k -> cursor_rep n0 off0 (plog p) Fr im k j ->
  hist_rep g ses Fr None n off k j asm sp D ->
  l_limit (plog p) <= im_pos im + tlen -> op = false -> 0 <= n -> n < two31 - 1 ->
  0 < req <= l_tlen (plog p) / 2 -> n * l_tlen (plog p) + off < l_limit (plog p) -> l_tlen (plog p) < off + req ->
  same_geom (plog p) (plog p') -> l_limit (plog p') = l_limit (plog p) ->
  part (plog p') (n mod 3) =
    (if off <? l_tlen (plog p)
     then term_put (part (plog p) (n mod 3)) off (padding_entries (plog p) off (wrap32 (l_init (plog p) + n)))
     else part (plog p) (n mod 3)) ->
  (forall x, 0 <= x < 3 -> x <> n mod 3 -> part (plog p') x = part (plog p) x) ->
  part (plog p) ((n + 1) mod 3) = [] ->
  sys_rep F pinv (mkSys p' im asm op)
          (mkSpec (sp_stream sp ++ pad_to_term_end g (sp_stream sp)) (sp_open sp) (sp_acc sp) (sp_del sp) (sp_ok sp)).
Proof. intros Hp' Hg Hlr Hcr Hh Hlim Hop Hn Hlast Hreq Hlt Hfit Hsg Hl' Hpart Hoth Hnext.
  pose proof (tlen_facts _ Hg) as (T1 & T32 & Tmp & _ & Tmpl & Tg & Tm). pose proof Hg as (Hleg & Ht & Hm & Hs).
  pose proof Hsg as (G1 & G2 & G3 & G4 & G5).
  pose proof (lr_klo _ _ _ _ _ _ _ _ Hlr) as [Hk1 Hk2]. pose proof (lr_empty _ _ _ _ _ _ _ _ Hlr) as Hemp.
  pose proof (cr_j _ _ _ _ _ _ _ Hcr) as Hj. pose proof (lr_off _ _ _ _ _ _ _ _ Hlr) as Hoff.
  pose proof (off_al n0 off0 Hoff0al _ _ _ _ _ Hlr) as Hoal.
  pose proof (pos_bounds _ _ _ _ _ _ _ _ Hlr Hcr Ht ltac:(lia)) as Hpb.
  assert (Hhalf : l_tlen (plog p) / 2 * 2 <= l_tlen (plog p)).
  { pose proof (Z.div_mod (l_tlen (plog p)) 2 ltac:(lia)). pose proof (Z.mod_pos_bound (l_tlen (plog p)) 2 ltac:(lia)). lia. }
  rewrite Ht in *.
  assert (Ho0 : 0 < off) by lia.
  assert (Hkn : n - 1 <= k) by nia.
  assert (Hpads : exists pads, part (plog p') (n mod 3) = (if off <? l_tlen (plog p) then term_put (part (plog p) (n mod 3)) off (map Committed pads) else part (plog p) (n mod 3)) /\
             (if off <? tlen then exists q, pads = [q] /\ frame_ok ses q /\ is_pad q = true /\ span q = tlen - off else pads = [])).
  { pose proof (padding_facts (plog p) off (wrap32 (l_init (plog p) + n)) Hg ltac:(lia) Hoal) as Hpf. rewrite Ht in *.
    destruct (off <? tlen) eqn:Eo.
    - destruct Hpf as (q & Hq1 & Hq2 & Hq3 & Hq4). exists [q]. rewrite Hpart, Hq1. split; [reflexivity|]. exists q. auto.
    - exists []. split; [exact Hpart|reflexivity]. }
  destruct Hpads as (pads & Hpart' & Hpads). rewrite Ht in Hpart'.
  apply (SysRep F pinv _ _ (n + 1) 0 (upd Fr n (Fr n ++ pads)) None k j D); cbn [sy_pub sy_img sy_asm sy_open]; rewrite ?sys_log_mk; fold (plog p').
  - exact Hp'.
  - eapply geom_ok_same; eassumption.
  - apply (log_rep_trip n0 off0 Hoff0 (plog p) (plog p') n off Fr k pads Hlr); try congruence; try lia; try assumption.
    + rewrite Ht. exact Hpart'.
    + rewrite Ht, Hs. destruct (off <? tlen); [|exact Hpads]. destruct Hpads as (q & Hq1 & Hq2 & Hq3 & Hq4). exists q. auto.
  - apply cursor_rep_upd; [lia|]. eapply cursor_rep_view; [|exact Hcr]. congruence.
  - assert (He2 : forall x, n < x -> Fr x = []) by (intros x Hx; apply Hemp; lia).
    assert (Ho2 : 0 < off <= sg_tlen g) by (rewrite Tg; lia).
    rewrite <- Tg in Hpads.
    exact (hist_trip g ses Fr n off k j asm sp D pads Hh ltac:(lia) He2 Hj Ho2 Hn Hpads).
  - rewrite Hl'. exact Hlim.
  - lia.
  - exact Hop. Qed.

Lemma on_result_refuse sp e q acc : refusal e = true ->
  (e = MaxPositionExceeded -> pad_to_reported g (sp_stream sp) q = []) -> on_result g sp (Err e) q acc = sp.
Proof. intros H Hq. destruct e; try reflexivity; try discriminate. cbn [on_result]. rewrite (Hq eq_refl), app_nil_r.
  destruct sp; reflexivity. Qed.

(* position() of an unchanged publication with no claim open reports the end of the stream: nothing to pad *)
Lemma pad_reported_same s sp : sys_rep F pinv s sp -> sp_open sp = None ->
  pad_to_reported g (sp_stream sp) (fl_position F m (sy_pub s)) = [].
Proof. intros Hrep Hopen. rewrite (rep_pubpos s sp Hrep Hopen). unfold pad_to_reported.
  destruct (ps_closed _); [reflexivity|]. rewrite Z.ltb_irrefl. reflexivity. Qed.

(* the very last term: the message does not fit, padding to the end of the term, no rotation *)
Lemma rep_last (p : fl_state F) im asm op sp (p' : fl_state F) n off Fr k j D req :
  pinv n (l_tlen (plog p)) p' -> geom_ok (plog p) ->
  log_rep n0 off0 (plog p) n off Fr None k -> cursor_rep n0 off0 (plog p) Fr im k j ->
  hist_rep g ses Fr None n off k j asm sp D ->
  l_limit (plog p) <= im_pos im + tlen -> n * tlen < im_pos im + 2 * tlen -> op = false -> 0 <= n ->
  0 < req <= l_tlen (plog p) / 2 -> l_tlen (plog p) < off + req ->
  same_geom (plog p) (plog p') -> l_limit (plog p') = l_limit (plog p) ->
  part (plog p') (n mod 3) =
    (if off <? l_tlen (plog p)
     then term_put (part (plog p) (n mod 3)) off (padding_entries (plog p) off (wrap32 (l_init (plog p) + n)))
     else part (plog p) (n mod 3)) ->
  (forall x, 0 <= x < 3 -> x <> n mod 3 -> part (plog p') x = part (plog p) x) ->
  part (plog p) ((n + 1) mod 3) = [] -> ps_closed (fl_pub F p') = false ->
  sys_rep F pinv (mkSys p' im asm op)
          (mkSpec (sp_stream sp ++ pad_to_reported g (sp_stream sp) (fl_position F m p')) (sp_open sp) (sp_acc sp) (sp_del sp) (sp_ok sp)).
Proof. intros Hp' Hg Hlr Hcr Hh Hlim Hwin Hop Hn Hreq Hfit Hsg Hl' Hpart Hoth Hnext Hcl'.
  pose proof (tlen_facts _ Hg) as (T1 & T32 & Tmp & _ & Tmpl & Tg & Tm). pose proof Hg as (Hleg & Ht & Hm & Hs).
  pose proof Hsg as (G1 & G2 & G3 & G4 & G5).
  pose proof (lr_klo _ _ _ _ _ _ _ _ Hlr) as [Hk1 Hk2]. pose proof (lr_empty _ _ _ _ _ _ _ _ Hlr) as Hemp.
  pose proof (cr_j _ _ _ _ _ _ _ Hcr) as Hj. pose proof (lr_off _ _ _ _ _ _ _ _ Hlr) as Hoff.
  pose proof (off_al n0 off0 Hoff0al _ _ _ _ _ Hlr) as Hoal.
  assert (Hend : pos_after (sg_p0 g) (sp_stream sp) = n * tlen + off).
  { destruct Hh as [_ _ _ E _ _ _ _ _]. cbn [pend_span] in E. rewrite Tg in E. lia. }
  assert (Hpos' : fl_position F m p' = Ok (n * tlen + tlen)).
  { rewrite (fk_position F pinv FK m n (l_tlen (plog p)) p' Hp') by (rewrite G2; lia). rewrite Hcl', <- G2, Ht. reflexivity. }
  rewrite Hpos'. unfold pad_to_reported. rewrite Hend. rewrite Ht in *.
  assert (He2 : forall x, n < x -> Fr x = []) by (intros x Hx; apply Hemp; lia).
  destruct (off <? tlen) eqn:Eo.
  - (* padding *)
    assert (El : (n * tlen + off <? n * tlen + tlen) = true) by lia. rewrite El.
    pose proof (padding_facts (plog p) off (wrap32 (l_init (plog p) + n)) Hg ltac:(pose proof (start_nn n0 off0 Hoff0 n); pose proof (lr_tail _ _ _ _ _ _ _ _ Hlr); pose proof (span_sum_nonneg _ (frames_pos_F _ _ _ _ _ _ _ _ n Hlr)); cbn [pend_span] in *; lia) Hoal) as Hpf.
    rewrite Ht, Eo in Hpf. destruct Hpf as (q & Hq1 & Hq2 & Hq3 & Hq4). rewrite Hq1 in Hpart.
    replace (n * tlen + tlen - (n * tlen + off)) with (tlen - off) by ring.
    assert (Hofft : off + (tlen - off) = tlen) by ring.
    apply (SysRep F pinv _ _ n tlen (upd Fr n (Fr n ++ [q])) None k j D); cbn [sy_pub sy_img sy_asm sy_open]; rewrite ?sys_log_mk; fold (plog p').
    + exact Hp'.
    + eapply geom_ok_same; eassumption.
    + rewrite <- Hofft at 1.
      apply (log_rep_append n0 off0 Hoff0 (plog p) (plog p') n off Fr k [q] (tlen - off) Hlr); try congruence; try lia.
      * exact Hoth.
      * rewrite Hs. constructor; [exact Hq2|constructor].
      * cbn [span_sum]. lia.
    + apply cursor_rep_upd; [lia|]. eapply cursor_rep_view; [|exact Hcr]. congruence.
    + rewrite <- Hofft at 1. apply (hist_pad g ses Fr n off k j asm sp D [q] (tlen - off) Hh); try assumption; try lia.
      cbn [items_of map]. unfold item_of. rewrite Hq3. reflexivity.
    + rewrite Hl'. exact Hlim.
    + exact Hwin.
    + exact Hop.
  - (* the term was exactly full: nothing is written *)
    assert (Hot : off = tlen) by lia. subst off.
    rewrite Z.ltb_irrefl, app_nil_r.
    apply (SysRep F pinv _ _ n tlen Fr None k j D); cbn [sy_pub sy_img sy_asm sy_open]; rewrite ?sys_log_mk; fold (plog p').
    + exact Hp'.
    + eapply geom_ok_same; eassumption.
    + eapply log_rep_view; [|exact Hlr]. split; [congruence|]. split; [congruence|].
      intros x Hx. destruct (Z.eq_dec x (n mod 3)) as [-> | Hne]; [exact Hpart|apply Hoth; assumption].
    + eapply cursor_rep_view; [|exact Hcr]. congruence.
    + destruct Hh as [A B C E O M I L K]. constructor; assumption.
    + rewrite Hl'. exact Hlim.
    + exact Hwin.
    + exact Hop. Qed.

Lemma step_offer s sp kk len :
  sys_rep F pinv s sp -> env_ok F m s (SOffer kk len) = true ->
  sys_rep F pinv (fst (sys_step F m rv s (SOffer kk len)))
          (spec_step g sp (step_event F m rv s (SOffer kk len))).
Proof. intros Hrep0 Henv. pose proof Hrep0 as [n off Fr pend k j D Hp Hg Hlr Hcr Hh Hlim Hwin Hcl].
  pose proof (tlen_facts _ Hg) as (T1 & T32 & Tmp & _ & Tmpl & Tg & Tm). pose proof Hg as (Hleg & Ht & Hm & Hs).
  destruct (fk_basic F pinv FK n off _ Hp) as (_ & Hn & Hcount & Hoff).
  pose proof (lr_off _ _ _ _ _ _ _ _ Hlr) as Hofft.
  unfold env_ok in Henv. pose proof Henv as Hok. unfold plog in Hcount. fold (sys_log s) in Hcount.
  assert (Hlens : 0 <= len <= 1073741824 /\ sy_open s = false) by (unfold append_ok in Hok; lia).
  destruct Hlens as [Hlen Hopen].
  assert (Hpend : pend = None). { unfold claim_ok in Hcl. destruct pend; [|reflexivity]. destruct Hcl as [Ho _]. congruence. }
  subst pend.
  assert (Hnopen : sp_open sp = None) by (apply (rep_open_iff s sp Hrep0); exact Hopen).
  pose proof (pad_reported_same s sp Hrep0 Hnopen) as Hpadsame.
  pose proof (fk_offer F pinv FK m rv n off (sy_pub s) (payload kk len) Hp Hofft) as Heff.
  rewrite (zlen_payload kk len) in Heff by lia. specialize (Heff ltac:(lia)). unfold plog in Heff at 1. fold (sys_log s) in Heff.
  rewrite Hm in Heff. specialize (Heff Hmtu32).
  destruct s as [p im asm op]. cbn [sy_pub sy_img sy_asm sy_open] in *. rewrite sys_log_mk in *. fold (plog p) in *.
  unfold step_event. cbn [sys_step pub_op sy_pub sy_img sy_asm sy_open]. destruct (fl_step F m rv p (Offer (payload kk len))) as [p' r] eqn:Est.
  cbn [fst snd event_of spec_step sy_pub].
  clear Hcount. clear Hrep0. inversion Heff as [e Hne | p2 req es cl Hlaid Hreq Hclosed Hlt Hfit Hsg Hl' Hpart Hoth Hclm Hcl2 Hp' | p2 req Hreq Hlast Hclosed Hlt Hfit Hsg Hl' Hpart Hoth Hclm Hcl2 Hp' | p2 req Hreq Hlast Hclosed Hlt Hfit Hsg Hl' Hpart Hoth Hclm Hcl2 Hp']; subst.
  - (* refused *)
    rewrite on_result_refuse by (try assumption; intros _; exact Hpadsame).
    apply (SysRep F pinv _ sp n off Fr None k j D); cbn [sy_pub sy_img sy_asm sy_open]; rewrite ?sys_log_mk; auto.
  - (* accepted *)
    destruct Hlaid as (-> & fs & -> & Hfok & Hfsp & Hfit2).
    pose proof Hsg as (G1 & G2 & G3 & G4 & G5).
    pose proof (lr_klo _ _ _ _ _ _ _ _ Hlr) as [Hk1 Hk2]. pose proof (lr_empty _ _ _ _ _ _ _ _ Hlr) as Hemp.
    pose proof (cr_j _ _ _ _ _ _ _ Hcr) as Hj.
    assert (Hnext : part (plog p) ((n + 1) mod 3) = []).
    { apply (next_clean (mkSys (F := F) p im asm false) n off len Hp Hofft Hok Hclosed Hlt). }
    cbn [on_result].
    apply (SysRep F pinv _ _ n (off + req) (upd Fr n (Fr n ++ fs)) None k j D); cbn [sy_pub sy_img sy_asm sy_open]; rewrite ?sys_log_mk; fold (plog p').
    + exact Hp'.
    + eapply geom_ok_same; eassumption.
    + apply (log_rep_append n0 off0 Hoff0 (plog p) (plog p') n off Fr k fs req Hlr); try congruence; try assumption; try lia.
    + apply cursor_rep_upd; [lia|]. eapply cursor_rep_view; [|exact Hcr]. congruence.
    + assert (He2 : forall x, n < x -> Fr x = []) by (intros x Hx; apply Hemp; lia).
      assert (Hfok2 : Forall (frame_ok ses) fs) by (rewrite <- Hs; exact Hfok).
      assert (Hr32 : req mod 32 = 0) by (rewrite <- Hfsp; apply span_sum_mod32; eapply frames_ok_pos; eassumption).
      assert (Hp32 : (n * sg_tlen g + off) mod 32 = 0).
      { rewrite Tg. rewrite Z.add_mod, (mul_mod32 n T32), (off_al n0 off0 Hoff0al _ _ _ _ _ Hlr) by lia. reflexivity. }
      assert (Hit : items_of fs = msg_items (sg_mpl g) (payload kk len)) by (rewrite Tm, <- Tmpl; exact Hfit2).
      pose proof (hist_offer g ses Fr n off k j asm sp D (payload kk len) fs req (fl_position F m p') Hh ltac:(lia) He2 Hj Hfok2 Hfsp Hreq Hr32 Hp32 Hit) as HH.
      rewrite Tg in HH. rewrite Ht. exact HH.
    + rewrite Hl'. exact Hlim.
    + exact Hwin.
    + reflexivity.
  - (* end of term *)
    cbn [on_result].
    assert (Hnext : part (plog p) ((n + 1) mod 3) = []).
    { apply (next_clean (mkSys (F := F) p im asm false) n off len Hp Hofft Hok Hclosed Hlt). }
    apply (rep_trip p im asm false sp p' n off Fr k j D req); auto; lia.
  - (* the very last term *)
    cbn [on_result is_ok].
    assert (Hnext : part (plog p) ((n + 1) mod 3) = []).
    { apply (next_clean (mkSys (F := F) p im asm false) n off len Hp Hofft Hok Hclosed Hlt). }
    apply (rep_last p im asm false sp p' n off Fr k j D req); auto; lia. Qed.

Lemma step_claim s sp len :
  sys_rep F pinv s sp -> env_ok F m s (SClaim len) = true ->
  sys_rep F pinv (fst (sys_step F m rv s (SClaim len)))
          (spec_step g sp (step_event F m rv s (SClaim len))).
Proof. intros Hrep0 Henv. pose proof Hrep0 as [n off Fr pend k j D Hp Hg Hlr Hcr Hh Hlim Hwin Hcl].
  pose proof (tlen_facts _ Hg) as (T1 & T32 & Tmp & _ & Tmpl & Tg & Tm). pose proof Hg as (Hleg & Ht & Hm & Hs).
  destruct (fk_basic F pinv FK n off _ Hp) as (_ & Hn & Hcount & Hoff).
  pose proof (lr_off _ _ _ _ _ _ _ _ Hlr) as Hofft.
  unfold env_ok in Henv. pose proof Henv as Hok. unfold plog in Hcount. fold (sys_log s) in Hcount.
  assert (Hlens : 0 <= len <= 1073741824 /\ sy_open s = false) by (unfold append_ok in Hok; lia).
  destruct Hlens as [Hlen Hopen].
  assert (Hpend : pend = None). { unfold claim_ok in Hcl. destruct pend; [|reflexivity]. destruct Hcl as [Ho _]. congruence. }
  subst pend.
  assert (Hnopen : sp_open sp = None) by (apply (rep_open_iff s sp Hrep0); exact Hopen).
  pose proof (pad_reported_same s sp Hrep0 Hnopen) as Hpadsame.
  pose proof (fk_claim F pinv FK m rv n off (sy_pub s) len Hp Hofft Hlen) as Heff.
  destruct s as [p im asm op]. cbn [sy_pub sy_img sy_asm sy_open] in *. rewrite sys_log_mk in *. fold (plog p) in *.
  unfold step_event. cbn [sys_step pub_op sy_pub sy_img sy_asm sy_open]. destruct (fl_step F m rv p (Claim len)) as [p' r] eqn:Est.
  cbn [fst snd event_of spec_step sy_pub].
  clear Hcount. clear Hrep0. inversion Heff as [e Hne | p2 req es cl Hlaid Hreq Hclosed Hlt Hfit Hsg Hl' Hpart Hoth Hclm Hcl2 Hp' | p2 req Hreq Hlast Hclosed Hlt Hfit Hsg Hl' Hpart Hoth Hclm Hcl2 Hp' | p2 req Hreq Hlast Hclosed Hlt Hfit Hsg Hl' Hpart Hoth Hclm Hcl2 Hp']; subst.
  - (* refused *)
    rewrite on_result_refuse by (try assumption; intros _; exact Hpadsame). cbn [is_ok].
    apply (SysRep F pinv _ sp n off Fr None k j D); cbn [sy_pub sy_img sy_asm sy_open]; rewrite ?sys_log_mk; auto.
  - (* accepted *)
    destruct Hlaid as (f & -> & -> & -> & Hfl & Hfty & Hffl & Hfses & Hflen).
    pose proof Hsg as (G1 & G2 & G3 & G4 & G5).
    pose proof (lr_klo _ _ _ _ _ _ _ _ Hlr) as [Hk1 Hk2]. pose proof (lr_empty _ _ _ _ _ _ _ _ Hlr) as Hemp.
    pose proof (cr_j _ _ _ _ _ _ _ Hcr) as Hj.
    assert (Hnext : part (plog p) ((n + 1) mod 3) = []).
    { apply (next_clean (mkSys (F := F) p im asm false) n off len Hp Hofft Hok Hclosed Hlt). }
    cbn [on_result is_ok].
    apply (SysRep F pinv _ _ n (off + span f) Fr (Some f) k j D); cbn [sy_pub sy_img sy_asm sy_open]; rewrite ?sys_log_mk; fold (plog p').
    + exact Hp'.
    + eapply geom_ok_same; eassumption.
    + apply (log_rep_claim n0 off0 Hoff0 (plog p) (plog p') n off Fr k f Hlr); try congruence; try assumption; try lia.
    + eapply cursor_rep_view; [|exact Hcr]. congruence.
    + pose proof (hist_claim g ses Fr n off k j asm sp D f len (fl_position F m p') Hh Hfl) as HH.
      rewrite Tg in HH. rewrite Ht. exact HH.
    + rewrite Hl'. exact Hlim.
    + exact Hwin.
    + unfold claim_ok. split; [reflexivity|]. rewrite Hclm. split; [f_equal; f_equal; [f_equal; ring|lia]|].
      rewrite Tmpl in Hflen. repeat split; try assumption; try lia.
  - (* end of term *)
    cbn [on_result is_ok].
    assert (Hnext : part (plog p) ((n + 1) mod 3) = []).
    { apply (next_clean (mkSys (F := F) p im asm false) n off len Hp Hofft Hok Hclosed Hlt). }
    apply (rep_trip p im asm false sp p' n off Fr k j D req); auto; lia.
  - (* the very last term *)
    cbn [on_result is_ok].
    assert (Hnext : part (plog p) ((n + 1) mod 3) = []).
    { apply (next_clean (mkSys (F := F) p im asm false) n off len Hp Hofft Hok Hclosed Hlt). }
    apply (rep_last p im asm false sp p' n off Fr k j D req); auto; lia. Qed.

(* ---- facts the oracle proof reads off the relation ---- *)
Lemma rep_open_pos s sp len p : sys_rep F pinv s sp -> sp_open sp = Some (len, p) ->
  p = pos_after (sg_p0 g) (sp_stream sp) + align (32 + len) 32 /\ claimed_len (fl_pub F (sy_pub s)) = len /\ 0 <= len.
Proof. intros [n off Fr pend k j D Hp Hg Hlr Hcr Hh Hlim Hwin Hcl] Hopen. destruct Hh as [_ _ _ E O _ _ _ _].
  rewrite Hopen in O. unfold claim_ok in Hcl. destruct pend as [f|]; [|contradiction]. destruct O as [O1 O2].
  destruct Hcl as (_ & Hclaim & _ & _ & _ & Hfl). cbn [pend_span] in E.
  assert (Hsp : span f = align (32 + len) 32) by (unfold span; rewrite FA_32, O1; f_equal; ring).
  split; [lia|]. split; [|lia]. unfold claimed_len. rewrite Hclaim, HDR_eq. lia. Qed.

Lemma rep_sub_facts s sp : sys_rep F pinv s sp ->
  im_pos (sy_img s) <= pos_after (sg_p0 g) (sp_stream sp) /\ im_pos (sy_img s) mod 32 = 0 /\ im_closed (sy_img s) = false.
Proof. intros [n off Fr pend k j D Hp Hg Hlr Hcr Hh Hlim Hwin Hcl].
  pose proof (tlen_facts _ Hg) as (T1 & T32 & Tmp & _ & Tmpl & Tg & Tm). pose proof Hg as (Hleg & Ht & Hm & Hs).
  destruct Hh as [_ _ _ E _ _ _ _ _]. rewrite Tg in E.
  pose proof (lr_klo _ _ _ _ _ _ _ _ Hlr) as [Hk1 Hk2]. pose proof (lr_tail _ _ _ _ _ _ _ _ Hlr) as Htail.
  pose proof (frames_pos_F _ _ _ _ _ _ _ _ k Hlr) as Hfp.
  pose proof (span_sum_firstn_le j (Fr k) Hfp) as Hle.
  pose proof (boff_le _ _ _ _ _ _ _ _ k j Hlr Hk1) as Hbl. rewrite Ht in Hbl.
  assert (Hps : 0 <= pend_span pend).
  { pose proof (lr_pend _ _ _ _ _ _ _ _ Hlr) as Hpe. destruct pend as [f|]; cbn [pend_span]; [|lia]. pose proof (span_bounds f ltac:(lia)). lia. }
  rewrite (cr_pos _ _ _ _ _ _ _ Hcr), Ht. split; [|split].
  - destruct (Z.eq_dec k n) as [-> | Hne].
    + unfold boff. lia.
    + pose proof (start_nn n0 off0 Hoff0 n). pose proof (span_sum_nonneg _ (frames_pos_F _ _ _ _ _ _ _ _ n Hlr)). nia.
  - rewrite Z.add_mod, (mul_mod32 k T32), (boff_al n0 off0 Hoff0al _ _ _ _ _ _ k j Hlr) by lia. reflexivity.
  - apply (cr_open _ _ _ _ _ _ _ Hcr). Qed.

Lemma rep_ok s sp : sys_rep F pinv s sp ->
  sp_ok sp = true /\ Forall (fun mp => snd mp mod 32 = 0) (sp_acc sp) /\
  (sp_open sp = None -> pos_after (sg_p0 g) (sp_stream sp) mod 32 = 0).
Proof. intros [n off Fr pend k j D Hp Hg Hlr Hcr Hh Hlim Hwin Hcl].
  pose proof (tlen_facts _ Hg) as (T1 & T32 & Tmp & _ & Tmpl & Tg & Tm).
  destruct Hh as [_ _ _ E O _ _ L K]. split; [exact K|]. split; [exact L|]. intros Hopen.
  rewrite Hopen in O. destruct pend as [f|]; [contradiction|]. cbn [pend_span] in E. rewrite Z.add_0_r in E. rewrite E, Tg.
  rewrite Z.add_mod, (mul_mod32 n T32), (off_al n0 off0 Hoff0al _ _ _ _ _ Hlr) by lia. reflexivity. Qed.

(* shape of the result of every operation but a poll *)
Definition result_shape (o : sop) (r : outcome Z) : Prop :=
  match o with
  | SOffer _ _ | SClaim _ => (exists p, r = Ok p) \/ r = Err AdminAction \/ (exists e, r = Err e /\ refusal e = true)
  | SPoll _ => True
  | _ => r = Ok 0
  end.

Lemma step_shape s sp o : sys_rep F pinv s sp -> env_ok F m s o = true ->
  match o with SPoll _ => True | _ =>
    let '(s', (r, ds, ms)) := sys_step F m rv s o in
    ds = [] /\ ms = [] /\ sy_img s' = sy_img s /\ result_shape o r /\
    (ps_closed (fl_pub F (sy_pub s')) = true -> match o with SClose => True | _ => ps_closed (fl_pub F (sy_pub s)) = true end)
  end.
Proof. intros Hrep Henv. pose proof Hrep as [n off Fr pend k j D Hp Hg Hlr Hcr Hh Hlim Hwin Hcl].
  pose proof Hg as (Hleg & Ht & Hm & Hs). pose proof (lr_off _ _ _ _ _ _ _ _ Hlr) as Hofft.
  destruct (fk_basic F pinv FK n off _ Hp) as (_ & Hn & Hcount & Hoff). unfold plog in Hcount. fold (sys_log s) in Hcount.
  assert (Henvop : forall po, is_append po = false -> C04Proofs.op_ok (plog (sy_pub s)) po ->
            ps_closed (fst (env_step (fl_pub F (sy_pub s)) po)) = true -> match po with Close => True | _ => ps_closed (fl_pub F (sy_pub s)) = true end).
  { intros po _ _. destruct po; cbn [env_step fst]; auto; try (unfold pub_commit, claim_apply; destruct (ps_claim _) as [[[? ?] ?]|]; cbn [fst ps_closed]; auto;
      destruct (_ <? _); cbn [fst ps_closed]; auto). }
  destruct o; try exact Logic.I.
  - (* offer *)
    assert (Hlen : 0 <= len <= 1073741824) by (unfold env_ok, append_ok in Henv; lia).
    pose proof (fk_offer F pinv FK m rv n off (sy_pub s) (payload k0 len) Hp Hofft) as Heff.
    rewrite (zlen_payload k0 len) in Heff by lia. specialize (Heff ltac:(lia)). unfold plog in Heff at 1. fold (sys_log s) in Heff.
    rewrite Hm in Heff. specialize (Heff Hmtu32).
    cbn [sys_step pub_op]. destruct (fl_step F m rv (sy_pub s) (Offer (payload k0 len))) as [p' r] eqn:Est.
    cbn [sy_img sy_pub]. repeat split; auto.
    + inversion Heff; subst; cbn [result_shape]; eauto.
    + inversion Heff; subst; intros Hc; congruence.
  - (* claim *)
    assert (Hlen : 0 <= len <= 1073741824) by (unfold env_ok, append_ok in Henv; lia).
    pose proof (fk_claim F pinv FK m rv n off (sy_pub s) len Hp Hofft Hlen) as Heff.
    cbn [sys_step pub_op]. destruct (fl_step F m rv (sy_pub s) (Claim len)) as [p' r] eqn:Est.
    cbn [sy_img sy_pub]. repeat split; auto.
    + inversion Heff; subst; cbn [result_shape]; eauto.
    + inversion Heff; subst; intros Hc; congruence.
  - (* commit *)
    destruct (fk_env F pinv FK m rv n off (sy_pub s) (pub_op (fl_pub F (sy_pub s)) (SCommit k0)) Hp eq_refl Logic.I) as (E1 & E2 & _).
    cbn [sys_step]. destruct (fl_step F m rv (sy_pub s) _) as [p' r] eqn:Est. cbn [fst snd] in E1, E2. cbn [sy_img sy_pub].
    repeat split; auto.
    + cbn [result_shape]. rewrite E2. cbn [pub_op env_step].
      assert (Hopen : sy_open s = true) by (unfold env_ok in Henv; lia).
      unfold claim_ok in Hcl. destruct pend as [f|]; [|congruence]. destruct Hcl as (_ & Hclaim & _ & _ & _ & Hfl).
      unfold pub_commit, claimed_len. rewrite Hclaim. rewrite zlen_payload by (rewrite HDR_eq; lia).
      assert (Eb : (f_len f - HDR <? f_len f - HDR) = false) by lia. rewrite Eb. unfold claim_apply. rewrite Hclaim. reflexivity.
    + rewrite E1. apply (Henvop (pub_op (fl_pub F (sy_pub s)) (SCommit k0)) eq_refl Logic.I).
  - (* abort *)
    destruct (fk_env F pinv FK m rv n off (sy_pub s) (pub_op (fl_pub F (sy_pub s)) SAbort) Hp eq_refl Logic.I) as (E1 & E2 & _).
    cbn [sys_step]. destruct (fl_step F m rv (sy_pub s) _) as [p' r] eqn:Est. cbn [fst snd] in E1, E2. cbn [sy_img sy_pub].
    repeat split; auto.
    + cbn [result_shape]. rewrite E2. cbn [pub_op env_step].
      assert (Hopen : sy_open s = true) by (unfold env_ok in Henv; lia).
      unfold claim_ok in Hcl. destruct pend as [f|]; [|congruence]. destruct Hcl as (_ & Hclaim & _).
      unfold claim_apply. rewrite Hclaim. reflexivity.
    + rewrite E1. apply (Henvop Publication.Abort eq_refl Logic.I).
  - (* set limit *)
    assert (Hok : C04Proofs.op_ok (plog (sy_pub s)) (SetLimit v)).
    { unfold env_ok in Henv. cbn [C04Proofs.op_ok]. unfold limit_ok, plog. fold (sys_log s). lia. }
    destruct (fk_env F pinv FK m rv n off (sy_pub s) (SetLimit v) Hp eq_refl Hok) as (E1 & E2 & _).
    cbn [sys_step pub_op]. destruct (fl_step F m rv (sy_pub s) _) as [p' r] eqn:Est. cbn [fst snd] in E1, E2. cbn [sy_img sy_pub].
    repeat split; auto. rewrite E1. intros Hc. exact Hc.
  - (* clean *)
    cbn [sys_step sy_img sy_pub]. destruct (fk_clean F pinv FK n off (sy_pub s) i Hp) as (E1 & _).
    repeat split; auto. unfold plog in E1. rewrite E1. intros Hc. exact Hc.
  - (* connected *)
    destruct (fk_env F pinv FK m rv n off (sy_pub s) (SetConnected b) Hp eq_refl Logic.I) as (E1 & E2 & _).
    cbn [sys_step pub_op]. destruct (fl_step F m rv (sy_pub s) _) as [p' r] eqn:Est. cbn [fst snd] in E1, E2. cbn [sy_img sy_pub].
    repeat split; auto. rewrite E1. intros Hc. exact Hc.
  - (* close *)
    destruct (fk_env F pinv FK m rv n off (sy_pub s) Close Hp eq_refl Logic.I) as (E1 & E2 & _).
    cbn [sys_step pub_op]. destruct (fl_step F m rv (sy_pub s) _) as [p' r] eqn:Est. cbn [fst snd] in E1, E2. cbn [sy_img sy_pub].
    repeat split; auto. Qed.

Lemma poll_shape s sp limit : sys_rep F pinv s sp ->
  let '(s', (r, ds, ms)) := sys_step F m rv s (SPoll limit) in
  r = Ok (Z.of_nat (length ds)) /\ Forall (fun x => fst x = ses) ms /\ im_pos (sy_img s) <= im_pos (sy_img s') /\
  sy_pub s' = sy_pub s /\ sy_open s' = sy_open s.
Proof. intros [n off Fr pend k j D Hp Hg Hlr Hcr Hh Hlim Hwin Hcl].
  destruct (cursor_norm _ _ _ _ _ _ _ _ _ _ Hlr Hcr) as (k' & j' & Hk' & Hlr' & Hcr' & Hrest & Hnorm).
  pose proof Hg as (Hleg & Ht & Hm & Hs).
  destruct (fk_basic F pinv FK n off _ Hp) as (_ & Hn & Hcount & Hoff).
  unfold plog in Hcount. fold (sys_log s) in Hcount.
  destruct (poll_spec n0 off0 Hn0 Hoff0 _ _ _ _ _ _ _ _ limit Hlr' Hcr' Hnorm) as (j2 & ws & im' & Hpoll & Hj2 & Hcr2 & Hses & _).
  cbv zeta in Hpoll. cbn [sys_step]. rewrite Hpoll.
  set (cons := firstn (j2 - j') (skipn j' (Fr k'))) in *.
  assert (Hcok : Forall (frame_ok ses) cons).
  { unfold cons. apply Forall_firstn_, Forall_skipn_. rewrite <- Hs. apply (lr_ok _ _ _ _ _ _ _ _ Hlr'). }
  pose proof (assemble_one_session ses (map frag_of (data_of (place (boff n0 off0 Fr k' j') cons))) (sy_asm s)
                (data_of_sessions ses _ cons Hcok)) as [H1 _].
  change frag_of_dlv with frag_of.
  destruct (assemble (sy_asm s) (map frag_of (data_of (place (boff n0 off0 Fr k' j') cons)))) as [bs' ms] eqn:Easm.
  cbn [snd] in H1. cbn [sy_img sy_pub sy_open]. split; [reflexivity|]. split; [|split; [|split; reflexivity]].
  - rewrite H1. apply Forall_map. apply Forall_forall. intros; reflexivity.
  - rewrite (cr_pos _ _ _ _ _ _ _ Hcr'), (cr_pos _ _ _ _ _ _ _ Hcr2). unfold boff.
    pose proof (span_sum_firstn_mono j' j2 (Fr k') (frames_pos_F _ _ _ _ _ _ _ _ k' Hlr') ltac:(lia)). lia. Qed.

(* ---- every step ---- *)
Theorem sys_step_rep s sp o :
  sys_rep F pinv s sp -> env_ok F m s o = true ->
  sys_rep F pinv (fst (sys_step F m rv s o)) (spec_step g sp (step_event F m rv s o)).
Proof. intros Hrep Henv. destruct o.
  - apply step_offer; assumption.
  - apply step_claim; assumption.
  - apply step_resolve; [assumption| |exact Logic.I]. unfold env_ok in Henv. lia.
  - apply step_resolve; [assumption| |exact Logic.I]. unfold env_ok in Henv. lia.
  - apply step_poll; assumption.
  - (* SetLimit *)
    apply step_meta; [assumption| |unfold env_ok in Henv; destruct Hrep as [n off Fr pend k j D Hp Hg _ _ _ _ _ _]; destruct Hg as (_ & Ht & _); rewrite Ht in Henv; lia].
    unfold env_ok in Henv. cbn [pub_op C04Proofs.op_ok]. unfold limit_ok. lia.
  - apply step_clean; assumption.
  - apply step_meta; [assumption|exact Logic.I|exact Logic.I].
  - apply step_meta; [assumption|exact Logic.I|exact Logic.I]. Qed.

(* ---- every history ---- *)
Theorem sys_run_rep : forall ops s sp,
  sys_rep F pinv s sp -> contract F m rv s ops = true ->
  sys_rep F pinv (sys_run F m rv s ops) (spec_run g sp (sys_events F m rv s ops)).
Proof. induction ops as [|o r IH]; intros s sp Hrep Hc; [exact Hrep|].
  cbn [contract] in Hc. apply andb_prop in Hc as [He Hr]. cbn [sys_run sys_events].
  pose proof (sys_step_rep s sp o Hrep He) as Hstep.
  destruct (sys_step F m rv s o) as [s' x]. cbn [fst snd] in *. cbn [spec_run fold_left].
  apply IH; assumption. Qed.
End Step.
End Refine.
