(* C01, part 8: the oracle on the model, for both publisher flavours from the hand-over state. *)
Require Import V.Base.MachineInt.
Require Import V.Generated.GenConsts.
Require Import V.Model.LogBase.
Require Import V.Model.Appender.
Require Import V.Model.Publication.
Require Import V.Model.ExclPublication.
Require Import V.Model.Image.
Require Import V.Model.StreamSys.
Require Import V.Spec.Stream.
Require Import V.Oracle.C01Oracle.
Require Import V.Proofs.PublicationProofs.
Require Import V.Proofs.C04Proofs.
Require Import V.Proofs.StreamRefine.
Require Import V.Proofs.StreamShared.
Require Import V.Proofs.StreamExcl.
Require Import V.Proofs.C01Theorems.
Require Import V.Proofs.C01OracleProofs.
From Coq Require Import ZifyBool.
Open Scope Z_scope.

(* ---- both flavours from the hand-over state ---- *)
Lemma handover_facts init tlen mtu n0 off0 : handover_ok init tlen mtu n0 off0 ->
  0 <= n0 /\ 0 <= off0 /\ off0 mod 32 = 0 /\ mtu mod 32 = 0 /\ 64 <= mtu /\ 0 < tlen.
Proof. intros (((bits & Hb & Ht) & Hm & _) & Hm32 & Hn & Ho & Hal). assert (0 < tlen) by (rewrite Ht; apply Z.pow_pos_nonneg; lia). repeat split; lia. Qed.

Lemma orel0 tlen mtu ses n0 off0 init (F : flavour) (p : fl_state F) :
  ps_closed (fl_pub F p) = false ->
  orel tlen mtu n0 off0 F (ost0 (mkC01Geom tlen mtu init n0 off0 ses)) (mkSys p (image0 tlen n0 off0 ses) [] false) spec0.
Proof. intros Hc. constructor; cbn [ost0 o_pos o_pend o_sub o_closed o_queue cg_n0 cg_tlen cg_off0 sy_img sy_pub image0 im_pos spec0 sp_stream sp_open sp_acc sp_del];
    try reflexivity; try congruence; try (exists []; repeat split; constructor).
  unfold pos_after, g, sgeom_of, join_position. cbn [sg_p0 span_of]. ring. Qed.

Theorem shared_oracle_model init tlen mtu ses str n0 off0 m rv ops :
  handover_ok init tlen mtu n0 off0 ->
  contract shared m rv (sys0_shared init tlen mtu ses str n0 off0) ops = true ->
  holds_c01 (mkC01Geom tlen mtu init n0 off0 ses) ops (sys_observe shared m rv (sys0_shared init tlen mtu ses str n0 off0) ops) = true.
Proof. intros HO Hc. destruct (handover_facts _ _ _ _ _ HO) as (H1 & H2 & H3 & H4 & H5 & H6).
  pose proof HO as (Hg & _ & Hn & Ho & _).
  unfold holds_c01.
  apply (judge_all_model tlen mtu ses n0 off0 init H1 H2 H3 H4 H5 shared spinv shared_flavour_ok m rv ops _ _ spec0).
  - apply init_rep_shared; assumption.
  - unfold sys0_shared. apply (orel0 tlen mtu ses n0 off0 init shared). reflexivity.
  - exact Hc. Qed.

Theorem exclusive_oracle_model init tlen mtu ses str n0 off0 m rv s0 ops :
  handover_ok init tlen mtu n0 off0 ->
  sys0_exclusive init tlen mtu ses str n0 off0 = Ok s0 ->
  contract exclusive m rv s0 ops = true ->
  holds_c01 (mkC01Geom tlen mtu init n0 off0 ses) ops (sys_observe exclusive m rv s0 ops) = true.
Proof. intros HO Hs0 Hc. destruct (handover_facts _ _ _ _ _ HO) as (H1 & H2 & H3 & H4 & H5 & H6).
  pose proof HO as (Hg & _ & Hn & Ho & _).
  unfold holds_c01.
  apply (judge_all_model tlen mtu ses n0 off0 init H1 H2 H3 H4 H5 exclusive xinv exclusive_flavour_ok m rv ops _ _ spec0).
  - apply (s0_rep init tlen mtu ses str n0 off0 HO s0 Hs0).
  - unfold sys0_exclusive in Hs0. destruct (xpub_new _) as [x| | | |] eqn:Ex; try discriminate. cbn [bind] in Hs0.
    injection Hs0 as <-. apply (orel0 tlen mtu ses n0 off0 init exclusive).
    unfold xpub_new in Ex. destruct (_ <? 0); [discriminate|]. injection Ex as <-. reflexivity.
  - exact Hc. Qed.
