(* Interleavings: every reachable configuration satisfies the invariant of Proofs/RingConc.v, and
   what follows from it (order of the counters, disjoint claims, the consumer never passes an
   uncommitted record, no thread ever panics). *)
Require Import V.Base.MachineInt.
Require Import V.Generated.GenConsts.
Require Import V.Model.LogBase.
Require Import V.Model.Ring.
Require Import V.Model.RingThreads.
Require Import V.Spec.Fifo.
Require Import V.Proofs.RingArith.
Require Import V.Proofs.RingSeq.
Require Import V.Proofs.RingRender.
Require Import V.Proofs.RingSeqRun.
Require Import V.Proofs.RingConc.
From Coq Require Import ZifyBool Lia.
Open Scope Z_scope.

Definition in_window (lo : Z) (cfg : config) : Prop :=
  r_tail (g_ring cfg) + 2 * r_cap (g_ring cfg) <= two62.

Lemma step_inv lo m cfg tid cfg' e :
  Inv lo cfg -> step m cfg tid = Some (cfg', e) -> in_window lo cfg' -> Inv lo cfg'.
Proof. intros HI Hs Hw. unfold step in Hs. destruct tid as [| i].
  - destruct (cstep m (g_ring cfg) (g_cons cfg)) as [[R cs] [ev |]] eqn:E; [| discriminate].
    inversion Hs; subst. eapply cstep_inv; eassumption.
  - destruct (nth_error (g_prods cfg) i) as [ps |] eqn:Ei; [| discriminate].
    destruct (pstep m (g_ring cfg) (Z.of_nat (S i)) ps) as [[R ps'] [ev |]] eqn:E; [| discriminate].
    inversion Hs; subst. eapply pstep_inv; eassumption. Qed.

(* configurations reachable from c0 by any schedule, as long as the tail stays inside the window *)
Inductive reach (lo : Z) (m : mode) (c0 : config) : config -> Prop :=
| reach_refl : reach lo m c0 c0
| reach_step c tid c' e : reach lo m c0 c -> step m c tid = Some (c', e) -> in_window lo c' -> reach lo m c0 c'.

Lemma reach_inv lo m c0 c : Inv lo c0 -> reach lo m c0 c -> Inv lo c.
Proof. intros H0. induction 1; [assumption |]. eapply step_inv; eassumption. Qed.

(* ---- the initial configuration: threads started on a ring left by a sequential prelude ---- *)
Lemma pstart_ok cp prog : Forall wreq_ok prog ->
  let ps := pstart cp prog in
  p_prog ps = prog /\ ((p_pc ps = PDone) \/ (p_pc ps = PReadHC /\ exists typ body, at_write cp ps typ body)).
Proof. intros Hok. unfold pstart.
  pose proof (enter_spec cp (S (length prog)) (mkP PDone prog O [])) as H. cbn [p_prog p_k] in H.
  specialize (H Hok ltac:(lia)). cbn zeta in *. destruct H as (A & _ & C & _). split; assumption. Qed.

Lemma good_committed cp prods s : good_slot cp s -> committed cp prods s.
Proof. intros (_ & _ & Gl & Gs & _ & Gk & Go & Gq). split; [assumption |]. unfold is_pad in *.
  destruct (s_type s =? PAD) eqn:P.
  - left. destruct Gk as (A & B & C). split; [lia |]. split; [assumption | lia].
  - right. left. destruct Gk as (A & B). split; [assumption |]. split; [assumption |]. split; [assumption |].
    split; [unfold rl_of; exact B |]. unfold rq_of, rl_of. rewrite <- B. exact Gs. Qed.

Lemma inv_start R limits progs :
  wf R -> Forall (Forall wreq_ok) progs ->
  r_tail R + 2 * r_cap R <= two62 ->
  Inv (r_hc R) (start R limits progs).
Proof. intros W Hok Hwin. pose proof (wf_cap _ W) as Hc. pose proof (wf_hc _ W) as Hhc.
  assert (Hh : head' R (cstart limits) = r_head R) by (unfold head', cstart; destruct limits; reflexivity).
  unfold start. constructor; cbn [g_ring g_cons g_prods]; rewrite ?Hh; auto; try lia.
  - apply (wf_h8 _ W).
  - exact (chain_mod8 _ _ _ _ (wf_chain _ W) (wf_h8 _ W)).
  - apply wf_tiled. assumption.
  - apply (wf_size _ W).
  - pose proof (chain_good _ _ _ _ (wf_chain _ W)) as G. eapply Forall_impl; [| exact G].
    intros s Gs. left. apply good_committed. assumption.
  - intros i ps Hi. rewrite nth_error_map in Hi. destruct (nth_error progs i) as [prog |] eqn:E; [| discriminate].
    inversion Hi; subst ps. rewrite Forall_forall in Hok. pose proof (Hok prog (nth_error_In _ _ E)) as Hp.
    destruct (pstart_ok (r_cap R) prog Hp) as (A & B). split; [| split].
    + unfold pc_ok. destruct B as [-> | (-> & typ & body & Aw)]; [exact I |]. exists typ, body. split; [assumption | exact I].
    + rewrite A. assumption.
    + rewrite expect_nil_pc; [intros s [] |]. destruct B as [-> | (-> & _)]; exact I.
  - unfold cons_ok, cstart, has_limit. destruct limits as [| l ls]; cbn [c_pc c_limits c_k]; [exact I |]. exists l. reflexivity.
Qed.

(* ---- consequences of the invariant ---- *)
(* the three counters stay ordered and the producers never lap the consumer *)
Lemma inv_order lo cfg : Inv lo cfg ->
  let R := g_ring cfg in
  r_hc R <= r_head R /\ r_head R <= r_tail R /\ r_tail R <= r_head R + r_cap R.
Proof. intros HI. cbn zeta. pose proof (i_hc _ _ HI). pose proof (i_hh _ _ HI). pose proof (tiled_le _ _ _ _ (i_tiled _ _ HI)).
  pose proof (i_size _ _ HI). lia. Qed.

(* no thread is ever in a panicked state: every checked operation stays in range *)
Lemma inv_no_panic lo cfg : Inv lo cfg ->
  c_pc (g_cons cfg) <> CPanic /\ (forall i ps, nth_error (g_prods cfg) i = Some ps -> p_pc ps <> PPanic).
Proof. intros HI. split.
  - intro E. pose proof (i_cons _ _ HI) as C. unfold cons_ok in C. rewrite E in C. exact C.
  - intros i ps Hi E. destruct (i_prods _ _ HI i ps Hi) as (C & _). unfold pc_ok in C. rewrite E in C. exact C. Qed.

(* claims are disjoint in memory: two different slots never share a byte index *)
Lemma inv_disjoint lo cfg a b da db : Inv lo cfg ->
  In a (r_slots (g_ring cfg)) -> In b (r_slots (g_ring cfg)) -> a <> b ->
  0 <= da < s_span a -> 0 <= db < s_span b ->
  s_pos a mod r_cap (g_ring cfg) + da <> s_pos b mod r_cap (g_ring cfg) + db.
Proof. intros HI Ha Hb Hne Hda Hdb.
  pose proof (i_tiled _ _ HI) as T. pose proof (i_cap _ _ HI) as Hc. pose proof (cap_ok_range _ Hc).
  pose proof (i_size _ _ HI) as Hsz. pose proof (i_hh _ _ HI) as Hhh.
  assert (forall sl h t, tiled (r_cap (g_ring cfg)) h t sl -> In a sl -> In b sl -> a <> b ->
            (s_pos a + s_span a <= s_pos b \/ s_pos b + s_span b <= s_pos a)) as ORD.
  { induction 1 as [| h t s sl Hp G T2 IH]; intros Ia Ib Hab; [inversion Ia |].
    pose proof (tiled_range _ _ _ _ T2) as Rg. rewrite Forall_forall in Rg.
    destruct Ia as [<- | Ia], Ib as [<- | Ib]; try congruence.
    - left. destruct (Rg b Ib). lia.
    - right. destruct (Rg a Ia). lia.
    - apply IH; assumption. }
  pose proof (tiled_range _ _ _ _ T) as Rg. rewrite Forall_forall in Rg.
  destruct (Rg a Ha) as (A1 & A2 & (_ & _ & _ & _ & A3 & _)). destruct (Rg b Hb) as (B1 & B2 & (_ & _ & _ & _ & B3 & _)).
  destruct (ORD _ _ _ T Ha Hb Hne) as [O | O].
  - apply (idx_disjoint (r_cap (g_ring cfg)) (s_pos a) (s_span a) (s_pos b) (s_span b)); lia.
  - intro E. symmetry in E. revert E.
    apply (idx_disjoint (r_cap (g_ring cfg)) (s_pos b) (s_span b) (s_pos a) (s_span a)); lia. Qed.

(* a record is visible to the consumer only after its positive length was written: everything the
   consumer has walked over in the read in progress is committed *)
Lemma inv_visible lo cfg hd bytes msgs acc : Inv lo cfg -> c_pc (g_cons cfg) = CReadHdr hd bytes msgs acc ->
  exists used rest, r_slots (g_ring cfg) = used ++ rest /\ span_sum used = bytes /\
    Forall (fun s => 0 < s_len s) used /\ acc = msgs_of used.
Proof. intros HI E. pose proof (i_cons _ _ HI) as C. unfold cons_ok in C. rewrite E in C.
  destruct C as (_ & _ & used & ((rest & Es) & Uc & Us) & Ea & _). exists used, rest. repeat split; auto.
  eapply Forall_impl; [| exact Uc]. intros s Hs. eapply committed_len; eassumption. Qed.

(* ---- replaying a concrete schedule inside the window: a way to exhibit reachable configurations ---- *)
Fixpoint replay_ok (lo : Z) (m : mode) (c : config) (sched : list nat) : option config :=
  match sched with
  | [] => Some c
  | t :: r =>
      match step m c t with
      | Some (c', _) =>
          if r_tail (g_ring c') + 2 * r_cap (g_ring c') <=? two62 then replay_ok lo m c' r else None
      | None => None
      end
  end.

Lemma replay_reach lo m c0 : forall sched c c', replay_ok lo m c sched = Some c' -> reach lo m c0 c -> reach lo m c0 c'.
Proof. induction sched as [| t r IH]; intros c c' H Hr; cbn [replay_ok] in H.
  - inversion H; subst. assumption.
  - destruct (step m c t) as [[c1 e] |] eqn:E; [| discriminate].
    destruct (r_tail (g_ring c1) + 2 * r_cap (g_ring c1) <=? two62) eqn:W; [| discriminate].
    apply (IH c1 c' H). eapply reach_step; [exact Hr | exact E | unfold in_window; lia]. Qed.
