(* Proofs about Generated/GenSrcCounters.v: the offset arithmetic, capacity checks and id validation of
   src/concurrent/counters.rs as they are in the source today (tools/props/src_translate.py), against the
   definitions Model/Counters.v uses.  The model's cres (COk / CErr / CPanic) describes the Debug build (an i32
   overflow in an offset is a panic); `out_of` maps it into `outcome`. *)
Require Import V.Base.MachineInt V.Base.MachineInt2 V.Base.MachineIntT V.Generated.GenConsts
               V.Model.Counters V.Proofs.SrcNorm V.Proofs.SrcNormT V.Generated.GenSrcCounters.
From Coq Require Import ZifyBool String.
Open Scope Z_scope.

Ltac cconsts :=
  unfold CL, ML, MAXLAB, MAXKEY, OFF_DEADLINE, GenConsts.COUNTER_LENGTH, GenConsts.METADATA_LENGTH,
         GenConsts.MAX_LABEL_LENGTH, GenConsts.MAX_KEY_LENGTH, GenConsts.FREE_TO_REUSE_DEADLINE_OFFSET in *.

Definition out_of {A} (c : cres A) : outcome A := match c with COk a => Ok a | _ => Panic end.

(* the checked i32 operators in a Debug build are the model's imul / iadd *)
Lemma mul32_debug a b : mul32 Debug a b = out_of (imul a b).
Proof. unfold mul32, chk32, imul. destruct (in_i32 (a * b)); reflexivity. Qed.
Lemma add32_debug a b : add32 Debug a b = out_of (iadd a b).
Proof. unfold add32, chk32, iadd. destruct (in_i32 (a + b)); reflexivity. Qed.

Lemma src_cnt_counter_offset_eq id : src_cnt_counter_offset Debug id = out_of (counter_offset id).
Proof. unfold src_cnt_counter_offset, counter_offset. cbv zeta. rewrite <- mul32_debug. cconsts. src_robust. Qed.
Lemma src_cnt_metadata_offset_eq id : src_cnt_metadata_offset Debug id = out_of (metadata_offset id).
Proof. unfold src_cnt_metadata_offset, metadata_offset. cbv zeta. rewrite <- mul32_debug. cconsts. src_robust. Qed.

(* in every build, while the product fits (all ids a buffer of at most 2^31 - 1 bytes can hold) *)
Lemma src_cnt_offsets_fit m id : in_i32 (id * ML) = true ->
  src_cnt_counter_offset m id = Ok (id * CL) /\ src_cnt_metadata_offset m id = Ok (id * ML).
Proof. intros H. unfold src_cnt_counter_offset, src_cnt_metadata_offset. cconsts. split; src_robust. Qed.

(* validate_counter_id: refused exactly when the model's validate refuses *)
Definition res_of_validate (id maxid : Z) (c : cres unit) : sres :=
  match c with COk _ => ROk 0 | _ => RErr "IllegalArgumentError::CounterIdOutOfRange" [id; maxid] end.

Lemma src_cnt_validate_counter_id_eq m s id :
  src_cnt_validate_counter_id m (max_counter_id s) id = Ok (res_of_validate id (max_counter_id s) (validate s id)).
Proof. unfold src_cnt_validate_counter_id, validate. generalize (max_counter_id s); intros mx.
  unfold res_of_validate. src_robust. Qed.

(* CountersReader::new: the number of slots both buffers can hold *)
Lemma src_cnt_max_counter_id_eq m s : 0 <= nm s -> 0 <= nv s ->
  src_cnt_max_counter_id m (vcap s) (mcap s) = Ok (max_counter_id s).
Proof. intros Hm Hv. unfold src_cnt_max_counter_id, max_counter_id, vcap, mcap. cconsts. srcT_norm.
  rewrite !quot_nonneg by lia. reflexivity. Qed.

(* the two capacity checks of next_counter_id *)
Definition res_of_check (name : string) (c : cres unit) : outcome sres :=
  match c with COk _ => Ok (ROk 0) | CErr _ => Ok (RErr name []) | CPanic => Panic end.

Lemma src_cnt_check_counters_capacity_eq s id :
  src_cnt_check_counters_capacity Debug (vcap s) id =
  res_of_check "IllegalArgumentError::UnableAllocateCounterBecauseValueBufferFull" (check_counters_capacity s id).
Proof. unfold src_cnt_check_counters_capacity, check_counters_capacity, src_cnt_counter_offset, counter_offset, imul, iadd.
  change GenConsts.COUNTER_LENGTH with CL. generalize (vcap s); intros vc. unfold CL, GenConsts.COUNTER_LENGTH.
  cbv zeta. srcT_unfold_ops. cbn [bind]. cmp_norm. repeat unify_chk.
  repeat (split_chk1; cmp_norm; repeat unify_chk);
    repeat match goal with |- context [in_i32 ?z] => let Q := fresh "Q" in destruct (in_i32 z) eqn:Q end;
    repeat first [ progress cbn [bind bindC res_of_check] | progress if_split ]; src_leaf. Qed.

Lemma src_cnt_check_meta_data_capacity_eq s off :
  src_cnt_check_meta_data_capacity Debug (mcap s) off =
  res_of_check "IllegalArgumentError::UnableAllocateCounterBecauseMetadataBufferFull" (check_meta_data_capacity s off).
Proof. unfold src_cnt_check_meta_data_capacity, check_meta_data_capacity, iadd.
  change GenConsts.METADATA_LENGTH with ML. generalize (mcap s); intros mc. unfold ML, GenConsts.METADATA_LENGTH.
  cbv zeta. srcT_unfold_ops. cbn [bind]. cmp_norm. repeat unify_chk.
  repeat (split_chk1; cmp_norm; repeat unify_chk);
    repeat match goal with |- context [in_i32 ?z] => let Q := fresh "Q" in destruct (in_i32 z) eqn:Q end;
    repeat first [ progress cbn [bind bindC res_of_check] | progress if_split ]; src_leaf. Qed.

(* argument checks of allocate_opt *)
Lemma src_cnt_label_too_long_eq m n : src_cnt_label_too_long m n = Ok (n >? MAXLAB).
Proof. unfold src_cnt_label_too_long. cconsts. rewrite ?castT_id by reflexivity. src_robust. Qed.
Lemma src_cnt_key_too_long_eq m n : src_cnt_key_too_long m n = Ok (n >? MAXKEY).
Proof. unfold src_cnt_key_too_long. cconsts. rewrite ?castT_id by reflexivity. src_robust. Qed.

(* free: deadline = clock() + timeout on u64, written at the deadline field of the record *)
Lemma src_cnt_free_deadline_eq m s :
  src_cnt_free_deadline m (timeout s) (now s) = addu64 m (now s) (timeout s).
Proof. unfold src_cnt_free_deadline, addT, addu64, chkT, chku64. cbv zeta. rewrite inT_u64, wrapT_u64.
  first [ reflexivity | rewrite (Z.add_comm (timeout s)); reflexivity ]. Qed.
Lemma src_cnt_free_deadline_offset_eq m off : src_cnt_free_deadline_offset m off = add32 m off OFF_DEADLINE.
Proof. unfold src_cnt_free_deadline_offset. cconsts. src_robust. Qed.

(* next_counter_id: a freed id may be reused once `now as i64 >= deadline as i64` *)
Lemma src_cnt_reusable_eq m nowv deadline :
  src_cnt_reusable m (wrap64 deadline) nowv = Ok (wrap64 deadline <=? wrap64 nowv).
Proof. unfold src_cnt_reusable. src_robust. Qed.
