(* Lemmas about Model/Appender.v: geometry, lengths, the tail claim, and what each append flavour does to the log
   as far as flow control is concerned (`act_spec`). *)
Require Import V.Base.MachineInt.
Require Import V.Generated.GenConsts.
Require Import V.Model.Descriptor.
Require Import V.Model.LogBase.
Require Import V.Model.Appender.
Require Import V.Proofs.DescriptorProofs.
From Coq Require Import ZifyBool.
Open Scope Z_scope.

Lemma HDR_eq : HDR = 32. Proof. reflexivity. Qed.
Lemma FA_eq : FA = 32. Proof. reflexivity. Qed.

(* ---- geometry ---- *)
Definition legal (l : log) : Prop :=
  exists bits, 10 <= bits <= 30 /\ l_tlen l = 2 ^ bits /\
    64 <= l_mtu l /\ l_mtu l <= Z.min (l_tlen l / 8) MAX_MESSAGE_LENGTH /\ in_i32 (l_init l) = true.

Definition same_geom (a b : log) : Prop :=
  l_init a = l_init b /\ l_tlen a = l_tlen b /\ l_mtu a = l_mtu b /\ l_session a = l_session b /\ l_stream a = l_stream b.

Lemma same_geom_refl l : same_geom l l. Proof. repeat split. Qed.
Lemma same_geom_trans a b c : same_geom a b -> same_geom b c -> same_geom a c.
Proof. unfold same_geom. intuition congruence. Qed.
Lemma legal_same a b : same_geom a b -> legal a -> legal b.
Proof. intros (H1 & H2 & H3 & _) (bits & Hb). exists bits. rewrite <- H1, <- H2, <- H3. exact Hb. Qed.

Lemma ntz_pos_pow2 n : (0 <= n)%Z -> forall p, Zpos p = 2 ^ n -> ntz_pos p = n.
Proof.
  intros Hn. pattern n. apply natlike_ind; [| |exact Hn].
  - intros p Hp. change (2 ^ 0) with 1 in Hp. inversion Hp. reflexivity.
  - intros x Hx IH p Hp. rewrite Z.pow_succ_r in Hp by assumption.
    destruct p as [q|q|]; try (exfalso; lia).
    cbn [ntz_pos]. rewrite (IH q) by lia. lia.
Qed.

Lemma ntz_pow2 n : 0 <= n -> ntz (2 ^ n) = n.
Proof. intros Hn. pose proof (Z.pow_pos_nonneg 2 n ltac:(lia) Hn) as Hp.
  destruct (2 ^ n) as [|p|p] eqn:E; try lia. cbn [ntz]. apply ntz_pos_pow2; auto. Qed.

Section Geometry.
Variable l : log.
Hypothesis Hl : legal l.

Lemma legal_tlen : 1024 <= l_tlen l <= 1073741824 /\ l_tlen l mod 8 = 0.
Proof. destruct Hl as (bits & Hb & Ht & _). rewrite Ht. split.
  - split.
    + change 1024 with (2 ^ 10). apply Z.pow_le_mono_r; lia.
    + change 1073741824 with (2 ^ 30). apply Z.pow_le_mono_r; lia.
  - replace bits with (3 + (bits - 3)) by lia. rewrite Z.pow_add_r by lia. change (2 ^ 3) with 8.
    rewrite Z.mul_comm. apply Z_mod_mult. Qed.

Lemma legal_bits : exists bits, 10 <= bits <= 30 /\ l_tlen l = 2 ^ bits /\ bits_of l = bits.
Proof. destruct Hl as (bits & Hb & Ht & _). exists bits. repeat split; try lia; auto.
  unfold bits_of. rewrite Ht. apply ntz_pow2. lia. Qed.

Lemma legal_init : in_i32 (l_init l) = true.
Proof. destruct Hl as (bits & _ & _ & _ & _ & H). exact H. Qed.

Lemma legal_mpl : 32 <= max_payload_length l /\ max_payload_length l + 32 <= max_message_length l
                  /\ max_message_length l <= l_tlen l / 8 /\ max_message_length l <= 16777216.
Proof. destruct Hl as (bits & Hb & Ht & Hm1 & Hm2 & _). pose proof legal_tlen as [Htl _].
  unfold max_payload_length, max_message_length, MAX_MESSAGE_LENGTH, GenConsts.MAX_MESSAGE_LENGTH in *. rewrite HDR_eq.
  rewrite Z.quot_div_nonneg by lia. lia. Qed.

Lemma legal_maxpos : max_possible_position l = l_tlen l * two31.
Proof. pose proof legal_tlen as [Htl _]. unfold max_possible_position, shl64. change (2 ^ 31) with two31.
  apply wrap64_id. unfold in_i64, two63, two31. lia. Qed.
End Geometry.

(* ---- lengths ---- *)
Lemma add32_ok m a b : in_i32 (a + b) = true -> add32 m a b = Ok (a + b).
Proof. intros H. unfold add32, chk32. rewrite H. reflexivity. Qed.
Lemma sub32_ok m a b : in_i32 (a - b) = true -> sub32 m a b = Ok (a - b).
Proof. intros H. unfold sub32, chk32. rewrite H. reflexivity. Qed.
Lemma mul32_ok m a b : in_i32 (a * b) = true -> mul32 m a b = Ok (a * b).
Proof. intros H. unfold mul32, chk32. rewrite H. reflexivity. Qed.
Lemma add64_ok m a b : in_i64 (a + b) = true -> add64 m a b = Ok (a + b).
Proof. intros H. unfold add64, chk64. rewrite H. reflexivity. Qed.
Lemma sub64_ok m a b : in_i64 (a - b) = true -> sub64 m a b = Ok (a - b).
Proof. intros H. unfold sub64, chk64. rewrite H. reflexivity. Qed.

Lemma unfrag_lengths_ok m len : 0 <= len <= 1073741824 ->
  unfrag_lengths m len = Ok (len + 32, align (len + 32) 32).
Proof. intros H. unfold unfrag_lengths. rewrite HDR_eq.
  rewrite add32_ok by (unfold in_i32, two31; lia). cbn [bind].
  rewrite align32_spec by (unfold two31; lia). reflexivity. Qed.

Lemma align_bounds v : 0 <= v -> v <= align v 32 < v + 32 /\ align v 32 mod 32 = 0.
Proof. apply align_ge. Qed.

Lemma frag_required_ok m len mpl : 32 <= mpl -> 0 <= len <= 268435456 -> mpl <= 268435456 ->
  frag_required m len mpl = Ok (frag_required_spec len mpl).
Proof. intros Hm Hl Hm2. unfold frag_required, frag_required_spec. rewrite HDR_eq, FA_eq.
  assert (E : (mpl =? 0) = false) by lia. rewrite E.
  rewrite Z.quot_div_nonneg by lia. rewrite Z.rem_mod_nonneg by lia.
  pose proof (Z.mod_pos_bound len mpl ltac:(lia)) as Hr.
  assert (Hq : 0 <= len / mpl <= len / 32).
  { split; [apply Z.div_pos; lia|]. apply Z.div_le_compat_l; lia. }
  assert (Hq2 : len / mpl * mpl <= len) by (rewrite Z.mul_comm; apply Z.mul_div_le; lia).
  assert (Hq3 : len / 32 * 32 <= len) by (rewrite Z.mul_comm; apply Z.mul_div_le; lia).
  destruct (0 <? len mod mpl) eqn:Er.
  - rewrite add32_ok by (unfold in_i32, two31; lia). cbn [bind].
    rewrite align32_spec by (unfold two31; lia). cbn [bind].
    rewrite add32_ok by (unfold in_i32, two31; lia). cbn [bind].
    pose proof (align_bounds (len mod mpl + 32) ltac:(lia)) as [Ha _].
    rewrite mul32_ok by (unfold in_i32, two31; nia). cbn [bind].
    rewrite add32_ok by (unfold in_i32, two31; nia). reflexivity.
  - cbn [bind]. rewrite add32_ok by (unfold in_i32, two31; lia). cbn [bind].
    rewrite mul32_ok by (unfold in_i32, two31; nia). cbn [bind].
    rewrite add32_ok by (unfold in_i32, two31; nia). reflexivity. Qed.

Lemma frag_required_bounds len mpl : 32 <= mpl -> mpl < len ->
  len + 32 <= frag_required_spec len mpl <= 2 * len + 63.
Proof. intros Hm Hl. unfold frag_required_spec. rewrite HDR_eq, FA_eq.
  pose proof (Z.mod_pos_bound len mpl ltac:(lia)) as Hr.
  pose proof (Z.div_mod len mpl ltac:(lia)) as Hd.
  assert (Hq : 1 <= len / mpl) by (apply Z.div_le_lower_bound; lia).
  assert (Hq3 : 32 * (len / mpl) <= len) by nia.
  destruct (0 <? len mod mpl) eqn:Er.
  - pose proof (align_bounds (len mod mpl + 32) ltac:(lia)) as [Ha _]. nia.
  - assert (len mod mpl = 0) by lia. nia. Qed.

Lemma unfrag_required_bounds len : 0 <= len -> len + 32 <= unfrag_required_spec len <= len + 63.
Proof. intros H. unfold unfrag_required_spec. rewrite HDR_eq, FA_eq.
  pose proof (align_bounds (len + 32) ltac:(lia)) as [Ha _]. lia. Qed.

(* every message the length checks let through needs at most half a term *)
Lemma required_half_term l len : legal l -> 0 <= len ->
  (len <= max_payload_length l \/ len <= max_message_length l) ->
  0 < required_spec len (max_payload_length l) <= l_tlen l / 2.
Proof. intros Hl H0 Hlen. pose proof (legal_mpl l Hl) as (Hm1 & Hm2 & Hm3 & Hm4).
  pose proof (legal_tlen l Hl) as [Htl Ht8].
  assert (Hd : l_tlen l / 8 * 8 = l_tlen l).
  { pose proof (Z.div_mod (l_tlen l) 8 ltac:(lia)). lia. }
  assert (Hh : l_tlen l / 2 * 2 <= l_tlen l /\ l_tlen l < l_tlen l / 2 * 2 + 2).
  { pose proof (Z.div_mod (l_tlen l) 2 ltac:(lia)). pose proof (Z.mod_pos_bound (l_tlen l) 2 ltac:(lia)). lia. }
  unfold required_spec. destruct (len <=? max_payload_length l) eqn:E.
  - pose proof (unfrag_required_bounds len H0). lia.
  - assert (Hlen2 : len <= max_message_length l) by lia.
    pose proof (frag_required_bounds len (max_payload_length l) Hm1 ltac:(lia)). lia. Qed.

(* ---- log record plumbing ---- *)
Lemma tail_set_tail_same l i v : 0 <= i < 3 -> tail (set_tail l i v) i = v.
Proof. intros H. unfold tail, set_tail; cbn.
  destruct (i =? 0) eqn:E0; cbn; [reflexivity|]. destruct (i =? 1) eqn:E1; cbn; reflexivity. Qed.
Lemma tail_set_tail_other l i j v : 0 <= i < 3 -> 0 <= j < 3 -> i <> j -> tail (set_tail l i v) j = tail l j.
Proof. intros Hi Hj Hn. unfold tail, set_tail; cbn.
  destruct (i =? 0) eqn:E0; destruct (i =? 1) eqn:E1; destruct (j =? 0) eqn:F0; destruct (j =? 1) eqn:F1;
    cbn; try reflexivity; lia. Qed.
Lemma tail_set_part l i t j : tail (set_part l i t) j = tail l j.
Proof. reflexivity. Qed.
Lemma part_set_part_same l i t : 0 <= i < 3 -> part (set_part l i t) i = t.
Proof. intros H. unfold part, set_part; cbn.
  destruct (i =? 0) eqn:E0; cbn; [reflexivity|]. destruct (i =? 1) eqn:E1; cbn; reflexivity. Qed.
Lemma part_set_part_other l i j t : 0 <= i < 3 -> 0 <= j < 3 -> i <> j -> part (set_part l i t) j = part l j.
Proof. intros Hi Hj Hn. unfold part, set_part; cbn.
  destruct (i =? 0) eqn:E0; destruct (i =? 1) eqn:E1; destruct (j =? 0) eqn:F0; destruct (j =? 1) eqn:F1;
    cbn; try reflexivity; lia. Qed.
Lemma part_set_tail l i v j : part (set_tail l i v) j = part l j.
Proof. reflexivity. Qed.

Lemma same_geom_set_tail l i v : same_geom l (set_tail l i v). Proof. repeat split. Qed.
Lemma same_geom_set_part l i t : same_geom l (set_part l i t). Proof. repeat split. Qed.
Lemma same_geom_set_count l c : same_geom l (set_count l c). Proof. repeat split. Qed.
Lemma same_geom_set_limit l c : same_geom l (set_limit l c). Proof. repeat split. Qed.
Lemma same_geom_set_connected l c : same_geom l (set_connected l c). Proof. repeat split. Qed.
Lemma same_geom_put_padding l i off tid : same_geom l (put_padding l i off tid).
Proof. unfold put_padding. destruct (off <? l_tlen l); repeat split. Qed.

(* fields other than the partitions *)
Definition same_meta (a b : log) : Prop :=
  l_t0 a = l_t0 b /\ l_t1 a = l_t1 b /\ l_t2 a = l_t2 b /\ l_count a = l_count b /\ l_limit a = l_limit b /\
  l_connected a = l_connected b /\ same_geom a b.
Lemma same_meta_set_part l i t : same_meta l (set_part l i t). Proof. repeat split. Qed.
Lemma same_meta_put_padding l i off tid : same_meta l (put_padding l i off tid).
Proof. unfold put_padding. destruct (off <? l_tlen l); repeat split. Qed.
Lemma same_meta_tail a b i : same_meta a b -> tail a i = tail b i.
Proof. intros (H0 & H1 & H2 & _). unfold tail. rewrite H0, H1, H2. reflexivity. Qed.

(* ---- the raw tail of a partition that carries (term id, offset) ---- *)
Lemma raw_mod tid off : 0 <= off < two32 -> (tid * two32 + off) mod two32 = off.
Proof. intros H. rewrite Z.add_comm. rewrite Z_mod_plus_full. apply Z.mod_small. assumption. Qed.

Lemma raw_tid tid off : in_i32 tid = true -> 0 <= off < two32 -> term_id_of (tid * two32 + off) = tid.
Proof. intros Ht Ho. pose proof (term_id_of_raw_off tid off Ht Ho) as H. unfold raw_tail_of_term in H. exact H. Qed.

Lemma raw_wrap64 tid off : in_i32 tid = true -> 0 <= off < two32 -> wrap64 (tid * two32 + off) = tid * two32 + off.
Proof. intros Ht Ho. apply wrap64_id. unfold in_i32, in_i64, two31, two32, two63 in *. lia. Qed.

Lemma tail_claim_ok l idx tid off req :
  0 <= idx < 3 -> in_i32 tid = true -> 0 <= off -> 0 <= req -> off + req < two32 ->
  tail l idx = tid * two32 + off ->
  tail_claim l idx req tid = Ok (mkClaimed (set_tail l idx (tid * two32 + (off + req))) off tid).
Proof. intros Hi Ht Ho Hr Hs Htail. unfold tail_claim. rewrite Htail.
  rewrite raw_mod by lia. rewrite raw_tid by (auto; lia). rewrite Z.eqb_refl.
  replace (tid * two32 + off + req) with (tid * two32 + (off + req)) by ring.
  rewrite raw_wrap64 by (auto; lia). reflexivity. Qed.

(* ---- what an append flavour does, as far as flow control is concerned ----
   Given that partition idx carries (tid, off): the tail moves by req; when the message fits only partition idx is written,
   the result is the new offset; otherwise a padding frame is laid from off and the result is TERM_APPENDER_FAILED. *)
Definition act_spec (l : log) (idx tid off req : Z) (r : outcome appended) : Prop :=
  exists a, r = Ok a /\
    let l1 := set_tail l idx (tid * two32 + (off + req)) in
    if off + req <=? l_tlen l
    then a_result a = off + req /\ exists t', a_log a = set_part l1 idx t'
    else a_result a = TERM_APPENDER_FAILED /\ a_log a = put_padding l1 idx off tid /\ a_claim a = None.

Lemma wrap32_small v : 0 <= v < 2147483648 -> wrap32 v = v.
Proof. intros. apply wrap32_id. unfold in_i32, two31. lia. Qed.

Section Acts.
Variables (m : mode) (rv : Z -> Z -> list Z -> Z) (l : log) (idx tid off : Z).
Hypothesis Hl : legal l.
Hypothesis Hi : 0 <= idx < 3.
Hypothesis Ht : in_i32 tid = true.
Hypothesis Ho : 0 <= off < 2147483648.
Hypothesis Htail : tail l idx = tid * two32 + off.

Lemma ta_claim_spec len : 0 <= len <= max_payload_length l ->
  act_spec l idx tid off (align (len + 32) 32) (ta_claim m l idx len tid).
Proof. intros Hlen. pose proof (legal_mpl l Hl) as (Hm1 & Hm2 & Hm3 & Hm4). pose proof (legal_tlen l Hl) as [Htl _].
  assert (Hd : l_tlen l / 8 <= l_tlen l) by (apply Z.div_le_upper_bound; lia).
  unfold ta_claim. rewrite unfrag_lengths_ok by lia. cbn [bind].
  pose proof (align_bounds (len + 32) ltac:(lia)) as [Ha _].
  rewrite (tail_claim_ok l idx tid off) by (auto; unfold two32; lia). cbn [bind c_off c_log c_tid].
  unfold act_spec. destruct (off + align (len + 32) 32 <=? l_tlen l) eqn:E.
  - assert (E2 : (l_tlen l <? off + align (len + 32) 32) = false) by lia. rewrite E2.
    assert (E3 : (off + (len + 32) <=? l_tlen l) = true).
    { change (l_tlen (set_tail l idx (tid * two32 + (off + align (len + 32) 32)))) with (l_tlen l). lia. }
    change (l_tlen (set_tail l idx (tid * two32 + (off + align (len + 32) 32)))) with (l_tlen l).
    rewrite E3. eexists. split; [reflexivity|]. cbn [a_result a_log]. split.
    + apply wrap32_small. lia.
    + eexists. reflexivity.
  - assert (E2 : (l_tlen l <? off + align (len + 32) 32) = true) by lia. rewrite E2.
    eexists. split; [reflexivity|]. cbn. repeat split; reflexivity. Qed.

Lemma ta_unfrag_spec msg : zlen msg <= max_payload_length l ->
  act_spec l idx tid off (align (zlen msg + 32) 32) (ta_append_unfragmented m rv l idx msg tid).
Proof. intros Hlen. assert (H0 : 0 <= zlen msg) by (unfold zlen; lia).
  pose proof (legal_mpl l Hl) as (Hm1 & Hm2 & Hm3 & Hm4). pose proof (legal_tlen l Hl) as [Htl _].
  assert (Hd : l_tlen l / 8 <= l_tlen l) by (apply Z.div_le_upper_bound; lia).
  unfold ta_append_unfragmented. rewrite unfrag_lengths_ok by lia. cbn [bind].
  pose proof (align_bounds (zlen msg + 32) ltac:(lia)) as [Ha _].
  rewrite (tail_claim_ok l idx tid off) by (auto; unfold two32; lia). cbn [bind c_off c_log c_tid].
  unfold act_spec. destruct (off + align (zlen msg + 32) 32 <=? l_tlen l) eqn:E.
  - assert (E2 : (l_tlen l <? off + align (zlen msg + 32) 32) = false) by lia. rewrite E2.
    eexists. split; [reflexivity|]. cbn [a_result a_log]. split.
    + apply wrap32_small. lia.
    + eexists. reflexivity.
  - assert (E2 : (l_tlen l <? off + align (zlen msg + 32) 32) = true) by lia. rewrite E2.
    eexists. split; [reflexivity|]. cbn. repeat split; reflexivity. Qed.

Lemma ta_frag_spec msg : max_payload_length l < zlen msg <= max_message_length l ->
  act_spec l idx tid off (frag_required_spec (zlen msg) (max_payload_length l))
           (ta_append_fragmented m rv l idx msg (max_payload_length l) tid).
Proof. intros Hlen.
  pose proof (legal_mpl l Hl) as (Hm1 & Hm2 & Hm3 & Hm4). pose proof (legal_tlen l Hl) as [Htl _].
  assert (Hd : l_tlen l / 8 <= l_tlen l) by (apply Z.div_le_upper_bound; lia).
  unfold ta_append_fragmented. rewrite frag_required_ok by lia. cbn [bind].
  pose proof (frag_required_bounds (zlen msg) (max_payload_length l) Hm1 ltac:(lia)) as Hb.
  rewrite (tail_claim_ok l idx tid off) by (auto; unfold two32; lia). cbn [bind c_off c_log c_tid].
  unfold act_spec. destruct (off + frag_required_spec (zlen msg) (max_payload_length l) <=? l_tlen l) eqn:E.
  - assert (E2 : (l_tlen l <? off + frag_required_spec (zlen msg) (max_payload_length l)) = false) by lia. rewrite E2.
    eexists. split; [reflexivity|]. cbn [a_result a_log]. split.
    + apply wrap32_small. lia.
    + eexists. reflexivity.
  - assert (E2 : (l_tlen l <? off + frag_required_spec (zlen msg) (max_payload_length l)) = true) by lia. rewrite E2.
    eexists. split; [reflexivity|]. cbn. repeat split; reflexivity. Qed.
End Acts.
