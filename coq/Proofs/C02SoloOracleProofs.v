(* The collapse check (Oracle/C02SoloOracle.v) is true on every complete solo run of the thread model. *)
Require Import V.Base.MachineInt.
Require Import V.Generated.GenConsts.
Require Import V.Model.LogBase.
Require Import V.Model.Descriptor.
Require Import V.Model.Sched.
Require Import V.Model.AppenderThreads.
Require Import V.Model.Appender.
Require Import V.Model.Publication.
Require Import V.Oracle.C02Oracle.
Require Import V.Oracle.C02SoloOracle.
Require Import V.Proofs.FragArith.
Require Import V.Proofs.C02Solo.
Require Import V.Proofs.C02Collapse.
Require Import V.Proofs.C02CollapseRun.
Open Scope Z_scope.

Lemma err_eqb_refl e : err_eqb e e = true.
Proof. destruct e; cbn; try reflexivity; apply Z.eqb_refl. Qed.
Lemma outcome_eqb_refl r : outcome_eqb r r = true.
Proof. destruct r; cbn; try reflexivity; [apply Z.eqb_refl | apply err_eqb_refl]. Qed.
Lemma res_eqb_refl l : res_eqb l l = true.
Proof. induction l as [|x r IH]; [reflexivity|]. cbn [res_eqb]. rewrite outcome_eqb_refl, IH. reflexivity. Qed.
Lemma words_eqb_refl l : words_eqb l l = true.
Proof. induction l as [|[o v] r IH]; [reflexivity|]. cbn [words_eqb]. rewrite !Z.eqb_refl, IH. reflexivity. Qed.
Lemma zs_eqb_refl l : zs_eqb l l = true.
Proof. induction l as [|x r IH]; [reflexivity|]. cbn [zs_eqb]. rewrite Z.eqb_refl, IH. reflexivity. Qed.
Lemma parts_eqb_refl l : parts_eqb l l = true.
Proof. induction l as [|x r IH]; [reflexivity|]. cbn [parts_eqb]. rewrite words_eqb_refl, IH. reflexivity. Qed.

Theorem solo_oracle_model c (W : wf_cfg c) (Wm : c_mtu c <= 268435456) m t msgs budget limit s' l' trt :
  (forall msg, In msg msgs -> FragArith.zlen msg < two31) ->
  ssteps c t (init_shared c limit) (p_start msgs budget []) s' l' -> p_pc l' = PDone ->
  solo_ok m c msgs budget limit (trt, [(Done, p_res l')], dump c s', @nil (Z * Z * Z * Z * list Z)) = true.
Proof. intros Hm H Hd. destruct (collapse_solo c W t Wm m msgs budget limit s' l' Hm H Hd) as (lg' & E & M).
  pose proof (sim_dump c s' lg' M) as Hdump.
  unfold solo_ok, dump. rewrite E, Hdump. cbn [status_eqb andb].
  rewrite res_eqb_refl, Z.eqb_refl, zs_eqb_refl, parts_eqb_refl. reflexivity. Qed.
